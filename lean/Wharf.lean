-- Root of the `Wharf` library: model, generated ties, proofs and property theorems.
import Wharf.Model.Basic
import Wharf.Model.Util
import Wharf.Model.Rsync
