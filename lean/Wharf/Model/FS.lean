/-
  An abstract filesystem: a finite tree of files, directories and symlinks with the handful of calls
  the code uses and the POSIX error classes it distinguishes.  Intermediate symlinks are resolved
  inside the tree.  This model is NOT verified against Linux; it is validated by the correspondence
  (the harness snapshots real temp directories) and is part of the trusted base.
  Out of scope: permissions, mtimes, hard links, case-insensitive filesystems, Windows paths.
-/
import Wharf.Model.Basic

namespace Wharf.FS
open Wharf

abbrev Path := List String

inductive Node where
  | file (data : List Byte)
  | dir
  | symlink (dest : String)
  deriving Repr, BEq, DecidableEq

inductive Err where
  | enoent | enotdir | enotempty | eisdir | eexist | einval | eloop
  deriving Repr, BEq, DecidableEq

/-- The tree: association list from absolute (root-relative) paths to nodes. The root `[]` is an implicit
    directory. Invariant (`WF`): keys are distinct and every proper prefix of a key is a `dir` key. -/
structure Tree where
  entries : List (Path × Node) := []
  deriving Repr

def Tree.get (t : Tree) (p : Path) : Option Node :=
  if p = [] then some .dir else (t.entries.find? (fun e => e.1 == p)).map (·.2)

def Tree.erase (t : Tree) (p : Path) : Tree := { entries := t.entries.filter (fun e => e.1 != p) }

def Tree.set (t : Tree) (p : Path) (n : Node) : Tree := { entries := (t.erase p).entries ++ [(p, n)] }

def isPrefix (p q : Path) : Bool := p.length < q.length && q.take p.length == p

/-- children (strict descendants) of `p` -/
def Tree.under (t : Tree) (p : Path) : List (Path × Node) := t.entries.filter (fun e => isPrefix p e.1)

def Tree.eraseTree (t : Tree) (p : Path) : Tree :=
  { entries := t.entries.filter (fun e => e.1 != p && !isPrefix p e.1) }

def splitDest (s : String) : List String := (s.splitOn "/").filter (fun c => c != "" && c != ".")

/-- Resolve the directory part of `p` (all components but the last), following symlinks; returns the
    canonical path whose last component is left as it is (`lstat` semantics). -/
def resolve (t : Tree) : Nat → Path → Path → Except Err Path
  | 0, _, _ => .error .eloop
  | _, done, [] => .ok done
  | _, done, [last] => .ok (done ++ [last])
  | fuel + 1, done, c :: rest =>
    if c = ".." then resolve t fuel done.dropLast rest
    else
      match t.get (done ++ [c]) with
      | none => .error .enoent
      | some (.file _) => .error .enotdir
      | some .dir => resolve t fuel (done ++ [c]) rest
      | some (.symlink dest) =>
        if dest.startsWith "/" then .error .enoent   -- leaves the tree
        else resolve t fuel done (splitDest dest ++ rest)

def canon (t : Tree) (p : Path) : Except Err Path := resolve t (4 * (p.length + 8)) [] p

/-- `lstat`. -/
def lstat (t : Tree) (p : Path) : Except Err Node := do
  let q ← canon t p
  match t.get q with
  | some n => .ok n
  | none => .error .enoent

/-- `stat`/open: follows a final symlink as well (one level of chaining handled by fuel). -/
def statFollow (t : Tree) : Nat → Path → Except Err (Path × Node)
  | 0, _ => .error .eloop
  | fuel + 1, p => do
    let q ← canon t p
    match t.get q with
    | none => .error .enoent
    | some (.symlink dest) =>
      if dest.startsWith "/" then .error .enoent
      else statFollow t fuel (q.dropLast ++ splitDest dest)
    | some n => .ok (q, n)

/-- read a regular file (following symlinks) -/
def readFile (t : Tree) (p : Path) : Except Err (List Byte) := do
  let (_, n) ← statFollow t 8 p
  match n with
  | .file d => .ok d
  | .dir => .error .eisdir
  | .symlink _ => .error .eloop

def readlink (t : Tree) (p : Path) : Except Err String := do
  match ← lstat t p with
  | .symlink d => .ok d
  | _ => .error .einval

/-- `mkdir -p`: creates missing directories; fails with ENOTDIR if a component is a file. -/
def mkdirAll (t : Tree) : Nat → Path → Path → Except Err Tree
  | 0, _, _ => .error .eloop
  | _, _, [] => .ok t
  | fuel + 1, done, c :: rest =>
    let here := done ++ [c]
    match statFollow t 8 here with
    | .ok (q, .dir) => mkdirAll t fuel q rest
    | .ok (_, _) => .error .enotdir
    | .error .enoent =>
      -- create (the parent `done` is canonical and a directory)
      match canon t here with
      | .ok q => mkdirAll (t.set q .dir) fuel q rest
      | .error e => .error e
    | .error e => .error e

def mkdirs (t : Tree) (p : Path) : Except Err Tree := mkdirAll t (4 * (p.length + 8)) [] p

/-- `os.Remove`: files, symlinks and EMPTY directories. -/
def remove (t : Tree) (p : Path) : Except Err Tree := do
  let q ← canon t p
  match t.get q with
  | none => .error .enoent
  | some .dir => if (t.under q).isEmpty then .ok (t.erase q) else .error .enotempty
  | some _ => .ok (t.erase q)

/-- `os.RemoveAll`: never fails on a missing path. -/
def removeAll (t : Tree) (p : Path) : Except Err Tree :=
  match canon t p with
  | .error .enoent => .ok t
  | .error .enotdir => .ok t      -- os.RemoveAll treats ENOTDIR like "nothing there"
  | .error e => .error e
  | .ok q => .ok (t.eraseTree q)

/-- create or truncate a regular file (O_CREATE|O_TRUNC), writing `data`. Parent must exist. -/
def writeFile (t : Tree) (p : Path) (data : List Byte) : Except Err Tree := do
  let q ← canon t p
  match t.get q.dropLast with
  | some .dir =>
    match t.get q with
    | some .dir => .error .eisdir
    | some (.symlink dest) =>
      -- open follows the symlink
      if dest.startsWith "/" then .error .enoent
      else
        let q' ← canon t (q.dropLast ++ splitDest dest)
        match t.get q' with
        | some .dir => .error .eisdir
        | _ => match t.get q'.dropLast with
          | some .dir => .ok (t.set q' (.file data))
          | _ => .error .enoent
    | _ => .ok (t.set q (.file data))
  | _ => .error .enoent

def symlink (t : Tree) (dest : String) (p : Path) : Except Err Tree := do
  let q ← canon t p
  match t.get q.dropLast, t.get q with
  | some .dir, none => .ok (t.set q (.symlink dest))
  | some .dir, some _ => .error .eexist
  | _, _ => .error .enoent

/-- `os.Rename(old, new)`: replaces a file/symlink or an empty directory at `new`; moves subtrees. -/
def rename (t : Tree) (o n : Path) : Except Err Tree := do
  let qo ← canon t o
  let qn ← canon t n
  match t.get qo with
  | none => .error .enoent
  | some node =>
    if isPrefix qo qn then .error .einval   -- a directory cannot be moved into itself
    else
    match t.get qn.dropLast with
    | some .dir =>
      let clash : Except Err Unit := match node, t.get qn with
        | _, none => .ok ()
        | .dir, some .dir => if (t.under qn).isEmpty then .ok () else .error .enotempty
        | .dir, some _ => .error .enotdir
        | _, some .dir => .error .eisdir
        | _, some _ => .ok ()
      match clash with
      | .error e => .error e
      | .ok () =>
        let moved := (t.under qo).map fun (p, nd) => (qn ++ p.drop qo.length, nd)
        let t1 := (t.eraseTree qn).eraseTree qo
        .ok { entries := t1.entries ++ [(qn, node)] ++ moved }
    | _ => .error .enoent

/-- Canonical listing for comparison: sorted by path. -/
def Tree.listing (t : Tree) : List (Path × Node) :=
  t.entries.mergeSort (fun a b => decide (String.intercalate "/" a.1 ≤ String.intercalate "/" b.1))

end Wharf.FS
