/-
  Model of the entry writers' checkpoint/resume behaviour (pwr/bowl/bowl_fresh.go:freshEntryWriter,
  tlc.Container.Prepare) and of the crash states a resumed application starts from.

  A series contributes a sequence of chunks (the bytes each applied message writes).  The fresh writer
  writes them at increasing offsets into a file that `Prepare` has pre-sized to the final size without
  truncating it to zero ("we might be resuming"), reopening WITHOUT truncation and seeking to the saved
  offset on resume.
-/
import Wharf.Model.Basic
import Wharf.Model.Commit

namespace Wharf.Resume
open Wharf

/-- `Prepare` on an existing or missing output file: size it to `n` (cut, or extend with zeros), keep content. -/
def prepare (disk : List Byte) (n : Nat) : List Byte :=
  if disk.length ≥ n then disk.take n else disk ++ List.replicate (n - disk.length) 0

/-- write `bytes` at `offset` (file grows if needed; a gap is zero filled) -/
def writeAt (disk : List Byte) (offset : Nat) (bytes : List Byte) : List Byte :=
  let base := if disk.length < offset then disk ++ List.replicate (offset - disk.length) 0 else disk
  base.take offset ++ bytes ++ base.drop (offset + bytes.length)

/-- write chunks sequentially from `offset`; returns the file and the final offset -/
def writeChunks : List (List Byte) → List Byte → Nat → List Byte × Nat
  | [], disk, off => (disk, off)
  | c :: cs, disk, off => writeChunks cs (writeAt disk off c) (off + c.length)

/-- an uninterrupted application of a series with chunks `cs` to a fresh output of final size `n` -/
def uninterrupted (cs : List (List Byte)) (n : Nat) : List Byte :=
  (writeChunks cs (prepare [] n) 0).1

/-- a crash after the checkpoint taken when `j` chunks were written: the bytes below the checkpointed
    offset are durable (fsync before the offset is reported); everything else on disk is arbitrary
    (`crashDisk` is any file agreeing with the written prefix).  The resumed application prepares again,
    seeks to the offset and writes the remaining chunks. -/
def resumed (cs : List (List Byte)) (n j : Nat) (crashDisk : List Byte) : List Byte :=
  let off := ((cs.take j).flatten).length
  (writeChunks (cs.drop j) (prepare crashDisk n) off).1

end Wharf.Resume
