/-
  Transition-system model of `ValidatorContext.Validate` in fail-fast mode WITH VALUES
  (pwr/validator.go, pwr/wounds.go, pwr/validatingpool.go).

  It refines the control structure of `Wharf.ValidateTS` (same goroutines, same channels, same blocking
  conditions) and adds what that system abstracts away:

  * every wound carries `real : Bool` (`false` = a healthy `WoundKind_CLOSED_FILE` marker, wounds.go:328-330);
    the wounds channel is a FIFO queue of such flags;
  * the two one-slot error channels carry `nil` or an error (`Option Err`, `none` = Go's `nil`);
  * the consumer is the `WoundsGuardian` (wounds.go:58-83): `nil` only when it sees the closed, empty channel,
    `ErrHasWound` at the first real wound, `werrors.ErrCancelled` on `ctx.Done()`; when both a wound and
    `ctx.Done()` are ready EITHER arm may be taken (two labels enabled in the same state);
  * the worker's result (`nil` / an I/O error), including the two places where the worker goroutine ends
    WITHOUT running `errs <- retErr` through the deferred function (validator.go:306 and 312-315);
  * main's `retErr` bookkeeping, statement by statement (validator.go:248, 257-261, 263-267, 277-282, 287-292),
    its early returns (validator.go:179, 230) and `ret` = the value `Validate` returns (validator.go:294).

  What is static is in `Cfg`: the channel capacity and what a COMPLETE validation of the directory would
  emit — per dir/symlink entry whether it deviates (`preBad`, one `WoundKind_DIR`/`WoundKind_SYMLINK` wound,
  always real), per file the number of wounds/markers that leave the per-file aggregator (`woundsOf`) and
  which of them are real (`realOf`).

  Abstractions (all on the safe side for the verdict property: the model has at least the behaviours of the
  code):
  * the per-file relay and aggregator goroutines (validatingpool.go:72-79, wounds.go:259-300) are folded into
    the worker; they are joined before the file's writer is closed (validatingpool.go:114-118, the deferred
    `writer.Close()` of validator.go:382), i.e. before `doOne` returns; the aggregator only merges real
    `WoundKind_FILE` wounds with each other and forwards markers unchanged, so "some wound of file i is real"
    is the same before and after it;
  * EVERY wound send may be abandoned once `cancelled` is closed (`mainPreDrop`, `workerDropWound`), although
    in the code only the sends of validator.go:201-204, 343-346, 412-415 are inside a `select` with
    `<-cancelled`; the sends of validator.go:173, 184, 236 and validatingpool.go:75 are unconditional;
  * I/O failures (`mainPreFail`, `workerPoolFail`, `workerFails`, `workerCloseFails`) and the context
    cancellation (`ctxCancel`) are environment steps that may fire whenever the code is at the statement;
  * the statements of one `case` body of main's `select` are executed atomically (the channels they touch are
    not touched by anybody else in between: the sender of the received value has already gone).

  Ghost fields (never read by a guard): `dispatched`, `filesDone`, `dropped`, `sentReal`, `doResult`,
  `ioFailed`, `closeFailed`.
-/
import Wharf.Model.Basic

namespace Wharf.ValidateVerdict

/-- the error values that matter for the verdict -/
inductive Err where
  | hasWound     -- `&ErrHasWound{…}` (wounds.go:73-76)
  | cancelled    -- `werrors.ErrCancelled` (wounds.go:80)
  | other        -- any I/O error (validator.go:179, 230, 306, 379, 394)
  deriving Repr, DecidableEq

/-- static parameters of a run -/
structure Cfg where
  cap : Nat                   -- capacity of `vctx.Wounds` (validator.go:62: 1024)
  npre : Nat                  -- number of dir + symlink entries of the container
  preBad : Nat → Bool         -- entry i deviates: the dir/symlink pass emits one (real) wound for it
  nfiles : Nat                -- `len(signature.Container.Files)`
  woundsOf : Nat → Nat        -- number of wounds/markers a complete `doOne(i)` emits
  realOf : Nat → Nat → Bool   -- is the k-th of them a real wound (`!wound.Healthy()`)

/-- main goroutine program counter -/
inductive MainPC where
  | pre (i : Nat)       -- dir + symlink pass (validator.go:168-242), next entry i; at i = npre: spawn the worker
  | loop (i : Nat)      -- dispatch loop (validator.go:251-272), next file index i
  | closed              -- fileIndices closed (validator.go:274), at `err := <-workerErrs` (validator.go:277)
  | woundsClosed        -- wounds closed (validator.go:284), at `cErr := <-consumerErrs` (validator.go:287)
  | returned            -- `return retErr` executed (validator.go:294)
  | failed              -- early `return err` of the dir/symlink pass executed (validator.go:179, 230)
  deriving Repr, DecidableEq

inductive WorkerPC where
  | unborn                    -- `go vctx.validate(…)` (validator.go:246) not executed yet
  | starting                  -- at `pools.New` (validator.go:304)
  | newErr                    -- `pools.New` failed: at `errs <- err` (validator.go:306)
  | idle                      -- in the `select` on fileIndices / cancelled (validator.go:422-439)
  | file (i k : Nat)          -- inside `doOne(i)`: k wounds emitted (sent or abandoned) so far
  | exiting (r : Option Err)  -- in the deferred function (validator.go:310-318) with `retErr = r`
  | gone
  deriving Repr, DecidableEq

inductive ConsumerPC where
  | running                   -- inside `WoundsGuardian.Do` (wounds.go:58-83)
  | sending (r : Option Err)  -- `Do` returned r: at `consumerErrs <- …` (validator.go:159)
  | draining                  -- "throw away wounds until closed" (validator.go:162-164)
  | gone
  deriving Repr, DecidableEq

structure St where
  main : MainPC
  worker : WorkerPC
  consumer : ConsumerPC
  wounds : List Bool := []                       -- `vctx.Wounds`: realness of the buffered wounds, oldest first
  woundsClosed : Bool := false
  workerErrs : Option (Option Err) := none       -- `workerErrs` (capacity 1): empty / holds a value
  consumerErrs : Option (Option Err) := none     -- `consumerErrs` (capacity 1)
  fileIndicesClosed : Bool := false
  cancelled : Bool := false                      -- the `cancelled` channel is closed
  ctxDone : Bool := false
  retErr : Option Err := none                    -- main's `retErr` (validator.go:248)
  ret : Option (Option Err) := none              -- `some v`: `Validate` has returned v
  -- ghost
  dispatched : Nat := 0                          -- files handed to the worker
  filesDone : Nat := 0                           -- files for which `doOne` returned nil
  dropped : Bool := false                        -- some wound send was abandoned on `<-cancelled`
  sentReal : Bool := false                       -- some real wound was put into the channel
  doResult : Option (Option Err) := none         -- `some r`: `WoundsGuardian.Do` has returned r
  ioFailed : Bool := false                       -- some I/O failure step happened
  closeFailed : Bool := false                    -- `targetPool.Close()` failed in the worker's deferred function

/-- `if err != nil { if retErr == nil { retErr = err } }` (validator.go:278-282 and 288-292) -/
def mergeErr (retErr err : Option Err) : Option Err :=
  if err ≠ none then (if retErr = none then err else retErr) else retErr

inductive Lbl where
  | ctxCancel            -- environment: the caller's context is cancelled (any instant, also before the start)
  | mainPreOk            -- dir/symlink pass: the entry is as signed (validator.go:168-190 / 192-242 fall through)
  | mainPreWound         -- dir/symlink pass: the wound goes into the channel (validator.go:173, 184, 202, 236)
  | mainPreDrop          -- dir/symlink pass: `case <-cancelled:` (validator.go:203)
  | mainPreFail          -- dir/symlink pass: `return err` (validator.go:179, 230)
  | mainSpawn            -- `go vctx.validate(…)`; `var retErr error`; `sending := true` (validator.go:244-249)
  | mainDispatch         -- `case fileIndices <- int64(fileIndex):` (validator.go:269) = worker's receive (validator.go:423)
  | mainSeesWorkerErr    -- `case workerErr := <-workerErrs:` … (validator.go:257-261)
  | mainSeesConsumerErr  -- `case consumerErr := <-consumerErrs:` … (validator.go:263-267)
  | mainCloseIndices     -- loop ends (validator.go:251-254); `close(fileIndices)` (validator.go:274)
  | mainJoinWorker       -- `err := <-workerErrs` … `close(vctx.Wounds)` (validator.go:277-284)
  | mainJoinConsumer     -- `cErr := <-consumerErrs` … `return retErr` (validator.go:287-294)
  | workerPoolOk         -- `pools.New` succeeded (validator.go:304-329)
  | workerPoolFail       -- `pools.New` failed (validator.go:305)
  | workerSendNewErr     -- `errs <- err; return` (validator.go:306-307): no deferred function yet
  | workerSendWound      -- a wound/marker of the current file goes into the channel (validator.go:344, 413; validatingpool.go:75)
  | workerDropWound      -- `case <-cancelled:` (validator.go:345, 414)
  | workerFinishFile     -- `doOne` returns nil (validator.go:356, 362, 373, 418)
  | workerFails          -- `doOne` returns an error (validator.go:379, 394) → `retErr = err; return` (validator.go:430-434)
  | workerSeesClosed     -- `case fileIndex, ok := <-fileIndices: if !ok { return }` (validator.go:423-427)
  | workerSeesCancelled  -- `case <-cancelled: return` (validator.go:436-438)
  | workerExit           -- deferred: `targetPool.Close()` fine; `errs <- retErr` (validator.go:311-317)
  | workerCloseFails     -- deferred: `targetPool.Close()` fails; `retErr = …; return` WITHOUT sending (validator.go:311-315)
  | guardTakeHealthy     -- `case wound := <-wounds:` … `if wound.Healthy() { continue }` (wounds.go:61, 67-69)
  | guardTakeReal        -- `case wound := <-wounds:` … `return &ErrHasWound{…}` (wounds.go:61, 71-76)
  | guardSeesClosed      -- `case wound := <-wounds: if wound == nil { return nil }` (wounds.go:61-65)
  | guardCtx             -- `case <-ctx.Done(): return werrors.ErrCancelled` (wounds.go:77-80)
  | consumerSend         -- `consumerErrs <- vctx.WoundsConsumer.Do(…)` (validator.go:159)
  | drainTake            -- `for range vctx.Wounds {}`: discard a wound (validator.go:162-164)
  | drainDone            -- `for range vctx.Wounds {}`: channel closed and empty; goroutine ends (validator.go:162-165)
  deriving Repr, DecidableEq

def step (c : Cfg) (s : St) : Lbl → Option St
  -- environment: `ctx` is cancelled
  | .ctxCancel => if s.ctxDone then none else some { s with ctxDone := true }
  -- validator.go:168-190 (dirs), 192-242 (symlinks): entry i is as signed, no wound
  | .mainPreOk =>
    match s.main with
    | .pre i => if i < c.npre ∧ c.preBad i = false then some { s with main := .pre (i + 1) } else none
    | _ => none
  -- validator.go:173-176, 184-187, 236-239 (`vctx.Wounds <- &Wound{…}`) and 202 (`case vctx.Wounds <- wound:`):
  -- blocks while the channel is full; DIR / SYMLINK wounds are never `Healthy()`
  | .mainPreWound =>
    match s.main with
    | .pre i =>
      if i < c.npre ∧ c.preBad i = true ∧ s.wounds.length < c.cap then
        some { s with main := .pre (i + 1), wounds := s.wounds ++ [true], sentReal := true }
      else none
    | _ => none
  -- validator.go:203 (`case <-cancelled:` in doWholeSymlinkWound): the wound is abandoned
  | .mainPreDrop =>
    match s.main with
    | .pre i =>
      if i < c.npre ∧ c.preBad i = true ∧ s.cancelled = true then
        some { s with main := .pre (i + 1), dropped := true }
      else none
    | _ => none
  -- validator.go:179 (`return err` after a failed Lstat), 230 (`return errors.WithStack(err)` after Readlink)
  | .mainPreFail =>
    match s.main with
    | .pre i => if i < c.npre then some { s with main := .failed, ret := some (some .other), ioFailed := true } else none
    | _ => none
  -- validator.go:244-249: `fileIndices := make(chan int64)`; `go vctx.validate(…)`; `var retErr error`; `sending := true`
  | .mainSpawn =>
    match s.main, s.worker with
    | .pre i, .unborn => if i < c.npre then none else some { s with main := .loop 0, worker := .starting, retErr := none }
    | _, _ => none
  -- validator.go:269 (`case fileIndices <- int64(fileIndex):`) meets validator.go:423 (`case fileIndex, ok := <-fileIndices:`)
  | .mainDispatch =>
    match s.main, s.worker with
    | .loop i, .idle =>
      if i < c.nfiles ∧ s.cancelled = false then
        some { s with main := .loop (i + 1), worker := .file i 0, dispatched := s.dispatched + 1 }
      else none
    | _, _ => none
  -- validator.go:257-261: `workerErr := <-workerErrs; workerErrs <- nil; retErr = workerErr; close(cancelled); sending = false`
  | .mainSeesWorkerErr =>
    match s.main, s.workerErrs with
    | .loop i, some v =>
      if i < c.nfiles ∧ s.cancelled = false then
        some { s with workerErrs := some none, retErr := v, cancelled := true }
      else none
    | _, _ => none
  -- validator.go:263-267: `consumerErr := <-consumerErrs; consumerErrs <- nil; retErr = consumerErr; close(cancelled); sending = false`
  | .mainSeesConsumerErr =>
    match s.main, s.consumerErrs with
    | .loop i, some v =>
      if i < c.nfiles ∧ s.cancelled = false then
        some { s with consumerErrs := some none, retErr := v, cancelled := true }
      else none
    | _, _ => none
  -- validator.go:251-254 (range exhausted, or `if !sending { break }`), 274 (`close(fileIndices)`)
  | .mainCloseIndices =>
    match s.main with
    | .loop i =>
      if i ≥ c.nfiles ∨ s.cancelled = true then some { s with main := .closed, fileIndicesClosed := true } else none
    | _ => none
  -- validator.go:277-284: `err := <-workerErrs; if err != nil { if retErr == nil { retErr = err } }; close(vctx.Wounds)`
  | .mainJoinWorker =>
    match s.main, s.workerErrs with
    | .closed, some v =>
      some { s with main := .woundsClosed, workerErrs := none, retErr := mergeErr s.retErr v, woundsClosed := true }
    | _, _ => none
  -- validator.go:287-294: `cErr := <-consumerErrs; if cErr != nil { if retErr == nil { retErr = cErr } }; return retErr`
  | .mainJoinConsumer =>
    match s.main, s.consumerErrs with
    | .woundsClosed, some v =>
      some { s with main := .returned, consumerErrs := none, retErr := mergeErr s.retErr v,
                    ret := some (mergeErr s.retErr v) }
    | _, _ => none
  -- validator.go:304-329: `pools.New` succeeded, the deferred function is registered, the worker enters its loop
  | .workerPoolOk =>
    match s.worker with
    | .starting => some { s with worker := .idle }
    | _ => none
  -- validator.go:304-305: `pools.New` returned an error
  | .workerPoolFail =>
    match s.worker with
    | .starting => some { s with worker := .newErr, ioFailed := true }
    | _ => none
  -- validator.go:306-307: `errs <- err; return` (blocks while the slot is full)
  | .workerSendNewErr =>
    match s.worker, s.workerErrs with
    | .newErr, none => some { s with worker := .gone, workerErrs := some (some .other) }
    | _, _ => none
  -- validator.go:344 / 413 (`case vctx.Wounds <- wound:`), validatingpool.go:75 (`vp.Wounds <- wound`):
  -- the k-th wound/marker of file i enters the channel; blocks while the channel is full
  | .workerSendWound =>
    match s.worker with
    | .file i k =>
      if k < c.woundsOf i ∧ s.wounds.length < c.cap then
        some { s with worker := .file i (k + 1), wounds := s.wounds ++ [c.realOf i k],
                      sentReal := s.sentReal || c.realOf i k }
      else none
    | _ => none
  -- validator.go:345 / 414 (`case <-cancelled:`): the k-th wound of file i is abandoned
  | .workerDropWound =>
    match s.worker with
    | .file i k =>
      if k < c.woundsOf i ∧ s.cancelled = true then some { s with worker := .file i (k + 1), dropped := true } else none
    | _ => none
  -- validator.go:356, 362, 373, 418 (`return nil` of doOne, after every wound of the file was emitted), back to 421
  | .workerFinishFile =>
    match s.worker with
    | .file i k => if k = c.woundsOf i then some { s with worker := .idle, filesDone := s.filesDone + 1 } else none
    | _ => none
  -- validator.go:379 / 394 (`return err` of doOne) → 429-434 (`if retErr == nil { retErr = err }; return`)
  | .workerFails =>
    match s.worker with
    | .file _ _ => some { s with worker := .exiting (some .other), ioFailed := true }
    | _ => none
  -- validator.go:423-427: `fileIndices` is closed: `return` with `retErr == nil`
  | .workerSeesClosed =>
    match s.worker with
    | .idle => if s.fileIndicesClosed = true then some { s with worker := .exiting none } else none
    | _ => none
  -- validator.go:436-438: `case <-cancelled: return` with `retErr == nil` (remaining files are skipped quietly)
  | .workerSeesCancelled =>
    match s.worker with
    | .idle => if s.cancelled = true then some { s with worker := .exiting none } else none
    | _ => none
  -- validator.go:311-317: `targetPool.Close()` returned nil; `errs <- retErr` (blocks while the slot is full)
  | .workerExit =>
    match s.worker, s.workerErrs with
    | .exiting r, none => some { s with worker := .gone, workerErrs := some r }
    | _, _ => none
  -- validator.go:311-315: `targetPool.Close()` failed: `retErr = errors.WithStack(err); return` — NOTHING is sent
  | .workerCloseFails =>
    match s.worker with
    | .exiting _ => some { s with worker := .gone, ioFailed := true, closeFailed := true }
    | _ => none
  -- wounds.go:61, 67-69: a healthy marker is received: `continue`
  | .guardTakeHealthy =>
    match s.consumer, s.wounds with
    | .running, false :: rest => some { s with wounds := rest }
    | _, _ => none
  -- wounds.go:61, 71-76: a real wound is received: `return &ErrHasWound{…}`
  | .guardTakeReal =>
    match s.consumer, s.wounds with
    | .running, true :: rest =>
      some { s with wounds := rest, consumer := .sending (some .hasWound), doResult := some (some .hasWound) }
    | _, _ => none
  -- wounds.go:61-65: the receive yields nil, i.e. the channel is closed AND empty: `return nil`
  | .guardSeesClosed =>
    match s.consumer, s.wounds with
    | .running, [] =>
      if s.woundsClosed = true then some { s with consumer := .sending none, doResult := some none } else none
    | _, _ => none
  -- wounds.go:77-80: `case <-ctx.Done(): return werrors.ErrCancelled` (may be taken whenever ctx is done,
  -- whether or not a wound is ready as well)
  | .guardCtx =>
    match s.consumer with
    | .running =>
      if s.ctxDone = true then
        some { s with consumer := .sending (some .cancelled), doResult := some (some .cancelled) }
      else none
    | _ => none
  -- validator.go:159: `consumerErrs <- …Do(…)` (blocks while the slot is full)
  | .consumerSend =>
    match s.consumer, s.consumerErrs with
    | .sending r, none => some { s with consumer := .draining, consumerErrs := some r }
    | _, _ => none
  -- validator.go:162-164: `for range vctx.Wounds {}` receives and discards a wound
  | .drainTake =>
    match s.consumer, s.wounds with
    | .draining, _ :: rest => some { s with wounds := rest }
    | _, _ => none
  -- validator.go:162-165: the range loop ends when the channel is closed and empty
  | .drainDone =>
    match s.consumer, s.wounds with
    | .draining, [] => if s.woundsClosed = true then some { s with consumer := .gone } else none
    | _, _ => none

/-- initial state: `Validate` is past its set-up (validator.go:58-98), the consumer goroutine exists
    (validator.go:158), the dir/symlink pass is about to start -/
def init : St := { main := .pre 0, worker := .unborn, consumer := .running }

inductive Reach (c : Cfg) (s₀ : St) : St → Prop where
  | refl : Reach c s₀ s₀
  | step {s s' : St} {l : Lbl} : Reach c s₀ s → step c s l = some s' → Reach c s₀ s'

/-! ### what a complete validation of the directory would report -/

/-- none of the first `n` dir/symlink entries deviates -/
def cleanPre (c : Cfg) : Nat → Bool
  | 0 => true
  | n + 1 => cleanPre c n && !c.preBad n

/-- none of the first `k` wounds/markers of file `i` is real -/
def cleanFile (c : Cfg) (i : Nat) : Nat → Bool
  | 0 => true
  | k + 1 => cleanFile c i k && !c.realOf i k

/-- none of the first `n` files has a real wound -/
def cleanFiles (c : Cfg) : Nat → Bool
  | 0 => true
  | n + 1 => cleanFiles c n && cleanFile c n (c.woundsOf n)

/-- a complete validation of the whole tree reports no real wound -/
def NoReal (c : Cfg) : Prop :=
  (∀ i, i < c.npre → c.preBad i = false) ∧ (∀ i k, i < c.nfiles → k < c.woundsOf i → c.realOf i k = false)

/-- some wound of the complete wound list is real -/
def HasReal (c : Cfg) : Prop :=
  (∃ i, i < c.npre ∧ c.preBad i = true) ∨ (∃ i k, i < c.nfiles ∧ k < c.woundsOf i ∧ c.realOf i k = true)

/-- the complete wound list of the tree, in emission order: what the guardian would receive from a validation
    that is neither interrupted nor failing (`true` = real wound, `false` = healthy marker) -/
def woundList (c : Cfg) : List Bool :=
  ((List.range c.npre).filter c.preBad).map (fun _ => true) ++
    (List.range c.nfiles).flatMap (fun i => (List.range (c.woundsOf i)).map (c.realOf i))

/-! ### undisturbed runs, concrete schedules -/

/-- an environment step that disturbs the validation: context cancellation or an I/O failure -/
def Disturbance (l : Lbl) : Prop :=
  l = .ctxCancel ∨ l = .mainPreFail ∨ l = .workerPoolFail ∨ l = .workerFails ∨ l = .workerCloseFails

/-- reachable from `init` without any disturbance -/
inductive ReachQuiet (c : Cfg) : St → Prop where
  | refl : ReachQuiet c init
  | step {s s' : St} {l : Lbl} : ReachQuiet c s → ¬ Disturbance l → step c s l = some s' → ReachQuiet c s'

/-- every label (used to state that a concrete state is completely stuck) -/
def allLbls : List Lbl :=
  [.ctxCancel, .mainPreOk, .mainPreWound, .mainPreDrop, .mainPreFail, .mainSpawn, .mainDispatch,
   .mainSeesWorkerErr, .mainSeesConsumerErr, .mainCloseIndices, .mainJoinWorker, .mainJoinConsumer,
   .workerPoolOk, .workerPoolFail, .workerSendNewErr, .workerSendWound, .workerDropWound, .workerFinishFile,
   .workerFails, .workerSeesClosed, .workerSeesCancelled, .workerExit, .workerCloseFails, .guardTakeHealthy,
   .guardTakeReal, .guardSeesClosed, .guardCtx, .consumerSend, .drainTake, .drainDone]

/-- no label at all is enabled -/
def stuck (c : Cfg) (s : St) : Bool := allLbls.all (fun l => (step c s l).isNone)

/-- no label other than the context cancellation is enabled -/
def stuckButCtx (c : Cfg) (s : St) : Bool :=
  allLbls.all (fun l => l == .ctxCancel || (step c s l).isNone)

/-- execute a list of labels; `none` if some label is not enabled -/
def run (c : Cfg) (s : St) : List Lbl → Option St
  | [] => some s
  | l :: ls => (step c s l).bind (fun s' => run c s' ls)

end Wharf.ValidateVerdict
