/-
  Model of the patch optimizer (pwr/rediff): analysis pass (which old file each new file is
  bsdiff'ed against) and the rewriting of series.
-/
import Wharf.Model.Basic
import Wharf.Model.Rsync
import Wharf.Model.Bsdiff
import Wharf.Model.Patch

namespace Wharf.Rediff
open Wharf Wharf.Patch

structure Params where
  bs : Nat
  sizeLimit : Nat
  forceMapAll : Bool
  partitions : Nat
  scanBlock : Nat

/-- Update of `bytesReusedPerFileIndex` for one BLOCK_RANGE op, with the code's own arithmetic
    (`lastBlockIndex := BlockIndex + BlockSpan`, `otherBlocksSize := BlockSize*BlockSpan - 1`): it only
    feeds a heuristic.  An out-of-range file index is rejected as a malformed patch. -/
def reuseOf (P : Params) (oldSizes : Array Nat) (op : SyncOp) : Outcome (Nat × Int) :=
  (idx oldSizes.size op.fileIndex "analyzePatch targetContainer.Files[rop.FileIndex]").bind fun f =>
    let lastBlockIndex := op.blockIndex + op.blockSpan
    let fsz : Int := oldSizes.getD f 0
    let bs : Int := P.bs
    let lastBlockSize := if bs * (lastBlockIndex + 1) > fsz then Int.tmod fsz bs else bs
    .ok (f, bs * op.blockSpan - 1 + lastBlockSize)

/-- Accumulated origins in first-seen order (the Go map's key set with its values). -/
def addOrigin (acc : List (Nat × Int)) (f : Nat) (n : Int) : List (Nat × Int) :=
  if acc.any (·.1 == f) then acc.map (fun (g, m) => if g == f then (g, m + n) else (g, m))
  else acc ++ [(f, n)]

structure Analysis where
  origins : List (Nat × Int) := []
  numBlockRange : Nat := 0
  numData : Nat := 0

/-- The op-reading loop of `analyzePatch` for one file. Returns the analysis and the remaining messages. -/
def analyzeOps (P : Params) (oldSizes : Array Nat) : List WMsg → Analysis → Outcome (Analysis × List WMsg)
  | [], _ => .err "EOF in analysis"
  | m :: rest, a =>
    let op := asSyncOp m
    if op.type = opBlockRange then
      match reuseOf P oldSizes op with
      | .ok (f, n) => analyzeOps P oldSizes rest { a with origins := addOrigin a.origins f n, numBlockRange := a.numBlockRange + 1 }
      | .err e => .err e
      | .panic p => .panic p
    else if op.type = opData then analyzeOps P oldSizes rest { a with numData := a.numData + 1 }
    else if op.type = heyYouDidIt then .ok (a, rest)
    else .err "Malformed patch, unknown sync type op"

/-- Choice among candidates visited in ascending target index: strictly more bytes wins, and on equal
    bytes a candidate with the same path as the new file wins. -/
def choose (oldPaths : Array String) (newPath : String) : List (Nat × Int) → Option (Nat × Int) → Option (Nat × Int)
  | [], best => best
  | (f, n) :: rest, best =>
    match best with
    | none => choose oldPaths newPath rest (some (f, n))
    | some (bf, bn) =>
      if n > bn ∨ (n = bn ∧ oldPaths.getD f "" = newPath) then choose oldPaths newPath rest (some (f, n))
      else choose oldPaths newPath rest (some (bf, bn))

def sortedOrigins (o : List (Nat × Int)) : List (Nat × Int) := o.mergeSort (fun a b => a.1 ≤ b.1)

/-- Mapping decision for one new file. -/
def decide' (P : Params) (oldPaths : Array String) (oldSizes : Array Nat) (newPath : String) (newSize : Nat)
    (a : Analysis) : Option (Nat × Int) :=
  if newSize = 0 ∧ !P.forceMapAll then none
  else if a.numBlockRange = 1 ∧ a.numData = 0 ∧ !P.forceMapAll then none
  else
    let best := choose oldPaths newPath (sortedOrigins a.origins) none
    let best := match best with
      | some b => some b
      | none =>
        match Patch.prefOf oldPaths.toList newPath with
        | some t => if oldSizes.getD t 0 > 0 then some (t, 0) else none
        | none => none
    let best := if newSize > P.sizeLimit then none else best
    match best with
    | some (t, n) => if oldSizes.getD t 0 > P.sizeLimit then none else some (t, n)
    | none => none

/-- `analyzePatch`: one optional mapping per new file. -/
def analyze (P : Params) (oldPaths : Array String) (oldSizes : Array Nat) :
    List (String × Nat) → Nat → List WMsg → Outcome (List (Option (Nat × Int)))
  | [], _, _ => .ok []
  | (path, size) :: rest, i, msgs =>
    match msgs with
    | [] => .err "EOF reading sync header"
    | hm :: msgs1 =>
      if (asSyncHeader hm).fileIndex ≠ i then .err "Malformed patch, unexpected index"
      else
        match analyzeOps P oldSizes msgs1 {} with
        | .err e => .err e
        | .panic p => .panic p
        | .ok (a, msgs2) =>
          match analyze P oldPaths oldSizes rest (i + 1) msgs2 with
          | .ok ms => .ok (decide' P oldPaths oldSizes path size a :: ms)
          | .err e => .err e
          | .panic p => .panic p

/-- Messages of a bsdiff control series. -/
def ctrlMsg : Bsdiff.Ctrl → WMsg
  | .op a c s => mkControl a c s
  | .eof => mkControlEof

/-- `Optimize`: copy unmapped series verbatim (ops re-encoded up to the end marker), replace mapped ones by
    BSDIFF header + target + controls + end marker.  `differ t i` is the control series for new file `i`
    against old file `t`. -/
def optimize (differ : Nat → Nat → Outcome (List Bsdiff.Ctrl)) :
    List (Option (Nat × Int)) → Nat → List WMsg → Outcome (List WMsg)
  | [], _, _ => .ok []
  | mp :: rest, i, msgs =>
    match msgs with
    | [] => .err "EOF reading sync header"
    | hm :: msgs1 =>
      if (asSyncHeader hm).fileIndex ≠ i then .err "Malformed patch, unexpected index"
      else
        -- ops up to the end marker
        let rec takeOps : List WMsg → List WMsg → Outcome (List WMsg × List WMsg)
          | [], _ => .err "EOF in series"
          | m :: ms, acc => if (asSyncOp m).type = heyYouDidIt then .ok (acc.reverse, ms) else takeOps ms (m :: acc)
        match takeOps msgs1 [] with
        | .err e => .err e
        | .panic p => .panic p
        | .ok (ops, msgs2) =>
          let series : Outcome (List WMsg) := match mp with
            | none => .ok (hm :: ops ++ [mkHey])
            | some (t, _) =>
              match differ t i with
              | .ok cs => .ok (mkSyncHeader kindBsdiff i :: mkBsdiffHeader t :: cs.map ctrlMsg ++ [mkHey])
              | .err e => .err e
              | .panic p => .panic p
          match series, optimize differ rest (i + 1) msgs2 with
          | .ok s, .ok more => .ok (s ++ more)
          | .err e, _ => .err e
          | .panic p, _ => .panic p
          | _, .err e => .err e
          | _, .panic p => .panic p

end Wharf.Rediff
