/-
  Model of the directory tree the FRESH bowl produces (pwr/bowl/bowl_fresh.go, together with
  github.com/itchio/lake: tlc/prepare.go and pools/fspool/fspool.go), over the abstract filesystem of
  Wharf/Model/FS.lean.  Core Lean only.

  What the code does, and where it is modelled:

  * `NewFreshBowl` calls `params.SourceContainer.Prepare(params.OutputFolder)`            → `prepare`
      - `os.MkdirAll(basePath, 0o755)`: the output folder is the root `[]` of the model tree, which always
        exists; nothing to do;
      - `for _, dirEntry := range c.Dirs { c.prepareDir(basePath, dirEntry) }`            → `prepareDir`
      - `for _, fileEntry := range c.Files { c.prepareFile(basePath, fileEntry) }`        → `prepareFile`
      - `for _, link := range c.Symlinks { c.prepareSymlink(basePath, link) }`            → `prepareSymlink`
  * a file the patcher RELAYS (rsync series whose first op is not a full-file op, or bsdiff series) is
    written through `bwl.GetWriter(i)`, which for the fresh bowl is a `freshEntryWriter`
    (NOT `fspool.GetWriter`): `writer.Resume(nil)`, `writer.Write(..)`*, `writer.Finalize()`,
    `writer.Close()`                                                                     → `entryWriteAt`
  * a file the patcher TRANSPOSES (`bwl.Transpose`) is copied through `b.OutputPool.GetWriter(SourceIndex)`
    (`fspool.GetWriter`), `io.CopyBuffer(w, r, b.buf)`, `w.Close()`                       → `writeFileAt`
  * `Commit()` and `Close()` do nothing.

  The two writers differ: `fspool.GetWriter` removes a directory or a symlink sitting at the path and opens
  with `O_WRONLY|O_CREATE|O_TRUNC`; `freshEntryWriter.Resume` removes nothing, opens with
  `O_CREATE|O_WRONLY` (NO `O_TRUNC`, it follows a final symlink) and writes from offset 0, so bytes of an
  existing file beyond what is written survive.  (`Prepare` has sized the file to the declared size
  beforehand, which is what makes this harmless when the patcher writes exactly the declared size.)

  Out of scope, as in the filesystem model: permissions (`os.Chmod`, the `mode` arguments), `screw`'s
  case-sensitivity checks, `fsync`.
-/
import Wharf.Model.FS
import Wharf.Model.Commit
import Wharf.Model.Resume
import Wharf.Model.Patch

namespace Wharf.FreshBowl
open Wharf Wharf.FS Wharf.Commit

/-- `tlc.Container.prepareDir`:
    `os.MkdirAll(fullPath, mode)` (then `os.Chmod(fullPath, mode)`: permissions are out of scope). -/
def prepareDir (t : Tree) (p : Path) : Except Err Tree :=
  mkdirs t p

/-- `tlc.Container.prepareFile`:
    `os.OpenFile(fullPath, os.O_CREATE, mode)` + `file.Close()`: creates an EMPTY file when nothing is there
    (a final symlink is followed, a directory gives EISDIR, a missing parent ENOENT) and leaves an existing
    file alone — no `O_TRUNC`, "because we might be resuming a patching operation";
    `os.Truncate(fullPath, fileEntry.Size)`: cuts the file, or extends it with zeros, to the declared size
    (`Resume.prepare`); (`os.Chmod`: out of scope). -/
def prepareFile (t : Tree) (p : Path) (size : Nat) : Except Err Tree :=
  match readFile t p with
  | .ok d => writeFile t p (Resume.prepare d size)            -- existing file: kept, cut/extended
  | .error .enoent => writeFile t p (Resume.prepare [] size)  -- created empty, extended with zeros
  | .error e => .error e

/-- `tlc.Container.prepareSymlink`:
    `os.RemoveAll(fullPath)` (whatever is there, a whole subtree included, goes away; a missing path is
    fine), then `os.Symlink(link.Dest, fullPath)`. -/
def prepareSymlink (t : Tree) (p : Path) (dest : String) : Except Err Tree := do
  let t ← removeAll t p
  symlink t dest p

/-- `tlc.Container.Prepare(basePath)`: all directories, then all files, then all symlinks, in container
    order.  The declared size of a file is the length of its content in the build. -/
def prepare (new : Build) (t : Tree) : Except Err Tree := do
  -- `os.MkdirAll(basePath, 0o755)`: the root of the model tree always exists
  let t ← new.dirs.foldlM prepareDir t                                      -- `for … range c.Dirs`
  let t ← new.files.foldlM (fun t (p, d) => prepareFile t p d.length) t     -- `for … range c.Files`
  new.symlinks.foldlM (fun t (p, dest) => prepareSymlink t p dest) t        -- `for … range c.Symlinks`

/-- First half of `fspool.FsPool.GetWriter(fileIndex)`: make room for the file.
    `screw.MkdirAll(filepath.Dir(path), 0o755)`;
    `stats, err := screw.Lstat(path)`; `if err == nil { if stats.IsDir() { screw.RemoveAll(path) } else if
    stats.Mode()&os.ModeSymlink > 0 { screw.Remove(path) } }`. -/
def clearWay (t : Tree) (p : Path) : Except Err Tree := do
  let t ← mkdirs t p.dropLast              -- `screw.MkdirAll(filepath.Dir(path), 0o755)`
  match lstat t p with                     -- `screw.Lstat(path)`
  | .ok .dir => removeAll t p              -- `stats.IsDir()`            → `screw.RemoveAll(path)`
  | .ok (.symlink _) => remove t p         -- `Mode()&os.ModeSymlink > 0` → `screw.Remove(path)`
  | .ok (.file _) => .ok t
  | .error _ => .ok t                      -- `err != nil`: nothing is removed

/-- `fspool.FsPool.GetWriter(fileIndex)`, then the whole content written, then `Close()` — what
    `freshBowl.Transpose` does with `b.OutputPool`: `clearWay`, then
    `screw.OpenFile(path, os.O_WRONLY|os.O_CREATE|os.O_TRUNC, mode|ModeMask)`;
    `io.CopyBuffer(w, r, b.buf)`; `w.Close()`. -/
def writeFileAt (t : Tree) (p : Path) (data : List Byte) : Except Err Tree := do
  let t ← clearWay t p                     -- `MkdirAll`, `Lstat`, `RemoveAll`/`Remove`
  writeFile t p data                       -- `O_WRONLY|O_CREATE|O_TRUNC`, copy, `Close()`

/-- `freshEntryWriter`: `Resume(nil)`, every `Write`, `Finalize()` (nothing), `Close()` — what the patcher
    does with the writer `freshBowl.GetWriter(index)` returns:
    `screw.MkdirAll(filepath.Dir(few.path), 0755)`;
    `screw.OpenFile(few.path, os.O_CREATE|os.O_WRONLY, mode)` — created when missing, NOT truncated, nothing
    removed, a final symlink followed; the checkpoint is `nil`, so no `Seek`: writing starts at offset 0;
    `few.f.Write(buf)` for every chunk: sequential writes from offset 0 amount to one write of `data` at
    offset 0 (`Resume.writeAt old 0 data = data ++ old.drop data.length`);
    `f.Close()`. -/
def entryWriteAt (t : Tree) (p : Path) (data : List Byte) : Except Err Tree := do
  let t ← mkdirs t p.dropLast                                  -- `screw.MkdirAll(filepath.Dir(few.path), 0755)`
  match readFile t p with                                      -- `screw.OpenFile(…, O_CREATE|O_WRONLY, …)`
  | .ok old => writeFile t p (Resume.writeAt old 0 data)       -- existing file: overwritten from offset 0
  | .error .enoent => writeFile t p data                       -- created, then written
  | .error e => .error e

/-- Which of the two writers a new file goes through. -/
inductive Via where
  /-- `bwl.GetWriter(i)`: the `freshEntryWriter` (`entryWriteAt`) -/
  | writer
  /-- `bwl.Transpose(..)`: `fspool.GetWriter` (`writeFileAt`) -/
  | transpose
  deriving Repr, BEq, DecidableEq

/-- The writer used for each new file, read off the bowl calls the patcher model records. -/
def viaOfCalls (calls : List Patch.BowlCall) (i : Nat) : Via :=
  if calls.any (fun c => match c with
    | .transpose s _ => s == i
    | .getWriter _ => false) then .transpose else .writer

/-- One file produced by the patcher: `(i, bytes)` is written at the path of the `i`-th file of the new
    container, through the writer `via i` selects.  (`container.Files[index]` with an index out of range is
    a panic in Go; the patcher checks every index it takes from the patch, so this is not reachable from
    it; the model returns `einval`.) -/
def writeStep (new : Build) (via : Nat → Via) (t : Tree) (o : Nat × List Byte) : Except Err Tree :=
  match new.files[o.1]? with
  | none => .error .einval
  | some (p, _) =>
    match via o.1 with
    | .writer => entryWriteAt t p o.2       -- `bwl.GetWriter(i)`; `Resume(nil)`; `Write`…; `Close()`
    | .transpose => writeFileAt t p o.2     -- `bwl.Transpose({SourceIndex: i, TargetIndex: _})`

/-- The fresh bowl from `NewFreshBowl` to `Commit`: `Prepare`, then every file the patcher produced, in
    order.  `outs` is the `out` field of the patcher model's result (`Patch.Res.out`): for a relayed file the
    bytes written through the writer, for a transposition the bytes of the old file read through the target
    pool (`readAll`) — the patcher model has already put exactly the bytes that reach the output file into
    `r.out` in both cases, so `r.out` (plus `via`, to know which writer is used) is all that is needed.
    `via` defaults to the entry writer for every file; `viaOfCalls r.calls` is what the patcher does. -/
def freshApply (new : Build) (outs : List (Nat × List Byte)) (t : Tree)
    (via : Nat → Via := fun _ => .writer) : Except Err Tree := do
  let t ← prepare new t                  -- `NewFreshBowl`: `params.SourceContainer.Prepare(params.OutputFolder)`
  outs.foldlM (writeStep new via) t      -- the patcher's `GetWriter`/`Transpose` calls, in order
  -- `bwl.Commit()`: "it's all done buddy!" — nothing

/-! ### crash states

  The run as a flat list of steps, and the trees a run that stops — between two steps or in the middle of
  one — can leave behind.  Used to state that applying again over such a tree still ends with the new build
  (`C01.fresh_resume_tree`). -/

/-- The units of a run. -/
inductive Step where
  | dir (p : Path)                     -- one `prepareDir`
  | file (p : Path) (size : Nat)       -- one `prepareFile`
  | link (p : Path) (dest : String)    -- one `prepareSymlink`
  | write (o : Nat × List Byte)        -- one `GetWriter`…`Close()`, or one `Transpose`
  deriving Repr

def stepsOf (new : Build) (outs : List (Nat × List Byte)) : List Step :=
  new.dirs.map .dir ++ new.files.map (fun (p, d) => .file p d.length) ++
    new.symlinks.map (fun (p, dest) => .link p dest) ++ outs.map .write

def runStep (new : Build) (via : Nat → Via) (t : Tree) : Step → Except Err Tree
  | .dir p => prepareDir t p
  | .file p size => prepareFile t p size
  | .link p dest => prepareSymlink t p dest
  | .write o => writeStep new via t o

/-- What a step started on `t` can leave when it is interrupted (an over-approximation: a regular file that
    is being created, sized or written may hold ANY content `g` — unsynced data, a partial write):
    * `prepareDir`: `os.MkdirAll` makes the missing directories one at a time, from the top;
    * `prepareFile`: the file exists with some content, not yet of the declared size;
    * `prepareSymlink`: what was there is removed, the symlink not yet made;
    * a write: the parent directories (some of them) are made; for `fspool.GetWriter` what was in the way
      is removed; the file is open and holds anything. -/
inductive Torn (new : Build) (via : Nat → Via) (t : Tree) : Step → Tree → Prop where
  | dir {p : Path} {j : Nat} {t' : Tree} : mkdirs t (p.take j) = .ok t' → Torn new via t (.dir p) t'
  | file {p : Path} {size : Nat} {g : List Byte} {t' : Tree} :
      writeFile t p g = .ok t' → Torn new via t (.file p size) t'
  | link {p : Path} {dest : String} {t' : Tree} : removeAll t p = .ok t' → Torn new via t (.link p dest) t'
  | writeDirs {o : Nat × List Byte} {p : Path} {d : List Byte} {j : Nat} {t' : Tree} :
      new.files[o.1]? = some (p, d) → mkdirs t (p.dropLast.take j) = .ok t' → Torn new via t (.write o) t'
  | writeCleared {o : Nat × List Byte} {p : Path} {d : List Byte} {t' : Tree} :
      new.files[o.1]? = some (p, d) → via o.1 = .transpose → clearWay t p = .ok t' →
      Torn new via t (.write o) t'
  | writeData {o : Nat × List Byte} {p : Path} {d g : List Byte} {t₁ t' : Tree} :
      new.files[o.1]? = some (p, d) →
      (match via o.1 with
        | .writer => mkdirs t p.dropLast
        | .transpose => clearWay t p) = .ok t₁ →
      writeFile t₁ p g = .ok t' → Torn new via t (.write o) t'

/-- `t'` is a tree that a run of `freshApply new outs · via` started on `t` leaves when it stops after some
    steps (`between`) or in the middle of a step (`during`). -/
inductive CrashState (new : Build) (outs : List (Nat × List Byte)) (via : Nat → Via) (t : Tree) :
    Tree → Prop where
  | between {pre post : List Step} {t' : Tree} :
      stepsOf new outs = pre ++ post → pre.foldlM (runStep new via) t = .ok t' →
      CrashState new outs via t t'
  | during {pre post : List Step} {s : Step} {tk t' : Tree} :
      stepsOf new outs = pre ++ s :: post → pre.foldlM (runStep new via) t = .ok tk →
      Torn new via tk s t' → CrashState new outs via t t'

/-- Any number of crashed runs in a row, the first one started on the empty tree, each with its own
    assignment of writers. -/
inductive Crashed (new : Build) (outs : List (Nat × List Byte)) : Tree → Prop where
  | start : Crashed new outs {}
  | again {via : Nat → Via} {t t' : Tree} :
      Crashed new outs t → CrashState new outs via t t' → Crashed new outs t'

end Wharf.FreshBowl
