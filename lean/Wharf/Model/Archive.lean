/-
  Model of archive extraction (archiver/archiver.go: Mkdir, Symlink, CopyFile; archiver/zip.go, tar.go) over
  the abstract filesystem, and of the zip worker pool's bookkeeping as a transition system.
-/
import Wharf.Model.FS

namespace Wharf.Archive
open Wharf Wharf.FS

/-- An archive entry, in the order the archive lists them (parents before children). -/
inductive Entry where
  | dir (p : Path)
  | file (p : Path) (data : List Byte)
  | symlink (p : Path) (dest : String)
  deriving Repr

def Entry.path : Entry → Path
  | .dir p => p
  | .file p _ => p
  | .symlink p _ => p

/-- `archiver.Mkdir`: lstat; missing → MkdirAll; a non-directory is removed first. -/
def doMkdir (t : Tree) (p : Path) : Except Err Tree :=
  match lstat t p with
  | .error _ => mkdirs t p
  | .ok .dir => .ok t
  | .ok _ => do
    let t ← remove t p
    mkdirs t p

/-- `archiver.Symlink`: RemoveAll, MkdirAll(parent), symlink. -/
def doSymlink (t : Tree) (p : Path) (dest : String) : Except Err Tree := do
  let t ← removeAll t p
  let t ← mkdirs t p.dropLast
  symlink t dest p

/-- `archiver.CopyFile`: RemoveAll, MkdirAll(parent), create+truncate, copy. -/
def doCopyFile (t : Tree) (p : Path) (data : List Byte) : Except Err Tree := do
  let t ← removeAll t p
  let t ← mkdirs t p.dropLast
  writeFile t p data

def extractEntry (t : Tree) : Entry → Except Err Tree
  | .dir p => doMkdir t p
  | .file p d => doCopyFile t p d
  | .symlink p d => doSymlink t p d

/-- Sequential extraction (tar; zip with one worker). -/
def extractAll (t : Tree) : List Entry → Except Err Tree
  | [] => .ok t
  | e :: es => do
    let t ← extractEntry t e
    extractAll t es

/-- The archive of a tree given as a listing in walk order. -/
def archiveOf (l : List (Path × Node)) : List Entry :=
  l.map fun (p, n) => match n with
    | .dir => .dir p
    | .file d => .file p d
    | .symlink d => .symlink p d

/-! ### the zip worker pool: counters and resume bookkeeping

  State: which entries are done, which are in flight (taken by a worker, not finished), the value of the
  resume file, the (shared) counter.  `workers` bounds the number of entries in flight.  Labels are the
  atomic steps an interleaving is made of. -/

structure PoolSt where
  n : Nat                       -- number of entries
  next : Nat := 0               -- next index the dispatcher hands out
  inflight : List Nat := []
  done : List Nat := []
  resumeFile : Option Nat := none   -- contents of the resume file: entries `≤` it are skipped after a restart
  count : Nat := 0              -- entries counted (dirCount + regCount + symlinkCount)
  deriving Repr

inductive Lbl where
  | take            -- a free worker receives the next index
  | finish (i : Nat) -- worker holding `i` finishes extracting it, counts it and records progress
  deriving Repr

/-- Progress recorded when entry `i` finishes: the largest `k` such that every entry `≤ k` is done. -/
def contiguous (done : List Nat) : Nat → Nat → Option Nat
  | 0, _ => none
  | fuel + 1, k => if done.contains k then (match contiguous done fuel (k + 1) with | some j => some j | none => some k) else none

def step (workers : Nat) (s : PoolSt) : Lbl → Option PoolSt
  | .take =>
    if s.next < s.n ∧ s.inflight.length < workers then
      some { s with next := s.next + 1, inflight := s.inflight ++ [s.next] }
    else none
  | .finish i =>
    if s.inflight.contains i then
      let done := i :: s.done
      some { s with inflight := s.inflight.filter (· != i), done := done, count := s.count + 1,
                    resumeFile := contiguous done (s.n + 1) 0 }
    else none

end Wharf.Archive
