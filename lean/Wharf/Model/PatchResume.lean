/-
  End-to-end model of the patcher's checkpoints and of `savingPatcher.Resume(checkpoint)` into a fresh bowl
  (pwr/patcher/patcher.go, patcher_rsync.go, patcher_bsdiff.go, pwr/bowl/bowl_fresh.go, wire/read_context.go).

  WHERE THE GO CODE CAN OFFER A CHECKPOINT
  ----------------------------------------
  `sp.sc.Save(checkpoint)` is called at exactly two places:
    * patcher_rsync.go:168, inside the block at the top of the relay loop (`for {` at line 142, block 143-178),
      i.e. BEFORE reading the next SyncOp, after the previous op has been applied completely;
    * patcher_bsdiff.go:140, inside the block at the top of the control loop (`for {` at line 111, block
      112-150), i.e. BEFORE reading the next Control.
  Consequences (all mirrored by `rsyncLoopCk` / `bsdiffLoopCk` below):
    * rsync series: the FIRST op of a series is read and applied before the loop is entered (lines 52-53 and
      125-139: it has to be looked at to recognise a transposition), so no checkpoint is ever offered between
      the SyncHeader and the first op, nor before the first op has been applied.  There is one loop top after
      each applied op, the last one right before the end marker is read.
    * bsdiff series: the loop is entered right after the BsdiffHeader, so there IS a loop top before the first
      control (written = 0, oldOffset = 0), then one after each applied control, the last one right before the
      `eof` control is read.  None between the `eof` control and the sentinel SyncOp.
    * never between files (the checkpoint is built from the loop's locals; `Resume`'s file loop does not save),
      never during a transposition (patcher_rsync.go:58-90 returns before the loop) and never in a skipped
      file (`skipFile` does not save).
    * A loop top only yields a checkpoint when the save consumer wants one (`ShouldSave`) AND the message reader
      has one ready (`PopCheckpoint`, wire/read_context.go:157): the reader asks its source at a loop top
      (`WantSave`, line 149), the source answers from inside a later `Read`, and the following loop top pops
      it with `Offset` = the reader's current offset, which is a message boundary because every loop top is
      one.  The pending state survives the end of a series, so the first loop top of a later file can yield a
      checkpoint.  `checkpoints` lists EVERY loop top (the superset over all save schedules and sources).  With
      the savior sources (all of which answer from `Read`, never from `WantSave` itself) the very first loop
      top of a run (fresh or resumed) cannot yield one; the patcher's code does not exclude it, so it is kept.

  WHAT A CHECKPOINT CONTAINS (types.go:16-26, 38-56) and how it is modelled (`Ckpt`)
    MessageCheckpoint  -> `msgIndex`: number of messages consumed, counting from the first SyncHeader
                          (the reader resumes at that frame boundary: C13.resume_exact)
    FileIndex, SyncHeader, FileKind -> `fileIndex`, constructor of `mid`
    BowlCheckpoint     -> nothing (fresh bowl: bowl_fresh.go:76-87)
    RsyncCheckpoint{WriterCheckpoint{Offset}}                       -> `Mid.rsync written`
    BsdiffCheckpoint{WriterCheckpoint{Offset}, OldOffset, TargetIndex} -> `Mid.bsdiff target oldOffset written`

  WHAT `Resume(checkpoint)` DOES and how it is modelled (`resumeRun`, `resumeFrom`)
    * a brand-new fresh bowl runs `SourceContainer.Prepare` again (bowl_fresh.go:62; lake/tlc/prepare.go:71
      `os.Truncate(path, size)`): EVERY output file, also the ones already completed, is cut or zero-extended
      to its final size, content kept (`pdisk`, `Resume.prepare`);
    * the message reader continues with `msgs.drop msgIndex`; files `< fileIndex` are not touched any more;
    * file `fileIndex`: the header is not read again; the writer is reopened without truncation and positioned
      at `written` (bowl_fresh.go:152-175); bsdiff reopens old file `target` (no index check: the value comes
      from the checkpoint), restores `oldOffset`; then the SAME loop continues with the next message
      (`rsyncLoopR` / `bsdiffLoopR`: every applied message writes its bytes at the current offset, `writeAt`);
      bsdiff then reads the sentinel and compares `writer.Tell()` with the file size;
    * later files are processed from their SyncHeader as in a fresh run (`processFileR`), but their writers
      open whatever the disk holds without truncation (`Resume(nil)`: offset 0).

  ABSTRACTIONS
    * whitelist: `resumeRun` only models `E.whitelist = none` (it answers `.err` otherwise);
    * a transposition (`bowl.Transpose` -> `fspool.GetWriter`, O_TRUNC + io.Copy) is a whole-file replacement;
    * the bytes one message makes the patcher write (several `Write` calls: io.Copy buffers of a block range,
      add part then copy part of a control) are written by ONE `writeAt` (`W.write_write` in the proofs shows
      that consecutive writes compose);
    * the `reads` bookkeeping of `Patch.Res` is not carried by the resumed run (its output is file contents).
  Core Lean only.
-/
import Wharf.Model.Patch
import Wharf.Model.Resume

namespace Wharf.PatchResume
open Wharf Wharf.Patch

deriving instance DecidableEq for Outcome

/-- the mid-series part of a checkpoint -/
inductive Mid where
  | rsync (written : Nat)
  | bsdiff (target : Nat) (oldOffset : Int) (written : Nat)
  deriving Repr, DecidableEq

def Mid.written : Mid → Nat
  | .rsync w => w
  | .bsdiff _ _ w => w

/-- A patcher checkpoint.  There is no "between files" checkpoint in the Go code, hence `mid` is not optional. -/
structure Ckpt where
  fileIndex : Nat
  /-- messages consumed so far, counting from the first SyncHeader -/
  msgIndex : Nat
  mid : Mid
  deriving Repr, DecidableEq

def Ckpt.written (c : Ckpt) : Nat := c.mid.written

/-- forget the checkpoints of an instrumented result -/
def dropCks {α} : Outcome (α × List Ckpt) → Outcome α
  | .ok (a, _) => .ok a
  | .err e => .err e
  | .panic p => .panic p

/-! ### the uninterrupted run, instrumented (copies of `Patch.rsyncLoop` … `Patch.patch`)

  `T` is the total number of messages: at a loop top with `m :: rest` still unread, `T - (rest.length + 1)`
  messages have been consumed. -/

/-- `Patch.rsyncLoop` + the checkpoint of every loop top. -/
def rsyncLoopCk (E : Env) (T i : Nat) : List WMsg → List Byte → List Nat →
    Outcome ((List WMsg × List Byte × List Nat) × List Ckpt)
  | [], _, _ => .err "EOF in rsync series"
  | m :: rest, w, reads =>
    let ck : Ckpt := ⟨i, T - (rest.length + 1), .rsync w.length⟩
    let op := asSyncOp m
    if op.type = heyYouDidIt then .ok ((rest, w, reads), [ck])
    else
      match applyOp E op w reads with
      | .ok (w', reads') =>
        (match rsyncLoopCk E T i rest w' reads' with
         | .ok (x, cks) => .ok (x, ck :: cks)
         | .err e => .err e
         | .panic p => .panic p)
      | .err e => .err e
      | .panic p => .panic p

/-- `Patch.bsdiffLoop` + the checkpoint of every loop top. -/
def bsdiffLoopCk (E : Env) (T i t flen : Nat) : List WMsg → Int → List Byte →
    Outcome ((List WMsg × List Byte) × List Ckpt)
  | [], _, _ => .err "EOF in bsdiff series"
  | m :: rest, off, w =>
    let ck : Ckpt := ⟨i, T - (rest.length + 1), .bsdiff t off w.length⟩
    let c := asControl m
    if c.eof then .ok ((rest, w), [ck])
    else
      match applyControl E t flen c off w with
      | .ok (off', w') =>
        (match bsdiffLoopCk E T i t flen rest off' w' with
         | .ok (x, cks) => .ok (x, ck :: cks)
         | .err e => .err e
         | .panic p => .panic p)
      | .err e => .err e
      | .panic p => .panic p

/-- relay of the first op and of the following ones (non-transposed rsync series). -/
def procRelayCk (E : Env) (T i : Nat) (op : SyncOp) (rest1 : List WMsg) (r : Res) :
    Outcome ((List WMsg × Res) × List Ckpt) :=
  let r1 := { r with calls := r.calls ++ [BowlCall.getWriter i] }
  if op.type = heyYouDidIt then
    .err "unknown sync op type"
  else
    (applyOp E op [] r1.reads).bind fun (w, reads) =>
    (rsyncLoopCk E T i rest1 w reads).bind fun ((rest', w', reads'), cks) =>
      .ok ((rest', { r1 with out := r1.out ++ [(i, w')], touched := r1.touched + 1, reads := reads' }), cks)

def procRsyncCk (E : Env) (T i : Nat) (rest : List WMsg) (r : Res) : Outcome ((List WMsg × Res) × List Ckpt) :=
  match rest with
  | [] => .err "EOF reading first op"
  | om :: rest1 =>
    (isFullFileOp E i (asSyncOp om)).bind fun full =>
    match full with
    | some t =>
      -- Transpose: no loop, no checkpoint
      match E.pool.readAll t with
      | .err e => .err e
      | .panic p => .panic p
      | .ok bytes =>
        (skipOps rest1).bind fun rest' =>
          .ok ((rest', { out := r.out ++ [(i, bytes)], touched := r.touched + 1,
                         calls := r.calls ++ [BowlCall.transpose i t], reads := r.reads ++ [t] }), [])
    | none => procRelayCk E T i (asSyncOp om) rest1 r

def procBsdiffCk (E : Env) (T i : Nat) (rest : List WMsg) (r : Res) : Outcome ((List WMsg × Res) × List Ckpt) :=
  match rest with
  | [] => .err "EOF reading bsdiff header"
  | bm :: rest1 =>
    let ti := asBsdiffHeader bm
    (idx E.pool.nfiles ti "processBsdiff targetPool.GetReadSeeker(targetIndex)").bind fun t =>
    match E.pool.flen t with
    | .err e => .err e
    | .panic p => .panic p
    | .ok flen =>
      (bsdiffLoopCk E T i t flen rest1 0 []).bind fun ((rest2, w), cks) =>
      match rest2 with
      | [] => .err "EOF reading sentinel"
      | sm :: rest' =>
        if (asSyncOp sm).type ≠ heyYouDidIt then .err "expected sentinel SyncOp after bsdiff series"
        else if w.length ≠ E.newSizes.getD i 0 then .err "corrupted patch: wrong final size"
        else .ok ((rest', { out := r.out ++ [(i, w)], touched := r.touched + 1,
                            calls := r.calls ++ [BowlCall.getWriter i], reads := r.reads ++ [t] }), cks)

/-- `Patch.processFile` + checkpoints. -/
def processFileCk (E : Env) (T i : Nat) (msgs : List WMsg) (r : Res) : Outcome ((List WMsg × Res) × List Ckpt) :=
  match msgs with
  | [] => .err "EOF reading sync header"
  | hm :: rest =>
    let sh := asSyncHeader hm
    if sh.fileIndex ≠ i then .err "corrupted patch: unexpected file index"
    else if sh.type ≠ kindRsync ∧ sh.type ≠ kindBsdiff then .err "unknown patch series kind"
    else
      let skip := match E.whitelist with
        | some wl => !wl.contains i
        | none => false
      -- a skipped file offers no checkpoint
      if skip then (skipFile sh.type rest).bind fun rest' => .ok ((rest', r), [])
      else if sh.type = kindRsync then procRsyncCk E T i rest r
      else procBsdiffCk E T i rest r

/-- `Patch.patchFrom` + checkpoints. -/
def patchFromCk (E : Env) (T : Nat) : Nat → Nat → List WMsg → Res → Outcome (Res × List Ckpt)
  | 0, _, _, r => .ok (r, [])
  | n + 1, i, msgs, r =>
    match processFileCk E T i msgs r with
    | .ok ((rest, r'), cks) =>
      (match patchFromCk E T n (i + 1) rest r' with
       | .ok (R, cks') => .ok (R, cks ++ cks')
       | .err e => .err e
       | .panic p => .panic p)
    | .err e => .err e
    | .panic p => .panic p

/-- `Patch.patch` + checkpoints. -/
def patchCk (E : Env) (msgs : List WMsg) : Outcome (Res × List Ckpt) :=
  patchFromCk E msgs.length E.newSizes.size 0 msgs {}

/-- Every point at which the patcher can hand a checkpoint to its save consumer during an uninterrupted,
    error-free application, in order, with the state the Go checkpoint contains. -/
def checkpoints (E : Env) (msgs : List WMsg) : List Ckpt :=
  match patchCk E msgs with
  | .ok (_, cks) => cks
  | _ => []

/-! ### the resumed run: writers over the files a crash left on disk -/

/-- an open fresh entry writer: the file on disk and the writer's offset -/
structure W where
  file : List Byte
  off : Nat
  deriving Repr

/-- `freshEntryWriter.Write`: at the current offset, no truncation -/
def W.write (s : W) (bytes : List Byte) : W :=
  ⟨Resume.writeAt s.file s.off bytes, s.off + bytes.length⟩

/-- `ApplySingle` into an entry writer: the bytes the op produces (`applyOp` from an empty accumulator) are
    written at the current offset. -/
def applyOpW (E : Env) (op : SyncOp) (s : W) : Outcome W :=
  match applyOp E op [] [] with
  | .ok (bytes, _) => .ok (s.write bytes)
  | .err e => .err e
  | .panic p => .panic p

/-- `IndividualPatchContext.Apply` into an entry writer. -/
def applyControlW (E : Env) (t flen : Nat) (c : Control) (oldOffset : Int) (s : W) : Outcome (Int × W) :=
  match applyControl E t flen c oldOffset [] with
  | .ok (off', bytes) => .ok (off', s.write bytes)
  | .err e => .err e
  | .panic p => .panic p

/-- the relay loop of `processRsync` over an entry writer, with the checkpoints it can offer -/
def rsyncLoopR (E : Env) (T i : Nat) : List WMsg → W → Outcome ((List WMsg × W) × List Ckpt)
  | [], _ => .err "EOF in rsync series"
  | m :: rest, s =>
    let ck : Ckpt := ⟨i, T - (rest.length + 1), .rsync s.off⟩
    let op := asSyncOp m
    if op.type = heyYouDidIt then .ok ((rest, s), [ck])
    else
      match applyOpW E op s with
      | .ok s' =>
        (match rsyncLoopR E T i rest s' with
         | .ok (x, cks) => .ok (x, ck :: cks)
         | .err e => .err e
         | .panic p => .panic p)
      | .err e => .err e
      | .panic p => .panic p

/-- the control loop of `processBsdiff` over an entry writer, with the checkpoints it can offer -/
def bsdiffLoopR (E : Env) (T i t flen : Nat) : List WMsg → Int → W → Outcome ((List WMsg × W) × List Ckpt)
  | [], _, _ => .err "EOF in bsdiff series"
  | m :: rest, off, s =>
    let ck : Ckpt := ⟨i, T - (rest.length + 1), .bsdiff t off s.off⟩
    let c := asControl m
    if c.eof then .ok ((rest, s), [ck])
    else
      match applyControlW E t flen c off s with
      | .ok (off', s') =>
        (match bsdiffLoopR E T i t flen rest off' s' with
         | .ok (x, cks) => .ok (x, ck :: cks)
         | .err e => .err e
         | .panic p => .panic p)
      | .err e => .err e
      | .panic p => .panic p

/-- the end of `processBsdiff`: sentinel SyncOp, then `writer.Tell()` against the file size -/
def bsdiffFinish (E : Env) (i : Nat) (rest2 : List WMsg) (s : W) (cks : List Ckpt) :
    Outcome ((List WMsg × List Byte) × List Ckpt) :=
  match rest2 with
  | [] => .err "EOF reading sentinel"
  | sm :: rest' =>
    if (asSyncOp sm).type ≠ heyYouDidIt then .err "expected sentinel SyncOp after bsdiff series"
    else if s.off ≠ E.newSizes.getD i 0 then .err "corrupted patch: wrong final size"
    else .ok ((rest', s.file), cks)

/-- The first file of `Resume(checkpoint)`: `c.SyncHeader != nil`, so no header is read;
    `processRsync` with `c.RsyncCheckpoint != nil` (patcher_rsync.go:24-47, then the loop at 142) or
    `processBsdiff` with `c.BsdiffCheckpoint != nil` (patcher_bsdiff.go:24-55, then the loop at 111).
    `file` is the output file as found (after `Prepare`).  Returns the remaining messages and the final file. -/
def resumeFile (E : Env) (T i : Nat) (mid : Mid) (msgs : List WMsg) (file : List Byte) :
    Outcome ((List WMsg × List Byte) × List Ckpt) :=
  match mid with
  | .rsync written =>
    (rsyncLoopR E T i msgs ⟨file, written⟩).bind fun ((rest, s), cks) => .ok ((rest, s.file), cks)
  | .bsdiff t oldOffset written =>
    match E.pool.flen t with
    | .err e => .err e
    | .panic p => .panic p
    | .ok flen =>
      (bsdiffLoopR E T i t flen msgs oldOffset ⟨file, written⟩).bind fun ((rest2, s), cks) =>
        bsdiffFinish E i rest2 s cks

/-- `processRsync` from the start of a series (`c.RsyncCheckpoint == nil`) in the resumed run: the entry writer
    is opened at offset 0 on the file found on disk (`writer.Resume(nil)`), a transposition replaces the file. -/
def procRsyncR (E : Env) (T : Nat) (pdisk : Nat → List Byte) (i : Nat) (rest : List WMsg) :
    Outcome ((List WMsg × List Byte) × List Ckpt) :=
  match rest with
  | [] => .err "EOF reading first op"
  | om :: rest1 =>
    let op := asSyncOp om
    (isFullFileOp E i op).bind fun full =>
    match full with
    | some t =>
      match E.pool.readAll t with
      | .err e => .err e
      | .panic p => .panic p
      | .ok bytes => (skipOps rest1).bind fun rest' => .ok ((rest', bytes), [])
    | none =>
      if op.type = heyYouDidIt then .err "unknown sync op type"
      else
        (applyOpW E op ⟨pdisk i, 0⟩).bind fun s =>
        (rsyncLoopR E T i rest1 s).bind fun ((rest', s'), cks) => .ok ((rest', s'.file), cks)

/-- `processBsdiff` from the start of a series (`c.BsdiffCheckpoint == nil`) in the resumed run. -/
def procBsdiffR (E : Env) (T : Nat) (pdisk : Nat → List Byte) (i : Nat) (rest : List WMsg) :
    Outcome ((List WMsg × List Byte) × List Ckpt) :=
  match rest with
  | [] => .err "EOF reading bsdiff header"
  | bm :: rest1 =>
    let ti := asBsdiffHeader bm
    (idx E.pool.nfiles ti "processBsdiff targetPool.GetReadSeeker(targetIndex)").bind fun t =>
    match E.pool.flen t with
    | .err e => .err e
    | .panic p => .panic p
    | .ok flen =>
      (bsdiffLoopR E T i t flen rest1 0 ⟨pdisk i, 0⟩).bind fun ((rest2, s), cks) =>
        bsdiffFinish E i rest2 s cks

/-- A later file of the resumed run: `Patch.processFile` (no whitelist) over the files found on disk. -/
def processFileR (E : Env) (T : Nat) (pdisk : Nat → List Byte) (i : Nat) (msgs : List WMsg) :
    Outcome ((List WMsg × List Byte) × List Ckpt) :=
  match msgs with
  | [] => .err "EOF reading sync header"
  | hm :: rest =>
    let sh := asSyncHeader hm
    if sh.fileIndex ≠ i then .err "corrupted patch: unexpected file index"
    else if sh.type ≠ kindRsync ∧ sh.type ≠ kindBsdiff then .err "unknown patch series kind"
    else if sh.type = kindRsync then procRsyncR E T pdisk i rest
    else procBsdiffR E T pdisk i rest

/-- the files after the resumed one: (index, final content) in order, and the checkpoints offered -/
def patchFromR (E : Env) (T : Nat) (pdisk : Nat → List Byte) : Nat → Nat → List WMsg →
    Outcome (List (Nat × List Byte) × List Ckpt)
  | 0, _, _ => .ok ([], [])
  | n + 1, i, msgs =>
    match processFileR E T pdisk i msgs with
    | .ok ((rest, content), cks) =>
      (match patchFromR E T pdisk n (i + 1) rest with
       | .ok (outs, cks') => .ok ((i, content) :: outs, cks ++ cks')
       | .err e => .err e
       | .panic p => .panic p)
    | .err e => .err e
    | .panic p => .panic p

/-- `New(patch)` + `NewFreshBowl` + `Resume(checkpoint)` on the output directory `disk` a crash left behind:
    final contents of all new files in order, and the checkpoints the resumed run can offer. -/
def resumeRun (E : Env) (msgs : List WMsg) (ck : Ckpt) (disk : Nat → List Byte) :
    Outcome (List (Nat × List Byte) × List Ckpt) :=
  match E.whitelist with
  | some _ => .err "resuming with a whitelist is not modelled"
  | none =>
    let T := msgs.length
    -- NewFreshBowl: Prepare every output file again
    let pdisk : Nat → List Byte := fun k => Resume.prepare (disk k) (E.newSizes.getD k 0)
    let i := ck.fileIndex
    if i < E.newSizes.size then
      -- `for c.FileIndex < numFiles`, first iteration from the checkpoint
      match resumeFile E T i ck.mid (msgs.drop ck.msgIndex) (pdisk i) with
      | .ok ((rest, content), cks) =>
        (match patchFromR E T pdisk (E.newSizes.size - (i + 1)) (i + 1) rest with
         | .ok (outs, cks') =>
           .ok ((List.range i).map (fun k => (k, pdisk k)) ++ (i, content) :: outs, cks ++ cks')
         | .err e => .err e
         | .panic p => .panic p)
      | .err e => .err e
      | .panic p => .panic p
    else
      -- nothing left to do
      .ok ((List.range E.newSizes.size).map (fun k => (k, pdisk k)), [])

/-- Model of `Resume(checkpoint)` for the fresh bowl: the final contents of all new files, in order. -/
def resumeFrom (E : Env) (msgs : List WMsg) (ck : Ckpt) (disk : Nat → List Byte) :
    Outcome (List (Nat × List Byte)) :=
  dropCks (resumeRun E msgs ck disk)

/-- the checkpoints a run resumed from `ck` can offer -/
def resumedCheckpoints (E : Env) (msgs : List WMsg) (ck : Ckpt) (disk : Nat → List Byte) : List Ckpt :=
  match resumeRun E msgs ck disk with
  | .ok (_, cks) => cks
  | _ => []

/-! ### crash states -/

/-- `disk` is a possible state of the output directory after a crash that happened at any time after
    checkpoint `ck` was handed out, relative to the uninterrupted output `out`: completed files are there,
    the first `written` bytes of the file being written are there (fsync in `freshEntryWriter.Save`),
    EVERYTHING else is arbitrary: the rest of that file (longer, shorter, garbage), all later files. -/
def CrashOKFor (out : List (Nat × List Byte)) (ck : Ckpt) (disk : Nat → List Byte) : Prop :=
  ∀ p ∈ out,
    (p.1 < ck.fileIndex → disk p.1 = p.2) ∧
    (p.1 = ck.fileIndex → (disk p.1).take ck.written = p.2.take ck.written)

instance (out : List (Nat × List Byte)) (ck : Ckpt) (disk : Nat → List Byte) : Decidable (CrashOKFor out ck disk) := by
  unfold CrashOKFor; infer_instance

/-- the crash states C03 quantifies over, for the patch `msgs` applied in environment `E` -/
def CrashOK (E : Env) (msgs : List WMsg) (ck : Ckpt) (disk : Nat → List Byte) : Prop :=
  match patch E msgs with
  | .ok R => CrashOKFor R.out ck disk
  | _ => False

instance (E : Env) (msgs : List WMsg) (ck : Ckpt) (disk : Nat → List Byte) : Decidable (CrashOK E msgs ck disk) :=
  match h : patch E msgs with
  | .ok R => decidable_of_iff (CrashOKFor R.out ck disk) (by unfold CrashOK; rw [h])
  | .err _ => isFalse (by unfold CrashOK; rw [h]; exact id)
  | .panic _ => isFalse (by unfold CrashOK; rw [h]; exact id)

/-- every produced file has the size its container entry declares (checked by the patcher for bsdiff series;
    NOT checked for rsync series and transpositions: guaranteed by C01 for patches made by the differ) -/
def SizesOK (E : Env) (out : List (Nat × List Byte)) : Prop :=
  ∀ p ∈ out, p.2.length = E.newSizes.getD p.1 0

instance (E : Env) (out : List (Nat × List Byte)) : Decidable (SizesOK E out) := by
  unfold SizesOK; infer_instance

/-! ### what a checkpoint's state means (used by `C03.checkpoint_state_exact`) -/

/-- old-file offset after applying the controls `cs` from offset `o` (`ipc.OldOffset += len(add)`, `+= seek`) -/
def ctrlOffset : List WMsg → Int → Int
  | [], o => o
  | m :: ms, o => ctrlOffset ms (o + (asControl m).add.length + (asControl m).seek)

/-- `ck` was taken in a series whose messages after the SyncHeader are `consumed ++ ms`, `consumed` having been
    read when it was taken, and `w` is the final content of the file:
    * the bytes written so far are exactly what the loop produces on the consumed messages (had the series
      ended there), they are the first `written` bytes of `w`, and (bsdiff) the saved old offset is the sum of
      the consumed controls' advances;
    * from that state the remaining messages complete the file to `w`. -/
def StateExact (E : Env) (ck : Ckpt) (consumed ms : List WMsg) (w : List Byte) : Prop :=
  match ck.mid with
  | .rsync n =>
    n ≤ w.length ∧
    (∃ reads rc, rsyncLoop E (consumed ++ [mkHey]) [] reads = .ok ([], w.take n, rc)) ∧
    (∃ reads rest rc, rsyncLoop E ms (w.take n) reads = .ok (rest, w, rc))
  | .bsdiff t off n =>
    n ≤ w.length ∧
    ∃ bm ctrls flen, consumed = bm :: ctrls ∧ asBsdiffHeader bm = (t : Int) ∧ E.pool.flen t = .ok flen ∧
      bsdiffLoop E t flen (ctrls ++ [mkControlEof]) 0 [] = .ok ([], w.take n) ∧
      off = ctrlOffset ctrls 0 ∧
      (∃ rest, bsdiffLoop E t flen ms off (w.take n) = .ok (rest, w))

/-- where a checkpoint sits in the message list and what its state is: `before` are the messages of the earlier
    files, `hm` the SyncHeader of the checkpoint's file, `consumed` the messages of its series read so far
    (`msgIndex` counts all three), `ms` the messages still to be read; `w` is the file's final content. -/
def Located (E : Env) (msgs : List WMsg) (ck : Ckpt) (w : List Byte) : Prop :=
  ∃ before hm consumed ms, msgs = before ++ hm :: (consumed ++ ms) ∧ ms ≠ [] ∧
    (asSyncHeader hm).fileIndex = ck.fileIndex ∧ ck.msgIndex = before.length + 1 + consumed.length ∧
    StateExact E ck consumed ms w

/-- later checkpoints have consumed more messages and belong to the same or a later file -/
def Before (a b : Ckpt) : Prop := a.msgIndex < b.msgIndex ∧ a.fileIndex ≤ b.fileIndex

end Wharf.PatchResume
