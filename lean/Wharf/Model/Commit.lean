/-
  Model of the in-place (overlay) bowl's commit (pwr/bowl/bowl_overlay.go) over the abstract filesystem:
  ensure dirs+symlinks, transpositions (with the two map-visiting orders as explicit parameters and the
  `.butler-rename-N` temporary names numbered in visiting order, skipping the numbers whose name is a path of
  the old or of the new build — the fix of finding F22), staged moves, overlays, ghost deletion.

  The patching phase only writes to the stage folder, which is not part of the output tree: it is
  represented by the *contents* staged for each new file (by C14 an applied overlay yields the new content).
-/
import Wharf.Model.FS

namespace Wharf.Commit
open Wharf Wharf.FS

structure Build where
  dirs : List Path := []
  symlinks : List (Path × String) := []
  files : List (Path × List Byte) := []

/-- every path of a build's container: directories, symlinks, files -/
def pathsOf (b : Build) : List Path := b.dirs ++ b.symlinks.map (·.1) ++ b.files.map (·.1)

/-- `pathInUse` of `applyTranspositions`: the paths (files, symlinks, dirs) of the old (Target) and of the new
    (Source) container.  Only membership is ever asked of it, so the order and the duplicates do not matter. -/
def pathsInUse (old new : Build) : List Path := pathsOf old ++ pathsOf new

/-- what the patching phase recorded -/
structure Work where
  transpositions : List (Nat × Nat) := []   -- (source = new file index, target = old file index), in recording order
  overlayFiles : List Nat := []              -- new file indices patched through an overlay
  moveFiles : List Nat := []                 -- new file indices staged as plain files

/-- `Transpose`: a later transposition for the same source replaces the earlier one. -/
def recordTranspose (w : Work) (src tgt : Nat) : Work :=
  if w.transpositions.any (·.1 == src) then
    { w with transpositions := w.transpositions.map fun (s, t) => if s == src then (src, tgt) else (s, t) }
  else { w with transpositions := w.transpositions ++ [(src, tgt)] }

def markOverlay (w : Work) (i : Nat) : Work :=
  if w.overlayFiles.contains i then w else { w with overlayFiles := w.overlayFiles ++ [i] }

def markMove (w : Work) (i : Nat) : Work :=
  if w.moveFiles.contains i then w else { w with moveFiles := w.moveFiles ++ [i] }

/-- `GetWriter`: overlay when the new file's path exists among the old files, staged plain file otherwise. -/
def recordWriter (old new : Build) (w : Work) (i : Nat) : Work :=
  match new.files[i]? with
  | none => w
  | some (p, _) => if old.files.any (·.1 == p) then markOverlay w i else markMove w i

def ex {α} : Except Err α → Outcome α
  | .ok a => .ok a
  | .error e => .err (reprStr e)

/-- `ensureDirsAndSymlinks` -/
def ensureDir (t : Tree) (p : Path) : Except Err Tree :=
  match lstat t p with
  | .ok .dir => .ok t
  | .ok _ => do let t ← removeAll t p; mkdirs t p
  | .error _ => mkdirs t p

def ensureSymlink (t : Tree) (p : Path) (dest : String) : Except Err Tree := do
  let t ← match lstat t p with
    | .ok (.symlink _) => .ok t
    | .ok _ => removeAll t p
    | .error _ => .ok t
  match readlink t p with
  | .error e => if e == .enoent then symlink t dest p else .error e
  | .ok d =>
    if d ≠ dest then do
      let t ← remove t p
      symlink t dest p
    else .ok t

def ensureAll (new : Build) (t : Tree) : Except Err Tree := do
  let t ← new.dirs.foldlM ensureDir t
  new.symlinks.foldlM (fun t (p, d) => ensureSymlink t p d) t

/-- `copy(old, new, mkdirBehavior)`.  Since the repair of finding F26 a destination that is not a regular file
    (a symlink, a directory) is removed first — `Lstat`, `Remove`, a missing one is fine, a non-empty directory
    fails — instead of being written through or into (bowl_overlay.go:649-657). -/
def copyFile (t : Tree) (o n : Path) (mkdir : Bool) : Except Err Tree := do
  let t ← if mkdir then mkdirs t n.dropLast else .ok t
  let data ← readFile t o
  let t ← match lstat t n with
    | .ok (.file _) => .ok t
    | .ok _ =>
      match remove t n with
      | .ok t' => .ok t'
      | .error e => if e == .enoent then .ok t else .error e
    | .error _ => .ok t
  writeFile t n data

/-- `move(old, new)`: clear the destination (a missing one is fine; since the repair of finding F8 (1)/(2) a
    DIRECTORY standing there is removed with everything in it — `Lstat`, `IsDir`, `RemoveAll` — anything else with
    `Remove`), mkdir the parent, rename; fall back to copy + remove when the rename fails.  `clearDest` is that
    first step. -/
def clearDest (t : Tree) (n : Path) : Except Err Tree :=
  match lstat t n with
  | .ok .dir => removeAll t n
  | _ =>
    match remove t n with
    | .ok t' => .ok t'
    | .error e => if e == .enoent then .ok t else .error e

def moveFile (t : Tree) (o n : Path) : Except Err Tree := do
  let t ← clearDest t n
  let t ← mkdirs t n.dropLast
  match rename t o n with
  | .ok t' => .ok t'
  | .error _ => do
    let t ← copyFile t o n false
    remove t o

/-- a group: all transpositions with the same old (target) path -/
structure Transpo where
  targetPath : Path
  outputPath : Path
  deriving Repr, BEq

/-- group transpositions by target path, groups visited in `order` (a list of target paths) -/
def groupsOf (ts : List Transpo) (order : List Path) : List (Path × List Transpo) :=
  order.map fun p => (p, ts.filter (·.targetPath == p))

def seedName (p : Path) (seed : Nat) : Path :=
  match p.getLast? with
  | some l => p.dropLast ++ [l ++ ".butler-rename-" ++ toString seed]
  | none => p

/-- The skip loop `for pathInUse[safePath] { renameSeed++; safePath = … }` entered with `renameSeed = seed`:
    the first number `≥ seed` whose temporary name for `p` is not in use.

    The Go loop is unbounded; here it runs on fuel.  Called with fuel `used.length + 1` it is the same
    function: the names `seedName p seed, …, seedName p (seed + used.length)` are pairwise distinct
    (`Wharf.Commit.seedName_inj`), so they cannot all be among the `used.length` paths in use (pigeonhole), and
    the loop stops on a free name before the fuel runs out.  This is proved, not assumed
    (`Wharf.Commit.nextFree_spec` in Wharf/Proofs/Commit.lean: for `p ≠ []` the result is the LEAST number
    `≥ seed` whose name is not in `used` — exactly what the unbounded loop computes). -/
def nextFree (used : List Path) (p : Path) : Nat → Nat → Nat
  | 0, seed => seed
  | fuel + 1, seed => if used.contains (seedName p seed) then nextFree used p fuel (seed + 1) else seed

/-- first pass: give clash-prone outputs (an output that is itself some group's source, or — since the repair of
    finding F8 (1)/(2) — a DIRECTORY of the old build: `oldDirs[transpo.OutputPath]`) a temporary name,
    numbered in visiting order, skipping the numbers whose name is in use (`used`: the paths of both builds);
    returns the rewritten groups and the cleanup renames -/
def safePass (groups : List (Path × List Transpo)) (sources : List Path) (used : List Path)
    (oldDirs : List Path := []) :
    List (Path × List Transpo) × List Transpo := Id.run do
  let mut seed := 0
  let mut out : Array (Path × List Transpo) := #[]
  let mut cleanup : Array Transpo := #[]
  for (gp, g) in groups do
    let mut g' : Array Transpo := #[]
    for tr in g do
      if tr.targetPath == tr.outputPath then
        g' := g'.push tr
      else if sources.contains tr.outputPath || oldDirs.contains tr.outputPath then
        -- renameSeed++; then skip the numbers whose name is a path of either build
        seed := nextFree used tr.outputPath (used.length + 1) (seed + 1)
        let safe := seedName tr.outputPath seed
        cleanup := cleanup.push { targetPath := safe, outputPath := tr.outputPath }
        g' := g'.push { tr with outputPath := safe }
      else g' := g'.push tr
    out := out.push (gp, g'.toList)
  return (out.toList, cleanup.toList)

/-- one group of the second pass -/
def applyGroup (t : Tree) (hasOverlay : Bool) (gp : Path) (g : List Transpo) : Except Err Tree :=
  match g with
  | [] => .ok t
  | [tr] =>
    if tr.targetPath == tr.outputPath then .ok t
    else if hasOverlay then copyFile t tr.targetPath tr.outputPath false
    else moveFile t tr.targetPath tr.outputPath
  | first :: _ => do
    let noop := g.find? (fun tr => gp == tr.outputPath)
    -- copies first
    let t ← (List.range g.length).zip g |>.foldlM (fun t (i, tr) =>
      match noop with
      | none => if i = 0 then .ok t else copyFile t gp tr.outputPath true
      | some n => if tr == n then .ok t else copyFile t gp tr.outputPath true) t
    match noop with
    | some _ => .ok t
    | none =>
      if hasOverlay then copyFile t gp first.outputPath false
      else moveFile t gp first.outputPath

/-! ### `moveSourcesAside` (repair of finding F8 (3))

  A file of the old build that some file of the new build is a copy of (a transposition source) and whose own path
  is a DIRECTORY of the new build is renamed to `<path>.butler-aside-N` before the directories are made
  (`ensureDir` would clear it away); `applyTranspositions` reads it from there (`asideOf`).  `N` is numbered in
  the recording order of the transpositions, skipping the numbers whose name is a path of either build, as for the
  `.butler-rename-N` names. -/

def asideName (p : Path) (seed : Nat) : Path :=
  match p.getLast? with
  | some l => p.dropLast ++ [l ++ ".butler-aside-" ++ toString seed]
  | none => p

/-- the skip loop `for pathInUse[asidePath] { asideSeed++; … }`, on fuel as `nextFree` -/
def nextFreeAside (used : List Path) (p : Path) : Nat → Nat → Nat
  | 0, seed => seed
  | fuel + 1, seed => if used.contains (asideName p seed) then nextFreeAside used p fuel (seed + 1) else seed

/-- where a transposition source is read from: its aside name if it was moved aside, else its own path -/
def asideOf (aside : List (Path × Path)) (p : Path) : Path :=
  match aside.find? (·.1 == p) with
  | some (_, a) => a
  | none => p

/-- `moveSourcesAside`: returns the tree and the map old path ↦ aside path (in the order the moves were made);
    the third component of the state is `asideSeed`. -/
def moveSourcesAside (old new : Build) (w : Work) (t : Tree) : Except Err (Tree × List (Path × Path)) := do
  let used := pathsInUse old new
  let (t, aside, _) ← w.transpositions.foldlM (fun (st : Tree × List (Path × Path) × Nat) (x : Nat × Nat) =>
    let (t, aside, seed) := st
    match old.files[x.2]? with
    | none => .error .einval
    | some (op, _) =>
      if !new.dirs.contains op || aside.any (·.1 == op) then .ok (t, aside, seed)
      else
        let seed := nextFreeAside used op (used.length + 1) (seed + 1)
        let a := asideName op seed
        match moveFile t op a with
        | .ok t' => .ok (t', aside ++ [(op, a)], seed)
        | .error e => .error e) (t, [], 0)
  pure (t, aside)

/-- `applyTranspositions` with the visiting orders of the two map loops as parameters. -/
def applyTranspositions (old new : Build) (w : Work) (order₁ order₂ : List Path) (t : Tree)
    (aside : List (Path × Path) := []) : Except Err Tree := do
  let ts : List Transpo := w.transpositions.filterMap fun (s, tg) =>
    match new.files[s]?, old.files[tg]? with
    | some (np, _), some (op, _) => some { targetPath := asideOf aside op, outputPath := np }
    | _, _ => none
  -- the Go map is keyed by the path a source is read from; the visiting orders are given over the old paths
  let order₁ := order₁.map (asideOf aside)
  let order₂ := order₂.map (asideOf aside)
  let sources := (ts.map (·.targetPath)).eraseDups
  let (groups₁, cleanup) := safePass (groupsOf ts order₁) sources (pathsInUse old new) old.dirs
  -- the second loop visits the same (rewritten) groups in its own order
  let groups₂ := order₂.filterMap fun p => groups₁.find? (·.1 == p)
  let overlayPaths := w.overlayFiles.filterMap fun i => (new.files[i]?).map (·.1)
  let t ← groups₂.foldlM (fun t (gp, g) => applyGroup t (overlayPaths.contains gp) gp g) t
  cleanup.foldlM (fun t c => moveFile t c.targetPath c.outputPath) t

/-- `applyMoves`: staged plain files are moved into place (the stage holds the new content). -/
def applyMoves (new : Build) (w : Work) (t : Tree) : Except Err Tree :=
  w.moveFiles.foldlM (fun t i =>
    match new.files[i]? with
    | none => .error .einval
    | some (p, data) => do
      let t ← clearDest t p
      let t ← mkdirs t p.dropLast
      writeFile t p data) t

/-- `applyOverlays`: the output file must exist (opened O_WRONLY without O_CREATE); it ends up with the new
    content (C14). -/
def applyOverlays (new : Build) (w : Work) (t : Tree) : Except Err Tree :=
  w.overlayFiles.foldlM (fun t i =>
    match new.files[i]? with
    | none => .error .einval
    | some (p, data) => do
      let _ ← readFile t p
      writeFile t p data) t

/-- `deleteGhosts`: old entries absent from the new build, longest path (as a string) first.  Since the repair of
    finding F25 a ghost below a path that is a file or a symlink of the new build is skipped (`isBelowAny(leaves,
    ghost.Path)`): it went away when that entry was put in place, and looking it up would go through the new
    symlink. -/
def deleteGhosts (old new : Build) (t : Tree) : Except Err Tree :=
  let newPaths := new.files.map (·.1) ++ new.symlinks.map (·.1) ++ new.dirs
  let leaves := new.files.map (·.1) ++ new.symlinks.map (·.1)
  let ghosts : List (Path × Bool) :=
    (old.files.filterMap fun (p, _) => if newPaths.contains p then none else some (p, false)) ++
    (old.symlinks.filterMap fun (p, _) => if newPaths.contains p then none else some (p, false)) ++
    (old.dirs.filterMap fun p => if newPaths.contains p then none else some (p, true))
  let sorted := ghosts.mergeSort (fun a b => (String.intercalate "/" a.1).length ≥ (String.intercalate "/" b.1).length)
  sorted.foldlM (fun t (p, isDir) =>
    if leaves.any (fun l => isPrefix l p) then .ok t else
    match lstat t p with
    | .error _ => .ok t
    | .ok _ =>
      match remove t p with
      | .ok t' => .ok t'
      | .error e => if e == .enoent ∨ isDir then .ok t else .error e) t

/-- `Commit`.  Since the repair of finding F27 the symlinks of the new build are put in place AFTER the
    transpositions, the staged moves and the overlays (`ensureDirs` … `applyOverlays`, `ensureSymlinks`,
    `deleteGhosts`): what a new symlink replaces may still have to be renamed or copied elsewhere. -/
def commit (old new : Build) (w : Work) (order₁ order₂ : List Path) (t : Tree) : Except Err Tree := do
  let (t, aside) ← moveSourcesAside old new w t
  let t ← new.dirs.foldlM ensureDir t
  let t ← applyTranspositions old new w order₁ order₂ t aside
  let t ← applyMoves new w t
  let t ← applyOverlays new w t
  let t ← new.symlinks.foldlM (fun t (p, d) => ensureSymlink t p d) t
  deleteGhosts old new t

def treeOfBuild (b : Build) : Tree :=
  { entries := b.dirs.map (fun p => (p, Node.dir)) ++ b.files.map (fun (p, d) => (p, Node.file d)) ++
               b.symlinks.map (fun (p, d) => (p, Node.symlink d)) }

end Wharf.Commit
