/-
  Model of signature production (wsync/hashes.go:CreateSignature with bufio.Scanner + splitfunc) and of
  the re-derivation of block index / short size when a signature is read back (pwr/sign.go:ReadSignature).
-/
import Wharf.Model.Basic
import Wharf.Model.Rsync
import Wharf.Model.Validate

namespace Wharf.Sign
open Wharf

/-- The scanner's state: bytes buffered and blocks (tokens) emitted so far. -/
structure Scan where
  rbuf : List Byte := []     -- most recent first
  n : Nat := 0
  blocks : List (List Byte) := []
  deriving Repr

/-- One byte arrives in the scanner's buffer; `splitfunc` yields a token as soon as `bs` bytes are there. -/
def scanPush (bs : Nat) (s : Scan) (b : Byte) : Scan :=
  let s := { s with rbuf := b :: s.rbuf, n := s.n + 1 }
  if s.n = bs then { rbuf := [], n := 0, blocks := s.blocks ++ [s.rbuf.reverse] } else s

/-- One `Read` of the underlying reader returned `chunk`. -/
def scanRead (bs : Nat) (s : Scan) (chunk : List Byte) : Scan := chunk.foldl (scanPush bs) s

/-- At EOF: the remaining bytes are a final short token; no token at all means the caller hashes an
    empty block (`blockIndex == 0`). -/
def scanFinish (s : Scan) : List (List Byte) :=
  let blocks := if s.n > 0 then s.blocks ++ [s.rbuf.reverse] else s.blocks
  if blocks.isEmpty then [[]] else blocks

/-- Blocks hashed by `CreateSignature` when the reader delivers the file in the given reads. -/
def scanBlocks (bs : Nat) (reads : List (List Byte)) : List (List Byte) :=
  scanFinish (reads.foldl (scanRead bs) {})

/-- weak hash of a block given as a list -/
def weakOf (block : List Byte) : UInt32 := (Rsync.betaHash (Content.ofList block) 0 block.length).1

/-- `hashBlock` applied to the blocks in order: (index, weak, ShortSize, the block itself as strong hash). -/
def entriesOf (bs fi : Nat) (blocks : List (List Byte)) : List (Rsync.Entry × List Byte) :=
  (List.range blocks.length).zip blocks |>.map fun (i, blk) =>
    (⟨fi, i, weakOf blk, Rsync.shortOf bs blk.length⟩, blk)

/-- `ReadSignature`'s re-derived short size for block `i` of a file of `size` bytes. -/
def rederivedShort (bs size i : Nat) : Nat := if (i + 1) * bs > size then size % bs else 0

end Wharf.Sign
