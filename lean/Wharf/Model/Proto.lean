/-
  Model of the protobuf wire encoding of the patch messages (what `proto.Marshal` / `proto.Unmarshal` of
  google.golang.org/protobuf do for `pwr.SyncHeader`, `pwr.SyncOp`, `bsdiff.Control`, `pwr.BsdiffHeader`):
  the step between the BYTES of a frame body (`Wire.frame`) and the field record `Patch.WMsg` the
  message-level patcher model starts from.

  * a record is a sequence of fields `key value`, `key = field * 8 + wiretype` as a uvarint;
  * wire type 0: the value is a uvarint, read as a 64-bit two's-complement integer (int64, int32, enum, bool);
  * wire type 2: uvarint length, then that many bytes;
  * wire types 1 and 5 (fixed64 / fixed32): none of the modelled messages declares such a field, so the decoder
    skips 8 / 4 bytes (unknown field);
  * wire types 4, 6, 7 and field numbers outside 1 .. 2^29-1 are decoding errors; so is any truncation and any
    uvarint longer than 10 bytes or with a 10th byte > 1;
  * wire type 3 (start of a deprecated group): an unknown field, skipped up to the matching end-group tag, nested
    groups included (`skipGroup`); the library's nesting limit of 10 000 levels is not modelled.

  The typed views `Patch.asSyncOp` etc. then pick the last value of each declared field with the declared
  wire type, as the generated Go code does.
-/
import Wharf.Model.Wire
import Wharf.Model.Patch

namespace Wharf.Proto
open Wharf Wharf.Wire Wharf.Patch

def two64 : Nat := 18446744073709551616
def two63 : Nat := 9223372036854775808
def maxField : Nat := 536870912     -- 2^29: first invalid field number

/-- An int64 field value as the unsigned 64-bit quantity protobuf writes. -/
def toU64 (v : Int) : Nat := (v % (two64 : Int)).toNat

/-- ... and back (`int64(uint64)`). -/
def ofU64 (n : Nat) : Int := if n < two63 then (n : Int) else (n : Int) - (two64 : Int)

/-- `protowire.ConsumeFieldValue` for a start-group (deprecated wire type 3; none of the modelled messages declares
    one, so it is an unknown field): skip fields until the end-group tag with the same field number; nested groups
    are skipped recursively. Tags inside a group go through `protowire.ConsumeTag` (field number 1 .. 2^31-1).
    Returns the bytes after the group. (The library's nesting limit of 10 000 is not modelled.) -/
def skipGroup : Nat → Nat → List Byte → Option (List Byte)
  | 0, _, _ => none
  | fuel + 1, num, s =>
    match readUvarint s with
    | none => none
    | some (key, rest) =>
      let f := key / 8
      if f = 0 ∨ f > 2147483647 then none
      else if key % 8 = 4 then (if f = num then some rest else none)
      else if key % 8 = 0 then
        match readUvarint rest with
        | none => none
        | some (_, r) => skipGroup fuel num r
      else if key % 8 = 2 then
        match readUvarint rest with
        | none => none
        | some (len, r) => if r.length < len then none else skipGroup fuel num (r.drop len)
      else if key % 8 = 1 then
        if rest.length < 8 then none else skipGroup fuel num (rest.drop 8)
      else if key % 8 = 5 then
        if rest.length < 4 then none else skipGroup fuel num (rest.drop 4)
      else if key % 8 = 3 then
        match skipGroup fuel f rest with
        | none => none
        | some r => skipGroup fuel num r
      else none

def encField : Nat × WVal → List Byte
  | (f, .varint v) => uvarint (f * 8) ++ uvarint (toU64 v)
  | (f, .bytes b) => uvarint (f * 8 + 2) ++ (uvarint b.length ++ b)

/-- `proto.Marshal` of a record whose fields are listed in the order they are written. -/
def encode (m : WMsg) : List Byte := (m.map encField).flatten

/-- `proto.Unmarshal` into a field record; `none` is a decoding error. -/
def decode : Nat → List Byte → Option WMsg
  | 0, _ => none
  | fuel + 1, s =>
    if s = [] then some []
    else
      match readUvarint s with
      | none => none
      | some (key, rest) =>
        let f := key / 8
        if f = 0 ∨ f ≥ maxField then none
        else if key % 8 = 0 then
          match readUvarint rest with
          | none => none
          | some (v, rest') => (decode fuel rest').map (fun t => (f, WVal.varint (ofU64 v)) :: t)
        else if key % 8 = 2 then
          match readUvarint rest with
          | none => none
          | some (len, rest') =>
            if rest'.length < len then none
            else (decode fuel (rest'.drop len)).map (fun t => (f, WVal.bytes (rest'.take len)) :: t)
        else if key % 8 = 1 then
          if rest.length < 8 then none else decode fuel (rest.drop 8)
        else if key % 8 = 5 then
          if rest.length < 4 then none else decode fuel (rest.drop 4)
        else if key % 8 = 3 then
          match skipGroup fuel f rest with
          | none => none
          | some r => decode fuel r
        else none

def unmarshal (s : List Byte) : Option WMsg := decode (s.length + 1) s

/-- proto3 omits fields holding the zero value. -/
def isZero : WVal → Bool
  | .varint v => v == 0
  | .bytes b => b.isEmpty

def canon (m : WMsg) : WMsg := m.filter (fun p => !isZero p.2)

/-- What the generated Go code marshals for each message type (fields in ascending number order, zero values
    omitted). -/
def ofSyncHeader (h : SyncHeader) : WMsg :=
  canon [(fSyncHeaderType, .varint h.type), (fSyncHeaderFileIndex, .varint h.fileIndex)]
def ofSyncOp (o : SyncOp) : WMsg :=
  canon [(fOpType, .varint o.type), (fOpFileIndex, .varint o.fileIndex), (fOpBlockIndex, .varint o.blockIndex),
         (fOpBlockSpan, .varint o.blockSpan), (fOpData, .bytes o.data)]
def ofControl (c : Control) : WMsg :=
  canon [(fCtrlAdd, .bytes c.add), (fCtrlCopy, .bytes c.copy), (fCtrlSeek, .varint c.seek),
         (fCtrlEof, .varint (if c.eof then 1 else 0))]
def ofBsdiffHeader (t : Int) : WMsg := canon [(fBsdiffTargetIndex, .varint t)]

/-- Well-formed record: what a writer can hold (valid field numbers, 64-bit integers, lengths below 2^64). -/
def FieldWF : Nat × WVal → Prop
  | (f, .varint v) => 1 ≤ f ∧ f < maxField ∧ -(two63 : Int) ≤ v ∧ v < (two63 : Int)
  | (f, .bytes b) => 1 ≤ f ∧ f < maxField ∧ b.length < two64

def WF (m : WMsg) : Prop := ∀ p ∈ m, FieldWF p

def Int64 (v : Int) : Prop := -(two63 : Int) ≤ v ∧ v < (two63 : Int)
def Int32 (v : Int) : Prop := -2147483648 ≤ v ∧ v < 2147483648

end Wharf.Proto
