/-
  Model of pwr/overlay: the overlay writer's window processing (`overlayProcessor.write`, transcribed
  with its `same` / `lastOp` / `commit` arithmetic), the `bufio.Writer` in front of it, and the
  overlay applier (`OverlayPatchContext.Patch` followed by the caller's truncate).
-/
import Wharf.Model.Basic

namespace Wharf.Overlay
open Wharf

/-- An overlay operation.  `fresh` carries the bytes themselves. -/
inductive OOp where
  | skip (len : Nat)
  | fresh (data : List Byte)
  | done                       -- the HEY_YOU_DID_IT end marker written by `Finalize`
  deriving Repr, BEq, DecidableEq

structure Params where
  bufSize : Nat      -- overlayBufSize (128 KiB)
  threshold : Nat    -- overlaySameThreshold (8 KiB)

/-- Loop state of `overlayProcessor.write`: `same`, `lastOp`, ops emitted so far (in order). -/
structure WState where
  same : Nat := 0
  lastOp : Nat := 0
  ops : List OOp := []
  deriving Repr

/-- The `commit` closure: `fresh(buf[lastOp : i-same])` if non-empty, then `skip(same)`. -/
def commit (buf : List Byte) (i : Nat) (s : WState) : WState :=
  let freshLen := i - s.same - s.lastOp
  let ops := if freshLen > 0 then s.ops ++ [.fresh ((buf.drop s.lastOp).take (i - s.same - s.lastOp))] else s.ops
  { s with lastOp := i, ops := ops ++ [.skip s.same] }

/-- Body of `for i := 0; i < rbuflen; i++` for index `i`, given whether `rbuf[i] == buf[i]`. -/
def scanStep (P : Params) (buf : List Byte) (eq : Bool) (i : Nat) (s : WState) : WState :=
  if eq then
    { s with same := s.same + 1 }
  else
    let s := if s.same > P.threshold then commit buf i s else s
    { s with same := 0 }

/-- The scan loop: walks the remaining parts of `rbuf` and `buf` in lockstep from index `i`
    (it stops at the end of `rbuf`, which is never longer than `buf`). -/
def scan (P : Params) (buf : List Byte) : List Byte → List Byte → Nat → WState → WState
  | r :: rs, b :: bs, i, s => scan P buf rs bs (i + 1) (scanStep P buf (r == b) i s)
  | _, _, _, s => s

/-- One call of `overlayProcessor.write` on a window `buf` (already cut to `≤ bufSize`), where `rbuf`
    is what the read of the old file returned (`rbuf.length ≤ buf.length`). Returns the ops emitted. -/
def window (P : Params) (rbuf buf : List Byte) : List OOp :=
  let rl := rbuf.length
  let s := scan P buf rbuf buf 0 {}
  let s := if s.same > P.threshold then commit buf rl s else s
  let ops := if s.lastOp < rl then s.ops ++ [.fresh ((buf.drop s.lastOp).take (rl - s.lastOp))] else s.ops
  if rl < buf.length then ops ++ [.fresh (buf.drop rl)] else ops

/-- What the old-file reader returns for a request of `n` bytes at `readOffset`. -/
def readOld (old : List Byte) (readOffset n : Nat) : List Byte := (old.drop readOffset).take n

/-- The writer fed with windows of the given sizes, starting at `readOffset` into the old file:
    returns all ops.  (`overlayProcessor.Write` + `write`; each window is cut to `bufSize`.) -/
def writeWindows (P : Params) (old : List Byte) : List Byte → Nat → List Nat → List OOp
  | _, _, [] => []
  | new, ro, w :: ws =>
    let buf := new.take w
    window P (readOld old ro buf.length) buf ++ writeWindows P old (new.drop w) (ro + buf.length) ws

/-- `OverlayPatchContext.Patch`: seek on skip, write on fresh; returns the file and the final position. -/
def applyOps : List OOp → List Byte → Nat → List Byte × Nat
  | [], file, pos => (file, pos)
  | .done :: _, file, pos => (file, pos)
  | .skip n :: ops, file, pos => applyOps ops file (pos + n)
  | .fresh d :: ops, file, pos =>
    -- write at pos: pad with zeros if pos is past the end (sparse write), overwrite, keep the rest
    let padded := if file.length < pos then file ++ List.replicate (pos - file.length) 0 else file
    applyOps ops (padded.take pos ++ d ++ padded.drop (pos + d.length)) (pos + d.length)

/-- Apply then truncate at the final position (`applyOverlays`). `Truncate` extends with zeros when growing. -/
def patch (ops : List OOp) (old : List Byte) : List Byte :=
  let (file, pos) := applyOps ops old 0
  if file.length < pos then file ++ List.replicate (pos - file.length) 0 else file.take pos

/-! ### bufio.Writer in front of the processor -/

inductive Ev where
  | write (n : Nat)
  | flush
  deriving Repr

/-- `overlayProcessor.Write(buf)` for `len(buf) = rem`: the loop `for written < len(buf)` re-slices `buf`
    while it counts `written`, so it stops as soon as `written ≥ len(remaining buf)` and reports a short
    count; returns (window sizes processed, bytes reported written). -/
def procWrite (W : Nat) : Nat → Nat → Nat → List Nat × Nat
  | 0, wr, _ => ([], wr)
  | fuel + 1, wr, rem =>
    if wr < rem then
      let w := min W rem
      let (ws, t) := procWrite W fuel (wr + w) (rem - w)
      (w :: ws, t)
    else ([], wr)

/-- `bufio.Writer.Write(p)` with `buffered` bytes pending and `len(p) = n`:
    returns (windows handed to the processor, new buffered count). -/
def bufioWrite (W : Nat) : Nat → Nat → Nat → List Nat × Nat
  | 0, buffered, _ => ([], buffered)
  | fuel + 1, buffered, n =>
    if n > W - buffered then
      if buffered = 0 then
        -- large write on an empty buffer goes straight to the processor, which may report a short count
        let (ws, t) := procWrite W (n + 1) 0 n
        let (ws', b) := bufioWrite W fuel 0 (n - t)
        (ws ++ ws', b)
      else
        -- fill the buffer, flush it as one window, continue with the rest
        let k := W - buffered
        let (ws, b) := bufioWrite W fuel 0 (n - k)
        (W :: ws, b)
    else ([], buffered + n)

/-- Windows seen by the processor for a sequence of writes and flushes, ending with a final flush. -/
def bufioWindows (W : Nat) : List Ev → Nat → List Nat
  | [], buffered => if buffered > 0 then [buffered] else []
  | .write n :: evs, buffered =>
    let (ws, b) := bufioWrite W (n + 2) buffered n   -- every recursive call consumes at least one byte
    ws ++ bufioWindows W evs b
  | .flush :: evs, buffered =>
    (if buffered > 0 then [buffered] else []) ++ bufioWindows W evs 0

end Wharf.Overlay
