/-
  Model of bsdiff/lrufile: a chunked LRU read cache over the old file.

  `simplelru` is modelled as an MRU-first association list of capacity `cap` with the eviction
  callback of the code (clear the evicted entry's allocation).  A storage slot holds the bytes
  last read into it (only the valid prefix of a chunk is ever looked at; stale bytes beyond it
  are represented by nothing).
-/
import Wharf.Model.Basic

namespace Wharf.Lru
open Wharf

structure LruFile where
  chunkSize : Nat
  cap : Nat
  file : List Byte               -- the underlying reader's content
  offset : Int := 0
  cache : List (Nat × Int) := [] -- (chunkIndex, storageIndex or -1), most recently used first
  alloc : List Int := []         -- per slot: chunk index or -1
  storage : List (List Byte) := []
  hits : Nat := 0
  misses : Nat := 0
  deriving Repr

/-- `lrufile.New` + `Reset`. -/
def new (chunkSize cap : Nat) (file : List Byte) : LruFile :=
  { chunkSize := chunkSize, cap := cap, file := file,
    alloc := List.replicate cap (-1), storage := List.replicate cap [] }

/-- `simplelru.Get`: on a hit the entry moves to the front. -/
def cacheGet (c : List (Nat × Int)) (k : Nat) : Option (Int × List (Nat × Int)) :=
  match c.find? (fun e => e.1 == k) with
  | some e => some (e.2, e :: c.filter (fun e => e.1 != k))
  | none => none

/-- `simplelru.Add`: update+front if present; else insert at the front and evict the oldest when over
    capacity. Returns the new cache and the evicted entry, if any. -/
def cacheAdd (cap : Nat) (c : List (Nat × Int)) (k : Nat) (v : Int) : List (Nat × Int) × Option (Nat × Int) :=
  if c.any (fun e => e.1 == k) then ((k, v) :: c.filter (fun e => e.1 != k), none)
  else
    let c' := (k, v) :: c
    if c'.length > cap then (c'.dropLast, c'.getLast?) else (c', none)

/-- index of the first free slot (`for k, v := range allocations { if v < 0 … }`). -/
def firstFree : List Int → Nat → Option Nat
  | [], _ => none
  | v :: vs, k => if v < 0 then some k else firstFree vs (k + 1)

/-- `getChunk`: returns the slot's bytes or an error. -/
def getChunk (lf : LruFile) (chunkIndex : Nat) : Outcome (LruFile × List Byte) :=
  match cacheGet lf.cache chunkIndex with
  | some (si, c') =>
    .ok ({ lf with cache := c', hits := lf.hits + 1 }, lf.storage.getD si.toNat [])
  | none =>
    let (c1, ev) := cacheAdd lf.cap lf.cache chunkIndex (-1)
    -- eviction callback: allocations[storageIndex] = -1 (a negative index would panic in Go)
    let alloc1 := match ev with
      | some (_, si) => if si < 0 then lf.alloc else lf.alloc.set si.toNat (-1)
      | none => lf.alloc
    let badEvict := match ev with
      | some (_, si) => decide (si < 0)
      | none => false
    if badEvict then .panic "eviction of an entry without storage (allocations[-1])" else
    match firstFree alloc1 0 with
    | none => .err "internal error: could not find room in lrufile cache"
    | some k =>
      let (c2, _) := cacheAdd lf.cap c1 chunkIndex k
      let bytes := (lf.file.drop (chunkIndex * lf.chunkSize)).take lf.chunkSize
      .ok ({ lf with cache := c2, alloc := alloc1.set k chunkIndex, storage := lf.storage.set k bytes,
                     misses := lf.misses + 1 }, bytes)

/-- `Read(buf)` with `len(buf) = n`: returns the bytes and whether `io.EOF` was returned. -/
def read (lf : LruFile) : Nat → Nat → List Byte → Outcome (LruFile × List Byte × Bool)
  | 0, _, acc => .ok (lf, acc, false)
  | fuel + 1, remaining, acc =>
    if remaining = 0 then .ok (lf, acc, false) else
    let off := lf.offset.toNat
    let chunkIndex := off / lf.chunkSize
    match getChunk lf chunkIndex with
    | .err e => .err e
    | .panic p => .panic p
    | .ok (lf, chunk) =>
      let start := off % lf.chunkSize
      let chunkStart := chunkIndex * lf.chunkSize
      let lastChunk := chunkStart + lf.chunkSize > lf.file.length
      let chunkEnd := if lastChunk then lf.file.length else chunkStart + lf.chunkSize
      let cs := chunkEnd - chunkStart
      let endWanted := start + remaining
      let eof := endWanted > cs ∧ lastChunk
      let end' := if endWanted > cs then cs else endWanted
      let piece := (chunk.drop start).take (end' - start)
      let lf := { lf with offset := lf.offset + piece.length }
      if eof then .ok (lf, acc ++ piece, true)
      else read lf fuel (remaining - piece.length) (acc ++ piece)

/-- `Seek(offset, io.SeekStart)`; an out-of-range offset resets to 0 and fails. -/
def seekStart (lf : LruFile) (o : Int) : LruFile × Bool :=
  if o < 0 ∨ o > lf.file.length then ({ lf with offset := 0 }, false) else ({ lf with offset := o }, true)

/-- Specification: a plain reader over the same bytes. -/
def plainRead (file : List Byte) (offset : Nat) (n : Nat) : List Byte := (file.drop offset).take n

inductive Op where
  | seek (o : Int)
  | read (n : Nat)
  deriving Repr

/-- Run an operation sequence; outputs one entry per op: bytes read (or `none` for a failed seek). -/
def run (lf : LruFile) : List Op → Outcome (LruFile × List (Option (List Byte)))
  | [] => .ok (lf, [])
  | .seek o :: ops =>
    let (lf, ok) := seekStart lf o
    match run lf ops with
    | .ok (lf', outs) => .ok (lf', (if ok then some [] else none) :: outs)
    | .err e => .err e
    | .panic p => .panic p
  | .read n :: ops =>
    match read lf (n + 1) n [] with
    | .err e => .err e
    | .panic p => .panic p
    | .ok (lf, bytes, _) =>
      match run lf ops with
      | .ok (lf', outs) => .ok (lf', some bytes :: outs)
      | .err e => .err e
      | .panic p => .panic p

/-- Same operation sequence on a plain reader. -/
def runPlain (file : List Byte) : Nat → List Op → List (Option (List Byte))
  | _, [] => []
  | _, .seek o :: ops =>
    if o < 0 ∨ o > file.length then none :: runPlain file 0 ops else some [] :: runPlain file o.toNat ops
  | off, .read n :: ops =>
    let b := plainRead file off n
    some b :: runPlain file (off + b.length) ops

end Wharf.Lru
