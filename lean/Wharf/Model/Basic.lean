/-
  Shared basic definitions of the wharf model.  Core Lean only (no Mathlib), so that
  the line-protocol driver can be linked as a `lean_exe`.
-/
namespace Wharf

abbrev Byte := UInt8

/-- A file content given by its size and an accessor.  The driver instantiates `get` with
    `ByteArray.get!`; theorems only ever look at indices `< size`. -/
structure Content where
  size : Nat
  get : Nat → Byte

namespace Content

def ofList (l : List Byte) : Content := ⟨l.length, fun i => l.getD i 0⟩

def ofByteArray (b : ByteArray) : Content := ⟨b.size, fun i => b.get! i⟩

/-- bytes `[a, a+len)` (no bound check: callers prove `a + len ≤ size`). -/
def slice (c : Content) (a len : Nat) : List Byte :=
  (List.range len).map (fun k => c.get (a + k))

def toList (c : Content) : List Byte := c.slice 0 c.size

/-- byte-wise equality of `c[a, a+len)` and `d[b, b+len)` without allocating. -/
def sameBytes (c : Content) (a : Nat) (d : Content) (b : Nat) : Nat → Bool
  | 0 => true
  | n + 1 => c.get a == d.get b && sameBytes c (a + 1) d (b + 1) n

end Content

/-- Outcome of a model function mirroring Go code that may fail or panic. -/
inductive Outcome (α : Type) where
  | ok (a : α)
  | err (msg : String)
  | panic (site : String)
  deriving Repr

namespace Outcome
def isPanic {α} : Outcome α → Bool
  | .panic _ => true
  | _ => false
def bind {α β} (x : Outcome α) (f : α → Outcome β) : Outcome β :=
  match x with
  | .ok a => f a
  | .err e => .err e
  | .panic s => .panic s
instance : Monad Outcome where
  pure := .ok
  bind := bind
end Outcome

/-- FNV-1a 64-bit, used by both sides of the correspondence to summarise byte strings. -/
def fnvOffset : UInt64 := 14695981039346656037
def fnvPrime : UInt64 := 1099511628211
@[inline] def fnvStep (h : UInt64) (b : Byte) : UInt64 := (h ^^^ b.toUInt64) * fnvPrime

def fnvList (l : List Byte) : UInt64 := l.foldl fnvStep fnvOffset

def fnvContent (c : Content) (a len : Nat) : UInt64 := Id.run do
  let mut h := fnvOffset
  for k in [0:len] do
    h := fnvStep h (c.get (a + k))
  return h

end Wharf
