/-
  Transition-system model of `ValidatorContext.Validate`'s goroutines (pwr/validator.go, pwr/wounds.go):
  the main goroutine (dir/symlink pass, dispatch loop, joins), the worker (`validate`/`doOne`), the wound
  consumer goroutine (consumer `Do`, then "throw away wounds until closed"), the wounds channel with its
  capacity, the two one-slot error channels, the `cancelled` channel and context cancellation as an
  environment step that may fire at any time.

  Abstractions: the per-file relay/aggregator goroutines are folded into the worker (they are joined before
  the file's writer closes): validating a file is "emit its wounds one by one, then finish the file"; a
  wound send blocks while the channel is full.  What a consumer does with a wound is irrelevant here; it
  may return an error after any wound (`failAfter`), and returns on context cancellation.
-/
import Wharf.Model.Basic

namespace Wharf.ValidateTS

/-- main goroutine program counter -/
inductive MainPC where
  | pre (left : Nat)        -- dir + symlink pass: `left` entries still to inspect (each may send a wound)
  | loop (next : Nat)       -- dispatch loop: next file index to hand out
  | closed                  -- fileIndices closed, waiting for the worker's error
  | woundsClosed            -- wounds channel closed, waiting for the consumer's error
  | returned
  deriving Repr, DecidableEq

inductive WorkerPC where
  | idle                    -- in the `select` on fileIndices / cancelled
  | file (woundsLeft : Nat) -- inside doOne: wounds still to send for this file
  | exiting                 -- about to send on workerErrs
  | gone
  deriving Repr, DecidableEq

inductive ConsumerPC where
  | running (budget : Option Nat)  -- inside Do; `some k`: returns an error after k more wounds
  | sending                 -- Do returned: about to send its result on consumerErrs
  | draining                -- "throw away wounds until closed"
  | gone
  deriving Repr, DecidableEq

structure St where
  cap : Nat                 -- capacity of the wounds channel (1024)
  nfiles : Nat
  woundsOf : Nat → Nat      -- how many wounds/markers file i produces
  main : MainPC
  worker : WorkerPC
  consumer : ConsumerPC
  wounds : Nat := 0         -- wounds buffered in the channel
  woundsClosed : Bool := false
  workerErr : Bool := false -- a value sits in workerErrs (capacity 1)
  consumerErr : Bool := false
  fileIndicesClosed : Bool := false
  cancelled : Bool := false -- the `cancelled` channel is closed
  ctxDone : Bool := false

inductive Lbl where
  | ctxCancel                       -- environment: the context is cancelled
  | mainPreSkip                     -- dir/symlink pass: entry is fine
  | mainPreWound                    -- dir/symlink pass: send a wound (needs room)
  | mainDispatch                    -- loop: hand a file index to the idle worker
  | mainSeesWorkerErr               -- loop: a worker error arrives: put nil back, close cancelled, stop sending
  | mainSeesConsumerErr             -- loop: the consumer's result arrives: put nil back, close cancelled
  | mainCloseIndices                -- after the loop: close(fileIndices)
  | mainJoinWorker                  -- err := <-workerErrs ; close(wounds)
  | mainJoinConsumer                -- cErr := <-consumerErrs ; return
  | workerSendWound                 -- doOne: one wound/marker goes into the channel (needs room)
  | workerFinishFile                -- doOne returns nil
  | workerFails                     -- doOne returns an error
  | workerSeesClosed                -- idle: fileIndices closed or cancelled
  | workerExit                      -- deferred: errs <- retErr (needs the slot free)
  | consumerTake                    -- consumer receives a wound
  | consumerFail                    -- consumer returns an error (budget exhausted)
  | consumerCtx                     -- consumer returns because the context is done
  | consumerSeesClosed              -- consumer sees the closed, empty channel: returns nil
  | consumerSend                    -- consumerErrs <- result (needs the slot free)
  | drainTake                       -- draining: discard a wound
  | drainDone                       -- draining: channel closed and empty
  deriving Repr, DecidableEq

def step (s : St) : Lbl → Option St
  | .ctxCancel => if s.ctxDone then none else some { s with ctxDone := true }
  | .mainPreSkip =>
    match s.main with
    | .pre (k + 1) => some { s with main := if k = 0 then .loop 0 else .pre k }
    | _ => none
  | .mainPreWound =>
    match s.main with
    | .pre (k + 1) => if s.wounds < s.cap then some { s with wounds := s.wounds + 1, main := if k = 0 then .loop 0 else .pre k } else none
    | _ => none
  | .mainDispatch =>
    match s.main, s.worker with
    | .loop i, .idle =>
      if i < s.nfiles ∧ ¬ s.cancelled then some { s with main := .loop (i + 1), worker := .file (s.woundsOf i) } else none
    | _, _ => none
  | .mainSeesWorkerErr =>
    match s.main with
    | .loop i => if i < s.nfiles ∧ s.workerErr ∧ ¬ s.cancelled then some { s with cancelled := true } else none   -- takes the error and puts nil back: the slot stays full
    | _ => none
  | .mainSeesConsumerErr =>
    match s.main with
    | .loop i => if i < s.nfiles ∧ s.consumerErr ∧ ¬ s.cancelled then some { s with cancelled := true } else none
    | _ => none
  | .mainCloseIndices =>
    match s.main with
    | .loop i => if i ≥ s.nfiles ∨ s.cancelled then some { s with main := .closed, fileIndicesClosed := true } else none
    | _ => none
  | .mainJoinWorker =>
    match s.main with
    | .closed => if s.workerErr then some { s with main := .woundsClosed, workerErr := false, woundsClosed := true } else none
    | _ => none
  | .mainJoinConsumer =>
    match s.main with
    | .woundsClosed => if s.consumerErr then some { s with main := .returned, consumerErr := false } else none
    | _ => none
  | .workerSendWound =>
    match s.worker with
    | .file (k + 1) => if s.wounds < s.cap then some { s with wounds := s.wounds + 1, worker := .file k } else none
    | _ => none
  | .workerFinishFile =>
    match s.worker with
    | .file 0 => some { s with worker := .idle }
    | _ => none
  | .workerFails =>
    match s.worker with
    | .file _ => some { s with worker := .exiting }
    | _ => none
  | .workerSeesClosed =>
    match s.worker with
    | .idle => if s.fileIndicesClosed ∨ s.cancelled then some { s with worker := .exiting } else none
    | _ => none
  | .workerExit =>
    match s.worker with
    | .exiting => if ¬ s.workerErr then some { s with worker := .gone, workerErr := true } else none
    | _ => none
  | .consumerTake =>
    match s.consumer with
    | .running b =>
      if s.wounds > 0 then
        match b with
        | some 0 => none
        | some (k + 1) => some { s with wounds := s.wounds - 1, consumer := .running (some k) }
        | none => some { s with wounds := s.wounds - 1, consumer := .running none }
      else none
    | _ => none
  | .consumerFail =>
    match s.consumer with
    | .running (some 0) => some { s with consumer := .sending }
    | _ => none
  | .consumerCtx =>
    match s.consumer with
    | .running _ => if s.ctxDone then some { s with consumer := .sending } else none
    | _ => none
  | .consumerSeesClosed =>
    match s.consumer with
    | .running _ => if s.woundsClosed ∧ s.wounds = 0 then some { s with consumer := .sending } else none
    | _ => none
  | .consumerSend =>
    match s.consumer with
    | .sending => if ¬ s.consumerErr then some { s with consumer := .draining, consumerErr := true } else none
    | _ => none
  | .drainTake =>
    match s.consumer with
    | .draining => if s.wounds > 0 then some { s with wounds := s.wounds - 1 } else none
    | _ => none
  | .drainDone =>
    match s.consumer with
    | .draining => if s.woundsClosed ∧ s.wounds = 0 then some { s with consumer := .gone } else none
    | _ => none

/-- initial state: `pre` entries in the dir+symlink pass, `nfiles` files -/
def init (cap pre nfiles : Nat) (woundsOf : Nat → Nat) (budget : Option Nat) : St :=
  { cap := cap, nfiles := nfiles, woundsOf := woundsOf,
    main := if pre = 0 then .loop 0 else .pre pre, worker := .idle, consumer := .running budget }

inductive Reach (s₀ : St) : St → Prop where
  | refl : Reach s₀ s₀
  | step {s s' : St} {l : Lbl} : Reach s₀ s → step s l = some s' → Reach s₀ s'

end Wharf.ValidateTS
