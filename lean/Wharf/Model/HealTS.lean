/-
  Transition-system model of validation and healing running CONCURRENTLY (pwr/validator.go:Validate with
  `HealPath`, pwr/archive_healer.go:ArchiveHealer.Do / heal / healOne) over the abstract filesystem.

  `Wharf.Heal.validateAndHeal` fixes one schedule: the validator runs to completion on the damaged tree, then
  the healer consumes the wounds, then the queued files are rewritten.  The real code starts the consumer
  goroutine (`go func() { consumerErrs <- vctx.WoundsConsumer.Do(...) }`) BEFORE the directory pass, so every
  heal step may happen between any two `lstat`s / reads of the validator.  Three sequential activities:

    V  the validator: main goroutine (directory pass, symlink pass), then the worker `validate`/`doOne`
       (one file after the other; the per-file relay + `AggregateWounds` goroutines are joined before the
       file's writer is closed, so all wounds of file i are sent before file i+1 is opened);
    H  `ArchiveHealer.Do`: `for wound := range wounds { processWound(wound) }` — receives in channel order;
       a DIR / SYMLINK wound is healed at once in this goroutine, the first FILE wound of a file puts the file
       index into `fileIndices` (buffered with `len(container.Files)`: the send never blocks — also not with the
       synthetic FILE wounds of `healBelow`, since an index is sent at most once);
       since the repair of finding F15 a DIR wound that finds something else standing at the directory's path
       also runs `healBelow`: synthetic DIR, SYMLINK and FILE wounds for every entry of the container below it,
       processed recursively IN this goroutine (they never enter the channel) — `Wharf.Heal.healDir`;
    G  the healing goroutine `heal`: takes file indices in order, `healOne` rewrites the whole file.

  State: the current tree, V's position (three counters: the next directory / symlink / file entry), the FIFO
  wounds channel (capacity ignored: blocking and termination of the goroutine structure are the subject of
  `Wharf.ValidateTS`), H's queue of file indices (in order; it doubles as the `files` map of `Do`) and how many
  of them G has rewritten, the flag "V finished and closed the channel", and a status for failures.

  Granularity.  Every label is one atomic step on the current tree.  That loses no behaviour of the real code:
    * a validator iteration (`Lstat`, maybe `Readlink`, then the send) looks at ONE signed path; sending the wound
      at the moment of the `Lstat` only lets the model's healer receive it earlier than the real one could, and
      the model's healer may always wait;
    * a heal call is several system calls (`Lstat`, `Remove`/`RemoveAll`, `MkdirAll`, `Symlink`, open-truncate and
      chunked writes), but its intermediate states are invisible to the entries the validator has still to
      inspect: a directory heal removes a regular file at `d` and creates `d` (entries below `d` are "not there"
      before, in between and after — ENOTDIR or ENOENT, which no verdict tells apart); a symlink or file heal only
      touches its own path and what lies below it, where nothing signed lives (`MkdirAll(parent)` is a no-op then,
      the parent directory being in place, `Proofs/HealTS: Inv.allDirs_head / Inv.queueReady`).
      `healBelow(d)` — after the thing standing at `d` (a regular file, or a symlink: F15) has been replaced by an
      empty directory — is a long sequence of calls, all of them below `d`; what the validator may see of it
      half-way is, for every entry below `d`, either "not there yet" (a wound — harmless when it arrives later:
      the entry is healed anyway, and a wound for an entry that is in place is a no-op or a re-creation) or "in
      place" (and it stays in place); see Props/C06Sched.lean, header.  Exceptions:
      the file that is being rewritten while the validator reads that very file — the racy verdict of `vFile`, see
      `admissible`; a multi-level `MkdirAll` observed half-way, which can only happen when directories are
      not listed parents-first, or a directory below `d` observed missing while `healBelow(d)` runs — `vDirLate`;
      a symlink below `d` observed missing while `healBelow(d)` runs — `vSymlinkLate`.

  Failures are dead ends here: once the validator stops with an error or a heal call fails, the run is over
  (`step` returns `none`; the failing step changes nothing but the status, i.e. the tree of a failed state is
  the tree before the failing call).  What the remaining goroutines still do after a failure is not modelled;
  C06 is about runs that complete without error (and with parents-first listing no run fails at all, see
  Props/C06Sched).

  The racy file verdict (`vFile`), what it allows and why that covers the real code, is explained at `admissible`.
-/
import Wharf.Model.Heal

namespace Wharf.HealTS
open Wharf Wharf.FS Wharf.Validate Wharf.TreeValidate Wharf.Heal

/-! ### per-entry verdicts (one iteration of the validator's loops) -/

/-- One iteration of `for dirIndex, dir := range signature.Container.Dirs`: the wound sent (none if the entry
    is a directory), or the error `Validate` returns. Same case analysis as `TreeValidate.dirWounds`. -/
def dirEntry (t : Tree) (i : Nat) (p : Path) : Outcome (List Wound) :=
  match lstat t p with
  | .error e => if notExist e then .ok [⟨.dir, i, 0, 0⟩] else .err "lstat failed"
  | .ok .dir => .ok []
  | .ok _ => .ok [⟨.dir, i, 0, 0⟩]

/-- One iteration of `for symlinkIndex, symlink := range signature.Container.Symlinks`. Same case analysis as
    `TreeValidate.symlinkWounds`. -/
def symlinkEntry (t : Tree) (i : Nat) (p : Path) (dest : String) : Outcome (List Wound) :=
  match lstat t p with
  | .ok .dir => .ok [⟨.symlink, i, 0, 0⟩]
  | .ok (.file _) => .ok [⟨.symlink, i, 0, 0⟩]
  | .ok (.symlink d) => if d = dest then .ok [] else .ok [⟨.symlink, i, 0, 0⟩]
  | .error e => if notExist e then .ok [⟨.symlink, i, 0, 0⟩] else .err "readlink failed"

/-- `doOne(i)` on a tree that does not change while the file is read: exactly the summand of
    `TreeValidate.filePassWounds`. -/
def fileEntry (bs maxSize : Nat) (t : Tree) (i : Nat) (p : Path) (S : List Byte) : List Wound :=
  fileWounds bs maxSize S i (onDisk t p)

/-- Folding a per-entry verdict over a list of entries, first error wins (the shape of `dirWounds` and
    `symlinkWounds`). -/
def passFold {α : Type} (f : Nat → α → Outcome (List Wound)) : Nat → List α → Outcome (List Wound)
  | _, [] => .ok []
  | i, a :: rest => (f i a).bind fun w => (passFold f (i + 1) rest).bind fun ws => .ok (w ++ ws)

/-! ### the racy file verdict -/

/-- Which wound lists `doOne(i)` may send for the file entry `i` when the healing goroutine runs concurrently.
    `exact` is the verdict on the current tree (`fileEntry`).

    * `exact` has no real wound (the file is on disk with the signed content): the list sent is `exact`.
    * `exact` has a real wound: ANY list of wounds with `index = i`, kinds `.file` / `.closedFile`, containing at
      least one real `.file` wound.

    Why this covers every behaviour of the real code.  The step `vFile ws` stands for the whole of `doOne(i)` and
    is placed at the moment its FIRST real wound is sent (at its return, if there is none).
    (1) Until then nothing changes what `doOne(i)` sees, as long as no signed directory above the file is a
        symlink: the only step that changes the node at the path of file `i` is G rewriting file `i`
        (`Proofs/HealTS: Untouched`, `Props/C06Sched: verdict_on_untouched_entry` — directory and symlink heals,
        `healBelow` included, and rewrites of other files, leave `tree.get p_i` alone, and without a link on the
        way the verdict depends on `tree.get p_i` only, `fileEntry_eq_of_get`), and G rewrites file `i` only after
        H has queued `i`: on RECEIVING a real file wound with index `i`, which only `doOne(i)` sends — or, since
        the repair of F15, in `healBelow(d)` for a directory `d` above the file, at which moment the file is
        MISSING (something else stood at `d`) and stays missing until G rewrites it.  So up to its first real wound
        `doOne(i)` reads a file that is constant and equal to the one in the current tree — or it finds the file
        missing / half-written by G, which is a real wound, and `exact` on the tree before G's rewrite (file
        missing) has a real wound too: if `doOne(i)` never sends a real wound, what it sends is `exact` (placed
        at the moment it opened the file); if it does, `exact` has a real wound too.
        Below a signed directory that IS a symlink (F15) the file is read THROUGH the link, `exact` is the verdict
        through the link on the current tree, and what the real validator sends may differ from it if the link
        is replaced, or the file behind it rewritten, under its feet.  The restoration theorems do not depend on
        it: for such an entry ANY verdict is as good as any other (`Proofs/HealTS: Inv.files`, fourth disjunct
        `Linked`), because `healBelow` heals the entry again after the link has been replaced.
    (2) After the first real wound the file may be rewritten under the validator's feet (H queues `i`, G
        truncates and rewrites the file while `io.Copy` is still reading it): the remaining block verdicts, the
        aggregation and the size-mismatch wound are unpredictable — any mixture of `.file` wounds and healthy
        markers of file `i`.  All of them carry index `i`.
    (3) Putting the later wounds of file `i` into the channel early (at the time of the first one) changes nothing:
        H ignores healthy markers and every further `.file` wound of an index that is already queued, they stay
        behind the first wound and ahead of everything sent for file `i+1`; healthy markers sent BEFORE the first
        real wound are received later in the model than in reality, which is harmless for the same reason.

    A file that is already queued or rewritten when the validator reaches it DOES occur since the repair of F15
    (`healBelow` queues every file below a replaced directory, `Props/C06Sched: queued_before_inspected`): queued
    and not yet rewritten, the file is missing and every list with a real wound is allowed (the wounds are ignored
    by H, `files[i]` being set); rewritten, the file is as signed and the verdict is `exact`, all healthy.
    Whenever the current tree shows a real wound, all-`.file`/`.closedFile` lists with a real wound are allowed,
    whatever the queue holds.  An all-healthy list for a file that shows a real wound on the current tree is NOT
    allowed, and rightly so: the first real wound is found before anyone can have repaired the file. -/
def admissible (i : Nat) (exact ws : List Wound) : Bool :=
  if (realWounds exact).isEmpty then decide (ws = exact)
  else ws.all (fun w => decide (w.index = i ∧ (w.kind = .file ∨ w.kind = .closedFile))) &&
       ws.any (fun w => decide (w.kind = .file))

/-! ### states, labels, transitions -/

inductive Status where
  | running
  | validatorError      -- `Validate` returned an error from the directory / symlink pass
  | healerError         -- a filesystem call of `processWound` / `healOne` failed (or an index was out of range)
  deriving Repr, DecidableEq

structure State where
  tree : Tree
  dirPos : Nat := 0             -- V: next directory entry
  symPos : Nat := 0             -- V: next symlink entry
  filePos : Nat := 0            -- V: next file entry
  chan : List Wound := []       -- `vctx.Wounds`, oldest first
  queue : List Nat := []        -- H: file indices sent to `fileIndices`, in order (= keys of `files`)
  healed : Nat := 0             -- G: how many of them have been rewritten
  closed : Bool := false        -- V is done and `close(vctx.Wounds)` has happened
  status : Status := .running

def State.failed (σ : State) : Bool := decide (σ.status ≠ .running)

inductive Label where
  | vDir                        -- V inspects the next directory entry
  | vDirLate                    -- V inspects the next directory entry in the middle of a `MkdirAll` of H
  | vSymlink                    -- V inspects the next symlink entry
  | vSymlinkLate                -- V inspects the next symlink entry in the middle of a `healBelow` of H
  | vFile (ws : List Wound)     -- V validates the next file entry, sending `ws`
  | vDone                       -- V: worker done, `close(vctx.Wounds)`
  | hWound                      -- H receives the oldest wound and processes it
  | hFile                       -- G rewrites the next queued file
  deriving Repr, DecidableEq

/-- `os.Lstat(path)` … `vctx.Wounds <- &Wound{Kind: WoundKind_DIR, Index: dirIndex}` on the CURRENT tree. -/
def stepVDir (s : Signed) (σ : State) : Option State :=
  match s.dirs[σ.dirPos]? with
  | none => none
  | some p =>
    match dirEntry σ.tree σ.dirPos p with
    | .ok w => some { σ with dirPos := σ.dirPos + 1, chan := σ.chan ++ w }
    | _ => some { σ with status := .validatorError }

/-- The one place where a heal call is not atomic for the validator: `os.MkdirAll(path)` in `processWound` creates
    the missing ancestors one by one, and when directories are NOT listed parents-first an ancestor may be
    inspected while `MkdirAll` is under way — seen missing although the (atomic) `healDir` of the model has
    already created it.  Over-approximation: the validator may report ANY directory entry as wounded; a
    directory wound for an existing directory is a no-op for the healer (`healDir`: "found existing dir, all
    good").  With parents-first listing this step adds nothing real (every ancestor is in place before a
    directory wound is handled, `Proofs/HealTS: Inv.parent_ready`).  The same over-approximation covers a
    directory below a replaced directory `d` inspected while `healBelow(d)` is creating it. -/
def stepVDirLate (s : Signed) (σ : State) : Option State :=
  match s.dirs[σ.dirPos]? with
  | none => none
  | some _ => some { σ with dirPos := σ.dirPos + 1, chan := σ.chan ++ [⟨.dir, σ.dirPos, 0, 0⟩] }

/-- `os.Lstat` / `os.Readlink` … `doWholeSymlinkWound()` on the CURRENT tree; only after the directory pass. -/
def stepVSymlink (s : Signed) (σ : State) : Option State :=
  if s.dirs.length ≤ σ.dirPos then
    match s.symlinks[σ.symPos]? with
    | none => none
    | some (p, dest) =>
      match symlinkEntry σ.tree σ.symPos p dest with
      | .ok w => some { σ with symPos := σ.symPos + 1, chan := σ.chan ++ w }
      | _ => some { σ with status := .validatorError }
  else none

/-- The other place where a heal call is not atomic for the validator (since the repair of F15): `healBelow(d)`
    recreates the symlinks below a replaced directory `d` one by one, after `d` itself and the directories below
    it.  A symlink entry below `d` inspected in between is seen missing, although before the (atomic) `healDir`
    step of the model it may look healthy THROUGH the link that stood at `d`, and after it it is in place.
    Over-approximation, as for `vDirLate`: the validator may report ANY symlink entry as wounded; a symlink wound
    for a symlink that is in place makes the healer remove and re-create it. -/
def stepVSymlinkLate (s : Signed) (σ : State) : Option State :=
  if s.dirs.length ≤ σ.dirPos then
    match s.symlinks[σ.symPos]? with
    | none => none
    | some _ => some { σ with symPos := σ.symPos + 1, chan := σ.chan ++ [⟨.symlink, σ.symPos, 0, 0⟩] }
  else none

/-- `doOne(fileIndex)`: all wounds and healthy markers of the file, see `admissible`; only after the directory
    and symlink passes. -/
def stepVFile (bs maxSize : Nat) (s : Signed) (σ : State) (ws : List Wound) : Option State :=
  if s.dirs.length ≤ σ.dirPos ∧ s.symlinks.length ≤ σ.symPos then
    match s.files[σ.filePos]? with
    | none => none
    | some (p, S) =>
      if admissible σ.filePos (fileEntry bs maxSize σ.tree σ.filePos p S) ws then
        some { σ with filePos := σ.filePos + 1, chan := σ.chan ++ ws }
      else none
  else none

/-- `close(fileIndices)`; `<-workerErrs`; `close(vctx.Wounds)`. -/
def stepVDone (s : Signed) (σ : State) : Option State :=
  if s.dirs.length ≤ σ.dirPos ∧ s.symlinks.length ≤ σ.symPos ∧ s.files.length ≤ σ.filePos ∧ σ.closed = false then
    some { σ with closed := true }
  else none

/-- `for wound := range wounds { processWound(wound) }`, one iteration, on the CURRENT tree.  A directory wound may
    change the queue as well as the tree (`healBelow`, archive_healer.go:99-126, called at 161-169). -/
def stepHWound (s : Signed) (σ : State) : Option State :=
  match σ.chan with
  | [] => none
  | w :: rest =>
    match w.kind with
    | .dir =>                        -- case WoundKind_DIR: Lstat, Remove, MkdirAll, and (if something was removed)
                                     -- healBelow: synthetic DIR / SYMLINK / FILE wounds for everything below
      match s.dirs[w.index]? with
      | some p =>
        match healDir s (healDepth s) σ.tree σ.queue p with
        | .ok (t', q') => some { σ with chan := rest, tree := t', queue := q' }
        | .error _ => some { σ with status := .healerError }
      | none => some { σ with status := .healerError }
    | .symlink =>                    -- case WoundKind_SYMLINK: MkdirAll(dir), Lstat, Remove(All), Symlink
      match s.symlinks[w.index]? with
      | some (p, d) =>
        match healSymlink σ.tree p d with
        | .ok t' => some { σ with chan := rest, tree := t' }
        | .error _ => some { σ with status := .healerError }
      | none => some { σ with status := .healerError }
    | .file =>                       -- case WoundKind_FILE: `if files[wound.Index] { return nil }` … `fileIndices <- wound.Index`
      some { σ with chan := rest, queue := enqueue σ.queue w.index }
    | .closedFile =>                 -- case WoundKind_CLOSED_FILE: progress accounting only
      some { σ with chan := rest }

/-- `heal`: `fileIndex := <-fileIndices`; `healOne(fileIndex)` — whole-file rewrite on the CURRENT tree. -/
def stepHFile (s : Signed) (σ : State) : Option State :=
  match σ.queue[σ.healed]? with
  | none => none
  | some i =>
    match s.files[i]? with
    | some (p, S) =>
      match healFile σ.tree p S with
      | .ok t' => some { σ with healed := σ.healed + 1, tree := t' }
      | .error _ => some { σ with status := .healerError }
    | none => some { σ with status := .healerError }

def step (bs maxSize : Nat) (s : Signed) (σ : State) (l : Label) : Option State :=
  if σ.status ≠ .running then none else
  match l with
  | .vDir => stepVDir s σ
  | .vDirLate => stepVDirLate s σ
  | .vSymlink => stepVSymlink s σ
  | .vSymlinkLate => stepVSymlinkLate s σ
  | .vFile ws => stepVFile bs maxSize s σ ws
  | .vDone => stepVDone s σ
  | .hWound => stepHWound s σ
  | .hFile => stepHFile s σ

def init (t : Tree) : State := { tree := t }

/-- V has closed the channel, H has drained it, G has rewritten every queued file: `Validate` returns. -/
def State.terminal (σ : State) : Prop := σ.closed = true ∧ σ.chan = [] ∧ σ.queue.length ≤ σ.healed

instance (σ : State) : Decidable σ.terminal := by unfold State.terminal; exact inferInstance

inductive Reach (bs maxSize : Nat) (s : Signed) (σ₀ : State) : State → Prop where
  | refl : Reach bs maxSize s σ₀ σ₀
  | step {σ σ' : State} {l : Label} : Reach bs maxSize s σ₀ σ → step bs maxSize s σ l = some σ' →
      Reach bs maxSize s σ₀ σ'

/-- executing an explicit schedule -/
def run (bs maxSize : Nat) (s : Signed) : State → List Label → Option State
  | σ, [] => some σ
  | σ, l :: ls =>
    match step bs maxSize s σ l with
    | some σ' => run bs maxSize s σ' ls
    | none => none

/-- Termination measure (lexicographic): what V still has to do, then what H and G still have to do.  Receiving
    one wound may queue up to `s.files.length` files (`healBelow`), or one file whose index is arbitrary in an
    arbitrary state — hence the weight `s.files.length + 2` of a wound in the channel. -/
def measure (s : Signed) (σ : State) : Nat × Nat :=
  ((s.dirs.length - σ.dirPos) + (s.symlinks.length - σ.symPos) + (s.files.length - σ.filePos) +
     (if σ.closed then 0 else 1) + (if σ.status = .running then 1 else 0),
   (s.files.length + 2) * σ.chan.length + (σ.queue.length - σ.healed))

end Wharf.HealTS
