/-
  Transition-system models of the two places where `pwr` diffing is concurrent (property C15).

  (A) `MultiTS` — the per-file fan-out of `DiffContext.WritePatch` (pwr/diff.go:154-177):
      one upstream reader is copied by `multiread.Do` (multiread/multiread.go:43-71, through
      `ctxcopy.DoBuffer`, ctxcopy/ctxcopy.go:16-54, into an `io.MultiWriter` over two `io.PipeWriter`s);
      the differ (`ComputeDiff`) reads pipe 0, the signer (`CreateSignature`) reads pipe 1;
      `taskgroup.Do` (taskgroup/taskgroup.go:18-44) joins the three tasks; only then the per-file end marker
      `SyncOp_HEY_YOU_DID_IT` is written (pwr/diff.go:174).

  (B) `ScanTS` — the block scanner of `bsdiff.DiffContext.Do` (bsdiff/diff.go:339-408): a dispatcher
      goroutine, `numWorkers` worker goroutines and a collector goroutine connected by per-worker channels
      `work` (cap 1), `matches` (cap 256) and the hand-back token channel `consumed` (cap 1).

  Every transition carries a comment naming the Go statement(s) it stands for.  A transition is one atomic
  step of one goroutine; an interleaving is a sequence of labels.  All scheduling freedom (which goroutine
  moves next), all slicing freedom (how many bytes a `Read` returns, how large the consumer's buffer is) and
  the number of workers are nondeterministic choices of the label / parameters.

  OUT OF SCOPE (both systems): runs in which some `Read`/`Write`/`writeMessage` returns a non-EOF error and
  runs in which the context is cancelled (`ctx.Done()` arms, `CloseWithError`, early returns of
  `taskgroup.Do`).  The theorems are about error-free, uncancelled runs.

  Core Lean only (no Mathlib).
-/
import Wharf.Model.Basic

namespace Wharf.Fanout
open Wharf

/-! ## (A) the multiread fan-out -/

/-- program counter of the third task, `mr.Do(ctx)` = `ctxcopy.DoBuffer(ctx, io.MultiWriter(w0, w1), upstream)` -/
inductive RPc where
  | read      -- ctxcopy.go:25-26  loop test `!eof` passed, about to call `src.Read(buf)`
  | write0    -- ctxcopy.go:35 → io.MultiWriter.Write, iteration 0: inside `w0.Write(buf[:n])`
  | write1    -- io.MultiWriter.Write, iteration 1: inside `w1.Write(buf[:n])`
  | close0    -- multiread.go:50-54 (deferred closeOnce): about to `w0.Close()`
  | close1    -- about to `w1.Close()`
  | done      -- `mr.Do` returned nil and the task's goroutine executed `done <- nil` (taskgroup.go:29)
  deriving DecidableEq, Repr

/-- State of the fan-out for one file.

    `pipeI = some b` means: the copier is blocked inside `wI.Write` and `b` is the part of the chunk the
    reader side has not yet taken (`io.Pipe` is unbuffered: `pipe.write` hands `b` over `wrCh`, waits for the
    byte count on `rdCh`, and loops while `len(b) > 0` — but at least once, so a zero-length `Write` also
    waits for one `Read`).  `pipeI = none`: no `Write` in progress on pipe `I`. -/
structure MSt where
  up : List Byte                      -- bytes the upstream reader has not returned yet
  eof : Bool := false                 -- ctxcopy's local `eof`
  hand : List Byte := []              -- `buf[:n]`, the chunk in hand
  pc : RPc := .read
  pipe0 : Option (List Byte) := none
  pipe1 : Option (List Byte) := none
  closed0 : Bool := false             -- `w0.Close()` done: reads on pipe 0 return io.EOF
  closed1 : Bool := false
  reads0 : List (List Byte) := []     -- what each `Read` of the differ returned, oldest first
  reads1 : List (List Byte) := []     -- what each `Read` of the signer returned, oldest first
  fin0 : Bool := false                -- `ComputeDiff` returned nil and `done <- nil` executed
  fin1 : Bool := false                -- `CreateSignature` returned nil and `done <- nil` executed
  doneQ : Nat := 0                    -- values buffered in taskgroup's `done` channel (cap 3)
  recvd : Nat := 0                    -- taskgroup.Do's receive-loop counter `i` (taskgroup.go:33)
  marker : Bool := false              -- pwr/diff.go:174 `patchWire.WriteMessage(syncDelimiter)` executed
  deriving DecidableEq, Repr

namespace MSt
/-- bytes consumer 0 (the differ) has consumed so far -/
def consumed0 (s : MSt) : List Byte := s.reads0.flatten
/-- bytes consumer 1 (the signer) has consumed so far -/
def consumed1 (s : MSt) : List Byte := s.reads1.flatten
/-- bytes currently offered to consumer `I` by a blocked `Write` -/
def pending0 (s : MSt) : List Byte := s.pipe0.getD []
def pending1 (s : MSt) : List Byte := s.pipe1.getD []
/-- bytes not yet offered to consumer 0: what upstream still holds -/
def unoffered0 (s : MSt) : List Byte := s.up
/-- bytes not yet offered to consumer 1: the chunk in hand while it is still being written to pipe 0,
    then what upstream still holds -/
def unoffered1 (s : MSt) : List Byte := (if s.pc = .write0 then s.hand else []) ++ s.up
/-- the copier task has finished -/
def finR (s : MSt) : Bool := s.pc = .done
/-- `taskgroup.Do` has received all three results: its loop is over and it returns nil -/
def allDone (s : MSt) : Bool := s.recvd = 3
end MSt

inductive MLbl where
  | rRead (k : Nat) (atEof : Bool)  -- upstream `Read` returns `k ≥ 1` bytes; with `io.EOF` iff `atEof`
  | rEof                            -- upstream `Read` returns `(0, io.EOF)`
  | wNext                           -- `w0.Write` returned; MultiWriter goes on to `w1.Write`
  | wLoop                           -- `w1.Write` returned; MultiWriter.Write returns; ctxcopy loop test
  | rClose0
  | rClose1
  | cRead0 (m : Nat)                -- the differ calls `Read` with a buffer of `m ≥ 1` bytes
  | cRead1 (m : Nat)                -- the signer calls `Read` with a buffer of `m ≥ 1` bytes
  | cEof0                           -- the differ's `Read` returns io.EOF; it finishes
  | cEof1                           -- the signer's `Read` returns io.EOF; it finishes
  | tgRecv                          -- taskgroup.Do receives one `nil` from `done`
  | tgMarker                        -- taskgroup.Do returned nil; the end marker is written
  deriving DecidableEq, Repr

/-- what remains of a blocked pipe `Write` of `b` after the reader copied `min m |b|` bytes: `none` (the
    `Write` returns) once nothing is left — io/pipe.go `write`: `b = b[nw:]`, loop while `len(b) > 0` -/
def afterRead (b : List Byte) (m : Nat) : Option (List Byte) :=
  if (b.drop m).isEmpty then none else some (b.drop m)

def mstep (s : MSt) : MLbl → Option MSt
  /- ctxcopy.go:26-33 `n, err := src.Read(buf)` with `n = k`, `err ∈ {nil, io.EOF}`; `eof = true` on EOF;
     ctxcopy.go:35 `dst.Write(buf[:n])` → io.MultiWriter.Write → `w0.Write(p)` starts and blocks.
     ANY `1 ≤ k ≤ |up|` is allowed (the source pool may slice its reads arbitrarily; Go additionally
     bounds `k` by `len(buf) = 16384`).  EOF may accompany data only when these are the last bytes.
     A reader returning `(0, nil)` is not modelled (discouraged by the io.Reader contract). -/
  | .rRead k atEof =>
    if s.pc = .read ∧ 1 ≤ k ∧ k ≤ s.up.length ∧ (atEof = false ∨ k = s.up.length) then
      some { s with hand := s.up.take k, up := s.up.drop k, eof := atEof,
                    pipe0 := some (s.up.take k), pc := .write0 }
    else none
  /- ctxcopy.go:26-30 `src.Read` returns `(0, io.EOF)`: `eof = true`; ctxcopy.go:35 STILL calls
     `dst.Write(buf[:0])`: a zero-length `Write` on pipe 0 starts (and blocks until the differ reads once) -/
  | .rEof =>
    if s.pc = .read ∧ s.up = [] then
      some { s with hand := [], eof := true, pipe0 := some [], pc := .write0 }
    else none
  /- io.MultiWriter.Write (io/multi.go:84-93) `for _, w := range t.writers { n, err = w.Write(p) … }`:
     `w0.Write` has returned (`pipe0 = none`), the loop calls `w1.Write(p)` with the SAME slice `p`;
     sequential, each blocking — there is no concurrent write to the two pipes -/
  | .wNext =>
    if s.pc = .write0 ∧ s.pipe0 = none then
      some { s with pipe1 := some s.hand, pc := .write1 }
    else none
  /- `w1.Write` has returned, MultiWriter.Write returns `len(p), nil`; ctxcopy.go:36-50 bookkeeping
     (`copied`, `counter`, the non-firing `ctx.Done()` poll); ctxcopy.go:25 loop test `for !eof`:
     back to `src.Read`, or leave the loop, `return copied, nil` (ctxcopy.go:53), multiread.go:62-63
     `err == nil`, and the deferred closeOnce starts -/
  | .wLoop =>
    if s.pc = .write1 ∧ s.pipe1 = none then
      some { s with pc := if s.eof then .close0 else .read }
    else none
  /- multiread.go:50-54 `for _, w := range m.writers { w.Close() }`, iteration 0 -/
  | .rClose0 =>
    if s.pc = .close0 then some { s with closed0 := true, pc := .close1 } else none
  /- multiread.go:50-54 iteration 1; multiread.go:70 `return err` (nil); taskgroup.go:24-29 the task's
     goroutine sees `err == nil` and executes `done <- nil` (blocks only if the buffer of 3 is full) -/
  | .rClose1 =>
    if s.pc = .close1 ∧ s.doneQ < 3 then
      some { s with closed1 := true, pc := .done, doneQ := s.doneQ + 1 }
    else none
  /- io/pipe.go `read`: `bw := <-p.wrCh; nr := copy(b, bw); p.rdCh <- nr; return nr, nil` with
     `len(b) = m`; the differ gets `min m |bw|` bytes (0 bytes for the zero-length `Write`); on the writer
     side `b = b[nw:]` and `Write` returns when nothing is left.  Not enabled once the pipe is closed
     (`read` then returns io.EOF first) or once the consumer has returned. -/
  | .cRead0 m =>
    match s.pipe0 with
    | some b =>
      if 1 ≤ m ∧ s.closed0 = false ∧ s.fin0 = false then
        some { s with reads0 := s.reads0 ++ [b.take m], pipe0 := afterRead b m }
      else none
    | none => none
  | .cRead1 m =>
    match s.pipe1 with
    | some b =>
      if 1 ≤ m ∧ s.closed1 = false ∧ s.fin1 = false then
        some { s with reads1 := s.reads1 ++ [b.take m], pipe1 := afterRead b m }
      else none
    | none => none
  /- io/pipe.go `read`: `case <-p.done: return 0, p.readCloseError()` = io.EOF after `w0.Close()`.
     wsync/algo.go:245-254 `ComputeDiff` takes EOF as "last run", emits its final ops (a function of the
     bytes read so far) and returns nil; taskgroup.go:24-29 `done <- nil`. -/
  | .cEof0 =>
    if s.closed0 = true ∧ s.fin0 = false ∧ s.doneQ < 3 then
      some { s with fin0 := true, doneQ := s.doneQ + 1 }
    else none
  /- same for the signer: wsync/hashes.go:17,46-77 `bufio.Scanner` sees io.EOF, `Scan` returns false after
     the final (short) block, `CreateSignature` returns nil; taskgroup.go:24-29 `done <- nil`. -/
  | .cEof1 =>
    if s.closed1 = true ∧ s.fin1 = false ∧ s.doneQ < 3 then
      some { s with fin1 := true, doneQ := s.doneQ + 1 }
    else none
  /- taskgroup.go:33-38 `for i := 0; i < n; i++ { select { case err := <-done: (nil) … } }`, n = 3 -/
  | .tgRecv =>
    if 0 < s.doneQ ∧ s.recvd < 3 then
      some { s with doneQ := s.doneQ - 1, recvd := s.recvd + 1 }
    else none
  /- taskgroup.go:33,43 loop test fails (`i = 3`), `return nil`; pwr/diff.go:170-174 `err == nil`,
     `patchWire.WriteMessage(syncDelimiter)` -/
  | .tgMarker =>
    if s.recvd = 3 ∧ s.marker = false then some { s with marker := true } else none

/-- pwr/diff.go:154-156: `multiread.New(upstream)`, two `mr.Reader()` calls (two fresh `io.Pipe()`s),
    taskgroup.go:21 `done := make(chan error, 3)`; `content` is what upstream will deliver. -/
def minit (content : List Byte) : MSt := { up := content }

inductive MReach (content : List Byte) : MSt → Prop where
  | init : MReach content (minit content)
  | step {s s' : MSt} {l : MLbl} : MReach content s → mstep s l = some s' → MReach content s'

/-- execute a schedule; `none` if some label is not enabled -/
def mrun (s : MSt) : List MLbl → Option MSt
  | [] => some s
  | l :: ls => (mstep s l).bind (fun s' => mrun s' ls)

/-! ## (B) the bsdiff block scanner

  Parameters: `W = numWorkers ≥ 1` (bsdiff/diff.go:334-337), `n = numBlocks` (diff.go:322-331),
  `cap` = capacity of each worker's `matches` channel (256, diff.go:344) and `f j`, the list of `Match`
  values `analyzeBlock` sends for block `j` before its end-of-chunk marker.

  `f` is an arbitrary but FIXED function: `analyzeBlock` (diff.go:222-319) only reads `obuf`, `nbuf`,
  the suffix array `psa` (all immutable once the scan starts) and its arguments, which are functions of
  `blockIndex`, `blockSize`, `numBlocks`, `nbuflen` (diff.go:353-359); its locals are per call.  So the
  sequence of values it sends is a pure function of (old, new, settings, j).

  Abstractions:
  * the output channel `matches` (cap 256, diff.go:185) and its consumer `writeMessages` (diff.go:410,
    main goroutine, receives until the channel is closed) are folded into the list `fwd` of everything
    sent so far and the flag `closed`: in error-free runs `writeMessages` always eventually receives, so a
    send on `matches` is never blocked forever;
  * `consumer.Progress` calls and the `MeasureMem` output are ignored;
  * analysing a block and sending its first value is split into `wPick` (receive the index; from then on
    the values to send are determined) and one `wSend` per value. -/

/-- an element travelling on a worker's `matches` channel -/
inductive Item (M : Type) where
  | m (x : M)   -- bsdiff/diff.go:310  `blockMatches <- m`
  | eoc         -- bsdiff/diff.go:318  `blockMatches <- Match{eoc: true}`
  deriving DecidableEq, Repr

/-- everything `analyzeBlock` sends for a block whose matches are `r` -/
def items {M : Type} (r : List M) : List (Item M) := r.map Item.m ++ [Item.eoc]

/-- one `blockWorkerState` (diff.go:28-32) together with its goroutine -/
structure Worker (M : Type) where
  token : Bool := true           -- `consumed` (cap 1) holds the hand-back token (diff.go:345-346: initially yes)
  work : Option Nat := none      -- the one-slot buffer of `work` (diff.go:343)
  workClosed : Bool := false     -- `close(work)` executed (diff.go:376)
  rest : List (Item M) := []     -- inside analyzeBlock: values still to send; `[]`: in `range workerState.work`
  out : List (Item M) := []      -- buffer of `matches` (cap 256, diff.go:344), oldest first
  exited : Bool := false         -- the goroutine has returned (its `range` loop ended)

/-- dispatcher goroutine (diff.go:365-379) -/
inductive DPc where
  | take                -- diff.go:368-369  at the loop test / blocked in `<-…consumed`
  | send                -- diff.go:370      holds the token, about to `…work <- i`
  | closing (k : Nat)   -- diff.go:375-377  close loop, about to close worker `k`'s `work`
  | done
  deriving DecidableEq, Repr

/-- collector goroutine (diff.go:389-408) -/
inductive CPc where
  | recv                -- diff.go:391,395  at the loop test / inside `for match := range state.matches`
  | handback            -- diff.go:403      saw `eoc`, about to `state.consumed <- true`
  | done                -- diff.go:407      `close(matches)` executed
  deriving DecidableEq, Repr

structure SSt (M : Type) where
  ws : Nat → Worker M := fun _ => {}   -- `blockWorkersState`; only indices `< W` are ever touched
  di : Nat := 0                        -- dispatcher's `i` (next block to hand out)
  dw : Nat := 0                        -- dispatcher's `workerIndex`
  dpc : DPc := .take
  ci : Nat := 0                        -- collector's `blockIndex`
  cw : Nat := 0                        -- collector's `workerIndex`
  cpc : CPc := .recv
  fwd : List M := []                   -- everything sent on `matches` so far, in order
  closed : Bool := false               -- `close(matches)` executed: `writeMessages` will see the end

def upd {M : Type} (ws : Nat → Worker M) (w : Nat) (v : Worker M) : Nat → Worker M :=
  fun k => if k = w then v else ws k

inductive SLbl where
  | dTake | dSend | dLoopEnd | dClose
  | wPick (w : Nat) | wSend (w : Nat) | wExit (w : Nat)
  | cRecv | cHand | cClose
  deriving DecidableEq, Repr

def sstep {M : Type} (W n cap : Nat) (f : Nat → List M) (s : SSt M) : SLbl → Option (SSt M)
  /- diff.go:368 `i < numBlocks`; diff.go:369 `<-blockWorkersState[workerIndex].consumed`:
     receive the token of the round-robin worker (blocks while the token is out) -/
  | .dTake =>
    if s.dpc = .take ∧ s.di < n ∧ (s.ws s.dw).token = true then
      some { s with ws := upd s.ws s.dw { s.ws s.dw with token := false }, dpc := .send }
    else none
  /- diff.go:370 `blockWorkersState[workerIndex].work <- i` (blocks while the one-slot buffer is full);
     diff.go:372 `workerIndex = (workerIndex + 1) % numWorkers`; diff.go:368 `i++` -/
  | .dSend =>
    if s.dpc = .send ∧ (s.ws s.dw).work = none then
      some { s with ws := upd s.ws s.dw { s.ws s.dw with work := some s.di },
                    di := s.di + 1, dw := (s.dw + 1) % W, dpc := .take }
    else none
  /- diff.go:368 loop test `i < numBlocks` fails; diff.go:375 `workerIndex := 0` -/
  | .dLoopEnd =>
    if s.dpc = .take ∧ ¬ s.di < n then some { s with dpc := .closing 0 } else none
  /- diff.go:375-377 `for workerIndex := 0; workerIndex < numWorkers; workerIndex++ { close(….work) }`:
     one iteration, or the failing loop test (the dispatcher goroutine returns) -/
  | .dClose =>
    match s.dpc with
    | .closing k =>
      if k < W then
        some { s with ws := upd s.ws k { s.ws k with workClosed := true }, dpc := .closing (k + 1) }
      else some { s with dpc := .done }
    | _ => none
  /- diff.go:352 `for blockIndex := range workerState.work` receives `j`; diff.go:353-359 boundary
     computation and the call of `analyzeBlock`: from here on the values it will send are `items (f j)` -/
  | .wPick w =>
    match (s.ws w).work with
    | some j =>
      if w < W ∧ (s.ws w).exited = false ∧ (s.ws w).rest.isEmpty = true then
        some { s with ws := upd s.ws w { s.ws w with work := none, rest := items (f j) } }
      else none
    | none => none
  /- diff.go:310 `blockMatches <- m` / diff.go:318 `blockMatches <- Match{eoc: true}`: the next value goes
     into the worker's own `matches` buffer; blocks while the buffer is full.  After the last value
     (`eoc`) `analyzeBlock` returns and the worker is back at its `range` (rest = []). -/
  | .wSend w =>
    match (s.ws w).rest with
    | x :: r =>
      if w < W ∧ (s.ws w).out.length < cap then
        some { s with ws := upd s.ws w { s.ws w with rest := r, out := (s.ws w).out ++ [x] } }
      else none
    | [] => none
  /- diff.go:352 the `range` over `work` ends (closed and empty); the worker goroutine returns -/
  | .wExit w =>
    if w < W ∧ (s.ws w).exited = false ∧ (s.ws w).rest.isEmpty = true ∧ (s.ws w).work = none
        ∧ (s.ws w).workClosed = true then
      some { s with ws := upd s.ws w { s.ws w with exited := true } }
    else none
  /- diff.go:391 `blockIndex < numBlocks`; diff.go:393 `state := blockWorkersState[workerIndex]`;
     diff.go:395 `for match := range state.matches` receives the oldest buffered value of THAT worker;
     diff.go:396-398 `if match.eoc { break }`; diff.go:400 `matches <- match` -/
  | .cRecv =>
    if s.cpc = .recv ∧ s.ci < n then
      match (s.ws s.cw).out with
      | .m y :: o => some { s with ws := upd s.ws s.cw { s.ws s.cw with out := o }, fwd := s.fwd ++ [y] }
      | .eoc :: o => some { s with ws := upd s.ws s.cw { s.ws s.cw with out := o }, cpc := .handback }
      | [] => none
    else none
  /- diff.go:403 `state.consumed <- true` (blocks while the one-slot buffer is full);
     diff.go:404 `workerIndex = (workerIndex + 1) % numWorkers`; diff.go:391 `blockIndex++` -/
  | .cHand =>
    if s.cpc = .handback ∧ (s.ws s.cw).token = false then
      some { s with ws := upd s.ws s.cw { s.ws s.cw with token := true },
                    ci := s.ci + 1, cw := (s.cw + 1) % W, cpc := .recv }
    else none
  /- diff.go:391 loop test fails; diff.go:407 `close(matches)` -/
  | .cClose =>
    if s.cpc = .recv ∧ ¬ s.ci < n then some { s with closed := true, cpc := .done } else none

/-- diff.go:339-347: all channels made, every `consumed` holds its token; the three kinds of goroutines
    are about to start (diff.go:350-362, 365, 389) -/
def sinit (M : Type) : SSt M := {}

inductive SReach {M : Type} (W n cap : Nat) (f : Nat → List M) : SSt M → Prop where
  | init : SReach W n cap f (sinit M)
  | step {s s' : SSt M} {l : SLbl} : SReach W n cap f s → sstep W n cap f s l = some s' → SReach W n cap f s'

def srun {M : Type} (W n cap : Nat) (f : Nat → List M) (s : SSt M) : List SLbl → Option (SSt M)
  | [] => some s
  | l :: ls => (sstep W n cap f s l).bind (fun s' => srun W n cap f s' ls)

/-- what the sequential scan of blocks `0 … k-1` produces -/
def seqOut {M : Type} (f : Nat → List M) (k : Nat) : List M := (List.range k).flatMap f

/-- every goroutine of the scanner has returned -/
def SSt.quiescent {M : Type} (W : Nat) (s : SSt M) : Prop :=
  s.dpc = .done ∧ s.cpc = .done ∧ ∀ w, w < W → (s.ws w).exited = true

end Wharf.Fanout
