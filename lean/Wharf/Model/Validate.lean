/-
  Model of block validation: drip writer (pwr/drip), the validating pool's per-block verdicts
  (pwr/validatingpool.go, pwr/blockvalidator.go), wound aggregation (pwr/wounds.go:AggregateWounds)
  and the validator's per-file pass (pwr/validator.go:doOne).

  Strong+weak hash comparison against the signature is modelled as comparison with the signed
  block itself (MD5 injective).  `S` is always the *signed* content of the file, `D` the bytes
  actually written/streamed.
-/
import Wharf.Model.Basic
import Wharf.Model.Rsync

namespace Wharf.Validate
open Wharf

inductive WKind where
  | file | symlink | dir | closedFile
  deriving Repr, BEq, DecidableEq

/-- `pwr.Wound` (`stop` is the Go field `End`). -/
structure Wound where
  kind : WKind
  index : Nat
  start : Nat
  stop : Nat
  deriving Repr, BEq, DecidableEq

def Wound.healthy (w : Wound) : Bool := w.kind == .closedFile

/-- Block `k` of the signed content (what hash `k` of the file's hash group was computed from). -/
def signedBlock (bs : Nat) (S : List Byte) (k : Nat) : List Byte := (S.drop (k * bs)).take bs

/-- `len(hashGroup)`: empty files have no hash group. -/
def numHashes (bs : Nat) (S : List Byte) : Nat :=
  if S.length = 0 then 0 else Rsync.numBlocks bs S.length

/-- Verdict of `ValidateAsError` / `ValidateAsWound` for drip number `k` carrying `data`. -/
def blockOk (bs : Nat) (S : List Byte) (k : Nat) (data : List Byte) : Bool :=
  decide (k < numHashes bs S) && data == signedBlock bs S k

/-- Marker emitted by `ValidateAsWound` for drip `k`: range from `ComputeBlockSize` of the signed size. -/
def marker (bs : Nat) (S : List Byte) (fi k : Nat) (ok : Bool) : Wound :=
  { kind := if ok then .closedFile else .file, index := fi,
    start := k * bs, stop := k * bs + Rsync.blockLen bs S.length k }

/-- State of one file writer of a validating pool (drip writer + validate closure). -/
structure Drip where
  rbuf : List Byte := []      -- buffered bytes, most recent first (`Buffer[:offset]` reversed)
  n : Nat := 0                -- `offset`
  blockIndex : Nat := 0
  inner : List Byte := []     -- bytes forwarded to the underlying writer, in order
  wounds : List Wound := []   -- wound mode: markers sent, in order
  err : Bool := false         -- a validation failed (sticky)
  deriving Repr

/-- Validate and forward the buffered block. `wound = true` is wound mode. -/
def dripFlush (wound : Bool) (bs : Nat) (S : List Byte) (fi : Nat) (d : Drip) : Drip :=
  let data := d.rbuf.reverse
  let ok := blockOk bs S d.blockIndex data
  if wound then
    { d with rbuf := [], n := 0, blockIndex := d.blockIndex + 1, inner := d.inner ++ data,
             wounds := d.wounds ++ [marker bs S fi d.blockIndex ok] }
  else if ok then
    { d with rbuf := [], n := 0, blockIndex := d.blockIndex + 1, inner := d.inner ++ data }
  else
    { d with blockIndex := d.blockIndex + 1, err := true }

/-- One byte arrives (`Write` copies in chunks; byte-wise is the same sequence of flushes). -/
def dripPush (wound : Bool) (bs : Nat) (S : List Byte) (fi : Nat) (d : Drip) (b : Byte) : Drip :=
  if d.err then d else
  let d := { d with rbuf := b :: d.rbuf, n := d.n + 1 }
  if d.n = bs then dripFlush wound bs S fi d else d

/-- `drip.Writer.Write(data)`; the call fails iff `err` is set afterwards. -/
def dripWrite (wound : Bool) (bs : Nat) (S : List Byte) (fi : Nat) (d : Drip) (data : List Byte) : Drip :=
  data.foldl (dripPush wound bs S fi) d

/-- `drip.Writer.Close()`: validate and forward the remainder. -/
def dripClose (wound : Bool) (bs : Nat) (S : List Byte) (fi : Nat) (d : Drip) : Drip :=
  if d.err then d else if d.n > 0 then dripFlush wound bs S fi d else d

/-- A whole session: writes in the given slices, then close. -/
def dripSession (wound : Bool) (bs : Nat) (S : List Byte) (fi : Nat) (slices : List (List Byte)) : Drip :=
  dripClose wound bs S fi (slices.foldl (dripWrite wound bs S fi) {})

/-! ### specification side: blocks of the written data -/

/-- Split into blocks of `bs` (last one short); no block for empty data. `fuel ≥ D.length` suffices. -/
def chunks (bs : Nat) : Nat → List Byte → List (List Byte)
  | 0, _ => []
  | fuel + 1, D => if D.isEmpty then [] else D.take bs :: chunks bs fuel (D.drop bs)

/-- Longest prefix of blocks that all validate, starting at block index `k`; returns (bytes, allOk). -/
def goodPrefix (bs : Nat) (S : List Byte) : Nat → List (List Byte) → List Byte × Bool
  | _, [] => ([], true)
  | k, c :: cs =>
    if blockOk bs S k c then
      let (r, ok) := goodPrefix bs S (k + 1) cs
      (c ++ r, ok)
    else ([], false)

/-- Markers for blocks `k, k+1, …` of the written data. -/
def markers (bs : Nat) (S : List Byte) (fi : Nat) : Nat → List (List Byte) → List Wound
  | _, [] => []
  | k, c :: cs => marker bs S fi k (blockOk bs S k c) :: markers bs S fi (k + 1) cs

/-! ### wound aggregation -/

structure Agg where
  last : Option Wound := none
  out : List Wound := []

/-- One iteration of the aggregator goroutine's loop. -/
def aggStep (maxSize : Nat) (a : Agg) (w : Wound) : Agg :=
  if w.kind == .file then
    match a.last with
    | none => { a with last := some w }
    | some l =>
      if l.stop ≤ w.start ∧ w.start ≥ l.start then
        let l' := { l with stop := w.stop }
        if l'.stop - l'.start ≥ maxSize then { last := none, out := a.out ++ [l'] }
        else { a with last := some l' }
      else { last := some w, out := a.out ++ [l] }
  else
    match a.last with
    | some l => { last := none, out := a.out ++ [l, w] }
    | none => { a with out := a.out ++ [w] }

/-- `AggregateWounds` over a closed input stream. -/
def aggregate (maxSize : Nat) (ws : List Wound) : List Wound :=
  let a := ws.foldl (aggStep maxSize) {}
  match a.last with
  | some l => a.out ++ [l]
  | none => a.out

/-! ### the validator's per-file pass -/

/-- What `lstat`/open find at the file's path. -/
inductive OnDisk where
  | missing                    -- ENOENT or unreadable
  | dir
  | symlink
  | file (D : List Byte)

/-- Wounds sent for file `fi` (signed content `S`), healthy markers included, as a multiset in
    the order: aggregated block verdicts, then the size-mismatch wound.  (The real order of the
    size-mismatch wound relative to relayed wounds depends on goroutine scheduling; consumers do
    not depend on it and the correspondence compares sorted lists.) -/
def fileWounds (bs maxSize : Nat) (S : List Byte) (fi : Nat) : OnDisk → List Wound
  | .missing | .dir | .symlink => [⟨.file, fi, 0, S.length⟩]
  | .file D =>
    let d := dripSession true bs S fi [D]
    let agg := aggregate maxSize d.wounds
    if D.length ≠ S.length then
      agg ++ [⟨.file, fi, min D.length S.length, max D.length S.length⟩]
    else agg

/-- Non-healthy wounds only (what guardian / writer / printer / healer act on). -/
def realWounds (ws : List Wound) : List Wound := ws.filter (fun w => !w.healthy)

end Wharf.Validate

namespace Wharf.Validate

/-! ### signature reading and hash grouping (pwr/sign.go:ReadSignature, pwr/hashinfo.go) -/

/-- `ReadSignature`'s loop: how many hashes are taken for each file when `avail` hash messages follow the
    container (a missing hash ends that file's inner loop quietly; for an empty file it ends everything).
    Returns the number of hashes read in total. -/
def readSigCount (bs : Nat) : List Nat → Nat → Nat
  | [], _ => 0
  | size :: rest, avail =>
    let nb := Rsync.numBlocks bs size
    if nb = 0 then
      if avail = 0 then 0 else 1 + readSigCount bs rest (avail - 1)
    else
      let got := min nb avail
      got + readSigCount bs rest (avail - got)

/-- `ComputeHashInfo`: walks the flat hash list; a group that would reach past the hashes that were read is
    an error (as is a leftover), never an out-of-range slice. Returns the groups as (start, length). -/
def hashGroups (bs : Nat) : List Nat → Nat → Nat → Outcome (List (Option (Nat × Nat)))
  | [], hashIndex, n => if hashIndex ≠ n then .err "expected to have a different number of hashes" else .ok []
  | size :: rest, hashIndex, n =>
    if size = 0 then
      (hashGroups bs rest (hashIndex + 1) n).bind fun gs => .ok (none :: gs)
    else
      let nb := Rsync.numBlocks bs size
      if hashIndex + nb > n then .err "signature has too few hashes"
      else (hashGroups bs rest (hashIndex + nb) n).bind fun gs => .ok (some (hashIndex, nb) :: gs)

end Wharf.Validate
