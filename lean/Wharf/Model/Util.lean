/- Parsing helpers for the line protocol (core only). -/
import Wharf.Model.Basic
namespace Wharf.Util
open Wharf

def hexVal (c : Char) : Nat :=
  if '0' ≤ c ∧ c ≤ '9' then c.toNat - '0'.toNat
  else if 'a' ≤ c ∧ c ≤ 'f' then c.toNat - 'a'.toNat + 10
  else if 'A' ≤ c ∧ c ≤ 'F' then c.toNat - 'A'.toNat + 10
  else 0

def hexToBytes (s : String) : ByteArray := Id.run do
  let cs := s.toList.toArray
  let mut out := ByteArray.emptyWithCapacity (cs.size / 2)
  let mut i := 0
  while i + 1 < cs.size do
    out := out.push (UInt8.ofNat (hexVal cs[i]! * 16 + hexVal cs[i+1]!))
    i := i + 2
  return out

/-- content token: `x:<hex>` inline or `f:<path>` file. -/
def readContent (tok : String) : IO ByteArray := do
  if tok.startsWith "x:" then
    return hexToBytes (tok.drop 2).toString
  else if tok.startsWith "f:" then
    IO.FS.readBinFile (tok.drop 2).toString
  else
    throw (IO.userError s!"bad content token {tok}")

def parseInt (s : String) : Int :=
  match s.toInt? with
  | some i => i
  | none => 0

def parseNat (s : String) : Nat :=
  match s.toNat? with
  | some i => i
  | none => 0

end Wharf.Util
