/-
  Model of the signature-checking pool (pwr/safekeeper.go) as an instance of the patcher's `Pool`.

  Every `Read` first validates the block containing the current offset against the *signed* content:
  the block on disk must be exactly the signed block (same bytes, same length), and past the signed
  block count nothing may be there at all.  Consumers read in 32 KiB slices starting at block-aligned
  offsets, so a request for `[off, off+len)` validates every block it touches, plus — when the request
  reaches PAST the end of the file on disk — the block at the end-of-file position (the EOF probe: the reader
  comes back for more).  A request that ends exactly at the end of the disk file is served without a further
  read (`io.LimitReader` / `io.ReadFull` stop once they have their bytes), so nothing is probed then.
-/
import Wharf.Model.Patch
import Wharf.Model.Rsync

namespace Wharf.SafeKeeper
open Wharf Wharf.Patch

/-- verdict for block `k` of a file: `signed` is the signed content, `disk` what is really there. -/
def blockValid (bs : Nat) (signed disk : List Byte) (k : Nat) : Bool :=
  let got := (disk.drop (k * bs)).take bs
  if k ≥ Rsync.numBlocks bs signed.length then got.isEmpty
  else got == (signed.drop (k * bs)).take bs

/-- are blocks `a, a+1, …, a+n-1` all valid? -/
def blocksValid (bs : Nat) (signed disk : List Byte) : Nat → Nat → Bool
  | _, 0 => true
  | a, n + 1 => blockValid bs signed disk a && blocksValid bs signed disk (a + 1) n

/-- a read request through the safekeeper -/
def skRead (bs : Nat) (signed disk : List Byte) (off len : Nat) : Outcome (List Byte) :=
  if len = 0 then .ok [] else
  let n := min len (disk.length - off)
  let touched : Bool :=
    if n = 0 then true
    else blocksValid bs signed disk (off / bs) ((off + n - 1) / bs - off / bs + 1)
  let probe : Bool :=
    if off + len > disk.length then blockValid bs signed disk ((max off disk.length) / bs) else true
  if touched && probe then .ok ((disk.drop off).take len) else .err "safekeeper: block does not match the signature"

/-- reading the whole file until EOF (`io.Copy`): every block that holds data is validated, and so is the
    block at the end-of-file position (the read that returns EOF). -/
def skReadAll (bs : Nat) (signed disk : List Byte) : Outcome (List Byte) :=
  if blocksValid bs signed disk 0 (disk.length / bs + 1) then .ok disk
  else .err "safekeeper: block does not match the signature"

/-- The old build read through the safekeeper: `signed` are the contents the signature was made from,
    `disk` the possibly damaged files (`none`: missing). -/
def skPool (bs : Nat) (signed : Array (List Byte)) (disk : Array (Option (List Byte))) : Pool :=
  { nfiles := signed.size
    csize := fun f => (signed.getD f []).length
    read := fun f off len =>
      match disk.getD f none with
      | none => .err "cannot open"
      | some d => skRead bs (signed.getD f []) d off len
    flen := fun f =>
      match disk.getD f none with
      | none => .err "cannot open"
      | some d => .ok d.length
    readAll := fun f =>
      match disk.getD f none with
      | none => .err "cannot open"
      | some d => skReadAll bs (signed.getD f []) d }

end Wharf.SafeKeeper
