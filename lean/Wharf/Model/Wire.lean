/-
  Model of the wire format (wire/write_context.go, wire/read_context.go): uvarint length prefix + body
  framing, end-of-stream, and the reader's checkpoint protocol over an abstract source.
-/
import Wharf.Model.Basic

namespace Wharf.Wire
open Wharf

/-- `binary.PutUvarint`. `fuel` bounds the number of bytes (10 suffice for 64-bit values). -/
def uvarintEnc : Nat → Nat → List Byte
  | 0, _ => []
  | fuel + 1, n => if n < 128 then [UInt8.ofNat n] else UInt8.ofNat (n % 128 + 128) :: uvarintEnc fuel (n / 128)

def uvarint (n : Nat) : List Byte := uvarintEnc 10 n

/-- `binary.ReadUvarint`: returns the value and the rest, `none` on truncation or overflow (> 10 bytes,
    or a 10th byte > 1). -/
def uvarintDec : Nat → Nat → Nat → List Byte → Option (Nat × List Byte)
  | 0, _, _, _ => none
  | _ + 1, _, _, [] => none
  | fuel + 1, i, acc, b :: rest =>
    if b.toNat < 128 then
      if i = 9 ∧ b.toNat > 1 then none else some (acc + b.toNat * 2 ^ (7 * i), rest)
    else uvarintDec fuel (i + 1) (acc + (b.toNat - 128) * 2 ^ (7 * i)) rest

def readUvarint (s : List Byte) : Option (Nat × List Byte) := uvarintDec 10 0 0 s

/-- `WriteMessage`: length prefix then body. -/
def frame (body : List Byte) : List Byte := uvarint body.length ++ body

def frames (bodies : List (List Byte)) : List Byte := (bodies.map frame).flatten

/-- Read frames until the stream ends cleanly (`io.EOF` at a frame boundary): `ok bodies`; a stream that
    ends inside a length prefix or inside a body is an error. -/
def parseFrames : Nat → List Byte → Outcome (List (List Byte))
  | 0, _ => .err "fuel"
  | fuel + 1, s =>
    if s = [] then .ok []
    else
      match readUvarint s with
      | none => .err "truncated or malformed length prefix"
      | some (len, rest) =>
        if rest.length < len then .err "unexpected EOF in message body"
        else
          match parseFrames fuel (rest.drop len) with
          | .ok bs => .ok (rest.take len :: bs)
          | .err e => .err e
          | .panic p => .panic p

/-- Reader offset after the first `p` frames. -/
def offsetAfter (bodies : List (List Byte)) (p : Nat) : Nat := (frames (bodies.take p)).length

/-! ### checkpoint protocol -/

inductive SaveState where
  | idle
  | waiting
  | has (srcOffset : Nat)      -- the source handed us a checkpoint taken at this source offset
  deriving Repr, BEq, DecidableEq

/-- The reader: bytes consumed so far (`offset`), save state, number of `WantSave` relayed to the source. -/
structure Reader where
  offset : Nat := 0
  st : SaveState := .idle
  asked : Nat := 0
  deriving Repr

/-- Events driving the reader between and during reads. -/
inductive Ev where
  | wantSave
  /-- a message of `n` encoded bytes is read; if `ck = some o` the source called back with a checkpoint at
      source offset `o` during that read (contract S2: only if a save was requested, and `o ≤` the offset
      after the read) -/
  | read (n : Nat) (ck : Option Nat)
  | pop
  deriving Repr

/-- A popped reader checkpoint: (reader offset, source offset). -/
abbrev Ckpt := Nat × Nat

def step (r : Reader) : Ev → Reader × Option Ckpt
  | .wantSave =>
    match r.st with
    | .idle => ({ r with st := .waiting, asked := r.asked + 1 }, none)
    | _ => (r, none)
  | .read n ck =>
    let off := r.offset + n
    match ck, r.st with
    | some o, .waiting => ({ r with offset := off, st := .has o }, none)
    | _, _ => ({ r with offset := off }, none)
  | .pop =>
    match r.st with
    | .has o => ({ r with st := .idle }, some (r.offset, o))
    | _ => (r, none)

def run (r : Reader) : List Ev → Reader × List Ckpt
  | [] => (r, [])
  | e :: es =>
    let (r', c) := step r e
    let (r'', cs) := run r' es
    (r'', c.toList ++ cs)

/-- `Resume(checkpoint)`: the source restarts at `o' ≤ o` (contract S3), the reader discards
    `offset - o'` bytes of what the source delivers and continues. Returns what the reader sees next. -/
def resumeView (stream : List Byte) (ck : Ckpt) (sourceRestart : Nat) : Outcome (List Byte) :=
  if sourceRestart > ck.1 then .err "source resumed after our offset"
  else .ok ((stream.drop sourceRestart).drop (ck.1 - sourceRestart))

end Wharf.Wire
