/-
  Tree-level model of validation (pwr/validator.go:Validate): the directory pass, the symlink pass and
  the per-file pass over an abstract filesystem, and the fail-fast verdict.
-/
import Wharf.Model.FS
import Wharf.Model.Validate

namespace Wharf.TreeValidate
open Wharf Wharf.FS Wharf.Validate

/-- The signed build (a `tlc.Container` plus the signed contents). -/
structure Signed where
  dirs : List Path := []
  symlinks : List (Path × String) := []
  files : List (Path × List Byte) := []

/-- errors the validator treats as "not there" (`IsNotExist`: ENOENT; ENOTDIR — a parent that is not a
    directory hides the entry just as well; and, since the repair of finding F23, ELOOP — a parent that is a
    symlink leading back to itself does too). -/
def notExist (e : Err) : Bool := e == .enoent || e == .enotdir || e == .eloop

def dirWounds (t : Tree) : Nat → List Path → Outcome (List Wound)
  | _, [] => .ok []
  | i, p :: rest =>
    match lstat t p with
    | .error e =>
      if notExist e then (dirWounds t (i + 1) rest).bind fun ws => .ok (⟨.dir, i, 0, 0⟩ :: ws)
      else .err "lstat failed"
    | .ok .dir => dirWounds t (i + 1) rest
    | .ok _ => (dirWounds t (i + 1) rest).bind fun ws => .ok (⟨.dir, i, 0, 0⟩ :: ws)

def symlinkWounds (t : Tree) : Nat → List (Path × String) → Outcome (List Wound)
  | _, [] => .ok []
  | i, (p, dest) :: rest =>
    let wound := (symlinkWounds t (i + 1) rest).bind fun ws => .ok (⟨.symlink, i, 0, 0⟩ :: ws)
    match lstat t p with
    | .ok .dir => wound
    | .ok (.file _) => wound
    | .ok (.symlink d) => if d = dest then symlinkWounds t (i + 1) rest else wound
    | .error e => if notExist e then wound else .err "readlink failed"

/-- what the per-file pass finds at a file's path -/
def onDisk (t : Tree) (p : Path) : OnDisk :=
  match lstat t p with
  | .ok .dir => .dir
  | .ok (.symlink _) => .symlink
  | .ok (.file d) => .file d
  | .error _ => .missing

def filePassWounds (bs maxSize : Nat) (t : Tree) : Nat → List (Path × List Byte) → List Wound
  | _, [] => []
  | i, (p, S) :: rest => fileWounds bs maxSize S i (onDisk t p) ++ filePassWounds bs maxSize t (i + 1) rest

/-- All wounds (healthy markers included) of a complete validation, or the error it stops with. -/
def validate (bs maxSize : Nat) (s : Signed) (t : Tree) : Outcome (List Wound) :=
  (dirWounds t 0 s.dirs).bind fun dw =>
  (symlinkWounds t 0 s.symlinks).bind fun sw =>
  .ok (dw ++ sw ++ filePassWounds bs maxSize t 0 s.files)

/-- Fail-fast verdict (uncancelled): an error iff validation stops with an error or any real wound exists. -/
def failFastOk (bs maxSize : Nat) (s : Signed) (t : Tree) : Bool :=
  match validate bs maxSize s t with
  | .ok ws => (realWounds ws).isEmpty
  | _ => false

/-- The tree that holds exactly the signed build. -/
def treeOf (s : Signed) : Tree :=
  { entries := s.dirs.map (fun p => (p, Node.dir)) ++ s.files.map (fun (p, d) => (p, Node.file d)) ++
               s.symlinks.map (fun (p, d) => (p, Node.symlink d)) }

end Wharf.TreeValidate
