/-
  Model of healing from an archive (pwr/archive_healer.go) over the abstract filesystem, in the schedule
  where validation completes first and the healer then consumes the wounds in order (the transition-system
  view of all interleavings is in Model/ValidateTS).
-/
import Wharf.Model.TreeValidate

namespace Wharf.Heal
open Wharf Wharf.FS Wharf.Validate Wharf.TreeValidate

/-- `processWound` for a directory wound. -/
def healDir (t : Tree) (p : Path) : Except Err Tree :=
  match lstat t p with
  | .ok .dir => .ok t
  | .ok _ => do
    let t ← remove t p
    mkdirs t p
  | .error _ => mkdirs t p

/-- `processWound` for a symlink wound. -/
def healSymlink (t : Tree) (p : Path) (dest : String) : Except Err Tree := do
  let t ← mkdirs t p.dropLast
  let t ← match lstat t p with
    | .ok .dir => removeAll t p
    | .ok _ => remove t p
    | .error _ => .ok t
  symlink t dest p

/-- `healOne`: whole-file rewrite through `fspool.GetWriter` (replaces a directory or symlink in the way). -/
def healFile (t : Tree) (p : Path) (data : List Byte) : Except Err Tree := do
  let t ← mkdirs t p.dropLast
  let t ← match lstat t p with
    | .ok .dir => removeAll t p
    | .ok (.symlink _) => remove t p
    | _ => .ok t
  writeFile t p data

/-- Process the wounds in order; file wounds queue the file once; queued files are rewritten afterwards (the
    healing goroutine drains the queue in order). -/
def processWounds (s : Signed) : List Wound → Tree → List Nat → Except Err (Tree × List Nat)
  | [], t, q => .ok (t, q)
  | w :: ws, t, q =>
    match w.kind with
    | .dir =>
      match s.dirs[w.index]? with
      | some p => do let t ← healDir t p; processWounds s ws t q
      | none => .error .einval
    | .symlink =>
      match s.symlinks[w.index]? with
      | some (p, d) => do let t ← healSymlink t p d; processWounds s ws t q
      | none => .error .einval
    | .file => processWounds s ws t (if q.contains w.index then q else q ++ [w.index])
    | .closedFile => processWounds s ws t q

def healFiles (s : Signed) : List Nat → Tree → Except Err Tree
  | [], t => .ok t
  | i :: is, t =>
    match s.files[i]? with
    | some (p, d) => do let t ← healFile t p d; healFiles s is t
    | none => .error .einval

/-- Validation followed by healing. `.err` when validation itself stops with an error. -/
def validateAndHeal (bs maxSize : Nat) (s : Signed) (t : Tree) : Outcome Tree :=
  match validate bs maxSize s t with
  | .err e => .err e
  | .panic p => .panic p
  | .ok ws =>
    match processWounds s ws t [] with
    | .error _ => .err "healer failed"
    | .ok (t1, q) =>
      match healFiles s q t1 with
      | .error _ => .err "healer failed"
      | .ok t2 => .ok t2

end Wharf.Heal
