/-
  Model of healing from an archive (pwr/archive_healer.go) over the abstract filesystem, in the schedule
  where validation completes first and the healer then consumes the wounds in order (the transition-system
  view of all interleavings is in Model/HealTS).

  As of the repair of finding F15 (`fix: healing a directory that something else had replaced also heals what
  lives below it`), `processWound` for a DIR wound that finds something that is not a directory standing at the
  directory's path removes it, recreates the directory and then calls `healBelow(dirEntry.Path)`, which
  processes a synthetic wound for every entry of the container below that path: first the directories, then
  the symlinks, then the files.  `processWound` became recursive for that purpose; so is `healDir` here.
-/
import Wharf.Model.TreeValidate

namespace Wharf.Heal
open Wharf Wharf.FS Wharf.Validate Wharf.TreeValidate

/-- `processWound`, case `WoundKind_FILE` (archive_healer.go:204-224): `if files[wound.Index] { return nil }` …
    `files[wound.Index] = true` … `fileIndices <- wound.Index` — append the index unless it is queued already.
    (The queue doubles as the `files` map of `Do`.) -/
def enqueue (q : List Nat) (i : Nat) : List Nat := if q.contains i then q else q ++ [i]

/-- `processWound` for a symlink wound. -/
def healSymlink (t : Tree) (p : Path) (dest : String) : Except Err Tree := do
  let t ← mkdirs t p.dropLast
  let t ← match lstat t p with
    | .ok .dir => removeAll t p
    | .ok _ => remove t p
    | .error _ => .ok t
  symlink t dest p

/-- `healOne`: whole-file rewrite through `fspool.GetWriter` (replaces a directory or symlink in the way). -/
def healFile (t : Tree) (p : Path) (data : List Byte) : Except Err Tree := do
  let t ← mkdirs t p.dropLast
  let t ← match lstat t p with
    | .ok .dir => removeAll t p
    | .ok (.symlink _) => remove t p
    | _ => .ok t
  writeFile t p data

/-! ### `healBelow(dirPath)` (archive_healer.go:99-126)

  `prefix := dirPath + "/"`; an entry is handled iff `strings.HasPrefix(entry.Path, prefix)`, i.e. (paths are
  clean, slash-separated) iff `dirPath` is a proper prefix of the entry's path component-wise: `isPrefix p q`. -/

/-- First loop of `healBelow` (archive_healer.go:101-108): `for i, d := range container.Dirs`, and for every `d`
    below `p`, `processWound(&Wound{Kind: WoundKind_DIR, Index: i})` — `dirWound` is that (recursive) call; the
    first error ends the loop. -/
def healDirsBelow (dirWound : Tree → List Nat → Path → Except Err (Tree × List Nat)) (p : Path) :
    List Path → Tree → List Nat → Except Err (Tree × List Nat)
  | [], t, q => .ok (t, q)
  | d :: ds, t, q =>
    if isPrefix p d then
      match dirWound t q d with
      | .ok (t', q') => healDirsBelow dirWound p ds t' q'
      | .error e => .error e
    else healDirsBelow dirWound p ds t q

/-- Second loop of `healBelow` (archive_healer.go:109-116): `for i, l := range container.Symlinks`, and for every
    `l` below `p`, `processWound(&Wound{Kind: WoundKind_SYMLINK, Index: i})`. -/
def healSymlinksBelow (p : Path) : List (Path × String) → Tree → Except Err Tree
  | [], t => .ok t
  | (l, dest) :: ls, t =>
    if isPrefix p l then
      match healSymlink t l dest with
      | .ok t' => healSymlinksBelow p ls t'
      | .error e => .error e
    else healSymlinksBelow p ls t

/-- Third loop of `healBelow` (archive_healer.go:117-124): `for i, f := range container.Files`, and for every `f`
    below `p`, `processWound(&Wound{Kind: WoundKind_FILE, Index: i, End: f.Size})` — the file is queued for the
    healing goroutine unless it is queued already (`enqueue`); no filesystem operation. -/
def queueFilesBelow (p : Path) : Nat → List (Path × List Byte) → List Nat → List Nat
  | _, [], q => q
  | i, (f, _) :: fs, q => queueFilesBelow p (i + 1) fs (if isPrefix p f then enqueue q i else q)

/-- `processWound` for a directory wound (archive_healer.go:135-169), on the tree `t` with the queue `q` of file
    indices sent to the healing goroutine so far; returns the new tree and the new queue.

    * `os.Lstat(path)` finds a directory: "all good" (142-144).
    * `os.Lstat(path)` finds something else (145-152): `os.Remove(path)`, `replaced = true`; then
      `os.MkdirAll(path)` (156); then, NEW with the repair of F15 (161-169), `healBelow(dirEntry.Path)`: the three
      loops above, the first of which calls `processWound` recursively.
    * `os.Lstat(path)` fails (whatever the error): `os.MkdirAll(path)` only (156).

    The first argument bounds the depth of the recursion `processWound → healBelow → processWound → …`: every
    nested call is for a directory strictly below the current one, so a chain of nested calls is a chain of
    distinct entries of `s.dirs` and `healDepth s = s.dirs.length + 1` is never exhausted (in fact, below a
    directory that has just been recreated nothing can stand in the way, so the depth never exceeds 2 —
    `Proofs/HealRestore: healDir_replaced`).  An exhausted bound is reported as an error. -/
def healDir (s : Signed) : Nat → Tree → List Nat → Path → Except Err (Tree × List Nat)
  | 0, _, _, _ => .error .eloop
  | depth + 1, t, q, p =>
    match lstat t p with
    | .ok .dir => .ok (t, q)                                   -- 142-144
    | .ok _ =>
      match remove t p with                                    -- 147
      | .error e => .error e
      | .ok t₁ =>
        match mkdirs t₁ p with                                 -- 156
        | .error e => .error e
        | .ok t₂ =>                                            -- 161-169: healBelow(dirEntry.Path)
          match healDirsBelow (healDir s depth) p s.dirs t₂ q with      -- 101-108
          | .error e => .error e
          | .ok (t₃, q₃) =>
            match healSymlinksBelow p s.symlinks t₃ with                -- 109-116
            | .error e => .error e
            | .ok t₄ => .ok (t₄, queueFilesBelow p 0 s.files q₃)        -- 117-124
    | .error _ =>
      match mkdirs t p with                                    -- 156
      | .error e => .error e
      | .ok t₁ => .ok (t₁, q)

/-- bound on the recursion depth of `healDir`, see there -/
def healDepth (s : Signed) : Nat := s.dirs.length + 1

/-- Process the wounds in order; file wounds queue the file once; queued files are rewritten afterwards (the
    healing goroutine drains the queue in order).  A directory wound may queue files as well (`healDir`). -/
def processWounds (s : Signed) : List Wound → Tree → List Nat → Except Err (Tree × List Nat)
  | [], t, q => .ok (t, q)
  | w :: ws, t, q =>
    match w.kind with
    | .dir =>
      match s.dirs[w.index]? with
      | some p =>
        match healDir s (healDepth s) t q p with
        | .ok (t', q') => processWounds s ws t' q'
        | .error e => .error e
      | none => .error .einval
    | .symlink =>
      match s.symlinks[w.index]? with
      | some (p, d) => do let t ← healSymlink t p d; processWounds s ws t q
      | none => .error .einval
    | .file => processWounds s ws t (enqueue q w.index)
    | .closedFile => processWounds s ws t q

def healFiles (s : Signed) : List Nat → Tree → Except Err Tree
  | [], t => .ok t
  | i :: is, t =>
    match s.files[i]? with
    | some (p, d) => do let t ← healFile t p d; healFiles s is t
    | none => .error .einval

/-- Validation followed by healing. `.err` when validation itself stops with an error. -/
def validateAndHeal (bs maxSize : Nat) (s : Signed) (t : Tree) : Outcome Tree :=
  match validate bs maxSize s t with
  | .err e => .err e
  | .panic p => .panic p
  | .ok ws =>
    match processWounds s ws t [] with
    | .error _ => .err "healer failed"
    | .ok (t1, q) =>
      match healFiles s q t1 with
      | .error _ => .err "healer failed"
      | .ok t2 => .ok t2

end Wharf.Heal
