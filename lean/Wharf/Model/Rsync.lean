/-
  Model of wsync (rsync-style differ): block math, weak hash, signature, block library,
  ComputeDiff (transcribed variable for variable from wsync/algo.go), operation replay.

  Abstractions (see DESIGN.md §3):
  * the reusable buffer is not materialised: at all times `buffer[0,validTo) = src[base, base+validTo)`
    so `buffer[i]` is `src.get (base + i)`; `base` is a ghost variable advanced at wrap time.
  * the strong hash is the identity: "equal strong hash" is "equal bytes (and equal length)".
  * an `OpData` carries `(start,len)` into the source instead of a copy of the bytes.
-/
import Wharf.Model.Basic

namespace Wharf.Rsync

open Wharf

/-- Internal constant of the rolling checksum (`wsync._M`). -/
def M : UInt32 := 65536

/-- `pwr.ComputeNumBlocks` for block size `bs`. -/
def numBlocks (bs size : Nat) : Nat := (size + bs - 1) / bs

/-- `pwr.ComputeBlockSize` for block size `bs` (also the arithmetic of `ApplySingleFull`). -/
def blockLen (bs size i : Nat) : Nat :=
  if bs * (i + 1) > size then size % bs else bs

/-- Inner loop of `βhash`: `k` bytes remain, the window is `c[start, start+len)`. -/
def betaLoop (c : Content) (start len : Nat) : Nat → UInt32 → UInt32 → UInt32 × UInt32
  | 0, a, b => (a, b)
  | k + 1, a, b =>
    let v := (c.get (start + (len - (k + 1)))).toUInt32
    betaLoop c start len k (a + v) (b + (k + 1).toUInt32 * v)

/-- `βhash`: returns `(β, β1, β2)`. -/
def betaHash (c : Content) (start len : Nat) : UInt32 × UInt32 × UInt32 :=
  let (a, b) := betaLoop c start len len 0 0
  ((a % M) + M * (b % M), a % M, b % M)

/-- A signature entry (`wsync.BlockHash` with the strong hash replaced by the block itself,
    which is addressed by `(file, index)`). -/
structure Entry where
  file : Nat
  index : Nat
  weak : UInt32
  short : Nat
  deriving Repr, BEq, DecidableEq

/-- `ShortSize` of a block of length `len`. -/
def shortOf (bs len : Nat) : Nat := if len < bs then len else 0

/-- Entries of one file: `CreateSignature` (full blocks, short tail, one empty block for an empty file). -/
def fileEntries (bs : Nat) (fi : Nat) (c : Content) : List Entry :=
  if c.size = 0 then
    [⟨fi, 0, (betaHash c 0 0).1, 0⟩]
  else
    (List.range (numBlocks bs c.size)).map fun i =>
      let len := blockLen bs c.size i
      ⟨fi, i, (betaHash c (i * bs) len).1, shortOf bs len⟩

def signatureFrom (bs : Nat) : Nat → List Content → List Entry
  | _, [] => []
  | fi, c :: cs => fileEntries bs fi c ++ signatureFrom bs (fi + 1) cs

/-- Signature of a list of old files. -/
def signature (bs : Nat) (olds : List Content) : List Entry := signatureFrom bs 0 olds

/-- An operation.  `data start len` stands for the bytes `src[start, start+len)`. -/
inductive Op where
  | range (file index span : Nat)
  | data (start len : Nat)
  deriving Repr, BEq, DecidableEq

structure Params where
  bs : Nat
  maxDataOp : Nat

def Params.bufLen (P : Params) : Nat := 2 * P.bs + P.maxDataOp

/-- The differ's loop state (names as in `ComputeDiff`). -/
structure DState where
  base : Nat := 0
  sumTail : Nat := 0
  dataTail : Nat := 0
  dataHead : Nat := 0
  validTo : Nat := 0
  β : UInt32 := 0
  β1 : UInt32 := 0
  β2 : UInt32 := 0
  αPop : UInt32 := 0
  rolling : Bool := false
  lastRun : Bool := false
  shortSize : Nat := 0
  prev : Option Op := none
  sent : Nat := 0
  out : Array Op := #[]

/-- `makeOperationCleaner`: drop empty data ops that are not the first op sent. -/
def emit (s : DState) (op : Op) : DState :=
  match op with
  | .data _ 0 => if s.sent > 0 then s else { s with sent := s.sent + 1, out := s.out.push op }
  | _ => { s with sent := s.sent + 1, out := s.out.push op }

/-- The `enqueue` closure. -/
def enqueue (s : DState) (op : Op) : DState :=
  match op with
  | .range f i sp =>
    match s.prev with
    | some (.range pf pidx pspan) =>
      if pf = f ∧ pidx + pspan = i then
        { s with prev := some (.range pf pidx (pspan + sp)) }
      else
        let s := emit s (.range pf pidx pspan)
        { s with prev := some op }
    | some p =>
      let s := emit s p
      { s with prev := some op }
    | none => { s with prev := some op }
  | .data _ _ =>
    match s.prev with
    | some p =>
      let s := emit { s with prev := none } p
      emit s op
    | none => emit s op

/-- The deferred flush at function exit. -/
def flush (s : DState) : DState :=
  match s.prev with
  | some p => emit { s with prev := none } p
  | none => s

/-- Does signature entry `e` describe a block equal to `src[ws, ws+wl)` ?  (strong-hash test) -/
def blockMatches (bs : Nat) (olds : Array Content) (src : Content) (ws wl : Nat) (e : Entry) : Bool :=
  match olds[e.file]? with
  | none => false
  | some old =>
    blockLen bs old.size e.index == wl && old.sameBytes (e.index * bs) src ws wl

/-- `findUniqueHash`. -/
def findUnique (bs : Nat) (olds : Array Content) (src : Content) (ws wl : Nat) (shortSize : Nat)
    (pref : Option Nat) (β : UInt32) (hh : List Entry) : Option Entry :=
  if wl = 0 then none else
  let ok := fun (e : Entry) => e.weak == β && e.short == shortSize && blockMatches bs olds src ws wl e
  match pref with
  | some p =>
    match hh.find? (fun e => e.file == p && ok e) with
    | some e => some e
    | none => hh.find? ok
  | none => hh.find? ok

/-- Part 1 of an iteration: extend (and wrap) the buffer. -/
def refill (P : Params) (src : Content) (s : DState) : DState :=
  if s.sumTail + P.bs > s.validTo then
    let s :=
      if s.validTo + P.bs > P.bufLen then
        let s := if s.dataTail < s.dataHead then
            enqueue s (.data (s.base + s.dataTail) (s.dataHead - s.dataTail)) else s
        { s with base := s.base + s.sumTail, validTo := s.validTo - s.sumTail,
                 sumTail := 0, dataHead := 0, dataTail := 0 }
      else s
    let n := min P.bs (src.size - (s.base + s.validTo))
    let s := { s with validTo := s.validTo + n }
    if n < P.bs then { s with lastRun := true, shortSize := n } else s
  else s

/-- Rolling update of `β1` (`β1 = (β1 - αPop + αPush) % _M`). -/
def rollβ1 (β1 αPop αPush : UInt32) : UInt32 := (β1 - αPop + αPush) % M
/-- Rolling update of `β2` (`β2 = (β2 - uint32(sum.head-sum.tail)*αPop + β1) % _M`), `wl` the window length. -/
def rollβ2 (β1 β2 αPop wl : UInt32) : UInt32 := (β2 - wl * αPop + β1) % M
/-- `β = β1 + _M*β2`. -/
def rollβ (β1 β2 : UInt32) : UInt32 := β1 + M * β2

/-- Part 2: weak hash of the window (rolling or from scratch); returns the state and `skip`. -/
def hashStep (src : Content) (s : DState) (sumHead : Nat) : DState × Bool :=
  if s.rolling then
    if sumHead = s.sumTail then
      -- the input ended exactly where the buffer was wrapped: no byte to push, nothing to look up
      (s, true)
    else
    let βold := s.β
    let αPush := (src.get (s.base + sumHead - 1)).toUInt32
    let β1 := rollβ1 s.β1 s.αPop αPush
    let β2 := rollβ2 β1 s.β2 s.αPop (sumHead - s.sumTail).toUInt32
    let β := rollβ β1 β2
    ({ s with β := β, β1 := β1, β2 := β2 }, β == βold)
  else
    let (β, β1, β2) := betaHash src (s.base + s.sumTail) (sumHead - s.sumTail)
    ({ s with β := β, β1 := β1, β2 := β2, rolling := true }, false)

/-- Trailing data of the last run, split so that no op exceeds `maxDataOp`
    (`for validTo-data.tail > MaxDataOp { ... }` followed by the final data op). -/
def emitTail (P : Params) : Nat → DState → DState
  | 0, s => enqueue s (.data (s.base + s.dataTail) (s.validTo - s.dataTail))
  | fuel + 1, s =>
    if s.validTo - s.dataTail > P.maxDataOp then
      let s := enqueue s (.data (s.base + s.dataTail) P.maxDataOp)
      emitTail P fuel { s with dataTail := s.dataTail + P.maxDataOp }
    else
      enqueue s (.data (s.base + s.dataTail) (s.validTo - s.dataTail))

/-- Part 3: emit operations and advance. -/
def advance (P : Params) (src : Content) (s : DState) (found : Option Entry) : DState :=
  let s :=
    if s.dataTail < s.dataHead ∧ (found.isSome ∨ s.dataHead - s.dataTail ≥ P.maxDataOp) then
      let s := enqueue s (.data (s.base + s.dataTail) (s.dataHead - s.dataTail))
      { s with dataTail := s.dataHead }
    else s
  match found with
  | some e =>
    let s := enqueue s (.range e.file e.index 1)
    { s with rolling := false, sumTail := s.sumTail + P.bs,
             dataHead := s.sumTail + P.bs, dataTail := s.sumTail + P.bs }
  | none =>
    if s.lastRun then
      emitTail P s.validTo s
    else
      let s := if s.rolling then { s with αPop := (src.get (s.base + s.sumTail)).toUInt32 } else s
      { s with sumTail := s.sumTail + 1, dataHead := s.sumTail + 1 }

/-- One iteration of `for !lastRun`. -/
def iter (P : Params) (olds : Array Content) (lookup : UInt32 → List Entry) (src : Content)
    (pref : Option Nat) (s : DState) : DState :=
  let s := refill P src s
  let sumHead := min (s.sumTail + P.bs) s.validTo
  let (s, skip) := hashStep src s sumHead
  let found :=
    if skip then none
    else findUnique P.bs olds src (s.base + s.sumTail) (sumHead - s.sumTail) s.shortSize pref s.β (lookup s.β)
  advance P src s found

/-- The loop, with fuel.  `src.size + 2` iterations always suffice (theorem `C11_fuel`). -/
def loop (P : Params) (olds : Array Content) (lookup : UInt32 → List Entry) (src : Content)
    (pref : Option Nat) : Nat → DState → DState
  | 0, s => s
  | fuel + 1, s =>
    if s.lastRun then s else loop P olds lookup src pref fuel (iter P olds lookup src pref s)

/-- `ComputeDiff`: the operations sent to the (cleaned) operation writer. -/
def computeDiffWith (P : Params) (olds : Array Content) (lookup : UInt32 → List Entry) (src : Content)
    (pref : Option Nat) : List Op :=
  (flush (loop P olds lookup src pref (src.size + 2) {})).out.toList

/-- Specification-level block library: the whole signature (`findUnique` filters by weak hash itself,
    which is what indexing `hashLookup` by `β` does in the Go code). -/
def lookupSpec (sig : List Entry) (_β : UInt32) : List Entry := sig

def bucketOf (n : Nat) (w : UInt32) : Nat := w.toNat % n

/-- Executable block library: `n` buckets filled in signature order (`NewBlockLibrary`). -/
def buildBuckets (n : Nat) (sig : List Entry) : Array (List Entry) :=
  sig.foldr (fun e b => b.modify (bucketOf n e.weak) (e :: ·)) (Array.replicate n [])

/-- The bucket that holds every entry of weak hash `β` (and possibly others: `findUnique` re-checks `weak`). -/
def lookupFast (buckets : Array (List Entry)) (β : UInt32) : List Entry :=
  buckets.getD (bucketOf buckets.size β) []

def computeDiff (P : Params) (olds : List Content) (src : Content) (pref : Option Nat) : List Op :=
  let sig := signature P.bs olds
  computeDiffWith P olds.toArray (lookupFast (buildBuckets (sig.length + 1) sig)) src pref

/-- Bytes produced by replaying one op (`ApplySingleFull`): a range copies
    `(span-1)*bs + lastSize` bytes from offset `bs*index` of the old file, as far as it has bytes. -/
def opBytes (bs : Nat) (olds : Array Content) (src : Content) : Op → List Byte
  | .data start len => src.slice start len
  | .range f i sp =>
    match olds[f]? with
    | none => []
    | some old =>
      let opSize := (sp - 1) * bs + blockLen bs old.size (i + sp - 1)
      let avail := old.size - bs * i
      old.slice (bs * i) (min opSize avail)

def replay (bs : Nat) (olds : Array Content) (src : Content) (ops : List Op) : List Byte :=
  (ops.map (opBytes bs olds src)).flatten

/-- Byte length of a range op as accounted by `makeOpsWriter` (ReusedBytes). -/
def reusedOf (bs : Nat) (olds : Array Content) : Op → Nat
  | .data _ _ => 0
  | .range f i sp =>
    match olds[f]? with
    | none => 0
    | some old => bs * (sp - 1) + blockLen bs old.size (i + sp - 1)

def freshOf : Op → Nat
  | .data _ len => len
  | .range _ _ _ => 0

end Wharf.Rsync
