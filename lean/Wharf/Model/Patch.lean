/-
  Message-level model of patch application (pwr/patcher) into a fresh bowl.

  A framed message is a protobuf record: a list of (field number, value).  The patcher decodes the
  *next frame* as whatever message type it expects at that point; `asSyncOp`, `asSyncHeader`,
  `asBsdiffHeader`, `asControl` are those typed views (a field with the wrong wire type is unknown
  to the typed view and ignored; absent fields are zero).  This is what makes "a bsdiff series read
  as SyncOps" (whitelist skip) and "arbitrary field values" (malformed patches) expressible.
-/
import Wharf.Model.Basic
import Wharf.Model.Rsync
import Wharf.Model.Bsdiff

namespace Wharf.Patch
open Wharf

inductive WVal where
  | varint (v : Int)
  | bytes (b : List Byte)
  deriving Repr, BEq, DecidableEq

/-- A framed message as a wire-level record. -/
abbrev WMsg := List (Nat × WVal)

def getVarint (m : WMsg) (field : Nat) : Int :=
  m.foldl (fun acc (f, v) => if f = field then (match v with | .varint x => x | .bytes _ => acc) else acc) 0

def getBytes (m : WMsg) (field : Nat) : List Byte :=
  m.foldl (fun acc (f, v) => if f = field then (match v with | .bytes b => b | .varint _ => acc) else acc) []

/-- Enum fields are int32 on the Go side: a varint is truncated to 32 bits (two's complement). -/
def toInt32 (v : Int) : Int :=
  let r := v % 4294967296
  if r ≥ 2147483648 then r - 4294967296 else r

-- field numbers (tied to pwr.proto / bsdiff.proto by `GenTies.proto_fields`)
def fSyncHeaderType : Nat := 1
def fSyncHeaderFileIndex : Nat := 16
def fBsdiffTargetIndex : Nat := 1
def fOpType : Nat := 1
def fOpFileIndex : Nat := 2
def fOpBlockIndex : Nat := 3
def fOpBlockSpan : Nat := 4
def fOpData : Nat := 5
def fCtrlAdd : Nat := 1
def fCtrlCopy : Nat := 2
def fCtrlSeek : Nat := 3
def fCtrlEof : Nat := 4
def opBlockRange : Int := 0
def opData : Int := 1
def heyYouDidIt : Int := 2049
def kindRsync : Int := 0
def kindBsdiff : Int := 1

structure SyncHeader where
  type : Int
  fileIndex : Int
  deriving Repr

structure SyncOp where
  type : Int
  fileIndex : Int
  blockIndex : Int
  blockSpan : Int
  data : List Byte
  deriving Repr

structure Control where
  add : List Byte
  copy : List Byte
  seek : Int
  eof : Bool
  deriving Repr

def asSyncHeader (m : WMsg) : SyncHeader := ⟨toInt32 (getVarint m fSyncHeaderType), getVarint m fSyncHeaderFileIndex⟩
def asBsdiffHeader (m : WMsg) : Int := getVarint m fBsdiffTargetIndex
def asSyncOp (m : WMsg) : SyncOp :=
  ⟨toInt32 (getVarint m fOpType), getVarint m fOpFileIndex, getVarint m fOpBlockIndex, getVarint m fOpBlockSpan,
   getBytes m fOpData⟩
def asControl (m : WMsg) : Control :=
  ⟨getBytes m fCtrlAdd, getBytes m fCtrlCopy, getVarint m fCtrlSeek, getVarint m fCtrlEof ≠ 0⟩

-- constructors used by writers
def mkSyncHeader (kind : Int) (i : Int) : WMsg := [(fSyncHeaderType, .varint kind), (fSyncHeaderFileIndex, .varint i)]
def mkRange (f i s : Int) : WMsg :=
  [(fOpType, .varint opBlockRange), (fOpFileIndex, .varint f), (fOpBlockIndex, .varint i), (fOpBlockSpan, .varint s)]
def mkData (d : List Byte) : WMsg := [(fOpType, .varint opData), (fOpData, .bytes d)]
def mkHey : WMsg := [(fOpType, .varint heyYouDidIt)]
def mkBsdiffHeader (t : Int) : WMsg := [(fBsdiffTargetIndex, .varint t)]
def mkControl (add copy : List Byte) (seek : Int) : WMsg :=
  [(fCtrlAdd, .bytes add), (fCtrlCopy, .bytes copy), (fCtrlSeek, .varint seek)]
def mkControlEof : WMsg := [(fCtrlEof, .varint 1)]

/-! ### the target pool as seen by the patcher -/

/-- The old build as read through a `lake.Pool`.  `csize` is the *container's* size of a file
    (what `GetSize` returns); `read f off len` delivers the bytes available in `[off, off+len)` through the
    pool's reader, or fails (missing file, validation failure of a checking pool). An out-of-range
    index panics (`container.Files[i]`). -/
structure Pool where
  nfiles : Nat
  csize : Nat → Nat
  read : Nat → Nat → Nat → Outcome (List Byte)
  /-- the real length of the file on disk (`Seek(0, io.SeekEnd)`), or an error if it cannot be opened -/
  flen : Nat → Outcome Nat
  /-- the whole file read from the start until EOF (`io.Copy` in `Transpose`) -/
  readAll : Nat → Outcome (List Byte)

/-- A pool over pristine in-memory contents. -/
def plainPool (olds : Array (List Byte)) : Pool :=
  { nfiles := olds.size
    csize := fun f => (olds.getD f []).length
    read := fun f off len => .ok (((olds.getD f []).drop off).take len)
    flen := fun f => .ok (olds.getD f []).length
    readAll := fun f => .ok (olds.getD f []) }

/-- bounds check of a file index taken from a message: out of range is a corrupted patch (an error). -/
def idx (n : Nat) (i : Int) (site : String) : Outcome Nat :=
  if 0 ≤ i ∧ i < n then .ok i.toNat else .err s!"corrupted patch: file index out of range at {site}"

inductive BowlCall where
  | getWriter (i : Nat)
  | transpose (src tgt : Nat)
  deriving Repr, BEq, DecidableEq

structure Env where
  bs : Nat
  oldSizes : Array Nat     -- target container (old build) file sizes
  newSizes : Array Nat     -- source container (new build) file sizes
  pool : Pool
  whitelist : Option (List Nat)

structure Res where
  out : List (Nat × List Byte) := []   -- files produced: (new file index, content), in order
  touched : Nat := 0
  calls : List BowlCall := []
  reads : List Nat := []               -- old files opened through the pool
  deriving Repr

/-- read frames as SyncOps until one has type HEY_YOU_DID_IT (`skipFile` for an rsync series,
    `readUntilEndMarker` after a transposition). -/
def skipOps : List WMsg → Outcome (List WMsg)
  | [] => .err "EOF while skipping"
  | m :: rest => if (asSyncOp m).type = heyYouDidIt then .ok rest else skipOps rest

/-- read frames as Controls until one has `eof` set. -/
def skipCtrls : List WMsg → Outcome (List WMsg)
  | [] => .err "EOF while skipping"
  | m :: rest => if (asControl m).eof then .ok rest else skipCtrls rest

/-- `skipFile`: an rsync series is read as SyncOps up to the end marker; a bsdiff series as
    BsdiffHeader, Controls up to eof, then the sentinel SyncOp. -/
def skipFile (kind : Int) (msgs : List WMsg) : Outcome (List WMsg) :=
  if kind = kindBsdiff then
    match msgs with
    | [] => .err "EOF while skipping"
    | _ :: rest =>
      (skipCtrls rest).bind fun rest' =>
        match rest' with
        | [] => .err "EOF while skipping"
        | sm :: rest'' =>
          if (asSyncOp sm).type ≠ heyYouDidIt then .err "expected sentinel SyncOp after bsdiff series" else .ok rest''
  else skipOps msgs

/-- `isFullFileOp`. -/
def isFullFileOp (E : Env) (i : Nat) (op : SyncOp) : Outcome (Option Nat) :=
  if op.type ≠ opBlockRange then .ok none
  else if op.blockIndex ≠ 0 then .ok none
  else if ¬ (0 ≤ op.fileIndex ∧ op.fileIndex < E.oldSizes.size) then .ok none   -- invalid op: rejected when applied
  else
    let t := op.fileIndex.toNat
    if E.oldSizes.getD t 0 ≠ E.newSizes.getD i 0 then .ok none
    else if op.blockSpan = (Rsync.numBlocks E.bs (E.newSizes.getD i 0) : Int) then .ok (some t) else .ok none

/-- `ApplySingleFull` for one decoded op appended to the writer's content. -/
def applyOp (E : Env) (op : SyncOp) (w : List Byte) (reads : List Nat) : Outcome (List Byte × List Nat) :=
  if op.type = opBlockRange then do
    let f ← idx E.pool.nfiles op.fileIndex "ApplySingleFull pool.GetSize(op.FileIndex)"
    let fileSize : Int := E.pool.csize f
    let bs : Int := E.bs
    let fixedSize := (op.blockSpan - 1) * bs
    let lastIndex := op.blockIndex + (op.blockSpan - 1)
    let lastSize := if bs * (lastIndex + 1) > fileSize then Int.tmod fileSize bs else bs
    let opSize := fixedSize + lastSize
    let off := bs * op.blockIndex
    if off < 0 then .err "negative seek"
    else
      match E.pool.read f off.toNat opSize.toNat with
      | .ok bytes => .ok (w ++ bytes, reads ++ [f])
      | .err e => .err e
      | .panic p => .panic p
  else if op.type = opData then .ok (w ++ op.data, reads)
  else .err "unknown sync op type"

/-- the relay loop of `processRsync`: ops until the end marker. -/
def rsyncLoop (E : Env) : List WMsg → List Byte → List Nat → Outcome (List WMsg × List Byte × List Nat)
  | [], _, _ => .err "EOF in rsync series"
  | m :: rest, w, reads =>
    let op := asSyncOp m
    if op.type = heyYouDidIt then .ok (rest, w, reads)
    else
      match applyOp E op w reads with
      | .ok (w', reads') => rsyncLoop E rest w' reads'
      | .err e => .err e
      | .panic p => .panic p

/-- `IndividualPatchContext.Apply` reading the old file through the pool. -/
def applyControl (E : Env) (t : Nat) (flen : Nat) (c : Control) (oldOffset : Int) (w : List Byte) :
    Outcome (Int × List Byte) :=
  if oldOffset < 0 ∨ oldOffset > flen then .err "invalid seek"
  else
    let n := c.add.length
    (if n > 0 then
      match E.pool.read t oldOffset.toNat n with
      | .ok bytes =>
        if bytes.length ≠ n then .err "bsdiff-add: short read"
        else .ok (List.zipWith (· + ·) bytes c.add)
      | .err e => .err e
      | .panic p => .panic p
    else .ok []) >>= fun added =>
    .ok (oldOffset + n + c.seek, w ++ added ++ c.copy)

def bsdiffLoop (E : Env) (t flen : Nat) : List WMsg → Int → List Byte → Outcome (List WMsg × List Byte)
  | [], _, _ => .err "EOF in bsdiff series"
  | m :: rest, off, w =>
    let c := asControl m
    if c.eof then .ok (rest, w)
    else
      match applyControl E t flen c off w with
      | .ok (off', w') => bsdiffLoop E t flen rest off' w'
      | .err e => .err e
      | .panic p => .panic p

/-- One file of `Resume`'s loop. -/
def processFile (E : Env) (i : Nat) (msgs : List WMsg) (r : Res) : Outcome (List WMsg × Res) :=
  match msgs with
  | [] => .err "EOF reading sync header"
  | hm :: rest =>
    let sh := asSyncHeader hm
    if sh.fileIndex ≠ i then .err "corrupted patch: unexpected file index"
    else if sh.type ≠ kindRsync ∧ sh.type ≠ kindBsdiff then .err "unknown patch series kind"
    else
      let skip := match E.whitelist with
        | some wl => !wl.contains i
        | none => false
      if skip then (skipFile sh.type rest).bind fun rest' => .ok (rest', r)
      else if sh.type = kindRsync then
        match rest with
        | [] => .err "EOF reading first op"
        | om :: rest1 =>
          let op := asSyncOp om
          (isFullFileOp E i op).bind fun full =>
          match full with
          | some t =>
            -- Transpose: whole-file copy of old file `t`
            match E.pool.readAll t with
            | .err e => .err e
            | .panic p => .panic p
            | .ok bytes =>
              (skipOps rest1).bind fun rest' =>
                .ok (rest', { out := r.out ++ [(i, bytes)], touched := r.touched + 1,
                              calls := r.calls ++ [BowlCall.transpose i t], reads := r.reads ++ [t] })
          | none =>
            -- relay the first op, then the rest
            let r1 := { r with calls := r.calls ++ [BowlCall.getWriter i] }
            if op.type = heyYouDidIt then
              -- the first message already was the end marker: `makeWop` rejects it
              .err "unknown sync op type"
            else
              (applyOp E op [] r1.reads).bind fun (w, reads) =>
              (rsyncLoop E rest1 w reads).bind fun (rest', w', reads') =>
                .ok (rest', { r1 with out := r1.out ++ [(i, w')], touched := r1.touched + 1, reads := reads' })
      else
        -- bsdiff series
        match rest with
        | [] => .err "EOF reading bsdiff header"
        | bm :: rest1 =>
          let ti := asBsdiffHeader bm
          (idx E.pool.nfiles ti "processBsdiff targetPool.GetReadSeeker(targetIndex)").bind fun t =>
          match E.pool.flen t with
          | .err e => .err e
          | .panic p => .panic p
          | .ok flen =>
            (bsdiffLoop E t flen rest1 0 []).bind fun (rest2, w) =>
            match rest2 with
            | [] => .err "EOF reading sentinel"
            | sm :: rest' =>
              if (asSyncOp sm).type ≠ heyYouDidIt then .err "expected sentinel SyncOp after bsdiff series"
              else if w.length ≠ E.newSizes.getD i 0 then .err "corrupted patch: wrong final size"
              else .ok (rest', { out := r.out ++ [(i, w)], touched := r.touched + 1,
                                 calls := r.calls ++ [BowlCall.getWriter i], reads := r.reads ++ [t] })

/-- `Resume(nil, …)`: all files in order. -/
def patchFrom (E : Env) : Nat → Nat → List WMsg → Res → Outcome Res
  | 0, _, _, r => .ok r
  | n + 1, i, msgs, r =>
    match processFile E i msgs r with
    | .ok (rest, r') => patchFrom E n (i + 1) rest r'
    | .err e => .err e
    | .panic p => .panic p

def patch (E : Env) (msgs : List WMsg) : Outcome Res :=
  patchFrom E E.newSizes.size 0 msgs {}

/-! ### the differ's side: `WritePatch` at message level -/

/-- Messages of one rsync op (data as real bytes). -/
def opMsg (src : Content) : Rsync.Op → WMsg
  | .range f i s => mkRange f i s
  | .data st len => mkData (src.slice st len)

/-- index of the old file with the same path (`targetContainerPathToIndex`; last one wins). -/
def prefOf (oldPaths : List String) (p : String) : Option Nat :=
  let rec go : List String → Nat → Option Nat → Option Nat
    | [], _, acc => acc
    | q :: qs, k, acc => go qs (k + 1) (if q = p then some k else acc)
  go oldPaths 0 none

/-- The differ run on every new file in container order: (new file index, content, ops). -/
def diffAll (P : Rsync.Params) (olds : List (String × Content)) : Nat → List (String × Content) →
    List (Nat × Content × List Rsync.Op)
  | _, [] => []
  | i, (path, src) :: rest =>
    (i, src, Rsync.computeDiff P (olds.map (·.2)) src (prefOf (olds.map (·.1)) path)) :: diffAll P olds (i + 1) rest

/-- `DiffContext.WritePatch`: sync header, ops, end marker for every new file. -/
def writePatch (P : Rsync.Params) (olds : List (String × Content)) (news : List (String × Content)) : List WMsg :=
  (diffAll P olds 0 news).flatMap fun (i, src, ops) =>
    (mkSyncHeader kindRsync i :: ops.map (opMsg src)) ++ [mkHey]

end Wharf.Patch
