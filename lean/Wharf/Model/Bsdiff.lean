/-
  Model of the bsdiff differ and applier (bsdiff/diff.go, bsdiff/patch.go, bsdiff/psa.go).

  * `analyzeBlock` is transcribed from the closure of the same name, with the suffix-array search as
    a parameter `search : Nat → Nat × Nat` (block-relative scan position ↦ (pos, length)); the
    executable instance is a naive partitioned suffix array + the code's own binary search.
  * `writeMessages` and `applyCtrl` mirror the producer and the consumer of control messages.
  * the worker/dispatcher/collector goroutines are abstracted to "blocks are analysed independently
    and their matches are forwarded in block order" (the transition-system model is in Model/Pipeline).
-/
import Wharf.Model.Basic

namespace Wharf.Bsdiff
open Wharf

abbrev Bytes := Array Byte

@[inline] def at' (a : Bytes) (i : Nat) : Byte := a.getD i 0

/-- `bsdiff.Match` (without `eoc`). Positions in the new file are absolute. -/
structure Match where
  addOldStart : Nat
  addNewStart : Nat
  addLength : Nat
  copyEnd : Nat
  deriving Repr, BEq, DecidableEq

def Match.copyStart (m : Match) : Nat := m.addNewStart + m.addLength

/-- A control message. -/
inductive Ctrl where
  | op (add : List Byte) (copy : List Byte) (seek : Int)
  | eof
  deriving Repr, BEq, DecidableEq

/-! ### analyzeBlock -/

/-- State of `analyzeBlock` between outer iterations. -/
structure AState where
  scan : Nat := 0
  pos : Nat := 0
  length : Nat := 0
  lastscan : Nat := 0
  lastpos : Nat := 0
  lastoffset : Int := 0
  out : Array Match := #[]
  deriving Repr

/-- `obuf[k+lastoffset] == nbuf[k]` guarded by `k+lastoffset < obuflen` (and, implicitly, `≥ 0`). -/
def agrees (obuf nbuf : Bytes) (lastoffset : Int) (k : Nat) : Bool :=
  let j := (k : Int) + lastoffset
  decide (0 ≤ j) && decide (j < obuf.size) && at' obuf j.toNat == at' nbuf k

/-- `for ; scsc < scan+length; scsc++ { if … { oldscore++ } }` -/
def scoreLoop (obuf nbuf : Bytes) (lastoffset : Int) (upto : Nat) : Nat → Nat → Int → Nat × Int
  | 0, scsc, sc => (scsc, sc)
  | fuel + 1, scsc, sc =>
    if scsc < upto then
      scoreLoop obuf nbuf lastoffset upto fuel (scsc + 1) (if agrees obuf nbuf lastoffset scsc then sc + 1 else sc)
    else (scsc, sc)

/-- The inner `for scsc := scan; scan < nbuflen; scan++` loop.  Returns (scan, pos, length, oldscore). -/
def innerLoop (obuf nbuf : Bytes) (search : Nat → Nat × Nat) (lastoffset : Int) :
    Nat → Nat → Nat → Nat → Nat → Int → Nat × Nat × Nat × Int
  | 0, scan, _, pos, length, sc => (scan, pos, length, sc)
  | fuel + 1, scan, scsc, pos, length, sc =>
    if scan < nbuf.size then
      let (pos', length') := search scan
      let (scsc', sc') := scoreLoop obuf nbuf lastoffset (scan + length') (nbuf.size + 1) scsc sc
      if (length' = sc' ∧ length' ≠ 0) ∨ (length' : Int) > sc' + 8 then
        (scan, pos', length', sc')
      else
        let sc'' := if agrees obuf nbuf lastoffset scan then sc' - 1 else sc'
        innerLoop obuf nbuf search lastoffset fuel (scan + 1) scsc' pos' length' sc''
    else (scan, pos, length, sc)

/-- `lenf`: forward extension from (lastscan, lastpos). Loop `for i := 0; lastscan+i < scan && lastpos+i < obuflen;`. -/
def lenfLoop (obuf nbuf : Bytes) (lastscan lastpos scan : Nat) : Nat → Nat → Nat → Nat → Nat → Nat
  | 0, _, _, _, lenf => lenf
  | fuel + 1, i, s, sf, lenf =>
    if lastscan + i < scan ∧ lastpos + i < obuf.size then
      let s := if at' obuf (lastpos + i) == at' nbuf (lastscan + i) then s + 1 else s
      let i := i + 1
      if (s * 2 : Int) - i > (sf * 2 : Int) - lenf then
        lenfLoop obuf nbuf lastscan lastpos scan fuel i s s i
      else
        lenfLoop obuf nbuf lastscan lastpos scan fuel i s sf lenf
    else lenf

/-- `lenb`: backward extension from (scan, pos). Loop `for i := 1; scan >= lastscan+i && pos >= i; i++`. -/
def lenbLoop (obuf nbuf : Bytes) (lastscan scan pos : Nat) : Nat → Nat → Nat → Nat → Nat → Nat
  | 0, _, _, _, lenb => lenb
  | fuel + 1, i, s, sb, lenb =>
    if scan ≥ lastscan + i ∧ pos ≥ i then
      let s := if at' obuf (pos - i) == at' nbuf (scan - i) then s + 1 else s
      if (s * 2 : Int) - i > (sb * 2 : Int) - lenb then
        lenbLoop obuf nbuf lastscan scan pos fuel (i + 1) s s i
      else
        lenbLoop obuf nbuf lastscan scan pos fuel (i + 1) s sb lenb
    else lenb

/-- Overlap resolution: returns `lens`. -/
def lensLoop (obuf nbuf : Bytes) (lastscan lastpos scan pos lenf lenb overlap : Nat) :
    Nat → Nat → Int → Int → Nat → Nat
  | 0, _, _, _, lens => lens
  | fuel + 1, i, s, ss, lens =>
    if i < overlap then
      let s := if at' nbuf (lastscan + lenf - overlap + i) == at' obuf (lastpos + lenf - overlap + i) then s + 1 else s
      let s := if at' nbuf (scan - lenb + i) == at' obuf (pos - lenb + i) then s - 1 else s
      if s > ss then lensLoop obuf nbuf lastscan lastpos scan pos lenf lenb overlap fuel (i + 1) s s (i + 1)
      else lensLoop obuf nbuf lastscan lastpos scan pos lenf lenb overlap fuel (i + 1) s ss lens
    else lens

/-- One iteration of the outer `for scan < nbuflen` loop (`offset` = position of the block in the new file). -/
def outerStep (obuf nbuf : Bytes) (search : Nat → Nat × Nat) (offset : Nat) (a : AState) : AState :=
  let scan0 := a.scan + a.length
  let (scan, pos, length, oldscore) :=
    innerLoop obuf nbuf search a.lastoffset (nbuf.size + 1) scan0 scan0 a.pos a.length 0
  if (length : Int) ≠ oldscore ∨ scan = nbuf.size then
    let lenf := lenfLoop obuf nbuf a.lastscan a.lastpos scan (nbuf.size + 1) 0 0 0 0
    let lenb := if scan < nbuf.size then lenbLoop obuf nbuf a.lastscan scan pos (nbuf.size + 1) 1 0 0 0 else 0
    let (lenf, lenb) :=
      if a.lastscan + lenf > scan - lenb then
        let overlap := (a.lastscan + lenf) - (scan - lenb)
        let lens := lensLoop obuf nbuf a.lastscan a.lastpos scan pos lenf lenb overlap (nbuf.size + 1) 0 0 0 0
        (lenf + lens - overlap, lenb - lens)
      else (lenf, lenb)
    let m : Match := { addOldStart := a.lastpos, addNewStart := a.lastscan + offset, addLength := lenf,
                       copyEnd := scan - lenb + offset }
    { scan := scan, pos := pos, length := length, lastscan := scan - lenb, lastpos := pos - lenb,
      lastoffset := (pos : Int) - scan, out := a.out.push m }
  else
    { a with scan := scan, pos := pos, length := length }

def outerLoop (obuf nbuf : Bytes) (search : Nat → Nat × Nat) (offset : Nat) : Nat → AState → Option AState
  | 0, a => if a.scan < nbuf.size then none else some a
  | fuel + 1, a =>
    if a.scan < nbuf.size then outerLoop obuf nbuf search offset fuel (outerStep obuf nbuf search offset a)
    else some a

/-- `analyzeBlock(nbuflen, nbuf, offset, …)`: the matches of one block (`none`: fuel exhausted, which
    `C12_fuel` shows impossible). -/
def analyzeBlock (obuf nbuf : Bytes) (search : Nat → Nat × Nat) (offset : Nat) : Option (List Match) :=
  (outerLoop obuf nbuf search offset (2 * nbuf.size + 2) {}).map (·.out.toList)

/-! ### block plan -/

/-- Block planning of `Do`: `(partitions, blockSize, numBlocks)`. `scanBlock` is 128 KiB in the code.
    When the new file is smaller than the partition count the block size is clamped to 1. -/
def blockPlan (scanBlock : Nat) (partitions obuflen nbuflen : Nat) : Nat × Nat × Nat :=
  let p := if partitions = 0 ∨ partitions + 1 ≥ obuflen then 1 else partitions
  let blockSize := scanBlock
  let numBlocks := (nbuflen + blockSize - 1) / blockSize
  if numBlocks < p then
    let blockSize := if nbuflen / p < 1 then 1 else nbuflen / p
    (p, blockSize, (nbuflen + blockSize - 1) / blockSize)
  else (p, blockSize, numBlocks)

/-- Matches of all blocks in block order. `searchFor boundary len` is the search for the block at `boundary`. -/
def allMatches (obuf nbuf : Bytes) (searchFor : Nat → Nat → Nat → Nat × Nat) (blockSize : Nat) :
    Nat → Nat → Option (List Match)
  | 0, _ => some []
  | nb + 1, boundary =>
    let len := if nb = 0 then nbuf.size - boundary else blockSize
    let blk := nbuf.extract boundary (boundary + len)
    match analyzeBlock obuf blk (searchFor boundary len) boundary with
    | none => none
    | some ms =>
      match allMatches obuf nbuf searchFor blockSize nb (boundary + blockSize) with
      | none => none
      | some rest => some (ms ++ rest)

/-! ### writeMessages -/

def addBytes (obuf nbuf : Bytes) (m : Match) : List Byte :=
  (List.range m.addLength).map fun i => at' nbuf (m.addNewStart + i) - at' obuf (m.addOldStart + i)

def copyBytes (nbuf : Bytes) (m : Match) : List Byte :=
  (List.range (m.copyEnd - m.copyStart)).map fun i => at' nbuf (m.copyStart + i)

/-- `writeMessages`: one control per match, the seek of each is known when the next match arrives. -/
def writeMessages (obuf nbuf : Bytes) : List Match → List Ctrl
  | [] => [.op [] [] 0, .eof]
  | [m] => [.op (addBytes obuf nbuf m) (copyBytes nbuf m) 0, .eof]
  | m :: m' :: ms =>
    .op (addBytes obuf nbuf m) (copyBytes nbuf m) ((m'.addOldStart : Int) - (m.addOldStart + m.addLength))
      :: writeMessages obuf nbuf (m' :: ms)

/-- `DiffContext.Do` at the level of control messages (`.err` only if the fuel of `analyzeBlock` ran out,
    which `C12.analyzeBlock_tiles` rules out). -/
def diff (scanBlock : Nat) (partitions : Nat) (obuf nbuf : Bytes)
    (searchFor : Nat → Nat → Nat → Nat × Nat) : Outcome (List Ctrl) :=
  if nbuf.size = 0 then .ok [.eof]
  else
    let (_, blockSize, numBlocks) := blockPlan scanBlock partitions obuf.size nbuf.size
    match allMatches obuf nbuf searchFor blockSize numBlocks 0 with
    | none => .err "fuel"
    | some ms => .ok (writeMessages obuf nbuf ms)

/-! ### Apply -/

structure PState where
  oldOffset : Int
  out : List Byte
  deriving Repr

/-- `IndividualPatchContext.Apply` for one control (not eof). -/
def applyCtrl (obuf : Bytes) (st : PState) (add copy : List Byte) (seek : Int) : Outcome PState :=
  if st.oldOffset < 0 ∨ st.oldOffset > obuf.size then .err "invalid seek"
  else
    let off := st.oldOffset.toNat
    if off + add.length > obuf.size then .err "bsdiff-add: short read"
    else
      let added := (List.range add.length).map fun i => at' obuf (off + i) + add.getD i 0
      .ok { oldOffset := st.oldOffset + add.length + seek, out := st.out ++ added ++ copy }

/-- Apply a series up to `eof`; returns the state and the controls left unread. -/
def applySeries (obuf : Bytes) : List Ctrl → PState → Outcome (PState × List Ctrl)
  | [], _ => .err "unexpected end of series"
  | .eof :: rest, st => .ok (st, rest)
  | .op a c s :: rest, st =>
    match applyCtrl obuf st a c s with
    | .ok st' => applySeries obuf rest st'
    | .err e => .err e
    | .panic p => .panic p

/-! ### executable search: naive partitioned suffix array + the code's binary search -/

/-- compare suffix `i` of `buf[st,en)` with suffix `j` (shorter prefix sorts first). -/
def suffixLt (buf : Bytes) (en : Nat) : Nat → Nat → Nat → Bool
  | 0, _, _ => false
  | fuel + 1, i, j =>
    if i ≥ en then decide (j < en)   -- suffix i exhausted: smaller iff j not exhausted
    else if j ≥ en then false
    else if at' buf i < at' buf j then true
    else if at' buf i > at' buf j then false
    else suffixLt buf en fuel (i + 1) (j + 1)

/-- suffix array of `buf[st,en)` (indices relative to `st`). -/
def suffixArray (buf : Bytes) (st en : Nat) : Array Nat :=
  ((List.range (en - st)).mergeSort (fun i j => !(suffixLt buf en (en - st + 1) (st + j) (st + i)))).toArray

/-- `matchlen(obuf[i:en], nbuf[q:qen])` -/
def matchlen (obuf : Bytes) (en : Nat) (nbuf : Bytes) (qen : Nat) (i q : Nat) : Nat → Nat
  | 0 => 0
  | fuel + 1 =>
    if i < en ∧ q < qen ∧ at' obuf i == at' nbuf q then 1 + matchlen obuf en nbuf qen (i + 1) (q + 1) fuel else 0

/-- `bytes.Compare(obuf[i:en], nbuf[q:qen]) < 0` -/
def cmpLt (obuf : Bytes) (en : Nat) (nbuf : Bytes) (qen : Nat) : Nat → Nat → Nat → Bool
  | 0, _, _ => false
  | fuel + 1, i, q =>
    if i ≥ en then decide (q < qen)
    else if q ≥ qen then false
    else if at' obuf i < at' nbuf q then true
    else if at' obuf i > at' nbuf q then false
    else cmpLt obuf en nbuf qen fuel (i + 1) (q + 1)

/-- `search(I, obuf, nbuf, st, en)` on the partition `[pst, pen)` for the query `nbuf[q:qen]`;
    positions relative to the partition. -/
def searchSA (obuf : Bytes) (pst pen : Nat) (I : Array Nat) (nbuf : Bytes) (qen q : Nat) : Nat → Nat → Nat → Nat × Nat
  | 0, st, _ => (I.getD st 0, 0)
  | fuel + 1, st, en =>
    let plen := pen - pst
    if en - st < 2 then
      let x := matchlen obuf pen nbuf qen (pst + I.getD st 0) q (plen + 1)
      if en ≥ plen then (I.getD st 0, x)
      else
        let y := matchlen obuf pen nbuf qen (pst + I.getD en 0) q (plen + 1)
        if x > y then (I.getD st 0, x) else (I.getD en 0, y)
    else
      let x := st + (en - st) / 2
      if cmpLt obuf pen nbuf qen (plen + qen + 1) (pst + I.getD x 0) q then
        searchSA obuf pst pen I nbuf qen q fuel x en
      else
        searchSA obuf pst pen I nbuf qen q fuel st x

structure PSA where
  bounds : Array (Nat × Nat)
  sas : Array (Array Nat)

/-- `NewPSA`. -/
def mkPSA (obuf : Bytes) (p : Nat) : PSA :=
  let psize := obuf.size / p
  let bounds := (Array.range p).map fun i => (i * psize, if i + 1 = p then obuf.size else (i + 1) * psize)
  { bounds := bounds, sas := bounds.map fun (st, en) => suffixArray obuf st en }

/-- `PSA.search(nbuf[q:])`: best match over all partitions (first best wins). -/
def psaSearch (obuf : Bytes) (psa : PSA) (nbuf : Bytes) (qen q : Nat) : Nat × Nat := Id.run do
  let mut bpos := 0
  let mut bn := 0
  for k in [0:psa.bounds.size] do
    let (st, en) := psa.bounds.getD k (0, 0)
    if en == st then continue   -- nothing to find in an empty partition
    let (ppos, pn) := searchSA obuf st en (psa.sas.getD k #[]) nbuf qen q (en - st + 2) 0 (en - st)
    if pn > bn then
      bn := pn
      bpos := ppos + st
  return (bpos, bn)

/-- The executable differ with the concrete search. -/
def diffExec (scanBlock partitions : Nat) (obuf nbuf : Bytes) : Outcome (List Ctrl) :=
  let p := if partitions = 0 ∨ partitions + 1 ≥ obuf.size then 1 else partitions
  let psa := mkPSA obuf p
  diff scanBlock partitions obuf nbuf
    (fun boundary len scan => psaSearch obuf psa nbuf (boundary + len) (boundary + scan))

end Wharf.Bsdiff
