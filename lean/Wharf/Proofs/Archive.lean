/-
  Helper lemmas for C19: the worker-pool invariant and the filesystem reasoning behind the
  sequential round trip.
-/
import Wharf.Model.Archive

namespace Wharf.Archive
open Wharf Wharf.FS

/-! ### worker pool -/

theorem contiguous_spec (done : List Nat) :
    ∀ fuel k j, contiguous done fuel k = some j → k ≤ j ∧ ∀ i, k ≤ i → i ≤ j → i ∈ done := by
  intro fuel
  induction fuel with
  | zero => intro k j h; simp [contiguous] at h
  | succ fuel ih =>
    intro k j h
    simp only [contiguous] at h
    split at h
    · rename_i hk
      have hk' : k ∈ done := by simpa using hk
      split at h
      · rename_i j' hj'
        cases h
        have := ih (k + 1) j hj'
        refine ⟨by omega, ?_⟩
        intro i h1 h2
        by_cases hik : i = k
        · subst hik; exact hk'
        · exact this.2 i (by omega) h2
      · cases h
        refine ⟨Nat.le_refl _, ?_⟩
        intro i h1 h2
        have : i = k := by omega
        subst this; exact hk'
    · cases h

/-- The invariant of the pool (for an archive of `n` entries). -/
structure Inv (n : Nat) (s : PoolSt) : Prop where
  count : s.count = s.done.length
  doneND : s.done.Nodup
  inflND : s.inflight.Nodup
  infl : ∀ i ∈ s.inflight, i < s.next ∧ i ∉ s.done
  doneLt : ∀ i ∈ s.done, i < s.next
  nextLe : s.next ≤ n
  nEq : s.n = n
  cover : ∀ i, i < s.next → i ∈ s.done ∨ i ∈ s.inflight
  resume : ∀ k, s.resumeFile = some k → ∀ j, j ≤ k → j ∈ s.done

theorem Inv.init (n : Nat) : Inv n { n := n } := by
  constructor <;> simp

theorem Inv.step {workers n : Nat} {s s' : PoolSt} {l : Lbl} (hI : Inv n s)
    (hs : Archive.step workers s l = some s') : Inv n s' := by
  cases l with
  | take =>
    simp only [Archive.step] at hs
    split at hs
    · rename_i hc
      cases hs
      obtain ⟨h1, h2⟩ := hc
      have hn := hI.nEq
      constructor
      · exact hI.count
      · exact hI.doneND
      · simp only
        rw [List.nodup_append]
        refine ⟨hI.inflND, by simp, ?_⟩
        intro a ha b hb
        simp at hb
        subst hb
        have := (hI.infl a ha).1
        omega
      · intro i hi
        simp only [List.mem_append, List.mem_singleton] at hi
        rcases hi with hi | hi
        · have := hI.infl i hi
          exact ⟨by simp only; omega, this.2⟩
        · subst hi
          refine ⟨by simp only; omega, ?_⟩
          intro hd
          have := hI.doneLt _ hd
          omega
      · intro i hi
        have := hI.doneLt i hi
        simp only; omega
      · simp only; omega
      · exact hn
      · intro i hi
        simp only at hi
        by_cases h : i = s.next
        · right; simp [h]
        · rcases hI.cover i (by omega) with h | h
          · exact Or.inl h
          · right; simp [h]
      · exact hI.resume
    · cases hs
  | finish i =>
    simp only [Archive.step] at hs
    split at hs
    · rename_i hc
      cases hs
      have hi : i ∈ s.inflight := by simpa using hc
      have hi' := hI.infl i hi
      constructor
      · simp [hI.count]
      · simp only [List.nodup_cons]
        exact ⟨hi'.2, hI.doneND⟩
      · exact hI.inflND.filter _
      · intro j hj
        simp only [List.mem_filter] at hj
        have := hI.infl j hj.1
        refine ⟨this.1, ?_⟩
        simp only [List.mem_cons, not_or]
        refine ⟨?_, this.2⟩
        have := hj.2
        simpa using this
      · intro j hj
        simp only [List.mem_cons] at hj
        rcases hj with hj | hj
        · subst hj; exact hi'.1
        · exact hI.doneLt j hj
      · exact hI.nextLe
      · exact hI.nEq
      · intro j hj
        simp only at hj
        by_cases h : j = i
        · left; simp [h]
        · rcases hI.cover j hj with h' | h'
          · left; simp [h']
          · right; simp [List.mem_filter, h', h]
      · intro k hk j hj
        simp only at hk
        exact (contiguous_spec _ _ _ _ hk).2 j (Nat.zero_le _) hj
    · cases hs

/-- A duplicate-free list of naturals that contains exactly the numbers below `n` has length `n`. -/
theorem length_eq_of_nodup_cover {l : List Nat} {n : Nat} (hnd : l.Nodup) (hlt : ∀ i ∈ l, i < n)
    (hcov : ∀ i, i < n → i ∈ l) : l.length = n := by
  have hp : l.Perm (List.range n) := by
    rw [List.perm_ext_iff_of_nodup hnd List.nodup_range]
    intro a
    simp only [List.mem_range]
    exact ⟨hlt a, hcov a⟩
  simpa using hp.length_eq

theorem Inv.final {n : Nat} {s : PoolSt} (hI : Inv n s) (hfin : s.next = n ∧ s.inflight = []) :
    s.count = n := by
  rw [hI.count]
  apply length_eq_of_nodup_cover hI.doneND
  · intro i hi; have := hI.doneLt i hi; omega
  · intro i hi
    rcases hI.cover i (by omega) with h | h
    · exact h
    · rw [hfin.2] at h; cases h

theorem Inv.progress {workers n : Nat} {s : PoolSt} (hw : 0 < workers) (hI : Inv n s)
    (hnf : ¬ (s.next = n ∧ s.inflight = [])) : ∃ l s', Archive.step workers s l = some s' := by
  by_cases hc : s.next < s.n ∧ s.inflight.length < workers
  · exact ⟨.take, _, by simp only [Archive.step, if_pos hc]; rfl⟩
  · have hne : s.inflight ≠ [] := by
      intro he
      have h1 := hI.nextLe
      have h2 := hI.nEq
      by_cases hx : s.next = n
      · exact hnf ⟨hx, he⟩
      · apply hc
        rw [he]
        exact ⟨by omega, hw⟩
    match hl : s.inflight with
    | [] => exact absurd hl hne
    | i :: rest =>
      have hm : s.inflight.contains i = true := by simp [hl]
      exact ⟨.finish i, _, by simp only [Archive.step, if_pos hm]; rfl⟩

theorem step_variant {workers n : Nat} {s s' : PoolSt} {l : Lbl} (hI : Inv n s)
    (hs : Archive.step workers s l = some s') :
    2 * (n - s'.next) + s'.inflight.length < 2 * (n - s.next) + s.inflight.length := by
  cases l with
  | take =>
    simp only [Archive.step] at hs
    split at hs
    · rename_i hc
      cases hs
      have := hI.nEq
      simp only [List.length_append, List.length_singleton]
      omega
    · cases hs
  | finish i =>
    simp only [Archive.step] at hs
    split at hs
    · rename_i hc
      cases hs
      have hi : i ∈ s.inflight := by simpa using hc
      have : (s.inflight.filter (· != i)).length < s.inflight.length := by
        rw [List.length_filter_lt_length_iff_exists]
        exact ⟨i, hi, by simp⟩
      simp only
      omega
    · cases hs

/-! ### filesystem reasoning for the sequential round trip -/

theorem mem_of_mem_dropLast {α} {l : List α} {x : α} (h : x ∈ l.dropLast) : x ∈ l := by
  rw [List.dropLast_eq_take] at h; exact List.mem_of_mem_take h

def IsDir (t : Tree) (p : Path) : Prop := t.get p = some .dir

theorem isDir_nil (t : Tree) : IsDir t [] := by simp [IsDir, Tree.get]

/-- Tree invariant: no entry for the root, keys determine nodes (distinct keys), parents are directories. -/
structure TInv (t : Tree) : Prop where
  ne : ∀ e ∈ t.entries, e.1 ≠ []
  get : ∀ e ∈ t.entries, t.get e.1 = some e.2
  parent : ∀ e ∈ t.entries, IsDir t e.1.dropLast

theorem get_mem {t : Tree} {q : Path} {x : Node} (hq : q ≠ []) (h : t.get q = some x) :
    (q, x) ∈ t.entries := by
  simp only [Tree.get, if_neg hq, Option.map_eq_some_iff] at h
  obtain ⟨e, he, rfl⟩ := h
  have h1 := List.mem_of_find?_eq_some he
  have h2 := List.find?_some he
  obtain ⟨a, b⟩ := e
  have : a = q := by simpa using h2
  subst this
  exact h1

theorem get_none_of_fresh {t : Tree} {p : Path} (hp : p ≠ []) (hf : ∀ e ∈ t.entries, e.1 ≠ p) :
    t.get p = none := by
  simp only [Tree.get, if_neg hp, Option.map_eq_none_iff, List.find?_eq_none]
  intro e he
  simpa using hf e he

theorem prefix_dirs {t : Tree} (hI : TInv t) :
    ∀ (m : Nat) (q : Path), q.length = m → IsDir t q → ∀ j, IsDir t (q.take j) := by
  intro m
  induction m with
  | zero =>
    intro q hl _ j
    have : q = [] := List.eq_nil_of_length_eq_zero hl
    subst this
    simpa using isDir_nil t
  | succ m ih =>
    intro q hl hd j
    by_cases hj : q.length ≤ j
    · rw [List.take_of_length_le hj]; exact hd
    · have hne : q ≠ [] := by intro h; subst h; simp at hl
      have hm := get_mem hne hd
      have hp := hI.parent _ hm
      have := ih q.dropLast (by simp [hl]) hp j
      rwa [List.dropLast_eq_take, List.take_take, Nat.min_eq_left (by omega)] at this

theorem isDir_take {t : Tree} (hI : TInv t) {q : Path} (hd : IsDir t q) (j : Nat) : IsDir t (q.take j) :=
  prefix_dirs hI _ q rfl hd j

theorem isDir_dropLast {t : Tree} (hI : TInv t) {q : Path} (hd : IsDir t q) : IsDir t q.dropLast := by
  rw [List.dropLast_eq_take]; exact isDir_take hI hd _

theorem resolve_ok (t : Tree) : ∀ (rest done : Path) (fuel : Nat), rest.length < fuel →
    ".." ∉ rest.dropLast → (∀ j, 1 ≤ j → j < rest.length → IsDir t (done ++ rest.take j)) →
    resolve t fuel done rest = .ok (done ++ rest) := by
  intro rest
  induction rest with
  | nil =>
    intro done fuel hf _ _
    cases fuel with
    | zero => omega
    | succ f => simp [resolve]
  | cons c r ih =>
    intro done fuel hf hdd hdir
    cases fuel with
    | zero => omega
    | succ f =>
      cases r with
      | nil => simp [resolve]
      | cons c2 r2 =>
        have hc : c ≠ ".." := by
          intro h; apply hdd; simp [h]
        have h1 : t.get (done ++ [c]) = some .dir := by
          have := hdir 1 (by omega) (by simp)
          simpa [IsDir] using this
        simp only [resolve, if_neg hc, h1]
        rw [ih (done ++ [c]) f (by simpa using hf)]
        · simp
        · intro h; apply hdd
          have : (c :: c2 :: r2).dropLast = c :: (c2 :: r2).dropLast := rfl
          rw [this]; exact List.mem_cons_of_mem _ h
        · intro j hj1 hj2
          have := hdir (j + 1) (by omega) (by simp at hj2 ⊢; omega)
          simpa using this


theorem canon_ok {t : Tree} (hI : TInv t) {q : Path} (hd : IsDir t q.dropLast)
    (hdd : ".." ∉ q.dropLast) : canon t q = .ok q := by
  unfold canon
  have := resolve_ok t q [] (4 * (q.length + 8)) (by omega) hdd (by
    intro j _ h2
    have := isDir_take hI hd j
    rw [List.dropLast_eq_take, List.take_take, Nat.min_eq_left (by omega)] at this
    simpa using this)
  simpa using this

theorem statFollow_dir {t : Tree} (hI : TInv t) {q : Path} (hd : IsDir t q)
    (hdd : ".." ∉ q.dropLast) : statFollow t 8 q = .ok (q, .dir) := by
  have hc := canon_ok hI (isDir_dropLast hI hd) hdd
  have hd' : t.get q = some .dir := hd
  simp only [statFollow, hc, bind, Except.bind, hd']

theorem mkdirAll_dirs (t : Tree) (b : Path) : ∀ (a done : Path) (fuel : Nat), a.length < fuel →
    (∀ j, j < a.length → statFollow t 8 (done ++ a.take (j + 1)) = .ok (done ++ a.take (j + 1), .dir)) →
    mkdirAll t fuel done (a ++ b) = mkdirAll t (fuel - a.length) (done ++ a) b := by
  intro a
  induction a with
  | nil => intro done fuel _ _; simp
  | cons c a ih =>
    intro done fuel hf h
    cases fuel with
    | zero => omega
    | succ f =>
      have h0 := h 0 (by simp)
      simp only [List.take_succ_cons, List.take_zero] at h0
      simp only [List.cons_append, mkdirAll, h0]
      rw [ih (done ++ [c]) f (by simpa using hf)]
      · simp
      · intro j hj
        have := h (j + 1) (by simpa using hj)
        simpa using this


theorem set_fresh {t : Tree} {p : Path} (n : Node) (hf : ∀ e ∈ t.entries, e.1 ≠ p) :
    t.set p n = { entries := t.entries ++ [(p, n)] } := by
  have : t.entries.filter (fun e => e.1 != p) = t.entries := by
    rw [List.filter_eq_self]
    intro e he
    simpa using hf e he
  simp only [Tree.set, Tree.erase, this]

theorem eraseTree_fresh {t : Tree} (hI : TInv t) {p : Path} (hp : p ≠ [])
    (hf : ∀ e ∈ t.entries, e.1 ≠ p) : t.eraseTree p = t := by
  have : t.entries.filter (fun e => e.1 != p && !isPrefix p e.1) = t.entries := by
    rw [List.filter_eq_self]
    intro e he
    have h1 := hf e he
    have h2 : isPrefix p e.1 = false := by
      cases hpre : isPrefix p e.1 with
      | false => rfl
      | true =>
        exfalso
        simp only [isPrefix, Bool.and_eq_true, decide_eq_true_eq, beq_iff_eq] at hpre
        have hd : IsDir t e.1.dropLast := hI.parent e he
        have := isDir_take hI hd p.length
        rw [List.dropLast_eq_take, List.take_take, Nat.min_eq_left (by omega), hpre.2] at this
        have hn := get_none_of_fresh hp hf
        rw [IsDir, hn] at this
        cases this
    simp [h1, h2]
  cases t
  simp only [Tree.eraseTree] at this ⊢
  rw [this]

theorem removeAll_fresh {t : Tree} (hI : TInv t) {p : Path} (hp : p ≠ [])
    (hf : ∀ e ∈ t.entries, e.1 ≠ p) (hd : IsDir t p.dropLast) (hdd : ".." ∉ p.dropLast) :
    removeAll t p = .ok t := by
  simp only [removeAll, canon_ok hI hd hdd, eraseTree_fresh hI hp hf]

theorem mkdirs_noop {t : Tree} (hI : TInv t) {d : Path} (hd : IsDir t d) (hdd : ".." ∉ d) :
    mkdirs t d = .ok t := by
  unfold mkdirs
  have := mkdirAll_dirs t [] d [] (4 * (d.length + 8)) (by omega) (by
    intro j hj
    simp only [List.nil_append]
    apply statFollow_dir hI (isDir_take hI hd _)
    intro h
    exact hdd (List.mem_of_mem_take (mem_of_mem_dropLast h)))
  simp only [List.append_nil, List.nil_append] at this
  rw [this]
  obtain ⟨f, hf⟩ : ∃ f, 4 * (d.length + 8) - d.length = f + 1 := ⟨4 * (d.length + 8) - d.length - 1, by omega⟩
  rw [hf]
  simp [mkdirAll]


/-- Hypotheses under which a path `p` is "new and placeable" in `t`. -/
structure Fresh (t : Tree) (p : Path) : Prop where
  ne : p ≠ []
  fresh : ∀ e ∈ t.entries, e.1 ≠ p
  parent : IsDir t p.dropLast
  nodd : ".." ∉ p.dropLast

theorem Fresh.canon {t : Tree} (hI : TInv t) {p : Path} (h : Fresh t p) : canon t p = .ok p :=
  canon_ok hI h.parent h.nodd

theorem Fresh.get_none {t : Tree} {p : Path} (h : Fresh t p) : t.get p = none :=
  get_none_of_fresh h.ne h.fresh

theorem mkdirs_new {t : Tree} (hI : TInv t) {p : Path} (h : Fresh t p) :
    mkdirs t p = .ok (t.set p .dir) := by
  unfold mkdirs
  have hp : p = p.dropLast ++ [p.getLast h.ne] := (List.dropLast_concat_getLast h.ne).symm
  have hlen : p.length = p.dropLast.length + 1 := by
    have := congrArg List.length hp; simpa using this
  generalize hF : 4 * (p.length + 8) = F
  have := mkdirAll_dirs t [p.getLast h.ne] p.dropLast [] F (by omega) (by
    intro j hj
    simp only [List.nil_append]
    apply statFollow_dir hI (isDir_take hI h.parent _)
    intro hm
    exact h.nodd (List.mem_of_mem_take (mem_of_mem_dropLast hm)))
  rw [← hp, List.nil_append] at this
  rw [this]
  obtain ⟨f, hf⟩ : ∃ f, F - p.dropLast.length = f + 2 := ⟨F - p.dropLast.length - 2, by omega⟩
  rw [hf]
  have hsf : statFollow t 8 p = .error .enoent := by
    simp only [statFollow, h.canon hI, bind, Except.bind, h.get_none]
  simp only [mkdirAll, ← hp, hsf, h.canon hI]

theorem doMkdir_fresh {t : Tree} (hI : TInv t) {p : Path} (h : Fresh t p) :
    doMkdir t p = .ok (t.set p .dir) := by
  have hl : lstat t p = .error .enoent := by
    simp only [lstat, h.canon hI, bind, Except.bind, h.get_none]
  simp only [doMkdir, hl, mkdirs_new hI h]

theorem doCopyFile_fresh {t : Tree} (hI : TInv t) {p : Path} (h : Fresh t p) (d : List Byte) :
    doCopyFile t p d = .ok (t.set p (.file d)) := by
  have hpar : t.get p.dropLast = some .dir := h.parent
  simp only [doCopyFile, removeAll_fresh hI h.ne h.fresh h.parent h.nodd, bind, Except.bind,
    mkdirs_noop hI h.parent h.nodd, writeFile, h.canon hI, hpar, h.get_none]

theorem doSymlink_fresh {t : Tree} (hI : TInv t) {p : Path} (h : Fresh t p) (d : String) :
    doSymlink t p d = .ok (t.set p (.symlink d)) := by
  have hpar : t.get p.dropLast = some .dir := h.parent
  simp only [doSymlink, removeAll_fresh hI h.ne h.fresh h.parent h.nodd, bind, Except.bind,
    mkdirs_noop hI h.parent h.nodd, symlink, h.canon hI, hpar, h.get_none]

def entryOf : Path × Node → Entry
  | (p, .dir) => .dir p
  | (p, .file d) => .file p d
  | (p, .symlink d) => .symlink p d

theorem archiveOf_cons (e : Path × Node) (l : List (Path × Node)) :
    archiveOf (e :: l) = entryOf e :: archiveOf l := by
  obtain ⟨p, n⟩ := e
  cases n <;> simp [archiveOf, entryOf]

theorem extractEntry_fresh {t : Tree} (hI : TInv t) {p : Path} (h : Fresh t p) (n : Node) :
    extractEntry t (entryOf (p, n)) = .ok { entries := t.entries ++ [(p, n)] } := by
  rw [← set_fresh n h.fresh]
  cases n with
  | dir => exact doMkdir_fresh hI h
  | file d => exact doCopyFile_fresh hI h d
  | symlink d => exact doSymlink_fresh hI h d


theorem get_append_old {t : Tree} {q : Path} {x : Node} (e : Path × Node) (h : t.get q = some x) :
    ({ entries := t.entries ++ [e] } : Tree).get q = some x := by
  by_cases hq : q = []
  · simpa [Tree.get, hq] using h
  · simp only [Tree.get, if_neg hq, Option.map_eq_some_iff] at h ⊢
    obtain ⟨a, ha, rfl⟩ := h
    exact ⟨a, by simp [List.find?_append, ha], rfl⟩

theorem get_append_new {t : Tree} {p : Path} (n : Node) (hp : p ≠ [])
    (hf : ∀ e ∈ t.entries, e.1 ≠ p) : ({ entries := t.entries ++ [(p, n)] } : Tree).get p = some n := by
  have : t.entries.find? (fun e => e.1 == p) = none := by
    rw [List.find?_eq_none]
    intro e he
    simpa using hf e he
  simp [Tree.get, hp, List.find?_append, this]

theorem TInv.append {t : Tree} (hI : TInv t) {p : Path} (h : Fresh t p) (n : Node) :
    TInv { entries := t.entries ++ [(p, n)] } := by
  constructor
  · intro e he
    simp only [List.mem_append, List.mem_singleton] at he
    rcases he with he | rfl
    · exact hI.ne e he
    · exact h.ne
  · intro e he
    simp only [List.mem_append, List.mem_singleton] at he
    rcases he with he | rfl
    · exact get_append_old _ (hI.get e he)
    · exact get_append_new n h.ne h.fresh
  · intro e he
    simp only [List.mem_append, List.mem_singleton] at he
    rcases he with he | rfl
    · exact get_append_old _ (hI.parent e he)
    · exact get_append_old _ h.parent

theorem TInv.empty : TInv {} := by
  constructor <;> intro e he <;> cases he

/-- Well-formed listings (same recursion as `Wharf.C19.WFListing`, with the `".."` side condition the
    round trip needs: no non-final component of a path is `".."`). -/
def WFL : List (Path × Node) → List (Path × Node) → Prop
  | _, [] => True
  | seen, (p, n) :: rest =>
    (p ≠ [] ∧ (∀ e ∈ seen, e.1 ≠ p) ∧ (p.dropLast = [] ∨ (p.dropLast, Node.dir) ∈ seen) ∧
      ".." ∉ p.dropLast) ∧ WFL (seen ++ [(p, n)]) rest

theorem extractAll_wfl : ∀ (rest seen : List (Path × Node)), TInv { entries := seen } → WFL seen rest →
    extractAll { entries := seen } (archiveOf rest) = .ok { entries := seen ++ rest } := by
  intro rest
  induction rest with
  | nil => intro seen _ _; simp [archiveOf, extractAll]
  | cons e rest ih =>
    intro seen hI hw
    obtain ⟨p, n⟩ := e
    obtain ⟨⟨h1, h2, h3, h4⟩, hw'⟩ := hw
    have hF : Fresh { entries := seen } p := by
      refine ⟨h1, h2, ?_, h4⟩
      rcases h3 with h3 | h3
      · rw [h3]; exact isDir_nil _
      · exact hI.get _ h3
    rw [archiveOf_cons]
    simp only [extractAll, extractEntry_fresh hI hF n, bind, Except.bind]
    rw [ih _ (hI.append hF n) hw']
    simp

end Wharf.Archive
