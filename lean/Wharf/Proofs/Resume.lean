/-
  Helper lemmas for C03 (writer-level resume and bowl work lists).
-/
import Wharf.Model.Resume

namespace Wharf.Resume
open Wharf

theorem prepare_length (d : List Byte) (n : Nat) : (prepare d n).length = n := by
  unfold prepare
  split
  · simp only [List.length_take]; omega
  · simp only [List.length_append, List.length_replicate]; omega

theorem prepare_take (d : List Byte) (n k : Nat) (hk : k ≤ n) (hd : k ≤ d.length) :
    (prepare d n).take k = d.take k := by
  unfold prepare
  split
  · rw [List.take_take, Nat.min_eq_left hk]
  · rw [List.take_append_of_le_length hd]

theorem writeAt_eq (disk : List Byte) (off : Nat) (c : List Byte) (h : off + c.length ≤ disk.length) :
    writeAt disk off c = disk.take off ++ c ++ disk.drop (off + c.length) := by
  unfold writeAt
  have : ¬ disk.length < off := by omega
  simp only [this, if_false]

theorem writeAt_length (disk : List Byte) (off : Nat) (c : List Byte) (h : off + c.length ≤ disk.length) :
    (writeAt disk off c).length = disk.length := by
  rw [writeAt_eq _ _ _ h]
  simp only [List.length_append, List.length_take, List.length_drop]
  omega

theorem writeAt_take (disk : List Byte) (off : Nat) (c : List Byte) (h : off + c.length ≤ disk.length) :
    (writeAt disk off c).take (off + c.length) = disk.take off ++ c := by
  rw [writeAt_eq _ _ _ h]
  have hl : (disk.take off ++ c).length = off + c.length := by
    simp only [List.length_append, List.length_take]; omega
  rw [List.take_append_of_le_length (by omega), ← hl, List.take_length]

/-- Core lemma (partial form): writing chunks that stay inside the file keeps the length, advances the
    offset by the total chunk length and leaves `old prefix ++ chunks` below the final offset. -/
theorem writeChunks_spec (cs : List (List Byte)) : ∀ (disk : List Byte) (off : Nat),
    off + cs.flatten.length ≤ disk.length →
    (writeChunks cs disk off).1.length = disk.length ∧
    (writeChunks cs disk off).2 = off + cs.flatten.length ∧
    (writeChunks cs disk off).1.take (off + cs.flatten.length) = disk.take off ++ cs.flatten := by
  induction cs with
  | nil =>
    intro disk off _
    simp only [writeChunks, List.flatten_nil, List.length_nil, Nat.add_zero, List.append_nil, and_self]
  | cons c cs ih =>
    intro disk off h
    simp only [List.flatten_cons, List.length_append] at h ⊢
    have hc : off + c.length ≤ disk.length := by omega
    have hlen := writeAt_length disk off c hc
    have := ih (writeAt disk off c) (off + c.length) (by rw [hlen]; omega)
    obtain ⟨h1, h2, h3⟩ := this
    simp only [writeChunks]
    refine ⟨by rw [h1, hlen], by rw [h2]; omega, ?_⟩
    rw [← Nat.add_assoc, h3, writeAt_take _ _ _ hc, List.append_assoc]

/-- Core lemma (full form): when the chunks reach the end of the file, the file is `prefix ++ chunks`. -/
theorem writeChunks_full (cs : List (List Byte)) (disk : List Byte) (off : Nat)
    (h : off + cs.flatten.length = disk.length) :
    (writeChunks cs disk off).1 = disk.take off ++ cs.flatten := by
  obtain ⟨h1, _, h3⟩ := writeChunks_spec cs disk off (by omega)
  rw [← h3, h, ← h1, List.take_length]

theorem flatten_take_drop (cs : List (List Byte)) (j : Nat) :
    cs.flatten = (cs.take j).flatten ++ (cs.drop j).flatten := by
  rw [← List.flatten_append, List.take_append_drop]

theorem take_eq_length_le {α} (l p : List α) (k : Nat) (h : l.take k = p) (hk : p.length = k) :
    k ≤ l.length := by
  have := congrArg List.length h
  simp only [List.length_take] at this
  omega

end Wharf.Resume

namespace Wharf.Commit

theorem map_fst_recordMap (l : List (Nat × Nat)) (src tgt : Nat) :
    (l.map fun (s, t) => if s == src then (src, tgt) else (s, t)).map (·.1) = l.map (·.1) := by
  rw [List.map_map]
  apply List.map_congr_left
  intro ⟨s, t⟩ _
  simp only [Function.comp]
  by_cases hs : s = src
  · simp [hs]
  · simp [hs]

theorem recordMap_idem (l : List (Nat × Nat)) (src tgt : Nat) :
    ((l.map fun (s, t) => if s == src then (src, tgt) else (s, t)).map
      fun (s, t) => if s == src then (src, tgt) else (s, t)) =
    l.map fun (s, t) => if s == src then (src, tgt) else (s, t) := by
  rw [List.map_map]
  apply List.map_congr_left
  intro ⟨s, t⟩ _
  simp only [Function.comp]
  by_cases hs : s = src
  · simp [hs]
  · simp [hs]

theorem recordMap_of_not_any (l : List (Nat × Nat)) (src tgt : Nat)
    (h : l.any (·.1 == src) = false) :
    (l.map fun (s, t) => if s == src then (src, tgt) else (s, t)) = l := by
  rw [List.any_eq_false] at h
  conv => rhs; rw [← List.map_id l]
  apply List.map_congr_left
  intro ⟨s, t⟩ hm
  have := h _ hm
  simp only [beq_iff_eq] at this
  simp [this]

end Wharf.Commit
