/-
  Lemmas for the concurrent validate-and-heal transition system (Model/HealTS.lean): the per-entry verdicts
  fold to the whole-pass functions, the invariant of every interleaving, what it gives at terminal states,
  absence of healer failures under parents-first listing, the sequential schedule as one run, progress and
  termination.  Reuses the heal-step lemmas of Proofs/HealRestore.lean.

  The invariant `Inv` holds for EVERY damaged tree (finding F15 repaired: `healBelow`), started from
  "directories are listed parents-first" OR "no signed directory is a symlink" (`Inv.mode`).  Its shape: an entry
  the validator has passed is in place, or has its wound in the channel (a file: or is queued), or is `Linked` — a
  signed directory above it is a symlink, through which the validator saw whatever it saw.  A directory wound is
  handled only when its directory is not `Linked` (`Inv.head_plain`: FIFO order puts the link's own wound ahead);
  then `healDir` either creates missing directories (`DirEffect.grow`) or replaces what stands at the path and
  heals everything below it (`DirEffect.replaced`, from `Heal.healDir_replaced`), which is what discharges the
  `Linked` disjunct.  A file is queued only when its parent directory is in place (`Inv.queueReady`).
-/
import Wharf.Model.HealTS
import Wharf.Proofs.HealRestore

namespace Wharf.HealTS
open Wharf Wharf.FS Wharf.Validate Wharf.TreeValidate Wharf.Heal Wharf.Archive

/-! ### folding the per-entry verdicts over a fixed tree -/

theorem bind_ok_id {α} (x : Outcome α) : (x.bind fun a => .ok a) = x := by
  cases x <;> rfl

theorem dirWounds_eq_fold (t : Tree) : ∀ (ps : List Path) (i : Nat),
    dirWounds t i ps = passFold (dirEntry t) i ps := by
  intro ps
  induction ps with
  | nil => intro i; simp [dirWounds, passFold]
  | cons p rest ih =>
    intro i
    simp only [dirWounds, passFold, dirEntry, ih]
    cases lstat t p with
    | error e =>
      by_cases hn : notExist e = true
      · simp only [hn, if_true, Outcome.bind, List.cons_append, List.nil_append]
      · simp only [hn, Outcome.bind]; rfl
    | ok n =>
      cases n with
      | dir => simp only [Outcome.bind, List.nil_append]; exact (bind_ok_id _).symm
      | file d => simp only [Outcome.bind, List.cons_append, List.nil_append]
      | symlink d => simp only [Outcome.bind, List.cons_append, List.nil_append]

theorem symlinkWounds_eq_fold (t : Tree) : ∀ (sl : List (Path × String)) (i : Nat),
    symlinkWounds t i sl = passFold (fun i e => symlinkEntry t i e.1 e.2) i sl := by
  intro sl
  induction sl with
  | nil => intro i; simp [symlinkWounds, passFold]
  | cons e rest ih =>
    intro i
    obtain ⟨p, dest⟩ := e
    simp only [symlinkWounds, passFold, symlinkEntry, ih]
    cases lstat t p with
    | error e =>
      by_cases hn : notExist e = true
      · simp only [hn, if_true, Outcome.bind, List.cons_append, List.nil_append]
      · simp only [hn, Outcome.bind]; rfl
    | ok n =>
      cases n with
      | dir => simp only [Outcome.bind, List.cons_append, List.nil_append]
      | file d => simp only [Outcome.bind, List.cons_append, List.nil_append]
      | symlink d =>
        by_cases hd : d = dest
        · simp only [hd, if_true, Outcome.bind, List.nil_append]; exact (bind_ok_id _).symm
        · simp only [hd, if_false, Outcome.bind, List.cons_append, List.nil_append]

theorem filePassWounds_eq_fold (bs maxSize : Nat) (t : Tree) : ∀ (fs : List (Path × List Byte)) (i : Nat),
    filePassWounds bs maxSize t i fs =
      match fs with
      | [] => []
      | e :: rest => fileEntry bs maxSize t i e.1 e.2 ++ filePassWounds bs maxSize t (i + 1) rest := by
  intro fs i
  cases fs with
  | nil => rfl
  | cons e rest => obtain ⟨p, S⟩ := e; rfl

/-- The three passes of a complete validation on a FIXED tree are the folds of the per-entry verdicts. -/
theorem validate_eq_fold (bs maxSize : Nat) (s : Signed) (t : Tree) :
    validate bs maxSize s t =
      (passFold (dirEntry t) 0 s.dirs).bind fun dw =>
      (passFold (fun i e => symlinkEntry t i e.1 e.2) 0 s.symlinks).bind fun sw =>
      .ok (dw ++ sw ++ filePassWounds bs maxSize t 0 s.files) := by
  simp only [validate, dirWounds_eq_fold, symlinkWounds_eq_fold]

/-! ### `lstat` on a path without symlinks on the way: the only errors are "not there" -/

theorem resolve_plain_err (t : Tree) : ∀ (rest done : Path) (fuel : Nat) (e : Err),
    rest.length < fuel → ".." ∉ rest.dropLast → PlainFrom t done rest →
    resolve t fuel done rest = .error e → e = .enoent ∨ e = .enotdir := by
  intro rest
  induction rest with
  | nil =>
    intro done fuel e hf _ _ h
    cases fuel with
    | zero => omega
    | succ f => simp [resolve] at h
  | cons c r ih =>
    intro done fuel e hf hdd hpl h
    cases fuel with
    | zero => omega
    | succ f =>
      cases r with
      | nil => simp [resolve] at h
      | cons c2 r2 =>
        have hc : c ≠ ".." := by
          intro h; apply hdd; simp [h]
        simp only [resolve, if_neg hc] at h
        cases hg : t.get (done ++ [c]) with
        | none => simp only [hg, Except.error.injEq] at h; exact .inl h.symm
        | some x =>
          cases x with
          | file d => simp only [hg, Except.error.injEq] at h; exact .inr h.symm
          | symlink d =>
            exfalso
            exact hpl 1 (by omega) (by simp) d (by simpa using hg)
          | dir =>
            simp only [hg] at h
            exact ih (done ++ [c]) f e (by simpa using hf) (by
                intro h; apply hdd
                have : (c :: c2 :: r2).dropLast = c :: (c2 :: r2).dropLast := rfl
                rw [this]; exact List.mem_cons_of_mem _ h)
              (by
                intro j hj1 hj2 d
                have := hpl (j + 1) (by omega) (by simp at hj2 ⊢; omega) d
                simpa using this) h

theorem lstat_plain_err {t : Tree} {p : Path} {e : Err} (hp : Plain t p) (h : lstat t p = .error e) :
    notExist e = true := by
  unfold lstat at h
  cases hc : canon t p with
  | error e' =>
    simp only [hc, bind, Except.bind, Except.error.injEq] at h
    subst h
    unfold canon at hc
    rcases resolve_plain_err t p [] _ e' (by omega) (fun h => hp.1 (mem_of_mem_dropLast h))
      (by intro j h1 h2 d; simpa using hp.2 j h1 h2 d) hc with rfl | rfl <;> rfl
  | ok q =>
    simp only [hc, bind, Except.bind] at h
    cases hg : t.get q with
    | none => simp only [hg, Except.error.injEq] at h; subst h; rfl
    | some x => simp [hg] at h

/-! ### under the invariant a verdict depends on `tree.get p` only -/

/-- what the validator's `lstat` amounts to on a symlink-free path: the node stored at the path, if any
    (the two "not there" errors ENOENT / ENOTDIR are not told apart by any verdict). -/
theorem lstat_view {t : Tree} (hI : TInv t) {p : Path} (hp : Plain t p) :
    (∀ n, lstat t p = .ok n ↔ t.get p = some n) ∧
    (t.get p = none → ∃ e, lstat t p = .error e ∧ notExist e = true) := by
  refine ⟨fun n => ⟨fun h => (lstat_plain hp h).1, fun h => lstat_of_get hI hp.1 h⟩, ?_⟩
  intro hg
  cases hl : lstat t p with
  | error e => exact ⟨e, rfl, lstat_plain_err hp hl⟩
  | ok n => rw [(lstat_plain hp hl).1] at hg; cases hg

theorem dirEntry_of_get {t : Tree} (hI : TInv t) {p : Path} (hp : Plain t p) (i : Nat) :
    dirEntry t i p = match t.get p with
      | some .dir => .ok []
      | _ => .ok [⟨.dir, i, 0, 0⟩] := by
  obtain ⟨h1, h2⟩ := lstat_view hI hp
  unfold dirEntry
  cases hg : t.get p with
  | none =>
    obtain ⟨e, he, hn⟩ := h2 hg
    simp only [he, hn, if_true]
  | some n =>
    rw [(h1 n).mpr hg]
    cases n <;> rfl

theorem symlinkEntry_of_get {t : Tree} (hI : TInv t) {p : Path} (hp : Plain t p) (i : Nat) (dest : String) :
    symlinkEntry t i p dest = match t.get p with
      | some (.symlink d) => if d = dest then .ok [] else .ok [⟨.symlink, i, 0, 0⟩]
      | _ => .ok [⟨.symlink, i, 0, 0⟩] := by
  obtain ⟨h1, h2⟩ := lstat_view hI hp
  unfold symlinkEntry
  cases hg : t.get p with
  | none =>
    obtain ⟨e, he, hn⟩ := h2 hg
    simp only [he, hn, if_true]
  | some n =>
    rw [(h1 n).mpr hg]
    cases n <;> rfl

theorem onDisk_of_get {t : Tree} (hI : TInv t) {p : Path} (hp : Plain t p) :
    onDisk t p = match t.get p with
      | some .dir => .dir
      | some (.symlink _) => .symlink
      | some (.file d) => .file d
      | none => .missing := by
  obtain ⟨h1, h2⟩ := lstat_view hI hp
  unfold onDisk
  cases hg : t.get p with
  | none =>
    obtain ⟨e, he, _⟩ := h2 hg
    simp only [he]
  | some n =>
    rw [(h1 n).mpr hg]
    cases n <;> rfl

/-- Two trees that store the same node at `p` get the same verdicts for an entry at `p`. -/
theorem dirEntry_eq_of_get {t t' : Tree} (hI : TInv t) (hI' : TInv t') {p : Path} (hp : Plain t p)
    (hp' : Plain t' p) (h : t'.get p = t.get p) (i : Nat) : dirEntry t' i p = dirEntry t i p := by
  rw [dirEntry_of_get hI hp, dirEntry_of_get hI' hp', h]

theorem symlinkEntry_eq_of_get {t t' : Tree} (hI : TInv t) (hI' : TInv t') {p : Path} (hp : Plain t p)
    (hp' : Plain t' p) (h : t'.get p = t.get p) (i : Nat) (dest : String) :
    symlinkEntry t' i p dest = symlinkEntry t i p dest := by
  rw [symlinkEntry_of_get hI hp, symlinkEntry_of_get hI' hp', h]

theorem fileEntry_eq_of_get (bs maxSize : Nat) {t t' : Tree} (hI : TInv t) (hI' : TInv t') {p : Path}
    (hp : Plain t p) (hp' : Plain t' p) (h : t'.get p = t.get p) (i : Nat) (S : List Byte) :
    fileEntry bs maxSize t' i p S = fileEntry bs maxSize t i p S := by
  unfold fileEntry
  rw [onDisk_of_get hI hp, onDisk_of_get hI' hp', h]

/-! ### what every heal step keeps -/

/-- One heal step on a signed entry, seen from the signed build: the structural invariant survives, no signed
    directory becomes a symlink, a signed directory that is a directory stays one, a signed symlink / file
    that is as signed stays so, and nothing unrelated to the signed paths is touched. -/
structure Keeps (s : Signed) (t t' : Tree) : Prop where
  tinv : TInv t'
  symdirs : ∀ d ∈ s.dirs, ∀ x, t'.get d = some (.symlink x) → t.get d = some (.symlink x)
  dirs : ∀ d ∈ s.dirs, IsDir t d → IsDir t' d
  leaves : ∀ e ∈ leaves s, t.get e.1 = some e.2 → t'.get e.1 = some e.2
  unrelated : ∀ q, (∀ p ∈ allPaths s, p ≠ q ∧ isPrefix p q = false ∧ isPrefix q p = false) → t'.get q = t.get q

theorem Keeps.refl {s : Signed} {t : Tree} (hI : TInv t) : Keeps s t t :=
  ⟨hI, fun _ _ _ h => h, fun _ _ h => h, fun _ _ h => h, fun _ _ => rfl⟩

theorem Keeps.trans {s : Signed} {t₁ t₂ t₃ : Tree} (a : Keeps s t₁ t₂) (b : Keeps s t₂ t₃) : Keeps s t₁ t₃ :=
  ⟨b.tinv, fun d hd x h => a.symdirs d hd x (b.symdirs d hd x h), fun d hd h => b.dirs d hd (a.dirs d hd h),
    fun e he h => b.leaves e he (a.leaves e he h), fun q hq => by rw [b.unrelated q hq, a.unrelated q hq]⟩

/-- "no signed directory is a symlink" survives every heal step -/
theorem Keeps.nosym {s : Signed} {t t' : Tree} (a : Keeps s t t') (hn : NoSymDirs s t) : NoSymDirs s t' :=
  fun d hd x hx => hn d hd x (a.symdirs d hd x hx)

/-- the parent of a signed path stays a directory -/
theorem Keeps.parent {s : Signed} (hs : WF s) {t t' : Tree} (a : Keeps s t t') {p : Path}
    (hp : p ∈ allPaths s) (h : IsDir t p.dropLast) : IsDir t' p.dropLast := by
  by_cases hl : p.length ≤ 1
  · have : p.dropLast = [] := by
      apply List.eq_nil_of_length_eq_zero
      simp; omega
    rw [this]; exact isDir_nil _
  · rw [List.dropLast_eq_take] at h ⊢
    exact a.dirs _ (hs.parents p hp _ (by omega) (by omega)) h

/-- a signed path is not a proper prefix of … and not equal to a leaf unless it is that leaf -/
theorem not_prefix_of_leaf {s : Signed} (hs : WF s) {e : Path × Node} (he : e ∈ leaves s) {d : Path}
    (hd : d ∈ s.dirs) : ¬ e.1 <+: d := by
  intro hpre
  rcases prefix_cases hpre with h | h
  · exact hs.leaf_not_dir he (h ▸ hd)
  · rw [hs.leaf_not_below he (mem_allPaths_dir hd)] at h; cases h

/-- some signed directory strictly above `p` is a symlink: what the validator sees at `p` is seen THROUGH that
    link (and is healed again by `healBelow` once the link has been replaced) -/
def Linked (t : Tree) (p : Path) : Prop :=
  ∃ j, 1 ≤ j ∧ j < p.length ∧ ∃ x, t.get (p.take j) = some (.symlink x)

theorem plain_of_not_linked {t : Tree} {p : Path} (hdd : ".." ∉ p) (h : ¬ Linked t p) : Plain t p :=
  ⟨hdd, fun j hj1 hj2 x hx => h ⟨j, hj1, hj2, x, hx⟩⟩

/-- the link a linked path passes through is a signed directory that is itself not linked -/
theorem Linked.top {s : Signed} (hs : WF s) {t : Tree} (hI : TInv t) {p : Path} (hp : p ∈ allPaths s)
    (h : Linked t p) : ∃ a ∈ s.dirs, isPrefix a p = true ∧ (∃ x, t.get a = some (.symlink x)) ∧ ¬ Linked t a := by
  obtain ⟨j, hj1, hj2, x, hx⟩ := h
  refine ⟨p.take j, hs.parents p hp j (by omega) hj2, ?_, ⟨x, hx⟩, ?_⟩
  · rw [isPrefix_iff]
    simp only [List.length_take, Nat.min_eq_left (Nat.le_of_lt hj2)]
    exact ⟨hj2, trivial⟩
  · rintro ⟨i, hi1, hi2, y, hy⟩
    simp only [List.length_take, Nat.min_eq_left (Nat.le_of_lt hj2)] at hi2
    rw [List.take_take, Nat.min_eq_left (by omega)] at hy
    have hd := isDir_of_below hI hx (p := p.take i) (by
      rw [isPrefix_iff]
      simp only [List.length_take]
      refine ⟨by omega, ?_⟩
      rw [List.take_take]
      congr 1
      omega)
    rw [IsDir, hy] at hd
    cases hd

/-- The effect of a directory wound for the signed directory `d` on a tree in which no symlink is on the way to
    `d`: either only missing prefixes of `d` are created (or nothing happens), or something else stood at `d`
    and `healBelow(d)` has run. -/
inductive DirEffect (s : Signed) (t : Tree) (q : List Nat) (d : Path) (t' : Tree) (q' : List Nat) : Prop where
  | grow : TInv t' → (∀ x, x <+: d → IsDir t' x) → (∀ x y, t.get x = some y → t'.get x = some y) →
      (∀ x, ¬ x <+: d → t'.get x = t.get x) → q' = q → DirEffect s t q d t' q'
  | replaced (n : Node) : n ≠ .dir → t.get d = some n → IsDir t d.dropLast → Below s t d t' →
      (∀ d' ∈ s.dirs, isPrefix d d' = true → IsDir t' d') →
      (∀ e ∈ s.symlinks, isPrefix d e.1 = true → t'.get e.1 = some (.symlink e.2)) →
      q' = queueFilesBelow d 0 s.files q → DirEffect s t q d t' q'

theorem healDir_effect {s : Signed} (hs : WF s) {t : Tree} (hI : TInv t) {d : Path} (hd : d ∈ s.dirs)
    (hpl : Plain t d) {k : Nat} {q : List Nat} {t' : Tree} {q' : List Nat}
    (h : healDir s (k + 2) t q d = .ok (t', q')) : DirEffect s t q d t' q' := by
  rcases healDir_cases s hI hpl (k + 1) q with ⟨h1, h2⟩ | ⟨h1, _, h3⟩ | ⟨n, hn, hg, hpar⟩
  · rw [h2] at h
    simp only [Except.ok.injEq, Prod.mk.injEq] at h
    obtain ⟨rfl, rfl⟩ := h
    refine .grow hI ?_ (fun _ _ h => h) (fun _ _ => rfl) rfl
    intro x hx
    obtain ⟨j, _, rfl⟩ := prefix_iff_take.mp hx
    exact isDir_take hI h1 j
  · rw [h3] at h
    cases hm : mkdirs t d with
    | error e => simp [hm] at h
    | ok t₁ =>
      simp only [hm, Except.ok.injEq, Prod.mk.injEq] at h
      obtain ⟨rfl, rfl⟩ := h
      obtain ⟨a1, a2, a3, a4⟩ := mkdirs_spec hI h1 hm
      exact .grow a1 a2 a3 a4 rfl
  · obtain ⟨b1, b2, b3, b4⟩ := healDir_replaced hs hI hd hpar hg hn k q h
    exact .replaced n hn hg hpar b1 b2 b3 b4

/-- in the tree in which something else stands at `d`, nothing exists below `d` -/
theorem below_none {t : Tree} (hI : TInv t) {d : Path} {n : Node} (hg : t.get d = some n) (hn : n ≠ .dir)
    {x : Path} (hx : isPrefix d x = true) : t.get x = none :=
  get_below_none hI (by rw [IsDir, hg]; intro h; cases h; exact hn rfl) hx

theorem DirEffect.keeps {s : Signed} (hs : WF s) {t : Tree} (hI : TInv t) {d : Path} (hd : d ∈ s.dirs)
    {q q' : List Nat} {t' : Tree} (h : DirEffect s t q d t' q') : Keeps s t t' ∧ IsDir t' d := by
  have hunrel : ∀ x, (∀ p ∈ allPaths s, p ≠ x ∧ isPrefix p x = false ∧ isPrefix x p = false) →
      x ≠ d ∧ isPrefix d x = false ∧ ¬ x <+: d := by
    intro x hx
    obtain ⟨h1, h2, h3⟩ := hx d (mem_allPaths_dir hd)
    refine ⟨fun h => h1 h.symm, h2, ?_⟩
    intro hpre
    rcases prefix_cases hpre with h' | h'
    · exact h1 h'.symm
    · rw [h3] at h'; cases h'
  cases h with
  | grow a1 a2 a3 a4 _ =>
    refine ⟨⟨a1, ?_, fun d' _ hd' => a3 d' _ hd', fun e _ hg => a3 e.1 e.2 hg,
      fun x hx => a4 x (hunrel x hx).2.2⟩, a2 d (List.prefix_refl _)⟩
    intro d' _ x hx
    by_cases hpre : d' <+: d
    · have := a2 d' hpre
      rw [IsDir, hx] at this
      cases this
    · rw [a4 d' hpre] at hx; exact hx
  | replaced n hn hg hpar hB b2 b3 _ =>
    refine ⟨⟨hB.tinv, ?_, ?_, ?_, ?_⟩, hB.self⟩
    · intro d' hd' x hx
      by_cases h1 : d' = d
      · rw [h1, show t'.get d = some .dir from hB.self] at hx; cases hx
      · cases h2 : isPrefix d d' with
        | true =>
          have := b2 d' hd' h2
          rw [IsDir, hx] at this; cases this
        | false => rw [hB.outside d' h1 h2] at hx; exact hx
    · intro d' _ hd'
      by_cases h1 : d' = d
      · rw [h1]; exact hB.self
      · cases h2 : isPrefix d d' with
        | true => rw [IsDir, below_none hI hg hn h2] at hd'; cases hd'
        | false => rw [IsDir, hB.outside d' h1 h2]; exact hd'
    · intro e he hge
      have h1 : e.1 ≠ d := fun h' => hs.leaf_not_dir he (h' ▸ hd)
      cases h2 : isPrefix d e.1 with
      | true => rw [below_none hI hg hn h2] at hge; cases hge
      | false => rw [hB.outside e.1 h1 h2]; exact hge
    · intro x hx
      obtain ⟨h1, h2, _⟩ := hunrel x hx
      exact hB.outside x h1 h2

/-- Healing a signed symlink or file (`StepAt`): it is as signed afterwards, and see `Keeps`; moreover no other
    signed path changes. -/
theorem leafStep_keeps {s : Signed} (hs : WF s) {t t' : Tree} {e : Path × Node}
    (he : e ∈ leaves s) (h : StepAt t e.1 e.2 t') :
    Keeps s t t' ∧ t'.get e.1 = some e.2 ∧ (∀ p ∈ allPaths s, p ≠ e.1 → t'.get p = t.get p) := by
  have hsame : ∀ p ∈ allPaths s, p ≠ e.1 → t'.get p = t.get p :=
    fun p hp hne => h.other p hne (hs.leaf_not_below he hp)
  refine ⟨⟨h.tinv, ?_, ?_, ?_, ?_⟩, h.at_, hsame⟩
  · intro d hd x hx
    rw [hsame d (mem_allPaths_dir hd) (fun h' => hs.leaf_not_dir he (h' ▸ hd))] at hx
    exact hx
  · intro d hd hdir
    rw [IsDir, hsame d (mem_allPaths_dir hd) (fun h' => hs.leaf_not_dir he (h' ▸ hd))]
    exact hdir
  · intro e' he' hg
    by_cases hpe : e'.1 = e.1
    · have := hs.leaf_fun he' he hpe
      subst this
      exact h.at_
    · rw [hsame e'.1 (leaf_mem_allPaths he') hpe]; exact hg
  · intro q hq
    have hq' := hq e.1 (leaf_mem_allPaths he)
    exact h.other q (fun h' => hq'.1 h'.symm) hq'.2.1

/-- a heal step that leaves every signed directory path alone keeps every link (and creates none) -/
theorem linked_congr {s : Signed} (hs : WF s) {t t' : Tree} (hsame : ∀ d ∈ s.dirs, t'.get d = t.get d)
    {p : Path} (hp : p ∈ allPaths s) : Linked t' p ↔ Linked t p := by
  constructor
  · rintro ⟨j, hj1, hj2, x, hx⟩
    exact ⟨j, hj1, hj2, x, by rw [← hsame _ (hs.parents p hp j (by omega) hj2)]; exact hx⟩
  · rintro ⟨j, hj1, hj2, x, hx⟩
    exact ⟨j, hj1, hj2, x, by rw [hsame _ (hs.parents p hp j (by omega) hj2)]; exact hx⟩

/-- a heal step that only adds entries keeps every link -/
theorem linked_mono {t t' : Tree} (hmono : ∀ x y, t.get x = some y → t'.get x = some y) {p : Path}
    (h : Linked t p) : Linked t' p := by
  obtain ⟨j, hj1, hj2, x, hx⟩ := h
  exact ⟨j, hj1, hj2, x, hmono _ _ hx⟩

/-! ### verdict inversion -/

theorem dirEntry_ok {t : Tree} {i : Nat} {p : Path} {w : List Wound} (h : dirEntry t i p = .ok w) :
    (w = [] ∧ lstat t p = .ok .dir) ∨ w = [⟨.dir, i, 0, 0⟩] := by
  unfold dirEntry at h
  cases hl : lstat t p with
  | error e =>
    rw [hl] at h
    by_cases hn : notExist e = true
    · simp only [hn, if_true, Outcome.ok.injEq] at h; exact .inr h.symm
    · simp [hn] at h
  | ok n =>
    rw [hl] at h
    cases n with
    | dir => simp only [Outcome.ok.injEq] at h; exact .inl ⟨h.symm, rfl⟩
    | file d => simp only [Outcome.ok.injEq] at h; exact .inr h.symm
    | symlink d => simp only [Outcome.ok.injEq] at h; exact .inr h.symm

theorem symlinkEntry_ok {t : Tree} {i : Nat} {p : Path} {dest : String} {w : List Wound}
    (h : symlinkEntry t i p dest = .ok w) :
    (w = [] ∧ lstat t p = .ok (.symlink dest)) ∨ w = [⟨.symlink, i, 0, 0⟩] := by
  unfold symlinkEntry at h
  cases hl : lstat t p with
  | error e =>
    rw [hl] at h
    by_cases hn : notExist e = true
    · simp only [hn, if_true, Outcome.ok.injEq] at h; exact .inr h.symm
    · simp [hn] at h
  | ok n =>
    rw [hl] at h
    cases n with
    | dir => simp only [Outcome.ok.injEq] at h; exact .inr h.symm
    | file d => simp only [Outcome.ok.injEq] at h; exact .inr h.symm
    | symlink d =>
      by_cases hd : d = dest
      · simp only [hd, if_true, Outcome.ok.injEq] at h; exact .inl ⟨h.symm, by rw [hd]⟩
      · simp only [hd, if_false, Outcome.ok.injEq] at h; exact .inr h.symm

/-- a wound of the per-file pass: `.file` or `.closedFile` -/
def FileKind (w : Wound) : Prop := w.kind = .file ∨ w.kind = .closedFile

/-- What an admissible verdict for file entry `i` guarantees: only wounds / markers of file `i`, and a real
    file wound unless the file is on disk exactly as signed. -/
theorem admissible_spec (bs : Nat) (hbs : 0 < bs) (maxSize : Nat) (S : List Byte) (i : Nat) (od : OnDisk)
    (ws : List Wound) (h : admissible i (fileWounds bs maxSize S i od) ws = true) :
    (∀ w ∈ ws, w.index = i ∧ FileKind w) ∧ ((∃ w ∈ ws, w.kind = .file) ∨ od = .file S) := by
  unfold admissible at h
  by_cases he : (realWounds (fileWounds bs maxSize S i od)).isEmpty = true
  · rw [if_pos he] at h
    simp only [decide_eq_true_eq] at h
    subst h
    refine ⟨fun w hw => ⟨(C05.file_wellformed bs hbs maxSize S i od w hw).2,
      fileWounds_kind bs hbs maxSize S i od w hw⟩, ?_⟩
    by_cases hod : od = .file S
    · exact .inr hod
    · exfalso
      obtain ⟨w, hw, hk⟩ := C05.file_detects bs hbs maxSize S i od (fun D hD hDS => hod (hDS ▸ hD))
      have : w ∈ realWounds (fileWounds bs maxSize S i od) :=
        (mem_realWounds w _).mpr ⟨hw, by rw [hk]; intro h'; cases h'⟩
      rw [List.isEmpty_iff.mp he] at this
      cases this
  · rw [if_neg he] at h
    simp only [Bool.and_eq_true, List.all_eq_true, List.any_eq_true, decide_eq_true_eq] at h
    exact ⟨fun w hw => h.1 w hw, .inl h.2⟩

/-- The verdict on the current tree is always admissible (the validator may run undisturbed). -/
theorem admissible_exact (bs : Nat) (hbs : 0 < bs) (maxSize : Nat) (S : List Byte) (i : Nat) (od : OnDisk) :
    admissible i (fileWounds bs maxSize S i od) (fileWounds bs maxSize S i od) = true := by
  unfold admissible
  by_cases he : (realWounds (fileWounds bs maxSize S i od)).isEmpty = true
  · rw [if_pos he]; simp only [decide_true]
  · rw [if_neg he]
    simp only [Bool.and_eq_true, List.all_eq_true, List.any_eq_true, decide_eq_true_eq]
    refine ⟨fun w hw => ⟨(C05.file_wellformed bs hbs maxSize S i od w hw).2,
      fileWounds_kind bs hbs maxSize S i od w hw⟩, ?_⟩
    have hne : realWounds (fileWounds bs maxSize S i od) ≠ [] := fun h => he (by rw [h]; rfl)
    obtain ⟨w, hw⟩ := List.exists_mem_of_ne_nil _ hne
    obtain ⟨hw1, hw2⟩ := (mem_realWounds w _).mp hw
    rcases fileWounds_kind bs hbs maxSize S i od w hw1 with hk | hk
    · exact ⟨w, hw1, hk⟩
    · exact absurd hk hw2

/-! ### the invariant of every interleaving -/

/-- the order in which kinds of wounds enter the channel -/
def rank : WKind → Nat
  | .dir => 0
  | .symlink => 1
  | .file => 2
  | .closedFile => 2

/-- channel order: directory wounds (by increasing index), then symlink wounds, then file wounds / markers -/
def Before (a b : Wound) : Prop :=
  rank a.kind ≤ rank b.kind ∧ (a.kind = .dir → b.kind = .dir → a.index < b.index)

theorem fileKind_of_rank {w : Wound} (h : 2 ≤ rank w.kind) : FileKind w := by
  unfold FileKind
  cases hk : w.kind <;> simp [hk, rank] at h ⊢

theorem rank_fileKind {w : Wound} (h : FileKind w) : rank w.kind = 2 := by
  rcases h with h | h <;> rw [h] <;> rfl

theorem rank_le_two (k : WKind) : rank k ≤ 2 := by cases k <;> simp [rank]

theorem kind_cases (w : Wound) : w.kind = .dir ∨ w.kind = .symlink ∨ FileKind w := by
  unfold FileKind
  cases w.kind <;> simp

structure Inv (s : Signed) (σ : State) : Prop where
  tinv : TInv σ.tree
  /-- directories are listed parents-first, or no signed directory is a symlink (either suffices) -/
  mode : PFirst s ∨ NoSymDirs s σ.tree
  posLe : σ.dirPos ≤ s.dirs.length ∧ σ.symPos ≤ s.symlinks.length ∧ σ.filePos ≤ s.files.length
  closedDone : σ.closed = true →
    s.dirs.length ≤ σ.dirPos ∧ s.symlinks.length ≤ σ.symPos ∧ s.files.length ≤ σ.filePos
  /-- (i)+(ii) a directory entry the validator has passed is a directory, or has its wound in the channel, or
      was seen through a link that is still there (`healBelow` will recreate it) -/
  dirs : ∀ j p, s.dirs[j]? = some p → j < σ.dirPos →
    IsDir σ.tree p ∨ (∃ w ∈ σ.chan, w.kind = .dir ∧ w.index = j) ∨ Linked σ.tree p
  syms : ∀ j e, s.symlinks[j]? = some e → j < σ.symPos →
    σ.tree.get e.1 = some (.symlink e.2) ∨ (∃ w ∈ σ.chan, w.kind = .symlink ∧ w.index = j) ∨
      Linked σ.tree e.1
  /-- … a file entry: as signed, or a real wound in the channel, or queued and not yet rewritten, or seen
      through a link that is still there -/
  files : ∀ j e, s.files[j]? = some e → j < σ.filePos →
    σ.tree.get e.1 = some (.file e.2) ∨ (∃ w ∈ σ.chan, w.kind = .file ∧ w.index = j) ∨
      j ∈ σ.queue.drop σ.healed ∨ Linked σ.tree e.1
  healedOk : ∀ j e, s.files[j]? = some e → j ∈ σ.queue.take σ.healed → σ.tree.get e.1 = some (.file e.2)
  chanDir : ∀ w ∈ σ.chan, w.kind = .dir → w.index < σ.dirPos
  chanSym : ∀ w ∈ σ.chan, w.kind = .symlink → w.index < σ.symPos ∧ s.dirs.length ≤ σ.dirPos
  chanFile : ∀ w ∈ σ.chan, FileKind w →
    w.index < σ.filePos ∧ s.dirs.length ≤ σ.dirPos ∧ s.symlinks.length ≤ σ.symPos
  sorted : σ.chan.Pairwise Before
  /-- a file is queued only when its parent directory (hence every directory above it) is in place: the healing
      goroutine never writes through a link -/
  queueReady : ∀ i ∈ σ.queue, ∃ e, s.files[i]? = some e ∧ IsDir σ.tree e.1.dropLast
  healedLe : σ.healed ≤ σ.queue.length

theorem Inv.init {s : Signed} {t : Tree} (hI : TInv t) (hm : PFirst s ∨ NoSymDirs s t) : Inv s (init t) where
  tinv := hI
  mode := hm
  posLe := ⟨Nat.zero_le _, Nat.zero_le _, Nat.zero_le _⟩
  closedDone := by intro h; cases h
  dirs := by intro j p _ h; simp [HealTS.init] at h
  syms := by intro j p _ h; simp [HealTS.init] at h
  files := by intro j p _ h; simp [HealTS.init] at h
  healedOk := by intro j e _ h; simp [HealTS.init] at h
  chanDir := by intro w h; simp [HealTS.init] at h
  chanSym := by intro w h; simp [HealTS.init] at h
  chanFile := by intro w h; simp [HealTS.init] at h
  sorted := by simp [HealTS.init]
  queueReady := by intro i h; simp [HealTS.init] at h
  healedLe := by simp [HealTS.init]

/-- the status does not occur in the invariant -/
theorem Inv.setStatus {s : Signed} {σ : State} (h : Inv s σ) (x : Status) : Inv s { σ with status := x } :=
  ⟨h.tinv, h.mode, h.posLe, h.closedDone, h.dirs, h.syms, h.files, h.healedOk, h.chanDir, h.chanSym,
    h.chanFile, h.sorted, h.queueReady, h.healedLe⟩

theorem sym_leaf {s : Signed} {j : Nat} {e : Path × String} (h : s.symlinks[j]? = some e) :
    (e.1, Node.symlink e.2) ∈ leaves s := by
  simp only [leaves, List.mem_append, List.mem_map]
  exact .inl ⟨e, List.mem_of_getElem? h, rfl⟩

theorem file_leaf {s : Signed} {j : Nat} {e : Path × List Byte} (h : s.files[j]? = some e) :
    (e.1, Node.file e.2) ∈ leaves s := by
  simp only [leaves, List.mem_append, List.mem_map]
  exact .inr ⟨e, List.mem_of_getElem? h, rfl⟩

/-- Once the directory pass is over and no directory wound is left in the channel, every signed directory is
    a directory (in particular no link is left). -/
theorem Inv.allDirs {s : Signed} (hs : WF s) {σ : State} (h : Inv s σ) (hd : s.dirs.length ≤ σ.dirPos)
    (hc : ∀ w ∈ σ.chan, w.kind ≠ .dir) : AllDirs s σ.tree := by
  have key : ∀ d ∈ s.dirs, ¬ Linked σ.tree d → IsDir σ.tree d := by
    intro d hd' hnl
    obtain ⟨j, hj⟩ := List.getElem?_of_mem hd'
    have hlt : j < s.dirs.length := (List.getElem?_eq_some_iff.mp hj).1
    rcases h.dirs j d hj (by omega) with h1 | ⟨w, hw, hk, _⟩ | h1
    · exact h1
    · exact absurd hk (hc w hw)
    · exact absurd h1 hnl
  intro d hd'
  apply key d hd'
  intro hL
  obtain ⟨a, ha, _, ⟨x, hx⟩, hna⟩ := hL.top hs h.tinv (mem_allPaths_dir hd')
  have := key a ha hna
  rw [IsDir, hx] at this
  cases this

/-- with every signed directory in place nothing is seen through a link -/
theorem not_linked_of_allDirs {s : Signed} (hs : WF s) {t : Tree} (hA : AllDirs s t) {p : Path}
    (hp : p ∈ allPaths s) : ¬ Linked t p := by
  rintro ⟨j, hj1, hj2, x, hx⟩
  have := hA _ (hs.parents p hp j (by omega) hj2)
  rw [IsDir, hx] at this
  cases this

theorem not_linked_of_nosym {s : Signed} (hs : WF s) {t : Tree} (hn : NoSymDirs s t) {p : Path}
    (hp : p ∈ allPaths s) : ¬ Linked t p := by
  rintro ⟨j, hj1, hj2, x, hx⟩
  exact hn _ (hs.parents p hp j (by omega) hj2) x hx

theorem pairwise_of_all {ws : List Wound} (h : ∀ w ∈ ws, FileKind w) : ws.Pairwise Before := by
  induction ws with
  | nil => exact List.Pairwise.nil
  | cons a l ih =>
    refine List.Pairwise.cons ?_ (ih (fun w hw => h w (List.mem_cons_of_mem _ hw)))
    intro b hb
    have ha := h a (by simp)
    have hb' := h b (List.mem_cons_of_mem _ hb)
    refine ⟨by rw [rank_fileKind ha, rank_fileKind hb']; exact Nat.le_refl _, ?_⟩
    intro hk
    rcases ha with ha | ha <;> rw [ha] at hk <;> cases hk

/-! #### validator steps: the tree stays, wounds are appended -/

theorem Inv.vDir {s : Signed} (hs : WF s) {σ : State} (h : Inv s σ) {p : Path} {w : List Wound}
    (hp : s.dirs[σ.dirPos]? = some p)
    (hw : (w = [] ∧ lstat σ.tree p = .ok .dir) ∨ w = [⟨.dir, σ.dirPos, 0, 0⟩]) :
    Inv s { σ with dirPos := σ.dirPos + 1, chan := σ.chan ++ w } := by
  have hlt : σ.dirPos < s.dirs.length := (List.getElem?_eq_some_iff.mp hp).1
  have hpm : p ∈ s.dirs := List.mem_of_getElem? hp
  have hww : ∀ x ∈ w, x = ⟨.dir, σ.dirPos, 0, 0⟩ := by
    intro x hx
    rcases hw with ⟨rfl, _⟩ | rfl
    · cases hx
    · simpa using hx
  have hold : ∀ x ∈ σ.chan, x.kind = .dir := by
    intro x hx
    rcases kind_cases x with hk | hk | hk
    · exact hk
    · have := (h.chanSym x hx hk).2; omega
    · have := (h.chanFile x hx hk).2.1; omega
  refine ⟨h.tinv, h.mode, ⟨Nat.succ_le_of_lt hlt, h.posLe.2⟩, ?_, ?_, ?_, ?_, h.healedOk, ?_, ?_, ?_, ?_,
    h.queueReady, h.healedLe⟩
  · intro hc; have := (h.closedDone hc).1; omega
  · intro j q hj hjlt
    simp only at hjlt
    by_cases hjd : j = σ.dirPos
    · subst hjd
      rw [hp] at hj
      injection hj with hj
      subst hj
      rcases hw with ⟨_, hl⟩ | rfl
      · by_cases hL : Linked σ.tree p
        · exact .inr (.inr hL)
        · exact .inl (lstat_plain (plain_of_not_linked (hs.nodd (mem_allPaths_dir hpm)) hL) hl).1
      · exact .inr (.inl ⟨⟨.dir, σ.dirPos, 0, 0⟩, by simp, rfl, rfl⟩)
    · rcases h.dirs j q hj (by omega) with h1 | ⟨x, hx, hk⟩ | h1
      · exact .inl h1
      · exact .inr (.inl ⟨x, List.mem_append_left _ hx, hk⟩)
      · exact .inr (.inr h1)
  · intro j e hj hjlt
    rcases h.syms j e hj hjlt with h1 | ⟨x, hx, hk⟩ | h1
    · exact .inl h1
    · exact .inr (.inl ⟨x, List.mem_append_left _ hx, hk⟩)
    · exact .inr (.inr h1)
  · intro j e hj hjlt
    rcases h.files j e hj hjlt with h1 | ⟨x, hx, hk⟩ | h3
    · exact .inl h1
    · exact .inr (.inl ⟨x, List.mem_append_left _ hx, hk⟩)
    · exact .inr (.inr h3)
  · intro x hx hk
    rcases List.mem_append.mp hx with hx | hx
    · have := h.chanDir x hx hk; simp only; omega
    · rw [hww x hx]; simp
  · intro x hx hk
    rcases List.mem_append.mp hx with hx | hx
    · have := (h.chanSym x hx hk).2; omega
    · rw [hww x hx] at hk; cases hk
  · intro x hx hk
    rcases List.mem_append.mp hx with hx | hx
    · have := (h.chanFile x hx hk).2.1; omega
    · rw [hww x hx] at hk; rcases hk with hk | hk <;> cases hk
  · refine List.pairwise_append.mpr ⟨h.sorted, ?_, ?_⟩
    · rcases hw with ⟨rfl, _⟩ | rfl
      · exact List.Pairwise.nil
      · exact List.pairwise_singleton _ _
    · intro a ha b hb
      rw [hww b hb]
      refine ⟨by rw [hold a ha]; exact Nat.le_refl _, fun hk _ => h.chanDir a ha hk⟩

theorem Inv.vSymlink {s : Signed} (hs : WF s) {σ : State} (h : Inv s σ) {p : Path} {dest : String}
    {w : List Wound} (hd : s.dirs.length ≤ σ.dirPos)
    (hp : s.symlinks[σ.symPos]? = some (p, dest))
    (hw : (w = [] ∧ lstat σ.tree p = .ok (.symlink dest)) ∨ w = [⟨.symlink, σ.symPos, 0, 0⟩]) :
    Inv s { σ with symPos := σ.symPos + 1, chan := σ.chan ++ w } := by
  have hlt : σ.symPos < s.symlinks.length := (List.getElem?_eq_some_iff.mp hp).1
  have hleaf := sym_leaf hp
  have hww : ∀ x ∈ w, x = ⟨.symlink, σ.symPos, 0, 0⟩ := by
    intro x hx
    rcases hw with ⟨rfl, _⟩ | rfl
    · cases hx
    · simpa using hx
  have hold : ∀ x ∈ σ.chan, rank x.kind ≤ 1 := by
    intro x hx
    rcases kind_cases x with hk | hk | hk
    · rw [hk]; simp [rank]
    · rw [hk]; simp [rank]
    · have := (h.chanFile x hx hk).2.2; omega
  refine ⟨h.tinv, h.mode, ⟨h.posLe.1, Nat.succ_le_of_lt hlt, h.posLe.2.2⟩, ?_, ?_, ?_, ?_, h.healedOk, ?_, ?_, ?_,
    ?_, h.queueReady, h.healedLe⟩
  · intro hc; have := (h.closedDone hc).2.1; omega
  · intro j q hj hjlt
    rcases h.dirs j q hj hjlt with h1 | ⟨x, hx, hk⟩ | h1
    · exact .inl h1
    · exact .inr (.inl ⟨x, List.mem_append_left _ hx, hk⟩)
    · exact .inr (.inr h1)
  · intro j e hj hjlt
    simp only at hjlt
    by_cases hjd : j = σ.symPos
    · subst hjd
      rw [hp] at hj
      injection hj with hj
      subst hj
      rcases hw with ⟨_, hl⟩ | rfl
      · by_cases hL : Linked σ.tree p
        · exact .inr (.inr hL)
        · exact .inl (lstat_plain (plain_of_not_linked (hs.nodd (leaf_mem_allPaths hleaf)) hL) hl).1
      · exact .inr (.inl ⟨⟨.symlink, σ.symPos, 0, 0⟩, by simp, rfl, rfl⟩)
    · rcases h.syms j e hj (by omega) with h1 | ⟨x, hx, hk⟩ | h1
      · exact .inl h1
      · exact .inr (.inl ⟨x, List.mem_append_left _ hx, hk⟩)
      · exact .inr (.inr h1)
  · intro j e hj hjlt
    rcases h.files j e hj hjlt with h1 | ⟨x, hx, hk⟩ | h3
    · exact .inl h1
    · exact .inr (.inl ⟨x, List.mem_append_left _ hx, hk⟩)
    · exact .inr (.inr h3)
  · intro x hx hk
    rcases List.mem_append.mp hx with hx | hx
    · exact h.chanDir x hx hk
    · rw [hww x hx] at hk; cases hk
  · intro x hx hk
    rcases List.mem_append.mp hx with hx | hx
    · have := h.chanSym x hx hk; simp only; omega
    · rw [hww x hx]; simp; omega
  · intro x hx hk
    rcases List.mem_append.mp hx with hx | hx
    · have := (h.chanFile x hx hk).2.2; omega
    · rw [hww x hx] at hk; rcases hk with hk | hk <;> cases hk
  · refine List.pairwise_append.mpr ⟨h.sorted, ?_, ?_⟩
    · rcases hw with ⟨rfl, _⟩ | rfl
      · exact List.Pairwise.nil
      · exact List.pairwise_singleton _ _
    · intro a ha b hb
      rw [hww b hb]
      exact ⟨hold a ha, fun _ hk => by cases hk⟩

theorem Inv.vFile (bs : Nat) (hbs : 0 < bs) (maxSize : Nat) {s : Signed} (hs : WF s) {σ : State} (h : Inv s σ)
    {p : Path} {S : List Byte} {ws : List Wound} (hd : s.dirs.length ≤ σ.dirPos)
    (hsy : s.symlinks.length ≤ σ.symPos) (hp : s.files[σ.filePos]? = some (p, S))
    (hw : admissible σ.filePos (fileEntry bs maxSize σ.tree σ.filePos p S) ws = true) :
    Inv s { σ with filePos := σ.filePos + 1, chan := σ.chan ++ ws } := by
  have hlt : σ.filePos < s.files.length := (List.getElem?_eq_some_iff.mp hp).1
  have hleaf := file_leaf hp
  obtain ⟨hall, hreal⟩ := admissible_spec bs hbs maxSize S σ.filePos (onDisk σ.tree p) ws hw
  refine ⟨h.tinv, h.mode, ⟨h.posLe.1, h.posLe.2.1, Nat.succ_le_of_lt hlt⟩, ?_, ?_, ?_, ?_, h.healedOk, ?_, ?_, ?_,
    ?_, h.queueReady, h.healedLe⟩
  · intro hc; have := (h.closedDone hc).2.2; omega
  · intro j q hj hjlt
    rcases h.dirs j q hj hjlt with h1 | ⟨x, hx, hk⟩ | h1
    · exact .inl h1
    · exact .inr (.inl ⟨x, List.mem_append_left _ hx, hk⟩)
    · exact .inr (.inr h1)
  · intro j e hj hjlt
    rcases h.syms j e hj hjlt with h1 | ⟨x, hx, hk⟩ | h1
    · exact .inl h1
    · exact .inr (.inl ⟨x, List.mem_append_left _ hx, hk⟩)
    · exact .inr (.inr h1)
  · intro j e hj hjlt
    simp only at hjlt
    by_cases hjd : j = σ.filePos
    · subst hjd
      rw [hp] at hj
      injection hj with hj
      subst hj
      rcases hreal with ⟨x, hx, hk⟩ | hod
      · exact .inr (.inl ⟨x, List.mem_append_right _ hx, hk, (hall x hx).1⟩)
      · have hl := (onDisk_file_iff σ.tree p S).mp hod
        by_cases hL : Linked σ.tree p
        · exact .inr (.inr (.inr hL))
        · exact .inl (lstat_plain (plain_of_not_linked (hs.nodd (leaf_mem_allPaths hleaf)) hL) hl).1
    · rcases h.files j e hj (by omega) with h1 | ⟨x, hx, hk⟩ | h3
      · exact .inl h1
      · exact .inr (.inl ⟨x, List.mem_append_left _ hx, hk⟩)
      · exact .inr (.inr h3)
  · intro x hx hk
    rcases List.mem_append.mp hx with hx | hx
    · exact h.chanDir x hx hk
    · rcases (hall x hx).2 with h' | h' <;> rw [h'] at hk <;> cases hk
  · intro x hx hk
    rcases List.mem_append.mp hx with hx | hx
    · exact h.chanSym x hx hk
    · rcases (hall x hx).2 with h' | h' <;> rw [h'] at hk <;> cases hk
  · intro x hx hk
    rcases List.mem_append.mp hx with hx | hx
    · have := h.chanFile x hx hk; simp only; omega
    · have := (hall x hx).1; simp only; omega
  · refine List.pairwise_append.mpr ⟨h.sorted, pairwise_of_all (fun w hw => (hall w hw).2), ?_⟩
    intro a _ b hb
    refine ⟨by rw [rank_fileKind (hall b hb).2]; exact rank_le_two _, ?_⟩
    intro _ hk
    rcases (hall b hb).2 with h' | h' <;> rw [h'] at hk <;> cases hk

theorem Inv.vDone {s : Signed} {σ : State} (h : Inv s σ)
    (hd : s.dirs.length ≤ σ.dirPos ∧ s.symlinks.length ≤ σ.symPos ∧ s.files.length ≤ σ.filePos) :
    Inv s { σ with closed := true } :=
  ⟨h.tinv, h.mode, h.posLe, fun _ => hd, h.dirs, h.syms, h.files, h.healedOk, h.chanDir, h.chanSym,
    h.chanFile, h.sorted, h.queueReady, h.healedLe⟩

/-! #### healer steps -/

/-- the head of the channel is a symlink wound or a file wound / marker: the directory pass is over and its
    wounds are healed -/
theorem Inv.allDirs_head {s : Signed} (hs : WF s) {σ : State} (h : Inv s σ) {w : Wound} {rest : List Wound}
    (hc : σ.chan = w :: rest) (hk : w.kind ≠ .dir) : AllDirs s σ.tree := by
  have hsorted := h.sorted
  rw [hc] at hsorted
  have hwm : w ∈ σ.chan := by rw [hc]; simp
  have hdp : s.dirs.length ≤ σ.dirPos := by
    rcases kind_cases w with hk' | hk' | hk'
    · exact absurd hk' hk
    · exact (h.chanSym w hwm hk').2
    · exact (h.chanFile w hwm hk').2.1
  refine h.allDirs hs hdp ?_
  intro x hx hxd
  rw [hc] at hx
  rcases List.mem_cons.mp hx with rfl | hx
  · exact hk hxd
  · have := ((List.pairwise_cons.mp hsorted).1 x hx).1
    rw [hxd] at this
    cases hwk : w.kind with
    | dir => exact hk hwk
    | symlink => rw [hwk] at this; simp [rank] at this
    | file => rw [hwk] at this; simp [rank] at this
    | closedFile => rw [hwk] at this; simp [rank] at this

/-- the directory whose wound is at the head of the channel has no link on the way: with parents-first
    listing the wound of the link would be ahead of it in the channel -/
theorem Inv.head_plain {s : Signed} (hs : WF s) {σ : State} (h : Inv s σ) {w : Wound} {rest : List Wound}
    {p : Path} (hc : σ.chan = w :: rest) (hk : w.kind = .dir) (hp : s.dirs[w.index]? = some p) :
    Plain σ.tree p := by
  have hpm : p ∈ s.dirs := List.mem_of_getElem? hp
  have hm := mem_allPaths_dir hpm
  apply plain_of_not_linked (hs.nodd hm)
  intro hL
  rcases h.mode with hpf | hn
  · obtain ⟨a, ha, hap, ⟨x, hx⟩, hna⟩ := hL.top hs h.tinv hm
    obtain ⟨hlt, hget⟩ := List.getElem?_eq_some_iff.mp hp
    rw [isPrefix_iff] at hap
    have ha0 : 0 < a.length := List.length_pos_iff.mpr (hs.clean a (mem_allPaths_dir ha)).1
    have hmem := hpf w.index hlt a.length ha0 (by rw [hget]; exact hap.1)
    rw [hget, hap.2] at hmem
    obtain ⟨j, hjm, hj⟩ := List.mem_take_iff_getElem.mp hmem
    have hjlt : j < w.index := by omega
    have hj' : s.dirs[j]? = some a := by
      rw [List.getElem?_eq_some_iff]; exact ⟨by omega, hj⟩
    have hwm : w ∈ σ.chan := by rw [hc]; simp
    have hwi := h.chanDir w hwm hk
    rcases h.dirs j a hj' (by omega) with h1 | ⟨y, hy, hyk, hyi⟩ | h1
    · rw [IsDir, hx] at h1; cases h1
    · have hsorted := h.sorted
      rw [hc] at hsorted hy
      rcases List.mem_cons.mp hy with rfl | hy
      · omega
      · have := ((List.pairwise_cons.mp hsorted).1 y hy).2 hk hyk
        omega
    · exact hna h1
  · exact not_linked_of_nosym hs hn hm hL

/-- dropping the received wound and replacing tree and queue by ones that `Keeps` everything, where the
    received wound's entry (if any entry pointed at it) is now in place, the queue has only grown, every queued
    file has its parent directory, and whatever was seen through a link either still is or has been healed -/
theorem Inv.hWound_tree {s : Signed} (hs : WF s) {σ : State} (h : Inv s σ) {w : Wound} {rest : List Wound}
    {t' : Tree} {q' : List Nat} (hc : σ.chan = w :: rest) (hK : Keeps s σ.tree t')
    (hq : ∃ r, q' = σ.queue ++ r)
    (hdir : ∀ p, w.kind = .dir → s.dirs[w.index]? = some p → IsDir t' p)
    (hsym : ∀ e, w.kind = .symlink → s.symlinks[w.index]? = some e → t'.get e.1 = some (.symlink e.2))
    (hfile : w.kind ≠ .file)
    (hlinkD : ∀ p ∈ s.dirs, Linked σ.tree p → Linked t' p ∨ IsDir t' p)
    (hlinkS : ∀ e ∈ s.symlinks, Linked σ.tree e.1 → Linked t' e.1 ∨ t'.get e.1 = some (.symlink e.2))
    (hlinkF : ∀ j e, s.files[j]? = some e → Linked σ.tree e.1 → Linked t' e.1 ∨ j ∈ q'.drop σ.healed)
    (hnew : ∀ i ∈ q', i ∉ σ.queue → ∃ e, s.files[i]? = some e ∧ IsDir t' e.1.dropLast) :
    Inv s { σ with chan := rest, tree := t', queue := q' } := by
  have hsub : ∀ x ∈ rest, x ∈ σ.chan := fun x hx => by rw [hc]; exact List.mem_cons_of_mem _ hx
  have hsorted := h.sorted
  rw [hc] at hsorted
  obtain ⟨r, rfl⟩ := hq
  have hdrop : (σ.queue ++ r).drop σ.healed = σ.queue.drop σ.healed ++ r :=
    List.drop_append_of_le_length h.healedLe
  have htake : (σ.queue ++ r).take σ.healed = σ.queue.take σ.healed :=
    List.take_append_of_le_length h.healedLe
  refine ⟨hK.tinv, h.mode.imp id hK.nosym, h.posLe, h.closedDone, ?_, ?_, ?_, ?_,
    fun x hx => h.chanDir x (hsub x hx), fun x hx => h.chanSym x (hsub x hx),
    fun x hx => h.chanFile x (hsub x hx), (List.pairwise_cons.mp hsorted).2, ?_, ?_⟩
  · intro j p hj hjlt
    rcases h.dirs j p hj hjlt with h1 | ⟨x, hx, hk, hi⟩ | h1
    · exact .inl (hK.dirs p (List.mem_of_getElem? hj) h1)
    · rw [hc] at hx
      rcases List.mem_cons.mp hx with rfl | hx
      · exact .inl (hdir p hk (hi ▸ hj))
      · exact .inr (.inl ⟨x, hx, hk, hi⟩)
    · rcases hlinkD p (List.mem_of_getElem? hj) h1 with h2 | h2
      · exact .inr (.inr h2)
      · exact .inl h2
  · intro j e hj hjlt
    rcases h.syms j e hj hjlt with h1 | ⟨x, hx, hk, hi⟩ | h1
    · exact .inl (hK.leaves _ (sym_leaf hj) h1)
    · rw [hc] at hx
      rcases List.mem_cons.mp hx with rfl | hx
      · exact .inl (hsym e hk (hi ▸ hj))
      · exact .inr (.inl ⟨x, hx, hk, hi⟩)
    · rcases hlinkS e (List.mem_of_getElem? hj) h1 with h2 | h2
      · exact .inr (.inr h2)
      · exact .inl h2
  · intro j e hj hjlt
    simp only
    rcases h.files j e hj hjlt with h1 | ⟨x, hx, hk, hi⟩ | h3 | h4
    · exact .inl (hK.leaves _ (file_leaf hj) h1)
    · rw [hc] at hx
      rcases List.mem_cons.mp hx with rfl | hx
      · exact absurd hk hfile
      · exact .inr (.inl ⟨x, hx, hk, hi⟩)
    · exact .inr (.inr (.inl (by rw [hdrop]; exact List.mem_append_left _ h3)))
    · rcases hlinkF j e hj h4 with h5 | h5
      · exact .inr (.inr (.inr h5))
      · exact .inr (.inr (.inl h5))
  · intro j e hj hjm
    simp only at hjm
    rw [htake] at hjm
    exact hK.leaves _ (file_leaf hj) (h.healedOk j e hj hjm)
  · intro i hi
    by_cases hio : i ∈ σ.queue
    · obtain ⟨e, he, hpar⟩ := h.queueReady i hio
      exact ⟨e, he, hK.parent hs (leaf_mem_allPaths (file_leaf he)) hpar⟩
    · exact hnew i hi hio
  · simp only [List.length_append]
    have := h.healedLe
    omega

theorem mem_take_or_drop {α} (l : List α) (n : Nat) {x : α} (h : x ∈ l) : x ∈ l.take n ∨ x ∈ l.drop n := by
  rw [← List.take_append_drop n l] at h
  exact List.mem_append.mp h

/-- a directory wound received from the channel -/
theorem Inv.hWound_dir {s : Signed} (hs : WF s) {σ : State} (h : Inv s σ) {w : Wound} {rest : List Wound}
    {p : Path} {t' : Tree} {q' : List Nat} (hc : σ.chan = w :: rest) (hk : w.kind = .dir)
    (hp : s.dirs[w.index]? = some p) (hh : healDir s (healDepth s) σ.tree σ.queue p = .ok (t', q')) :
    Inv s { σ with chan := rest, tree := t', queue := q' } ∧ Keeps s σ.tree t' := by
  have hpm : p ∈ s.dirs := List.mem_of_getElem? hp
  have hdepth : healDepth s = (s.dirs.length - 1) + 2 := by
    have := List.length_pos_of_mem hpm
    simp only [healDepth]; omega
  rw [hdepth] at hh
  have heff := healDir_effect hs h.tinv hpm (h.head_plain hs hc hk hp) hh
  obtain ⟨hK, hd⟩ := heff.keeps hs h.tinv hpm
  refine ⟨?_, hK⟩
  have hdir : ∀ p', w.kind = .dir → s.dirs[w.index]? = some p' → IsDir t' p' := by
    intro p' _ hp'
    rw [hp] at hp'
    injection hp' with hp'
    exact hp' ▸ hd
  have hsym : ∀ e, w.kind = .symlink → s.symlinks[w.index]? = some e →
      t'.get e.1 = some (.symlink e.2) := by
    intro e hk'; rw [hk] at hk'; cases hk'
  have hfile : w.kind ≠ .file := by rw [hk]; intro h'; cases h'
  cases heff with
  | grow a1 a2 a3 a4 hq =>
    subst hq
    exact h.hWound_tree hs hc hK ⟨[], (List.append_nil _).symm⟩ hdir hsym hfile
      (fun _ _ hL => .inl (linked_mono a3 hL)) (fun _ _ hL => .inl (linked_mono a3 hL))
      (fun _ _ _ hL => .inl (linked_mono a3 hL)) (fun i hi hni => absurd hi hni)
  | replaced n hn hg hpar hB b2 b3 hq =>
    have hext := queueFilesBelow_ext s p s.files 0 σ.queue (by intro k; simp)
    rw [← hq] at hext
    obtain ⟨r, hr, _, hrmem⟩ := id hext
    -- a linked path keeps its link unless the link was the thing standing at `p`
    have hlink : ∀ p' ∈ allPaths s, Linked σ.tree p' → Linked t' p' ∨ isPrefix p p' = true := by
      intro p' _ hL
      obtain ⟨j, hj1, hj2, x, hx⟩ := hL
      by_cases h1 : p'.take j = p
      · right
        rw [isPrefix_iff, ← h1]
        simp only [List.length_take, Nat.min_eq_left (Nat.le_of_lt hj2)]
        exact ⟨hj2, trivial⟩
      · left
        cases h2 : isPrefix p (p'.take j) with
        | true => rw [below_none h.tinv hg hn h2] at hx; cases hx
        | false => exact ⟨j, hj1, hj2, x, by rw [hB.outside _ h1 h2]; exact hx⟩
    refine h.hWound_tree hs hc hK ⟨r, hr⟩ hdir hsym hfile ?_ ?_ ?_ ?_
    · intro p' hp' hL
      rcases hlink p' (mem_allPaths_dir hp') hL with h1 | h1
      · exact .inl h1
      · exact .inr (b2 p' hp' h1)
    · intro e he hL
      rcases hlink e.1 (leaf_mem_allPaths (sym_leaf' he)) hL with h1 | h1
      · exact .inl h1
      · exact .inr (b3 e he h1)
    · intro j e hj hL
      rcases hlink e.1 (leaf_mem_allPaths (file_leaf hj)) hL with h1 | h1
      · exact .inl h1
      · right
        have hjq : j ∈ q' := by
          rw [hq]
          exact mem_queueFilesBelow p s.files 0 σ.queue j (.inr ⟨j, e, hj, by omega, h1⟩)
        rcases mem_take_or_drop q' σ.healed hjq with h2 | h2
        · exfalso
          rw [hr, List.take_append_of_le_length h.healedLe] at h2
          have := h.healedOk j e hj h2
          rw [below_none h.tinv hg hn h1] at this
          cases this
        · exact h2
    · intro i hi hni
      rcases hext.mem hi with h1 | ⟨e, he, hpe⟩
      · exact absurd h1 hni
      · refine ⟨e, he, ?_⟩
        -- the parent of a signed file below `p` is `p` or a signed directory below `p`
        have hm := leaf_mem_allPaths (file_leaf he)
        have hpe' := hpe
        rw [isPrefix_iff] at hpe'
        have hp0 : 0 < p.length := List.length_pos_iff.mpr (hs.clean p (mem_allPaths_dir hpm)).1
        by_cases hl : e.1.length = p.length + 1
        · have : e.1.dropLast = p := by
            rw [List.dropLast_eq_take, ← hpe'.2]; congr 1; omega
          rw [this]; exact hB.self
        · have hmem := hs.parents e.1 hm (e.1.length - 1) (by omega) (by omega)
          rw [← List.dropLast_eq_take] at hmem
          refine b2 _ hmem ?_
          rw [isPrefix_iff]
          refine ⟨by simp; omega, ?_⟩
          rw [List.dropLast_eq_take, List.take_take, Nat.min_eq_left (by omega)]
          exact hpe'.2

/-- a symlink wound at the head of the channel is healed without error, by a `StepAt` -/
theorem Inv.healSymlink_ok {s : Signed} (hs : WF s) {σ : State} (h : Inv s σ) {w : Wound} {rest : List Wound}
    {p : Path} {d : String} (hc : σ.chan = w :: rest) (hk : w.kind = .symlink)
    (hp : s.symlinks[w.index]? = some (p, d)) :
    ∃ t', healSymlink σ.tree p d = .ok t' ∧ StepAt σ.tree p (.symlink d) t' := by
  have hleaf := sym_leaf hp
  have hmem := leaf_mem_allPaths hleaf
  exact healSymlink_step h.tinv (hs.clean _ hmem).1 (hs.nodd hmem)
    (hs.parent_dir (h.allDirs_head hs hc (by rw [hk]; intro h'; cases h')) hmem) d

/-- a leaf heal step keeps every link -/
theorem leafStep_linked {s : Signed} (hs : WF s) {t t' : Tree} {e : Path × Node} (he : e ∈ leaves s)
    (hst : StepAt t e.1 e.2 t') {p : Path} (hp : p ∈ allPaths s) (hL : Linked t p) : Linked t' p := by
  obtain ⟨_, _, hsame⟩ := leafStep_keeps hs he hst
  refine (linked_congr hs ?_ hp).mpr hL
  intro d hd
  exact hsame d (mem_allPaths_dir hd) (fun h' => hs.leaf_not_dir he (h' ▸ hd))

theorem Inv.hWound_sym {s : Signed} (hs : WF s) {σ : State} (h : Inv s σ) {w : Wound} {rest : List Wound}
    {p : Path} {d : String} {t' : Tree} (hc : σ.chan = w :: rest) (hk : w.kind = .symlink)
    (hp : s.symlinks[w.index]? = some (p, d)) (hh : healSymlink σ.tree p d = .ok t') :
    Inv s { σ with chan := rest, tree := t' } := by
  obtain ⟨t'', h1, hst⟩ := h.healSymlink_ok hs hc hk hp
  rw [hh] at h1
  injection h1 with h1
  subst h1
  have hleaf := sym_leaf hp
  obtain ⟨hK, hat, _⟩ := leafStep_keeps hs hleaf hst
  refine h.hWound_tree hs hc hK ⟨[], (List.append_nil _).symm⟩ ?_ ?_ (by rw [hk]; intro h'; cases h')
    (fun p' hp' hL => .inl (leafStep_linked hs hleaf hst (mem_allPaths_dir hp') hL))
    (fun e he hL => .inl (leafStep_linked hs hleaf hst (leaf_mem_allPaths (sym_leaf' he)) hL))
    (fun j e hj hL => .inl (leafStep_linked hs hleaf hst (leaf_mem_allPaths (file_leaf hj)) hL))
    (fun i hi hni => absurd hi hni)
  · intro p' hk'; rw [hk] at hk'; cases hk'
  · intro e _ he
    rw [hp] at he
    injection he with he
    subst he
    exact hat

theorem Inv.hWound_closed {s : Signed} (hs : WF s) {σ : State} (h : Inv s σ) {w : Wound} {rest : List Wound}
    (hc : σ.chan = w :: rest) (hk : w.kind = .closedFile) : Inv s { σ with chan := rest } := by
  refine h.hWound_tree (t' := σ.tree) (q' := σ.queue) hs hc (Keeps.refl h.tinv) ⟨[], (List.append_nil _).symm⟩
    ?_ ?_ (by rw [hk]; intro h'; cases h') (fun _ _ hL => .inl hL) (fun _ _ hL => .inl hL)
    (fun _ _ _ hL => .inl hL) (fun i hi hni => absurd hi hni)
  · intro p' hk'; rw [hk] at hk'; cases hk'
  · intro p' hk'; rw [hk] at hk'; cases hk'

theorem Inv.hWound_file {s : Signed} (hs : WF s) {σ : State} (h : Inv s σ) {w : Wound} {rest : List Wound}
    (hc : σ.chan = w :: rest) (hk : w.kind = .file) :
    Inv s { σ with chan := rest, queue := enqueue σ.queue w.index } := by
  have hsub : ∀ x ∈ rest, x ∈ σ.chan := fun x hx => by rw [hc]; exact List.mem_cons_of_mem _ hx
  have hwm : w ∈ σ.chan := by rw [hc]; simp
  have hsorted := h.sorted
  rw [hc] at hsorted
  have hwf := h.chanFile w hwm (.inl hk)
  have hA : AllDirs s σ.tree := h.allDirs_head hs hc (by rw [hk]; intro h'; cases h')
  -- the new queue extends the old one
  obtain ⟨ext, hext, hmem, hextall⟩ : ∃ ext,
      enqueue σ.queue w.index = σ.queue ++ ext ∧
      (w.index ∈ σ.queue ∨ w.index ∈ ext) ∧ ∀ i ∈ ext, i = w.index := by
    unfold enqueue
    by_cases hcon : w.index ∈ σ.queue
    · exact ⟨[], by simp [hcon], .inl hcon, by simp⟩
    · exact ⟨[w.index], by simp [hcon], .inr (by simp), by simp⟩
  rw [hext]
  have hdrop : (σ.queue ++ ext).drop σ.healed = σ.queue.drop σ.healed ++ ext :=
    List.drop_append_of_le_length h.healedLe
  have htake : (σ.queue ++ ext).take σ.healed = σ.queue.take σ.healed :=
    List.take_append_of_le_length h.healedLe
  refine ⟨h.tinv, h.mode, h.posLe, h.closedDone, ?_, ?_, ?_, ?_, fun x hx => h.chanDir x (hsub x hx),
    fun x hx => h.chanSym x (hsub x hx), fun x hx => h.chanFile x (hsub x hx), (List.pairwise_cons.mp hsorted).2,
    ?_, ?_⟩
  · intro j p hj hjlt
    rcases h.dirs j p hj hjlt with h1 | ⟨x, hx, hk', hi⟩ | h1
    · exact .inl h1
    · rw [hc] at hx
      rcases List.mem_cons.mp hx with rfl | hx
      · rw [hk] at hk'; cases hk'
      · exact .inr (.inl ⟨x, hx, hk', hi⟩)
    · exact .inr (.inr h1)
  · intro j e hj hjlt
    rcases h.syms j e hj hjlt with h1 | ⟨x, hx, hk', hi⟩ | h1
    · exact .inl h1
    · rw [hc] at hx
      rcases List.mem_cons.mp hx with rfl | hx
      · rw [hk] at hk'; cases hk'
      · exact .inr (.inl ⟨x, hx, hk', hi⟩)
    · exact .inr (.inr h1)
  · intro j e hj hjlt
    simp only
    rw [hdrop]
    rcases h.files j e hj hjlt with h1 | ⟨x, hx, hk', hi⟩ | h3 | h4
    · exact .inl h1
    · rw [hc] at hx
      rcases List.mem_cons.mp hx with rfl | hx
      · rw [hi] at hmem
        rcases hmem with hm | hm
        · rcases mem_take_or_drop σ.queue σ.healed hm with h' | h'
          · exact .inl (h.healedOk j e hj h')
          · exact .inr (.inr (.inl (List.mem_append_left _ h')))
        · exact .inr (.inr (.inl (List.mem_append_right _ hm)))
      · exact .inr (.inl ⟨x, hx, hk', hi⟩)
    · exact .inr (.inr (.inl (List.mem_append_left _ h3)))
    · exact .inr (.inr (.inr h4))
  · intro j e hj hjm
    simp only at hjm
    rw [htake] at hjm
    exact h.healedOk j e hj hjm
  · intro i hi
    simp only at hi
    rcases List.mem_append.mp hi with hi | hi
    · exact h.queueReady i hi
    · rw [hextall i hi]
      have hlt : w.index < s.files.length := Nat.lt_of_lt_of_le hwf.1 h.posLe.2.2
      have he : s.files[w.index]? = some s.files[w.index] := List.getElem?_eq_getElem hlt
      exact ⟨_, he, hs.parent_dir hA (leaf_mem_allPaths (file_leaf he))⟩
  · simp only [List.length_append]
    have := h.healedLe
    omega

/-- the next queued file is rewritten without error, by a `StepAt` -/
theorem Inv.healFile_ok {s : Signed} (hs : WF s) {σ : State} (h : Inv s σ) {i : Nat} {p : Path} {S : List Byte}
    (hq : σ.queue[σ.healed]? = some i) (hp : s.files[i]? = some (p, S)) :
    ∃ t', healFile σ.tree p S = .ok t' ∧ StepAt σ.tree p (.file S) t' := by
  have hleaf := file_leaf hp
  have hmem := leaf_mem_allPaths hleaf
  obtain ⟨e, he, hpar⟩ := h.queueReady i (List.mem_of_getElem? hq)
  rw [hp] at he
  injection he with he
  subst he
  exact healFile_step h.tinv (hs.clean _ hmem).1 (hs.nodd hmem) hpar S

theorem Inv.hFile {s : Signed} (hs : WF s) {σ : State} (h : Inv s σ) {i : Nat} {p : Path} {S : List Byte}
    {t' : Tree} (hq : σ.queue[σ.healed]? = some i) (hp : s.files[i]? = some (p, S))
    (hh : healFile σ.tree p S = .ok t') : Inv s { σ with healed := σ.healed + 1, tree := t' } := by
  obtain ⟨t'', h1, hst⟩ := h.healFile_ok hs hq hp
  rw [hh] at h1
  injection h1 with h1
  subst h1
  have hleaf := file_leaf hp
  obtain ⟨hK, hat, _⟩ := leafStep_keeps hs hleaf hst
  have hlt : σ.healed < σ.queue.length := (List.getElem?_eq_some_iff.mp hq).1
  have hi : σ.queue[σ.healed] = i := (List.getElem?_eq_some_iff.mp hq).2
  have hdrop : σ.queue.drop σ.healed = i :: σ.queue.drop (σ.healed + 1) := by
    rw [List.drop_eq_getElem_cons hlt, hi]
  have htake : σ.queue.take (σ.healed + 1) = σ.queue.take σ.healed ++ [i] := by
    rw [List.take_add_one, hq]; rfl
  refine ⟨hK.tinv, h.mode.imp id hK.nosym, h.posLe, h.closedDone, ?_, ?_, ?_, ?_, h.chanDir, h.chanSym,
    h.chanFile, h.sorted, ?_, hlt⟩
  · intro j q hj hjlt
    rcases h.dirs j q hj hjlt with h1 | h2 | h3
    · exact .inl (hK.dirs q (List.mem_of_getElem? hj) h1)
    · exact .inr (.inl h2)
    · exact .inr (.inr (leafStep_linked hs hleaf hst (mem_allPaths_dir (List.mem_of_getElem? hj)) h3))
  · intro j e hj hjlt
    rcases h.syms j e hj hjlt with h1 | h2 | h3
    · exact .inl (hK.leaves _ (sym_leaf hj) h1)
    · exact .inr (.inl h2)
    · exact .inr (.inr (leafStep_linked hs hleaf hst (leaf_mem_allPaths (sym_leaf hj)) h3))
  · intro j e hj hjlt
    rcases h.files j e hj hjlt with h1 | h2 | h3 | h4
    · exact .inl (hK.leaves _ (file_leaf hj) h1)
    · exact .inr (.inl h2)
    · rw [hdrop] at h3
      rcases List.mem_cons.mp h3 with rfl | h3
      · rw [hp] at hj
        injection hj with hj
        subst hj
        exact .inl hat
      · exact .inr (.inr (.inl h3))
    · exact .inr (.inr (.inr (leafStep_linked hs hleaf hst (leaf_mem_allPaths (file_leaf hj)) h4)))
  · intro j e hj hjm
    simp only at hjm
    rw [htake] at hjm
    rcases List.mem_append.mp hjm with hjm | hjm
    · exact hK.leaves _ (file_leaf hj) (h.healedOk j e hj hjm)
    · have : j = i := by simpa using hjm
      subst this
      rw [hp] at hj
      injection hj with hj
      subst hj
      exact hat
  · intro j hj
    obtain ⟨e, he, hpar⟩ := h.queueReady j hj
    exact ⟨e, he, hK.parent hs (leaf_mem_allPaths (file_leaf he)) hpar⟩

/-! #### every step keeps the invariant -/

theorem Inv.step (bs : Nat) (hbs : 0 < bs) (maxSize : Nat) {s : Signed} (hs : WF s) {σ σ' : State} {l : Label}
    (h : Inv s σ) (hst : step bs maxSize s σ l = some σ') : Inv s σ' := by
  unfold HealTS.step at hst
  split at hst
  · cases hst
  · cases l with
    | vDir =>
      simp only [stepVDir] at hst
      split at hst
      · cases hst
      · next p hp =>
        split at hst
        · next w hw => injection hst with hst; subst hst; exact h.vDir hs hp (dirEntry_ok hw)
        · injection hst with hst; subst hst; exact h.setStatus _
    | vDirLate =>
      simp only [stepVDirLate] at hst
      split at hst
      · cases hst
      · next p hp => injection hst with hst; subst hst; exact h.vDir hs hp (.inr rfl)
    | vSymlink =>
      simp only [stepVSymlink] at hst
      split at hst
      · next hd =>
        split at hst
        · cases hst
        · next p dest hp =>
          split at hst
          · next w hw => injection hst with hst; subst hst; exact h.vSymlink hs hd hp (symlinkEntry_ok hw)
          · injection hst with hst; subst hst; exact h.setStatus _
      · cases hst
    | vSymlinkLate =>
      simp only [stepVSymlinkLate] at hst
      split at hst
      · next hd =>
        split at hst
        · cases hst
        · next e hp =>
          obtain ⟨p, dest⟩ := e
          injection hst with hst; subst hst; exact h.vSymlink hs hd hp (.inr rfl)
      · cases hst
    | vFile ws =>
      simp only [stepVFile] at hst
      split at hst
      · next hd =>
        split at hst
        · cases hst
        · next p S hp =>
          split at hst
          · next hw => injection hst with hst; subst hst; exact h.vFile bs hbs maxSize hs hd.1 hd.2 hp hw
          · cases hst
      · cases hst
    | vDone =>
      simp only [stepVDone] at hst
      split at hst
      · next hd => injection hst with hst; subst hst; exact h.vDone ⟨hd.1, hd.2.1, hd.2.2.1⟩
      · cases hst
    | hWound =>
      simp only [stepHWound] at hst
      split at hst
      · cases hst
      · next w rest hc =>
        split at hst
        · next hk =>
          split at hst
          · next p hp =>
            split at hst
            · next t' q' hh => injection hst with hst; subst hst; exact (h.hWound_dir hs hc hk hp hh).1
            · injection hst with hst; subst hst; exact h.setStatus _
          · injection hst with hst; subst hst; exact h.setStatus _
        · next hk =>
          split at hst
          · next p d hp =>
            split at hst
            · next t' hh => injection hst with hst; subst hst; exact h.hWound_sym hs hc hk hp hh
            · injection hst with hst; subst hst; exact h.setStatus _
          · injection hst with hst; subst hst; exact h.setStatus _
        · next hk => injection hst with hst; subst hst; exact h.hWound_file hs hc hk
        · next hk => injection hst with hst; subst hst; exact h.hWound_closed hs hc hk
    | hFile =>
      simp only [stepHFile] at hst
      split at hst
      · cases hst
      · next i hq =>
        split at hst
        · next p S hp =>
          split at hst
          · next t' hh => injection hst with hst; subst hst; exact h.hFile hs hq hp hh
          · injection hst with hst; subst hst; exact h.setStatus _
        · injection hst with hst; subst hst; exact h.setStatus _

theorem Inv.reach (bs : Nat) (hbs : 0 < bs) (maxSize : Nat) {s : Signed} (hs : WF s) {σ₀ σ : State}
    (h : Inv s σ₀) (hr : Reach bs maxSize s σ₀ σ) : Inv s σ := by
  induction hr with
  | refl => exact h
  | step _ hst ih => exact ih.step bs hbs maxSize hs hst

/-! ### the transitions as a relation (one constructor per outcome of `step`) -/

inductive Step (bs maxSize : Nat) (s : Signed) : State → Label → State → Prop where
  | vDir {σ : State} {p : Path} {w : List Wound} : σ.status = .running → s.dirs[σ.dirPos]? = some p →
      dirEntry σ.tree σ.dirPos p = .ok w →
      Step bs maxSize s σ .vDir { σ with dirPos := σ.dirPos + 1, chan := σ.chan ++ w }
  | vDirLate {σ : State} {p : Path} : σ.status = .running → s.dirs[σ.dirPos]? = some p →
      Step bs maxSize s σ .vDirLate { σ with dirPos := σ.dirPos + 1, chan := σ.chan ++ [⟨.dir, σ.dirPos, 0, 0⟩] }
  | vDirErr {σ : State} {p : Path} : σ.status = .running → s.dirs[σ.dirPos]? = some p →
      (∀ w, dirEntry σ.tree σ.dirPos p ≠ .ok w) →
      Step bs maxSize s σ .vDir { σ with status := .validatorError }
  | vSymlink {σ : State} {p : Path} {dest : String} {w : List Wound} : σ.status = .running →
      s.dirs.length ≤ σ.dirPos → s.symlinks[σ.symPos]? = some (p, dest) →
      symlinkEntry σ.tree σ.symPos p dest = .ok w →
      Step bs maxSize s σ .vSymlink { σ with symPos := σ.symPos + 1, chan := σ.chan ++ w }
  | vSymlinkLate {σ : State} {e : Path × String} : σ.status = .running →
      s.dirs.length ≤ σ.dirPos → s.symlinks[σ.symPos]? = some e →
      Step bs maxSize s σ .vSymlinkLate
        { σ with symPos := σ.symPos + 1, chan := σ.chan ++ [⟨.symlink, σ.symPos, 0, 0⟩] }
  | vSymlinkErr {σ : State} {p : Path} {dest : String} : σ.status = .running →
      s.dirs.length ≤ σ.dirPos → s.symlinks[σ.symPos]? = some (p, dest) →
      (∀ w, symlinkEntry σ.tree σ.symPos p dest ≠ .ok w) →
      Step bs maxSize s σ .vSymlink { σ with status := .validatorError }
  | vFile {σ : State} {p : Path} {S : List Byte} {ws : List Wound} : σ.status = .running →
      s.dirs.length ≤ σ.dirPos → s.symlinks.length ≤ σ.symPos → s.files[σ.filePos]? = some (p, S) →
      admissible σ.filePos (fileEntry bs maxSize σ.tree σ.filePos p S) ws = true →
      Step bs maxSize s σ (.vFile ws) { σ with filePos := σ.filePos + 1, chan := σ.chan ++ ws }
  | vDone {σ : State} : σ.status = .running →
      s.dirs.length ≤ σ.dirPos → s.symlinks.length ≤ σ.symPos → s.files.length ≤ σ.filePos → σ.closed = false →
      Step bs maxSize s σ .vDone { σ with closed := true }
  | hDir {σ : State} {w : Wound} {rest : List Wound} {p : Path} {t' : Tree} {q' : List Nat} :
      σ.status = .running → σ.chan = w :: rest → w.kind = .dir → s.dirs[w.index]? = some p →
      healDir s (healDepth s) σ.tree σ.queue p = .ok (t', q') →
      Step bs maxSize s σ .hWound { σ with chan := rest, tree := t', queue := q' }
  | hDirErr {σ : State} {w : Wound} {rest : List Wound} : σ.status = .running →
      σ.chan = w :: rest → w.kind = .dir →
      (∀ p, s.dirs[w.index]? = some p → ∀ r, healDir s (healDepth s) σ.tree σ.queue p ≠ .ok r) →
      Step bs maxSize s σ .hWound { σ with status := .healerError }
  | hSym {σ : State} {w : Wound} {rest : List Wound} {p : Path} {d : String} {t' : Tree} : σ.status = .running →
      σ.chan = w :: rest → w.kind = .symlink → s.symlinks[w.index]? = some (p, d) →
      healSymlink σ.tree p d = .ok t' →
      Step bs maxSize s σ .hWound { σ with chan := rest, tree := t' }
  | hSymErr {σ : State} {w : Wound} {rest : List Wound} : σ.status = .running →
      σ.chan = w :: rest → w.kind = .symlink →
      (∀ p d, s.symlinks[w.index]? = some (p, d) → ∀ t', healSymlink σ.tree p d ≠ .ok t') →
      Step bs maxSize s σ .hWound { σ with status := .healerError }
  | hQueue {σ : State} {w : Wound} {rest : List Wound} : σ.status = .running →
      σ.chan = w :: rest → w.kind = .file →
      Step bs maxSize s σ .hWound { σ with chan := rest, queue := enqueue σ.queue w.index }
  | hClosed {σ : State} {w : Wound} {rest : List Wound} : σ.status = .running →
      σ.chan = w :: rest → w.kind = .closedFile →
      Step bs maxSize s σ .hWound { σ with chan := rest }
  | hFile {σ : State} {i : Nat} {p : Path} {S : List Byte} {t' : Tree} : σ.status = .running →
      σ.queue[σ.healed]? = some i → s.files[i]? = some (p, S) → healFile σ.tree p S = .ok t' →
      Step bs maxSize s σ .hFile { σ with healed := σ.healed + 1, tree := t' }
  | hFileErr {σ : State} {i : Nat} : σ.status = .running → σ.queue[σ.healed]? = some i →
      (∀ p S, s.files[i]? = some (p, S) → ∀ t', healFile σ.tree p S ≠ .ok t') →
      Step bs maxSize s σ .hFile { σ with status := .healerError }

theorem step_cases {bs maxSize : Nat} {s : Signed} {σ σ' : State} {l : Label}
    (hst : step bs maxSize s σ l = some σ') : Step bs maxSize s σ l σ' := by
  unfold HealTS.step at hst
  split at hst
  · cases hst
  · next hrun =>
    have hrun : σ.status = .running := Classical.not_not.mp hrun
    cases l with
    | vDir =>
      simp only [stepVDir] at hst
      split at hst
      · cases hst
      · next p hp =>
        split at hst
        · next w hw => injection hst with hst; subst hst; exact .vDir hrun hp hw
        · next hne =>
          injection hst with hst; subst hst
          exact .vDirErr hrun hp (fun w hw => hne w hw)
    | vDirLate =>
      simp only [stepVDirLate] at hst
      split at hst
      · cases hst
      · next p hp => injection hst with hst; subst hst; exact .vDirLate hrun hp
    | vSymlink =>
      simp only [stepVSymlink] at hst
      split at hst
      · next hd =>
        split at hst
        · cases hst
        · next p dest hp =>
          split at hst
          · next w hw => injection hst with hst; subst hst; exact .vSymlink hrun hd hp hw
          · next hne =>
            injection hst with hst; subst hst
            exact .vSymlinkErr hrun hd hp (fun w hw => hne w hw)
      · cases hst
    | vSymlinkLate =>
      simp only [stepVSymlinkLate] at hst
      split at hst
      · next hd =>
        split at hst
        · cases hst
        · next e hp => injection hst with hst; subst hst; exact .vSymlinkLate hrun hd hp
      · cases hst
    | vFile ws =>
      simp only [stepVFile] at hst
      split at hst
      · next hd =>
        split at hst
        · cases hst
        · next p S hp =>
          split at hst
          · next hw => injection hst with hst; subst hst; exact .vFile hrun hd.1 hd.2 hp hw
          · cases hst
      · cases hst
    | vDone =>
      simp only [stepVDone] at hst
      split at hst
      · next hd => injection hst with hst; subst hst; exact .vDone hrun hd.1 hd.2.1 hd.2.2.1 hd.2.2.2
      · cases hst
    | hWound =>
      simp only [stepHWound] at hst
      split at hst
      · cases hst
      · next w rest hc =>
        split at hst
        · next hk =>
          split at hst
          · next p hp =>
            split at hst
            · next t' q' hh => injection hst with hst; subst hst; exact .hDir hrun hc hk hp hh
            · next e hh =>
              injection hst with hst; subst hst
              refine .hDirErr hrun hc hk ?_
              intro p' hp' r hr
              rw [hp] at hp'; injection hp' with hp'; subst hp'
              rw [hh] at hr; cases hr
          · next hp =>
            injection hst with hst; subst hst
            refine .hDirErr hrun hc hk ?_
            intro p' hp'; rw [hp] at hp'; cases hp'
        · next hk =>
          split at hst
          · next p d hp =>
            split at hst
            · next t' hh => injection hst with hst; subst hst; exact .hSym hrun hc hk hp hh
            · next e hh =>
              injection hst with hst; subst hst
              refine .hSymErr hrun hc hk ?_
              intro p' d' hp' t' ht'
              rw [hp] at hp'; injection hp' with hp'; injection hp' with h1 h2; subst h1; subst h2
              rw [hh] at ht'; cases ht'
          · next hp =>
            injection hst with hst; subst hst
            refine .hSymErr hrun hc hk ?_
            intro p' d' hp'; rw [hp] at hp'; cases hp'
        · next hk => injection hst with hst; subst hst; exact .hQueue hrun hc hk
        · next hk => injection hst with hst; subst hst; exact .hClosed hrun hc hk
    | hFile =>
      simp only [stepHFile] at hst
      split at hst
      · cases hst
      · next i hq =>
        split at hst
        · next p S hp =>
          split at hst
          · next t' hh => injection hst with hst; subst hst; exact .hFile hrun hq hp hh
          · next e hh =>
            injection hst with hst; subst hst
            refine .hFileErr hrun hq ?_
            intro p' S' hp' t' ht'
            rw [hp] at hp'; injection hp' with hp'; injection hp' with h1 h2; subst h1; subst h2
            rw [hh] at ht'; cases ht'
        · next hp =>
          injection hst with hst; subst hst
          refine .hFileErr hrun hq ?_
          intro p' S' hp'; rw [hp] at hp'; cases hp'

/-! ### (i) what is healthy stays healthy; unrelated paths are never touched -/

theorem Inv.step_keeps {bs maxSize : Nat} {s : Signed} (hs : WF s) {σ σ' : State} {l : Label}
    (h : Inv s σ) (hst : Step bs maxSize s σ l σ') : Keeps s σ.tree σ'.tree := by
  have hrefl : Keeps s σ.tree σ.tree := Keeps.refl h.tinv
  cases hst with
  | vDir => exact hrefl
  | vDirLate => exact hrefl
  | vDirErr => exact hrefl
  | vSymlink => exact hrefl
  | vSymlinkLate => exact hrefl
  | vSymlinkErr => exact hrefl
  | vFile => exact hrefl
  | vDone => exact hrefl
  | hDir _ hc hk hp hh => exact (h.hWound_dir hs hc hk hp hh).2
  | hDirErr => exact hrefl
  | hSym _ hc hk hp hh =>
    obtain ⟨t'', h1, hstp⟩ := h.healSymlink_ok hs hc hk hp
    rw [hh] at h1; injection h1 with h1; subst h1
    exact (leafStep_keeps hs (sym_leaf hp) hstp).1
  | hSymErr => exact hrefl
  | hQueue => exact hrefl
  | hClosed => exact hrefl
  | hFile _ hq hp hh =>
    obtain ⟨t'', h1, hstp⟩ := h.healFile_ok hs hq hp
    rw [hh] at h1; injection h1 with h1; subst h1
    exact (leafStep_keeps hs (file_leaf hp) hstp).1
  | hFileErr => exact hrefl

theorem Inv.reach_keeps (bs : Nat) (hbs : 0 < bs) (maxSize : Nat) {s : Signed} (hs : WF s) {σ₀ σ : State}
    (h : Inv s σ₀) (hr : Reach bs maxSize s σ₀ σ) : Keeps s σ₀.tree σ.tree := by
  induction hr with
  | refl => exact Keeps.refl h.tinv
  | step hr' hst ih => exact ih.trans ((h.reach bs hbs maxSize hs hr').step_keeps hs (step_cases hst))

/-! ### terminal states -/

theorem Inv.terminal {s : Signed} (hs : WF s) {σ : State} (h : Inv s σ) (ht : σ.terminal) :
    AllDirs s σ.tree ∧ ∀ e ∈ leaves s, σ.tree.get e.1 = some e.2 := by
  obtain ⟨hcl, hch, hq⟩ := ht
  obtain ⟨c1, c2, c3⟩ := h.closedDone hcl
  have hA : AllDirs s σ.tree := h.allDirs hs c1 (by rw [hch]; intro w hw; cases hw)
  refine ⟨hA, ?_⟩
  intro e he
  have hnl := not_linked_of_allDirs hs hA (leaf_mem_allPaths he)
  rcases mem_leaves he with ⟨x, hx, rfl⟩ | ⟨x, hx, rfl⟩
  · obtain ⟨j, hj⟩ := List.getElem?_of_mem hx
    have hlt : j < s.symlinks.length := (List.getElem?_eq_some_iff.mp hj).1
    rcases h.syms j x hj (by omega) with h1 | ⟨w, hw, _⟩ | h1
    · exact h1
    · rw [hch] at hw; cases hw
    · exact absurd h1 hnl
  · obtain ⟨j, hj⟩ := List.getElem?_of_mem hx
    have hlt : j < s.files.length := (List.getElem?_eq_some_iff.mp hj).1
    rcases h.files j x hj (by omega) with h1 | ⟨w, hw, _⟩ | h3 | h4
    · exact h1
    · rw [hch] at hw; cases hw
    · rw [List.drop_eq_nil_of_le hq] at h3; cases h3
    · exact absurd h4 hnl

/-! ### no healer failure when directories are listed parents-first; no failure at all when moreover no signed
    directory is a symlink -/

theorem dirEntry_isOk {t : Tree} (hI : TInv t) {p : Path} (hp : Plain t p) (i : Nat) :
    ∃ w, dirEntry t i p = .ok w := by
  rw [dirEntry_of_get hI hp]
  split <;> exact ⟨_, rfl⟩

theorem symlinkEntry_isOk {t : Tree} (hI : TInv t) {p : Path} (hp : Plain t p) (i : Nat) (dest : String) :
    ∃ w, symlinkEntry t i p dest = .ok w := by
  rw [symlinkEntry_of_get hI hp]
  split
  · split <;> exact ⟨_, rfl⟩
  · exact ⟨_, rfl⟩

/-- the parent of the directory whose wound is at the head of the channel is a directory already -/
theorem Inv.parent_ready {s : Signed} (hs : WF s) (hpf : PFirst s) {σ : State} (h : Inv s σ) {w : Wound}
    {rest : List Wound} {p : Path} (hc : σ.chan = w :: rest) (hk : w.kind = .dir)
    (hp : s.dirs[w.index]? = some p) : IsDir σ.tree p.dropLast := by
  by_cases hl : p.length ≤ 1
  · have : p.dropLast = [] := by
      apply List.eq_nil_of_length_eq_zero
      simp; omega
    rw [this]; exact isDir_nil _
  · obtain ⟨hlt, hget⟩ := List.getElem?_eq_some_iff.mp hp
    have hpm : p ∈ s.dirs := List.mem_of_getElem? hp
    have hmem := hpf w.index hlt (p.length - 1) (by omega) (by rw [hget]; omega)
    rw [hget, ← List.dropLast_eq_take] at hmem
    obtain ⟨j, hjm, hj⟩ := List.mem_take_iff_getElem.mp hmem
    have hjlt : j < w.index := by omega
    have hj' : s.dirs[j]? = some p.dropLast := by
      rw [List.getElem?_eq_some_iff]; exact ⟨by omega, hj⟩
    have hwm : w ∈ σ.chan := by rw [hc]; simp
    have hwi := h.chanDir w hwm hk
    rcases h.dirs j _ hj' (by omega) with h1 | ⟨x, hx, hxk, hxi⟩ | h1
    · exact h1
    · exfalso
      have hsorted := h.sorted
      rw [hc] at hsorted hx
      rcases List.mem_cons.mp hx with rfl | hx
      · omega
      · have := ((List.pairwise_cons.mp hsorted).1 x hx).2 hk hxk
        omega
    · -- a link above the parent is a link above `p`
      exfalso
      have hpl := h.head_plain hs hc hk hp
      obtain ⟨i, hi1, hi2, x, hx⟩ := h1
      simp only [List.length_dropLast] at hi2
      rw [List.dropLast_eq_take, List.take_take, Nat.min_eq_left (by omega)] at hx
      exact hpl.2 i hi1 (by omega) x hx

/-- with parents-first listing no heal call fails, whatever the tree -/
theorem Inv.no_healer_fail {bs maxSize : Nat} {s : Signed} (hs : WF s) (hpf : PFirst s) {σ σ' : State} {l : Label}
    (h : Inv s σ) (hst : Step bs maxSize s σ l σ') : σ'.status ≠ .healerError ∨ σ.status = .healerError := by
  have keep : σ.status = .running → σ'.status = σ.status → σ'.status ≠ .healerError ∨ σ.status = .healerError := by
    intro hr he; left; rw [he, hr]; intro h'; cases h'
  cases hst with
  | vDir hr => exact keep hr rfl
  | vDirLate hr => exact keep hr rfl
  | vDirErr => left; intro h'; cases h'
  | vSymlink hr => exact keep hr rfl
  | vSymlinkLate hr => exact keep hr rfl
  | vSymlinkErr => left; intro h'; cases h'
  | vFile hr => exact keep hr rfl
  | vDone hr => exact keep hr rfl
  | hDir hr => exact keep hr rfl
  | @hDirErr w rest _ hc hk hne =>
    exfalso
    have hwm : w ∈ σ.chan := by rw [hc]; simp
    have hlt : w.index < s.dirs.length := Nat.lt_of_lt_of_le (h.chanDir w hwm hk) h.posLe.1
    have hp : s.dirs[w.index]? = some s.dirs[w.index] := List.getElem?_eq_getElem hlt
    have hpm : s.dirs[w.index] ∈ s.dirs := List.mem_of_getElem? hp
    have hdepth : healDepth s = (s.dirs.length - 1) + 2 := by
      simp only [healDepth]; omega
    obtain ⟨r, hr⟩ := healDir_ok hs hpf h.tinv hpm (h.parent_ready hs hpf hc hk hp) (s.dirs.length - 1) σ.queue
    rw [← hdepth] at hr
    exact hne _ hp r hr
  | hSym hr => exact keep hr rfl
  | @hSymErr w rest _ hc hk hne =>
    exfalso
    have hwm : w ∈ σ.chan := by rw [hc]; simp
    have hlt : w.index < s.symlinks.length := Nat.lt_of_lt_of_le (h.chanSym w hwm hk).1 h.posLe.2.1
    have hp : s.symlinks[w.index]? = some (s.symlinks[w.index].1, s.symlinks[w.index].2) :=
      List.getElem?_eq_getElem hlt
    obtain ⟨t', ht', _⟩ := h.healSymlink_ok hs hc hk hp
    exact hne _ _ hp t' ht'
  | hQueue hr => exact keep hr rfl
  | hClosed hr => exact keep hr rfl
  | hFile hr => exact keep hr rfl
  | @hFileErr i _ hq hne =>
    exfalso
    have him : i ∈ σ.queue := List.mem_of_getElem? hq
    obtain ⟨e, hp, _⟩ := h.queueReady i him
    obtain ⟨t', ht', _⟩ := h.healFile_ok hs hq (p := e.1) (S := e.2) hp
    exact hne _ _ hp t' ht'

theorem Inv.reach_no_healer_fail (bs : Nat) (hbs : 0 < bs) (maxSize : Nat) {s : Signed} (hs : WF s)
    (hpf : PFirst s) {σ₀ σ : State} (h : Inv s σ₀) (h0 : σ₀.status ≠ .healerError)
    (hr : Reach bs maxSize s σ₀ σ) : σ.status ≠ .healerError := by
  induction hr with
  | refl => exact h0
  | step hr' hst ih =>
    rcases (h.reach bs hbs maxSize hs hr').no_healer_fail hs hpf (step_cases hst) with h1 | h1
    · exact h1
    · exact absurd h1 ih

/-- … and the validator does not stop with an error either when no signed directory is a symlink -/
theorem Inv.no_fail {bs maxSize : Nat} {s : Signed} (hs : WF s) (hpf : PFirst s) {σ σ' : State} {l : Label}
    (h : Inv s σ) (hn : NoSymDirs s σ.tree) (hst : Step bs maxSize s σ l σ') : σ'.status = .running := by
  have hhf := h.no_healer_fail hs hpf hst
  cases hst with
  | vDir hr => exact hr
  | vDirLate hr => exact hr
  | vDirErr _ hp hne =>
    exfalso
    obtain ⟨w, hw⟩ := dirEntry_isOk h.tinv
      (hs.plain hn (mem_allPaths_dir (List.mem_of_getElem? hp))) σ.dirPos
    exact hne w hw
  | vSymlink hr => exact hr
  | vSymlinkLate hr => exact hr
  | vSymlinkErr _ _ hp hne =>
    exfalso
    obtain ⟨w, hw⟩ := symlinkEntry_isOk h.tinv
      (hs.plain hn (leaf_mem_allPaths (sym_leaf hp))) σ.symPos _
    exact hne w hw
  | vFile hr => exact hr
  | vDone hr => exact hr
  | hDir hr => exact hr
  | hDirErr hr => rcases hhf with h1 | h1 <;> simp_all
  | hSym hr => exact hr
  | hSymErr hr => rcases hhf with h1 | h1 <;> simp_all
  | hQueue hr => exact hr
  | hClosed hr => exact hr
  | hFile hr => exact hr
  | hFileErr hr => rcases hhf with h1 | h1 <;> simp_all

theorem Inv.reach_no_fail (bs : Nat) (hbs : 0 < bs) (maxSize : Nat) {s : Signed} (hs : WF s) (hpf : PFirst s)
    {σ₀ σ : State} (h : Inv s σ₀) (hn : NoSymDirs s σ₀.tree) (h0 : σ₀.status = .running)
    (hr : Reach bs maxSize s σ₀ σ) : σ.status = .running := by
  induction hr with
  | refl => exact h0
  | step hr' hst _ =>
    exact (h.reach bs hbs maxSize hs hr').no_fail hs hpf
      ((h.reach_keeps bs hbs maxSize hs hr').nosym hn) (step_cases hst)

/-! ### (iii) entries no heal step has touched look as they did at the start -/

theorem nodup_symPaths {s : Signed} (hs : WF s) : (s.symlinks.map (·.1)).Nodup := by
  have hnd := hs.distinct
  simp only [allPaths, List.append_assoc] at hnd
  exact (List.nodup_append.mp (List.nodup_append.mp hnd).2.1).1

theorem nodup_filePaths {s : Signed} (hs : WF s) : (s.files.map (·.1)).Nodup := by
  have hnd := hs.distinct
  simp only [allPaths, List.append_assoc] at hnd
  exact (List.nodup_append.mp (List.nodup_append.mp hnd).2.1).2.1

theorem file_index_inj {s : Signed} (hs : WF s) {j j' : Nat} {e e' : Path × List Byte}
    (hj : s.files[j]? = some e) (hj' : s.files[j']? = some e') (hp : e.1 = e'.1) : j = j' := by
  have hlt : j < (s.files.map (·.1)).length := by
    simpa using (List.getElem?_eq_some_iff.mp hj).1
  refine (List.getElem?_inj hlt (nodup_filePaths hs)).mp ?_
  rw [List.getElem?_map, List.getElem?_map, hj, hj']
  simp [hp]

/-- Relative to the initial tree `t0` (statements about what is STORED at the signed paths): a file entry that
    has not been rewritten holds what it held at the start; a symlink entry the validator has not reached yet
    holds what it held at the start unless `healBelow` has already put it in place; a directory entry not reached
    yet holds what it held at the start unless a heal step has already made it a directory. -/
structure Untouched (s : Signed) (t0 : Tree) (σ : State) : Prop where
  syms : ∀ j e, s.symlinks[j]? = some e → σ.symPos ≤ j →
    σ.tree.get e.1 = t0.get e.1 ∨ σ.tree.get e.1 = some (.symlink e.2)
  files : ∀ j e, s.files[j]? = some e → j ∉ σ.queue.take σ.healed → σ.tree.get e.1 = t0.get e.1
  dirs : ∀ j p, s.dirs[j]? = some p → σ.dirPos ≤ j → σ.tree.get p = t0.get p ∨ IsDir σ.tree p

theorem Untouched.init (s : Signed) (t : Tree) : Untouched s t (init t) :=
  ⟨fun _ _ _ _ => .inl rfl, fun _ _ _ _ => rfl, fun _ _ _ _ => .inl rfl⟩

theorem Untouched.step {bs maxSize : Nat} {s : Signed} (hs : WF s) {t0 : Tree} {σ σ' : State} {l : Label}
    (h : Inv s σ) (hu : Untouched s t0 σ) (hst : Step bs maxSize s σ l σ') : Untouched s t0 σ' := by
  -- a step that leaves the tree alone and does not move positions backwards / un-rewrite files
  have same : ∀ σ' : State, σ'.tree = σ.tree → σ.symPos ≤ σ'.symPos → σ.dirPos ≤ σ'.dirPos →
      σ'.queue.take σ'.healed = σ.queue.take σ.healed → Untouched s t0 σ' := by
    intro σ' ht h1 h2 h3
    refine ⟨?_, ?_, ?_⟩
    · intro j e hj hle; rw [ht]; exact hu.syms j e hj (by omega)
    · intro j e hj hn; rw [ht]; rw [h3] at hn; exact hu.files j e hj hn
    · intro j p hj hle; rw [ht]; exact hu.dirs j p hj (by omega)
  -- a leaf step at an entry that is not among those still owed
  have leaf : ∀ (e : Path × Node) (t' : Tree) (σ' : State), e ∈ leaves s → StepAt σ.tree e.1 e.2 t' →
      σ'.tree = t' → σ'.dirPos = σ.dirPos →
      (∀ j x, s.symlinks[j]? = some x → σ'.symPos ≤ j → x.1 ≠ e.1 ∧ σ.symPos ≤ j) →
      (∀ j x, s.files[j]? = some x → j ∉ σ'.queue.take σ'.healed → x.1 ≠ e.1 ∧ j ∉ σ.queue.take σ.healed) →
      Untouched s t0 σ' := by
    intro e t' σ' he hstp ht hdp hsy hfi
    obtain ⟨_, _, hsame⟩ := leafStep_keeps hs he hstp
    refine ⟨?_, ?_, ?_⟩
    · intro j x hj hle
      obtain ⟨h1, h2⟩ := hsy j x hj hle
      rw [ht, hsame _ (leaf_mem_allPaths (sym_leaf hj)) h1]
      exact hu.syms j x hj h2
    · intro j x hj hn
      obtain ⟨h1, h2⟩ := hfi j x hj hn
      rw [ht, hsame _ (leaf_mem_allPaths (file_leaf hj)) h1]
      exact hu.files j x hj h2
    · intro j p hj hle
      have hpm : p ∈ s.dirs := List.mem_of_getElem? hj
      have := hsame p (mem_allPaths_dir hpm) (fun h' => hs.leaf_not_dir he (h' ▸ hpm))
      rw [ht, IsDir, this]
      exact hu.dirs j p hj (by omega)
  cases hst with
  | vDir => exact same _ rfl (Nat.le_refl _) (Nat.le_succ _) rfl
  | vDirLate => exact same _ rfl (Nat.le_refl _) (Nat.le_succ _) rfl
  | vDirErr => exact same _ rfl (Nat.le_refl _) (Nat.le_refl _) rfl
  | vSymlink => exact same _ rfl (Nat.le_succ _) (Nat.le_refl _) rfl
  | vSymlinkLate => exact same _ rfl (Nat.le_succ _) (Nat.le_refl _) rfl
  | vSymlinkErr => exact same _ rfl (Nat.le_refl _) (Nat.le_refl _) rfl
  | vFile => exact same _ rfl (Nat.le_refl _) (Nat.le_refl _) rfl
  | vDone => exact same _ rfl (Nat.le_refl _) (Nat.le_refl _) rfl
  | hDirErr => exact same _ rfl (Nat.le_refl _) (Nat.le_refl _) rfl
  | hSymErr => exact same _ rfl (Nat.le_refl _) (Nat.le_refl _) rfl
  | hFileErr => exact same _ rfl (Nat.le_refl _) (Nat.le_refl _) rfl
  | hClosed => exact same _ rfl (Nat.le_refl _) (Nat.le_refl _) rfl
  | hQueue =>
    refine same _ rfl (Nat.le_refl _) (Nat.le_refl _) ?_
    simp only
    obtain ⟨r, hr⟩ := enqueue_prefix σ.queue _
    rw [hr]
    exact List.take_append_of_le_length h.healedLe
  | @hDir w rest p t' q' _ hc hk hp hh =>
    have hpm : p ∈ s.dirs := List.mem_of_getElem? hp
    have hdepth : healDepth s = (s.dirs.length - 1) + 2 := by
      have := List.length_pos_of_mem hpm
      simp only [healDepth]; omega
    have hext := healDir_ext s _ _ _ _ _ _ hh
    rw [hdepth] at hh
    have heff := healDir_effect hs h.tinv hpm (h.head_plain hs hc hk hp) hh
    obtain ⟨r, hr, _, _⟩ := hext
    have htake : q'.take σ.healed = σ.queue.take σ.healed := by
      rw [hr]; exact List.take_append_of_le_length h.healedLe
    cases heff with
    | grow a1 a2 a3 a4 _ =>
      refine ⟨?_, ?_, ?_⟩
      · intro j e hj hle
        simp only
        rw [a4 _ (not_prefix_of_leaf hs (sym_leaf hj) hpm)]
        exact hu.syms j e hj hle
      · intro j e hj hn
        simp only at hn ⊢
        rw [htake] at hn
        rw [a4 _ (not_prefix_of_leaf hs (file_leaf hj) hpm)]
        exact hu.files j e hj hn
      · intro j q hj hle
        simp only
        by_cases hq : q <+: p
        · exact .inr (a2 q hq)
        · rw [a4 q hq]
          rcases hu.dirs j q hj hle with h1 | h1
          · exact .inl h1
          · right; rw [IsDir, a4 q hq]; exact h1
    | replaced n hn hg hpar hB b2 b3 _ =>
      refine ⟨?_, ?_, ?_⟩
      · intro j e hj hle
        simp only
        have hne : e.1 ≠ p := fun h' => hs.leaf_not_dir (sym_leaf hj) (h' ▸ hpm)
        cases hb : isPrefix p e.1 with
        | true => exact .inr (b3 e (List.mem_of_getElem? hj) hb)
        | false => rw [hB.outside e.1 hne hb]; exact hu.syms j e hj hle
      · intro j e hj hnm
        simp only at hnm ⊢
        rw [htake] at hnm
        have hleaf := file_leaf hj
        have hne : e.1 ≠ p := fun h' => hs.leaf_not_dir hleaf (h' ▸ hpm)
        cases hb : isPrefix p e.1 with
        | true =>
          rw [← hu.files j e hj hnm, below_none h.tinv hg hn hb]
          rcases hB.inside e.1 hb with h1 | h1 | ⟨l, hl, hle⟩
          · exact h1
          · exact absurd h1.2 (hs.leaf_not_dir hleaf)
          · exfalso
            obtain ⟨x, hx, rfl⟩ := List.mem_map.mp hl
            have hxl := sym_leaf' hx
            rcases hle with h1 | h1
            · have := hs.leaf_fun hxl hleaf h1
              simp only [Prod.mk.injEq] at this
              cases this.2
            · have := hs.leaf_not_below hxl (leaf_mem_allPaths hleaf)
              simp only at this
              rw [this] at h1; cases h1
        | false => rw [hB.outside e.1 hne hb]; exact hu.files j e hj hnm
      · intro j q hj hle
        simp only
        by_cases hqp : q = p
        · rw [hqp]; exact .inr hB.self
        · cases hb : isPrefix p q with
          | true => exact .inr (b2 q (List.mem_of_getElem? hj) hb)
          | false =>
            rw [IsDir, hB.outside q hqp hb]
            exact hu.dirs j q hj hle
  | @hSym w rest p d t' _ hc hk hp hh =>
    obtain ⟨t'', h1, hstp⟩ := h.healSymlink_ok hs hc hk hp
    rw [hh] at h1; injection h1 with h1; subst h1
    have hwm : w ∈ σ.chan := by rw [hc]; simp
    have hwi := (h.chanSym w hwm hk).1
    refine leaf (p, .symlink d) _ _ (sym_leaf hp) hstp rfl rfl ?_ ?_
    · intro j x hj hle
      refine ⟨?_, hle⟩
      intro hpe
      have := hs.leaf_fun (sym_leaf hj) (sym_leaf hp) hpe
      have hlt : j < (s.symlinks.map (·.1)).length := by
        simpa using (List.getElem?_eq_some_iff.mp hj).1
      have : j = w.index := by
        refine (List.getElem?_inj hlt (nodup_symPaths hs)).mp ?_
        rw [List.getElem?_map, List.getElem?_map, hj, hp]
        simp [hpe]
      simp only at hle
      omega
    · intro j x hj hn
      refine ⟨?_, hn⟩
      intro hpe
      have := hs.leaf_fun (file_leaf hj) (sym_leaf hp) hpe
      simp only [Prod.mk.injEq] at this
      cases this.2
  | @hFile i p S t' _ hq hp hh =>
    obtain ⟨t'', h1, hstp⟩ := h.healFile_ok hs hq hp
    rw [hh] at h1; injection h1 with h1; subst h1
    have htake : σ.queue.take (σ.healed + 1) = σ.queue.take σ.healed ++ [i] := by
      rw [List.take_add_one, hq]; rfl
    refine leaf (p, .file S) _ _ (file_leaf hp) hstp rfl rfl ?_ ?_
    · intro j x hj hle
      refine ⟨?_, hle⟩
      intro hpe
      have := hs.leaf_fun (sym_leaf hj) (file_leaf hp) hpe
      simp only [Prod.mk.injEq] at this
      cases this.2
    · intro j x hj hn
      simp only at hn
      rw [htake] at hn
      refine ⟨?_, fun h' => hn (List.mem_append_left _ h')⟩
      intro hpe
      have := file_index_inj hs hj hp hpe
      subst this
      exact hn (List.mem_append_right _ (by simp))

theorem Untouched.reach (bs : Nat) (hbs : 0 < bs) (maxSize : Nat) {s : Signed} (hs : WF s) {t : Tree}
    {σ : State} (h : Inv s (HealTS.init t)) (hr : Reach bs maxSize s (HealTS.init t) σ) : Untouched s t σ := by
  induction hr with
  | refl => exact Untouched.init s t
  | step hr' hst ih => exact ih.step hs (h.reach bs hbs maxSize hs hr') (step_cases hst)

/-! ### progress and termination -/

theorem progress (bs : Nat) (hbs : 0 < bs) (maxSize : Nat) (s : Signed) (σ : State)
    (hrun : σ.status = .running) (hnt : ¬ σ.terminal) : ∃ l σ', step bs maxSize s σ l = some σ' := by
  have hrun' : ¬ σ.status ≠ .running := fun h => h hrun
  cases hd : s.dirs[σ.dirPos]? with
  | some p =>
    refine ⟨.vDir, ?_⟩
    simp only [HealTS.step, hrun', if_false, stepVDir, hd]
    split <;> exact ⟨_, rfl⟩
  | none =>
    have hdl : s.dirs.length ≤ σ.dirPos := List.getElem?_eq_none_iff.mp hd
    cases hsy : s.symlinks[σ.symPos]? with
    | some e =>
      obtain ⟨p, dest⟩ := e
      refine ⟨.vSymlink, ?_⟩
      simp only [HealTS.step, hrun', if_false, stepVSymlink, hdl, if_true, hsy]
      split <;> exact ⟨_, rfl⟩
    | none =>
      have hsl : s.symlinks.length ≤ σ.symPos := List.getElem?_eq_none_iff.mp hsy
      cases hf : s.files[σ.filePos]? with
      | some e =>
        obtain ⟨p, S⟩ := e
        refine ⟨.vFile (fileEntry bs maxSize σ.tree σ.filePos p S), ?_⟩
        simp only [HealTS.step, hrun', if_false, stepVFile, hdl, hsl, and_self, if_true, hf, fileEntry,
          admissible_exact bs hbs]
        exact ⟨_, rfl⟩
      | none =>
        have hfl : s.files.length ≤ σ.filePos := List.getElem?_eq_none_iff.mp hf
        cases hcl : σ.closed with
        | false =>
          refine ⟨.vDone, ?_⟩
          simp only [HealTS.step, hrun', if_false, stepVDone, hdl, hsl, hfl, hcl, and_self, if_true]
          exact ⟨_, rfl⟩
        | true =>
          cases hch : σ.chan with
          | cons w rest =>
            refine ⟨.hWound, ?_⟩
            simp only [HealTS.step, hrun', if_false, stepHWound, hch]
            split
            · split
              · split <;> exact ⟨_, rfl⟩
              · exact ⟨_, rfl⟩
            · split
              · split <;> exact ⟨_, rfl⟩
              · exact ⟨_, rfl⟩
            · exact ⟨_, rfl⟩
            · exact ⟨_, rfl⟩
          | nil =>
            have hlt : σ.healed < σ.queue.length := by
              apply Classical.byContradiction
              intro hge
              exact hnt ⟨hcl, hch, by omega⟩
            refine ⟨.hFile, ?_⟩
            simp only [HealTS.step, hrun', if_false, stepHFile, List.getElem?_eq_getElem hlt]
            split
            · split <;> exact ⟨_, rfl⟩
            · exact ⟨_, rfl⟩

/-- the lexicographic order on the measure -/
def mlt (a b : Nat × Nat) : Prop := Prod.Lex (· < ·) (· < ·) a b

theorem mlt_wf : WellFounded mlt := (Prod.lex Nat.lt_wfRel Nat.lt_wfRel).wf

theorem measure_decreases {bs maxSize : Nat} {s : Signed} {σ σ' : State} {l : Label}
    (hst : Step bs maxSize s σ l σ') : mlt (measure s σ') (measure s σ) := by
  unfold mlt
  rw [Prod.lex_def]
  -- receiving a wound: the channel gets shorter, the queue grows by at most `s.files.length`
  have recv : ∀ (w : Wound) (rest : List Wound) (q' : List Nat), σ.status = .running → σ.chan = w :: rest →
      q'.length ≤ σ.queue.length + s.files.length + 1 →
      (measure s { σ with chan := rest, queue := q' }).1 = (measure s σ).1 ∧
      (measure s { σ with chan := rest, queue := q' }).2 < (measure s σ).2 := by
    intro w rest q' hr hc hq
    simp only [measure, hr, hc, List.length_cons, Nat.mul_succ]
    refine ⟨trivial, ?_⟩
    generalize (s.files.length + 2) * rest.length = m
    omega
  cases hst with
  | vDir hr hp _ =>
    have := (List.getElem?_eq_some_iff.mp hp).1
    left; simp only [measure, hr]; omega
  | vDirLate hr hp =>
    have := (List.getElem?_eq_some_iff.mp hp).1
    left; simp only [measure, hr]; omega
  | vDirErr hr => left; simp [measure, hr]
  | vSymlink hr _ hp _ =>
    have := (List.getElem?_eq_some_iff.mp hp).1
    left; simp only [measure, hr]; omega
  | vSymlinkLate hr _ hp =>
    have := (List.getElem?_eq_some_iff.mp hp).1
    left; simp only [measure, hr]; omega
  | vSymlinkErr hr => left; simp [measure, hr]
  | vFile hr _ _ hp _ =>
    have := (List.getElem?_eq_some_iff.mp hp).1
    left; simp only [measure, hr]; omega
  | vDone hr _ _ _ hc => left; simp [measure, hr, hc]
  | @hDir w rest p t' q' hr hc _ _ hh =>
    right
    have := (healDir_ext s _ _ _ _ _ _ hh).length_le.2
    exact recv w rest q' hr hc (by omega)
  | hDirErr hr => left; simp [measure, hr]
  | @hSym w rest _ _ _ hr hc =>
    right
    exact recv w rest σ.queue hr hc (by omega)
  | hSymErr hr => left; simp [measure, hr]
  | @hQueue w rest hr hc =>
    right
    refine recv w rest _ hr hc ?_
    unfold enqueue
    split
    · omega
    · simp only [List.length_append, List.length_singleton]; omega
  | @hClosed w rest hr hc =>
    right
    exact recv w rest σ.queue hr hc (by omega)
  | hFile hr hq =>
    have := (List.getElem?_eq_some_iff.mp hq).1
    right; simp only [measure, hr]; exact ⟨trivial, by omega⟩
  | hFileErr hr => left; simp [measure, hr]

/-- no infinite run: the successor relation is well-founded -/
theorem step_wf (bs maxSize : Nat) (s : Signed) :
    WellFounded (fun σ' σ : State => ∃ l, step bs maxSize s σ l = some σ') := by
  refine Subrelation.wf (r := InvImage mlt (measure s)) ?_ (InvImage.wf _ mlt_wf)
  intro σ' σ ⟨l, hl⟩
  exact measure_decreases (step_cases hl)

/-! ### the sequential schedule is one run of the transition system -/

section Sequential
variable {bs maxSize : Nat} {s : Signed} {σ₀ : State}

/-- the directory pass on a tree nobody touches: `vDir` for every entry -/
theorem sim_dirs : ∀ (ps : List Path) (σ : State) (ws : List Wound),
    Reach bs maxSize s σ₀ σ → σ.status = .running → (∀ k, ps[k]? = s.dirs[σ.dirPos + k]?) →
    passFold (dirEntry σ.tree) σ.dirPos ps = .ok ws →
    Reach bs maxSize s σ₀ { σ with dirPos := σ.dirPos + ps.length, chan := σ.chan ++ ws } := by
  intro ps
  induction ps with
  | nil =>
    intro σ ws hr _ _ hf
    simp only [passFold, Outcome.ok.injEq] at hf
    subst hf
    simpa using hr
  | cons p rest ih =>
    intro σ ws hr hrun hps hf
    simp only [passFold] at hf
    obtain ⟨w, hw, hf⟩ := outcome_bind_ok hf
    obtain ⟨ws', hws', hf⟩ := outcome_bind_ok hf
    simp only [Outcome.ok.injEq] at hf
    subst hf
    have hp : s.dirs[σ.dirPos]? = some p := by simpa using (hps 0).symm
    have hstep : step bs maxSize s σ .vDir = some { σ with dirPos := σ.dirPos + 1, chan := σ.chan ++ w } := by
      simp [HealTS.step, hrun, stepVDir, hp, hw]
    have := ih _ ws' (.step hr hstep) hrun (by
      intro k
      have := hps (k + 1)
      simp only [List.getElem?_cons_succ] at this
      rw [this]
      congr 1
      simp only; omega) hws'
    have e : ({ σ with dirPos := σ.dirPos + (p :: rest).length, chan := σ.chan ++ (w ++ ws') } : State) =
        { ({ σ with dirPos := σ.dirPos + 1, chan := σ.chan ++ w } : State) with
          dirPos := σ.dirPos + 1 + rest.length, chan := σ.chan ++ w ++ ws' } := by
      simp; omega
    rw [e]
    exact this

theorem sim_syms : ∀ (sl : List (Path × String)) (σ : State) (ws : List Wound),
    Reach bs maxSize s σ₀ σ → σ.status = .running → s.dirs.length ≤ σ.dirPos →
    (∀ k, sl[k]? = s.symlinks[σ.symPos + k]?) →
    passFold (fun i e => symlinkEntry σ.tree i e.1 e.2) σ.symPos sl = .ok ws →
    Reach bs maxSize s σ₀ { σ with symPos := σ.symPos + sl.length, chan := σ.chan ++ ws } := by
  intro sl
  induction sl with
  | nil =>
    intro σ ws hr _ _ _ hf
    simp only [passFold, Outcome.ok.injEq] at hf
    subst hf
    simpa using hr
  | cons e rest ih =>
    intro σ ws hr hrun hd hps hf
    obtain ⟨p, dest⟩ := e
    simp only [passFold] at hf
    obtain ⟨w, hw, hf⟩ := outcome_bind_ok hf
    obtain ⟨ws', hws', hf⟩ := outcome_bind_ok hf
    simp only [Outcome.ok.injEq] at hf
    subst hf
    have hp : s.symlinks[σ.symPos]? = some (p, dest) := by simpa using (hps 0).symm
    have hstep : step bs maxSize s σ .vSymlink =
        some { σ with symPos := σ.symPos + 1, chan := σ.chan ++ w } := by
      simp [HealTS.step, hrun, stepVSymlink, hd, hp, hw]
    have := ih _ ws' (.step hr hstep) hrun hd (by
      intro k
      have := hps (k + 1)
      simp only [List.getElem?_cons_succ] at this
      rw [this]
      congr 1
      simp only; omega) hws'
    have e : ({ σ with symPos := σ.symPos + ((p, dest) :: rest).length, chan := σ.chan ++ (w ++ ws') } : State) =
        { ({ σ with symPos := σ.symPos + 1, chan := σ.chan ++ w } : State) with
          symPos := σ.symPos + 1 + rest.length, chan := σ.chan ++ w ++ ws' } := by
      simp; omega
    rw [e]
    exact this

theorem sim_files (hbs : 0 < bs) : ∀ (fl : List (Path × List Byte)) (σ : State),
    Reach bs maxSize s σ₀ σ → σ.status = .running → s.dirs.length ≤ σ.dirPos → s.symlinks.length ≤ σ.symPos →
    (∀ k, fl[k]? = s.files[σ.filePos + k]?) →
    Reach bs maxSize s σ₀ { σ with filePos := σ.filePos + fl.length,
                                   chan := σ.chan ++ filePassWounds bs maxSize σ.tree σ.filePos fl } := by
  intro fl
  induction fl with
  | nil =>
    intro σ hr _ _ _ _
    simpa [filePassWounds] using hr
  | cons e rest ih =>
    intro σ hr hrun hd hsy hps
    obtain ⟨p, S⟩ := e
    have hp : s.files[σ.filePos]? = some (p, S) := by simpa using (hps 0).symm
    have hstep : step bs maxSize s σ (.vFile (fileEntry bs maxSize σ.tree σ.filePos p S)) =
        some { σ with filePos := σ.filePos + 1, chan := σ.chan ++ fileEntry bs maxSize σ.tree σ.filePos p S } := by
      simp [HealTS.step, hrun, stepVFile, hd, hsy, hp, fileEntry, admissible_exact bs hbs]
    have := ih _ (.step hr hstep) hrun hd hsy (by
      intro k
      have := hps (k + 1)
      simp only [List.getElem?_cons_succ] at this
      rw [this]
      congr 1
      simp only; omega)
    have e : ({ σ with filePos := σ.filePos + ((p, S) :: rest).length,
                       chan := σ.chan ++ filePassWounds bs maxSize σ.tree σ.filePos ((p, S) :: rest) } : State) =
        { ({ σ with filePos := σ.filePos + 1,
                    chan := σ.chan ++ fileEntry bs maxSize σ.tree σ.filePos p S } : State) with
          filePos := σ.filePos + 1 + rest.length,
          chan := σ.chan ++ fileEntry bs maxSize σ.tree σ.filePos p S ++
            filePassWounds bs maxSize σ.tree (σ.filePos + 1) rest } := by
      simp [filePassWounds, fileEntry]; omega
    rw [e]
    exact this

/-- the healer drains the channel: `hWound` for every wound, as `processWounds` -/
theorem sim_wounds : ∀ (ws : List Wound) (σ : State) (t₁ : Tree) (q₁ : List Nat),
    Reach bs maxSize s σ₀ σ → σ.status = .running → σ.chan = ws →
    processWounds s ws σ.tree σ.queue = .ok (t₁, q₁) →
    Reach bs maxSize s σ₀ { σ with chan := [], tree := t₁, queue := q₁ } := by
  intro ws
  induction ws with
  | nil =>
    intro σ t₁ q₁ hr _ hc hp
    simp only [processWounds, Except.ok.injEq, Prod.mk.injEq] at hp
    obtain ⟨rfl, rfl⟩ := hp
    rw [← hc]
    exact hr
  | cons w rest ih =>
    intro σ t₁ q₁ hr hrun hc hp
    unfold processWounds at hp
    cases hk : w.kind with
    | dir =>
      simp only [hk] at hp
      cases hd : s.dirs[w.index]? with
      | none => simp [hd] at hp
      | some p =>
        simp only [hd] at hp
        cases hh : healDir s (healDepth s) σ.tree σ.queue p with
        | error e => simp [hh] at hp
        | ok r =>
          obtain ⟨t', q'⟩ := r
          simp only [hh] at hp
          have hstep : step bs maxSize s σ .hWound = some { σ with chan := rest, tree := t', queue := q' } := by
            simp [HealTS.step, hrun, stepHWound, hc, hk, hd, hh]
          exact ih { σ with chan := rest, tree := t', queue := q' } t₁ q₁ (.step hr hstep) hrun rfl hp
    | symlink =>
      simp only [hk] at hp
      cases hd : s.symlinks[w.index]? with
      | none => simp [hd] at hp
      | some e =>
        obtain ⟨p, d⟩ := e
        simp only [hd] at hp
        cases hh : healSymlink σ.tree p d with
        | error e => simp [hh, bind, Except.bind] at hp
        | ok t' =>
          simp only [hh, bind, Except.bind] at hp
          have hstep : step bs maxSize s σ .hWound = some { σ with chan := rest, tree := t' } := by
            simp [HealTS.step, hrun, stepHWound, hc, hk, hd, hh]
          exact ih { σ with chan := rest, tree := t' } t₁ q₁ (.step hr hstep) hrun rfl hp
    | file =>
      simp only [hk] at hp
      have hstep : step bs maxSize s σ .hWound = some { σ with
          chan := rest
          queue := enqueue σ.queue w.index } := by
        simp [HealTS.step, hrun, stepHWound, hc, hk]
      exact ih { σ with
          chan := rest
          queue := enqueue σ.queue w.index }
        t₁ q₁ (.step hr hstep) hrun rfl hp
    | closedFile =>
      simp only [hk] at hp
      have hstep : step bs maxSize s σ .hWound = some { σ with chan := rest } := by
        simp [HealTS.step, hrun, stepHWound, hc, hk]
      exact ih { σ with chan := rest } t₁ q₁ (.step hr hstep) hrun rfl hp

/-- … and when `processWounds` fails, so does the run: a state with status `healerError` is reached -/
theorem sim_wounds_err : ∀ (ws : List Wound) (σ : State) (e : Err),
    Reach bs maxSize s σ₀ σ → σ.status = .running → σ.chan = ws →
    processWounds s ws σ.tree σ.queue = .error e →
    ∃ σ', Reach bs maxSize s σ₀ σ' ∧ σ'.status = .healerError := by
  intro ws
  induction ws with
  | nil =>
    intro σ e _ _ _ hp
    simp [processWounds] at hp
  | cons w rest ih =>
    intro σ e hr hrun hc hp
    have fail : step bs maxSize s σ .hWound = some { σ with status := .healerError } →
        ∃ σ', Reach bs maxSize s σ₀ σ' ∧ σ'.status = .healerError :=
      fun hstep => ⟨_, .step hr hstep, rfl⟩
    unfold processWounds at hp
    cases hk : w.kind with
    | dir =>
      simp only [hk] at hp
      cases hd : s.dirs[w.index]? with
      | none => exact fail (by simp [HealTS.step, hrun, stepHWound, hc, hk, hd])
      | some p =>
        simp only [hd] at hp
        cases hh : healDir s (healDepth s) σ.tree σ.queue p with
        | error e' => exact fail (by simp [HealTS.step, hrun, stepHWound, hc, hk, hd, hh])
        | ok r =>
          obtain ⟨t', q'⟩ := r
          simp only [hh] at hp
          have hstep : step bs maxSize s σ .hWound = some { σ with chan := rest, tree := t', queue := q' } := by
            simp [HealTS.step, hrun, stepHWound, hc, hk, hd, hh]
          exact ih { σ with chan := rest, tree := t', queue := q' } e (.step hr hstep) hrun rfl hp
    | symlink =>
      simp only [hk] at hp
      cases hd : s.symlinks[w.index]? with
      | none => exact fail (by simp [HealTS.step, hrun, stepHWound, hc, hk, hd])
      | some x =>
        obtain ⟨p, d⟩ := x
        simp only [hd] at hp
        cases hh : healSymlink σ.tree p d with
        | error e' => exact fail (by simp [HealTS.step, hrun, stepHWound, hc, hk, hd, hh])
        | ok t' =>
          simp only [hh, bind, Except.bind] at hp
          have hstep : step bs maxSize s σ .hWound = some { σ with chan := rest, tree := t' } := by
            simp [HealTS.step, hrun, stepHWound, hc, hk, hd, hh]
          exact ih { σ with chan := rest, tree := t' } e (.step hr hstep) hrun rfl hp
    | file =>
      simp only [hk] at hp
      have hstep : step bs maxSize s σ .hWound = some { σ with
          chan := rest
          queue := enqueue σ.queue w.index } := by
        simp [HealTS.step, hrun, stepHWound, hc, hk]
      exact ih { σ with
          chan := rest
          queue := enqueue σ.queue w.index }
        e (.step hr hstep) hrun rfl hp
    | closedFile =>
      simp only [hk] at hp
      have hstep : step bs maxSize s σ .hWound = some { σ with chan := rest } := by
        simp [HealTS.step, hrun, stepHWound, hc, hk]
      exact ih { σ with chan := rest } e (.step hr hstep) hrun rfl hp

/-- the healing goroutine rewrites the queued files: `hFile` for every queued index, as `healFiles` -/
theorem sim_heal : ∀ (l : List Nat) (σ : State) (t₂ : Tree),
    Reach bs maxSize s σ₀ σ → σ.status = .running → σ.queue.drop σ.healed = l →
    healFiles s l σ.tree = .ok t₂ →
    Reach bs maxSize s σ₀ { σ with tree := t₂, healed := σ.healed + l.length } := by
  intro l
  induction l with
  | nil =>
    intro σ t₂ hr _ _ hp
    simp only [healFiles, Except.ok.injEq] at hp
    subst hp
    exact hr
  | cons i rest ih =>
    intro σ t₂ hr hrun hq hp
    have hlt : σ.healed < σ.queue.length := by
      apply Classical.byContradiction
      intro hge
      rw [List.drop_eq_nil_of_le (by omega)] at hq
      cases hq
    rw [List.drop_eq_getElem_cons hlt] at hq
    injection hq with hi hrest
    have hqi : σ.queue[σ.healed]? = some i := by rw [List.getElem?_eq_getElem hlt, hi]
    unfold healFiles at hp
    cases hf : s.files[i]? with
    | none => simp [hf] at hp
    | some e =>
      obtain ⟨p, S⟩ := e
      simp only [hf] at hp
      cases hh : healFile σ.tree p S with
      | error e => simp [hh, bind, Except.bind] at hp
      | ok t' =>
        simp only [hh, bind, Except.bind] at hp
        have hstep : step bs maxSize s σ .hFile = some { σ with healed := σ.healed + 1, tree := t' } := by
          simp [HealTS.step, hrun, stepHFile, hqi, hf, hh]
        have := ih { σ with healed := σ.healed + 1, tree := t' } t₂ (.step hr hstep) hrun hrest hp
        have e : ({ σ with tree := t₂, healed := σ.healed + (i :: rest).length } : State) =
            { ({ σ with healed := σ.healed + 1, tree := t' } : State) with
              tree := t₂, healed := σ.healed + 1 + rest.length } := by
          simp; omega
        rw [e]
        exact this

/-- … and when `healFiles` fails, so does the run -/
theorem sim_heal_err : ∀ (l : List Nat) (σ : State) (e : Err),
    Reach bs maxSize s σ₀ σ → σ.status = .running → σ.queue.drop σ.healed = l →
    healFiles s l σ.tree = .error e →
    ∃ σ', Reach bs maxSize s σ₀ σ' ∧ σ'.status = .healerError := by
  intro l
  induction l with
  | nil =>
    intro σ e _ _ _ hp
    simp [healFiles] at hp
  | cons i rest ih =>
    intro σ e hr hrun hq hp
    have fail : step bs maxSize s σ .hFile = some { σ with status := .healerError } →
        ∃ σ', Reach bs maxSize s σ₀ σ' ∧ σ'.status = .healerError :=
      fun hstep => ⟨_, .step hr hstep, rfl⟩
    have hlt : σ.healed < σ.queue.length := by
      apply Classical.byContradiction
      intro hge
      rw [List.drop_eq_nil_of_le (by omega)] at hq
      cases hq
    rw [List.drop_eq_getElem_cons hlt] at hq
    injection hq with hi hrest
    have hqi : σ.queue[σ.healed]? = some i := by rw [List.getElem?_eq_getElem hlt, hi]
    unfold healFiles at hp
    cases hf : s.files[i]? with
    | none => exact fail (by simp [HealTS.step, hrun, stepHFile, hqi, hf])
    | some x =>
      obtain ⟨p, S⟩ := x
      simp only [hf] at hp
      cases hh : healFile σ.tree p S with
      | error e' => exact fail (by simp [HealTS.step, hrun, stepHFile, hqi, hf, hh])
      | ok t' =>
        simp only [hh, bind, Except.bind] at hp
        have hstep : step bs maxSize s σ .hFile = some { σ with healed := σ.healed + 1, tree := t' } := by
          simp [HealTS.step, hrun, stepHFile, hqi, hf, hh]
        exact ih { σ with healed := σ.healed + 1, tree := t' } e (.step hr hstep) hrun hrest hp

end Sequential

/-- the run of the three validator passes on a tree nobody touches, then `close(Wounds)` -/
theorem validator_first_reach (bs : Nat) (hbs : 0 < bs) (maxSize : Nat) (s : Signed) (t : Tree) (ws : List Wound)
    (hv : validate bs maxSize s t = .ok ws) :
    Reach bs maxSize s (HealTS.init t) {
      tree := t
      dirPos := s.dirs.length
      symPos := s.symlinks.length
      filePos := s.files.length
      chan := ws
      closed := true } := by
  rw [validate_eq_fold] at hv
  obtain ⟨dw, hdw, hv⟩ := outcome_bind_ok hv
  obtain ⟨sw, hsw, hv⟩ := outcome_bind_ok hv
  simp only [Outcome.ok.injEq] at hv
  subst hv
  have r1 := sim_dirs (bs := bs) (maxSize := maxSize) (s := s) s.dirs (HealTS.init t) dw .refl rfl
    (by intro k; simp [HealTS.init]) hdw
  have r2 := sim_syms s.symlinks _ sw r1 rfl (by simp [HealTS.init])
    (by intro k; simp [HealTS.init]) hsw
  have r3 := sim_files hbs s.files _ r2 rfl (by simp [HealTS.init]) (by simp [HealTS.init])
    (by intro k; simp [HealTS.init])
  exact Reach.step r3 (l := .vDone) (by simp [HealTS.step, stepVDone, HealTS.init])

/-- The run of `validateAndHeal` is one run of the transition system: all validator steps (with the exact
    verdicts), `vDone`, all `hWound`s, all `hFile`s. -/
theorem sequential_reach (bs : Nat) (hbs : 0 < bs) (maxSize : Nat) (s : Signed) (t t' : Tree)
    (h : validateAndHeal bs maxSize s t = .ok t') :
    ∃ σ, Reach bs maxSize s (HealTS.init t) σ ∧ σ.terminal ∧ σ.status = .running ∧ σ.tree = t' := by
  unfold validateAndHeal at h
  cases hv : validate bs maxSize s t with
  | err e => simp [hv] at h
  | panic e => simp [hv] at h
  | ok ws =>
    simp only [hv] at h
    cases hp : processWounds s ws t [] with
    | error e => simp [hp] at h
    | ok r =>
      obtain ⟨t₁, q⟩ := r
      simp only [hp] at h
      cases hh : healFiles s q t₁ with
      | error e => simp [hh] at h
      | ok t₂ =>
        simp only [hh, Outcome.ok.injEq] at h
        subst h
        have r4 := validator_first_reach bs hbs maxSize s t ws hv
        have r5 := sim_wounds _ _ t₁ q r4 rfl rfl hp
        have r6 := sim_heal q _ t₂ r5 rfl (by simp) hh
        exact ⟨_, r6, ⟨rfl, rfl, by simp⟩, rfl, rfl⟩

/-- … and a run of `validateAndHeal` in which the healer fails (after a validation that completed) is a run of
    the transition system that ends in a state with status `healerError`. -/
theorem sequential_fail_reach (bs : Nat) (hbs : 0 < bs) (maxSize : Nat) (s : Signed) (t : Tree) (ws : List Wound)
    (hv : validate bs maxSize s t = .ok ws) (h : ∀ t', validateAndHeal bs maxSize s t ≠ .ok t') :
    ∃ σ, Reach bs maxSize s (HealTS.init t) σ ∧ σ.status = .healerError := by
  have r4 := validator_first_reach bs hbs maxSize s t ws hv
  unfold validateAndHeal at h
  simp only [hv] at h
  cases hp : processWounds s ws t [] with
  | error e => exact sim_wounds_err _ _ e r4 rfl rfl hp
  | ok r =>
    obtain ⟨t₁, q⟩ := r
    simp only [hp] at h
    have r5 := sim_wounds _ _ t₁ q r4 rfl rfl hp
    cases hh : healFiles s q t₁ with
    | error e => exact sim_heal_err q _ e r5 rfl (by simp) hh
    | ok t₂ =>
      simp only [hh] at h
      exact absurd rfl (h t₂)

/-- an explicit schedule that executes is a run -/
theorem reach_of_run {bs maxSize : Nat} {s : Signed} {σ₀ : State} : ∀ (ls : List Label) (σ σ' : State),
    Reach bs maxSize s σ₀ σ → run bs maxSize s σ ls = some σ' → Reach bs maxSize s σ₀ σ' := by
  intro ls
  induction ls with
  | nil =>
    intro σ σ' hr h
    simp only [run, Option.some.injEq] at h
    exact h ▸ hr
  | cons l ls ih =>
    intro σ σ' hr h
    simp only [run] at h
    cases hst : step bs maxSize s σ l with
    | none => simp [hst] at h
    | some σ₁ =>
      simp only [hst] at h
      exact ih σ₁ σ' (.step hr hst) h

theorem Reach.trans {bs maxSize : Nat} {s : Signed} {σ₀ σ₁ σ₂ : State} (a : Reach bs maxSize s σ₀ σ₁)
    (b : Reach bs maxSize s σ₁ σ₂) : Reach bs maxSize s σ₀ σ₂ := by
  induction b with
  | refl => exact a
  | step _ hst ih => exact .step ih hst

end Wharf.HealTS

