/-
  Lemmas for the concurrent validate-and-heal transition system (Model/HealTS.lean): the per-entry verdicts
  fold to the whole-pass functions, the invariant of every interleaving, what it gives at terminal states,
  absence of failures under parents-first listing, the sequential schedule as one run, progress and
  termination.  Reuses the heal-step lemmas of Proofs/HealRestore.lean.
-/
import Wharf.Model.HealTS
import Wharf.Proofs.HealRestore

namespace Wharf.HealTS
open Wharf Wharf.FS Wharf.Validate Wharf.TreeValidate Wharf.Heal Wharf.Archive

/-! ### folding the per-entry verdicts over a fixed tree -/

theorem bind_ok_id {α} (x : Outcome α) : (x.bind fun a => .ok a) = x := by
  cases x <;> rfl

theorem dirWounds_eq_fold (t : Tree) : ∀ (ps : List Path) (i : Nat),
    dirWounds t i ps = passFold (dirEntry t) i ps := by
  intro ps
  induction ps with
  | nil => intro i; simp [dirWounds, passFold]
  | cons p rest ih =>
    intro i
    simp only [dirWounds, passFold, dirEntry, ih]
    cases lstat t p with
    | error e =>
      by_cases hn : notExist e = true
      · simp only [hn, if_true, Outcome.bind, List.cons_append, List.nil_append]
      · simp only [hn, Outcome.bind]; rfl
    | ok n =>
      cases n with
      | dir => simp only [Outcome.bind, List.nil_append]; exact (bind_ok_id _).symm
      | file d => simp only [Outcome.bind, List.cons_append, List.nil_append]
      | symlink d => simp only [Outcome.bind, List.cons_append, List.nil_append]

theorem symlinkWounds_eq_fold (t : Tree) : ∀ (sl : List (Path × String)) (i : Nat),
    symlinkWounds t i sl = passFold (fun i e => symlinkEntry t i e.1 e.2) i sl := by
  intro sl
  induction sl with
  | nil => intro i; simp [symlinkWounds, passFold]
  | cons e rest ih =>
    intro i
    obtain ⟨p, dest⟩ := e
    simp only [symlinkWounds, passFold, symlinkEntry, ih]
    cases lstat t p with
    | error e =>
      by_cases hn : notExist e = true
      · simp only [hn, if_true, Outcome.bind, List.cons_append, List.nil_append]
      · simp only [hn, Outcome.bind]; rfl
    | ok n =>
      cases n with
      | dir => simp only [Outcome.bind, List.cons_append, List.nil_append]
      | file d => simp only [Outcome.bind, List.cons_append, List.nil_append]
      | symlink d =>
        by_cases hd : d = dest
        · simp only [hd, if_true, Outcome.bind, List.nil_append]; exact (bind_ok_id _).symm
        · simp only [hd, if_false, Outcome.bind, List.cons_append, List.nil_append]

theorem filePassWounds_eq_fold (bs maxSize : Nat) (t : Tree) : ∀ (fs : List (Path × List Byte)) (i : Nat),
    filePassWounds bs maxSize t i fs =
      match fs with
      | [] => []
      | e :: rest => fileEntry bs maxSize t i e.1 e.2 ++ filePassWounds bs maxSize t (i + 1) rest := by
  intro fs i
  cases fs with
  | nil => rfl
  | cons e rest => obtain ⟨p, S⟩ := e; rfl

/-- The three passes of a complete validation on a FIXED tree are the folds of the per-entry verdicts. -/
theorem validate_eq_fold (bs maxSize : Nat) (s : Signed) (t : Tree) :
    validate bs maxSize s t =
      (passFold (dirEntry t) 0 s.dirs).bind fun dw =>
      (passFold (fun i e => symlinkEntry t i e.1 e.2) 0 s.symlinks).bind fun sw =>
      .ok (dw ++ sw ++ filePassWounds bs maxSize t 0 s.files) := by
  simp only [validate, dirWounds_eq_fold, symlinkWounds_eq_fold]

/-! ### `lstat` on a path without symlinks on the way: the only errors are "not there" -/

theorem resolve_plain_err (t : Tree) : ∀ (rest done : Path) (fuel : Nat) (e : Err),
    rest.length < fuel → ".." ∉ rest.dropLast → PlainFrom t done rest →
    resolve t fuel done rest = .error e → e = .enoent ∨ e = .enotdir := by
  intro rest
  induction rest with
  | nil =>
    intro done fuel e hf _ _ h
    cases fuel with
    | zero => omega
    | succ f => simp [resolve] at h
  | cons c r ih =>
    intro done fuel e hf hdd hpl h
    cases fuel with
    | zero => omega
    | succ f =>
      cases r with
      | nil => simp [resolve] at h
      | cons c2 r2 =>
        have hc : c ≠ ".." := by
          intro h; apply hdd; simp [h]
        simp only [resolve, if_neg hc] at h
        cases hg : t.get (done ++ [c]) with
        | none => simp only [hg, Except.error.injEq] at h; exact .inl h.symm
        | some x =>
          cases x with
          | file d => simp only [hg, Except.error.injEq] at h; exact .inr h.symm
          | symlink d =>
            exfalso
            exact hpl 1 (by omega) (by simp) d (by simpa using hg)
          | dir =>
            simp only [hg] at h
            exact ih (done ++ [c]) f e (by simpa using hf) (by
                intro h; apply hdd
                have : (c :: c2 :: r2).dropLast = c :: (c2 :: r2).dropLast := rfl
                rw [this]; exact List.mem_cons_of_mem _ h)
              (by
                intro j hj1 hj2 d
                have := hpl (j + 1) (by omega) (by simp at hj2 ⊢; omega) d
                simpa using this) h

theorem lstat_plain_err {t : Tree} {p : Path} {e : Err} (hp : Plain t p) (h : lstat t p = .error e) :
    notExist e = true := by
  unfold lstat at h
  cases hc : canon t p with
  | error e' =>
    simp only [hc, bind, Except.bind, Except.error.injEq] at h
    subst h
    unfold canon at hc
    rcases resolve_plain_err t p [] _ e' (by omega) (fun h => hp.1 (mem_of_mem_dropLast h))
      (by intro j h1 h2 d; simpa using hp.2 j h1 h2 d) hc with rfl | rfl <;> rfl
  | ok q =>
    simp only [hc, bind, Except.bind] at h
    cases hg : t.get q with
    | none => simp only [hg, Except.error.injEq] at h; subst h; rfl
    | some x => simp [hg] at h

/-! ### under the invariant a verdict depends on `tree.get p` only -/

/-- what the validator's `lstat` amounts to on a symlink-free path: the node stored at the path, if any
    (the two "not there" errors ENOENT / ENOTDIR are not told apart by any verdict). -/
theorem lstat_view {t : Tree} (hI : TInv t) {p : Path} (hp : Plain t p) :
    (∀ n, lstat t p = .ok n ↔ t.get p = some n) ∧
    (t.get p = none → ∃ e, lstat t p = .error e ∧ notExist e = true) := by
  refine ⟨fun n => ⟨fun h => (lstat_plain hp h).1, fun h => lstat_of_get hI hp.1 h⟩, ?_⟩
  intro hg
  cases hl : lstat t p with
  | error e => exact ⟨e, rfl, lstat_plain_err hp hl⟩
  | ok n => rw [(lstat_plain hp hl).1] at hg; cases hg

theorem dirEntry_of_get {t : Tree} (hI : TInv t) {p : Path} (hp : Plain t p) (i : Nat) :
    dirEntry t i p = match t.get p with
      | some .dir => .ok []
      | _ => .ok [⟨.dir, i, 0, 0⟩] := by
  obtain ⟨h1, h2⟩ := lstat_view hI hp
  unfold dirEntry
  cases hg : t.get p with
  | none =>
    obtain ⟨e, he, hn⟩ := h2 hg
    simp only [he, hn, if_true]
  | some n =>
    rw [(h1 n).mpr hg]
    cases n <;> rfl

theorem symlinkEntry_of_get {t : Tree} (hI : TInv t) {p : Path} (hp : Plain t p) (i : Nat) (dest : String) :
    symlinkEntry t i p dest = match t.get p with
      | some (.symlink d) => if d = dest then .ok [] else .ok [⟨.symlink, i, 0, 0⟩]
      | _ => .ok [⟨.symlink, i, 0, 0⟩] := by
  obtain ⟨h1, h2⟩ := lstat_view hI hp
  unfold symlinkEntry
  cases hg : t.get p with
  | none =>
    obtain ⟨e, he, hn⟩ := h2 hg
    simp only [he, hn, if_true]
  | some n =>
    rw [(h1 n).mpr hg]
    cases n <;> rfl

theorem onDisk_of_get {t : Tree} (hI : TInv t) {p : Path} (hp : Plain t p) :
    onDisk t p = match t.get p with
      | some .dir => .dir
      | some (.symlink _) => .symlink
      | some (.file d) => .file d
      | none => .missing := by
  obtain ⟨h1, h2⟩ := lstat_view hI hp
  unfold onDisk
  cases hg : t.get p with
  | none =>
    obtain ⟨e, he, _⟩ := h2 hg
    simp only [he]
  | some n =>
    rw [(h1 n).mpr hg]
    cases n <;> rfl

/-- Two trees that store the same node at `p` get the same verdicts for an entry at `p`. -/
theorem dirEntry_eq_of_get {t t' : Tree} (hI : TInv t) (hI' : TInv t') {p : Path} (hp : Plain t p)
    (hp' : Plain t' p) (h : t'.get p = t.get p) (i : Nat) : dirEntry t' i p = dirEntry t i p := by
  rw [dirEntry_of_get hI hp, dirEntry_of_get hI' hp', h]

theorem symlinkEntry_eq_of_get {t t' : Tree} (hI : TInv t) (hI' : TInv t') {p : Path} (hp : Plain t p)
    (hp' : Plain t' p) (h : t'.get p = t.get p) (i : Nat) (dest : String) :
    symlinkEntry t' i p dest = symlinkEntry t i p dest := by
  rw [symlinkEntry_of_get hI hp, symlinkEntry_of_get hI' hp', h]

theorem fileEntry_eq_of_get (bs maxSize : Nat) {t t' : Tree} (hI : TInv t) (hI' : TInv t') {p : Path}
    (hp : Plain t p) (hp' : Plain t' p) (h : t'.get p = t.get p) (i : Nat) (S : List Byte) :
    fileEntry bs maxSize t' i p S = fileEntry bs maxSize t i p S := by
  unfold fileEntry
  rw [onDisk_of_get hI hp, onDisk_of_get hI' hp', h]

/-! ### what every heal step keeps -/

/-- One heal step on a signed entry, seen from the signed build: the structural invariant and "no signed
    directory is a symlink" survive, a signed directory that is a directory stays one, a signed symlink / file
    that is as signed stays so, and nothing unrelated to the signed paths is touched. -/
structure Keeps (s : Signed) (t t' : Tree) : Prop where
  tinv : TInv t'
  nosym : NoSymDirs s t'
  dirs : ∀ d ∈ s.dirs, IsDir t d → IsDir t' d
  leaves : ∀ e ∈ leaves s, t.get e.1 = some e.2 → t'.get e.1 = some e.2
  unrelated : ∀ q, (∀ p ∈ allPaths s, p ≠ q ∧ isPrefix p q = false ∧ isPrefix q p = false) → t'.get q = t.get q

theorem Keeps.refl {s : Signed} {t : Tree} (hI : TInv t) (hn : NoSymDirs s t) : Keeps s t t :=
  ⟨hI, hn, fun _ _ h => h, fun _ _ h => h, fun _ _ => rfl⟩

theorem Keeps.trans {s : Signed} {t₁ t₂ t₃ : Tree} (a : Keeps s t₁ t₂) (b : Keeps s t₂ t₃) : Keeps s t₁ t₃ :=
  ⟨b.tinv, b.nosym, fun d hd h => b.dirs d hd (a.dirs d hd h), fun e he h => b.leaves e he (a.leaves e he h),
    fun q hq => by rw [b.unrelated q hq, a.unrelated q hq]⟩

/-- a signed path is not a proper prefix of … and not equal to a leaf unless it is that leaf -/
theorem not_prefix_of_leaf {s : Signed} (hs : WF s) {e : Path × Node} (he : e ∈ leaves s) {d : Path}
    (hd : d ∈ s.dirs) : ¬ e.1 <+: d := by
  intro hpre
  rcases prefix_cases hpre with h | h
  · exact hs.leaf_not_dir he (h ▸ hd)
  · rw [hs.leaf_not_below he (mem_allPaths_dir hd)] at h; cases h

/-- Healing a signed directory: it becomes a directory, and see `Keeps`; moreover only prefixes of it change. -/
theorem healDir_keeps {s : Signed} (hs : WF s) {t t' : Tree} (hI : TInv t) (hn : NoSymDirs s t) {d : Path}
    (hd : d ∈ s.dirs) (h : healDir t d = .ok t') :
    Keeps s t t' ∧ IsDir t' d ∧ (∀ q, ¬ q <+: d → t'.get q = t.get q) ∧ (∀ q, q <+: d → IsDir t' q) := by
  have hne : d ≠ [] := (hs.clean d (mem_allPaths_dir hd)).1
  obtain ⟨a1, a2, a3, a4⟩ := healDir_spec hI hne (hs.plainAll hn hd) h
  refine ⟨⟨a1, ?_, ?_, ?_, ?_⟩, a2 d (List.prefix_refl _), a4, a2⟩
  · intro d' hd' x hx
    by_cases hpre : d' <+: d
    · have := a2 d' hpre
      rw [IsDir, hx] at this
      cases this
    · rw [a4 d' hpre] at hx
      exact hn d' hd' x hx
  · intro d' _ hd'
    by_cases hqd : d' = d
    · subst hqd; exact a2 d' (List.prefix_refl _)
    · exact a3 d' _ hqd hd'
  · intro e he hg
    exact a3 e.1 e.2 (fun h' => hs.leaf_not_dir he (h' ▸ hd)) hg
  · intro q hq
    apply a4
    intro hpre
    have hq' := hq d (mem_allPaths_dir hd)
    rcases prefix_cases hpre with h | h
    · exact hq'.1 h.symm
    · rw [hq'.2.2] at h; cases h

/-- Healing a signed symlink or file (`StepAt`): it is as signed afterwards, and see `Keeps`; moreover no other
    signed path changes. -/
theorem leafStep_keeps {s : Signed} (hs : WF s) {t t' : Tree} (hn : NoSymDirs s t) {e : Path × Node}
    (he : e ∈ leaves s) (h : StepAt t e.1 e.2 t') :
    Keeps s t t' ∧ t'.get e.1 = some e.2 ∧ (∀ p ∈ allPaths s, p ≠ e.1 → t'.get p = t.get p) := by
  have hsame : ∀ p ∈ allPaths s, p ≠ e.1 → t'.get p = t.get p :=
    fun p hp hne => h.other p hne (hs.leaf_not_below he hp)
  refine ⟨⟨h.tinv, ?_, ?_, ?_, ?_⟩, h.at_, hsame⟩
  · intro d hd x hx
    rw [hsame d (mem_allPaths_dir hd) (fun h' => hs.leaf_not_dir he (h' ▸ hd))] at hx
    exact hn d hd x hx
  · intro d hd hdir
    rw [IsDir, hsame d (mem_allPaths_dir hd) (fun h' => hs.leaf_not_dir he (h' ▸ hd))]
    exact hdir
  · intro e' he' hg
    by_cases hpe : e'.1 = e.1
    · have := hs.leaf_fun he' he hpe
      subst this
      exact h.at_
    · rw [hsame e'.1 (leaf_mem_allPaths he') hpe]; exact hg
  · intro q hq
    have hq' := hq e.1 (leaf_mem_allPaths he)
    exact h.other q (fun h' => hq'.1 h'.symm) hq'.2.1

/-! ### verdict inversion -/

theorem dirEntry_ok {t : Tree} {i : Nat} {p : Path} {w : List Wound} (h : dirEntry t i p = .ok w) :
    (w = [] ∧ lstat t p = .ok .dir) ∨ w = [⟨.dir, i, 0, 0⟩] := by
  unfold dirEntry at h
  cases hl : lstat t p with
  | error e =>
    rw [hl] at h
    by_cases hn : notExist e = true
    · simp only [hn, if_true, Outcome.ok.injEq] at h; exact .inr h.symm
    · simp [hn] at h
  | ok n =>
    rw [hl] at h
    cases n with
    | dir => simp only [Outcome.ok.injEq] at h; exact .inl ⟨h.symm, rfl⟩
    | file d => simp only [Outcome.ok.injEq] at h; exact .inr h.symm
    | symlink d => simp only [Outcome.ok.injEq] at h; exact .inr h.symm

theorem symlinkEntry_ok {t : Tree} {i : Nat} {p : Path} {dest : String} {w : List Wound}
    (h : symlinkEntry t i p dest = .ok w) :
    (w = [] ∧ lstat t p = .ok (.symlink dest)) ∨ w = [⟨.symlink, i, 0, 0⟩] := by
  unfold symlinkEntry at h
  cases hl : lstat t p with
  | error e =>
    rw [hl] at h
    by_cases hn : notExist e = true
    · simp only [hn, if_true, Outcome.ok.injEq] at h; exact .inr h.symm
    · simp [hn] at h
  | ok n =>
    rw [hl] at h
    cases n with
    | dir => simp only [Outcome.ok.injEq] at h; exact .inr h.symm
    | file d => simp only [Outcome.ok.injEq] at h; exact .inr h.symm
    | symlink d =>
      by_cases hd : d = dest
      · simp only [hd, if_true, Outcome.ok.injEq] at h; exact .inl ⟨h.symm, by rw [hd]⟩
      · simp only [hd, if_false, Outcome.ok.injEq] at h; exact .inr h.symm

/-- a wound of the per-file pass: `.file` or `.closedFile` -/
def FileKind (w : Wound) : Prop := w.kind = .file ∨ w.kind = .closedFile

/-- What an admissible verdict for file entry `i` guarantees: only wounds / markers of file `i`, and a real
    file wound unless the file is on disk exactly as signed. -/
theorem admissible_spec (bs : Nat) (hbs : 0 < bs) (maxSize : Nat) (S : List Byte) (i : Nat) (od : OnDisk)
    (ws : List Wound) (h : admissible i (fileWounds bs maxSize S i od) ws = true) :
    (∀ w ∈ ws, w.index = i ∧ FileKind w) ∧ ((∃ w ∈ ws, w.kind = .file) ∨ od = .file S) := by
  unfold admissible at h
  by_cases he : (realWounds (fileWounds bs maxSize S i od)).isEmpty = true
  · rw [if_pos he] at h
    simp only [decide_eq_true_eq] at h
    subst h
    refine ⟨fun w hw => ⟨(C05.file_wellformed bs hbs maxSize S i od w hw).2,
      fileWounds_kind bs hbs maxSize S i od w hw⟩, ?_⟩
    by_cases hod : od = .file S
    · exact .inr hod
    · exfalso
      obtain ⟨w, hw, hk⟩ := C05.file_detects bs hbs maxSize S i od (fun D hD hDS => hod (hDS ▸ hD))
      have : w ∈ realWounds (fileWounds bs maxSize S i od) :=
        (mem_realWounds w _).mpr ⟨hw, by rw [hk]; intro h'; cases h'⟩
      rw [List.isEmpty_iff.mp he] at this
      cases this
  · rw [if_neg he] at h
    simp only [Bool.and_eq_true, List.all_eq_true, List.any_eq_true, decide_eq_true_eq] at h
    exact ⟨fun w hw => h.1 w hw, .inl h.2⟩

/-- The verdict on the current tree is always admissible (the validator may run undisturbed). -/
theorem admissible_exact (bs : Nat) (hbs : 0 < bs) (maxSize : Nat) (S : List Byte) (i : Nat) (od : OnDisk) :
    admissible i (fileWounds bs maxSize S i od) (fileWounds bs maxSize S i od) = true := by
  unfold admissible
  by_cases he : (realWounds (fileWounds bs maxSize S i od)).isEmpty = true
  · rw [if_pos he]; simp only [decide_true]
  · rw [if_neg he]
    simp only [Bool.and_eq_true, List.all_eq_true, List.any_eq_true, decide_eq_true_eq]
    refine ⟨fun w hw => ⟨(C05.file_wellformed bs hbs maxSize S i od w hw).2,
      fileWounds_kind bs hbs maxSize S i od w hw⟩, ?_⟩
    have hne : realWounds (fileWounds bs maxSize S i od) ≠ [] := fun h => he (by rw [h]; rfl)
    obtain ⟨w, hw⟩ := List.exists_mem_of_ne_nil _ hne
    obtain ⟨hw1, hw2⟩ := (mem_realWounds w _).mp hw
    rcases fileWounds_kind bs hbs maxSize S i od w hw1 with hk | hk
    · exact ⟨w, hw1, hk⟩
    · exact absurd hk hw2

/-! ### the invariant of every interleaving -/

/-- the order in which kinds of wounds enter the channel -/
def rank : WKind → Nat
  | .dir => 0
  | .symlink => 1
  | .file => 2
  | .closedFile => 2

/-- channel order: directory wounds (by increasing index), then symlink wounds, then file wounds / markers -/
def Before (a b : Wound) : Prop :=
  rank a.kind ≤ rank b.kind ∧ (a.kind = .dir → b.kind = .dir → a.index < b.index)

theorem fileKind_of_rank {w : Wound} (h : 2 ≤ rank w.kind) : FileKind w := by
  unfold FileKind
  cases hk : w.kind <;> simp [hk, rank] at h ⊢

theorem rank_fileKind {w : Wound} (h : FileKind w) : rank w.kind = 2 := by
  rcases h with h | h <;> rw [h] <;> rfl

theorem rank_le_two (k : WKind) : rank k ≤ 2 := by cases k <;> simp [rank]

theorem kind_cases (w : Wound) : w.kind = .dir ∨ w.kind = .symlink ∨ FileKind w := by
  unfold FileKind
  cases w.kind <;> simp

structure Inv (s : Signed) (σ : State) : Prop where
  tinv : TInv σ.tree
  nosym : NoSymDirs s σ.tree
  posLe : σ.dirPos ≤ s.dirs.length ∧ σ.symPos ≤ s.symlinks.length ∧ σ.filePos ≤ s.files.length
  closedDone : σ.closed = true →
    s.dirs.length ≤ σ.dirPos ∧ s.symlinks.length ≤ σ.symPos ∧ s.files.length ≤ σ.filePos
  /-- (i)+(ii) a directory entry the validator has passed is a directory or has its wound in the channel -/
  dirs : ∀ j p, s.dirs[j]? = some p → j < σ.dirPos →
    IsDir σ.tree p ∨ ∃ w ∈ σ.chan, w.kind = .dir ∧ w.index = j
  syms : ∀ j e, s.symlinks[j]? = some e → j < σ.symPos →
    σ.tree.get e.1 = some (.symlink e.2) ∨ ∃ w ∈ σ.chan, w.kind = .symlink ∧ w.index = j
  /-- … a file entry: as signed, or a real wound in the channel, or queued and not yet rewritten -/
  files : ∀ j e, s.files[j]? = some e → j < σ.filePos →
    σ.tree.get e.1 = some (.file e.2) ∨ (∃ w ∈ σ.chan, w.kind = .file ∧ w.index = j) ∨
      j ∈ σ.queue.drop σ.healed
  healedOk : ∀ j e, s.files[j]? = some e → j ∈ σ.queue.take σ.healed → σ.tree.get e.1 = some (.file e.2)
  chanDir : ∀ w ∈ σ.chan, w.kind = .dir → w.index < σ.dirPos
  chanSym : ∀ w ∈ σ.chan, w.kind = .symlink → w.index < σ.symPos ∧ s.dirs.length ≤ σ.dirPos
  chanFile : ∀ w ∈ σ.chan, FileKind w →
    w.index < σ.filePos ∧ s.dirs.length ≤ σ.dirPos ∧ s.symlinks.length ≤ σ.symPos
  sorted : σ.chan.Pairwise Before
  /-- a file is queued only after the validator has sent a wound for it -/
  queueLt : ∀ i ∈ σ.queue, i < σ.filePos
  queuePhase : σ.queue ≠ [] →
    s.dirs.length ≤ σ.dirPos ∧ s.symlinks.length ≤ σ.symPos ∧ ∀ w ∈ σ.chan, FileKind w
  healedLe : σ.healed ≤ σ.queue.length

theorem Inv.init {s : Signed} {t : Tree} (hI : TInv t) (hn : NoSymDirs s t) : Inv s (init t) where
  tinv := hI
  nosym := hn
  posLe := ⟨Nat.zero_le _, Nat.zero_le _, Nat.zero_le _⟩
  closedDone := by intro h; cases h
  dirs := by intro j p _ h; simp [HealTS.init] at h
  syms := by intro j p _ h; simp [HealTS.init] at h
  files := by intro j p _ h; simp [HealTS.init] at h
  healedOk := by intro j e _ h; simp [HealTS.init] at h
  chanDir := by intro w h; simp [HealTS.init] at h
  chanSym := by intro w h; simp [HealTS.init] at h
  chanFile := by intro w h; simp [HealTS.init] at h
  sorted := by simp [HealTS.init]
  queueLt := by intro i h; simp [HealTS.init] at h
  queuePhase := by intro h; simp [HealTS.init] at h
  healedLe := by simp [HealTS.init]

/-- the status does not occur in the invariant -/
theorem Inv.setStatus {s : Signed} {σ : State} (h : Inv s σ) (x : Status) : Inv s { σ with status := x } :=
  ⟨h.tinv, h.nosym, h.posLe, h.closedDone, h.dirs, h.syms, h.files, h.healedOk, h.chanDir, h.chanSym,
    h.chanFile, h.sorted, h.queueLt, h.queuePhase, h.healedLe⟩

theorem sym_leaf {s : Signed} {j : Nat} {e : Path × String} (h : s.symlinks[j]? = some e) :
    (e.1, Node.symlink e.2) ∈ leaves s := by
  simp only [leaves, List.mem_append, List.mem_map]
  exact .inl ⟨e, List.mem_of_getElem? h, rfl⟩

theorem file_leaf {s : Signed} {j : Nat} {e : Path × List Byte} (h : s.files[j]? = some e) :
    (e.1, Node.file e.2) ∈ leaves s := by
  simp only [leaves, List.mem_append, List.mem_map]
  exact .inr ⟨e, List.mem_of_getElem? h, rfl⟩

/-- Once the directory pass is over and no directory wound is left in the channel, every signed directory is
    a directory. -/
theorem Inv.allDirs {s : Signed} {σ : State} (h : Inv s σ) (hd : s.dirs.length ≤ σ.dirPos)
    (hc : ∀ w ∈ σ.chan, w.kind ≠ .dir) : AllDirs s σ.tree := by
  intro d hd'
  obtain ⟨j, hj⟩ := List.getElem?_of_mem hd'
  have hlt : j < s.dirs.length := (List.getElem?_eq_some_iff.mp hj).1
  rcases h.dirs j d hj (by omega) with h1 | ⟨w, hw, hk, _⟩
  · exact h1
  · exact absurd hk (hc w hw)

theorem pairwise_of_all {ws : List Wound} (h : ∀ w ∈ ws, FileKind w) : ws.Pairwise Before := by
  induction ws with
  | nil => exact List.Pairwise.nil
  | cons a l ih =>
    refine List.Pairwise.cons ?_ (ih (fun w hw => h w (List.mem_cons_of_mem _ hw)))
    intro b hb
    have ha := h a (by simp)
    have hb' := h b (List.mem_cons_of_mem _ hb)
    refine ⟨by rw [rank_fileKind ha, rank_fileKind hb']; exact Nat.le_refl _, ?_⟩
    intro hk
    rcases ha with ha | ha <;> rw [ha] at hk <;> cases hk

/-! #### validator steps: the tree stays, wounds are appended -/

theorem Inv.vDir {s : Signed} (hs : WF s) {σ : State} (h : Inv s σ) {p : Path} {w : List Wound}
    (hp : s.dirs[σ.dirPos]? = some p)
    (hw : (w = [] ∧ lstat σ.tree p = .ok .dir) ∨ w = [⟨.dir, σ.dirPos, 0, 0⟩]) :
    Inv s { σ with dirPos := σ.dirPos + 1, chan := σ.chan ++ w } := by
  have hlt : σ.dirPos < s.dirs.length := (List.getElem?_eq_some_iff.mp hp).1
  have hpm : p ∈ s.dirs := List.mem_of_getElem? hp
  have hww : ∀ x ∈ w, x = ⟨.dir, σ.dirPos, 0, 0⟩ := by
    intro x hx
    rcases hw with ⟨rfl, _⟩ | rfl
    · cases hx
    · simpa using hx
  have hold : ∀ x ∈ σ.chan, x.kind = .dir := by
    intro x hx
    rcases kind_cases x with hk | hk | hk
    · exact hk
    · have := (h.chanSym x hx hk).2; omega
    · have := (h.chanFile x hx hk).2.1; omega
  refine ⟨h.tinv, h.nosym, ⟨Nat.succ_le_of_lt hlt, h.posLe.2⟩, ?_, ?_, ?_, ?_, h.healedOk, ?_, ?_, ?_, ?_,
    h.queueLt, ?_, h.healedLe⟩
  · intro hc; have := (h.closedDone hc).1; omega
  · intro j q hj hjlt
    simp only at hjlt
    by_cases hjd : j = σ.dirPos
    · subst hjd
      rw [hp] at hj
      injection hj with hj
      subst hj
      rcases hw with ⟨_, hl⟩ | rfl
      · exact .inl (lstat_plain (hs.plain h.nosym (mem_allPaths_dir hpm)) hl).1
      · exact .inr ⟨⟨.dir, σ.dirPos, 0, 0⟩, by simp, rfl, rfl⟩
    · rcases h.dirs j q hj (by omega) with h1 | ⟨x, hx, hk⟩
      · exact .inl h1
      · exact .inr ⟨x, List.mem_append_left _ hx, hk⟩
  · intro j e hj hjlt
    rcases h.syms j e hj hjlt with h1 | ⟨x, hx, hk⟩
    · exact .inl h1
    · exact .inr ⟨x, List.mem_append_left _ hx, hk⟩
  · intro j e hj hjlt
    rcases h.files j e hj hjlt with h1 | ⟨x, hx, hk⟩ | h3
    · exact .inl h1
    · exact .inr (.inl ⟨x, List.mem_append_left _ hx, hk⟩)
    · exact .inr (.inr h3)
  · intro x hx hk
    rcases List.mem_append.mp hx with hx | hx
    · have := h.chanDir x hx hk; simp only; omega
    · rw [hww x hx]; simp
  · intro x hx hk
    rcases List.mem_append.mp hx with hx | hx
    · have := (h.chanSym x hx hk).2; omega
    · rw [hww x hx] at hk; cases hk
  · intro x hx hk
    rcases List.mem_append.mp hx with hx | hx
    · have := (h.chanFile x hx hk).2.1; omega
    · rw [hww x hx] at hk; rcases hk with hk | hk <;> cases hk
  · refine List.pairwise_append.mpr ⟨h.sorted, ?_, ?_⟩
    · rcases hw with ⟨rfl, _⟩ | rfl
      · exact List.Pairwise.nil
      · exact List.pairwise_singleton _ _
    · intro a ha b hb
      rw [hww b hb]
      refine ⟨by rw [hold a ha]; exact Nat.le_refl _, fun hk _ => h.chanDir a ha hk⟩
  · intro hq; have := (h.queuePhase hq).1; omega

theorem Inv.vSymlink {s : Signed} (hs : WF s) {σ : State} (h : Inv s σ) {p : Path} {dest : String}
    {w : List Wound} (hd : s.dirs.length ≤ σ.dirPos)
    (hp : s.symlinks[σ.symPos]? = some (p, dest)) (hw : symlinkEntry σ.tree σ.symPos p dest = .ok w) :
    Inv s { σ with symPos := σ.symPos + 1, chan := σ.chan ++ w } := by
  have hlt : σ.symPos < s.symlinks.length := (List.getElem?_eq_some_iff.mp hp).1
  have hleaf := sym_leaf hp
  have hww : ∀ x ∈ w, x = ⟨.symlink, σ.symPos, 0, 0⟩ := by
    intro x hx
    rcases symlinkEntry_ok hw with ⟨rfl, _⟩ | rfl
    · cases hx
    · simpa using hx
  have hold : ∀ x ∈ σ.chan, rank x.kind ≤ 1 := by
    intro x hx
    rcases kind_cases x with hk | hk | hk
    · rw [hk]; simp [rank]
    · rw [hk]; simp [rank]
    · have := (h.chanFile x hx hk).2.2; omega
  refine ⟨h.tinv, h.nosym, ⟨h.posLe.1, Nat.succ_le_of_lt hlt, h.posLe.2.2⟩, ?_, ?_, ?_, ?_, h.healedOk, ?_, ?_, ?_,
    ?_, h.queueLt, ?_, h.healedLe⟩
  · intro hc; have := (h.closedDone hc).2.1; omega
  · intro j q hj hjlt
    rcases h.dirs j q hj hjlt with h1 | ⟨x, hx, hk⟩
    · exact .inl h1
    · exact .inr ⟨x, List.mem_append_left _ hx, hk⟩
  · intro j e hj hjlt
    simp only at hjlt
    by_cases hjd : j = σ.symPos
    · subst hjd
      rw [hp] at hj
      injection hj with hj
      subst hj
      rcases symlinkEntry_ok hw with ⟨_, hl⟩ | rfl
      · exact .inl (lstat_plain (hs.plain h.nosym (leaf_mem_allPaths hleaf)) hl).1
      · exact .inr ⟨⟨.symlink, σ.symPos, 0, 0⟩, by simp, rfl, rfl⟩
    · rcases h.syms j e hj (by omega) with h1 | ⟨x, hx, hk⟩
      · exact .inl h1
      · exact .inr ⟨x, List.mem_append_left _ hx, hk⟩
  · intro j e hj hjlt
    rcases h.files j e hj hjlt with h1 | ⟨x, hx, hk⟩ | h3
    · exact .inl h1
    · exact .inr (.inl ⟨x, List.mem_append_left _ hx, hk⟩)
    · exact .inr (.inr h3)
  · intro x hx hk
    rcases List.mem_append.mp hx with hx | hx
    · exact h.chanDir x hx hk
    · rw [hww x hx] at hk; cases hk
  · intro x hx hk
    rcases List.mem_append.mp hx with hx | hx
    · have := h.chanSym x hx hk; simp only; omega
    · rw [hww x hx]; simp; omega
  · intro x hx hk
    rcases List.mem_append.mp hx with hx | hx
    · have := (h.chanFile x hx hk).2.2; omega
    · rw [hww x hx] at hk; rcases hk with hk | hk <;> cases hk
  · refine List.pairwise_append.mpr ⟨h.sorted, ?_, ?_⟩
    · rcases symlinkEntry_ok hw with ⟨rfl, _⟩ | rfl
      · exact List.Pairwise.nil
      · exact List.pairwise_singleton _ _
    · intro a ha b hb
      rw [hww b hb]
      exact ⟨hold a ha, fun _ hk => by cases hk⟩
  · intro hq; have := (h.queuePhase hq).2.1; omega

theorem Inv.vFile (bs : Nat) (hbs : 0 < bs) (maxSize : Nat) {s : Signed} (hs : WF s) {σ : State} (h : Inv s σ)
    {p : Path} {S : List Byte} {ws : List Wound} (hd : s.dirs.length ≤ σ.dirPos)
    (hsy : s.symlinks.length ≤ σ.symPos) (hp : s.files[σ.filePos]? = some (p, S))
    (hw : admissible σ.filePos (fileEntry bs maxSize σ.tree σ.filePos p S) ws = true) :
    Inv s { σ with filePos := σ.filePos + 1, chan := σ.chan ++ ws } := by
  have hlt : σ.filePos < s.files.length := (List.getElem?_eq_some_iff.mp hp).1
  have hleaf := file_leaf hp
  obtain ⟨hall, hreal⟩ := admissible_spec bs hbs maxSize S σ.filePos (onDisk σ.tree p) ws hw
  refine ⟨h.tinv, h.nosym, ⟨h.posLe.1, h.posLe.2.1, Nat.succ_le_of_lt hlt⟩, ?_, ?_, ?_, ?_, h.healedOk, ?_, ?_, ?_,
    ?_, ?_, ?_, h.healedLe⟩
  · intro hc; have := (h.closedDone hc).2.2; omega
  · intro j q hj hjlt
    rcases h.dirs j q hj hjlt with h1 | ⟨x, hx, hk⟩
    · exact .inl h1
    · exact .inr ⟨x, List.mem_append_left _ hx, hk⟩
  · intro j e hj hjlt
    rcases h.syms j e hj hjlt with h1 | ⟨x, hx, hk⟩
    · exact .inl h1
    · exact .inr ⟨x, List.mem_append_left _ hx, hk⟩
  · intro j e hj hjlt
    simp only at hjlt
    by_cases hjd : j = σ.filePos
    · subst hjd
      rw [hp] at hj
      injection hj with hj
      subst hj
      rcases hreal with ⟨x, hx, hk⟩ | hod
      · exact .inr (.inl ⟨x, List.mem_append_right _ hx, hk, (hall x hx).1⟩)
      · have hl := (onDisk_file_iff σ.tree p S).mp hod
        exact .inl (lstat_plain (hs.plain h.nosym (leaf_mem_allPaths hleaf)) hl).1
    · rcases h.files j e hj (by omega) with h1 | ⟨x, hx, hk⟩ | h3
      · exact .inl h1
      · exact .inr (.inl ⟨x, List.mem_append_left _ hx, hk⟩)
      · exact .inr (.inr h3)
  · intro x hx hk
    rcases List.mem_append.mp hx with hx | hx
    · exact h.chanDir x hx hk
    · rcases (hall x hx).2 with h' | h' <;> rw [h'] at hk <;> cases hk
  · intro x hx hk
    rcases List.mem_append.mp hx with hx | hx
    · exact h.chanSym x hx hk
    · rcases (hall x hx).2 with h' | h' <;> rw [h'] at hk <;> cases hk
  · intro x hx hk
    rcases List.mem_append.mp hx with hx | hx
    · have := h.chanFile x hx hk; simp only; omega
    · have := (hall x hx).1; simp only; omega
  · refine List.pairwise_append.mpr ⟨h.sorted, pairwise_of_all (fun w hw => (hall w hw).2), ?_⟩
    intro a _ b hb
    refine ⟨by rw [rank_fileKind (hall b hb).2]; exact rank_le_two _, ?_⟩
    intro _ hk
    rcases (hall b hb).2 with h' | h' <;> rw [h'] at hk <;> cases hk
  · intro i hi; have := h.queueLt i hi; simp only; omega
  · intro hq
    obtain ⟨q1, q2, q3⟩ := h.queuePhase hq
    refine ⟨q1, q2, ?_⟩
    intro x hx
    rcases List.mem_append.mp hx with hx | hx
    · exact q3 x hx
    · exact (hall x hx).2

theorem Inv.vDone {s : Signed} {σ : State} (h : Inv s σ)
    (hd : s.dirs.length ≤ σ.dirPos ∧ s.symlinks.length ≤ σ.symPos ∧ s.files.length ≤ σ.filePos) :
    Inv s { σ with closed := true } :=
  ⟨h.tinv, h.nosym, h.posLe, fun _ => hd, h.dirs, h.syms, h.files, h.healedOk, h.chanDir, h.chanSym,
    h.chanFile, h.sorted, h.queueLt, h.queuePhase, h.healedLe⟩

/-! #### healer steps -/

/-- the head of the channel is a symlink wound: the directory pass is over and its wounds are healed -/
theorem Inv.allDirs_sym {s : Signed} {σ : State} (h : Inv s σ) {w : Wound} {rest : List Wound}
    (hc : σ.chan = w :: rest) (hk : w.kind = .symlink) : AllDirs s σ.tree := by
  have hsorted := h.sorted
  rw [hc] at hsorted
  refine h.allDirs (h.chanSym w (by rw [hc]; simp) hk).2 ?_
  intro x hx hxd
  rw [hc] at hx
  rcases List.mem_cons.mp hx with rfl | hx
  · rw [hk] at hxd; cases hxd
  · have := ((List.pairwise_cons.mp hsorted).1 x hx).1
    rw [hk, hxd] at this
    simp [rank] at this

/-- a file is queued: the directory and symlink passes are over and their wounds are healed -/
theorem Inv.allDirs_queue {s : Signed} {σ : State} (h : Inv s σ) (hq : σ.queue ≠ []) : AllDirs s σ.tree := by
  obtain ⟨q1, _, q3⟩ := h.queuePhase hq
  refine h.allDirs q1 ?_
  intro x hx hxd
  rcases q3 x hx with h' | h' <;> rw [h'] at hxd <;> cases hxd

/-- dropping the received wound and replacing the tree by one that `Keeps` everything, where the received
    wound's entry (if any entry pointed at it) is now in place -/
theorem Inv.hWound_tree {s : Signed} {σ : State} (h : Inv s σ) {w : Wound} {rest : List Wound} {t' : Tree}
    (hc : σ.chan = w :: rest) (hK : Keeps s σ.tree t')
    (hdir : ∀ p, w.kind = .dir → s.dirs[w.index]? = some p → IsDir t' p)
    (hsym : ∀ e, w.kind = .symlink → s.symlinks[w.index]? = some e → t'.get e.1 = some (.symlink e.2))
    (hfile : w.kind ≠ .file) :
    Inv s { σ with chan := rest, tree := t' } := by
  have hsub : ∀ x ∈ rest, x ∈ σ.chan := fun x hx => by rw [hc]; exact List.mem_cons_of_mem _ hx
  have hsorted := h.sorted
  rw [hc] at hsorted
  refine ⟨hK.tinv, hK.nosym, h.posLe, h.closedDone, ?_, ?_, ?_, ?_, fun x hx => h.chanDir x (hsub x hx),
    fun x hx => h.chanSym x (hsub x hx), fun x hx => h.chanFile x (hsub x hx), (List.pairwise_cons.mp hsorted).2,
    h.queueLt, ?_, h.healedLe⟩
  · intro j p hj hjlt
    rcases h.dirs j p hj hjlt with h1 | ⟨x, hx, hk, hi⟩
    · exact .inl (hK.dirs p (List.mem_of_getElem? hj) h1)
    · rw [hc] at hx
      rcases List.mem_cons.mp hx with rfl | hx
      · exact .inl (hdir p hk (hi ▸ hj))
      · exact .inr ⟨x, hx, hk, hi⟩
  · intro j e hj hjlt
    rcases h.syms j e hj hjlt with h1 | ⟨x, hx, hk, hi⟩
    · exact .inl (hK.leaves _ (sym_leaf hj) h1)
    · rw [hc] at hx
      rcases List.mem_cons.mp hx with rfl | hx
      · exact .inl (hsym e hk (hi ▸ hj))
      · exact .inr ⟨x, hx, hk, hi⟩
  · intro j e hj hjlt
    rcases h.files j e hj hjlt with h1 | ⟨x, hx, hk, hi⟩ | h3
    · exact .inl (hK.leaves _ (file_leaf hj) h1)
    · rw [hc] at hx
      rcases List.mem_cons.mp hx with rfl | hx
      · exact absurd hk hfile
      · exact .inr (.inl ⟨x, hx, hk, hi⟩)
    · exact .inr (.inr h3)
  · intro j e hj hjm
    exact hK.leaves _ (file_leaf hj) (h.healedOk j e hj hjm)
  · intro hq
    obtain ⟨q1, q2, q3⟩ := h.queuePhase hq
    exact ⟨q1, q2, fun x hx => q3 x (hsub x hx)⟩

theorem Inv.hWound_dir {s : Signed} (hs : WF s) {σ : State} (h : Inv s σ) {w : Wound} {rest : List Wound}
    {p : Path} {t' : Tree} (hc : σ.chan = w :: rest) (hk : w.kind = .dir) (hp : s.dirs[w.index]? = some p)
    (hh : healDir σ.tree p = .ok t') : Inv s { σ with chan := rest, tree := t' } := by
  obtain ⟨hK, hd, _, _⟩ := healDir_keeps hs h.tinv h.nosym (List.mem_of_getElem? hp) hh
  refine h.hWound_tree hc hK ?_ ?_ (by rw [hk]; intro h'; cases h')
  · intro p' _ hp'
    rw [hp] at hp'
    injection hp' with hp'
    exact hp' ▸ hd
  · intro e hk'; rw [hk] at hk'; cases hk'

/-- a symlink wound at the head of the channel is healed without error, by a `StepAt` -/
theorem Inv.healSymlink_ok {s : Signed} (hs : WF s) {σ : State} (h : Inv s σ) {w : Wound} {rest : List Wound}
    {p : Path} {d : String} (hc : σ.chan = w :: rest) (hk : w.kind = .symlink)
    (hp : s.symlinks[w.index]? = some (p, d)) :
    ∃ t', healSymlink σ.tree p d = .ok t' ∧ StepAt σ.tree p (.symlink d) t' := by
  have hleaf := sym_leaf hp
  have hmem := leaf_mem_allPaths hleaf
  exact healSymlink_step h.tinv (hs.clean _ hmem).1 (hs.nodd hmem)
    (hs.parent_dir (h.allDirs_sym hc hk) hmem) d

theorem Inv.hWound_sym {s : Signed} (hs : WF s) {σ : State} (h : Inv s σ) {w : Wound} {rest : List Wound}
    {p : Path} {d : String} {t' : Tree} (hc : σ.chan = w :: rest) (hk : w.kind = .symlink)
    (hp : s.symlinks[w.index]? = some (p, d)) (hh : healSymlink σ.tree p d = .ok t') :
    Inv s { σ with chan := rest, tree := t' } := by
  obtain ⟨t'', h1, hst⟩ := h.healSymlink_ok hs hc hk hp
  rw [hh] at h1
  injection h1 with h1
  subst h1
  obtain ⟨hK, hat, _⟩ := leafStep_keeps hs h.nosym (sym_leaf hp) hst
  refine h.hWound_tree hc hK ?_ ?_ (by rw [hk]; intro h'; cases h')
  · intro p' hk'; rw [hk] at hk'; cases hk'
  · intro e _ he
    rw [hp] at he
    injection he with he
    subst he
    exact hat

theorem Inv.hWound_closed {s : Signed} {σ : State} (h : Inv s σ) {w : Wound} {rest : List Wound}
    (hc : σ.chan = w :: rest) (hk : w.kind = .closedFile) : Inv s { σ with chan := rest } := by
  refine h.hWound_tree (t' := σ.tree) hc (Keeps.refl h.tinv h.nosym) ?_ ?_ (by rw [hk]; intro h'; cases h')
  · intro p' hk'; rw [hk] at hk'; cases hk'
  · intro p' hk'; rw [hk] at hk'; cases hk'

theorem mem_take_or_drop {α} (l : List α) (n : Nat) {x : α} (h : x ∈ l) : x ∈ l.take n ∨ x ∈ l.drop n := by
  rw [← List.take_append_drop n l] at h
  exact List.mem_append.mp h

theorem Inv.hWound_file {s : Signed} {σ : State} (h : Inv s σ) {w : Wound} {rest : List Wound}
    (hc : σ.chan = w :: rest) (hk : w.kind = .file) :
    Inv s { σ with chan := rest,
                   queue := if σ.queue.contains w.index then σ.queue else σ.queue ++ [w.index] } := by
  have hsub : ∀ x ∈ rest, x ∈ σ.chan := fun x hx => by rw [hc]; exact List.mem_cons_of_mem _ hx
  have hwm : w ∈ σ.chan := by rw [hc]; simp
  have hsorted := h.sorted
  rw [hc] at hsorted
  have hwf := h.chanFile w hwm (.inl hk)
  -- the new queue extends the old one
  obtain ⟨ext, hext, hmem, hextall⟩ : ∃ ext,
      (if σ.queue.contains w.index then σ.queue else σ.queue ++ [w.index]) = σ.queue ++ ext ∧
      (w.index ∈ σ.queue ∨ w.index ∈ ext) ∧ ∀ i ∈ ext, i = w.index := by
    by_cases hcon : w.index ∈ σ.queue
    · exact ⟨[], by simp [hcon], .inl hcon, by simp⟩
    · exact ⟨[w.index], by simp [hcon], .inr (by simp), by simp⟩
  rw [hext]
  have hdrop : (σ.queue ++ ext).drop σ.healed = σ.queue.drop σ.healed ++ ext :=
    List.drop_append_of_le_length h.healedLe
  have htake : (σ.queue ++ ext).take σ.healed = σ.queue.take σ.healed :=
    List.take_append_of_le_length h.healedLe
  refine ⟨h.tinv, h.nosym, h.posLe, h.closedDone, ?_, ?_, ?_, ?_, fun x hx => h.chanDir x (hsub x hx),
    fun x hx => h.chanSym x (hsub x hx), fun x hx => h.chanFile x (hsub x hx), (List.pairwise_cons.mp hsorted).2,
    ?_, ?_, ?_⟩
  · intro j p hj hjlt
    rcases h.dirs j p hj hjlt with h1 | ⟨x, hx, hk', hi⟩
    · exact .inl h1
    · rw [hc] at hx
      rcases List.mem_cons.mp hx with rfl | hx
      · rw [hk] at hk'; cases hk'
      · exact .inr ⟨x, hx, hk', hi⟩
  · intro j e hj hjlt
    rcases h.syms j e hj hjlt with h1 | ⟨x, hx, hk', hi⟩
    · exact .inl h1
    · rw [hc] at hx
      rcases List.mem_cons.mp hx with rfl | hx
      · rw [hk] at hk'; cases hk'
      · exact .inr ⟨x, hx, hk', hi⟩
  · intro j e hj hjlt
    simp only
    rw [hdrop]
    rcases h.files j e hj hjlt with h1 | ⟨x, hx, hk', hi⟩ | h3
    · exact .inl h1
    · rw [hc] at hx
      rcases List.mem_cons.mp hx with rfl | hx
      · rw [hi] at hmem
        rcases hmem with hm | hm
        · rcases mem_take_or_drop σ.queue σ.healed hm with h' | h'
          · exact .inl (h.healedOk j e hj h')
          · exact .inr (.inr (List.mem_append_left _ h'))
        · exact .inr (.inr (List.mem_append_right _ hm))
      · exact .inr (.inl ⟨x, hx, hk', hi⟩)
    · exact .inr (.inr (List.mem_append_left _ h3))
  · intro j e hj hjm
    simp only at hjm
    rw [htake] at hjm
    exact h.healedOk j e hj hjm
  · intro i hi
    simp only at hi
    rcases List.mem_append.mp hi with hi | hi
    · exact h.queueLt i hi
    · rw [hextall i hi]; exact hwf.1
  · intro _
    refine ⟨hwf.2.1, hwf.2.2, ?_⟩
    intro x hx
    have := ((List.pairwise_cons.mp hsorted).1 x hx).1
    rw [hk] at this
    exact fileKind_of_rank this
  · simp only [List.length_append]
    have := h.healedLe
    omega

/-- the next queued file is rewritten without error, by a `StepAt` -/
theorem Inv.healFile_ok {s : Signed} (hs : WF s) {σ : State} (h : Inv s σ) {i : Nat} {p : Path} {S : List Byte}
    (hq : σ.queue[σ.healed]? = some i) (hp : s.files[i]? = some (p, S)) :
    ∃ t', healFile σ.tree p S = .ok t' ∧ StepAt σ.tree p (.file S) t' := by
  have hleaf := file_leaf hp
  have hmem := leaf_mem_allPaths hleaf
  have hne : σ.queue ≠ [] := by
    intro h0; rw [h0] at hq; simp at hq
  exact healFile_step h.tinv (hs.clean _ hmem).1 (hs.nodd hmem)
    (hs.parent_dir (h.allDirs_queue hne) hmem) S

theorem Inv.hFile {s : Signed} (hs : WF s) {σ : State} (h : Inv s σ) {i : Nat} {p : Path} {S : List Byte}
    {t' : Tree} (hq : σ.queue[σ.healed]? = some i) (hp : s.files[i]? = some (p, S))
    (hh : healFile σ.tree p S = .ok t') : Inv s { σ with healed := σ.healed + 1, tree := t' } := by
  obtain ⟨t'', h1, hst⟩ := h.healFile_ok hs hq hp
  rw [hh] at h1
  injection h1 with h1
  subst h1
  obtain ⟨hK, hat, _⟩ := leafStep_keeps hs h.nosym (file_leaf hp) hst
  have hlt : σ.healed < σ.queue.length := (List.getElem?_eq_some_iff.mp hq).1
  have hi : σ.queue[σ.healed] = i := (List.getElem?_eq_some_iff.mp hq).2
  have hdrop : σ.queue.drop σ.healed = i :: σ.queue.drop (σ.healed + 1) := by
    rw [List.drop_eq_getElem_cons hlt, hi]
  have htake : σ.queue.take (σ.healed + 1) = σ.queue.take σ.healed ++ [i] := by
    rw [List.take_add_one, hq]; rfl
  refine ⟨hK.tinv, hK.nosym, h.posLe, h.closedDone, ?_, ?_, ?_, ?_, h.chanDir, h.chanSym, h.chanFile, h.sorted,
    h.queueLt, h.queuePhase, hlt⟩
  · intro j q hj hjlt
    rcases h.dirs j q hj hjlt with h1 | h2
    · exact .inl (hK.dirs q (List.mem_of_getElem? hj) h1)
    · exact .inr h2
  · intro j e hj hjlt
    rcases h.syms j e hj hjlt with h1 | h2
    · exact .inl (hK.leaves _ (sym_leaf hj) h1)
    · exact .inr h2
  · intro j e hj hjlt
    rcases h.files j e hj hjlt with h1 | h2 | h3
    · exact .inl (hK.leaves _ (file_leaf hj) h1)
    · exact .inr (.inl h2)
    · rw [hdrop] at h3
      rcases List.mem_cons.mp h3 with rfl | h3
      · rw [hp] at hj
        injection hj with hj
        subst hj
        exact .inl hat
      · exact .inr (.inr h3)
  · intro j e hj hjm
    simp only at hjm
    rw [htake] at hjm
    rcases List.mem_append.mp hjm with hjm | hjm
    · exact hK.leaves _ (file_leaf hj) (h.healedOk j e hj hjm)
    · have : j = i := by simpa using hjm
      subst this
      rw [hp] at hj
      injection hj with hj
      subst hj
      exact hat

/-! #### every step keeps the invariant -/

theorem Inv.step (bs : Nat) (hbs : 0 < bs) (maxSize : Nat) {s : Signed} (hs : WF s) {σ σ' : State} {l : Label}
    (h : Inv s σ) (hst : step bs maxSize s σ l = some σ') : Inv s σ' := by
  unfold HealTS.step at hst
  split at hst
  · cases hst
  · cases l with
    | vDir =>
      simp only [stepVDir] at hst
      split at hst
      · cases hst
      · next p hp =>
        split at hst
        · next w hw => injection hst with hst; subst hst; exact h.vDir hs hp (dirEntry_ok hw)
        · injection hst with hst; subst hst; exact h.setStatus _
    | vDirLate =>
      simp only [stepVDirLate] at hst
      split at hst
      · cases hst
      · next p hp => injection hst with hst; subst hst; exact h.vDir hs hp (.inr rfl)
    | vSymlink =>
      simp only [stepVSymlink] at hst
      split at hst
      · next hd =>
        split at hst
        · cases hst
        · next p dest hp =>
          split at hst
          · next w hw => injection hst with hst; subst hst; exact h.vSymlink hs hd hp hw
          · injection hst with hst; subst hst; exact h.setStatus _
      · cases hst
    | vFile ws =>
      simp only [stepVFile] at hst
      split at hst
      · next hd =>
        split at hst
        · cases hst
        · next p S hp =>
          split at hst
          · next hw => injection hst with hst; subst hst; exact h.vFile bs hbs maxSize hs hd.1 hd.2 hp hw
          · cases hst
      · cases hst
    | vDone =>
      simp only [stepVDone] at hst
      split at hst
      · next hd => injection hst with hst; subst hst; exact h.vDone ⟨hd.1, hd.2.1, hd.2.2.1⟩
      · cases hst
    | hWound =>
      simp only [stepHWound] at hst
      split at hst
      · cases hst
      · next w rest hc =>
        split at hst
        · next hk =>
          split at hst
          · next p hp =>
            split at hst
            · next t' hh => injection hst with hst; subst hst; exact h.hWound_dir hs hc hk hp hh
            · injection hst with hst; subst hst; exact h.setStatus _
          · injection hst with hst; subst hst; exact h.setStatus _
        · next hk =>
          split at hst
          · next p d hp =>
            split at hst
            · next t' hh => injection hst with hst; subst hst; exact h.hWound_sym hs hc hk hp hh
            · injection hst with hst; subst hst; exact h.setStatus _
          · injection hst with hst; subst hst; exact h.setStatus _
        · next hk => injection hst with hst; subst hst; exact h.hWound_file hc hk
        · next hk => injection hst with hst; subst hst; exact h.hWound_closed hc hk
    | hFile =>
      simp only [stepHFile] at hst
      split at hst
      · cases hst
      · next i hq =>
        split at hst
        · next p S hp =>
          split at hst
          · next t' hh => injection hst with hst; subst hst; exact h.hFile hs hq hp hh
          · injection hst with hst; subst hst; exact h.setStatus _
        · injection hst with hst; subst hst; exact h.setStatus _

theorem Inv.reach (bs : Nat) (hbs : 0 < bs) (maxSize : Nat) {s : Signed} (hs : WF s) {σ₀ σ : State}
    (h : Inv s σ₀) (hr : Reach bs maxSize s σ₀ σ) : Inv s σ := by
  induction hr with
  | refl => exact h
  | step _ hst ih => exact ih.step bs hbs maxSize hs hst

/-! ### the transitions as a relation (one constructor per outcome of `step`) -/

inductive Step (bs maxSize : Nat) (s : Signed) : State → Label → State → Prop where
  | vDir {σ : State} {p : Path} {w : List Wound} : σ.status = .running → s.dirs[σ.dirPos]? = some p →
      dirEntry σ.tree σ.dirPos p = .ok w →
      Step bs maxSize s σ .vDir { σ with dirPos := σ.dirPos + 1, chan := σ.chan ++ w }
  | vDirLate {σ : State} {p : Path} : σ.status = .running → s.dirs[σ.dirPos]? = some p →
      Step bs maxSize s σ .vDirLate { σ with dirPos := σ.dirPos + 1, chan := σ.chan ++ [⟨.dir, σ.dirPos, 0, 0⟩] }
  | vDirErr {σ : State} {p : Path} : σ.status = .running → s.dirs[σ.dirPos]? = some p →
      (∀ w, dirEntry σ.tree σ.dirPos p ≠ .ok w) →
      Step bs maxSize s σ .vDir { σ with status := .validatorError }
  | vSymlink {σ : State} {p : Path} {dest : String} {w : List Wound} : σ.status = .running →
      s.dirs.length ≤ σ.dirPos → s.symlinks[σ.symPos]? = some (p, dest) →
      symlinkEntry σ.tree σ.symPos p dest = .ok w →
      Step bs maxSize s σ .vSymlink { σ with symPos := σ.symPos + 1, chan := σ.chan ++ w }
  | vSymlinkErr {σ : State} {p : Path} {dest : String} : σ.status = .running →
      s.dirs.length ≤ σ.dirPos → s.symlinks[σ.symPos]? = some (p, dest) →
      (∀ w, symlinkEntry σ.tree σ.symPos p dest ≠ .ok w) →
      Step bs maxSize s σ .vSymlink { σ with status := .validatorError }
  | vFile {σ : State} {p : Path} {S : List Byte} {ws : List Wound} : σ.status = .running →
      s.dirs.length ≤ σ.dirPos → s.symlinks.length ≤ σ.symPos → s.files[σ.filePos]? = some (p, S) →
      admissible σ.filePos (fileEntry bs maxSize σ.tree σ.filePos p S) ws = true →
      Step bs maxSize s σ (.vFile ws) { σ with filePos := σ.filePos + 1, chan := σ.chan ++ ws }
  | vDone {σ : State} : σ.status = .running →
      s.dirs.length ≤ σ.dirPos → s.symlinks.length ≤ σ.symPos → s.files.length ≤ σ.filePos → σ.closed = false →
      Step bs maxSize s σ .vDone { σ with closed := true }
  | hDir {σ : State} {w : Wound} {rest : List Wound} {p : Path} {t' : Tree} : σ.status = .running →
      σ.chan = w :: rest → w.kind = .dir → s.dirs[w.index]? = some p → healDir σ.tree p = .ok t' →
      Step bs maxSize s σ .hWound { σ with chan := rest, tree := t' }
  | hDirErr {σ : State} {w : Wound} {rest : List Wound} : σ.status = .running →
      σ.chan = w :: rest → w.kind = .dir →
      (∀ p, s.dirs[w.index]? = some p → ∀ t', healDir σ.tree p ≠ .ok t') →
      Step bs maxSize s σ .hWound { σ with status := .healerError }
  | hSym {σ : State} {w : Wound} {rest : List Wound} {p : Path} {d : String} {t' : Tree} : σ.status = .running →
      σ.chan = w :: rest → w.kind = .symlink → s.symlinks[w.index]? = some (p, d) →
      healSymlink σ.tree p d = .ok t' →
      Step bs maxSize s σ .hWound { σ with chan := rest, tree := t' }
  | hSymErr {σ : State} {w : Wound} {rest : List Wound} : σ.status = .running →
      σ.chan = w :: rest → w.kind = .symlink →
      (∀ p d, s.symlinks[w.index]? = some (p, d) → ∀ t', healSymlink σ.tree p d ≠ .ok t') →
      Step bs maxSize s σ .hWound { σ with status := .healerError }
  | hQueue {σ : State} {w : Wound} {rest : List Wound} : σ.status = .running →
      σ.chan = w :: rest → w.kind = .file →
      Step bs maxSize s σ .hWound
        { σ with chan := rest, queue := if σ.queue.contains w.index then σ.queue else σ.queue ++ [w.index] }
  | hClosed {σ : State} {w : Wound} {rest : List Wound} : σ.status = .running →
      σ.chan = w :: rest → w.kind = .closedFile →
      Step bs maxSize s σ .hWound { σ with chan := rest }
  | hFile {σ : State} {i : Nat} {p : Path} {S : List Byte} {t' : Tree} : σ.status = .running →
      σ.queue[σ.healed]? = some i → s.files[i]? = some (p, S) → healFile σ.tree p S = .ok t' →
      Step bs maxSize s σ .hFile { σ with healed := σ.healed + 1, tree := t' }
  | hFileErr {σ : State} {i : Nat} : σ.status = .running → σ.queue[σ.healed]? = some i →
      (∀ p S, s.files[i]? = some (p, S) → ∀ t', healFile σ.tree p S ≠ .ok t') →
      Step bs maxSize s σ .hFile { σ with status := .healerError }

theorem step_cases {bs maxSize : Nat} {s : Signed} {σ σ' : State} {l : Label}
    (hst : step bs maxSize s σ l = some σ') : Step bs maxSize s σ l σ' := by
  unfold HealTS.step at hst
  split at hst
  · cases hst
  · next hrun =>
    have hrun : σ.status = .running := Classical.not_not.mp hrun
    cases l with
    | vDir =>
      simp only [stepVDir] at hst
      split at hst
      · cases hst
      · next p hp =>
        split at hst
        · next w hw => injection hst with hst; subst hst; exact .vDir hrun hp hw
        · next hne =>
          injection hst with hst; subst hst
          exact .vDirErr hrun hp (fun w hw => hne w hw)
    | vDirLate =>
      simp only [stepVDirLate] at hst
      split at hst
      · cases hst
      · next p hp => injection hst with hst; subst hst; exact .vDirLate hrun hp
    | vSymlink =>
      simp only [stepVSymlink] at hst
      split at hst
      · next hd =>
        split at hst
        · cases hst
        · next p dest hp =>
          split at hst
          · next w hw => injection hst with hst; subst hst; exact .vSymlink hrun hd hp hw
          · next hne =>
            injection hst with hst; subst hst
            exact .vSymlinkErr hrun hd hp (fun w hw => hne w hw)
      · cases hst
    | vFile ws =>
      simp only [stepVFile] at hst
      split at hst
      · next hd =>
        split at hst
        · cases hst
        · next p S hp =>
          split at hst
          · next hw => injection hst with hst; subst hst; exact .vFile hrun hd.1 hd.2 hp hw
          · cases hst
      · cases hst
    | vDone =>
      simp only [stepVDone] at hst
      split at hst
      · next hd => injection hst with hst; subst hst; exact .vDone hrun hd.1 hd.2.1 hd.2.2.1 hd.2.2.2
      · cases hst
    | hWound =>
      simp only [stepHWound] at hst
      split at hst
      · cases hst
      · next w rest hc =>
        split at hst
        · next hk =>
          split at hst
          · next p hp =>
            split at hst
            · next t' hh => injection hst with hst; subst hst; exact .hDir hrun hc hk hp hh
            · next e hh =>
              injection hst with hst; subst hst
              refine .hDirErr hrun hc hk ?_
              intro p' hp' t' ht'
              rw [hp] at hp'; injection hp' with hp'; subst hp'
              rw [hh] at ht'; cases ht'
          · next hp =>
            injection hst with hst; subst hst
            refine .hDirErr hrun hc hk ?_
            intro p' hp'; rw [hp] at hp'; cases hp'
        · next hk =>
          split at hst
          · next p d hp =>
            split at hst
            · next t' hh => injection hst with hst; subst hst; exact .hSym hrun hc hk hp hh
            · next e hh =>
              injection hst with hst; subst hst
              refine .hSymErr hrun hc hk ?_
              intro p' d' hp' t' ht'
              rw [hp] at hp'; injection hp' with hp'; injection hp' with h1 h2; subst h1; subst h2
              rw [hh] at ht'; cases ht'
          · next hp =>
            injection hst with hst; subst hst
            refine .hSymErr hrun hc hk ?_
            intro p' d' hp'; rw [hp] at hp'; cases hp'
        · next hk => injection hst with hst; subst hst; exact .hQueue hrun hc hk
        · next hk => injection hst with hst; subst hst; exact .hClosed hrun hc hk
    | hFile =>
      simp only [stepHFile] at hst
      split at hst
      · cases hst
      · next i hq =>
        split at hst
        · next p S hp =>
          split at hst
          · next t' hh => injection hst with hst; subst hst; exact .hFile hrun hq hp hh
          · next e hh =>
            injection hst with hst; subst hst
            refine .hFileErr hrun hq ?_
            intro p' S' hp' t' ht'
            rw [hp] at hp'; injection hp' with hp'; injection hp' with h1 h2; subst h1; subst h2
            rw [hh] at ht'; cases ht'
        · next hp =>
          injection hst with hst; subst hst
          refine .hFileErr hrun hq ?_
          intro p' S' hp'; rw [hp] at hp'; cases hp'

/-! ### (i) what is healthy stays healthy; unrelated paths are never touched -/

theorem Inv.step_keeps {bs maxSize : Nat} {s : Signed} (hs : WF s) {σ σ' : State} {l : Label}
    (h : Inv s σ) (hst : Step bs maxSize s σ l σ') : Keeps s σ.tree σ'.tree := by
  have hrefl := Keeps.refl h.tinv h.nosym
  cases hst with
  | vDir => exact hrefl
  | vDirLate => exact hrefl
  | vDirErr => exact hrefl
  | vSymlink => exact hrefl
  | vSymlinkErr => exact hrefl
  | vFile => exact hrefl
  | vDone => exact hrefl
  | hDir _ _ _ hp hh => exact (healDir_keeps hs h.tinv h.nosym (List.mem_of_getElem? hp) hh).1
  | hDirErr => exact hrefl
  | hSym _ hc hk hp hh =>
    obtain ⟨t'', h1, hstp⟩ := h.healSymlink_ok hs hc hk hp
    rw [hh] at h1; injection h1 with h1; subst h1
    exact (leafStep_keeps hs h.nosym (sym_leaf hp) hstp).1
  | hSymErr => exact hrefl
  | hQueue => exact hrefl
  | hClosed => exact hrefl
  | hFile _ hq hp hh =>
    obtain ⟨t'', h1, hstp⟩ := h.healFile_ok hs hq hp
    rw [hh] at h1; injection h1 with h1; subst h1
    exact (leafStep_keeps hs h.nosym (file_leaf hp) hstp).1
  | hFileErr => exact hrefl

theorem Inv.reach_keeps (bs : Nat) (hbs : 0 < bs) (maxSize : Nat) {s : Signed} (hs : WF s) {σ₀ σ : State}
    (h : Inv s σ₀) (hr : Reach bs maxSize s σ₀ σ) : Keeps s σ₀.tree σ.tree := by
  induction hr with
  | refl => exact Keeps.refl h.tinv h.nosym
  | step hr' hst ih => exact ih.trans ((h.reach bs hbs maxSize hs hr').step_keeps hs (step_cases hst))

/-! ### terminal states -/

theorem Inv.terminal {s : Signed} {σ : State} (h : Inv s σ) (ht : σ.terminal) :
    AllDirs s σ.tree ∧ ∀ e ∈ leaves s, σ.tree.get e.1 = some e.2 := by
  obtain ⟨hcl, hch, hq⟩ := ht
  obtain ⟨c1, c2, c3⟩ := h.closedDone hcl
  refine ⟨h.allDirs c1 (by rw [hch]; intro w hw; cases hw), ?_⟩
  intro e he
  rcases mem_leaves he with ⟨x, hx, rfl⟩ | ⟨x, hx, rfl⟩
  · obtain ⟨j, hj⟩ := List.getElem?_of_mem hx
    have hlt : j < s.symlinks.length := (List.getElem?_eq_some_iff.mp hj).1
    rcases h.syms j x hj (by omega) with h1 | ⟨w, hw, _⟩
    · exact h1
    · rw [hch] at hw; cases hw
  · obtain ⟨j, hj⟩ := List.getElem?_of_mem hx
    have hlt : j < s.files.length := (List.getElem?_eq_some_iff.mp hj).1
    rcases h.files j x hj (by omega) with h1 | ⟨w, hw, _⟩ | h3
    · exact h1
    · rw [hch] at hw; cases hw
    · rw [List.drop_eq_nil_of_le hq] at h3; cases h3

/-! ### no failure when directories are listed parents-first -/

theorem dirEntry_isOk {t : Tree} (hI : TInv t) {p : Path} (hp : Plain t p) (i : Nat) :
    ∃ w, dirEntry t i p = .ok w := by
  rw [dirEntry_of_get hI hp]
  split <;> exact ⟨_, rfl⟩

theorem symlinkEntry_isOk {t : Tree} (hI : TInv t) {p : Path} (hp : Plain t p) (i : Nat) (dest : String) :
    ∃ w, symlinkEntry t i p dest = .ok w := by
  rw [symlinkEntry_of_get hI hp]
  split
  · split <;> exact ⟨_, rfl⟩
  · exact ⟨_, rfl⟩

/-- the parent of the directory whose wound is at the head of the channel is a directory already -/
theorem Inv.parent_ready {s : Signed} (hpf : PFirst s) {σ : State} (h : Inv s σ) {w : Wound}
    {rest : List Wound} {p : Path} (hc : σ.chan = w :: rest) (hk : w.kind = .dir)
    (hp : s.dirs[w.index]? = some p) : IsDir σ.tree p.dropLast := by
  by_cases hl : p.length ≤ 1
  · have : p.dropLast = [] := by
      apply List.eq_nil_of_length_eq_zero
      simp; omega
    rw [this]; exact isDir_nil _
  · obtain ⟨hlt, hget⟩ := List.getElem?_eq_some_iff.mp hp
    have hmem := hpf w.index hlt (p.length - 1) (by omega) (by rw [hget]; omega)
    rw [hget, ← List.dropLast_eq_take] at hmem
    obtain ⟨j, hjm, hj⟩ := List.mem_take_iff_getElem.mp hmem
    have hjlt : j < w.index := by omega
    have hj' : s.dirs[j]? = some p.dropLast := by
      rw [List.getElem?_eq_some_iff]; exact ⟨by omega, hj⟩
    have hwm : w ∈ σ.chan := by rw [hc]; simp
    have hwi := h.chanDir w hwm hk
    rcases h.dirs j _ hj' (by omega) with h1 | ⟨x, hx, hxk, hxi⟩
    · exact h1
    · exfalso
      have hsorted := h.sorted
      rw [hc] at hsorted hx
      rcases List.mem_cons.mp hx with rfl | hx
      · omega
      · have := ((List.pairwise_cons.mp hsorted).1 x hx).2 hk hxk
        omega

theorem Inv.no_fail {bs maxSize : Nat} {s : Signed} (hs : WF s) (hpf : PFirst s) {σ σ' : State} {l : Label}
    (h : Inv s σ) (hst : Step bs maxSize s σ l σ') : σ'.status = .running := by
  cases hst with
  | vDir hr => exact hr
  | vDirLate hr => exact hr
  | vDirErr _ hp hne =>
    exfalso
    obtain ⟨w, hw⟩ := dirEntry_isOk h.tinv
      (hs.plain h.nosym (mem_allPaths_dir (List.mem_of_getElem? hp))) σ.dirPos
    exact hne w hw
  | vSymlink hr => exact hr
  | vSymlinkErr _ _ hp hne =>
    exfalso
    obtain ⟨w, hw⟩ := symlinkEntry_isOk h.tinv
      (hs.plain h.nosym (leaf_mem_allPaths (sym_leaf hp))) σ.symPos _
    exact hne w hw
  | vFile hr => exact hr
  | vDone hr => exact hr
  | hDir hr => exact hr
  | @hDirErr w rest _ hc hk hne =>
    exfalso
    have hwm : w ∈ σ.chan := by rw [hc]; simp
    have hlt : w.index < s.dirs.length := Nat.lt_of_lt_of_le (h.chanDir w hwm hk) h.posLe.1
    have hp : s.dirs[w.index]? = some s.dirs[w.index] := List.getElem?_eq_getElem hlt
    have hpm : s.dirs[w.index] ∈ s.dirs := List.mem_of_getElem? hp
    obtain ⟨t', ht'⟩ := healDir_ok h.tinv (hs.clean _ (mem_allPaths_dir hpm)).1 (hs.nodd (mem_allPaths_dir hpm))
      (h.parent_ready hpf hc hk hp) (h.nosym _ hpm)
    exact hne _ hp t' ht'
  | hSym hr => exact hr
  | @hSymErr w rest _ hc hk hne =>
    exfalso
    have hwm : w ∈ σ.chan := by rw [hc]; simp
    have hlt : w.index < s.symlinks.length := Nat.lt_of_lt_of_le (h.chanSym w hwm hk).1 h.posLe.2.1
    have hp : s.symlinks[w.index]? = some (s.symlinks[w.index].1, s.symlinks[w.index].2) :=
      List.getElem?_eq_getElem hlt
    obtain ⟨t', ht', _⟩ := h.healSymlink_ok hs hc hk hp
    exact hne _ _ hp t' ht'
  | hQueue hr => exact hr
  | hClosed hr => exact hr
  | hFile hr => exact hr
  | @hFileErr i _ hq hne =>
    exfalso
    have him : i ∈ σ.queue := List.mem_of_getElem? hq
    have hlt : i < s.files.length := Nat.lt_of_lt_of_le (h.queueLt i him) h.posLe.2.2
    have hp : s.files[i]? = some (s.files[i].1, s.files[i].2) := List.getElem?_eq_getElem hlt
    obtain ⟨t', ht', _⟩ := h.healFile_ok hs hq hp
    exact hne _ _ hp t' ht'

theorem Inv.reach_no_fail (bs : Nat) (hbs : 0 < bs) (maxSize : Nat) {s : Signed} (hs : WF s) (hpf : PFirst s)
    {σ₀ σ : State} (h : Inv s σ₀) (h0 : σ₀.status = .running) (hr : Reach bs maxSize s σ₀ σ) :
    σ.status = .running := by
  induction hr with
  | refl => exact h0
  | step hr' hst _ => exact (h.reach bs hbs maxSize hs hr').no_fail hs hpf (step_cases hst)

/-! ### (iii) entries no heal step has touched look as they did at the start -/

theorem nodup_symPaths {s : Signed} (hs : WF s) : (s.symlinks.map (·.1)).Nodup := by
  have hnd := hs.distinct
  simp only [allPaths, List.append_assoc] at hnd
  exact (List.nodup_append.mp (List.nodup_append.mp hnd).2.1).1

theorem nodup_filePaths {s : Signed} (hs : WF s) : (s.files.map (·.1)).Nodup := by
  have hnd := hs.distinct
  simp only [allPaths, List.append_assoc] at hnd
  exact (List.nodup_append.mp (List.nodup_append.mp hnd).2.1).2.1

theorem file_index_inj {s : Signed} (hs : WF s) {j j' : Nat} {e e' : Path × List Byte}
    (hj : s.files[j]? = some e) (hj' : s.files[j']? = some e') (hp : e.1 = e'.1) : j = j' := by
  have hlt : j < (s.files.map (·.1)).length := by
    simpa using (List.getElem?_eq_some_iff.mp hj).1
  refine (List.getElem?_inj hlt (nodup_filePaths hs)).mp ?_
  rw [List.getElem?_map, List.getElem?_map, hj, hj']
  simp [hp]

/-- Relative to the initial tree `t0`: a symlink entry the validator has not reached yet, a file entry that
    has not been rewritten, hold what they held at the start; a directory entry not reached yet holds what
    it held at the start unless a heal step has already made it a directory. -/
structure Untouched (s : Signed) (t0 : Tree) (σ : State) : Prop where
  syms : ∀ j e, s.symlinks[j]? = some e → σ.symPos ≤ j → σ.tree.get e.1 = t0.get e.1
  files : ∀ j e, s.files[j]? = some e → j ∉ σ.queue.take σ.healed → σ.tree.get e.1 = t0.get e.1
  dirs : ∀ j p, s.dirs[j]? = some p → σ.dirPos ≤ j → σ.tree.get p = t0.get p ∨ IsDir σ.tree p

theorem Untouched.init (s : Signed) (t : Tree) : Untouched s t (init t) :=
  ⟨fun _ _ _ _ => rfl, fun _ _ _ _ => rfl, fun _ _ _ _ => .inl rfl⟩

theorem Untouched.step {bs maxSize : Nat} {s : Signed} (hs : WF s) {t0 : Tree} {σ σ' : State} {l : Label}
    (h : Inv s σ) (hu : Untouched s t0 σ) (hst : Step bs maxSize s σ l σ') : Untouched s t0 σ' := by
  -- a step that leaves the tree alone and does not move positions backwards / un-rewrite files
  have same : ∀ σ' : State, σ'.tree = σ.tree → σ.symPos ≤ σ'.symPos → σ.dirPos ≤ σ'.dirPos →
      σ'.queue.take σ'.healed = σ.queue.take σ.healed → Untouched s t0 σ' := by
    intro σ' ht h1 h2 h3
    refine ⟨?_, ?_, ?_⟩
    · intro j e hj hle; rw [ht]; exact hu.syms j e hj (by omega)
    · intro j e hj hn; rw [ht]; rw [h3] at hn; exact hu.files j e hj hn
    · intro j p hj hle; rw [ht]; exact hu.dirs j p hj (by omega)
  -- a leaf step at an entry that is not among those still owed
  have leaf : ∀ (e : Path × Node) (t' : Tree) (σ' : State), e ∈ leaves s → StepAt σ.tree e.1 e.2 t' →
      σ'.tree = t' → σ'.dirPos = σ.dirPos →
      (∀ j x, s.symlinks[j]? = some x → σ'.symPos ≤ j → x.1 ≠ e.1 ∧ σ.symPos ≤ j) →
      (∀ j x, s.files[j]? = some x → j ∉ σ'.queue.take σ'.healed → x.1 ≠ e.1 ∧ j ∉ σ.queue.take σ.healed) →
      Untouched s t0 σ' := by
    intro e t' σ' he hstp ht hdp hsy hfi
    obtain ⟨_, _, hsame⟩ := leafStep_keeps hs h.nosym he hstp
    refine ⟨?_, ?_, ?_⟩
    · intro j x hj hle
      obtain ⟨h1, h2⟩ := hsy j x hj hle
      rw [ht, hsame _ (leaf_mem_allPaths (sym_leaf hj)) h1]
      exact hu.syms j x hj h2
    · intro j x hj hn
      obtain ⟨h1, h2⟩ := hfi j x hj hn
      rw [ht, hsame _ (leaf_mem_allPaths (file_leaf hj)) h1]
      exact hu.files j x hj h2
    · intro j p hj hle
      have hpm : p ∈ s.dirs := List.mem_of_getElem? hj
      have := hsame p (mem_allPaths_dir hpm) (fun h' => hs.leaf_not_dir he (h' ▸ hpm))
      rw [ht, IsDir, this]
      exact hu.dirs j p hj (by omega)
  cases hst with
  | vDir => exact same _ rfl (Nat.le_refl _) (Nat.le_succ _) rfl
  | vDirLate => exact same _ rfl (Nat.le_refl _) (Nat.le_succ _) rfl
  | vDirErr => exact same _ rfl (Nat.le_refl _) (Nat.le_refl _) rfl
  | vSymlink => exact same _ rfl (Nat.le_succ _) (Nat.le_refl _) rfl
  | vSymlinkErr => exact same _ rfl (Nat.le_refl _) (Nat.le_refl _) rfl
  | vFile => exact same _ rfl (Nat.le_refl _) (Nat.le_refl _) rfl
  | vDone => exact same _ rfl (Nat.le_refl _) (Nat.le_refl _) rfl
  | hDirErr => exact same _ rfl (Nat.le_refl _) (Nat.le_refl _) rfl
  | hSymErr => exact same _ rfl (Nat.le_refl _) (Nat.le_refl _) rfl
  | hFileErr => exact same _ rfl (Nat.le_refl _) (Nat.le_refl _) rfl
  | hClosed => exact same _ rfl (Nat.le_refl _) (Nat.le_refl _) rfl
  | hQueue =>
    refine same _ rfl (Nat.le_refl _) (Nat.le_refl _) ?_
    simp only
    split
    · rfl
    · exact List.take_append_of_le_length h.healedLe
  | @hDir w rest p t' _ hc hk hp hh =>
    have hpm : p ∈ s.dirs := List.mem_of_getElem? hp
    obtain ⟨hK, _, hsame, hpre⟩ := healDir_keeps hs h.tinv h.nosym hpm hh
    refine ⟨?_, ?_, ?_⟩
    · intro j e hj hle
      simp only
      rw [hsame _ (not_prefix_of_leaf hs (sym_leaf hj) hpm)]
      exact hu.syms j e hj hle
    · intro j e hj hn
      simp only
      rw [hsame _ (not_prefix_of_leaf hs (file_leaf hj) hpm)]
      exact hu.files j e hj hn
    · intro j q hj hle
      simp only
      by_cases hq : q <+: p
      · exact .inr (hpre q hq)
      · rw [hsame q hq]
        rcases hu.dirs j q hj hle with h1 | h1
        · exact .inl h1
        · right; rw [IsDir, hsame q hq]; exact h1
  | @hSym w rest p d t' _ hc hk hp hh =>
    obtain ⟨t'', h1, hstp⟩ := h.healSymlink_ok hs hc hk hp
    rw [hh] at h1; injection h1 with h1; subst h1
    have hwm : w ∈ σ.chan := by rw [hc]; simp
    have hwi := (h.chanSym w hwm hk).1
    refine leaf (p, .symlink d) _ _ (sym_leaf hp) hstp rfl rfl ?_ ?_
    · intro j x hj hle
      refine ⟨?_, hle⟩
      intro hpe
      have := hs.leaf_fun (sym_leaf hj) (sym_leaf hp) hpe
      have hlt : j < (s.symlinks.map (·.1)).length := by
        simpa using (List.getElem?_eq_some_iff.mp hj).1
      have : j = w.index := by
        refine (List.getElem?_inj hlt (nodup_symPaths hs)).mp ?_
        rw [List.getElem?_map, List.getElem?_map, hj, hp]
        simp [hpe]
      simp only at hle
      omega
    · intro j x hj hn
      refine ⟨?_, hn⟩
      intro hpe
      have := hs.leaf_fun (file_leaf hj) (sym_leaf hp) hpe
      simp only [Prod.mk.injEq] at this
      cases this.2
  | @hFile i p S t' _ hq hp hh =>
    obtain ⟨t'', h1, hstp⟩ := h.healFile_ok hs hq hp
    rw [hh] at h1; injection h1 with h1; subst h1
    have htake : σ.queue.take (σ.healed + 1) = σ.queue.take σ.healed ++ [i] := by
      rw [List.take_add_one, hq]; rfl
    refine leaf (p, .file S) _ _ (file_leaf hp) hstp rfl rfl ?_ ?_
    · intro j x hj hle
      refine ⟨?_, hle⟩
      intro hpe
      have := hs.leaf_fun (sym_leaf hj) (file_leaf hp) hpe
      simp only [Prod.mk.injEq] at this
      cases this.2
    · intro j x hj hn
      simp only at hn
      rw [htake] at hn
      refine ⟨?_, fun h' => hn (List.mem_append_left _ h')⟩
      intro hpe
      have := file_index_inj hs hj hp hpe
      subst this
      exact hn (List.mem_append_right _ (by simp))

theorem Untouched.reach (bs : Nat) (hbs : 0 < bs) (maxSize : Nat) {s : Signed} (hs : WF s) {t : Tree}
    {σ : State} (h : Inv s (HealTS.init t)) (hr : Reach bs maxSize s (HealTS.init t) σ) : Untouched s t σ := by
  induction hr with
  | refl => exact Untouched.init s t
  | step hr' hst ih => exact ih.step hs (h.reach bs hbs maxSize hs hr') (step_cases hst)

/-! ### progress and termination -/

theorem progress (bs : Nat) (hbs : 0 < bs) (maxSize : Nat) (s : Signed) (σ : State)
    (hrun : σ.status = .running) (hnt : ¬ σ.terminal) : ∃ l σ', step bs maxSize s σ l = some σ' := by
  have hrun' : ¬ σ.status ≠ .running := fun h => h hrun
  cases hd : s.dirs[σ.dirPos]? with
  | some p =>
    refine ⟨.vDir, ?_⟩
    simp only [HealTS.step, hrun', if_false, stepVDir, hd]
    split <;> exact ⟨_, rfl⟩
  | none =>
    have hdl : s.dirs.length ≤ σ.dirPos := List.getElem?_eq_none_iff.mp hd
    cases hsy : s.symlinks[σ.symPos]? with
    | some e =>
      obtain ⟨p, dest⟩ := e
      refine ⟨.vSymlink, ?_⟩
      simp only [HealTS.step, hrun', if_false, stepVSymlink, hdl, if_true, hsy]
      split <;> exact ⟨_, rfl⟩
    | none =>
      have hsl : s.symlinks.length ≤ σ.symPos := List.getElem?_eq_none_iff.mp hsy
      cases hf : s.files[σ.filePos]? with
      | some e =>
        obtain ⟨p, S⟩ := e
        refine ⟨.vFile (fileEntry bs maxSize σ.tree σ.filePos p S), ?_⟩
        simp only [HealTS.step, hrun', if_false, stepVFile, hdl, hsl, and_self, if_true, hf, fileEntry,
          admissible_exact bs hbs]
        exact ⟨_, rfl⟩
      | none =>
        have hfl : s.files.length ≤ σ.filePos := List.getElem?_eq_none_iff.mp hf
        cases hcl : σ.closed with
        | false =>
          refine ⟨.vDone, ?_⟩
          simp only [HealTS.step, hrun', if_false, stepVDone, hdl, hsl, hfl, hcl, and_self, if_true]
          exact ⟨_, rfl⟩
        | true =>
          cases hch : σ.chan with
          | cons w rest =>
            refine ⟨.hWound, ?_⟩
            simp only [HealTS.step, hrun', if_false, stepHWound, hch]
            split
            · split
              · split <;> exact ⟨_, rfl⟩
              · exact ⟨_, rfl⟩
            · split
              · split <;> exact ⟨_, rfl⟩
              · exact ⟨_, rfl⟩
            · exact ⟨_, rfl⟩
            · exact ⟨_, rfl⟩
          | nil =>
            have hlt : σ.healed < σ.queue.length := by
              apply Classical.byContradiction
              intro hge
              exact hnt ⟨hcl, hch, by omega⟩
            refine ⟨.hFile, ?_⟩
            simp only [HealTS.step, hrun', if_false, stepHFile, List.getElem?_eq_getElem hlt]
            split
            · split <;> exact ⟨_, rfl⟩
            · exact ⟨_, rfl⟩

/-- the lexicographic order on the measure -/
def mlt (a b : Nat × Nat) : Prop := Prod.Lex (· < ·) (· < ·) a b

theorem mlt_wf : WellFounded mlt := (Prod.lex Nat.lt_wfRel Nat.lt_wfRel).wf

theorem measure_decreases {bs maxSize : Nat} {s : Signed} {σ σ' : State} {l : Label}
    (hst : Step bs maxSize s σ l σ') : mlt (measure s σ') (measure s σ) := by
  unfold mlt
  rw [Prod.lex_def]
  cases hst with
  | vDir hr hp _ =>
    have := (List.getElem?_eq_some_iff.mp hp).1
    left; simp only [measure, hr]; omega
  | vDirLate hr hp =>
    have := (List.getElem?_eq_some_iff.mp hp).1
    left; simp only [measure, hr]; omega
  | vDirErr hr => left; simp [measure, hr]
  | vSymlink hr _ hp _ =>
    have := (List.getElem?_eq_some_iff.mp hp).1
    left; simp only [measure, hr]; omega
  | vSymlinkErr hr => left; simp [measure, hr]
  | vFile hr _ _ hp _ =>
    have := (List.getElem?_eq_some_iff.mp hp).1
    left; simp only [measure, hr]; omega
  | vDone hr _ _ _ hc => left; simp [measure, hr, hc]
  | hDir hr hc => right; simp only [measure, hr, hc, List.length_cons]; exact ⟨trivial, by omega⟩
  | hDirErr hr => left; simp [measure, hr]
  | hSym hr hc => right; simp only [measure, hr, hc, List.length_cons]; exact ⟨trivial, by omega⟩
  | hSymErr hr => left; simp [measure, hr]
  | hQueue hr hc =>
    right
    simp only [measure, hr, hc, List.length_cons]
    refine ⟨trivial, ?_⟩
    split
    · omega
    · simp only [List.length_append, List.length_singleton]; omega
  | hClosed hr hc => right; simp only [measure, hr, hc, List.length_cons]; exact ⟨trivial, by omega⟩
  | hFile hr hq =>
    have := (List.getElem?_eq_some_iff.mp hq).1
    right; simp only [measure, hr]; exact ⟨trivial, by omega⟩
  | hFileErr hr => left; simp [measure, hr]

/-- no infinite run: the successor relation is well-founded -/
theorem step_wf (bs maxSize : Nat) (s : Signed) :
    WellFounded (fun σ' σ : State => ∃ l, step bs maxSize s σ l = some σ') := by
  refine Subrelation.wf (r := InvImage mlt (measure s)) ?_ (InvImage.wf _ mlt_wf)
  intro σ' σ ⟨l, hl⟩
  exact measure_decreases (step_cases hl)

/-! ### the sequential schedule is one run of the transition system -/

section Sequential
variable {bs maxSize : Nat} {s : Signed} {σ₀ : State}

/-- the directory pass on a tree nobody touches: `vDir` for every entry -/
theorem sim_dirs : ∀ (ps : List Path) (σ : State) (ws : List Wound),
    Reach bs maxSize s σ₀ σ → σ.status = .running → (∀ k, ps[k]? = s.dirs[σ.dirPos + k]?) →
    passFold (dirEntry σ.tree) σ.dirPos ps = .ok ws →
    Reach bs maxSize s σ₀ { σ with dirPos := σ.dirPos + ps.length, chan := σ.chan ++ ws } := by
  intro ps
  induction ps with
  | nil =>
    intro σ ws hr _ _ hf
    simp only [passFold, Outcome.ok.injEq] at hf
    subst hf
    simpa using hr
  | cons p rest ih =>
    intro σ ws hr hrun hps hf
    simp only [passFold] at hf
    obtain ⟨w, hw, hf⟩ := outcome_bind_ok hf
    obtain ⟨ws', hws', hf⟩ := outcome_bind_ok hf
    simp only [Outcome.ok.injEq] at hf
    subst hf
    have hp : s.dirs[σ.dirPos]? = some p := by simpa using (hps 0).symm
    have hstep : step bs maxSize s σ .vDir = some { σ with dirPos := σ.dirPos + 1, chan := σ.chan ++ w } := by
      simp [HealTS.step, hrun, stepVDir, hp, hw]
    have := ih _ ws' (.step hr hstep) hrun (by
      intro k
      have := hps (k + 1)
      simp only [List.getElem?_cons_succ] at this
      rw [this]
      congr 1
      simp only; omega) hws'
    have e : ({ σ with dirPos := σ.dirPos + (p :: rest).length, chan := σ.chan ++ (w ++ ws') } : State) =
        { ({ σ with dirPos := σ.dirPos + 1, chan := σ.chan ++ w } : State) with
          dirPos := σ.dirPos + 1 + rest.length, chan := σ.chan ++ w ++ ws' } := by
      simp; omega
    rw [e]
    exact this

theorem sim_syms : ∀ (sl : List (Path × String)) (σ : State) (ws : List Wound),
    Reach bs maxSize s σ₀ σ → σ.status = .running → s.dirs.length ≤ σ.dirPos →
    (∀ k, sl[k]? = s.symlinks[σ.symPos + k]?) →
    passFold (fun i e => symlinkEntry σ.tree i e.1 e.2) σ.symPos sl = .ok ws →
    Reach bs maxSize s σ₀ { σ with symPos := σ.symPos + sl.length, chan := σ.chan ++ ws } := by
  intro sl
  induction sl with
  | nil =>
    intro σ ws hr _ _ _ hf
    simp only [passFold, Outcome.ok.injEq] at hf
    subst hf
    simpa using hr
  | cons e rest ih =>
    intro σ ws hr hrun hd hps hf
    obtain ⟨p, dest⟩ := e
    simp only [passFold] at hf
    obtain ⟨w, hw, hf⟩ := outcome_bind_ok hf
    obtain ⟨ws', hws', hf⟩ := outcome_bind_ok hf
    simp only [Outcome.ok.injEq] at hf
    subst hf
    have hp : s.symlinks[σ.symPos]? = some (p, dest) := by simpa using (hps 0).symm
    have hstep : step bs maxSize s σ .vSymlink =
        some { σ with symPos := σ.symPos + 1, chan := σ.chan ++ w } := by
      simp [HealTS.step, hrun, stepVSymlink, hd, hp, hw]
    have := ih _ ws' (.step hr hstep) hrun hd (by
      intro k
      have := hps (k + 1)
      simp only [List.getElem?_cons_succ] at this
      rw [this]
      congr 1
      simp only; omega) hws'
    have e : ({ σ with symPos := σ.symPos + ((p, dest) :: rest).length, chan := σ.chan ++ (w ++ ws') } : State) =
        { ({ σ with symPos := σ.symPos + 1, chan := σ.chan ++ w } : State) with
          symPos := σ.symPos + 1 + rest.length, chan := σ.chan ++ w ++ ws' } := by
      simp; omega
    rw [e]
    exact this

theorem sim_files (hbs : 0 < bs) : ∀ (fl : List (Path × List Byte)) (σ : State),
    Reach bs maxSize s σ₀ σ → σ.status = .running → s.dirs.length ≤ σ.dirPos → s.symlinks.length ≤ σ.symPos →
    (∀ k, fl[k]? = s.files[σ.filePos + k]?) →
    Reach bs maxSize s σ₀ { σ with filePos := σ.filePos + fl.length,
                                   chan := σ.chan ++ filePassWounds bs maxSize σ.tree σ.filePos fl } := by
  intro fl
  induction fl with
  | nil =>
    intro σ hr _ _ _ _
    simpa [filePassWounds] using hr
  | cons e rest ih =>
    intro σ hr hrun hd hsy hps
    obtain ⟨p, S⟩ := e
    have hp : s.files[σ.filePos]? = some (p, S) := by simpa using (hps 0).symm
    have hstep : step bs maxSize s σ (.vFile (fileEntry bs maxSize σ.tree σ.filePos p S)) =
        some { σ with filePos := σ.filePos + 1, chan := σ.chan ++ fileEntry bs maxSize σ.tree σ.filePos p S } := by
      simp [HealTS.step, hrun, stepVFile, hd, hsy, hp, fileEntry, admissible_exact bs hbs]
    have := ih _ (.step hr hstep) hrun hd hsy (by
      intro k
      have := hps (k + 1)
      simp only [List.getElem?_cons_succ] at this
      rw [this]
      congr 1
      simp only; omega)
    have e : ({ σ with filePos := σ.filePos + ((p, S) :: rest).length,
                       chan := σ.chan ++ filePassWounds bs maxSize σ.tree σ.filePos ((p, S) :: rest) } : State) =
        { ({ σ with filePos := σ.filePos + 1,
                    chan := σ.chan ++ fileEntry bs maxSize σ.tree σ.filePos p S } : State) with
          filePos := σ.filePos + 1 + rest.length,
          chan := σ.chan ++ fileEntry bs maxSize σ.tree σ.filePos p S ++
            filePassWounds bs maxSize σ.tree (σ.filePos + 1) rest } := by
      simp [filePassWounds, fileEntry]; omega
    rw [e]
    exact this

/-- the healer drains the channel: `hWound` for every wound, as `processWounds` -/
theorem sim_wounds : ∀ (ws : List Wound) (σ : State) (t₁ : Tree) (q₁ : List Nat),
    Reach bs maxSize s σ₀ σ → σ.status = .running → σ.chan = ws →
    processWounds s ws σ.tree σ.queue = .ok (t₁, q₁) →
    Reach bs maxSize s σ₀ { σ with chan := [], tree := t₁, queue := q₁ } := by
  intro ws
  induction ws with
  | nil =>
    intro σ t₁ q₁ hr _ hc hp
    simp only [processWounds, Except.ok.injEq, Prod.mk.injEq] at hp
    obtain ⟨rfl, rfl⟩ := hp
    rw [← hc]
    exact hr
  | cons w rest ih =>
    intro σ t₁ q₁ hr hrun hc hp
    unfold processWounds at hp
    cases hk : w.kind with
    | dir =>
      simp only [hk] at hp
      cases hd : s.dirs[w.index]? with
      | none => simp [hd] at hp
      | some p =>
        simp only [hd] at hp
        cases hh : healDir σ.tree p with
        | error e => simp [hh, bind, Except.bind] at hp
        | ok t' =>
          simp only [hh, bind, Except.bind] at hp
          have hstep : step bs maxSize s σ .hWound = some { σ with chan := rest, tree := t' } := by
            simp [HealTS.step, hrun, stepHWound, hc, hk, hd, hh]
          exact ih { σ with chan := rest, tree := t' } t₁ q₁ (.step hr hstep) hrun rfl hp
    | symlink =>
      simp only [hk] at hp
      cases hd : s.symlinks[w.index]? with
      | none => simp [hd] at hp
      | some e =>
        obtain ⟨p, d⟩ := e
        simp only [hd] at hp
        cases hh : healSymlink σ.tree p d with
        | error e => simp [hh, bind, Except.bind] at hp
        | ok t' =>
          simp only [hh, bind, Except.bind] at hp
          have hstep : step bs maxSize s σ .hWound = some { σ with chan := rest, tree := t' } := by
            simp [HealTS.step, hrun, stepHWound, hc, hk, hd, hh]
          exact ih { σ with chan := rest, tree := t' } t₁ q₁ (.step hr hstep) hrun rfl hp
    | file =>
      simp only [hk] at hp
      have hstep : step bs maxSize s σ .hWound = some { σ with
          chan := rest
          queue := if σ.queue.contains w.index then σ.queue else σ.queue ++ [w.index] } := by
        simp [HealTS.step, hrun, stepHWound, hc, hk]
      exact ih { σ with
          chan := rest
          queue := if σ.queue.contains w.index then σ.queue else σ.queue ++ [w.index] }
        t₁ q₁ (.step hr hstep) hrun rfl hp
    | closedFile =>
      simp only [hk] at hp
      have hstep : step bs maxSize s σ .hWound = some { σ with chan := rest } := by
        simp [HealTS.step, hrun, stepHWound, hc, hk]
      exact ih { σ with chan := rest } t₁ q₁ (.step hr hstep) hrun rfl hp

/-- the healing goroutine rewrites the queued files: `hFile` for every queued index, as `healFiles` -/
theorem sim_heal : ∀ (l : List Nat) (σ : State) (t₂ : Tree),
    Reach bs maxSize s σ₀ σ → σ.status = .running → σ.queue.drop σ.healed = l →
    healFiles s l σ.tree = .ok t₂ →
    Reach bs maxSize s σ₀ { σ with tree := t₂, healed := σ.healed + l.length } := by
  intro l
  induction l with
  | nil =>
    intro σ t₂ hr _ _ hp
    simp only [healFiles, Except.ok.injEq] at hp
    subst hp
    exact hr
  | cons i rest ih =>
    intro σ t₂ hr hrun hq hp
    have hlt : σ.healed < σ.queue.length := by
      apply Classical.byContradiction
      intro hge
      rw [List.drop_eq_nil_of_le (by omega)] at hq
      cases hq
    rw [List.drop_eq_getElem_cons hlt] at hq
    injection hq with hi hrest
    have hqi : σ.queue[σ.healed]? = some i := by rw [List.getElem?_eq_getElem hlt, hi]
    unfold healFiles at hp
    cases hf : s.files[i]? with
    | none => simp [hf] at hp
    | some e =>
      obtain ⟨p, S⟩ := e
      simp only [hf] at hp
      cases hh : healFile σ.tree p S with
      | error e => simp [hh, bind, Except.bind] at hp
      | ok t' =>
        simp only [hh, bind, Except.bind] at hp
        have hstep : step bs maxSize s σ .hFile = some { σ with healed := σ.healed + 1, tree := t' } := by
          simp [HealTS.step, hrun, stepHFile, hqi, hf, hh]
        have := ih { σ with healed := σ.healed + 1, tree := t' } t₂ (.step hr hstep) hrun hrest hp
        have e : ({ σ with tree := t₂, healed := σ.healed + (i :: rest).length } : State) =
            { ({ σ with healed := σ.healed + 1, tree := t' } : State) with
              tree := t₂, healed := σ.healed + 1 + rest.length } := by
          simp; omega
        rw [e]
        exact this

end Sequential

/-- The run of `validateAndHeal` is one run of the transition system: all validator steps (with the exact
    verdicts), `vDone`, all `hWound`s, all `hFile`s. -/
theorem sequential_reach (bs : Nat) (hbs : 0 < bs) (maxSize : Nat) (s : Signed) (t t' : Tree)
    (h : validateAndHeal bs maxSize s t = .ok t') :
    ∃ σ, Reach bs maxSize s (HealTS.init t) σ ∧ σ.terminal ∧ σ.status = .running ∧ σ.tree = t' := by
  unfold validateAndHeal at h
  cases hv : validate bs maxSize s t with
  | err e => simp [hv] at h
  | panic e => simp [hv] at h
  | ok ws =>
    simp only [hv] at h
    cases hp : processWounds s ws t [] with
    | error e => simp [hp] at h
    | ok r =>
      obtain ⟨t₁, q⟩ := r
      simp only [hp] at h
      cases hh : healFiles s q t₁ with
      | error e => simp [hh] at h
      | ok t₂ =>
        simp only [hh, Outcome.ok.injEq] at h
        subst h
        rw [validate_eq_fold] at hv
        obtain ⟨dw, hdw, hv⟩ := outcome_bind_ok hv
        obtain ⟨sw, hsw, hv⟩ := outcome_bind_ok hv
        simp only [Outcome.ok.injEq] at hv
        subst hv
        have r1 := sim_dirs (bs := bs) (maxSize := maxSize) (s := s) s.dirs (HealTS.init t) dw .refl rfl
          (by intro k; simp [HealTS.init]) hdw
        have r2 := sim_syms s.symlinks _ sw r1 rfl (by simp [HealTS.init])
          (by intro k; simp [HealTS.init]) hsw
        have r3 := sim_files hbs s.files _ r2 rfl (by simp [HealTS.init]) (by simp [HealTS.init])
          (by intro k; simp [HealTS.init])
        have r4 := Reach.step r3 (l := .vDone) (σ' := {
            tree := t
            dirPos := s.dirs.length
            symPos := s.symlinks.length
            filePos := s.files.length
            chan := dw ++ sw ++ filePassWounds bs maxSize t 0 s.files
            closed := true })
          (by simp [HealTS.step, stepVDone, HealTS.init])
        have r5 := sim_wounds _ _ t₁ q r4 rfl rfl hp
        have r6 := sim_heal q _ t₂ r5 rfl (by simp) hh
        exact ⟨_, r6, ⟨rfl, rfl, by simp⟩, rfl, rfl⟩

/-- an explicit schedule that executes is a run -/
theorem reach_of_run {bs maxSize : Nat} {s : Signed} {σ₀ : State} : ∀ (ls : List Label) (σ σ' : State),
    Reach bs maxSize s σ₀ σ → run bs maxSize s σ ls = some σ' → Reach bs maxSize s σ₀ σ' := by
  intro ls
  induction ls with
  | nil =>
    intro σ σ' hr h
    simp only [run, Option.some.injEq] at h
    exact h ▸ hr
  | cons l ls ih =>
    intro σ σ' hr h
    simp only [run] at h
    cases hst : step bs maxSize s σ l with
    | none => simp [hst] at h
    | some σ₁ =>
      simp only [hst] at h
      exact ih σ₁ σ' (.step hr hst) h

theorem Reach.trans {bs maxSize : Nat} {s : Signed} {σ₀ σ₁ σ₂ : State} (a : Reach bs maxSize s σ₀ σ₁)
    (b : Reach bs maxSize s σ₁ σ₂) : Reach bs maxSize s σ₀ σ₂ := by
  induction b with
  | refl => exact a
  | step _ hst ih => exact .step ih hst

end Wharf.HealTS
