/-
  Helper lemmas for the protobuf record model (Model/Proto.lean).  Core Lean only.
-/
import Wharf.Model.Proto
import Wharf.Proofs.Wire

namespace Wharf.Proto
open Wharf Wharf.Wire Wharf.Patch

theorem toU64_lt (v : Int) : toU64 v < 2 ^ 64 := by
  simp only [toU64, two64, Nat.reducePow]; omega

theorem ofU64_toU64 (v : Int) (hv : Int64 v) : ofU64 (toU64 v) = v := by
  simp only [Int64, two63] at hv
  have h1 : ((toU64 v : Nat) : Int) = v % 18446744073709551616 := by
    simp only [toU64, two64]; omega
  unfold ofU64
  by_cases h : toU64 v < two63
  · rw [if_pos h]; simp only [two63] at h; omega
  · rw [if_neg h]; simp only [two63, two64] at h ⊢; omega

theorem uvarint_append_ne_nil (n : Nat) (t : List Byte) : uvarint n ++ t ≠ [] := by
  intro h; exact uvarint_ne_nil _ (List.append_eq_nil_iff.mp h).1

/-- One well-formed field in front of any stream is read back and decoding continues after it. -/
theorem decode_encField (fuel : Nat) (p : Nat × WVal) (hp : FieldWF p) (t : List Byte) :
    decode (fuel + 1) (encField p ++ t) = (decode fuel t).map (fun r => p :: r) := by
  obtain ⟨f, v⟩ := p
  cases v with
  | varint v =>
    simp only [FieldWF, maxField] at hp
    obtain ⟨h1, h2, h3, h4⟩ := hp
    have hk : f * 8 < 2 ^ 64 := by simp only [Nat.reducePow]; omega
    have hdiv : f * 8 / 8 = f := by omega
    have hmod : f * 8 % 8 = 0 := by omega
    have hf : ¬ (f = 0 ∨ f ≥ maxField) := by simp only [maxField]; omega
    simp only [encField, List.append_assoc]
    rw [decode]
    simp only [uvarint_append_ne_nil, if_false, readUvarint_uvarint _ hk, hdiv, hmod, hf,
      readUvarint_uvarint _ (toU64_lt v), ofU64_toU64 v ⟨h3, h4⟩, if_true]
  | bytes b =>
    simp only [FieldWF, maxField, two64] at hp
    obtain ⟨h1, h2, h3⟩ := hp
    have hk : f * 8 + 2 < 2 ^ 64 := by simp only [Nat.reducePow]; omega
    have hb : b.length < 2 ^ 64 := by simp only [Nat.reducePow]; omega
    have hdiv : (f * 8 + 2) / 8 = f := by omega
    have hmod : (f * 8 + 2) % 8 = 2 := by omega
    have hf : ¬ (f = 0 ∨ f ≥ maxField) := by simp only [maxField]; omega
    have hnl : ¬ ((b ++ t).length < b.length) := by
      simp only [List.length_append]; omega
    simp only [encField, List.append_assoc]
    rw [decode]
    simp only [uvarint_append_ne_nil, if_false, readUvarint_uvarint _ hk, hdiv, hmod, hf,
      readUvarint_uvarint _ hb, hnl, List.drop_left, List.take_left, if_true]
    simp

theorem encode_cons (p : Nat × WVal) (m : WMsg) : encode (p :: m) = encField p ++ encode m := by
  simp [encode]

theorem encode_nil : encode [] = [] := rfl

/-- The complete fields in front of any stream `t` are read back, then decoding continues on `t`. -/
theorem decode_encode_append (m : WMsg) : WF m → ∀ (fuel : Nat) (t : List Byte),
    decode (m.length + fuel) (encode m ++ t) = (decode fuel t).map (fun r => m ++ r) := by
  induction m with
  | nil =>
    intro _ fuel t
    simp only [encode_nil, List.length_nil, Nat.zero_add, List.nil_append]
    cases decode fuel t <;> simp
  | cons p m ih =>
    intro h fuel t
    have hp : FieldWF p := h p (by simp)
    have hm : WF m := fun x hx => h x (by simp [hx])
    have hfuel : (p :: m).length + fuel = (m.length + fuel) + 1 := by
      simp only [List.length_cons]; omega
    rw [hfuel, encode_cons, List.append_assoc, decode_encField _ p hp, ih hm fuel t]
    cases decode fuel t <;> simp

theorem decode_nil (fuel : Nat) : decode (fuel + 1) [] = some [] := by
  simp [decode]

theorem encField_length_pos (p : Nat × WVal) : 0 < (encField p).length := by
  obtain ⟨f, v⟩ := p
  cases v with
  | varint v =>
    have := uvarint_length_pos (f * 8)
    simp only [encField, List.length_append]; omega
  | bytes b =>
    have := uvarint_length_pos (f * 8 + 2)
    simp only [encField, List.length_append]; omega

theorem length_le_encode_length (m : WMsg) : m.length ≤ (encode m).length := by
  induction m with
  | nil => simp
  | cons p m ih =>
    have := encField_length_pos p
    simp only [encode_cons, List.length_cons, List.length_append]; omega

theorem unmarshal_encode (m : WMsg) (h : WF m) : unmarshal (encode m) = some m := by
  have hl := length_le_encode_length m
  have hfuel : (encode m).length + 1 = m.length + (((encode m).length - m.length) + 1) := by omega
  have := decode_encode_append m h (((encode m).length - m.length) + 1) []
  rw [List.append_nil, decode_nil] at this
  rw [unmarshal, hfuel, this]
  simp

/-! ### truncation -/

/-- A strict, non-empty prefix of one well-formed field is a decoding error. -/
theorem decode_take_encField (fuel : Nat) (p : Nat × WVal) (hp : FieldWF p) (k : Nat) (hk0 : 0 < k)
    (hk : k < (encField p).length) : decode fuel ((encField p).take k) = none := by
  cases fuel with
  | zero => simp [decode]
  | succ fuel =>
    obtain ⟨f, v⟩ := p
    have hne : (encField (f, v)).take k ≠ [] := by
      intro h
      have := congrArg List.length h
      simp only [List.length_take, List.length_nil] at this
      omega
    cases v with
    | varint v =>
      simp only [FieldWF, maxField] at hp
      obtain ⟨h1, h2, h3, h4⟩ := hp
      have hk8 : f * 8 < 2 ^ 64 := by simp only [Nat.reducePow]; omega
      have hdiv : f * 8 / 8 = f := by omega
      have hmod : f * 8 % 8 = 0 := by omega
      have hf : ¬ (f = 0 ∨ f ≥ maxField) := by simp only [maxField]; omega
      simp only [encField] at hk hne ⊢
      simp only [List.length_append] at hk
      rw [decode]
      simp only [hne, if_false]
      by_cases hkp : k < (uvarint (f * 8)).length
      · rw [List.take_append_of_le_length (by omega), readUvarint_take_uvarint _ _ hkp]
      · rw [List.take_append, List.take_of_length_le (by omega), readUvarint_uvarint _ hk8]
        simp only [hdiv, hmod, hf, if_false, if_true]
        rw [readUvarint_take_uvarint _ _ (by omega)]
    | bytes b =>
      simp only [FieldWF, maxField, two64] at hp
      obtain ⟨h1, h2, h3⟩ := hp
      have hk8 : f * 8 + 2 < 2 ^ 64 := by simp only [Nat.reducePow]; omega
      have hb : b.length < 2 ^ 64 := by simp only [Nat.reducePow]; omega
      have hdiv : (f * 8 + 2) / 8 = f := by omega
      have hmod : (f * 8 + 2) % 8 = 2 := by omega
      have hf : ¬ (f = 0 ∨ f ≥ maxField) := by simp only [maxField]; omega
      simp only [encField] at hk hne ⊢
      simp only [List.length_append] at hk
      rw [decode]
      simp only [hne, if_false]
      by_cases hkp : k < (uvarint (f * 8 + 2)).length
      · rw [List.take_append_of_le_length (by omega), readUvarint_take_uvarint _ _ hkp]
      · rw [List.take_append, List.take_of_length_le (by omega), readUvarint_uvarint _ hk8]
        simp only [hdiv, hmod, hf, if_false, if_true]
        by_cases hkq : k - (uvarint (f * 8 + 2)).length < (uvarint b.length).length
        · rw [List.take_append_of_le_length (by omega), readUvarint_take_uvarint _ _ hkq]
          simp
        · rw [List.take_append, List.take_of_length_le (by omega), readUvarint_uvarint _ hb]
          have hlt : (b.take (k - (uvarint (f * 8 + 2)).length - (uvarint b.length).length)).length
              < b.length := by
            simp only [List.length_take]; omega
          simp only [hlt, if_true]
          simp

theorem unmarshal_encode_take (m : WMsg) (p : Nat × WVal) (h : WF m) (hp : FieldWF p) (k : Nat)
    (hk0 : 0 < k) (hk : k < (encField p).length) :
    unmarshal (encode m ++ (encField p).take k) = none := by
  have hl := length_le_encode_length m
  have hfuel : (encode m ++ (encField p).take k).length + 1
      = m.length + ((encode m ++ (encField p).take k).length + 1 - m.length) := by
    simp only [List.length_append]; omega
  rw [unmarshal, hfuel, decode_encode_append m h, decode_take_encField _ p hp k hk0 hk]
  rfl

/-! ### typed views -/

theorem WF_canon (m : WMsg) (h : WF m) : WF (canon m) :=
  fun p hp => h p (List.mem_filter.mp hp).1

theorem WF_nil : WF [] := fun _ hp => by simp at hp

theorem WF_cons (p : Nat × WVal) (m : WMsg) (hp : FieldWF p) (hm : WF m) : WF (p :: m) := by
  intro x hx
  rcases List.mem_cons.mp hx with rfl | hx
  · exact hp
  · exact hm x hx

theorem FieldWF_varint (f : Nat) (v : Int) (h1 : 1 ≤ f) (h2 : f < maxField) (hv : Int64 v) :
    FieldWF (f, .varint v) := ⟨h1, h2, hv.1, hv.2⟩

theorem FieldWF_bytes (f : Nat) (b : List Byte) (h1 : 1 ≤ f) (h2 : f < maxField) (hb : b.length < two64) :
    FieldWF (f, .bytes b) := ⟨h1, h2, hb⟩

theorem Int64_of_Int32 (v : Int) (h : Int32 v) : Int64 v := by
  simp only [Int32] at h
  simp only [Int64, two63]
  omega

theorem toInt32_of_Int32 (v : Int) (h : Int32 v) : toInt32 v = v := by
  simp only [Int32] at h
  simp only [toInt32]
  split <;> omega

theorem WF_ofSyncOp (o : SyncOp) (ht : Int32 o.type) (hf : Int64 o.fileIndex) (hi : Int64 o.blockIndex)
    (hs : Int64 o.blockSpan) (hd : o.data.length < two64) : WF (ofSyncOp o) :=
  WF_canon _ <|
    WF_cons _ _ (FieldWF_varint _ _ (by decide) (by decide) (Int64_of_Int32 _ ht)) <|
    WF_cons _ _ (FieldWF_varint _ _ (by decide) (by decide) hf) <|
    WF_cons _ _ (FieldWF_varint _ _ (by decide) (by decide) hi) <|
    WF_cons _ _ (FieldWF_varint _ _ (by decide) (by decide) hs) <|
    WF_cons _ _ (FieldWF_bytes _ _ (by decide) (by decide) hd) WF_nil

theorem WF_ofSyncHeader (h : SyncHeader) (ht : Int32 h.type) (hf : Int64 h.fileIndex) : WF (ofSyncHeader h) :=
  WF_canon _ <|
    WF_cons _ _ (FieldWF_varint _ _ (by decide) (by decide) (Int64_of_Int32 _ ht)) <|
    WF_cons _ _ (FieldWF_varint _ _ (by decide) (by decide) hf) WF_nil

theorem WF_ofControl (c : Control) (hs : Int64 c.seek) (ha : c.add.length < two64) (hc : c.copy.length < two64) :
    WF (ofControl c) :=
  WF_canon _ <|
    WF_cons _ _ (FieldWF_bytes _ _ (by decide) (by decide) ha) <|
    WF_cons _ _ (FieldWF_bytes _ _ (by decide) (by decide) hc) <|
    WF_cons _ _ (FieldWF_varint _ _ (by decide) (by decide) hs) <|
    WF_cons _ _ (FieldWF_varint _ _ (by decide) (by decide)
      (by cases c.eof <;> simp only [Int64, two63] <;> simp)) WF_nil

theorem WF_ofBsdiffHeader (t : Int) (ht : Int64 t) : WF (ofBsdiffHeader t) :=
  WF_canon _ <| WF_cons _ _ (FieldWF_varint _ _ (by decide) (by decide) ht) WF_nil

theorem asBsdiffHeader_of (t : Int) : asBsdiffHeader (ofBsdiffHeader t) = t := by
  by_cases h : t = 0
  · subst h; rfl
  · simp [ofBsdiffHeader, canon, isZero, asBsdiffHeader, getVarint, h]

theorem asSyncHeader_of (h : SyncHeader) (ht : Int32 h.type) : asSyncHeader (ofSyncHeader h) = h := by
  obtain ⟨ty, fi⟩ := h
  simp only at ht
  have h32 := toInt32_of_Int32 ty ht
  have h0 : toInt32 0 = 0 := by decide
  by_cases h1 : ty = 0 <;> by_cases h2 : fi = 0 <;>
    simp [ofSyncHeader, canon, isZero, asSyncHeader, getVarint, fSyncHeaderType, fSyncHeaderFileIndex,
      h1, h2, h32, h0]

theorem asSyncOp_of (o : SyncOp) (ht : Int32 o.type) : asSyncOp (ofSyncOp o) = o := by
  obtain ⟨ty, fi, bi, bs, d⟩ := o
  simp only at ht
  have h32 := toInt32_of_Int32 ty ht
  have h0 : toInt32 0 = 0 := by decide
  by_cases h1 : ty = 0 <;> by_cases h2 : fi = 0 <;> by_cases h3 : bi = 0 <;> by_cases h4 : bs = 0 <;>
    by_cases h5 : d = [] <;>
    simp [ofSyncOp, canon, isZero, asSyncOp, getVarint, getBytes, fOpType, fOpFileIndex, fOpBlockIndex,
      fOpBlockSpan, fOpData, h1, h2, h3, h4, h5, h32, h0]

theorem asControl_of (c : Control) : asControl (ofControl c) = c := by
  obtain ⟨a, cp, sk, e⟩ := c
  cases e <;> by_cases h1 : a = [] <;> by_cases h2 : cp = [] <;> by_cases h3 : sk = 0 <;>
    simp [ofControl, canon, isZero, asControl, getVarint, getBytes, fCtrlAdd, fCtrlCopy, fCtrlSeek,
      fCtrlEof, h1, h2, h3]

/-! ### typed views are insensitive to dropping zero-valued fields (`canon`) -/

def vstep (f : Nat) : Int → Nat × WVal → Int :=
  fun acc (f', v) => if f' = f then (match v with | .varint x => x | .bytes _ => acc) else acc
def bstep (f : Nat) : List Byte → Nat × WVal → List Byte :=
  fun acc (f', v) => if f' = f then (match v with | .bytes b => b | .varint _ => acc) else acc

theorem getVarint_eq_foldl (m : WMsg) (f : Nat) : getVarint m f = m.foldl (vstep f) 0 := rfl
theorem getBytes_eq_foldl (m : WMsg) (f : Nat) : getBytes m f = m.foldl (bstep f) [] := rfl

theorem foldl_vstep_absent (f : Nat) (m : WMsg) (acc : Int) (h : f ∉ m.map Prod.fst) :
    m.foldl (vstep f) acc = acc := by
  induction m generalizing acc with
  | nil => rfl
  | cons p m ih =>
    obtain ⟨g, v⟩ := p
    simp only [List.map_cons, List.mem_cons, not_or] at h
    have hg : ¬ g = f := fun e => h.1 e.symm
    rw [List.foldl_cons, ih _ h.2]
    simp [vstep, hg]

theorem foldl_bstep_absent (f : Nat) (m : WMsg) (acc : List Byte) (h : f ∉ m.map Prod.fst) :
    m.foldl (bstep f) acc = acc := by
  induction m generalizing acc with
  | nil => rfl
  | cons p m ih =>
    obtain ⟨g, v⟩ := p
    simp only [List.map_cons, List.mem_cons, not_or] at h
    have hg : ¬ g = f := fun e => h.1 e.symm
    rw [List.foldl_cons, ih _ h.2]
    simp [bstep, hg]

theorem absent_canon (f : Nat) (m : WMsg) (h : f ∉ m.map Prod.fst) : f ∉ (canon m).map Prod.fst := by
  intro hc
  obtain ⟨p, hp, rfl⟩ := List.mem_map.mp hc
  exact h (List.mem_map.mpr ⟨p, (List.mem_filter.mp hp).1, rfl⟩)

theorem canon_cons (p : Nat × WVal) (m : WMsg) :
    canon (p :: m) = if isZero p.2 then canon m else p :: canon m := by
  unfold canon
  rw [List.filter_cons]
  cases isZero p.2 <;> simp

theorem getVarint_canon (m : WMsg) (hnd : (m.map Prod.fst).Nodup) (f : Nat) :
    getVarint (canon m) f = getVarint m f := by
  rw [getVarint_eq_foldl, getVarint_eq_foldl]
  induction m with
  | nil => rfl
  | cons p m ih =>
    obtain ⟨g, v⟩ := p
    rw [List.map_cons, List.nodup_cons] at hnd
    have ih' := ih hnd.2
    rw [canon_cons, List.foldl_cons]
    by_cases hg : g = f
    · subst hg
      have ha := hnd.1
      have hc := absent_canon g m ha
      rw [foldl_vstep_absent g m _ ha]
      cases hz : isZero v
      · simp only [Bool.false_eq_true, if_false, List.foldl_cons]
        rw [foldl_vstep_absent g _ _ hc]
      · simp only [if_true]
        rw [foldl_vstep_absent g _ _ hc]
        cases v with
        | varint x =>
          have : x = 0 := by simpa [isZero] using hz
          subst this
          simp [vstep]
        | bytes b => simp [vstep]
    · have h0 : vstep f 0 (g, v) = 0 := by simp [vstep, hg]
      rw [h0]
      cases hz : isZero v
      · simp only [Bool.false_eq_true, if_false, List.foldl_cons]
        rw [h0]; exact ih'
      · simp only [if_true]; exact ih'

theorem getBytes_canon (m : WMsg) (hnd : (m.map Prod.fst).Nodup) (f : Nat) :
    getBytes (canon m) f = getBytes m f := by
  rw [getBytes_eq_foldl, getBytes_eq_foldl]
  induction m with
  | nil => rfl
  | cons p m ih =>
    obtain ⟨g, v⟩ := p
    rw [List.map_cons, List.nodup_cons] at hnd
    have ih' := ih hnd.2
    rw [canon_cons, List.foldl_cons]
    by_cases hg : g = f
    · subst hg
      have ha := hnd.1
      have hc := absent_canon g m ha
      rw [foldl_bstep_absent g m _ ha]
      cases hz : isZero v
      · simp only [Bool.false_eq_true, if_false, List.foldl_cons]
        rw [foldl_bstep_absent g _ _ hc]
      · simp only [if_true]
        rw [foldl_bstep_absent g _ _ hc]
        cases v with
        | varint x => simp [bstep]
        | bytes b =>
          have : b = [] := by simpa [isZero] using hz
          subst this
          simp [bstep]
    · have h0 : bstep f [] (g, v) = [] := by simp [bstep, hg]
      rw [h0]
      cases hz : isZero v
      · simp only [Bool.false_eq_true, if_false, List.foldl_cons]
        rw [h0]; exact ih'
      · simp only [if_true]; exact ih'

/-! ### groups -/

theorem skipGroup_encField (fuel num : Nat) (p : Nat × WVal) (hp : FieldWF p) (t : List Byte) :
    skipGroup (fuel + 1) num (encField p ++ t) = skipGroup fuel num t := by
  obtain ⟨f, v⟩ := p
  cases v with
  | varint v =>
    simp only [FieldWF, maxField] at hp
    obtain ⟨h1, h2, h3, h4⟩ := hp
    have hk : f * 8 < 2 ^ 64 := by simp only [Nat.reducePow]; omega
    have hdiv : f * 8 / 8 = f := by omega
    have hmod : f * 8 % 8 = 0 := by omega
    have hf : ¬ (f = 0 ∨ f > 2147483647) := by omega
    simp only [encField, List.append_assoc]
    rw [skipGroup]
    simp only [readUvarint_uvarint _ hk, hdiv, hmod, hf,
      readUvarint_uvarint _ (toU64_lt v), if_false, if_true]
    simp
  | bytes b =>
    simp only [FieldWF, maxField, two64] at hp
    obtain ⟨h1, h2, h3⟩ := hp
    have hk : f * 8 + 2 < 2 ^ 64 := by simp only [Nat.reducePow]; omega
    have hb : b.length < 2 ^ 64 := by simp only [Nat.reducePow]; omega
    have hdiv : (f * 8 + 2) / 8 = f := by omega
    have hmod : (f * 8 + 2) % 8 = 2 := by omega
    have hf : ¬ (f = 0 ∨ f > 2147483647) := by omega
    have hnl : ¬ ((b ++ t).length < b.length) := by
      simp only [List.length_append]; omega
    simp only [encField, List.append_assoc]
    rw [skipGroup]
    simp only [readUvarint_uvarint _ hk, hdiv, hmod, hf,
      readUvarint_uvarint _ hb, hnl, List.drop_left, if_false, if_true]
    simp

theorem skipGroup_encode_append (num : Nat) (m : WMsg) : WF m → ∀ (fuel : Nat) (t : List Byte),
    skipGroup (m.length + fuel) num (encode m ++ t) = skipGroup fuel num t := by
  induction m with
  | nil =>
    intro _ fuel t
    simp only [encode_nil, List.length_nil, Nat.zero_add, List.nil_append]
  | cons p m ih =>
    intro h fuel t
    have hp : FieldWF p := h p (by simp)
    have hm : WF m := fun x hx => h x (by simp [hx])
    have hfuel : (p :: m).length + fuel = (m.length + fuel) + 1 := by
      simp only [List.length_cons]; omega
    rw [hfuel, encode_cons, List.append_assoc, skipGroup_encField _ _ p hp, ih hm fuel t]

theorem skipGroup_endTag (fuel f : Nat) (hf1 : 1 ≤ f) (hf2 : f < maxField) (t : List Byte) :
    skipGroup (fuel + 1) f (uvarint (f * 8 + 4) ++ t) = some t := by
  simp only [maxField] at hf2
  have hk : f * 8 + 4 < 2 ^ 64 := by simp only [Nat.reducePow]; omega
  have hdiv : (f * 8 + 4) / 8 = f := by omega
  have hmod : (f * 8 + 4) % 8 = 4 := by omega
  have hf : ¬ (f = 0 ∨ f > 2147483647) := by omega
  rw [skipGroup]
  simp only [readUvarint_uvarint _ hk, hdiv, hmod, hf, if_false, if_true]

theorem decode_startGroup (fuel f : Nat) (hf1 : 1 ≤ f) (hf2 : f < maxField) (rest : List Byte) :
    decode (fuel + 1) (uvarint (f * 8 + 3) ++ rest)
      = match skipGroup fuel f rest with
        | none => none
        | some r => decode fuel r := by
  have hf2' := hf2
  simp only [maxField] at hf2'
  have hk : f * 8 + 3 < 2 ^ 64 := by simp only [Nat.reducePow]; omega
  have hdiv : (f * 8 + 3) / 8 = f := by omega
  have hmod : (f * 8 + 3) % 8 = 3 := by omega
  have hf : ¬ (f = 0 ∨ f ≥ maxField) := by simp only [maxField]; omega
  rw [decode]
  simp only [uvarint_append_ne_nil, if_false, readUvarint_uvarint _ hk, hdiv, hmod, hf]
  cases skipGroup fuel f rest <;> simp

theorem decode_group (f : Nat) (hf1 : 1 ≤ f) (hf2 : f < maxField) (inner m : WMsg) (hi : WF inner)
    (hm : WF m) (F : Nat) (h1 : inner.length + 1 ≤ F) (h2 : m.length + 1 ≤ F) :
    decode (F + 1) (uvarint (f * 8 + 3) ++ (encode inner ++ (uvarint (f * 8 + 4) ++ encode m)))
      = some m := by
  rw [decode_startGroup F f hf1 hf2]
  have e1 : F = inner.length + ((F - inner.length - 1) + 1) := by omega
  have hs : skipGroup F f (encode inner ++ (uvarint (f * 8 + 4) ++ encode m)) = some (encode m) := by
    rw [e1, skipGroup_encode_append f inner hi, skipGroup_endTag _ f hf1 hf2]
  rw [hs]
  have e2 : F = m.length + ((F - m.length - 1) + 1) := by omega
  have := decode_encode_append m hm ((F - m.length - 1) + 1) []
  rw [List.append_nil, decode_nil] at this
  show decode F (encode m) = some m
  rw [e2, this]
  simp

theorem unmarshal_group (f : Nat) (hf1 : 1 ≤ f) (hf2 : f < maxField) (inner m : WMsg) (hi : WF inner)
    (hm : WF m) :
    unmarshal (uvarint (f * 8 + 3) ++ (encode inner ++ (uvarint (f * 8 + 4) ++ encode m))) = some m := by
  have l1 := length_le_encode_length inner
  have l2 := length_le_encode_length m
  have l3 := uvarint_length_pos (f * 8 + 3)
  have l4 := uvarint_length_pos (f * 8 + 4)
  rw [unmarshal]
  apply decode_group f hf1 hf2 inner m hi hm
  · simp only [List.length_append]; omega
  · simp only [List.length_append]; omega

end Wharf.Proto
