/-
  Helper lemmas for the tree the fresh bowl produces (Wharf/Model/FreshBowl.lean; property theorems in
  Wharf/Props/C01Tree.lean).

  The run is followed through four phases — directories, files and symlinks of `Prepare`, then the writes —
  starting from ANY tree that is `Partial` for the new build: a well-formed tree all of whose entries are
  entries of the new build of the same kind (directories; regular files with ARBITRARY content; symlinks
  with ARBITRARY destinations).  The empty tree is such a tree, and so is everything a crashed run leaves.
-/
import Wharf.Model.FreshBowl
import Wharf.Proofs.FSLemmas
import Wharf.Proofs.Commit
import Wharf.Proofs.Resume

namespace Wharf.FreshBowl
open Wharf Wharf.FS Wharf.Commit Wharf.Archive

/-! ### small facts -/

theorem readFile_none {t : Tree} (hI : TInv t) {p : Path} (h : Plain t p) (hn : t.get p = none) :
    readFile t p = .error .enoent := by
  simp only [readFile, statFollow, h.canon hI, bind, Except.bind, hn]

theorem writeAt_zero (old data : List Byte) : Resume.writeAt old 0 data = data ++ old.drop data.length := by
  simp [Resume.writeAt]

/-- the content of the regular file at `p` (nothing when there is no regular file) -/
def cur (t : Tree) (p : Path) : List Byte :=
  match t.get p with
  | some (.file d) => d
  | _ => []

theorem cur_file {t : Tree} {p : Path} {d : List Byte} (h : t.get p = some (.file d)) : cur t p = d := by
  simp only [cur, h]

theorem cur_none {t : Tree} {p : Path} (h : t.get p = none) : cur t p = [] := by
  simp only [cur, h]

/-! ### trees made of entries of the new build -/

/-- A well-formed tree all of whose entries are entries of `new` of the same kind. -/
structure Partial (new : Build) (t : Tree) : Prop where
  inv : TInv t
  dir : ∀ p, p ≠ [] → t.get p = some .dir → p ∈ new.dirs
  file : ∀ p d, t.get p = some (.file d) → p ∈ new.files.map (·.1)
  link : ∀ p d, t.get p = some (.symlink d) → p ∈ new.symlinks.map (·.1)

theorem Partial.empty (new : Build) : Partial new {} := by
  refine ⟨TInv.empty, ?_, ?_, ?_⟩
  · intro p hp h
    simp [Tree.get, hp] at h
  · intro p d h
    by_cases hp : p = []
    · simp [Tree.get, hp] at h
    · simp [Tree.get, hp] at h
  · intro p d h
    by_cases hp : p = []
    · simp [Tree.get, hp] at h
    · simp [Tree.get, hp] at h

theorem Partial.dirOrNone {new : Build} {t : Tree} (hb : BWF new) (h : Partial new t) {p : Path}
    (hp : p ∈ new.dirs) : DirOrNone t p := by
  cases hg : t.get p with
  | none => exact Or.inr hg
  | some n =>
    cases n with
    | dir => exact Or.inl hg
    | file d => exact absurd (h.file p d hg) (hb.dir_not_file hp)
    | symlink d => exact absurd (h.link p d hg) (hb.dir_not_symlink hp)

theorem Partial.at_file {new : Build} {t : Tree} (hb : BWF new) (h : Partial new t) {p : Path}
    (hp : p ∈ new.files.map (·.1)) : t.get p = none ∨ ∃ d, t.get p = some (.file d) := by
  have hne : p ≠ [] := hb.ne (mem_pathsOf.mpr (Or.inr (Or.inr hp)))
  cases hg : t.get p with
  | none => exact Or.inl rfl
  | some n =>
    cases n with
    | dir => exact absurd hp (hb.dir_not_file (h.dir p hne hg))
    | file d => exact Or.inr ⟨d, rfl⟩
    | symlink d => exact absurd hp (hb.symlink_not_file (h.link p d hg))

theorem Partial.at_link {new : Build} {t : Tree} (hb : BWF new) (h : Partial new t) {p : Path}
    (hp : p ∈ new.symlinks.map (·.1)) : t.get p = none ∨ ∃ d, t.get p = some (.symlink d) := by
  have hne : p ≠ [] := hb.ne (mem_pathsOf.mpr (Or.inr (Or.inl hp)))
  cases hg : t.get p with
  | none => exact Or.inl rfl
  | some n =>
    cases n with
    | dir => exact absurd hp (hb.dir_not_symlink (h.dir p hne hg))
    | file d => exact absurd (h.file p d hg) (hb.symlink_not_file hp)
    | symlink d => exact Or.inr ⟨d, rfl⟩

/-- nothing but entries of the new build -/
theorem Partial.none_outside {new : Build} {t : Tree} (h : Partial new t) {q : Path} (hq : q ≠ [])
    (hn : q ∉ pathsOf new) : t.get q = none := by
  cases hg : t.get q with
  | none => rfl
  | some n =>
    exfalso
    apply hn
    cases n with
    | dir => exact mem_pathsOf.mpr (Or.inl (h.dir q hq hg))
    | file d => exact mem_pathsOf.mpr (Or.inr (Or.inr (h.file q d hg)))
    | symlink d => exact mem_pathsOf.mpr (Or.inr (Or.inl (h.link q d hg)))

/-! ### phase 1: `prepareDir` over the directories -/

theorem prepareDir_spec {new : Build} (hb : BWF new) {t : Tree} (h : Partial new t) {p : Path}
    (hp : p ∈ new.dirs) :
    ∃ t', prepareDir t p = .ok t' ∧ Partial new t' ∧ (∀ j, IsDir t' (p.take j)) ∧
      (∀ q, t.get q ≠ none → t'.get q = t.get q) ∧ (∀ q, q ∉ new.dirs → t'.get q = t.get q) := by
  have hdn : ∀ j, DirOrNone t (p.take j) := by
    intro j
    by_cases hj : j = 0
    · subst hj; left; simp [get_nil]
    · exact h.dirOrNone hb (take_mem_dirs hb hp (by omega))
  obtain ⟨t', h1, hI', hd', hf'⟩ :=
    mkdirs_spec h.inv (hb.nodd (mem_pathsOf.mpr (Or.inl hp))) hdn
  have htake : ∀ j, p.take j ≠ [] → p.take j ∈ new.dirs := by
    intro j hne
    by_cases hj : j = 0
    · subst hj; simp at hne
    · exact take_mem_dirs hb hp (by omega)
  refine ⟨t', h1, ⟨hI', ?_, ?_, ?_⟩, hd', ?_, ?_⟩
  · intro q hq hg
    by_cases hex : ∃ j, q = p.take j
    · obtain ⟨j, rfl⟩ := hex
      exact htake j hq
    · rw [hf' q (fun j hj => hex ⟨j, hj⟩)] at hg
      exact h.dir q hq hg
  · intro q d hg
    by_cases hex : ∃ j, q = p.take j
    · obtain ⟨j, rfl⟩ := hex
      have := hd' j
      rw [IsDir, hg] at this
      cases this
    · rw [hf' q (fun j hj => hex ⟨j, hj⟩)] at hg
      exact h.file q d hg
  · intro q d hg
    by_cases hex : ∃ j, q = p.take j
    · obtain ⟨j, rfl⟩ := hex
      have := hd' j
      rw [IsDir, hg] at this
      cases this
    · rw [hf' q (fun j hj => hex ⟨j, hj⟩)] at hg
      exact h.link q d hg
  · intro q hq
    by_cases hex : ∃ j, q = p.take j
    · obtain ⟨j, rfl⟩ := hex
      rcases hdn j with hh | hh
      · rw [hh]; exact hd' j
      · exact absurd hh hq
    · exact hf' q (fun j hj => hex ⟨j, hj⟩)
  · intro q hq
    by_cases hex : ∃ j, q = p.take j
    · obtain ⟨j, rfl⟩ := hex
      by_cases hne : p.take j = []
      · rw [hne]; simp [get_nil]
      · exact absurd (htake j hne) hq
    · exact hf' q (fun j hj => hex ⟨j, hj⟩)

theorem prepareDirs_spec {new : Build} (hb : BWF new) : ∀ (L : List Path) (t : Tree), Partial new t →
    (∀ p ∈ L, p ∈ new.dirs) →
    ∃ t', L.foldlM prepareDir t = .ok t' ∧ Partial new t' ∧ (∀ p ∈ L, IsDir t' p) ∧
      (∀ q, t.get q ≠ none → t'.get q = t.get q) ∧ (∀ q, q ∉ new.dirs → t'.get q = t.get q) := by
  intro L
  induction L with
  | nil =>
    intro t h _
    exact ⟨t, rfl, h, by simp, fun _ _ => rfl, fun _ _ => rfl⟩
  | cons p L ih =>
    intro t h hL
    obtain ⟨t1, h1, hP1, hd1, hm1, ho1⟩ := prepareDir_spec hb h (hL p (by simp))
    obtain ⟨t', h2, hP2, hd2, hm2, ho2⟩ := ih t1 hP1 (fun q hq => hL q (by simp [hq]))
    refine ⟨t', by simp only [List.foldlM_cons, bind, Except.bind, h1, h2], hP2, ?_, ?_, ?_⟩
    · intro q hq
      simp only [List.mem_cons] at hq
      rcases hq with rfl | hq
      · have : t1.get q = some .dir := by simpa [IsDir] using hd1 q.length
        simp only [IsDir]
        rw [hm2 q (by rw [this]; simp), this]
      · exact hd2 q hq
    · intro q hq
      rw [hm2 q (by rw [hm1 q hq]; exact hq), hm1 q hq]
    · intro q hq
      rw [ho2 q hq, ho1 q hq]

/-! ### a path of the build is plain or unreachable -/

theorem resolve_dirOrNone_strong (t : Tree) : ∀ (rest done : Path) (fuel : Nat), rest.length < fuel →
    ".." ∉ rest.dropLast → (∀ j, 1 ≤ j → j < rest.length → DirOrNone t (done ++ rest.take j)) →
    (resolve t fuel done rest = .ok (done ++ rest) ∧
        ∀ j, 1 ≤ j → j < rest.length → IsDir t (done ++ rest.take j)) ∨
      resolve t fuel done rest = .error .enoent := by
  intro rest
  induction rest with
  | nil =>
    intro done fuel hf _ _
    cases fuel with
    | zero => omega
    | succ f =>
      left
      refine ⟨by simp [resolve], ?_⟩
      intro j h1 h2
      simp at h2
  | cons c r ih =>
    intro done fuel hf hdd hdir
    cases fuel with
    | zero => omega
    | succ f =>
      cases r with
      | nil =>
        left
        refine ⟨by simp [resolve], ?_⟩
        intro j h1 h2
        simp at h2
        omega
      | cons c2 r2 =>
        have hc : c ≠ ".." := by
          intro h; apply hdd; simp [h]
        have h1 := hdir 1 (by omega) (by simp)
        simp only [List.take_succ_cons, List.take_zero] at h1
        rcases h1 with h1 | h1
        · simp only [resolve, if_neg hc, h1]
          have := ih (done ++ [c]) f (by simpa using hf) (by
            intro h; apply hdd
            have : (c :: c2 :: r2).dropLast = c :: (c2 :: r2).dropLast := rfl
            rw [this]; exact List.mem_cons_of_mem _ h) (by
            intro j hj1 hj2
            have := hdir (j + 1) (by omega) (by simp at hj2 ⊢; omega)
            simpa using this)
          rcases this with ⟨h2, h3⟩ | h2
          · left
            refine ⟨by simpa using h2, ?_⟩
            intro j hj1 hj2
            cases j with
            | zero => omega
            | succ j =>
              cases j with
              | zero => simpa [IsDir] using h1
              | succ j =>
                have := h3 (j + 1) (by omega) (by simp at hj2 ⊢; omega)
                simpa using this
          · right
            exact h2
        · right
          simp only [resolve, if_neg hc, h1]

theorem canon_dirOrNone_strong {t : Tree} {p : Path} (hd : ∀ j, j < p.length → DirOrNone t (p.take j))
    (hdd : ".." ∉ p.dropLast) :
    (canon t p = .ok p ∧ ∀ j, j < p.length → IsDir t (p.take j)) ∨ canon t p = .error .enoent := by
  unfold canon
  have := resolve_dirOrNone_strong t p [] (4 * (p.length + 8)) (by omega) hdd (by
    intro j _ h2
    simpa using hd j h2)
  rcases this with ⟨h1, h2⟩ | h1
  · left
    refine ⟨by simpa using h1, ?_⟩
    intro j hj
    by_cases hj0 : j = 0
    · subst hj0; simpa using isDir_nil t
    · simpa using h2 j (by omega) hj
  · right; exact h1

/-- In a `Partial` tree a path of the build is either plain (its parent chain is there) or cannot be
    reached at all. -/
theorem Partial.plain_or_enoent {new : Build} {t : Tree} (hb : BWF new) (h : Partial new t) {p : Path}
    (hp : p ∈ pathsOf new) : Plain t p ∨ canon t p = .error .enoent := by
  have hne := hb.ne hp
  have hdd : ".." ∉ p.dropLast := fun hm => hb.nodd hp (mem_of_mem_dropLast hm)
  have hd : ∀ j, j < p.length → DirOrNone t (p.take j) := by
    intro j hj
    by_cases hj0 : j = 0
    · subst hj0; left; simp [get_nil]
    · exact h.dirOrNone hb (hb.parents p hp j (by omega) hj)
  rcases canon_dirOrNone_strong hd hdd with ⟨_, h2⟩ | h2
  · left
    refine ⟨hne, ?_, hdd⟩
    rw [List.dropLast_eq_take]
    apply h2
    have : p.length ≠ 0 := fun h0 => hne (List.eq_nil_of_length_eq_zero h0)
    omega
  · right; exact h2

/-! ### rewriting one non-directory path of the build -/

/-- replacing what is at a non-directory path by a node of the right kind -/
theorem Partial.update {new : Build} {t t2 : Tree} (h : Partial new t) (hI2 : TInv t2) {p : Path} {n : Node}
    (hn : n ≠ .dir)
    (hf : ∀ d, n = .file d → p ∈ new.files.map (·.1))
    (hl : ∀ d, n = .symlink d → p ∈ new.symlinks.map (·.1))
    (hg : ∀ q, t2.get q = if q = p then some n else t.get q) : Partial new t2 := by
  refine ⟨hI2, ?_, ?_, ?_⟩
  · intro q hq hd
    rw [hg] at hd
    by_cases hqp : q = p
    · rw [if_pos hqp] at hd
      exact absurd (Option.some.inj hd) hn
    · rw [if_neg hqp] at hd
      exact h.dir q hq hd
  · intro q d hd
    rw [hg] at hd
    by_cases hqp : q = p
    · rw [if_pos hqp] at hd
      rw [hqp]
      exact hf d (Option.some.inj hd)
    · rw [if_neg hqp] at hd
      exact h.file q d hd
  · intro q d hd
    rw [hg] at hd
    by_cases hqp : q = p
    · rw [if_pos hqp] at hd
      rw [hqp]
      exact hl d (Option.some.inj hd)
    · rw [if_neg hqp] at hd
      exact h.link q d hd

/-- removing what is at a non-directory path -/
theorem Partial.erase {new : Build} {t : Tree} (h : Partial new t) {p : Path} (hp : p ≠ [])
    (hnd : t.get p ≠ some .dir) : Partial new (t.erase p) := by
  have hI1 : TInv (t.erase p) :=
    h.inv.erase hp (dropLast_ne_of_no_under h.inv (no_under_of_not_dir h.inv hnd))
  refine ⟨hI1, ?_, ?_, ?_⟩
  · intro q hq hd
    rw [get_erase hp] at hd
    by_cases hqp : q = p
    · rw [if_pos hqp] at hd; cases hd
    · rw [if_neg hqp] at hd; exact h.dir q hq hd
  · intro q d hd
    rw [get_erase hp] at hd
    by_cases hqp : q = p
    · rw [if_pos hqp] at hd; cases hd
    · rw [if_neg hqp] at hd; exact h.file q d hd
  · intro q d hd
    rw [get_erase hp] at hd
    by_cases hqp : q = p
    · rw [if_pos hqp] at hd; cases hd
    · rw [if_neg hqp] at hd; exact h.link q d hd

theorem Partial.slot {new : Build} {t : Tree} (hb : BWF new) (h : Partial new t) {p : Path}
    (hpl : Plain t p) (hp : p ∈ new.files.map (·.1)) : Slot t p := by
  refine ⟨hpl, ?_⟩
  rcases h.at_file hb hp with hg | ⟨d, hg⟩ <;> rw [hg] <;> rfl

/-- writing a regular file at a (plain) file path of the build -/
theorem Partial.setFile {new : Build} {t : Tree} (hb : BWF new) (h : Partial new t) {p : Path}
    (hpl : Plain t p) (hp : p ∈ new.files.map (·.1)) (c : List Byte) :
    writeFile t p c = .ok (t.set p (.file c)) ∧ Partial new (t.set p (.file c)) ∧
      ∀ q, (t.set p (.file c)).get q = if q = p then some (.file c) else t.get q := by
  have hs := h.slot hb hpl hp
  obtain ⟨hI2, _, hg⟩ := set_file_spec h.inv hs c
  refine ⟨writeFile_slot h.inv hs c, ?_, hg⟩
  exact h.update hI2 (by simp) (fun _ _ => hp) (fun d hd => by cases hd) hg

theorem Partial.prepareFile {new : Build} {t : Tree} (hb : BWF new) (h : Partial new t) {p : Path}
    (hpl : Plain t p) (hp : p ∈ new.files.map (·.1)) (size : Nat) :
    ∃ t' c, prepareFile t p size = .ok t' ∧ Partial new t' ∧ c.length = size ∧
      ∀ q, t'.get q = if q = p then some (.file c) else t.get q := by
  rcases h.at_file hb hp with hg | ⟨d, hg⟩
  · obtain ⟨h1, h2, h3⟩ := h.setFile hb hpl hp (Resume.prepare [] size)
    refine ⟨_, _, ?_, h2, Resume.prepare_length _ _, h3⟩
    simp only [FreshBowl.prepareFile, readFile_none h.inv hpl hg, h1]
  · obtain ⟨h1, h2, h3⟩ := h.setFile hb hpl hp (Resume.prepare d size)
    refine ⟨_, _, ?_, h2, Resume.prepare_length _ _, h3⟩
    simp only [FreshBowl.prepareFile, readFile_plain h.inv hpl hg, h1]

theorem Partial.removeAll_link {new : Build} {t : Tree} (hb : BWF new) (h : Partial new t) {p : Path}
    (hpl : Plain t p) (hp : p ∈ new.symlinks.map (·.1)) :
    removeAll t p = .ok (t.erase p) ∧ t.get p ≠ some .dir := by
  have hnd : t.get p ≠ some .dir := by
    rcases h.at_link hb hp with hg | ⟨d', hg⟩ <;> rw [hg] <;> simp
  have hno := no_under_of_not_dir h.inv hnd
  refine ⟨?_, hnd⟩
  simp only [removeAll, hpl.canon h.inv, eraseTree_eq_erase hno]

theorem Partial.prepareSymlink {new : Build} {t : Tree} (hb : BWF new) (h : Partial new t) {p : Path}
    (hpl : Plain t p) (hp : p ∈ new.symlinks.map (·.1)) (dest : String) :
    ∃ t', prepareSymlink t p dest = .ok t' ∧ Partial new t' ∧
      ∀ q, t'.get q = if q = p then some (.symlink dest) else t.get q := by
  have hI := h.inv
  obtain ⟨hrm, hnd⟩ := h.removeAll_link hb hpl hp
  have hI1 : TInv (t.erase p) := (h.erase hpl.ne hnd).inv
  have hp1 : Plain (t.erase p) p := by
    refine ⟨hpl.ne, ?_, hpl.nodd⟩
    simp only [IsDir]
    rw [get_erase hpl.ne, if_neg hpl.dropLast_ne]
    exact hpl.parent
  have hg1 : (t.erase p).get p = none := by rw [get_erase hpl.ne]; simp
  have hI2 : TInv ((t.erase p).set p (.symlink dest)) :=
    hI1.set hpl.ne hp1.parent (Or.inl (by rw [hg1]; simp))
  have hget : ∀ q, ((t.erase p).set p (.symlink dest)).get q =
      if q = p then some (.symlink dest) else t.get q := by
    intro q
    rw [get_set _ hpl.ne, get_erase hpl.ne]
    by_cases hq : q = p <;> simp [hq]
  refine ⟨(t.erase p).set p (.symlink dest), ?_, ?_, hget⟩
  · simp only [FreshBowl.prepareSymlink, hrm, bind, Except.bind, symlink_plain hI1 hp1 hg1]
  · exact h.update hI2 (by simp) (fun d hd => by cases hd) (fun _ _ => hp) hget

theorem mkdirs_parent_plain {t : Tree} (hI : TInv t) {p : Path} (hpl : Plain t p) :
    mkdirs t p.dropLast = .ok t :=
  mkdirs_noop hI hpl.parent hpl.nodd

/-- the `freshEntryWriter` at a (plain) file path: what was beyond the written bytes survives -/
theorem Partial.entryWriteAt {new : Build} {t : Tree} (hb : BWF new) (h : Partial new t) {p : Path}
    (hpl : Plain t p) (hp : p ∈ new.files.map (·.1)) (data : List Byte) :
    ∃ t', entryWriteAt t p data = .ok t' ∧ Partial new t' ∧
      ∀ q, t'.get q = if q = p then some (.file (data ++ (cur t p).drop data.length)) else t.get q := by
  have hmk := mkdirs_parent_plain h.inv hpl
  rcases h.at_file hb hp with hg | ⟨d, hg⟩
  · obtain ⟨h1, h2, h3⟩ := h.setFile hb hpl hp data
    refine ⟨_, ?_, h2, ?_⟩
    · simp only [FreshBowl.entryWriteAt, hmk, bind, Except.bind, readFile_none h.inv hpl hg, h1]
    · intro q
      rw [h3 q, cur_none hg]
      simp
  · obtain ⟨h1, h2, h3⟩ := h.setFile hb hpl hp (Resume.writeAt d 0 data)
    refine ⟨_, ?_, h2, ?_⟩
    · simp only [FreshBowl.entryWriteAt, hmk, bind, Except.bind, readFile_plain h.inv hpl hg, h1]
    · intro q
      rw [h3 q, cur_file hg, writeAt_zero]

/-- `clearWay` at a (plain) file path of the build: nothing is in the way -/
theorem Partial.clearWay {new : Build} {t : Tree} (hb : BWF new) (h : Partial new t) {p : Path}
    (hpl : Plain t p) (hp : p ∈ new.files.map (·.1)) : clearWay t p = .ok t := by
  have hmk := mkdirs_parent_plain h.inv hpl
  rcases h.at_file hb hp with hg | ⟨d, hg⟩
  · simp only [FreshBowl.clearWay, hmk, bind, Except.bind, lstat_none h.inv hpl hg]
  · simp only [FreshBowl.clearWay, hmk, bind, Except.bind, lstat_some h.inv hpl hg]

/-- `fspool.GetWriter` at a (plain) file path: the file holds exactly what was written -/
theorem Partial.writeFileAt {new : Build} {t : Tree} (hb : BWF new) (h : Partial new t) {p : Path}
    (hpl : Plain t p) (hp : p ∈ new.files.map (·.1)) (data : List Byte) :
    ∃ t', writeFileAt t p data = .ok t' ∧ Partial new t' ∧
      ∀ q, t'.get q = if q = p then some (.file data) else t.get q := by
  obtain ⟨h1, h2, h3⟩ := h.setFile hb hpl hp data
  refine ⟨_, ?_, h2, h3⟩
  simp only [FreshBowl.writeFileAt, h.clearWay hb hpl hp, bind, Except.bind, h1]

/-! ### after the directories: every path of the build is plain -/

/-- `Partial`, with every directory of the build present. -/
structure Ready (new : Build) (t : Tree) : Prop extends Partial new t where
  dirs : ∀ p ∈ new.dirs, IsDir t p

theorem Ready.plain {new : Build} {t : Tree} (hb : BWF new) (h : Ready new t) {p : Path}
    (hp : p ∈ pathsOf new) : Plain t p := by
  refine ⟨hb.ne hp, ?_, fun hm => hb.nodd hp (mem_of_mem_dropLast hm)⟩
  rcases hb.parent_mem hp with h0 | h0
  · rw [h0]; exact isDir_nil t
  · exact h.dirs _ h0

/-- a step that rewrites one non-directory path keeps the directories -/
theorem Ready.of_update {new : Build} {t t2 : Tree} (h : Ready new t) (h2 : Partial new t2) {p : Path}
    {n : Node} (hp : p ∉ new.dirs) (hg : ∀ q, t2.get q = if q = p then some n else t.get q) :
    Ready new t2 := by
  refine ⟨h2, ?_⟩
  intro q hq
  simp only [IsDir]
  rw [hg, if_neg (fun hqp : q = p => hp (hqp ▸ hq))]
  exact h.dirs q hq

theorem file_not_dir {new : Build} (hb : BWF new) {p : Path} (hp : p ∈ new.files.map (·.1)) :
    p ∉ new.dirs := fun hd => hb.dir_not_file hd hp

theorem link_not_dir {new : Build} (hb : BWF new) {p : Path} (hp : p ∈ new.symlinks.map (·.1)) :
    p ∉ new.dirs := fun hd => hb.dir_not_symlink hd hp

/-! ### the four kinds of steps, on a `Ready` tree -/

theorem prepareFile_spec {new : Build} (hb : BWF new) {t : Tree} (h : Ready new t) {p : Path}
    (hp : p ∈ new.files.map (·.1)) (size : Nat) :
    ∃ t' c, prepareFile t p size = .ok t' ∧ Ready new t' ∧ c.length = size ∧
      ∀ q, t'.get q = if q = p then some (.file c) else t.get q := by
  obtain ⟨t', c, h1, h2, h3, h4⟩ :=
    h.toPartial.prepareFile hb (h.plain hb (mem_pathsOf.mpr (Or.inr (Or.inr hp)))) hp size
  exact ⟨t', c, h1, h.of_update h2 (file_not_dir hb hp) h4, h3, h4⟩

theorem prepareSymlink_spec {new : Build} (hb : BWF new) {t : Tree} (h : Ready new t) {p : Path}
    (hp : p ∈ new.symlinks.map (·.1)) (dest : String) :
    ∃ t', prepareSymlink t p dest = .ok t' ∧ Ready new t' ∧
      ∀ q, t'.get q = if q = p then some (.symlink dest) else t.get q := by
  obtain ⟨t', h1, h2, h3⟩ :=
    h.toPartial.prepareSymlink hb (h.plain hb (mem_pathsOf.mpr (Or.inr (Or.inl hp)))) hp dest
  exact ⟨t', h1, h.of_update h2 (link_not_dir hb hp) h3, h3⟩

/-- the `freshEntryWriter`: what was beyond the written bytes survives -/
theorem entryWriteAt_spec {new : Build} (hb : BWF new) {t : Tree} (h : Ready new t) {p : Path}
    (hp : p ∈ new.files.map (·.1)) (data : List Byte) :
    ∃ t', entryWriteAt t p data = .ok t' ∧ Ready new t' ∧
      ∀ q, t'.get q = if q = p then some (.file (data ++ (cur t p).drop data.length)) else t.get q := by
  have hpp := mem_pathsOf.mpr (Or.inr (Or.inr hp))
  obtain ⟨t', h1, h2, h3⟩ := h.toPartial.entryWriteAt hb (h.plain hb hpp) hp data
  exact ⟨t', h1, h.of_update h2 (file_not_dir hb hp) h3, h3⟩

/-- `fspool.GetWriter`: the file holds exactly what was written -/
theorem writeFileAt_spec {new : Build} (hb : BWF new) {t : Tree} (h : Ready new t) {p : Path}
    (hp : p ∈ new.files.map (·.1)) (data : List Byte) :
    ∃ t', writeFileAt t p data = .ok t' ∧ Ready new t' ∧
      ∀ q, t'.get q = if q = p then some (.file data) else t.get q := by
  have hpp := mem_pathsOf.mpr (Or.inr (Or.inr hp))
  obtain ⟨t', h1, h2, h3⟩ := h.toPartial.writeFileAt hb (h.plain hb hpp) hp data
  exact ⟨t', h1, h.of_update h2 (file_not_dir hb hp) h3, h3⟩

/-! ### folds -/

/-- a fold whose steps each rewrite one key path, over a list with distinct keys -/
theorem foldlM_keys {α : Type} (f : Tree → α → Except Err Tree) (k : α → Path) (I : Tree → Prop)
    (P : α → Prop) (Q : α → Option Node → Prop)
    (hstep : ∀ t a, I t → P a →
      ∃ t', f t a = .ok t' ∧ I t' ∧ Q a (t'.get (k a)) ∧ ∀ q, q ≠ k a → t'.get q = t.get q) :
    ∀ (L : List α) (t : Tree), I t → (∀ a ∈ L, P a) → (L.map k).Nodup →
      ∃ t', L.foldlM f t = .ok t' ∧ I t' ∧ (∀ a ∈ L, Q a (t'.get (k a))) ∧
        ∀ q, q ∉ L.map k → t'.get q = t.get q := by
  intro L
  induction L with
  | nil =>
    intro t hI _ _
    exact ⟨t, rfl, hI, by simp, fun _ _ => rfl⟩
  | cons a L ih =>
    intro t hI hP hnd
    simp only [List.map_cons, List.nodup_cons] at hnd
    obtain ⟨t1, h1, hI1, hQ1, hf1⟩ := hstep t a hI (hP a (by simp))
    obtain ⟨t', h2, hI2, hQ2, hf2⟩ := ih t1 hI1 (fun b hb => hP b (by simp [hb])) hnd.2
    refine ⟨t', by simp only [List.foldlM_cons, bind, Except.bind, h1, h2], hI2, ?_, ?_⟩
    · intro b hb
      simp only [List.mem_cons] at hb
      rcases hb with rfl | hb
      · rw [hf2 _ hnd.1]; exact hQ1
      · exact hQ2 b hb
    · intro q hq
      simp only [List.map_cons, List.mem_cons, not_or] at hq
      rw [hf2 q hq.2, hf1 q hq.1]

/-- every file of the build is there with its declared size (what `prepareFile` establishes) -/
def Sized (new : Build) (t : Tree) : Prop :=
  ∀ e ∈ new.files, ∃ c, t.get e.1 = some (.file c) ∧ c.length = e.2.length

/-- every symlink of the build is there with its destination (what `prepareSymlink` establishes) -/
def Linked (new : Build) (t : Tree) : Prop :=
  ∀ e ∈ new.symlinks, t.get e.1 = some (.symlink e.2)

/-- phase 2: `prepareFile` over the files -/
theorem prepareFiles_spec {new : Build} (hb : BWF new) {t : Tree} (h : Ready new t) :
    ∃ t', new.files.foldlM (fun t (p, d) => prepareFile t p d.length) t = .ok t' ∧ Ready new t' ∧
      Sized new t' ∧ ∀ q, q ∉ new.files.map (·.1) → t'.get q = t.get q := by
  have := foldlM_keys (fun t (e : Path × List Byte) => prepareFile t e.1 e.2.length) (·.1) (Ready new)
    (fun e => e ∈ new.files) (fun e n => ∃ c, n = some (.file c) ∧ c.length = e.2.length)
    (by
      intro t e hR he
      obtain ⟨t', c, h1, h2, h3, h4⟩ :=
        prepareFile_spec hb hR (List.mem_map.mpr ⟨e, he, rfl⟩) e.2.length
      refine ⟨t', h1, h2, ⟨c, ?_, h3⟩, ?_⟩
      · rw [h4]; simp
      · intro q hq
        rw [h4, if_neg hq])
    new.files t h (fun _ h => h) hb.files_nodup
  obtain ⟨t', h1, h2, h3, h4⟩ := this
  exact ⟨t', h1, h2, h3, h4⟩

/-- phase 3: `prepareSymlink` over the symlinks -/
theorem prepareSymlinks_spec {new : Build} (hb : BWF new) {t : Tree} (h : Ready new t) (hs : Sized new t) :
    ∃ t', new.symlinks.foldlM (fun t (p, dest) => prepareSymlink t p dest) t = .ok t' ∧ Ready new t' ∧
      Sized new t' ∧ Linked new t' ∧ ∀ q, q ∉ new.symlinks.map (·.1) → t'.get q = t.get q := by
  have := foldlM_keys (fun t (e : Path × String) => prepareSymlink t e.1 e.2) (·.1) (Ready new)
    (fun e => e ∈ new.symlinks) (fun e n => n = some (.symlink e.2))
    (by
      intro t e hR he
      obtain ⟨t', h1, h2, h3⟩ := prepareSymlink_spec hb hR (List.mem_map.mpr ⟨e, he, rfl⟩) e.2
      refine ⟨t', h1, h2, ?_, ?_⟩
      · rw [h3]; simp
      · intro q hq
        rw [h3, if_neg hq])
    new.symlinks t h (fun _ h => h) hb.symlinks_nodup
  obtain ⟨t', h1, h2, h3, h4⟩ := this
  refine ⟨t', h1, h2, ?_, h3, h4⟩
  intro e he
  have hne : e.1 ∉ new.symlinks.map (·.1) := fun hm =>
    hb.symlink_not_file hm (List.mem_map.mpr ⟨e, he, rfl⟩)
  rw [h4 _ hne]
  exact hs e he

/-- `Prepare` from any `Partial` tree: everything is in place except the contents of the files, which have
    their declared sizes. -/
theorem prepare_spec {new : Build} (hb : BWF new) {t : Tree} (h : Partial new t) :
    ∃ t', prepare new t = .ok t' ∧ Ready new t' ∧ Sized new t' ∧ Linked new t' := by
  obtain ⟨t1, h1, hP1, hd1, _, _⟩ := prepareDirs_spec hb new.dirs t h (fun _ hp => hp)
  obtain ⟨t2, h2, hR2, hS2, _⟩ := prepareFiles_spec hb (t := t1) ⟨hP1, hd1⟩
  obtain ⟨t3, h3, hR3, hS3, hL3, _⟩ := prepareSymlinks_spec hb hR2 hS2
  exact ⟨t3, by simp only [prepare, bind, Except.bind, h1, h2, h3], hR3, hS3, hL3⟩

/-! ### phase 4: the writes -/

/-- one write of the right content: the file is exactly that content, the invariants stay -/
theorem writeStep_spec {new : Build} (hb : BWF new) (via : Nat → Via) {t : Tree} (h : Ready new t)
    (hs : Sized new t) {o : Nat × List Byte} {p : Path} (ho : new.files[o.1]? = some (p, o.2)) :
    ∃ t', writeStep new via t o = .ok t' ∧ Ready new t' ∧ Sized new t' ∧
      ∀ q, t'.get q = if q = p then some (.file o.2) else t.get q := by
  have hmem : (p, o.2) ∈ new.files := mem_files_of_getElem? ho
  have hp : p ∈ new.files.map (·.1) := List.mem_map.mpr ⟨_, hmem, rfl⟩
  have key : ∃ t', writeStep new via t o = .ok t' ∧ Ready new t' ∧
      ∀ q, t'.get q = if q = p then some (.file o.2) else t.get q := by
    cases hv : via o.1 with
    | writer =>
      obtain ⟨t', h1, h2, h3⟩ := entryWriteAt_spec hb h hp o.2
      refine ⟨t', by simp only [writeStep, ho, hv, h1], h2, ?_⟩
      obtain ⟨c, hc1, hc2⟩ := hs _ hmem
      have : (cur t p).drop o.2.length = [] := by
        rw [cur_file hc1]
        apply List.drop_eq_nil_of_le
        simp only at hc2
        omega
      intro q
      rw [h3 q, this, List.append_nil]
    | transpose =>
      obtain ⟨t', h1, h2, h3⟩ := writeFileAt_spec hb h hp o.2
      exact ⟨t', by simp only [writeStep, ho, hv, h1], h2, h3⟩
  obtain ⟨t', h1, h2, h3⟩ := key
  refine ⟨t', h1, h2, ?_, h3⟩
  intro e he
  rw [h3]
  by_cases hq : e.1 = p
  · rw [if_pos hq]
    have : e.2 = o.2 := files_content_unique hb (by rw [← hq]; exact he) hmem
    exact ⟨o.2, rfl, by rw [this]⟩
  · rw [if_neg hq]
    exact hs e he

/-- all the writes, in any order, possibly repeated: the files written hold their content, files that held
    their content keep it, nothing else changes -/
theorem writes_spec {new : Build} (hb : BWF new) (via : Nat → Via) : ∀ (outs : List (Nat × List Byte))
    (t : Tree), Ready new t → Sized new t → (∀ o ∈ outs, ∃ p, new.files[o.1]? = some (p, o.2)) →
    ∃ t', outs.foldlM (writeStep new via) t = .ok t' ∧ Ready new t' ∧ Sized new t' ∧
      (∀ o ∈ outs, ∃ p, new.files[o.1]? = some (p, o.2) ∧ t'.get p = some (.file o.2)) ∧
      (∀ e ∈ new.files, t.get e.1 = some (.file e.2) → t'.get e.1 = some (.file e.2)) ∧
      (∀ q, q ∉ new.files.map (·.1) → t'.get q = t.get q) := by
  intro outs
  induction outs with
  | nil =>
    intro t h hs _
    exact ⟨t, rfl, h, hs, by simp, fun _ _ h => h, fun _ _ => rfl⟩
  | cons o outs ih =>
    intro t h hs ho
    obtain ⟨p, hop⟩ := ho o (by simp)
    have hmem : (p, o.2) ∈ new.files := mem_files_of_getElem? hop
    obtain ⟨t1, h1, hR1, hS1, hg1⟩ := writeStep_spec hb via h hs hop
    obtain ⟨t', h2, hR2, hS2, hW2, hK2, hO2⟩ := ih t1 hR1 hS1 (fun o' ho' => ho o' (by simp [ho']))
    have hkeep : ∀ e ∈ new.files, t.get e.1 = some (.file e.2) → t1.get e.1 = some (.file e.2) := by
      intro e he hg
      rw [hg1]
      by_cases hq : e.1 = p
      · rw [if_pos hq]
        have : e.2 = o.2 := files_content_unique hb (by rw [← hq]; exact he) hmem
        rw [this]
      · rw [if_neg hq]; exact hg
    refine ⟨t', by simp only [List.foldlM_cons, bind, Except.bind, h1, h2], hR2, hS2, ?_, ?_, ?_⟩
    · intro o' ho'
      simp only [List.mem_cons] at ho'
      rcases ho' with rfl | ho'
      · refine ⟨p, hop, ?_⟩
        have := hK2 (p, o'.2) hmem (by rw [hg1]; simp)
        exact this
      · exact hW2 o' ho'
    · intro e he hg
      exact hK2 e he (hkeep e he hg)
    · intro q hq
      rw [hO2 q hq, hg1, if_neg]
      intro hqp
      apply hq
      rw [hqp]
      exact List.mem_map.mpr ⟨_, hmem, rfl⟩

/-- The whole run, from any `Partial` tree, for any assignment of writers, any order of the writes: if every
    write carries the content of the file it is for and every file is written at least once, the resulting
    tree holds exactly the new build. -/
theorem freshApply_spec {new : Build} (hb : BWF new) (via : Nat → Via) (outs : List (Nat × List Byte))
    {t : Tree} (h : Partial new t)
    (hout : ∀ o ∈ outs, ∃ p, new.files[o.1]? = some (p, o.2))
    (hcov : ∀ i, i < new.files.length → i ∈ outs.map (·.1)) :
    ∃ t', freshApply new outs t via = .ok t' ∧ ∀ q, t'.get q = (treeOfBuild new).get q := by
  obtain ⟨t1, h1, hR1, hS1, hL1⟩ := prepare_spec hb h
  obtain ⟨t', h2, hR2, _, hW2, _, hO2⟩ := writes_spec hb via outs t1 hR1 hS1 hout
  refine ⟨t', by simp only [freshApply, bind, Except.bind, h1, h2], ?_⟩
  intro q
  by_cases hq0 : q = []
  · subst hq0; simp [get_nil]
  by_cases hd : q ∈ new.dirs
  · rw [get_dir_treeOfBuild hb hd]
    exact hR2.dirs q hd
  by_cases hf : q ∈ new.files.map (·.1)
  · obtain ⟨e, he, rfl⟩ := List.mem_map.mp hf
    rw [get_file_treeOfBuild hb (p := e.1) (d := e.2) he]
    obtain ⟨i, hi, hie⟩ := List.getElem_of_mem he
    obtain ⟨o, ho, hoi⟩ := List.mem_map.mp (hcov i hi)
    obtain ⟨p, hp1, hp2⟩ := hW2 o ho
    rw [hoi, List.getElem?_eq_getElem hi, hie] at hp1
    cases hp1
    exact hp2
  by_cases hl : q ∈ new.symlinks.map (·.1)
  · obtain ⟨e, he, rfl⟩ := List.mem_map.mp hl
    rw [get_symlink_treeOfBuild hb (p := e.1) (d := e.2) he, hO2 _ hf]
    exact hL1 e he
  · have hn : q ∉ pathsOf new := by
      rw [mem_pathsOf]
      intro h
      rcases h with h | h | h
      · exact hd h
      · exact hl h
      · exact hf h
    rw [get_none_treeOfBuild hq0 hn]
    exact hR2.toPartial.none_outside hq0 hn

/-- the writes of `C01.fresh_roundtrip`: every file once, in container order, with its content -/
theorem outs_ok (new : Build) :
    (∀ o ∈ (List.range new.files.length).zip (new.files.map (·.2)),
        ∃ p, new.files[o.1]? = some (p, o.2)) ∧
    (∀ i, i < new.files.length →
        i ∈ ((List.range new.files.length).zip (new.files.map (·.2))).map (·.1)) := by
  constructor
  · intro o ho
    obtain ⟨i, hi, hio⟩ := List.getElem_of_mem ho
    simp only [List.length_zip, List.length_range, List.length_map, Nat.min_self] at hi
    rw [List.getElem_zip] at hio
    simp only [List.getElem_range, List.getElem_map] at hio
    refine ⟨(new.files[i]).1, ?_⟩
    rw [← hio]
    simp only
    rw [List.getElem?_eq_getElem hi]
  · intro i hi
    rw [List.map_fst_zip (by simp)]
    simpa using hi

/-! ### crash states: every step, whole or torn, keeps the tree `Partial` -/

theorem freshApply_eq_steps (new : Build) (outs : List (Nat × List Byte)) (t : Tree) (via : Nat → Via) :
    freshApply new outs t via = (stepsOf new outs).foldlM (runStep new via) t := by
  simp only [freshApply, prepare, stepsOf, List.foldlM_append, List.foldlM_map, bind_assoc, runStep]

/-- a step about an entry of the new build -/
def Valid (new : Build) : Step → Prop
  | .dir p => p ∈ new.dirs
  | .file p _ => p ∈ new.files.map (·.1)
  | .link p _ => p ∈ new.symlinks.map (·.1)
  | .write _ => True

theorem stepsOf_valid (new : Build) (outs : List (Nat × List Byte)) : ∀ s ∈ stepsOf new outs, Valid new s := by
  intro s hs
  simp only [stepsOf, List.mem_append, List.mem_map] at hs
  rcases hs with ((⟨p, hp, rfl⟩ | ⟨e, he, rfl⟩) | ⟨e, he, rfl⟩) | ⟨o, _, rfl⟩
  · exact hp
  · exact List.mem_map.mpr ⟨e, he, rfl⟩
  · exact List.mem_map.mpr ⟨e, he, rfl⟩
  · trivial

theorem mkdirs_nil (t : Tree) : mkdirs t [] = .ok t := rfl

/-- `MkdirAll` of (a prefix of) a directory of the build, or of the root -/
theorem Partial.mkdirs_take {new : Build} {t : Tree} (hb : BWF new) (h : Partial new t) {d : Path}
    (hd : d = [] ∨ d ∈ new.dirs) (j : Nat) :
    ∃ t1, mkdirs t (d.take j) = .ok t1 ∧ Partial new t1 ∧ IsDir t1 (d.take j) := by
  by_cases hnil : d.take j = []
  · rw [hnil]
    exact ⟨t, mkdirs_nil t, h, isDir_nil t⟩
  · have hmem : d.take j ∈ new.dirs := by
      rcases hd with hd | hd
      · subst hd; simp at hnil
      · by_cases hj : j = 0
        · subst hj; simp at hnil
        · exact take_mem_dirs hb hd (by omega)
    obtain ⟨t1, h1, h2, h3, _, _⟩ := prepareDir_spec hb h hmem
    refine ⟨t1, h1, h2, ?_⟩
    have := h3 (d.take j).length
    rwa [List.take_length] at this

/-- `MkdirAll(filepath.Dir(path))` for a path of the build: afterwards the path is plain -/
theorem Partial.mkParent {new : Build} {t : Tree} (hb : BWF new) (h : Partial new t) {p : Path}
    (hp : p ∈ pathsOf new) :
    ∃ t1, mkdirs t p.dropLast = .ok t1 ∧ Partial new t1 ∧ Plain t1 p := by
  have hd : p.dropLast = [] ∨ p.dropLast ∈ new.dirs := hb.parent_mem hp
  obtain ⟨t1, h1, h2, h3⟩ := h.mkdirs_take hb hd p.dropLast.length
  rw [List.take_length] at h1 h3
  exact ⟨t1, h1, h2, hb.ne hp, h3, fun hm => hb.nodd hp (mem_of_mem_dropLast hm)⟩

theorem entryWriteAt_after_mk {t t1 : Tree} {p : Path} (hI1 : TInv t1) (hmk : mkdirs t p.dropLast = .ok t1)
    (hpl : Plain t1 p) (data : List Byte) : entryWriteAt t p data = entryWriteAt t1 p data := by
  simp only [entryWriteAt, hmk, mkdirs_parent_plain hI1 hpl, bind, Except.bind]

theorem clearWay_after_mk {t t1 : Tree} {p : Path} (hI1 : TInv t1) (hmk : mkdirs t p.dropLast = .ok t1)
    (hpl : Plain t1 p) : clearWay t p = clearWay t1 p := by
  simp only [clearWay, hmk, mkdirs_parent_plain hI1 hpl, bind, Except.bind]

theorem ok_inj {α ε} {a b : α} (h : (Except.ok a : Except ε α) = .ok b) : a = b := by
  cases h; rfl

/-- a successful step on a `Partial` tree yields a `Partial` tree -/
theorem runStep_partial {new : Build} (hb : BWF new) (via : Nat → Via) {t t' : Tree} {s : Step}
    (h : Partial new t) (hv : Valid new s) (hr : runStep new via t s = .ok t') : Partial new t' := by
  cases s with
  | dir p =>
    obtain ⟨t1, h1, h2, _⟩ := prepareDir_spec hb h (p := p) hv
    simp only [runStep, h1] at hr
    exact ok_inj hr ▸ h2
  | file p size =>
    have hp : p ∈ new.files.map (·.1) := hv
    rcases h.plain_or_enoent hb (mem_pathsOf.mpr (Or.inr (Or.inr hp))) with hpl | hce
    · obtain ⟨t1, c, h1, h2, _⟩ := h.prepareFile hb hpl hp size
      simp only [runStep, h1] at hr
      exact ok_inj hr ▸ h2
    · simp [runStep, prepareFile, readFile, statFollow, hce, bind, Except.bind, writeFile] at hr
  | link p dest =>
    have hp : p ∈ new.symlinks.map (·.1) := hv
    rcases h.plain_or_enoent hb (mem_pathsOf.mpr (Or.inr (Or.inl hp))) with hpl | hce
    · obtain ⟨t1, h1, h2, _⟩ := h.prepareSymlink hb hpl hp dest
      simp only [runStep, h1] at hr
      exact ok_inj hr ▸ h2
    · simp [runStep, prepareSymlink, removeAll, hce, bind, Except.bind, symlink] at hr
  | write o =>
    simp only [runStep, writeStep] at hr
    cases hf : new.files[o.1]? with
    | none => simp [hf] at hr
    | some e =>
      obtain ⟨p, d⟩ := e
      have hp : p ∈ new.files.map (·.1) := List.mem_map.mpr ⟨_, mem_files_of_getElem? hf, rfl⟩
      obtain ⟨t1, hmk, hP1, hpl1⟩ := h.mkParent hb (mem_pathsOf.mpr (Or.inr (Or.inr hp)))
      simp only [hf] at hr
      cases hv' : via o.1 with
      | writer =>
        simp only [hv'] at hr
        obtain ⟨t2, h1, h2, _⟩ := hP1.entryWriteAt hb hpl1 hp o.2
        rw [entryWriteAt_after_mk hP1.inv hmk hpl1, h1] at hr
        exact ok_inj hr ▸ h2
      | transpose =>
        simp only [hv'] at hr
        obtain ⟨t2, h1, h2, _⟩ := hP1.writeFileAt hb hpl1 hp o.2
        have : writeFileAt t p o.2 = writeFileAt t1 p o.2 := by
          simp only [writeFileAt, clearWay_after_mk hP1.inv hmk hpl1]
        rw [this, h1] at hr
        exact ok_inj hr ▸ h2

/-- whatever an interrupted step leaves on a `Partial` tree is a `Partial` tree -/
theorem torn_partial {new : Build} (hb : BWF new) (via : Nat → Via) {t t' : Tree} {s : Step}
    (h : Partial new t) (hv : Valid new s) (ht : Torn new via t s t') : Partial new t' := by
  cases ht with
  | @dir p j _ hm =>
    obtain ⟨t1, h1, h2, _⟩ := h.mkdirs_take hb (Or.inr hv) j
    rw [h1] at hm
    exact ok_inj hm ▸ h2
  | @file p size g _ hw =>
    have hp : p ∈ new.files.map (·.1) := hv
    rcases h.plain_or_enoent hb (mem_pathsOf.mpr (Or.inr (Or.inr hp))) with hpl | hce
    · obtain ⟨h1, h2, _⟩ := h.setFile hb hpl hp g
      rw [h1] at hw
      exact ok_inj hw ▸ h2
    · simp [writeFile, hce, bind, Except.bind] at hw
  | @link p dest _ hrm =>
    have hp : p ∈ new.symlinks.map (·.1) := hv
    rcases h.plain_or_enoent hb (mem_pathsOf.mpr (Or.inr (Or.inl hp))) with hpl | hce
    · obtain ⟨h1, hnd⟩ := h.removeAll_link hb hpl hp
      rw [h1] at hrm
      exact ok_inj hrm ▸ h.erase hpl.ne hnd
    · simp only [removeAll, hce] at hrm
      exact ok_inj hrm ▸ h
  | @writeDirs o p d j _ hf hm =>
    have hp : p ∈ new.files.map (·.1) := List.mem_map.mpr ⟨_, mem_files_of_getElem? hf, rfl⟩
    obtain ⟨t1, h1, h2, _⟩ :=
      h.mkdirs_take hb (hb.parent_mem (mem_pathsOf.mpr (Or.inr (Or.inr hp)))) j
    rw [h1] at hm
    exact ok_inj hm ▸ h2
  | @writeCleared o p d _ hf _ hc =>
    have hp : p ∈ new.files.map (·.1) := List.mem_map.mpr ⟨_, mem_files_of_getElem? hf, rfl⟩
    obtain ⟨t1, hmk, hP1, hpl1⟩ := h.mkParent hb (mem_pathsOf.mpr (Or.inr (Or.inr hp)))
    rw [clearWay_after_mk hP1.inv hmk hpl1, hP1.clearWay hb hpl1 hp] at hc
    exact ok_inj hc ▸ hP1
  | @writeData o p d g t₁ _ hf hopen hw =>
    have hp : p ∈ new.files.map (·.1) := List.mem_map.mpr ⟨_, mem_files_of_getElem? hf, rfl⟩
    obtain ⟨t1, hmk, hP1, hpl1⟩ := h.mkParent hb (mem_pathsOf.mpr (Or.inr (Or.inr hp)))
    have ht1 : t₁ = t1 := by
      cases hv' : via o.1 with
      | writer =>
        simp only [hv', hmk] at hopen
        exact (ok_inj hopen).symm
      | transpose =>
        simp only [hv'] at hopen
        rw [clearWay_after_mk hP1.inv hmk hpl1, hP1.clearWay hb hpl1 hp] at hopen
        exact (ok_inj hopen).symm
    subst ht1
    obtain ⟨h1, h2, _⟩ := hP1.setFile hb hpl1 hp g
    rw [h1] at hw
    exact ok_inj hw ▸ h2

theorem foldlM_partial {new : Build} (hb : BWF new) (via : Nat → Via) : ∀ (L : List Step) (t t' : Tree),
    (∀ s ∈ L, Valid new s) → Partial new t → L.foldlM (runStep new via) t = .ok t' → Partial new t' := by
  intro L
  induction L with
  | nil =>
    intro t t' _ h hr
    simp only [List.foldlM_nil, pure, Except.pure] at hr
    exact ok_inj hr ▸ h
  | cons s L ih =>
    intro t t' hv h hr
    simp only [List.foldlM_cons, bind, Except.bind] at hr
    cases h1 : runStep new via t s with
    | error e => simp [h1] at hr
    | ok t1 =>
      simp only [h1] at hr
      exact ih t1 t' (fun s' hs' => hv s' (by simp [hs'])) (runStep_partial hb via h (hv s (by simp)) h1) hr

/-- A run started on a `Partial` tree leaves a `Partial` tree wherever it stops. -/
theorem crashState_partial {new : Build} (hb : BWF new) {outs : List (Nat × List Byte)} {via : Nat → Via}
    {t t' : Tree} (h : Partial new t) (hc : CrashState new outs via t t') : Partial new t' := by
  have hval := stepsOf_valid new outs
  cases hc with
  | @between pre post _ hsplit hrun =>
    refine foldlM_partial hb via pre t t' ?_ h hrun
    intro s hs
    exact hval s (by rw [hsplit]; simp [hs])
  | @during pre post s tk _ hsplit hrun htorn =>
    have hk : Partial new tk := by
      refine foldlM_partial hb via pre t tk ?_ h hrun
      intro s' hs'
      exact hval s' (by rw [hsplit]; simp [hs'])
    exact torn_partial hb via hk (hval s (by rw [hsplit]; simp)) htorn

theorem crashed_partial {new : Build} (hb : BWF new) {outs : List (Nat × List Byte)} {t : Tree}
    (h : Crashed new outs t) : Partial new t := by
  induction h with
  | start => exact Partial.empty new
  | again _ hc ih => exact crashState_partial hb ih hc

end Wharf.FreshBowl
