/-
  Helper lemmas for C04 (signature production: scanner blocks, block arithmetic, hash groups).
  Core Lean only.
-/
import Wharf.Model.Sign
import Wharf.Proofs.Validate

namespace Wharf.Sign
open Wharf Wharf.Validate

variable {bs : Nat}

/-! ### reads -/

theorem scanRead_nil (s : Scan) : scanRead bs s [] = s := rfl

theorem scanRead_cons (s : Scan) (b : Byte) (c : List Byte) :
    scanRead bs s (b :: c) = scanRead bs (scanPush bs s b) c := rfl

theorem scanRead_append (s : Scan) (a b : List Byte) :
    scanRead bs (scanRead bs s a) b = scanRead bs s (a ++ b) := by
  simp [scanRead, List.foldl_append]

theorem foldl_scanRead (s : Scan) (reads : List (List Byte)) :
    reads.foldl (scanRead bs) s = scanRead bs s reads.flatten := by
  induction reads generalizing s with
  | nil => rfl
  | cons a t ih => simp [List.foldl_cons, ih, scanRead_append]

/-- Fewer bytes than needed to fill the buffer: just buffered. -/
theorem scanRead_partial (c : List Byte) : ∀ (r : List Byte) (B : List (List Byte)),
    r.length + c.length < bs →
    scanRead bs ⟨r, r.length, B⟩ c = ⟨c.reverse ++ r, r.length + c.length, B⟩ := by
  induction c with
  | nil => intros; simp [scanRead]
  | cons b c ih =>
    intro r B h
    have h' : r.length + (c.length + 1) < bs := by simpa using h
    have hne : r.length + 1 ≠ bs := by omega
    have hp : scanPush bs ⟨r, r.length, B⟩ b = ⟨b :: r, (b :: r).length, B⟩ := by
      simp [scanPush, hne]
    rw [scanRead_cons, hp, ih]
    · simp; omega
    · simp; omega

/-- Exactly the bytes that fill the buffer: one token is emitted, the buffer is empty again. -/
theorem scanRead_full (c : List Byte) : ∀ (r : List Byte) (B : List (List Byte)),
    c ≠ [] → r.length + c.length = bs →
    scanRead bs ⟨r, r.length, B⟩ c = ⟨[], 0, B ++ [r.reverse ++ c]⟩ := by
  induction c with
  | nil => intro r B h; exact absurd rfl h
  | cons b c ih =>
    intro r B _ h
    have h' : r.length + (c.length + 1) = bs := by simpa using h
    by_cases hc : c = []
    · subst hc
      have h'' : r.length + 1 = bs := by simpa using h'
      simp [scanRead, scanPush, h'']
    · have hpos : 0 < c.length := List.length_pos_iff.mpr hc
      have hne : r.length + 1 ≠ bs := by omega
      have hp : scanPush bs ⟨r, r.length, B⟩ b = ⟨b :: r, (b :: r).length, B⟩ := by
        simp [scanPush, hne]
      rw [scanRead_cons, hp, ih _ _ hc]
      · simp
      · simp; omega

/-- Splitting a read of at least `bs` bytes (empty buffer) into the first block and the rest. -/
theorem scanRead_block (hbs : 0 < bs) (D : List Byte) (h : bs ≤ D.length) (B : List (List Byte)) :
    scanRead bs ⟨[], 0, B⟩ D = scanRead bs ⟨[], 0, B ++ [D.take bs]⟩ (D.drop bs) := by
  have hne : D.take bs ≠ [] := by
    intro h0
    have h1 : (D.take bs).length = 0 := by rw [h0]; rfl
    rw [List.length_take] at h1; omega
  have hl : ([] : List Byte).length + (D.take bs).length = bs := by simp; omega
  have := scanRead_full (bs := bs) (D.take bs) [] B hne hl
  simp only [List.length_nil, List.reverse_nil, List.nil_append] at this
  rw [← this, scanRead_append, List.take_append_drop]

theorem scanRead_short (D : List Byte) (h : D.length < bs) (B : List (List Byte)) :
    scanRead bs ⟨[], 0, B⟩ D = ⟨D.reverse, D.length, B⟩ := by
  have := scanRead_partial (bs := bs) D [] B (by simpa using h)
  simpa using this

/-- Tokens at EOF before the "no token at all" fix-up. -/
def scanTokens (s : Scan) : List (List Byte) :=
  if s.n > 0 then s.blocks ++ [s.rbuf.reverse] else s.blocks

theorem scanFinish_eq (s : Scan) :
    scanFinish s = if (scanTokens s).isEmpty then [[]] else scanTokens s := rfl

/-- A whole stream from an empty buffer: the tokens are the chunks of the stream. -/
theorem scan_session (hbs : 0 < bs) (fuel : Nat) : ∀ (D : List Byte) (B : List (List Byte)),
    D.length ≤ fuel →
    scanTokens (scanRead bs ⟨[], 0, B⟩ D) = B ++ chunks bs fuel D := by
  induction fuel with
  | zero =>
    intro D B h
    have : D = [] := List.eq_nil_of_length_eq_zero (by omega)
    subst this
    simp [scanRead, scanTokens, chunks]
  | succ fuel ih =>
    intro D B h
    by_cases hD : D = []
    · subst hD
      simp [scanRead, scanTokens, chunks]
    · rw [chunks_succ hD]
      by_cases hlt : D.length < bs
      · have hpos : 0 < D.length := List.length_pos_iff.mpr hD
        rw [scanRead_short D hlt, List.take_of_length_le (Nat.le_of_lt hlt),
          List.drop_of_length_le (Nat.le_of_lt hlt), chunks_nil]
        simp [scanTokens, hpos]
      · have hge : bs ≤ D.length := Nat.le_of_not_lt hlt
        rw [scanRead_block hbs D hge, ih _ _ (by simp; omega)]
        simp

theorem scanBlocks_eq (reads : List (List Byte)) :
    scanBlocks bs reads = scanFinish (scanRead bs {} reads.flatten) := by
  unfold scanBlocks
  rw [foldl_scanRead]

theorem scanBlocks_single (hbs : 0 < bs) (D : List Byte) :
    scanBlocks bs [D] = if D = [] then [[]] else chunks bs D.length D := by
  rw [scanBlocks_eq, scanFinish_eq]
  have h := scan_session hbs D.length D [] (Nat.le_refl _)
  simp only [List.nil_append] at h
  have hf : [D].flatten = D := by simp
  rw [hf]
  change (if (scanTokens (scanRead bs ⟨[], 0, []⟩ D)).isEmpty = true then [[]]
    else scanTokens (scanRead bs ⟨[], 0, []⟩ D)) = _
  rw [h]
  by_cases hD : D = []
  · subst hD; simp [chunks]
  · have hl : D.length = (D.length - 1) + 1 := by
      have := List.length_pos_iff.mpr hD; omega
    rw [if_neg hD, hl, chunks_succ hD]
    simp

/-! ### block arithmetic -/

theorem lt_numBlocks_iff (hbs : 0 < bs) (n i : Nat) : i < Rsync.numBlocks bs n ↔ i * bs < n := by
  unfold Rsync.numBlocks
  rw [Nat.lt_iff_add_one_le, Nat.le_div_iff_mul_le hbs, Nat.succ_mul]
  omega

theorem numBlocks_step (hbs : 0 < bs) {n : Nat} (hn : 0 < n) :
    Rsync.numBlocks bs n = Rsync.numBlocks bs (n - bs) + 1 := by
  apply Nat.le_antisymm
  · apply Nat.le_of_not_lt
    intro hlt
    rw [lt_numBlocks_iff hbs, Nat.succ_mul] at hlt
    have h : ¬ (Rsync.numBlocks bs (n - bs)) < Rsync.numBlocks bs (n - bs) := Nat.lt_irrefl _
    rw [lt_numBlocks_iff hbs] at h
    omega
  · cases hk : Rsync.numBlocks bs (n - bs) with
    | zero =>
      apply Nat.succ_le_of_lt
      rw [lt_numBlocks_iff hbs]; omega
    | succ k =>
      have h : k < Rsync.numBlocks bs (n - bs) := by omega
      rw [lt_numBlocks_iff hbs] at h
      apply Nat.succ_le_of_lt
      rw [lt_numBlocks_iff hbs, Nat.succ_mul]
      omega

theorem chunks_length (hbs : 0 < bs) (fuel : Nat) : ∀ (D : List Byte), D.length ≤ fuel →
    (chunks bs fuel D).length = Rsync.numBlocks bs D.length := by
  induction fuel with
  | zero =>
    intro D h
    have : D = [] := List.eq_nil_of_length_eq_zero (by omega)
    subst this
    have h0 : ¬ 0 < Rsync.numBlocks bs 0 := by rw [lt_numBlocks_iff hbs]; omega
    simp only [chunks, List.length_nil]; omega
  | succ fuel ih =>
    intro D h
    by_cases hD : D = []
    · subst hD
      have h0 : ¬ 0 < Rsync.numBlocks bs 0 := by rw [lt_numBlocks_iff hbs]; omega
      simp only [chunks_nil, List.length_nil]; omega
    · have hpos : 0 < D.length := List.length_pos_iff.mpr hD
      rw [chunks_succ hD, List.length_cons, ih _ (by simp; omega), List.length_drop,
        ← numBlocks_step hbs hpos]

theorem chunks_getElem? (hbs : 0 < bs) (fuel : Nat) : ∀ (D : List Byte) (i : Nat), D.length ≤ fuel →
    i * bs < D.length → (chunks bs fuel D)[i]? = some (signedBlock bs D i) := by
  induction fuel with
  | zero => intro D i h hi; omega
  | succ fuel ih =>
    intro D i h hi
    have hD : D ≠ [] := by intro h0; subst h0; simp at hi
    rw [chunks_succ hD]
    cases i with
    | zero => simp [signedBlock]
    | succ i =>
      rw [Nat.succ_mul] at hi
      rw [List.getElem?_cons_succ, ih _ _ (by simp; omega) (by simp; omega)]
      simp only [signedBlock, List.drop_drop, Nat.succ_mul]
      rw [Nat.add_comm bs]

theorem signedBlock_length (S : List Byte) (i : Nat) (hi : i * bs < S.length) :
    (signedBlock bs S i).length = Rsync.blockLen bs S.length i := by
  simp only [signedBlock, List.length_take, List.length_drop, Rsync.blockLen]
  split
  · rename_i hgt
    have hq : S.length / bs = i := by
      apply Nat.div_eq_of_lt_le
      · omega
      · rw [Nat.mul_comm] at hgt; exact hgt
    have := Nat.div_add_mod S.length bs
    rw [hq, Nat.mul_comm] at this
    rw [Nat.mul_comm, Nat.succ_mul] at hgt
    omega
  · rename_i hgt
    rw [Nat.mul_comm, Nat.succ_mul] at hgt
    omega

theorem shortOf_blockLen (hbs : 0 < bs) (size i : Nat) :
    Rsync.shortOf bs (Rsync.blockLen bs size i) = rederivedShort bs size i := by
  unfold Rsync.shortOf Rsync.blockLen rederivedShort
  rw [Nat.mul_comm bs (i + 1)]
  have hm : size % bs < bs := Nat.mod_lt _ hbs
  by_cases hgt : (i + 1) * bs > size
  · simp [hgt, hm]
  · simp [hgt]

/-! ### hash groups -/

theorem hashGroups_layout (sizes : List Nat) : ∀ (k n : Nat) (gs : List (Option (Nat × Nat))),
    hashGroups bs sizes k n = .ok gs →
    gs.length = sizes.length ∧
    ∀ j, j < sizes.length →
      gs[j]? = some (if sizes.getD j 0 = 0 then none
        else some (k + ((sizes.take j).map fun sz => if sz = 0 then 1 else Rsync.numBlocks bs sz).sum,
                   Rsync.numBlocks bs (sizes.getD j 0))) := by
  induction sizes with
  | nil =>
    intro k n gs h
    unfold hashGroups at h
    split at h
    · cases h
    · cases h
      exact ⟨rfl, fun j hj => by simp at hj⟩
  | cons size rest ih =>
    intro k n gs h
    unfold hashGroups at h
    by_cases hz : size = 0
    · rw [if_pos hz] at h
      cases hr : hashGroups bs rest (k + 1) n with
      | ok gs' =>
        rw [hr] at h
        simp only [Outcome.bind] at h
        cases h
        obtain ⟨hl, hg⟩ := ih _ _ _ hr
        refine ⟨by simp [hl], ?_⟩
        intro j hj
        cases j with
        | zero => simp [hz]
        | succ j =>
          have := hg j (by simpa using hj)
          simp only [List.getElem?_cons_succ, this, List.getD_cons_succ, List.take_succ_cons,
            List.map_cons, List.sum_cons, hz, if_true]
          rw [Nat.add_assoc]
      | err e => rw [hr] at h; simp [Outcome.bind] at h
      | panic s => rw [hr] at h; simp [Outcome.bind] at h
    · rw [if_neg hz] at h
      simp only at h
      split at h
      · cases h
      · cases hr : hashGroups bs rest (k + Rsync.numBlocks bs size) n with
        | ok gs' =>
          rw [hr] at h
          simp only [Outcome.bind] at h
          cases h
          obtain ⟨hl, hg⟩ := ih _ _ _ hr
          refine ⟨by simp [hl], ?_⟩
          intro j hj
          cases j with
          | zero => simp [hz]
          | succ j =>
            have := hg j (by simpa using hj)
            simp only [List.getElem?_cons_succ, this, List.getD_cons_succ, List.take_succ_cons,
              List.map_cons, List.sum_cons, hz, if_false]
            rw [Nat.add_assoc]
        | err e => rw [hr] at h; simp [Outcome.bind] at h
        | panic s => rw [hr] at h; simp [Outcome.bind] at h

/-- A successful grouping consumed exactly the `n` hashes that were read. -/
theorem hashGroups_total (sizes : List Nat) : ∀ (k n : Nat) (gs : List (Option (Nat × Nat))),
    hashGroups bs sizes k n = .ok gs →
    k + (sizes.map fun sz => if sz = 0 then 1 else Rsync.numBlocks bs sz).sum = n := by
  induction sizes with
  | nil =>
    intro k n gs h
    unfold hashGroups at h
    split at h
    · cases h
    · rename_i hk
      simp only [List.map_nil, List.sum_nil]
      omega
  | cons size rest ih =>
    intro k n gs h
    unfold hashGroups at h
    by_cases hz : size = 0
    · rw [if_pos hz] at h
      cases hr : hashGroups bs rest (k + 1) n with
      | ok gs' =>
        have := ih _ _ _ hr
        simp only [List.map_cons, List.sum_cons, hz, if_true]
        omega
      | err e => rw [hr] at h; simp [Outcome.bind] at h
      | panic s => rw [hr] at h; simp [Outcome.bind] at h
    · rw [if_neg hz] at h
      simp only at h
      split at h
      · cases h
      · cases hr : hashGroups bs rest (k + Rsync.numBlocks bs size) n with
        | ok gs' =>
          have := ih _ _ _ hr
          simp only [List.map_cons, List.sum_cons, hz, if_false]
          omega
        | err e => rw [hr] at h; simp [Outcome.bind] at h
        | panic s => rw [hr] at h; simp [Outcome.bind] at h

end Wharf.Sign
