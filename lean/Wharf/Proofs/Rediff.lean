/-
  Helper lemmas for C07 (optimizing a patch never changes what it produces).
-/
import Wharf.Model.Rediff
import Wharf.Proofs.PatchMsg
import Wharf.Proofs.PatchFresh

namespace Wharf.RediffP
open Wharf Wharf.Patch Wharf.PatchMsg

/-! ### typed views of the optimizer's messages -/

theorem asSyncHeader_mkBsdiff (i : Int) : asSyncHeader (mkSyncHeader kindBsdiff i) = ⟨1, i⟩ := by
  simp [asSyncHeader, mkSyncHeader, getVarint, fSyncHeaderType, fSyncHeaderFileIndex, kindBsdiff, toInt32_one]

theorem asBsdiffHeader_mk (t : Int) : asBsdiffHeader (mkBsdiffHeader t) = t := by
  simp [asBsdiffHeader, mkBsdiffHeader, getVarint, fBsdiffTargetIndex]

theorem asControl_mkControl (a c : List Byte) (s : Int) : asControl (mkControl a c s) = ⟨a, c, s, false⟩ := by
  simp [asControl, mkControl, getVarint, getBytes, fCtrlAdd, fCtrlCopy, fCtrlSeek, fCtrlEof]

theorem asControl_mkControlEof_eof : (asControl mkControlEof).eof = true := by
  simp [asControl, mkControlEof, getVarint, fCtrlEof]

theorem asSyncOp_mkHey_type : (asSyncOp mkHey).type = heyYouDidIt := by
  rw [asSyncOp_mkHey]; rfl

/-! ### bridge between the bsdiff applier and the patcher over a plain pool -/

theorem at'_toArray (old : List Byte) (j : Nat) : Bsdiff.at' old.toArray j = old.getD j 0 := by
  simp [Bsdiff.at', Array.getD_eq_getD_getElem?, List.getD_eq_getElem?_getD]

theorem zipWith_add (old : List Byte) (off : Nat) (add : List Byte) (h : off + add.length ≤ old.length) :
    List.zipWith (· + ·) ((old.drop off).take add.length) add =
      (List.range add.length).map fun i => Bsdiff.at' old.toArray (off + i) + add.getD i 0 := by
  apply List.ext_getElem?
  intro k
  by_cases hk : k < add.length
  · have h1 : off + k < old.length := by omega
    simp [List.getElem?_zipWith, List.getElem?_drop, hk, at'_toArray, h1, List.getD_eq_getElem?_getD]
  · simp [List.getElem?_zipWith, hk]

theorem applyControl_bridge (E : Env) (olds : Array (List Byte)) (hpool : E.pool = plainPool olds) (t : Nat)
    (st st' : Bsdiff.PState) (add copy : List Byte) (seek : Int)
    (h : Bsdiff.applyCtrl (olds.getD t []).toArray st add copy seek = .ok st') :
    applyControl E t (olds.getD t []).length ⟨add, copy, seek, false⟩ st.oldOffset st.out =
      .ok (st'.oldOffset, st'.out) := by
  unfold Bsdiff.applyCtrl at h
  rw [List.size_toArray] at h
  unfold applyControl
  by_cases h1 : st.oldOffset < 0 ∨ st.oldOffset > ((olds.getD t []).length : Int)
  · rw [if_pos h1] at h; cases h
  · rw [if_neg h1] at h
    rw [if_neg h1]
    dsimp only at h ⊢
    by_cases h2 : st.oldOffset.toNat + add.length > (olds.getD t []).length
    · rw [if_pos h2] at h; cases h
    · rw [if_neg h2] at h
      cases h
      by_cases h3 : add.length > 0
      · rw [if_pos h3, hpool]
        simp only [plainPool]
        have hl : ((olds.getD t []).drop st.oldOffset.toNat |>.take add.length).length = add.length := by
          rw [List.length_take, List.length_drop]; omega
        rw [if_neg (by rw [hl]; exact fun h => h rfl), zipWith_add _ _ _ (by omega)]
        rfl
      · rw [if_neg h3]
        have : add = [] := List.eq_nil_of_length_eq_zero (by omega)
        subst this
        rfl

theorem bsdiffLoop_bridge (E : Env) (olds : Array (List Byte)) (hpool : E.pool = plainPool olds) (t : Nat)
    (rest : List WMsg) :
    ∀ (cs : List Bsdiff.Ctrl) (st st' : Bsdiff.PState) (cs' : List Bsdiff.Ctrl),
      Bsdiff.applySeries (olds.getD t []).toArray cs st = .ok (st', cs') →
      bsdiffLoop E t (olds.getD t []).length (cs.map Rediff.ctrlMsg ++ rest) st.oldOffset st.out =
        .ok (cs'.map Rediff.ctrlMsg ++ rest, st'.out)
  | [], _, _, _, h => by cases h
  | .eof :: cs, st, st', cs', h => by
    rw [Bsdiff.applySeries] at h
    cases h
    rw [List.map_cons, List.cons_append, bsdiffLoop]
    simp only [Rediff.ctrlMsg, asControl_mkControlEof_eof, if_true]
  | .op a c s :: cs, st, st', cs', h => by
    rw [Bsdiff.applySeries] at h
    split at h
    · rename_i st1 hst1
      have h1 := applyControl_bridge E olds hpool t st st1 a c s hst1
      have h2 := bsdiffLoop_bridge E olds hpool t rest cs st1 st' cs' h
      rw [List.map_cons, List.cons_append, bsdiffLoop]
      simp only [Rediff.ctrlMsg, asControl_mkControl, Bool.false_eq_true, if_false, h1, h2]
    · cases h
    · cases h

/-! ### a series of non-end-marker ops followed by an end marker -/

theorem skipOps_series (ops : List WMsg) (em : WMsg) (rest : List WMsg)
    (hops : ∀ m ∈ ops, (asSyncOp m).type ≠ heyYouDidIt) (hem : (asSyncOp em).type = heyYouDidIt) :
    skipOps (ops ++ em :: rest) = .ok rest := by
  induction ops with
  | nil => rw [List.nil_append, skipOps, if_pos hem]
  | cons m ops ih =>
    rw [List.cons_append, skipOps, if_neg (hops m List.mem_cons_self)]
    exact ih (fun m' hm' => hops m' (List.mem_cons_of_mem _ hm'))

theorem takeOps_series (ops : List WMsg) (em : WMsg) (rest : List WMsg)
    (hops : ∀ m ∈ ops, (asSyncOp m).type ≠ heyYouDidIt) (hem : (asSyncOp em).type = heyYouDidIt)
    (acc : List WMsg) :
    Rediff.optimize.takeOps (ops ++ em :: rest) acc = .ok (acc.reverse ++ ops, rest) := by
  induction ops generalizing acc with
  | nil => rw [List.nil_append, Rediff.optimize.takeOps, if_pos hem, List.append_nil]
  | cons m ops ih =>
    rw [List.cons_append, Rediff.optimize.takeOps, if_neg (hops m List.mem_cons_self),
      ih (fun m' hm' => hops m' (List.mem_cons_of_mem _ hm'))]
    simp

theorem rsyncLoop_swap (E : Env) (ops : List WMsg) (em em' : WMsg) (rest rest' : List WMsg)
    (hops : ∀ m ∈ ops, (asSyncOp m).type ≠ heyYouDidIt) (hem : (asSyncOp em).type = heyYouDidIt)
    (hem' : (asSyncOp em').type = heyYouDidIt) (w : List Byte) (reads : List Nat)
    (x : List WMsg) (w' : List Byte) (reads' : List Nat)
    (h : rsyncLoop E (ops ++ em :: rest) w reads = .ok (x, w', reads')) :
    rsyncLoop E (ops ++ em' :: rest') w reads = .ok (rest', w', reads') := by
  induction ops generalizing w reads with
  | nil =>
    rw [List.nil_append, rsyncLoop] at h
    rw [List.nil_append, rsyncLoop]
    simp only [if_pos hem] at h
    simp only [if_pos hem']
    cases h
    rfl
  | cons m ops ih =>
    have hm := hops m List.mem_cons_self
    rw [List.cons_append, rsyncLoop] at h
    rw [List.cons_append, rsyncLoop]
    simp only [if_neg hm] at h ⊢
    split at h
    · rename_i w1 reads1 hop
      exact ih (fun m' hm' => hops m' (List.mem_cons_of_mem _ hm')) _ _ h
    · cases h
    · cases h

theorem procFull_swap (E : Env) (i t : Nat) (ops : List WMsg) (em em' : WMsg) (rest rest' : List WMsg)
    (hops : ∀ m ∈ ops, (asSyncOp m).type ≠ heyYouDidIt) (hem : (asSyncOp em).type = heyYouDidIt)
    (hem' : (asSyncOp em').type = heyYouDidIt) (r : Res) (x : List WMsg) (r1 : Res)
    (h : procFull E i t (ops ++ em :: rest) r = .ok (x, r1)) :
    procFull E i t (ops ++ em' :: rest') r = .ok (rest', r1) := by
  unfold procFull at h ⊢
  rw [skipOps_series ops em rest hops hem] at h
  rw [skipOps_series ops em' rest' hops hem']
  split at h
  · cases h
  · cases h
  · rename_i bytes hrd
    simp only [bind_ok] at h ⊢
    cases h
    rfl

theorem procRelay_swap (E : Env) (i : Nat) (op : SyncOp) (ops : List WMsg) (em em' : WMsg) (rest rest' : List WMsg)
    (hops : ∀ m ∈ ops, (asSyncOp m).type ≠ heyYouDidIt) (hem : (asSyncOp em).type = heyYouDidIt)
    (hem' : (asSyncOp em').type = heyYouDidIt) (r : Res) (x : List WMsg) (r1 : Res)
    (h : procRelay E i op (ops ++ em :: rest) r = .ok (x, r1)) :
    procRelay E i op (ops ++ em' :: rest') r = .ok (rest', r1) := by
  unfold procRelay at h ⊢
  dsimp only at h ⊢
  by_cases hty : op.type = heyYouDidIt
  · rw [if_pos hty] at h; cases h
  · rw [if_neg hty] at h
    rw [if_neg hty]
    obtain ⟨⟨w, reads⟩, hop, h⟩ := bind_eq_ok h
    dsimp only at h
    obtain ⟨⟨rest'', w', reads'⟩, hloop, h⟩ := bind_eq_ok h
    dsimp only at h
    cases h
    rw [hop]
    dsimp only [bind_ok]
    rw [rsyncLoop_swap E ops em em' rest rest' hops hem hem' _ _ _ _ _ hloop]
    rfl

theorem procRsync_swap (E : Env) (i : Nat) (ops : List WMsg) (em em' : WMsg) (rest rest' : List WMsg)
    (hops : ∀ m ∈ ops, (asSyncOp m).type ≠ heyYouDidIt) (hem : (asSyncOp em).type = heyYouDidIt)
    (hem' : (asSyncOp em').type = heyYouDidIt) (r : Res) (x : List WMsg) (r1 : Res)
    (h : procRsync E i (ops ++ em :: rest) r = .ok (x, r1)) :
    procRsync E i (ops ++ em' :: rest') r = .ok (rest', r1) := by
  cases ops with
  | nil =>
    -- the first message is the end marker: the original cannot have applied
    exfalso
    rw [List.nil_append] at h
    unfold procRsync at h
    dsimp only at h
    obtain ⟨full, hfull, h⟩ := bind_eq_ok h
    cases full with
    | some t =>
      unfold isFullFileOp at hfull
      rw [if_pos (by rw [hem]; decide)] at hfull
      cases hfull
    | none =>
      dsimp only at h
      exact (procRelay_spec E i _ rest x r r1 h).1.1 hem
  | cons om ops' =>
    have hops' : ∀ m ∈ ops', (asSyncOp m).type ≠ heyYouDidIt := fun m' hm' => hops m' (List.mem_cons_of_mem _ hm')
    rw [List.cons_append] at h ⊢
    unfold procRsync at h ⊢
    dsimp only at h ⊢
    obtain ⟨full, hfull, h⟩ := bind_eq_ok h
    rw [hfull]
    cases full with
    | some t => exact procFull_swap E i t ops' em em' rest rest' hops' hem hem' r x r1 h
    | none => exact procRelay_swap E i _ ops' em em' rest rest' hops' hem hem' r x r1 h

/-- Replacing the end marker of an rsync series (and what follows it) does not change what the file produces. -/
theorem processFile_swap (E : Env) (hnw : E.whitelist = none) (i : Nat) (hm : WMsg) (ops : List WMsg) (em em' : WMsg)
    (rest rest' : List WMsg) (hk : (asSyncHeader hm).type = kindRsync)
    (hops : ∀ m ∈ ops, (asSyncOp m).type ≠ heyYouDidIt) (hem : (asSyncOp em).type = heyYouDidIt)
    (hem' : (asSyncOp em').type = heyYouDidIt) (r : Res) (x : List WMsg) (r1 : Res)
    (h : processFile E i (hm :: (ops ++ em :: rest)) r = .ok (x, r1)) :
    (asSyncHeader hm).fileIndex = i ∧ processFile E i (hm :: (ops ++ em' :: rest')) r = .ok (rest', r1) := by
  have hns : skipOf E i = false := by unfold skipOf; rw [hnw]
  rw [processFile_cons] at h
  by_cases h1 : (asSyncHeader hm).fileIndex ≠ i
  · rw [if_pos h1] at h; cases h
  · have h2 : ¬ ((asSyncHeader hm).type ≠ kindRsync ∧ (asSyncHeader hm).type ≠ kindBsdiff) := fun hh => hh.1 hk
    rw [if_neg h1, if_neg h2, hns, if_neg Bool.false_ne_true, if_pos hk] at h
    refine ⟨Decidable.not_not.1 h1, ?_⟩
    rw [processFile_cons, if_neg h1, if_neg h2, hns, if_neg Bool.false_ne_true, if_pos hk]
    exact procRsync_swap E i ops em em' rest rest' hops hem hem' r x r1 h


/-! ### one step of the optimizer -/

/-- the series the optimizer writes for one file. -/
def seriesOf (differ : Nat → Nat → Outcome (List Bsdiff.Ctrl)) (mp : Option (Nat × Int)) (i : Nat) (hm : WMsg)
    (ops : List WMsg) : Outcome (List WMsg) :=
  match mp with
  | none => .ok (hm :: ops ++ [mkHey])
  | some (t, _) =>
    match differ t i with
    | .ok cs => .ok (mkSyncHeader kindBsdiff i :: mkBsdiffHeader t :: cs.map Rediff.ctrlMsg ++ [mkHey])
    | .err e => .err e
    | .panic p => .panic p

theorem optimize_cons_inv (differ : Nat → Nat → Outcome (List Bsdiff.Ctrl)) (mp : Option (Nat × Int))
    (maps : List (Option (Nat × Int))) (i : Nat) (hm : WMsg) (ops : List WMsg) (em : WMsg) (rest out : List WMsg)
    (hops : ∀ m ∈ ops, (asSyncOp m).type ≠ heyYouDidIt) (hem : (asSyncOp em).type = heyYouDidIt)
    (h : Rediff.optimize differ (mp :: maps) i (hm :: (ops ++ em :: rest)) = .ok out) :
    ∃ s more, seriesOf differ mp i hm ops = .ok s ∧ Rediff.optimize differ maps (i + 1) rest = .ok more ∧
      out = s ++ more := by
  rw [Rediff.optimize] at h
  split at h
  · cases h
  · rw [takeOps_series ops em rest hops hem, List.reverse_nil, List.nil_append] at h
    dsimp only at h
    change (match seriesOf differ mp i hm ops, Rediff.optimize differ maps (i + 1) rest with
          | .ok s, .ok more => Outcome.ok (s ++ more)
          | .err e, _ => .err e
          | .panic p, _ => .panic p
          | _, .err e => .err e
          | _, .panic p => .panic p) = .ok out at h
    split at h
    · rename_i s more hs hmore
      cases h
      exact ⟨s, more, hs, hmore, rfl⟩
    all_goals cases h


theorem skipOf_none' (E : Env) (hnw : E.whitelist = none) (i : Nat) : skipOf E i = false := by
  unfold skipOf; rw [hnw]

/-- The substituted bsdiff series is accepted and writes `w`. -/
theorem processFile_bsdiffSeries (E : Env) (hnw : E.whitelist = none) (i t flen : Nat) (cs : List Bsdiff.Ctrl)
    (w : List Byte) (more : List WMsg) (r : Res)
    (ht : t < E.pool.nfiles) (hfl : E.pool.flen t = .ok flen) (hw : w.length = E.newSizes.getD i 0)
    (hloop : bsdiffLoop E t flen (cs.map Rediff.ctrlMsg ++ (mkHey :: more)) 0 [] = .ok (mkHey :: more, w)) :
    processFile E i (mkSyncHeader kindBsdiff i :: mkBsdiffHeader t :: (cs.map Rediff.ctrlMsg ++ mkHey :: more)) r =
      .ok (more, { out := r.out ++ [(i, w)], touched := r.touched + 1,
                   calls := r.calls ++ [BowlCall.getWriter i], reads := r.reads ++ [t] }) := by
  have hidx : idx E.pool.nfiles (t : Int) "processBsdiff targetPool.GetReadSeeker(targetIndex)" = .ok t := by
    unfold idx
    rw [if_pos ⟨Int.natCast_nonneg _, Int.ofNat_lt.2 ht⟩, Int.toNat_natCast]
  rw [processFile_cons, asSyncHeader_mkBsdiff]
  dsimp only
  rw [if_neg (fun h => h rfl), if_neg (fun h => h.2 rfl), skipOf_none' E hnw, if_neg Bool.false_ne_true,
    if_neg (by decide)]
  unfold procBsdiff
  dsimp only
  rw [asBsdiffHeader_mk, hidx]
  dsimp only [bind_ok]
  rw [hfl]
  dsimp only
  rw [hloop]
  dsimp only [bind_ok]
  rw [if_neg (fun h => h asSyncOp_mkHey_type), if_neg (fun h => h hw)]

/-- A successful run appends to `out` only entries for the files it visits. -/
theorem patchFrom_out (E : Env) (hnw : E.whitelist = none) (n i : Nat) (msgs : List WMsg) (r0 r : Res)
    (h : patchFrom E n i msgs r0 = .ok r) :
    ∃ D, r.out = r0.out ++ D ∧ ∀ p ∈ D, i ≤ p.1 := by
  induction n generalizing i msgs r0 with
  | zero =>
    rw [patchFrom_zero] at h
    cases h
    exact ⟨[], (List.append_nil _).symm, fun p hp => by cases hp⟩
  | succ n ih =>
    obtain ⟨rest, r1, hp, hrest⟩ := patchFrom_succ_inv _ _ _ _ _ _ h
    obtain ⟨⟨d, ⟨⟨b, hdout⟩, _, _⟩, hr1, _⟩, _⟩ := processFile_spec _ i msgs rest r0 r1 (skipOf_none' E hnw i) hp
    obtain ⟨D, hD, hDi⟩ := ih (i + 1) rest r1 hrest
    refine ⟨(i, b) :: D, ?_, ?_⟩
    · rw [hD, hr1]
      simp [Res.add, hdout]
    · intro p hp
      rcases List.mem_cons.1 hp with rfl | hp
      · exact Nat.le_refl _
      · exact Nat.le_of_succ_le (hDi p hp)


/-! ### plain patches and the main induction -/

/-- `C07.PlainPatch` (the property file's definition, repeated here for the helper lemmas). -/
def PlainP : Nat → List WMsg → Prop
  | 0, _ => True
  | n + 1, msgs =>
    ∃ hm ops em rest, msgs = hm :: (ops ++ em :: rest) ∧ (asSyncHeader hm).type = kindRsync ∧
      (∀ m ∈ ops, (asSyncOp m).type ≠ heyYouDidIt) ∧ (asSyncOp em).type = heyYouDidIt ∧ PlainP n rest

/-- `C07.SeriesOK`. -/
def SeriesP (E : Env) (r : Res) (t i : Nat) (cs : List Bsdiff.Ctrl) : Prop :=
  t < E.pool.nfiles ∧ ∃ flen w, E.pool.flen t = .ok flen ∧ (i, w) ∈ r.out ∧ w.length = E.newSizes.getD i 0 ∧
    ∀ rest, bsdiffLoop E t flen (cs.map Rediff.ctrlMsg ++ rest) 0 [] = .ok (rest, w)

theorem optimize_patchFrom (E : Env) (hnw : E.whitelist = none) (differ : Nat → Nat → Outcome (List Bsdiff.Ctrl))
    (r : Res) :
    ∀ (n i : Nat) (maps : List (Option (Nat × Int))) (msgs out : List WMsg) (r0 r0' : Res),
      PlainP n msgs → maps.length = n → patchFrom E n i msgs r0 = .ok r →
      (∀ p ∈ r0.out, p.1 < i) → r0'.out = r0.out → r0'.touched = r0.touched →
      (∀ j t k cs, maps[j]? = some (some (t, k)) → differ t (i + j) = .ok cs → SeriesP E r t (i + j) cs) →
      Rediff.optimize differ maps i msgs = .ok out →
      ∃ r', patchFrom E n i out r0' = .ok r' ∧ r'.out = r.out ∧ r'.touched = r.touched := by
  intro n
  induction n with
  | zero =>
    intro i maps msgs out r0 r0' _ _ hfull _ ho ht _ _
    rw [patchFrom_zero] at hfull
    cases hfull
    exact ⟨r0', patchFrom_zero _ _ _ _, ho, ht⟩
  | succ n ih =>
    intro i maps msgs out r0 r0' hplain hlen hfull hlt ho ht hdiff hopt
    obtain ⟨hm, ops, em, rest, rfl, hk, hops, hem, hplain'⟩ := hplain
    cases maps with
    | nil => cases hlen
    | cons mp maps' =>
      have hlen' : maps'.length = n := by simpa using hlen
      obtain ⟨x, r1, hp, hrest⟩ := patchFrom_succ_inv _ _ _ _ _ _ hfull
      -- the original run consumed exactly this series
      have hx := (processFile_swap E hnw i hm ops em em rest rest hk hops hem hem r0 x r1 hp).2
      rw [hp] at hx
      have hxe : x = rest := by injection hx with hx; injection hx
      subst hxe
      obtain ⟨⟨d, ⟨⟨b, hdout⟩, hdt, _⟩, hr1, hall⟩, _⟩ :=
        processFile_spec _ i _ x r0 r1 (skipOf_none' E hnw i) hp
      have hr1out : r1.out = r0.out ++ [(i, b)] := by rw [hr1]; simp [Res.add, hdout]
      have hr1t : r1.touched = r0.touched + 1 := by rw [hr1]; simp [Res.add, hdt]
      obtain ⟨s, more, hs, hmore, rfl⟩ := optimize_cons_inv differ mp maps' i hm ops em x out hops hem hopt
      have hlt' : ∀ p ∈ r1.out, p.1 < i + 1 := by
        intro p hp
        rw [hr1out] at hp
        rcases List.mem_append.1 hp with hp | hp
        · exact Nat.lt_succ_of_lt (hlt p hp)
        · simp only [List.mem_singleton] at hp
          rw [hp]; exact Nat.lt_succ_self _
      have hdiff' : ∀ j t k cs, maps'[j]? = some (some (t, k)) → differ t (i + 1 + j) = .ok cs →
          SeriesP E r t (i + 1 + j) cs := by
        intro j t k cs hj hd
        have e : i + 1 + j = i + (j + 1) := by omega
        rw [e] at hd ⊢
        exact hdiff (j + 1) t k cs (by simpa using hj) hd
      cases mp with
      | none =>
        -- copied series: same header and ops, re-encoded end marker
        have hs' : s = hm :: (ops ++ mkHey :: []) := by
          unfold seriesOf at hs
          injection hs with hs
          rw [← hs]; rfl
        have h1 := (processFile_swap E hnw i hm ops em mkHey x more hk hops hem asSyncOp_mkHey_type r0' x
          (Res.add r0' d) (hall r0')).2
        obtain ⟨r', hr', hro, hrt⟩ := ih (i + 1) maps' x more r1 (Res.add r0' d) hplain' hlen' hrest hlt'
          (by rw [hr1out]; simp [Res.add, hdout, ho]) (by rw [hr1t]; simp [Res.add, hdt, ht]) hdiff' hmore
        refine ⟨r', ?_, hro, hrt⟩
        have e : s ++ more = hm :: (ops ++ mkHey :: more) := by rw [hs']; simp
        rw [e, patchFrom_succ_ok _ _ _ _ _ _ _ h1]
        exact hr'
      | some tk =>
        obtain ⟨t, k⟩ := tk
        unfold seriesOf at hs
        dsimp only at hs
        split at hs
        · rename_i cs hcs
          injection hs with hs
          obtain ⟨htn, flen, w, hfl, hmem, hw, hloop⟩ := hdiff 0 t k cs (by simp) (by simpa using hcs)
          rw [Nat.add_zero] at hmem hw
          -- the bytes are those the original series wrote
          have hwb : w = b := by
            obtain ⟨D, hD, hDi⟩ := patchFrom_out E hnw n (i + 1) x r1 r hrest
            rw [hD, hr1out] at hmem
            rcases List.mem_append.1 hmem with hmem | hmem
            · rcases List.mem_append.1 hmem with hmem | hmem
              · exact absurd (hlt _ hmem) (Nat.lt_irrefl _)
              · simp only [List.mem_singleton] at hmem
                injection hmem
            · exact absurd (hDi _ hmem) (Nat.not_succ_le_self _)
          have h1 := processFile_bsdiffSeries E hnw i t flen cs w more r0' htn hfl hw (hloop _)
          obtain ⟨r', hr', hro, hrt⟩ := ih (i + 1) maps' x more r1
            { out := r0'.out ++ [(i, w)], touched := r0'.touched + 1,
              calls := r0'.calls ++ [BowlCall.getWriter i], reads := r0'.reads ++ [t] }
            hplain' hlen' hrest hlt'
            (by rw [hr1out, hwb, ho]) (by rw [hr1t, ht]) hdiff' hmore
          refine ⟨r', ?_, hro, hrt⟩
          have e : s ++ more =
              mkSyncHeader kindBsdiff i :: mkBsdiffHeader t :: (cs.map Rediff.ctrlMsg ++ mkHey :: more) := by
            rw [← hs]; simp
          rw [e, patchFrom_succ_ok _ _ _ _ _ _ _ h1]
          exact hr'
        · cases hs
        · cases hs


/-! ### what the differ writes is a plain patch -/

theorem diffAll_plain (P : Rsync.Params) (olds : List (String × Content)) :
    ∀ (news : List (String × Content)) (k : Nat), PlainP news.length ((diffAll P olds k news).flatMap series)
  | [], _ => trivial
  | (path, src) :: news, k => by
    rw [diffAll, List.flatMap_cons, List.length_cons]
    refine ⟨mkSyncHeader kindRsync k,
      (Rsync.computeDiff P (olds.map (·.2)) src (prefOf (olds.map (·.1)) path)).map (opMsg src), mkHey,
      (diffAll P olds (k + 1) news).flatMap series, ?_, ?_, ?_, asSyncOp_mkHey_type, diffAll_plain P olds news (k + 1)⟩
    · simp [series]
    · rw [asSyncHeader_mk]; rfl
    · intro m hm
      obtain ⟨op, _, rfl⟩ := List.mem_map.1 hm
      exact opMsg_type_ne_hey src op


end Wharf.RediffP
