/-
  Helper lemmas for C12 (bsdiff differ / applier).  Core Lean only.
-/
import Wharf.Model.Bsdiff

namespace Wharf.Bsdiff
open Wharf

/-! ### bounds of the small loops (the scores are irrelevant) -/

theorem scoreLoop_snd_ge (obuf nbuf : Bytes) (lo : Int) (upto : Nat) (fuel scsc : Nat) (sc : Int) :
    sc ≤ (scoreLoop obuf nbuf lo upto fuel scsc sc).2 := by
  fun_induction scoreLoop obuf nbuf lo upto fuel scsc sc with
  | case1 => exact Int.le_refl _
  | case2 fuel scsc sc hc ih => refine Int.le_trans ?_ ih; split <;> omega
  | case3 => exact Int.le_refl _

theorem lenfLoop_bound (obuf nbuf : Bytes) (ls lp scan : Nat) (fuel i s sf lenf : Nat)
    (h : ls + lenf ≤ scan ∧ lp + lenf ≤ obuf.size) :
    ls + lenfLoop obuf nbuf ls lp scan fuel i s sf lenf ≤ scan ∧
      lp + lenfLoop obuf nbuf ls lp scan fuel i s sf lenf ≤ obuf.size := by
  fun_induction lenfLoop obuf nbuf ls lp scan fuel i s sf lenf with
  | case1 => exact h
  | case2 fuel i s sf lenf hc s' i' hgt ih => exact ih (by omega)
  | case3 fuel i s sf lenf hc s' i' hgt ih => exact ih h
  | case4 => exact h

theorem lenbLoop_bound (obuf nbuf : Bytes) (ls scan pos : Nat) (fuel i s sb lenb : Nat)
    (h : ls + lenb ≤ scan ∧ lenb ≤ pos) :
    ls + lenbLoop obuf nbuf ls scan pos fuel i s sb lenb ≤ scan ∧
      lenbLoop obuf nbuf ls scan pos fuel i s sb lenb ≤ pos := by
  fun_induction lenbLoop obuf nbuf ls scan pos fuel i s sb lenb with
  | case1 => exact h
  | case2 fuel i s sb lenb hc s' hgt ih => exact ih (by omega)
  | case3 fuel i s sb lenb hc s' hgt ih => exact ih h
  | case4 => exact h

theorem lensLoop_bound (obuf nbuf : Bytes) (ls lp scan pos lenf lenb overlap : Nat)
    (fuel i : Nat) (s ss : Int) (lens : Nat) (h : lens ≤ overlap) :
    lensLoop obuf nbuf ls lp scan pos lenf lenb overlap fuel i s ss lens ≤ overlap := by
  fun_induction lensLoop obuf nbuf ls lp scan pos lenf lenb overlap fuel i s ss lens with
  | case1 => exact h
  | case2 fuel i s ss lens hc s' s'' hgt ih => exact ih (by omega)
  | case3 fuel i s ss lens hc s' s'' hgt ih => exact ih h
  | case4 => exact h

/-! ### the inner scan loop -/

/-- What the differ needs from the search (same as `C12.SearchOK`). -/
def SearchOKP (obuflen blocklen : Nat) (search : Nat → Nat × Nat) : Prop :=
  ∀ scan, scan < blocklen → (search scan).1 ≤ obuflen ∧ (search scan).2 ≤ blocklen - scan

theorem innerLoop_spec (obuf nbuf : Bytes) (search : Nat → Nat × Nat) (lo : Int) (N : Nat)
    (hs : SearchOKP N nbuf.size search)
    (fuel scan scsc pos length : Nat) (sc : Int)
    (h1 : scan ≤ nbuf.size) (h2 : nbuf.size ≤ scan + fuel) (h3 : pos ≤ N) :
    scan ≤ (innerLoop obuf nbuf search lo fuel scan scsc pos length sc).1 ∧
    (innerLoop obuf nbuf search lo fuel scan scsc pos length sc).1 ≤ nbuf.size ∧
    (innerLoop obuf nbuf search lo fuel scan scsc pos length sc).2.1 ≤ N ∧
    ((innerLoop obuf nbuf search lo fuel scan scsc pos length sc).1 < nbuf.size →
      (innerLoop obuf nbuf search lo fuel scan scsc pos length sc).1 +
      (innerLoop obuf nbuf search lo fuel scan scsc pos length sc).2.2.1 ≤ nbuf.size) := by
  fun_induction innerLoop obuf nbuf search lo fuel scan scsc pos length sc with
  | case1 => simp only []; omega
  | case2 fuel scan scsc pos length sc hlt pos' length' hsr scsc' sc' hsl hbr =>
    have := hs scan hlt
    rw [hsr] at this
    simp only [] at this ⊢
    omega
  | case3 fuel scan scsc pos length sc hlt pos' length' hsr scsc' sc' hsl hbr sc'' ih =>
    have := hs scan hlt
    rw [hsr] at this
    simp only [] at this
    have := ih (by omega) (by omega) (by omega)
    omega
  | case4 => simp only []; omega

/-- Started with a non-negative score, the inner loop either advances or stops on a non-empty match. -/
theorem innerLoop_progress (obuf nbuf : Bytes) (search : Nat → Nat × Nat) (lo : Int) (N : Nat)
    (hs : SearchOKP N nbuf.size search)
    (fuel scan scsc pos length : Nat) (sc : Int)
    (h1 : scan < nbuf.size) (h2 : nbuf.size ≤ scan + (fuel + 1)) (hsc : 0 ≤ sc) :
    scan < (innerLoop obuf nbuf search lo (fuel + 1) scan scsc pos length sc).1 ∨
    1 ≤ (innerLoop obuf nbuf search lo (fuel + 1) scan scsc pos length sc).2.2.1 := by
  rw [innerLoop]
  simp only [h1, if_true]
  rcases hsr : search scan with ⟨pos', length'⟩
  rcases hsl : scoreLoop obuf nbuf lo (scan + length') (nbuf.size + 1) scsc sc with ⟨scsc', sc'⟩
  have hge := scoreLoop_snd_ge obuf nbuf lo (scan + length') (nbuf.size + 1) scsc sc
  rw [hsl] at hge
  simp only [] at hge ⊢
  have hN := hs scan h1
  rw [hsr] at hN
  simp only [] at hN
  split
  · right; simp only []; omega
  · left
    have := innerLoop_spec obuf nbuf search lo N hs fuel (scan + 1) scsc' pos' length'
      (if agrees obuf nbuf lo scan = true then sc' - 1 else sc') (by omega) (by omega) (by omega)
    omega

/-! ### tilings and the outer loop -/

/-- Same as `C12.Tiles`. -/
def TilesP (obuflen : Nat) : Nat → Nat → List Match → Prop
  | a, b, [] => a = b
  | a, b, m :: ms => m.addNewStart = a ∧ m.addOldStart + m.addLength ≤ obuflen ∧
      m.copyStart ≤ m.copyEnd ∧ m.copyEnd ≤ b ∧ TilesP obuflen m.copyEnd b ms

theorem TilesP.le {N a b : Nat} {ms : List Match} (h : TilesP N a b ms) : a ≤ b := by
  induction ms generalizing a with
  | nil => exact Nat.le_of_eq h
  | cons m ms ih =>
    obtain ⟨h1, _, h3, h4, _⟩ := h
    simp only [Match.copyStart] at h3
    omega

theorem TilesP.append {N a b c : Nat} {ms₁ ms₂ : List Match}
    (h₁ : TilesP N a b ms₁) (h₂ : TilesP N b c ms₂) : TilesP N a c (ms₁ ++ ms₂) := by
  induction ms₁ generalizing a with
  | nil => cases h₁; exact h₂
  | cons m ms ih =>
    obtain ⟨h1, h2, h3, h4, h5⟩ := h₁
    exact ⟨h1, h2, h3, Nat.le_trans h4 h₂.le, ih h5⟩

theorem TilesP.snoc {N a b : Nat} {ms : List Match} {m : Match} (h : TilesP N a b ms)
    (h1 : m.addNewStart = b) (h2 : m.addOldStart + m.addLength ≤ N) (h3 : m.copyStart ≤ m.copyEnd) :
    TilesP N a m.copyEnd (ms ++ [m]) :=
  h.append ⟨h1, h2, h3, Nat.le_refl _, rfl⟩

/-- Invariant of `analyzeBlock` at the head of the outer loop. -/
structure AInv (N n offset : Nat) (a : AState) : Prop where
  lastpos_le : a.lastpos ≤ N
  pos_le : a.pos ≤ N
  scan_le : a.scan ≤ n
  len_le : a.scan < n → a.scan + a.length ≤ n
  lastscan_le : a.lastscan ≤ a.scan
  tiles : TilesP N offset (offset + a.lastscan) a.out.toList
  final : a.scan = n → a.lastscan = n
  head_nil : a.out.toList = [] → a.lastpos = 0
  head_cons : ∀ m, a.out.toList.head? = some m → m.addOldStart = 0

def mu (n : Nat) (a : AState) : Nat := 2 * (n - a.scan) + (if a.length = 0 then 1 else 0)


/-- The state after emitting a match with final extensions `lenf`, `lenb`. -/
def emitMatch (a : AState) (offset scan lenf lenb : Nat) : Match :=
  { addOldStart := a.lastpos, addNewStart := a.lastscan + offset, addLength := lenf,
    copyEnd := scan - lenb + offset }

def emitWith (a : AState) (offset scan pos length lenf lenb : Nat) : AState :=
  { scan := scan, pos := pos, length := length, lastscan := scan - lenb, lastpos := pos - lenb,
    lastoffset := (pos : Int) - scan, out := a.out.push (emitMatch a offset scan lenf lenb) }

/-- `lenf`/`lenb` after overlap resolution. -/
def extents (obuf nbuf : Bytes) (a : AState) (scan pos : Nat) : Nat × Nat :=
  let lenf := lenfLoop obuf nbuf a.lastscan a.lastpos scan (nbuf.size + 1) 0 0 0 0
  let lenb := if scan < nbuf.size then lenbLoop obuf nbuf a.lastscan scan pos (nbuf.size + 1) 1 0 0 0 else 0
  if a.lastscan + lenf > scan - lenb then
    let overlap := (a.lastscan + lenf) - (scan - lenb)
    let lens := lensLoop obuf nbuf a.lastscan a.lastpos scan pos lenf lenb overlap (nbuf.size + 1) 0 0 0 0
    (lenf + lens - overlap, lenb - lens)
  else (lenf, lenb)

theorem outerStep_eq (obuf nbuf : Bytes) (search : Nat → Nat × Nat) (offset : Nat) (a : AState) :
    outerStep obuf nbuf search offset a =
      let r := innerLoop obuf nbuf search a.lastoffset (nbuf.size + 1) (a.scan + a.length)
        (a.scan + a.length) a.pos a.length 0
      if (r.2.2.1 : Int) ≠ r.2.2.2 ∨ r.1 = nbuf.size then
        emitWith a offset r.1 r.2.1 r.2.2.1 (extents obuf nbuf a r.1 r.2.1).1 (extents obuf nbuf a r.1 r.2.1).2
      else { a with scan := r.1, pos := r.2.1, length := r.2.2.1 } := rfl

theorem extents_bound (obuf nbuf : Bytes) (a : AState) (scan pos : Nat)
    (h1 : a.lastscan ≤ scan) (h2 : a.lastpos ≤ obuf.size) :
    a.lastscan + (extents obuf nbuf a scan pos).1 + (extents obuf nbuf a scan pos).2 ≤ scan ∧
    a.lastpos + (extents obuf nbuf a scan pos).1 ≤ obuf.size ∧
    (extents obuf nbuf a scan pos).2 ≤ pos ∧
    (scan = nbuf.size → (extents obuf nbuf a scan pos).2 = 0) := by
  have hf := lenfLoop_bound obuf nbuf a.lastscan a.lastpos scan (nbuf.size + 1) 0 0 0 0 ⟨h1, h2⟩
  have hb : a.lastscan + (if scan < nbuf.size then lenbLoop obuf nbuf a.lastscan scan pos (nbuf.size + 1) 1 0 0 0 else 0) ≤ scan ∧
      (if scan < nbuf.size then lenbLoop obuf nbuf a.lastscan scan pos (nbuf.size + 1) 1 0 0 0 else 0) ≤ pos ∧
      (scan = nbuf.size → (if scan < nbuf.size then lenbLoop obuf nbuf a.lastscan scan pos (nbuf.size + 1) 1 0 0 0 else 0) = 0) := by
    have := lenbLoop_bound obuf nbuf a.lastscan scan pos (nbuf.size + 1) 1 0 0 0 ⟨h1, Nat.zero_le _⟩
    split <;> omega
  unfold extents
  generalize lenfLoop obuf nbuf a.lastscan a.lastpos scan (nbuf.size + 1) 0 0 0 0 = lenf at hf ⊢
  generalize (if scan < nbuf.size then lenbLoop obuf nbuf a.lastscan scan pos (nbuf.size + 1) 1 0 0 0 else 0) = lenb at hb ⊢
  simp only []
  split
  · have hl := lensLoop_bound obuf nbuf a.lastscan a.lastpos scan pos lenf lenb
      (a.lastscan + lenf - (scan - lenb)) (nbuf.size + 1) 0 0 0 0 (Nat.zero_le _)
    generalize lensLoop obuf nbuf a.lastscan a.lastpos scan pos lenf lenb
      (a.lastscan + lenf - (scan - lenb)) (nbuf.size + 1) 0 0 0 0 = lens at hl ⊢
    simp only []
    omega
  · simp only []
    omega

theorem emitWith_inv (N n offset : Nat) (a : AState) (scan pos length lenf lenb : Nat)
    (hinv : AInv N n offset a) (h1 : a.lastscan + lenf + lenb ≤ scan) (h2 : a.lastpos + lenf ≤ N)
    (h3 : lenb ≤ pos) (h4 : scan = n → lenb = 0) (h5 : scan ≤ n) (h6 : pos ≤ N)
    (h7 : scan < n → scan + length ≤ n) :
    AInv N n offset (emitWith a offset scan pos length lenf lenb) := by
  refine ⟨?_, h6, h5, h7, ?_, ?_, ?_, ?_, ?_⟩
  · show pos - lenb ≤ N
    omega
  · show scan - lenb ≤ scan
    omega
  · show TilesP N offset (offset + (scan - lenb)) (a.out.push _).toList
    rw [Array.toList_push]
    have := hinv.tiles.snoc (m := emitMatch a offset scan lenf lenb) (Nat.add_comm _ _) h2
      (by simp only [Match.copyStart, emitMatch]; omega)
    rw [Nat.add_comm offset]
    exact this
  · intro h
    show scan - lenb = n
    have h : scan = n := h
    have := h4 h
    omega
  · intro h
    have : (a.out.push _).toList = [] := h
    simp at this
  · intro m h
    have h : (a.out.push _).toList.head? = some m := h
    rw [Array.toList_push] at h
    cases hl : a.out.toList with
    | nil =>
      rw [hl] at h
      simp only [List.nil_append, List.head?_cons, Option.some.injEq] at h
      subst h
      exact hinv.head_nil hl
    | cons x xs =>
      rw [hl] at h
      simp only [List.cons_append, List.head?_cons, Option.some.injEq] at h
      subst h
      exact hinv.head_cons _ (by rw [hl]; rfl)

theorem outerStep_inv (obuf nbuf : Bytes) (search : Nat → Nat × Nat) (offset : Nat)
    (hs : SearchOKP obuf.size nbuf.size search) (a : AState)
    (hinv : AInv obuf.size nbuf.size offset a) (hlt : a.scan < nbuf.size) :
    AInv obuf.size nbuf.size offset (outerStep obuf nbuf search offset a) ∧
      mu nbuf.size (outerStep obuf nbuf search offset a) < mu nbuf.size a := by
  have hlen := hinv.len_le hlt
  have hsp := innerLoop_spec obuf nbuf search a.lastoffset obuf.size hs (nbuf.size + 1)
    (a.scan + a.length) (a.scan + a.length) a.pos a.length 0 hlen (by omega) hinv.pos_le
  have hpr : a.scan < (innerLoop obuf nbuf search a.lastoffset (nbuf.size + 1)
      (a.scan + a.length) (a.scan + a.length) a.pos a.length 0).1 ∨
      (a.length = 0 ∧ 1 ≤ (innerLoop obuf nbuf search a.lastoffset (nbuf.size + 1)
      (a.scan + a.length) (a.scan + a.length) a.pos a.length 0).2.2.1) := by
    by_cases hl : a.length = 0
    · have := innerLoop_progress obuf nbuf search a.lastoffset obuf.size hs nbuf.size
        (a.scan + a.length) (a.scan + a.length) a.pos a.length 0 (by omega) (by omega) (Int.le_refl _)
      omega
    · omega
  rw [outerStep_eq]
  generalize innerLoop obuf nbuf search a.lastoffset (nbuf.size + 1)
      (a.scan + a.length) (a.scan + a.length) a.pos a.length 0 = r at hsp hpr ⊢
  obtain ⟨scan, pos, length, oldscore⟩ := r
  simp only [] at hsp hpr ⊢
  have hmu : ∀ a' : AState, a'.scan = scan → a'.length = length → mu nbuf.size a' < mu nbuf.size a := by
    intro a' e1 e2
    simp only [mu, e1, e2]
    split <;> split <;> omega
  have hls := hinv.lastscan_le
  split
  · refine ⟨?_, hmu _ rfl rfl⟩
    have hb := extents_bound obuf nbuf a scan pos (by omega) hinv.lastpos_le
    exact emitWith_inv _ _ _ a scan pos length _ _ hinv hb.1 hb.2.1 hb.2.2.1 hb.2.2.2 hsp.2.1 hsp.2.2.1
      hsp.2.2.2
  · rename_i hno
    refine ⟨?_, hmu _ rfl rfl⟩
    refine ⟨hinv.lastpos_le, hsp.2.2.1, hsp.2.1, hsp.2.2.2, ?_, hinv.tiles, ?_, hinv.head_nil, hinv.head_cons⟩
    · show a.lastscan ≤ scan
      omega
    · intro h
      have h : scan = nbuf.size := h
      exact absurd (Or.inr h) hno

theorem outerLoop_spec (obuf nbuf : Bytes) (search : Nat → Nat × Nat) (offset : Nat)
    (hs : SearchOKP obuf.size nbuf.size search) (fuel : Nat) (a : AState)
    (hinv : AInv obuf.size nbuf.size offset a) (hfuel : a.scan < nbuf.size → mu nbuf.size a ≤ fuel) :
    ∃ a', outerLoop obuf nbuf search offset fuel a = some a' ∧ AInv obuf.size nbuf.size offset a' ∧
      a'.scan = nbuf.size := by
  induction fuel generalizing a with
  | zero =>
    have : ¬ a.scan < nbuf.size := by
      intro h
      have := hfuel h
      simp only [mu] at this
      omega
    refine ⟨a, by simp [outerLoop, this], hinv, ?_⟩
    have := hinv.scan_le
    omega
  | succ fuel ih =>
    unfold outerLoop
    split
    · rename_i hlt
      have ⟨hi, hm⟩ := outerStep_inv obuf nbuf search offset hs a hinv hlt
      have := hfuel hlt
      exact ih _ hi (fun _ => by omega)
    · rename_i hge
      refine ⟨a, rfl, hinv, ?_⟩
      have := hinv.scan_le
      omega

theorem analyzeBlock_spec (obuf blk : Bytes) (search : Nat → Nat × Nat) (offset : Nat)
    (hs : SearchOKP obuf.size blk.size search) :
    ∃ ms, analyzeBlock obuf blk search offset = some ms ∧
      TilesP obuf.size offset (offset + blk.size) ms ∧
      ∀ m, ms.head? = some m → m.addOldStart = 0 := by
  have hinit : AInv obuf.size blk.size offset {} :=
    ⟨Nat.zero_le _, Nat.zero_le _, Nat.zero_le _, fun _ => Nat.zero_le _, Nat.le_refl _, rfl,
      fun h => h, fun _ => rfl, fun m h => by simp at h⟩
  obtain ⟨a', h1, h2, h3⟩ := outerLoop_spec obuf blk search offset hs (2 * blk.size + 2) {} hinit
    (fun _ => by simp only [mu]; split <;> omega)
  refine ⟨a'.out.toList, by simp [analyzeBlock, h1], ?_, h2.head_cons⟩
  have := h2.tiles
  rw [h2.final h3] at this
  exact this

/-! ### applying the written messages -/

theorem byte_add_sub (a b : UInt8) : a + (b - a) = b := by
  rw [UInt8.add_comm, UInt8.sub_add_cancel]

theorem range_map_at' (nbuf : Bytes) (a len : Nat) (h : a + len ≤ nbuf.size) :
    (List.range len).map (fun i => at' nbuf (a + i)) = (nbuf.toList.drop a).take len := by
  apply List.ext_getElem
  · simp; omega
  · intro i h1 h2
    simp at h1
    simp [at', Array.getD, show a + i < nbuf.size by omega]

theorem take_drop_append_drop {α} (L : List α) (a b : Nat) (h : a ≤ b) :
    (L.drop a).take (b - a) ++ L.drop b = L.drop a := by
  have : L.drop b = (L.drop a).drop (b - a) := by
    rw [List.drop_drop]; congr 1; omega
  rw [this, List.take_append_drop]
theorem addBytes_length (obuf nbuf : Bytes) (m : Match) : (addBytes obuf nbuf m).length = m.addLength := by
  simp [addBytes]

theorem added_eq (obuf nbuf : Bytes) (m : Match) :
    ((List.range (addBytes obuf nbuf m).length).map fun i =>
      at' obuf (m.addOldStart + i) + (addBytes obuf nbuf m).getD i 0) =
    (List.range m.addLength).map fun i => at' nbuf (m.addNewStart + i) := by
  rw [addBytes_length]
  apply List.map_congr_left
  intro i hi
  have hi : i < m.addLength := by simpa using hi
  simp [addBytes, hi, byte_add_sub]

theorem applyCtrl_match (obuf nbuf : Bytes) (m : Match) (pre : List Byte) (seek : Int)
    (h1 : m.addOldStart + m.addLength ≤ obuf.size) (h2 : m.copyStart ≤ m.copyEnd)
    (h3 : m.copyEnd ≤ nbuf.size) :
    applyCtrl obuf ⟨m.addOldStart, pre⟩ (addBytes obuf nbuf m) (copyBytes nbuf m) seek =
      .ok ⟨m.addOldStart + m.addLength + seek,
           pre ++ (nbuf.toList.drop m.addNewStart).take (m.copyEnd - m.addNewStart)⟩ := by
  unfold applyCtrl
  simp only [Match.copyStart] at h2
  have c1 : ¬ ((m.addOldStart : Int) < 0 ∨ (m.addOldStart : Int) > obuf.size) := by omega
  have c2 : ¬ ((m.addOldStart : Int).toNat + (addBytes obuf nbuf m).length > obuf.size) := by
    rw [addBytes_length]; omega
  rw [if_neg c1]
  simp only [Int.toNat_natCast] at c2 ⊢
  rw [if_neg c2, added_eq, addBytes_length, List.append_assoc]
  congr 3
  rw [range_map_at' nbuf _ _ (by omega), copyBytes,
    range_map_at' nbuf _ _ (by simp only [Match.copyStart]; omega)]
  simp only [Match.copyStart]
  rw [show m.copyEnd - m.addNewStart = m.addLength + (m.copyEnd - (m.addNewStart + m.addLength)) by omega,
    List.take_add, List.drop_drop]
theorem apply_writeMessagesP (obuf nbuf : Bytes) (ms : List Match) (a : Nat) (pre : List Byte)
    (ht : TilesP obuf.size a nbuf.size ms) (hne : ms ≠ []) :
    ∃ st, applySeries obuf (writeMessages obuf nbuf ms) ⟨(ms.head hne).addOldStart, pre⟩ = .ok (st, []) ∧
      st.out = pre ++ (nbuf.toList.drop a) := by
  induction ms generalizing a pre with
  | nil => exact absurd rfl hne
  | cons m ms ih =>
    obtain ⟨h1, h2, h3, h4, h5⟩ := ht
    have hc := fun seek => applyCtrl_match obuf nbuf m pre seek h2 h3 h4
    simp only [Match.copyStart] at h3
    cases ms with
    | nil =>
      have h5 : m.copyEnd = nbuf.size := h5
      simp only [writeMessages, applySeries, List.head_cons, hc]
      refine ⟨_, rfl, ?_⟩
      simp only []
      rw [h1, List.take_of_length_le (by simp; omega)]
    | cons m' ms' =>
      obtain ⟨st, e1, e2⟩ := ih m.copyEnd
        (pre ++ (nbuf.toList.drop m.addNewStart).take (m.copyEnd - m.addNewStart)) h5 (by simp)
      refine ⟨st, ?_, ?_⟩
      · simp only [writeMessages, applySeries, List.head_cons, hc]
        simp only [List.head_cons] at e1
        rw [← e1]
        congr 2
        omega
      · rw [e2, List.append_assoc, h1, take_drop_append_drop _ _ _ (by omega)]

/-! ### all blocks -/

theorem writeMessages_getLast (obuf nbuf : Bytes) (ms : List Match) :
    (writeMessages obuf nbuf ms).getLast? = some .eof := by
  fun_induction writeMessages obuf nbuf ms with
  | case1 => rfl
  | case2 => rfl
  | case3 m m' ms ih => rw [List.getLast?_cons, ih]; rfl

theorem head?_append_of_tiles {N a b : Nat} {ms rest : List Match} (h : TilesP N a b ms) (hab : a < b)
    (hh : ∀ m, ms.head? = some m → m.addOldStart = 0) :
    ∀ m, (ms ++ rest).head? = some m → m.addOldStart = 0 := by
  cases ms with
  | nil => have : a = b := h; omega
  | cons x xs => exact hh

theorem allMatches_spec (obuf nbuf : Bytes) (searchFor : Nat → Nat → Nat → Nat × Nat) (bs : Nat)
    (hs : ∀ boundary len, SearchOKP obuf.size len (searchFor boundary len)) (nb boundary : Nat)
    (h1 : nb * bs < nbuf.size - boundary) (h2 : nbuf.size - boundary ≤ (nb + 1) * bs) :
    ∃ ms, allMatches obuf nbuf searchFor bs (nb + 1) boundary = some ms ∧
      TilesP obuf.size boundary nbuf.size ms ∧ ∀ m, ms.head? = some m → m.addOldStart = 0 := by
  induction nb generalizing boundary with
  | zero =>
    have hsz : (nbuf.extract boundary (boundary + (nbuf.size - boundary))).size = nbuf.size - boundary := by
      rw [Array.size_extract]; omega
    have hs' : SearchOKP obuf.size (nbuf.extract boundary (boundary + (nbuf.size - boundary))).size
        (searchFor boundary (nbuf.size - boundary)) := by rw [hsz]; exact hs _ _
    obtain ⟨ms, e, ht, hh⟩ := analyzeBlock_spec obuf _ _ boundary hs'
    refine ⟨ms, ?_, ?_, hh⟩
    · simp only [allMatches, if_true, e, List.append_nil]
    · rw [hsz, show boundary + (nbuf.size - boundary) = nbuf.size by omega] at ht
      exact ht
  | succ k ih =>
    rw [Nat.succ_mul] at h1 h2
    rw [Nat.succ_mul] at h2
    have hbs : 0 < bs := by
      rcases Nat.eq_zero_or_pos bs with h | h
      · subst h; simp at h1 h2; omega
      · exact h
    have hsz : (nbuf.extract boundary (boundary + bs)).size = bs := by
      rw [Array.size_extract]; omega
    have hs' : SearchOKP obuf.size (nbuf.extract boundary (boundary + bs)).size
        (searchFor boundary bs) := by rw [hsz]; exact hs _ _
    obtain ⟨ms, e, ht, hh⟩ := analyzeBlock_spec obuf _ _ boundary hs'
    obtain ⟨rest, e', ht', _⟩ := ih (boundary + bs) (by omega) (by rw [Nat.succ_mul]; omega)
    rw [hsz] at ht
    refine ⟨ms ++ rest, ?_, ht.append ht', head?_append_of_tiles ht (by omega) hh⟩
    rw [allMatches]
    simp only [Nat.add_one_ne_zero, if_false, e, e']

/-! ### block plan and the whole differ -/

theorem blockPlan_props (scanBlock : Nat) (hsb : 0 < scanBlock) (partitions obuflen nbuflen : Nat) :
    0 < (blockPlan scanBlock partitions obuflen nbuflen).2.1 ∧
    (blockPlan scanBlock partitions obuflen nbuflen).2.2 =
      (nbuflen + (blockPlan scanBlock partitions obuflen nbuflen).2.1 - 1) /
        (blockPlan scanBlock partitions obuflen nbuflen).2.1 := by
  unfold blockPlan
  simp only []
  generalize (if partitions = 0 ∨ partitions + 1 ≥ obuflen then 1 else partitions) = p
  by_cases h : (nbuflen + scanBlock - 1) / scanBlock < p
  · simp only [h, if_true]
    refine ⟨?_, trivial⟩
    split <;> omega
  · simp only [h, if_false]
    exact ⟨hsb, trivial⟩

theorem ceil_div_bounds (n bs : Nat) (hn : 0 < n) (hbs : 0 < bs) :
    ∃ k, (n + bs - 1) / bs = k + 1 ∧ k * bs < n ∧ n ≤ (k + 1) * bs := by
  have h1 : (n + bs - 1) / bs * bs ≤ n + bs - 1 := Nat.div_mul_le_self _ _
  have h2 : n + bs - 1 < bs * ((n + bs - 1) / bs + 1) := Nat.lt_mul_div_succ _ hbs
  have h3 : 0 < (n + bs - 1) / bs := Nat.div_pos (by omega) hbs
  generalize (n + bs - 1) / bs = q at h1 h2 h3
  obtain ⟨k, rfl⟩ : ∃ k, q = k + 1 := ⟨q - 1, by omega⟩
  refine ⟨k, rfl, ?_, ?_⟩
  · rw [Nat.succ_mul] at h1; omega
  · rw [Nat.mul_comm] at h2
    rw [Nat.succ_mul] at h2 ⊢
    rw [Nat.succ_mul] at h2
    omega

theorem roundtripP (scanBlock : Nat) (hsb : 0 < scanBlock) (partitions : Nat) (obuf nbuf : Bytes)
    (searchFor : Nat → Nat → Nat → Nat × Nat)
    (hs : ∀ boundary len, SearchOKP obuf.size len (searchFor boundary len)) :
    ∃ cs st, diff scanBlock partitions obuf nbuf searchFor = .ok cs ∧
      cs.getLast? = some .eof ∧
      applySeries obuf cs ⟨0, []⟩ = .ok (st, []) ∧ st.out = nbuf.toList := by
  unfold diff
  split
  · rename_i h0
    refine ⟨[.eof], ⟨0, []⟩, rfl, rfl, rfl, ?_⟩
    have : nbuf.toList.length = 0 := by simpa using h0
    exact (List.eq_nil_of_length_eq_zero this).symm
  · rename_i h0
    have ⟨hb1, hb2⟩ := blockPlan_props scanBlock hsb partitions obuf.size nbuf.size
    generalize blockPlan scanBlock partitions obuf.size nbuf.size = bp at hb1 hb2 ⊢
    obtain ⟨p, bs, nb⟩ := bp
    simp only [] at hb1 hb2 ⊢
    obtain ⟨k, hk, hk1, hk2⟩ := ceil_div_bounds nbuf.size bs (by omega) hb1
    rw [hk] at hb2
    subst hb2
    obtain ⟨ms, e, ht, hh⟩ := allMatches_spec obuf nbuf searchFor bs hs k 0 (by omega) (by omega)
    simp only [e]
    have hne : ms ≠ [] := by
      intro h
      subst h
      have : 0 = nbuf.size := ht
      omega
    obtain ⟨st, e1, e2⟩ := apply_writeMessagesP obuf nbuf ms 0 [] ht hne
    have h0' : (ms.head hne).addOldStart = 0 := hh _ (List.head?_eq_some_head hne)
    rw [h0'] at e1
    exact ⟨_, st, rfl, writeMessages_getLast _ _ _, e1, by simpa using e2⟩

/-! ### resuming in the middle of a series -/

theorem applySeries_resume (obuf : Bytes) (cs₁ cs₂ : List Ctrl) (st : PState) (h : Ctrl.eof ∉ cs₁) :
    applySeries obuf (cs₁ ++ cs₂) st =
      (match applySeries obuf (cs₁ ++ [.eof]) st with
       | .ok (st', _) => applySeries obuf cs₂ st'
       | .err e => .err e
       | .panic p => .panic p) := by
  induction cs₁ generalizing st with
  | nil => simp only [List.nil_append, applySeries]
  | cons c cs ih =>
    have h' : Ctrl.eof ∉ cs := fun hm => h (List.mem_cons_of_mem _ hm)
    cases c with
    | eof => exact absurd List.mem_cons_self h
    | op a cp s =>
      simp only [List.cons_append, applySeries]
      cases applyCtrl obuf st a cp s with
      | ok st' => exact ih st' h'
      | err e => rfl
      | panic p => rfl

/-! ### the concrete example (kernel reduction cannot unfold `mergeSort`, so the suffix array of the
    already sorted input is computed with `mergeSort_of_pairwise`) -/

theorem suffixArray_example : suffixArray #[1, 2, 3, 4, 5, 6] 0 6 = #[0, 1, 2, 3, 4, 5] := by
  unfold suffixArray
  rw [List.mergeSort_of_pairwise (by decide +kernel)]
  decide +kernel

theorem mkPSA_example : mkPSA #[1, 2, 3, 4, 5, 6] 1 = ⟨#[(0, 6)], #[#[0, 1, 2, 3, 4, 5]]⟩ := by
  have h : mkPSA #[1, 2, 3, 4, 5, 6] 1 = ⟨#[(0, 6)], #[suffixArray #[1, 2, 3, 4, 5, 6] 0 6]⟩ := by
    have hr : Array.range 1 = #[0] := by decide +kernel
    unfold mkPSA
    simp only [hr]
    simp
  rw [h, suffixArray_example]

theorem diffExec_example :
    diffExec 4 0 #[1, 2, 3, 4, 5, 6] #[1, 2, 9, 4, 5, 6, 7] =
      diff 4 0 #[1, 2, 3, 4, 5, 6] #[1, 2, 9, 4, 5, 6, 7] (fun boundary len scan =>
        psaSearch #[1, 2, 3, 4, 5, 6] ⟨#[(0, 6)], #[#[0, 1, 2, 3, 4, 5]]⟩ #[1, 2, 9, 4, 5, 6, 7]
          (boundary + len) (boundary + scan)) := by
  unfold diffExec
  simp only [true_or, if_true, mkPSA_example]

end Wharf.Bsdiff
