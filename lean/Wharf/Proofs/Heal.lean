/-
  Helper lemmas for C06 (healing): how `processWounds` treats healthy markers and how it builds the queue of
  files to rewrite.
-/
import Wharf.Model.Heal
import Wharf.Proofs.TreeValidate

namespace Wharf.Heal
open Wharf Wharf.FS Wharf.Validate Wharf.TreeValidate

/-- A list of healthy markers only is skipped: no filesystem operation, nothing queued. -/
theorem processWounds_allClosed (s : Signed) (ws : List Wound) :
    ∀ (t : Tree) (q : List Nat), (∀ w ∈ ws, w.kind = .closedFile) → processWounds s ws t q = .ok (t, q) := by
  induction ws with
  | nil => intro t q _; rfl
  | cons w ws ih =>
    intro t q h
    have hk : w.kind = .closedFile := h w (List.mem_cons_self ..)
    rw [processWounds]
    simp only [hk]
    exact ih t q (fun w' hw' => h w' (List.mem_cons_of_mem _ hw'))

/-! ### the queue step (`enqueue` is part of the model: Model/Heal.lean) -/

theorem enqueue_nodup (q : List Nat) (i : Nat) (h : q.Nodup) : (enqueue q i).Nodup := by
  unfold enqueue
  by_cases hc : q.contains i = true
  · rw [if_pos hc]; exact h
  · rw [if_neg hc]
    have hni : i ∉ q := fun hm => hc (List.contains_iff_mem.mpr hm)
    rw [List.nodup_append]
    refine ⟨h, (by simp), ?_⟩
    intro a ha b hb
    rw [List.mem_singleton] at hb
    subst hb
    intro hab
    subst hab
    exact hni ha

theorem mem_enqueue (q : List Nat) (i j : Nat) : j ∈ enqueue q i ↔ j ∈ q ∨ j = i := by
  unfold enqueue
  by_cases hc : q.contains i = true
  · rw [if_pos hc]
    have hi : i ∈ q := List.contains_iff_mem.mp hc
    constructor
    · exact .inl
    · rintro (h | rfl)
      · exact h
      · exact hi
  · rw [if_neg hc, List.mem_append, List.mem_singleton]

theorem enqueue_prefix (q : List Nat) (i : Nat) : ∃ r, enqueue q i = q ++ r := by
  unfold enqueue
  by_cases hc : q.contains i = true
  · exact ⟨[], by rw [if_pos hc, List.append_nil]⟩
  · exact ⟨[i], by rw [if_neg hc]⟩

/-! ### what a directory wound may add to the queue (`healBelow`, third loop) -/

/-- `q'` is `q` followed by new, pairwise distinct indices of signed files that lie below `p`. -/
def QExt (s : Signed) (p : Path) (q q' : List Nat) : Prop :=
  ∃ r, q' = q ++ r ∧ r.Nodup ∧ ∀ i ∈ r, i ∉ q ∧ ∃ e, s.files[i]? = some e ∧ isPrefix p e.1 = true

theorem QExt.refl (s : Signed) (p : Path) (q : List Nat) : QExt s p q q :=
  ⟨[], (List.append_nil _).symm, List.nodup_nil, fun _ h => by cases h⟩

theorem QExt.trans {s : Signed} {p : Path} {q₁ q₂ q₃ : List Nat} (a : QExt s p q₁ q₂) (b : QExt s p q₂ q₃) :
    QExt s p q₁ q₃ := by
  obtain ⟨r₁, rfl, hn₁, h₁⟩ := a
  obtain ⟨r₂, rfl, hn₂, h₂⟩ := b
  refine ⟨r₁ ++ r₂, by rw [List.append_assoc], ?_, ?_⟩
  · rw [List.nodup_append]
    refine ⟨hn₁, hn₂, ?_⟩
    intro a ha b hb hab
    subst hab
    exact (h₂ a hb).1 (List.mem_append_right _ ha)
  · intro i hi
    rcases List.mem_append.mp hi with hi | hi
    · exact h₁ i hi
    · exact ⟨fun h => (h₂ i hi).1 (List.mem_append_left _ h), (h₂ i hi).2⟩

theorem isPrefix_trans' {p d x : Path} (h₁ : isPrefix p d = true) (h₂ : isPrefix d x = true) :
    isPrefix p x = true := by
  simp only [isPrefix, Bool.and_eq_true, decide_eq_true_eq, beq_iff_eq] at h₁ h₂ ⊢
  refine ⟨by omega, ?_⟩
  have : List.take p.length x = List.take p.length (List.take d.length x) := by
    rw [List.take_take, Nat.min_eq_left (by omega)]
  rw [this, h₂.2, h₁.2]

/-- what is below a directory below `p` is below `p` -/
theorem QExt.weaken {s : Signed} {p d : Path} {q q' : List Nat} (hd : isPrefix p d = true)
    (a : QExt s d q q') : QExt s p q q' := by
  obtain ⟨r, rfl, hn, h⟩ := a
  refine ⟨r, rfl, hn, fun i hi => ⟨(h i hi).1, ?_⟩⟩
  obtain ⟨e, he, hpe⟩ := (h i hi).2
  exact ⟨e, he, isPrefix_trans' hd hpe⟩

theorem QExt.enqueue {s : Signed} {p : Path} (q : List Nat) {i : Nat} {e : Path × List Byte}
    (he : s.files[i]? = some e) (hp : isPrefix p e.1 = true) : QExt s p q (enqueue q i) := by
  unfold Heal.enqueue
  by_cases hc : q.contains i = true
  · rw [if_pos hc]; exact QExt.refl s p q
  · rw [if_neg hc]
    have hni : i ∉ q := fun hm => hc (List.contains_iff_mem.mpr hm)
    refine ⟨[i], rfl, by simp, ?_⟩
    intro j hj
    rw [List.mem_singleton] at hj
    subst hj
    exact ⟨hni, e, he, hp⟩

theorem QExt.nodup {s : Signed} {p : Path} {q q' : List Nat} (a : QExt s p q q') (h : q.Nodup) : q'.Nodup := by
  obtain ⟨r, rfl, hn, hr⟩ := a
  rw [List.nodup_append]
  refine ⟨h, hn, ?_⟩
  intro a ha b hb hab
  subst hab
  exact (hr a hb).1 ha

theorem QExt.mem {s : Signed} {p : Path} {q q' : List Nat} (a : QExt s p q q') {i : Nat} (hi : i ∈ q') :
    i ∈ q ∨ ∃ e, s.files[i]? = some e ∧ isPrefix p e.1 = true := by
  obtain ⟨r, rfl, _, hr⟩ := a
  rcases List.mem_append.mp hi with hi | hi
  · exact .inl hi
  · exact .inr (hr i hi).2

theorem QExt.sub {s : Signed} {p : Path} {q q' : List Nat} (a : QExt s p q q') {i : Nat} (hi : i ∈ q) :
    i ∈ q' := by
  obtain ⟨r, rfl, _, _⟩ := a
  exact List.mem_append_left _ hi

/-- a duplicate-free list of numbers below `n` has at most `n` elements -/
theorem nodup_bounded_length : ∀ (n : Nat) (l : List Nat), l.Nodup → (∀ i ∈ l, i < n) → l.length ≤ n := by
  intro n
  induction n with
  | zero =>
    intro l _ h
    cases l with
    | nil => exact Nat.le_refl _
    | cons a l => exact absurd (h a (by simp)) (Nat.not_lt_zero _)
  | succ n ih =>
    intro l hnd hlt
    have h1 : (l.erase n).Nodup := hnd.erase n
    have h2 : ∀ i ∈ l.erase n, i < n := by
      intro i hi
      have hm := (List.Nodup.mem_erase_iff hnd).mp hi
      have := hlt i hm.2
      have hne := hm.1
      omega
    have h3 := ih _ h1 h2
    rw [List.length_erase] at h3
    split at h3 <;> omega

/-- a directory wound lengthens the queue by at most the number of signed files -/
theorem QExt.length_le {s : Signed} {p : Path} {q q' : List Nat} (a : QExt s p q q') :
    q.length ≤ q'.length ∧ q'.length ≤ q.length + s.files.length := by
  obtain ⟨r, rfl, hn, hr⟩ := a
  have := nodup_bounded_length s.files.length r hn (by
    intro i hi
    obtain ⟨e, he, _⟩ := (hr i hi).2
    exact (List.getElem?_eq_some_iff.mp he).1)
  simp only [List.length_append]
  omega

theorem queueFilesBelow_ext (s : Signed) (p : Path) : ∀ (fs : List (Path × List Byte)) (i : Nat) (q : List Nat),
    (∀ k, fs[k]? = s.files[i + k]?) → QExt s p q (queueFilesBelow p i fs q) := by
  intro fs
  induction fs with
  | nil => intro i q _; exact QExt.refl s p q
  | cons f fs ih =>
    intro i q hfs
    obtain ⟨fp, fd⟩ := f
    simp only [queueFilesBelow]
    have hi : s.files[i]? = some (fp, fd) := by simpa using (hfs 0).symm
    have htl : ∀ k, fs[k]? = s.files[i + 1 + k]? := by
      intro k
      have := hfs (k + 1)
      simp only [List.getElem?_cons_succ] at this
      rw [this]; congr 1; omega
    by_cases hb : isPrefix p fp = true
    · rw [if_pos hb]
      exact (QExt.enqueue q hi hb).trans (ih (i + 1) _ htl)
    · rw [if_neg hb]
      exact ih (i + 1) q htl

/-- every signed file below `p` is in the queue after the third loop of `healBelow(p)` -/
theorem mem_queueFilesBelow (p : Path) : ∀ (fs : List (Path × List Byte)) (i : Nat) (q : List Nat) (j : Nat),
    (j ∈ q ∨ ∃ k e, fs[k]? = some e ∧ j = i + k ∧ isPrefix p e.1 = true) → j ∈ queueFilesBelow p i fs q := by
  intro fs
  induction fs with
  | nil =>
    intro i q j h
    rcases h with h | ⟨k, e, hk, _⟩
    · exact h
    · simp at hk
  | cons f fs ih =>
    intro i q j h
    obtain ⟨fp, fd⟩ := f
    simp only [queueFilesBelow]
    apply ih
    rcases h with h | ⟨k, e, hk, hj, hb⟩
    · left
      split
      · exact (mem_enqueue _ _ _).mpr (.inl h)
      · exact h
    · cases k with
      | zero =>
        simp only [List.getElem?_cons_zero, Option.some.injEq] at hk
        subst hk
        left
        rw [if_pos hb]
        exact (mem_enqueue _ _ _).mpr (.inr (by omega))
      | succ k =>
        right
        exact ⟨k, e, by simpa using hk, by omega, hb⟩

theorem healDirsBelow_ext {s : Signed} {p : Path}
    {dirWound : Tree → List Nat → Path → Except Err (Tree × List Nat)}
    (hrec : ∀ t q d t' q', isPrefix p d = true → dirWound t q d = .ok (t', q') → QExt s p q q') :
    ∀ (ds : List Path) (t : Tree) (q : List Nat) (t' : Tree) (q' : List Nat),
      healDirsBelow dirWound p ds t q = .ok (t', q') → QExt s p q q' := by
  intro ds
  induction ds with
  | nil =>
    intro t q t' q' h
    simp only [healDirsBelow, Except.ok.injEq, Prod.mk.injEq] at h
    rw [← h.2]; exact QExt.refl s p q
  | cons d ds ih =>
    intro t q t' q' h
    simp only [healDirsBelow] at h
    by_cases hb : isPrefix p d = true
    · rw [if_pos hb] at h
      cases hr : dirWound t q d with
      | error e => simp [hr] at h
      | ok r =>
        obtain ⟨t₁, q₁⟩ := r
        simp only [hr] at h
        exact (hrec t q d t₁ q₁ hb hr).trans (ih t₁ q₁ t' q' h)
    · rw [if_neg hb] at h
      exact ih t q t' q' h

/-- A directory wound leaves the queue as it is or appends new indices of signed files below its directory. -/
theorem healDir_ext (s : Signed) : ∀ (n : Nat) (t : Tree) (q : List Nat) (p : Path) (t' : Tree) (q' : List Nat),
    healDir s n t q p = .ok (t', q') → QExt s p q q' := by
  intro n
  induction n with
  | zero => intro t q p t' q' h; simp [healDir] at h
  | succ n ih =>
    intro t q p t' q' h
    simp only [healDir] at h
    split at h
    · simp only [Except.ok.injEq, Prod.mk.injEq] at h
      rw [← h.2]; exact QExt.refl s p q
    · split at h
      · cases h
      · split at h
        · cases h
        · split at h
          · cases h
          · next t₃ q₃ hd =>
            split at h
            · cases h
            · simp only [Except.ok.injEq, Prod.mk.injEq] at h
              rw [← h.2]
              have h1 : QExt s p q q₃ :=
                healDirsBelow_ext (fun t q d t' q' hb hr => (ih t q d t' q' hr).weaken hb) s.dirs _ q _ q₃ hd
              exact h1.trans (queueFilesBelow_ext s p s.files 0 q₃ (by intro k; simp))
    · split at h
      · cases h
      · simp only [Except.ok.injEq, Prod.mk.injEq] at h
        rw [← h.2]; exact QExt.refl s p q

/-- The queue built by `processWounds`, started from a duplicate-free queue `q₀`: `q₀` followed by new
    indices, duplicate-free; it holds the indices of `q₀` and of all file wounds, and besides these only
    files below a directory that had a directory wound (`healBelow`). -/
theorem processWounds_queue (s : Signed) (ws : List Wound) :
    ∀ (t t' : Tree) (q₀ q : List Nat), q₀.Nodup → processWounds s ws t q₀ = .ok (t', q) →
      q.Nodup ∧ (∃ r, q = q₀ ++ r) ∧
      (∀ i, (i ∈ q₀ ∨ ∃ w ∈ ws, w.kind = .file ∧ w.index = i) → i ∈ q) ∧
      (∀ i ∈ q, i ∈ q₀ ∨ (∃ w ∈ ws, w.kind = .file ∧ w.index = i) ∨
        ∃ w ∈ ws, w.kind = .dir ∧ ∃ p e, s.dirs[w.index]? = some p ∧ s.files[i]? = some e ∧
          isPrefix p e.1 = true) := by
  induction ws with
  | nil =>
    intro t t' q₀ q hq₀ h
    simp only [processWounds, Except.ok.injEq, Prod.mk.injEq] at h
    obtain ⟨_, rfl⟩ := h
    refine ⟨hq₀, ⟨[], (List.append_nil _).symm⟩, fun i hi => ?_, fun i hi => .inl hi⟩
    rcases hi with hi | ⟨w, hw, _⟩
    · exact hi
    · cases hw
  | cons w ws ih =>
    intro t t' q₀ q hq₀ h
    rw [processWounds] at h
    -- the tail's result, whatever tree and queue it is started from
    have tail : ∀ (t₁ : Tree) (q₁ : List Nat), q₁.Nodup → (∃ r, q₁ = q₀ ++ r) →
        (∀ i, (i ∈ q₀ ∨ (w.kind = .file ∧ w.index = i)) → i ∈ q₁) →
        (∀ i ∈ q₁, i ∈ q₀ ∨ (w.kind = .file ∧ w.index = i) ∨
          (w.kind = .dir ∧ ∃ p e, s.dirs[w.index]? = some p ∧ s.files[i]? = some e ∧ isPrefix p e.1 = true)) →
        processWounds s ws t₁ q₁ = .ok (t', q) →
        q.Nodup ∧ (∃ r, q = q₀ ++ r) ∧
          (∀ i, (i ∈ q₀ ∨ ∃ w' ∈ w :: ws, w'.kind = .file ∧ w'.index = i) → i ∈ q) ∧
          (∀ i ∈ q, i ∈ q₀ ∨ (∃ w' ∈ w :: ws, w'.kind = .file ∧ w'.index = i) ∨
            ∃ w' ∈ w :: ws, w'.kind = .dir ∧ ∃ p e, s.dirs[w'.index]? = some p ∧ s.files[i]? = some e ∧
              isPrefix p e.1 = true) := by
      intro t₁ q₁ hq₁ hpre hin hout h₁
      obtain ⟨hnd, ⟨r, hr⟩, hsub, hsup⟩ := ih t₁ t' q₁ q hq₁ h₁
      obtain ⟨r₁, hr₁⟩ := hpre
      refine ⟨hnd, ⟨r₁ ++ r, by rw [hr, hr₁, List.append_assoc]⟩, fun i hi => ?_, fun i hi => ?_⟩
      · rcases hi with hi | ⟨w', hw', hk, hidx⟩
        · exact hsub i (.inl (hin i (.inl hi)))
        · rcases List.mem_cons.mp hw' with rfl | hw'
          · exact hsub i (.inl (hin i (.inr ⟨hk, hidx⟩)))
          · exact hsub i (.inr ⟨w', hw', hk, hidx⟩)
      · rcases hsup i hi with h1 | ⟨w', hw', hk⟩ | ⟨w', hw', hk⟩
        · rcases hout i h1 with h2 | h2 | h2
          · exact .inl h2
          · exact .inr (.inl ⟨w, List.mem_cons_self .., h2⟩)
          · exact .inr (.inr ⟨w, List.mem_cons_self .., h2⟩)
        · exact .inr (.inl ⟨w', List.mem_cons_of_mem _ hw', hk⟩)
        · exact .inr (.inr ⟨w', List.mem_cons_of_mem _ hw', hk⟩)
    have same : ∀ (t₁ : Tree), w.kind ≠ .file → processWounds s ws t₁ q₀ = .ok (t', q) →
        q.Nodup ∧ (∃ r, q = q₀ ++ r) ∧
          (∀ i, (i ∈ q₀ ∨ ∃ w' ∈ w :: ws, w'.kind = .file ∧ w'.index = i) → i ∈ q) ∧
          (∀ i ∈ q, i ∈ q₀ ∨ (∃ w' ∈ w :: ws, w'.kind = .file ∧ w'.index = i) ∨
            ∃ w' ∈ w :: ws, w'.kind = .dir ∧ ∃ p e, s.dirs[w'.index]? = some p ∧ s.files[i]? = some e ∧
              isPrefix p e.1 = true) := by
      intro t₁ hk h₁
      refine tail t₁ q₀ hq₀ ⟨[], (List.append_nil _).symm⟩ (fun i hi => ?_) (fun i hi => .inl hi) h₁
      rcases hi with hi | ⟨hk', _⟩
      · exact hi
      · exact absurd hk' hk
    cases hk : w.kind with
    | dir =>
      simp only [hk] at h
      cases hp : s.dirs[w.index]? with
      | none => simp only [hp] at h; cases h
      | some p =>
        simp only [hp] at h
        cases ht : healDir s (healDepth s) t q₀ p with
        | error e => simp only [ht] at h; cases h
        | ok r =>
          obtain ⟨t₁, q₁⟩ := r
          simp only [ht] at h
          have hext := healDir_ext s _ t q₀ p t₁ q₁ ht
          obtain ⟨r, hr, _, _⟩ := id hext
          refine tail t₁ q₁ (hext.nodup hq₀) ⟨r, hr⟩ (fun i hi => ?_) (fun i hi => ?_) h
          · rcases hi with hi | ⟨hk', _⟩
            · exact hext.sub hi
            · rw [hk] at hk'; cases hk'
          · rcases hext.mem hi with h1 | ⟨e, he, hpe⟩
            · exact .inl h1
            · exact .inr (.inr ⟨hk, p, e, hp, he, hpe⟩)
    | symlink =>
      have hne : w.kind ≠ .file := by rw [hk]; intro h'; cases h'
      simp only [hk] at h
      cases hp : s.symlinks[w.index]? with
      | none => simp only [hp] at h; cases h
      | some pd =>
        obtain ⟨p, d⟩ := pd
        simp only [hp, bind, Except.bind] at h
        cases ht : healSymlink t p d with
        | error e => simp only [ht] at h; cases h
        | ok t₁ => simp only [ht] at h; exact same t₁ hne h
    | closedFile =>
      have hne : w.kind ≠ .file := by rw [hk]; intro h'; cases h'
      simp only [hk] at h
      exact same t hne h
    | file =>
      simp only [hk] at h
      refine tail t (enqueue q₀ w.index) (enqueue_nodup _ _ hq₀) (enqueue_prefix _ _) (fun i hi => ?_)
        (fun i hi => ?_) h
      · rw [mem_enqueue]
        rcases hi with hi | ⟨_, hi⟩
        · exact .inl hi
        · exact .inr hi.symm
      · rcases (mem_enqueue _ _ _).mp hi with h1 | h1
        · exact .inl h1
        · exact .inr (.inl ⟨hk, h1.symm⟩)

/-! ### the exact queue when no directory wound is reported: order of first appearance -/

/-- Indices of the file wounds, in the order the validator reported them. -/
def fileIdx (ws : List Wound) : List Nat := (ws.filter (fun w => w.kind == .file)).map (·.index)

theorem fileIdx_cons_file (w : Wound) (ws : List Wound) (h : w.kind = .file) :
    fileIdx (w :: ws) = w.index :: fileIdx ws := by
  simp [fileIdx, h]

theorem fileIdx_cons_other (w : Wound) (ws : List Wound) (h : w.kind ≠ .file) :
    fileIdx (w :: ws) = fileIdx ws := by
  simp [fileIdx, h]

/-- Without directory wounds the queue is obtained by enqueueing the file-wound indices one after the other. -/
theorem processWounds_queue_foldl (s : Signed) (ws : List Wound) :
    ∀ (t t' : Tree) (q₀ q : List Nat), (∀ w ∈ ws, w.kind ≠ .dir) → processWounds s ws t q₀ = .ok (t', q) →
      q = (fileIdx ws).foldl enqueue q₀ := by
  induction ws with
  | nil =>
    intro t t' q₀ q _ h
    simp only [processWounds, Except.ok.injEq, Prod.mk.injEq] at h
    exact h.2.symm
  | cons w ws ih =>
    intro t t' q₀ q hnd h
    have hnd' : ∀ w' ∈ ws, w'.kind ≠ .dir := fun w' hw' => hnd w' (List.mem_cons_of_mem _ hw')
    rw [processWounds] at h
    cases hk : w.kind with
    | dir => exact absurd hk (hnd w (List.mem_cons_self ..))
    | symlink =>
      have hne : w.kind ≠ .file := by rw [hk]; intro h'; cases h'
      rw [fileIdx_cons_other w ws hne]
      simp only [hk] at h
      cases hp : s.symlinks[w.index]? with
      | none => simp only [hp] at h; cases h
      | some pd =>
        obtain ⟨p, d⟩ := pd
        simp only [hp, bind, Except.bind] at h
        cases ht : healSymlink t p d with
        | error e => simp only [ht] at h; cases h
        | ok t₁ => simp only [ht] at h; exact ih t₁ t' q₀ q hnd' h
    | closedFile =>
      have hne : w.kind ≠ .file := by rw [hk]; intro h'; cases h'
      rw [fileIdx_cons_other w ws hne]
      simp only [hk] at h
      exact ih t t' q₀ q hnd' h
    | file =>
      rw [fileIdx_cons_file w ws hk, List.foldl_cons]
      simp only [hk] at h
      exact ih t t' (enqueue q₀ w.index) q hnd' h

/-- Enqueueing a list of indices one after the other keeps the first occurrence of each new index. -/
theorem foldl_enqueue (l : List Nat) : ∀ q₀ : List Nat,
    l.foldl enqueue q₀ = q₀ ++ (l.filter (fun i => !q₀.contains i)).eraseDups := by
  induction l with
  | nil => intro q₀; simp
  | cons a l ih =>
    intro q₀
    rw [List.foldl_cons, ih]
    unfold enqueue
    by_cases hc : q₀.contains a = true
    · rw [if_pos hc, List.filter_cons]
      simp only [hc, Bool.not_true, Bool.false_eq_true, if_false]
    · rw [if_neg hc, List.filter_cons]
      have hc' : q₀.contains a = false := by simpa using hc
      simp only [hc', Bool.not_false, if_true, List.eraseDups_cons, List.filter_filter, List.append_assoc,
        List.singleton_append]
      congr 3
      apply List.filter_congr
      intro x _
      by_cases hxa : x = a <;> simp [hxa]

end Wharf.Heal
