/-
  Helper lemmas for C06 (healing): how `processWounds` treats healthy markers and how it builds the queue of
  files to rewrite.
-/
import Wharf.Model.Heal
import Wharf.Proofs.TreeValidate

namespace Wharf.Heal
open Wharf Wharf.FS Wharf.Validate Wharf.TreeValidate

/-- A list of healthy markers only is skipped: no filesystem operation, nothing queued. -/
theorem processWounds_allClosed (s : Signed) (ws : List Wound) :
    ∀ (t : Tree) (q : List Nat), (∀ w ∈ ws, w.kind = .closedFile) → processWounds s ws t q = .ok (t, q) := by
  induction ws with
  | nil => intro t q _; rfl
  | cons w ws ih =>
    intro t q h
    have hk : w.kind = .closedFile := h w (List.mem_cons_self ..)
    rw [processWounds]
    simp only [hk]
    exact ih t q (fun w' hw' => h w' (List.mem_cons_of_mem _ hw'))

/-- The queue step for one file wound: append the index unless it is already queued. -/
def enqueue (q : List Nat) (i : Nat) : List Nat := if q.contains i then q else q ++ [i]

theorem enqueue_nodup (q : List Nat) (i : Nat) (h : q.Nodup) : (enqueue q i).Nodup := by
  unfold enqueue
  by_cases hc : q.contains i = true
  · rw [if_pos hc]; exact h
  · rw [if_neg hc]
    have hni : i ∉ q := fun hm => hc (List.contains_iff_mem.mpr hm)
    rw [List.nodup_append]
    refine ⟨h, (by simp), ?_⟩
    intro a ha b hb
    rw [List.mem_singleton] at hb
    subst hb
    intro hab
    subst hab
    exact hni ha

theorem mem_enqueue (q : List Nat) (i j : Nat) : j ∈ enqueue q i ↔ j ∈ q ∨ j = i := by
  unfold enqueue
  by_cases hc : q.contains i = true
  · rw [if_pos hc]
    have hi : i ∈ q := List.contains_iff_mem.mp hc
    constructor
    · exact .inl
    · rintro (h | rfl)
      · exact h
      · exact hi
  · rw [if_neg hc, List.mem_append, List.mem_singleton]

theorem enqueue_prefix (q : List Nat) (i : Nat) : ∃ r, enqueue q i = q ++ r := by
  unfold enqueue
  by_cases hc : q.contains i = true
  · exact ⟨[], by rw [if_pos hc, List.append_nil]⟩
  · exact ⟨[i], by rw [if_neg hc]⟩

/-- The queue built by `processWounds`, started from a duplicate-free queue `q₀`: `q₀` followed by new
    indices, duplicate-free, holding exactly the indices of `q₀` and of the file wounds. -/
theorem processWounds_queue (s : Signed) (ws : List Wound) :
    ∀ (t t' : Tree) (q₀ q : List Nat), q₀.Nodup → processWounds s ws t q₀ = .ok (t', q) →
      q.Nodup ∧ (∃ r, q = q₀ ++ r) ∧
      ∀ i, i ∈ q ↔ i ∈ q₀ ∨ ∃ w ∈ ws, w.kind = .file ∧ w.index = i := by
  induction ws with
  | nil =>
    intro t t' q₀ q hq₀ h
    simp only [processWounds, Except.ok.injEq, Prod.mk.injEq] at h
    obtain ⟨_, rfl⟩ := h
    refine ⟨hq₀, ⟨[], (List.append_nil _).symm⟩, fun i => ?_⟩
    simp only [List.not_mem_nil, false_and, exists_false, or_false]
  | cons w ws ih =>
    intro t t' q₀ q hq₀ h
    rw [processWounds] at h
    -- the tail's result, whatever tree and queue it is started from
    have tail : ∀ (t₁ : Tree) (q₁ : List Nat), q₁.Nodup → (∃ r, q₁ = q₀ ++ r) →
        (∀ i, i ∈ q₁ ↔ i ∈ q₀ ∨ (w.kind = .file ∧ w.index = i)) →
        processWounds s ws t₁ q₁ = .ok (t', q) →
        q.Nodup ∧ (∃ r, q = q₀ ++ r) ∧
          ∀ i, i ∈ q ↔ i ∈ q₀ ∨ ∃ w' ∈ w :: ws, w'.kind = .file ∧ w'.index = i := by
      intro t₁ q₁ hq₁ hpre hmem h₁
      obtain ⟨hnd, ⟨r, hr⟩, hiff⟩ := ih t₁ t' q₁ q hq₁ h₁
      obtain ⟨r₁, hr₁⟩ := hpre
      refine ⟨hnd, ⟨r₁ ++ r, by rw [hr, hr₁, List.append_assoc]⟩, fun i => ?_⟩
      rw [hiff i, hmem i]
      simp only [List.mem_cons, exists_eq_or_imp]
      constructor
      · rintro ((h | h) | h)
        · exact .inl h
        · exact .inr (.inl h)
        · exact .inr (.inr h)
      · rintro (h | h | h)
        · exact .inl (.inl h)
        · exact .inl (.inr h)
        · exact .inr h
    have same : ∀ (t₁ : Tree), w.kind ≠ .file → processWounds s ws t₁ q₀ = .ok (t', q) →
        q.Nodup ∧ (∃ r, q = q₀ ++ r) ∧
          ∀ i, i ∈ q ↔ i ∈ q₀ ∨ ∃ w' ∈ w :: ws, w'.kind = .file ∧ w'.index = i := by
      intro t₁ hk h₁
      refine tail t₁ q₀ hq₀ ⟨[], (List.append_nil _).symm⟩ (fun i => ?_) h₁
      constructor
      · exact .inl
      · rintro (h | ⟨h, _⟩)
        · exact h
        · exact absurd h hk
    cases hk : w.kind with
    | dir =>
      have hne : w.kind ≠ .file := by rw [hk]; intro h'; cases h'
      simp only [hk] at h
      cases hp : s.dirs[w.index]? with
      | none => simp only [hp] at h; cases h
      | some p =>
        simp only [hp, bind, Except.bind] at h
        cases ht : healDir t p with
        | error e => simp only [ht] at h; cases h
        | ok t₁ => simp only [ht] at h; exact same t₁ hne h
    | symlink =>
      have hne : w.kind ≠ .file := by rw [hk]; intro h'; cases h'
      simp only [hk] at h
      cases hp : s.symlinks[w.index]? with
      | none => simp only [hp] at h; cases h
      | some pd =>
        obtain ⟨p, d⟩ := pd
        simp only [hp, bind, Except.bind] at h
        cases ht : healSymlink t p d with
        | error e => simp only [ht] at h; cases h
        | ok t₁ => simp only [ht] at h; exact same t₁ hne h
    | closedFile =>
      have hne : w.kind ≠ .file := by rw [hk]; intro h'; cases h'
      simp only [hk] at h
      exact same t hne h
    | file =>
      simp only [hk] at h
      refine tail t (enqueue q₀ w.index) (enqueue_nodup _ _ hq₀) (enqueue_prefix _ _) (fun i => ?_) h
      rw [mem_enqueue]
      constructor
      · rintro (h | h)
        · exact .inl h
        · exact .inr ⟨hk, h.symm⟩
      · rintro (h | ⟨_, h⟩)
        · exact .inl h
        · exact .inr h.symm

/-! ### the exact queue: order of first appearance -/

/-- Indices of the file wounds, in the order the validator reported them. -/
def fileIdx (ws : List Wound) : List Nat := (ws.filter (fun w => w.kind == .file)).map (·.index)

theorem fileIdx_cons_file (w : Wound) (ws : List Wound) (h : w.kind = .file) :
    fileIdx (w :: ws) = w.index :: fileIdx ws := by
  simp [fileIdx, h]

theorem fileIdx_cons_other (w : Wound) (ws : List Wound) (h : w.kind ≠ .file) :
    fileIdx (w :: ws) = fileIdx ws := by
  simp [fileIdx, h]

/-- The queue is obtained by enqueueing the file-wound indices one after the other. -/
theorem processWounds_queue_foldl (s : Signed) (ws : List Wound) :
    ∀ (t t' : Tree) (q₀ q : List Nat), processWounds s ws t q₀ = .ok (t', q) →
      q = (fileIdx ws).foldl enqueue q₀ := by
  induction ws with
  | nil =>
    intro t t' q₀ q h
    simp only [processWounds, Except.ok.injEq, Prod.mk.injEq] at h
    exact h.2.symm
  | cons w ws ih =>
    intro t t' q₀ q h
    rw [processWounds] at h
    cases hk : w.kind with
    | dir =>
      have hne : w.kind ≠ .file := by rw [hk]; intro h'; cases h'
      rw [fileIdx_cons_other w ws hne]
      simp only [hk] at h
      cases hp : s.dirs[w.index]? with
      | none => simp only [hp] at h; cases h
      | some p =>
        simp only [hp, bind, Except.bind] at h
        cases ht : healDir t p with
        | error e => simp only [ht] at h; cases h
        | ok t₁ => simp only [ht] at h; exact ih t₁ t' q₀ q h
    | symlink =>
      have hne : w.kind ≠ .file := by rw [hk]; intro h'; cases h'
      rw [fileIdx_cons_other w ws hne]
      simp only [hk] at h
      cases hp : s.symlinks[w.index]? with
      | none => simp only [hp] at h; cases h
      | some pd =>
        obtain ⟨p, d⟩ := pd
        simp only [hp, bind, Except.bind] at h
        cases ht : healSymlink t p d with
        | error e => simp only [ht] at h; cases h
        | ok t₁ => simp only [ht] at h; exact ih t₁ t' q₀ q h
    | closedFile =>
      have hne : w.kind ≠ .file := by rw [hk]; intro h'; cases h'
      rw [fileIdx_cons_other w ws hne]
      simp only [hk] at h
      exact ih t t' q₀ q h
    | file =>
      rw [fileIdx_cons_file w ws hk, List.foldl_cons]
      simp only [hk] at h
      exact ih t t' (enqueue q₀ w.index) q h

/-- Enqueueing a list of indices one after the other keeps the first occurrence of each new index. -/
theorem foldl_enqueue (l : List Nat) : ∀ q₀ : List Nat,
    l.foldl enqueue q₀ = q₀ ++ (l.filter (fun i => !q₀.contains i)).eraseDups := by
  induction l with
  | nil => intro q₀; simp
  | cons a l ih =>
    intro q₀
    rw [List.foldl_cons, ih]
    unfold enqueue
    by_cases hc : q₀.contains a = true
    · rw [if_pos hc, List.filter_cons]
      simp only [hc, Bool.not_true, Bool.false_eq_true, if_false]
    · rw [if_neg hc, List.filter_cons]
      have hc' : q₀.contains a = false := by simpa using hc
      simp only [hc', Bool.not_false, if_true, List.eraseDups_cons, List.filter_filter, List.append_assoc,
        List.singleton_append]
      congr 3
      apply List.filter_congr
      intro x _
      by_cases hxa : x = a <;> simp [hxa]

end Wharf.Heal
