/-
  Helper lemmas for C17 (whitelist application) and C10 (no panics) on the message-level patch model.
-/
import Wharf.Model.Patch
import Wharf.Model.Rediff
import Wharf.Model.Validate

namespace Wharf.PatchMsg
open Wharf Wharf.Patch

/-! ### Outcome -/

theorem bind_ne_panic {α β} {x : Outcome α} {f : α → Outcome β} {s : String}
    (hx : x ≠ .panic s) (hf : ∀ a, f a ≠ .panic s) : x.bind f ≠ .panic s := by
  cases x with
  | ok a => exact hf a
  | err e => intro h; cases h
  | panic p => intro h; cases h; exact hx rfl

theorem bind_eq_ok {α β} {x : Outcome α} {f : α → Outcome β} {b : β}
    (h : x.bind f = .ok b) : ∃ a, x = .ok a ∧ f a = .ok b := by
  cases x with
  | ok a => exact ⟨a, rfl, h⟩
  | err e => cases h
  | panic p => cases h

@[simp] theorem bind_ok {α β} (a : α) (f : α → Outcome β) : (Outcome.ok a).bind f = f a := rfl
@[simp] theorem bind_err {α β} (e : String) (f : α → Outcome β) : (Outcome.err e : Outcome α).bind f = .err e := rfl
@[simp] theorem bind_panic {α β} (e : String) (f : α → Outcome β) : (Outcome.panic e : Outcome α).bind f = .panic e := rfl

theorem monad_bind_eq {α β} (x : Outcome α) (f : α → Outcome β) : (x >>= f) = x.bind f := rfl

/-! ### C10: no panics -/

/-- A pool that never panics (unfolded form of `C10.PoolNoPanic`). -/
def PoolOK (p : Pool) : Prop :=
  (∀ f off len s, p.read f off len ≠ .panic s) ∧ (∀ f s, p.flen f ≠ .panic s) ∧ (∀ f s, p.readAll f ≠ .panic s)

theorem idx_ne_panic (n : Nat) (i : Int) (site s : String) : idx n i site ≠ .panic s := by
  unfold idx; split <;> (intro h; cases h)

theorem applyOp_ne_panic (E : Env) (hp : PoolOK E.pool) (op : SyncOp) (w : List Byte) (reads : List Nat)
    (s : String) : applyOp E op w reads ≠ .panic s := by
  unfold applyOp
  split
  · rw [monad_bind_eq]
    apply bind_ne_panic (idx_ne_panic _ _ _ _)
    intro f
    dsimp only
    split
    · intro h; cases h
    · split
      · intro h; cases h
      · intro h; cases h
      · rename_i p hpp
        intro h
        exact hp.1 _ _ _ _ hpp
  · split <;> (intro h; cases h)


theorem rsyncLoop_ne_panic (E : Env) (hp : PoolOK E.pool) (msgs : List WMsg) (w : List Byte) (reads : List Nat)
    (s : String) : rsyncLoop E msgs w reads ≠ .panic s := by
  induction msgs generalizing w reads with
  | nil => intro h; cases h
  | cons m rest ih =>
    unfold rsyncLoop
    dsimp only
    split
    · intro h; cases h
    · split
      · apply ih
      · intro h; cases h
      · rename_i p hpp
        exact absurd hpp (applyOp_ne_panic E hp _ _ _ _)

theorem applyControl_ne_panic (E : Env) (hp : PoolOK E.pool) (t flen : Nat) (c : Control) (off : Int)
    (w : List Byte) (s : String) : applyControl E t flen c off w ≠ .panic s := by
  unfold applyControl
  split
  · intro h; cases h
  · dsimp only
    rw [monad_bind_eq]
    apply bind_ne_panic
    · split
      · split
        · split <;> (intro h; cases h)
        · intro h; cases h
        · rename_i p hpp
          exact absurd hpp (hp.1 _ _ _ _)
      · intro h; cases h
    · intro a h; cases h

theorem bsdiffLoop_ne_panic (E : Env) (hp : PoolOK E.pool) (t flen : Nat) (msgs : List WMsg) (off : Int)
    (w : List Byte) (s : String) : bsdiffLoop E t flen msgs off w ≠ .panic s := by
  induction msgs generalizing off w with
  | nil => intro h; cases h
  | cons m rest ih =>
    unfold bsdiffLoop
    dsimp only
    split
    · intro h; cases h
    · split
      · apply ih
      · intro h; cases h
      · rename_i p hpp
        exact absurd hpp (applyControl_ne_panic E hp _ _ _ _ _ _)

theorem skipOps_ne_panic (msgs : List WMsg) (s : String) : skipOps msgs ≠ .panic s := by
  induction msgs with
  | nil => intro h; cases h
  | cons m rest ih =>
    unfold skipOps
    split
    · intro h; cases h
    · exact ih

theorem skipCtrls_ne_panic (msgs : List WMsg) (s : String) : skipCtrls msgs ≠ .panic s := by
  induction msgs with
  | nil => intro h; cases h
  | cons m rest ih =>
    unfold skipCtrls
    split
    · intro h; cases h
    · exact ih

theorem skipFile_ne_panic (kind : Int) (msgs : List WMsg) (s : String) : skipFile kind msgs ≠ .panic s := by
  unfold skipFile
  split
  · split
    · intro h; cases h
    · apply bind_ne_panic (skipCtrls_ne_panic _ _)
      intro rest'
      split
      · intro h; cases h
      · split <;> (intro h; cases h)
  · exact skipOps_ne_panic _ _

theorem isFullFileOp_ne_panic (E : Env) (i : Nat) (op : SyncOp) (s : String) : isFullFileOp E i op ≠ .panic s := by
  unfold isFullFileOp
  split
  · intro h; cases h
  · split
    · intro h; cases h
    · split
      · intro h; cases h
      · dsimp only
        split
        · intro h; cases h
        · split <;> (intro h; cases h)

/-! ### `processFile` cut into pieces (all equations hold by `rfl`) -/

/-- does the whitelist exclude file `i`? -/
def skipOf (E : Env) (i : Nat) : Bool :=
  match E.whitelist with
  | some wl => !wl.contains i
  | none => false

/-- whole-file copy of old file `t`. -/
def procFull (E : Env) (i t : Nat) (rest1 : List WMsg) (r : Res) : Outcome (List WMsg × Res) :=
  match E.pool.readAll t with
  | .err e => .err e
  | .panic p => .panic p
  | .ok bytes =>
    (skipOps rest1).bind fun rest' =>
      .ok (rest', { out := r.out ++ [(i, bytes)], touched := r.touched + 1,
                    calls := r.calls ++ [BowlCall.transpose i t], reads := r.reads ++ [t] })

/-- relay of the first op and of the following ones. -/
def procRelay (E : Env) (i : Nat) (op : SyncOp) (rest1 : List WMsg) (r : Res) : Outcome (List WMsg × Res) :=
  let r1 := { r with calls := r.calls ++ [BowlCall.getWriter i] }
  if op.type = heyYouDidIt then
    .err "unknown sync op type"
  else
    (applyOp E op [] r1.reads).bind fun (w, reads) =>
    (rsyncLoop E rest1 w reads).bind fun (rest', w', reads') =>
      .ok (rest', { r1 with out := r1.out ++ [(i, w')], touched := r1.touched + 1, reads := reads' })

def procRsync (E : Env) (i : Nat) (rest : List WMsg) (r : Res) : Outcome (List WMsg × Res) :=
  match rest with
  | [] => .err "EOF reading first op"
  | om :: rest1 =>
    (isFullFileOp E i (asSyncOp om)).bind fun full =>
    match full with
    | some t => procFull E i t rest1 r
    | none => procRelay E i (asSyncOp om) rest1 r

def procBsdiff (E : Env) (i : Nat) (rest : List WMsg) (r : Res) : Outcome (List WMsg × Res) :=
  match rest with
  | [] => .err "EOF reading bsdiff header"
  | bm :: rest1 =>
    let ti := asBsdiffHeader bm
    (idx E.pool.nfiles ti "processBsdiff targetPool.GetReadSeeker(targetIndex)").bind fun t =>
    match E.pool.flen t with
    | .err e => .err e
    | .panic p => .panic p
    | .ok flen =>
      (bsdiffLoop E t flen rest1 0 []).bind fun (rest2, w) =>
      match rest2 with
      | [] => .err "EOF reading sentinel"
      | sm :: rest' =>
        if (asSyncOp sm).type ≠ heyYouDidIt then .err "expected sentinel SyncOp after bsdiff series"
        else if w.length ≠ E.newSizes.getD i 0 then .err "corrupted patch: wrong final size"
        else .ok (rest', { out := r.out ++ [(i, w)], touched := r.touched + 1,
                           calls := r.calls ++ [BowlCall.getWriter i], reads := r.reads ++ [t] })

theorem processFile_nil (E : Env) (i : Nat) (r : Res) :
    processFile E i [] r = .err "EOF reading sync header" := rfl

theorem processFile_cons (E : Env) (i : Nat) (hm : WMsg) (rest : List WMsg) (r : Res) :
    processFile E i (hm :: rest) r =
      if (asSyncHeader hm).fileIndex ≠ i then .err "corrupted patch: unexpected file index"
      else if (asSyncHeader hm).type ≠ kindRsync ∧ (asSyncHeader hm).type ≠ kindBsdiff then
        .err "unknown patch series kind"
      else if skipOf E i then (skipFile (asSyncHeader hm).type rest).bind fun rest' => .ok (rest', r)
      else if (asSyncHeader hm).type = kindRsync then procRsync E i rest r
      else procBsdiff E i rest r := rfl

theorem procFull_ne_panic (E : Env) (hp : PoolOK E.pool) (i t : Nat) (rest1 : List WMsg) (r : Res) (s : String) :
    procFull E i t rest1 r ≠ .panic s := by
  unfold procFull
  split
  · intro h; cases h
  · rename_i p hpp
    exact absurd hpp (hp.2.2 _ _)
  · apply bind_ne_panic (skipOps_ne_panic _ _)
    intro a h; cases h

theorem procRelay_ne_panic (E : Env) (hp : PoolOK E.pool) (i : Nat) (op : SyncOp) (rest1 : List WMsg) (r : Res)
    (s : String) : procRelay E i op rest1 r ≠ .panic s := by
  unfold procRelay
  dsimp only
  split
  · intro h; cases h
  · apply bind_ne_panic (applyOp_ne_panic E hp _ _ _ _)
    intro a
    apply bind_ne_panic (rsyncLoop_ne_panic E hp _ _ _ _)
    intro a h; cases h

theorem procRsync_ne_panic (E : Env) (hp : PoolOK E.pool) (i : Nat) (rest : List WMsg) (r : Res) (s : String) :
    procRsync E i rest r ≠ .panic s := by
  unfold procRsync
  split
  · intro h; cases h
  · apply bind_ne_panic (isFullFileOp_ne_panic _ _ _ _)
    intro full
    split
    · exact procFull_ne_panic E hp _ _ _ _ _
    · exact procRelay_ne_panic E hp _ _ _ _ _

theorem procBsdiff_ne_panic (E : Env) (hp : PoolOK E.pool) (i : Nat) (rest : List WMsg) (r : Res) (s : String) :
    procBsdiff E i rest r ≠ .panic s := by
  unfold procBsdiff
  split
  · intro h; cases h
  · dsimp only
    apply bind_ne_panic (idx_ne_panic _ _ _ _)
    intro t
    split
    · intro h; cases h
    · rename_i p hpp
      exact absurd hpp (hp.2.1 _ _)
    · apply bind_ne_panic (bsdiffLoop_ne_panic E hp _ _ _ _ _ _)
      intro a
      split
      · intro h; cases h
      · repeat' split
        all_goals (intro h; cases h)

theorem processFile_ne_panic (E : Env) (hp : PoolOK E.pool) (i : Nat) (msgs : List WMsg) (r : Res) (s : String) :
    processFile E i msgs r ≠ .panic s := by
  cases msgs with
  | nil => intro h; cases h
  | cons hm rest =>
    rw [processFile_cons]
    split
    · intro h; cases h
    · split
      · intro h; cases h
      · split
        · apply bind_ne_panic (skipFile_ne_panic _ _ _)
          intro a h; cases h
        · split
          · exact procRsync_ne_panic E hp _ _ _ _
          · exact procBsdiff_ne_panic E hp _ _ _ _

theorem patchFrom_ne_panic (E : Env) (hp : PoolOK E.pool) (n i : Nat) (msgs : List WMsg) (r : Res) (s : String) :
    patchFrom E n i msgs r ≠ .panic s := by
  induction n generalizing i msgs r with
  | zero => intro h; cases h
  | succ n ih =>
    unfold patchFrom
    split
    · apply ih
    · intro h; cases h
    · rename_i p hpp
      exact absurd hpp (processFile_ne_panic E hp _ _ _ _)


/-! ### optimizer analysis, signature reading, hash grouping -/

theorem reuseOf_ne_panic (P : Rediff.Params) (oldSizes : Array Nat) (op : SyncOp) (s : String) :
    Rediff.reuseOf P oldSizes op ≠ .panic s := by
  unfold Rediff.reuseOf
  apply bind_ne_panic (idx_ne_panic _ _ _ _)
  intro a h; cases h

theorem analyzeOps_ne_panic (P : Rediff.Params) (oldSizes : Array Nat) (msgs : List WMsg) (a : Rediff.Analysis)
    (s : String) : Rediff.analyzeOps P oldSizes msgs a ≠ .panic s := by
  induction msgs generalizing a with
  | nil => intro h; cases h
  | cons m rest ih =>
    unfold Rediff.analyzeOps
    dsimp only
    split
    · split
      · apply ih
      · intro h; cases h
      · rename_i p hpp
        exact absurd hpp (reuseOf_ne_panic _ _ _ _)
    · split
      · apply ih
      · split <;> (intro h; cases h)

theorem analyze_ne_panic (P : Rediff.Params) (oldPaths : Array String) (oldSizes : Array Nat)
    (news : List (String × Nat)) (i : Nat) (msgs : List WMsg) (s : String) :
    Rediff.analyze P oldPaths oldSizes news i msgs ≠ .panic s := by
  induction news generalizing i msgs with
  | nil => intro h; cases h
  | cons pn rest ih =>
    obtain ⟨path, size⟩ := pn
    unfold Rediff.analyze
    split
    · intro h; cases h
    · split
      · intro h; cases h
      · split
        · intro h; cases h
        · rename_i p hpp
          exact absurd hpp (analyzeOps_ne_panic _ _ _ _ _)
        · split
          · intro h; cases h
          · intro h; cases h
          · rename_i p hpp
            intro h; cases h
            exact ih _ _ hpp

/-- number of hashes the container needs. -/
def needed (bs : Nat) (sizes : List Nat) : Nat :=
  (sizes.map fun sz => if sz = 0 then 1 else Rsync.numBlocks bs sz).sum

theorem hashGroups_ne_panic (bs : Nat) (sizes : List Nat) (k n : Nat) (s : String) :
    Validate.hashGroups bs sizes k n ≠ .panic s := by
  induction sizes generalizing k with
  | nil => unfold Validate.hashGroups; split <;> (intro h; cases h)
  | cons size rest ih =>
    unfold Validate.hashGroups
    split
    · apply bind_ne_panic (ih _)
      intro a h; cases h
    · dsimp only
      split
      · intro h; cases h
      · apply bind_ne_panic (ih _)
        intro a h; cases h

theorem hashGroups_ok_iff (bs : Nat) (sizes : List Nat) (k n : Nat) :
    (∃ gs, Validate.hashGroups bs sizes k n = .ok gs) ↔ k + needed bs sizes = n := by
  induction sizes generalizing k with
  | nil =>
    unfold Validate.hashGroups needed
    by_cases h : k = n
    · simp [h]
    · simp [h]
  | cons size rest ih =>
    unfold Validate.hashGroups
    have hn : needed bs (size :: rest) = (if size = 0 then 1 else Rsync.numBlocks bs size) + needed bs rest := by
      simp [needed]
    rw [hn]
    by_cases hz : size = 0
    · simp only [hz, if_true]
      constructor
      · rintro ⟨gs, h⟩
        obtain ⟨a, ha, _⟩ := bind_eq_ok h
        have := (ih (k + 1)).1 ⟨a, ha⟩
        omega
      · intro h
        obtain ⟨a, ha⟩ := (ih (k + 1)).2 (by omega)
        exact ⟨none :: a, by rw [ha]; rfl⟩
    · simp only [hz, if_false]
      by_cases hgt : k + Rsync.numBlocks bs size > n
      · simp only [hgt, if_true]
        constructor
        · rintro ⟨gs, h⟩; cases h
        · intro h; omega
      · simp only [hgt, if_false]
        constructor
        · rintro ⟨gs, h⟩
          obtain ⟨a, ha, _⟩ := bind_eq_ok h
          have := (ih (k + Rsync.numBlocks bs size)).1 ⟨a, ha⟩
          omega
        · intro h
          obtain ⟨a, ha⟩ := (ih (k + Rsync.numBlocks bs size)).2 (by omega)
          exact ⟨some (k, Rsync.numBlocks bs size) :: a, by rw [ha]; rfl⟩

theorem readSigCount_le (bs : Nat) (sizes : List Nat) (avail : Nat) :
    Validate.readSigCount bs sizes avail ≤ avail := by
  induction sizes generalizing avail with
  | nil => unfold Validate.readSigCount; omega
  | cons size rest ih =>
    unfold Validate.readSigCount
    dsimp only
    split
    · split
      · omega
      · have := ih (avail - 1); omega
    · have := ih (avail - min (Rsync.numBlocks bs size) avail)
      omega


/-! ### C17: the whitelist field is only looked at by `skipOf` -/

theorem applyOp_wl (E : Env) (a : Option (List Nat)) (op : SyncOp) (w : List Byte) (reads : List Nat) :
    applyOp { E with whitelist := a } op w reads = applyOp E op w reads := rfl

theorem applyControl_wl (E : Env) (a : Option (List Nat)) (t flen : Nat) (c : Control) (off : Int) (w : List Byte) :
    applyControl { E with whitelist := a } t flen c off w = applyControl E t flen c off w := rfl

theorem isFullFileOp_wl (E : Env) (a : Option (List Nat)) (i : Nat) (op : SyncOp) :
    isFullFileOp { E with whitelist := a } i op = isFullFileOp E i op := rfl

theorem procFull_wl (E : Env) (a : Option (List Nat)) (i t : Nat) (rest1 : List WMsg) (r : Res) :
    procFull { E with whitelist := a } i t rest1 r = procFull E i t rest1 r := rfl

theorem rsyncLoop_wl (E : Env) (a : Option (List Nat)) (msgs : List WMsg) (w : List Byte) (reads : List Nat) :
    rsyncLoop { E with whitelist := a } msgs w reads = rsyncLoop E msgs w reads := by
  induction msgs generalizing w reads with
  | nil => rfl
  | cons m rest ih =>
    rw [rsyncLoop, rsyncLoop]
    simp only [applyOp_wl, ih]

theorem bsdiffLoop_wl (E : Env) (a : Option (List Nat)) (t flen : Nat) (msgs : List WMsg) (off : Int) (w : List Byte) :
    bsdiffLoop { E with whitelist := a } t flen msgs off w = bsdiffLoop E t flen msgs off w := by
  induction msgs generalizing off w with
  | nil => rfl
  | cons m rest ih =>
    rw [bsdiffLoop, bsdiffLoop]
    simp only [applyControl_wl, ih]

theorem procRelay_wl (E : Env) (a : Option (List Nat)) (i : Nat) (op : SyncOp) (rest1 : List WMsg) (r : Res) :
    procRelay { E with whitelist := a } i op rest1 r = procRelay E i op rest1 r := by
  unfold procRelay
  simp only [applyOp_wl, rsyncLoop_wl]

theorem procRsync_wl (E : Env) (a : Option (List Nat)) (i : Nat) (rest : List WMsg) (r : Res) :
    procRsync { E with whitelist := a } i rest r = procRsync E i rest r := by
  unfold procRsync
  simp only [isFullFileOp_wl, procFull_wl, procRelay_wl]

theorem procBsdiff_wl (E : Env) (a : Option (List Nat)) (i : Nat) (rest : List WMsg) (r : Res) :
    procBsdiff { E with whitelist := a } i rest r = procBsdiff E i rest r := by
  unfold procBsdiff
  simp only [bsdiffLoop_wl]

/-- With file `i` not excluded, `processFile` does not depend on the whitelist. -/
theorem processFile_wl (E : Env) (a b : Option (List Nat)) (i : Nat) (msgs : List WMsg) (r : Res)
    (ha : skipOf { E with whitelist := a } i = false) (hb : skipOf { E with whitelist := b } i = false) :
    processFile { E with whitelist := a } i msgs r = processFile { E with whitelist := b } i msgs r := by
  cases msgs with
  | nil => rfl
  | cons hm rest =>
    simp only [processFile_cons, ha, hb, procRsync_wl, procBsdiff_wl]


/-! ### C17: skipping consumes what processing consumes -/

theorem rsyncLoop_skipOps (E : Env) (msgs : List WMsg) (w : List Byte) (reads : List Nat)
    (rest' : List WMsg) (w' : List Byte) (reads' : List Nat)
    (h : rsyncLoop E msgs w reads = .ok (rest', w', reads')) : skipOps msgs = .ok rest' := by
  induction msgs generalizing w reads with
  | nil => cases h
  | cons m rest ih =>
    rw [rsyncLoop] at h
    rw [skipOps]
    split at h
    · rename_i hty
      cases h
      rw [if_pos hty]
    · rename_i hty
      rw [if_neg hty]
      split at h
      · exact ih _ _ h
      · cases h
      · cases h

theorem bsdiffLoop_skipCtrls (E : Env) (t flen : Nat) (msgs : List WMsg) (off : Int) (w : List Byte)
    (rest' : List WMsg) (w' : List Byte)
    (h : bsdiffLoop E t flen msgs off w = .ok (rest', w')) : skipCtrls msgs = .ok rest' := by
  induction msgs generalizing off w with
  | nil => cases h
  | cons m rest ih =>
    rw [bsdiffLoop] at h
    rw [skipCtrls]
    split at h
    · rename_i hty
      cases h
      rw [if_pos hty]
    · rename_i hty
      rw [if_neg hty]
      split at h
      · exact ih _ _ h
      · cases h
      · cases h

/-! ### C17: the reads accumulator is only appended to -/

theorem applyOp_reads (E : Env) (op : SyncOp) (w : List Byte) (reads : List Nat) (w' : List Byte) (reads' : List Nat)
    (h : applyOp E op w reads = .ok (w', reads')) :
    ∃ d, reads' = reads ++ d ∧ ∀ pre, applyOp E op w pre = .ok (w', pre ++ d) := by
  unfold applyOp at h
  by_cases h1 : op.type = opBlockRange
  · rw [if_pos h1, monad_bind_eq] at h
    obtain ⟨f, hf, h⟩ := bind_eq_ok h
    dsimp only at h
    split at h
    · cases h
    · rename_i hoff
      split at h
      · rename_i bytes hrd
        cases h
        refine ⟨[f], rfl, ?_⟩
        intro pre
        unfold applyOp
        rw [if_pos h1, monad_bind_eq, hf]
        dsimp only [bind_ok]
        rw [if_neg hoff, hrd]
      · cases h
      · cases h
  · rw [if_neg h1] at h
    by_cases h2 : op.type = opData
    · rw [if_pos h2] at h
      cases h
      refine ⟨[], (List.append_nil _).symm, ?_⟩
      intro pre
      unfold applyOp
      rw [if_neg h1, if_pos h2, List.append_nil]
    · rw [if_neg h2] at h
      cases h

theorem rsyncLoop_reads (E : Env) (msgs : List WMsg) (w : List Byte) (reads : List Nat)
    (rest' : List WMsg) (w' : List Byte) (reads' : List Nat)
    (h : rsyncLoop E msgs w reads = .ok (rest', w', reads')) :
    ∃ d, reads' = reads ++ d ∧ ∀ pre, rsyncLoop E msgs w pre = .ok (rest', w', pre ++ d) := by
  induction msgs generalizing w reads with
  | nil => cases h
  | cons m rest ih =>
    rw [rsyncLoop] at h
    by_cases hty : (asSyncOp m).type = heyYouDidIt
    · rw [if_pos hty] at h
      cases h
      refine ⟨[], (List.append_nil _).symm, ?_⟩
      intro pre
      rw [rsyncLoop]
      rw [if_pos hty, List.append_nil]
    · rw [if_neg hty] at h
      split at h
      · rename_i w1 reads1 hop
        obtain ⟨d1, hd1, hall1⟩ := applyOp_reads E _ _ _ _ _ hop
        obtain ⟨d2, hd2, hall2⟩ := ih _ _ h
        refine ⟨d1 ++ d2, by rw [hd2, hd1, List.append_assoc], ?_⟩
        intro pre
        rw [rsyncLoop]
        rw [if_neg hty, hall1 pre]
        dsimp only
        rw [hall2 (pre ++ d1), List.append_assoc]
      · cases h
      · cases h


/-! ### C17: a processed file adds a delta that does not depend on the accumulated result -/

/-- component-wise accumulation of results. -/
def Res.add (r d : Res) : Res :=
  { out := r.out ++ d.out, touched := r.touched + d.touched, calls := r.calls ++ d.calls, reads := r.reads ++ d.reads }

theorem Res.add_empty (r : Res) : Res.add r {} = r := by
  cases r; simp [Res.add]

theorem Res.empty_add (r : Res) : Res.add {} r = r := by
  cases r; simp [Res.add]

theorem Res.add_assoc (a b c : Res) : Res.add (Res.add a b) c = Res.add a (Res.add b c) := by
  simp [Res.add, List.append_assoc, Nat.add_assoc]

/-- what one processed file `i` contributes. -/
def DeltaFor (i : Nat) (d : Res) : Prop :=
  (∃ b, d.out = [(i, b)]) ∧ d.touched = 1 ∧
  (∀ c ∈ d.calls, c = BowlCall.getWriter i ∨ ∃ t, c = BowlCall.transpose i t)

/-- `f` (a file processor as a function of the accumulated result) succeeded on `r` with `(rest, r1)` by adding a
    delta for file `i`, and would do the same from any other accumulated result. -/
def Spec (i : Nat) (f : Res → Outcome (List WMsg × Res)) (r : Res) (rest : List WMsg) (r1 : Res) : Prop :=
  ∃ d, DeltaFor i d ∧ r1 = Res.add r d ∧ ∀ r', f r' = .ok (rest, Res.add r' d)

theorem procFull_spec (E : Env) (i t : Nat) (rest1 rest' : List WMsg) (r r1 : Res)
    (h : procFull E i t rest1 r = .ok (rest', r1)) :
    skipOps rest1 = .ok rest' ∧ Spec i (procFull E i t rest1) r rest' r1 := by
  unfold procFull at h
  split at h
  · cases h
  · cases h
  · rename_i bytes hrd
    obtain ⟨rest'', hsk, h⟩ := bind_eq_ok h
    cases h
    refine ⟨hsk, ⟨{ out := [(i, bytes)], touched := 1, calls := [BowlCall.transpose i t], reads := [t] }, ?_, rfl, ?_⟩⟩
    · refine ⟨⟨bytes, rfl⟩, rfl, ?_⟩
      intro c hc
      simp only [List.mem_singleton] at hc
      exact Or.inr ⟨t, hc⟩
    · intro r'
      unfold procFull
      rw [hrd]
      dsimp only
      rw [hsk]
      rfl

theorem procRelay_spec (E : Env) (i : Nat) (op : SyncOp) (rest1 rest' : List WMsg) (r r1 : Res)
    (h : procRelay E i op rest1 r = .ok (rest', r1)) :
    (op.type ≠ heyYouDidIt ∧ skipOps rest1 = .ok rest') ∧ Spec i (procRelay E i op rest1) r rest' r1 := by
  unfold procRelay at h
  dsimp only at h
  by_cases hty : op.type = heyYouDidIt
  · rw [if_pos hty] at h; cases h
  · rw [if_neg hty] at h
    obtain ⟨⟨w, reads⟩, hop, h⟩ := bind_eq_ok h
    dsimp only at h
    obtain ⟨⟨rest'', w', reads'⟩, hloop, h⟩ := bind_eq_ok h
    dsimp only at h
    cases h
    obtain ⟨d1, hd1, hall1⟩ := applyOp_reads E _ _ _ _ _ hop
    obtain ⟨d2, hd2, hall2⟩ := rsyncLoop_reads E _ _ _ _ _ _ hloop
    refine ⟨⟨hty, rsyncLoop_skipOps E _ _ _ _ _ _ hloop⟩,
      ⟨{ out := [(i, w')], touched := 1, calls := [BowlCall.getWriter i], reads := d1 ++ d2 }, ?_, ?_, ?_⟩⟩
    · refine ⟨⟨w', rfl⟩, rfl, ?_⟩
      intro c hc
      simp only [List.mem_singleton] at hc
      exact Or.inl hc
    · simp only [Res.add, hd2, hd1, List.append_assoc]
    · intro r'
      unfold procRelay
      dsimp only
      rw [if_neg hty, hall1 r'.reads]
      dsimp only [bind_ok]
      rw [hall2 (r'.reads ++ d1)]
      simp only [bind_ok, Res.add, List.append_assoc]

theorem procRsync_spec (E : Env) (i : Nat) (rest rest' : List WMsg) (r r1 : Res)
    (h : procRsync E i rest r = .ok (rest', r1)) :
    skipOps rest = .ok rest' ∧ Spec i (procRsync E i rest) r rest' r1 := by
  cases rest with
  | nil => cases h
  | cons om rest1 =>
    unfold procRsync at h
    dsimp only at h
    obtain ⟨full, hfull, h⟩ := bind_eq_ok h
    cases full with
    | some t =>
      dsimp only at h
      obtain ⟨hsk, d, hd, hr1, hall⟩ := procFull_spec E i t rest1 rest' r r1 h
      constructor
      · -- the first op is a BLOCK_RANGE, not the end marker
        have hty : (asSyncOp om).type = opBlockRange := by
          unfold isFullFileOp at hfull
          by_cases hty : (asSyncOp om).type = opBlockRange
          · exact hty
          · rw [if_pos hty] at hfull; cases hfull
        rw [skipOps, if_neg (by rw [hty]; decide)]
        exact hsk
      · refine ⟨d, hd, hr1, ?_⟩
        intro r'
        unfold procRsync
        dsimp only
        rw [hfull]
        exact hall r'
    | none =>
      dsimp only at h
      obtain ⟨⟨hty, hsk⟩, d, hd, hr1, hall⟩ := procRelay_spec E i _ rest1 rest' r r1 h
      constructor
      · rw [skipOps, if_neg hty]
        exact hsk
      · refine ⟨d, hd, hr1, ?_⟩
        intro r'
        unfold procRsync
        dsimp only
        rw [hfull]
        exact hall r'

theorem procBsdiff_spec (E : Env) (i : Nat) (rest rest' : List WMsg) (r r1 : Res)
    (h : procBsdiff E i rest r = .ok (rest', r1)) :
    skipFile kindBsdiff rest = .ok rest' ∧ Spec i (procBsdiff E i rest) r rest' r1 := by
  cases rest with
  | nil => cases h
  | cons bm rest1 =>
    unfold procBsdiff at h
    dsimp only at h
    obtain ⟨t, hidx, h⟩ := bind_eq_ok h
    split at h
    · cases h
    · cases h
    · rename_i flen hfl
      obtain ⟨⟨rest2, w⟩, hloop, h⟩ := bind_eq_ok h
      dsimp only at h
      cases rest2 with
      | nil => cases h
      | cons sm rest3 =>
        dsimp only at h
        by_cases hs : (asSyncOp sm).type ≠ heyYouDidIt
        · rw [if_pos hs] at h; cases h
        · rw [if_neg hs] at h
          by_cases hlen : w.length ≠ E.newSizes.getD i 0
          · rw [if_pos hlen] at h; cases h
          · rw [if_neg hlen] at h
            cases h
            constructor
            · unfold skipFile
              rw [if_pos rfl]
              dsimp only
              rw [bsdiffLoop_skipCtrls E _ _ _ _ _ _ _ hloop]
              dsimp only [bind_ok]
              rw [if_neg hs]
            · refine ⟨{ out := [(i, w)], touched := 1, calls := [BowlCall.getWriter i], reads := [t] }, ?_, rfl, ?_⟩
              · refine ⟨⟨w, rfl⟩, rfl, ?_⟩
                intro c hc
                simp only [List.mem_singleton] at hc
                exact Or.inl hc
              · intro r'
                unfold procBsdiff
                dsimp only
                rw [hidx]
                dsimp only [bind_ok]
                rw [hfl]
                dsimp only
                rw [hloop]
                dsimp only [bind_ok]
                rw [if_neg hs, if_neg hlen]
                rfl


/-- One file: if processing (file not excluded) succeeds, it adds a delta independent of the accumulated result,
    and skipping the same file (under any whitelist that excludes it) leaves the same remaining messages. -/
theorem processFile_spec (E : Env) (i : Nat) (msgs rest : List WMsg) (r r1 : Res)
    (hns : skipOf E i = false)
    (h : processFile E i msgs r = .ok (rest, r1)) :
    Spec i (processFile E i msgs) r rest r1 ∧
    ∀ a r', skipOf { E with whitelist := a } i = true →
      processFile { E with whitelist := a } i msgs r' = .ok (rest, r') := by
  cases msgs with
  | nil => cases h
  | cons hm rest0 =>
    rw [processFile_cons] at h
    by_cases h1 : (asSyncHeader hm).fileIndex ≠ i
    · rw [if_pos h1] at h; cases h
    · by_cases h2 : (asSyncHeader hm).type ≠ kindRsync ∧ (asSyncHeader hm).type ≠ kindBsdiff
      · rw [if_neg h1, if_pos h2] at h; cases h
      · rw [if_neg h1, if_neg h2, hns, if_neg Bool.false_ne_true] at h
        by_cases hk : (asSyncHeader hm).type = kindRsync
        · rw [if_pos hk] at h
          obtain ⟨hsk, d, hd, hr1, hall⟩ := procRsync_spec E i rest0 rest r r1 h
          constructor
          · refine ⟨d, hd, hr1, ?_⟩
            intro r'
            rw [processFile_cons, if_neg h1, if_neg h2, hns, if_neg Bool.false_ne_true, if_pos hk]
            exact hall r'
          · intro a r' hs
            rw [processFile_cons, if_neg h1, if_neg h2, hs, if_pos rfl, hk]
            unfold skipFile
            rw [if_neg (by decide), hsk]
            rfl
        · rw [if_neg hk] at h
          have hb : (asSyncHeader hm).type = kindBsdiff := by
            by_cases hb : (asSyncHeader hm).type = kindBsdiff
            · exact hb
            · exact absurd ⟨hk, hb⟩ h2
          obtain ⟨hsk, d, hd, hr1, hall⟩ := procBsdiff_spec E i rest0 rest r r1 h
          constructor
          · refine ⟨d, hd, hr1, ?_⟩
            intro r'
            rw [processFile_cons, if_neg h1, if_neg h2, hns, if_neg Bool.false_ne_true, if_neg hk]
            exact hall r'
          · intro a r' hs
            rw [processFile_cons, if_neg h1, if_neg h2, hs, if_pos rfl, hb, hsk]
            rfl

/-! ### C17: all files -/

/-- relation between what full application adds (`D`) and what whitelisted application adds (`D'`) over the files
    `i, …, i+n-1`. -/
def Rel (wl : List Nat) (i n : Nat) (D D' : Res) : Prop :=
  D'.out = D.out.filter (fun p => wl.contains p.1) ∧
  D'.touched = ((List.range' i n).filter (fun j => wl.contains j)).length ∧
  (∀ c ∈ D'.calls, match c with
    | .getWriter j => j ∈ wl
    | .transpose s _ => s ∈ wl) ∧
  D'.reads.Sublist D.reads ∧
  (wl = [] → D'.reads = [] ∧ D'.calls = [] ∧ D'.out = [])

theorem skipOf_none (E : Env) (i : Nat) : skipOf { E with whitelist := none } i = false := rfl

theorem skipOf_some (E : Env) (wl : List Nat) (i : Nat) :
    skipOf { E with whitelist := some wl } i = !wl.contains i := rfl

theorem patchFrom_zero (E : Env) (i : Nat) (msgs : List WMsg) (r : Res) : patchFrom E 0 i msgs r = .ok r := rfl

theorem patchFrom_succ_ok (E : Env) (n i : Nat) (msgs rest : List WMsg) (r r1 : Res)
    (h : processFile E i msgs r = .ok (rest, r1)) :
    patchFrom E (n + 1) i msgs r = patchFrom E n (i + 1) rest r1 := by
  rw [patchFrom, h]

theorem patchFrom_succ_inv (E : Env) (n i : Nat) (msgs : List WMsg) (r r2 : Res)
    (h : patchFrom E (n + 1) i msgs r = .ok r2) :
    ∃ rest r1, processFile E i msgs r = .ok (rest, r1) ∧ patchFrom E n (i + 1) rest r1 = .ok r2 := by
  rw [patchFrom] at h
  split at h
  · rename_i rest r1 hp
    exact ⟨rest, r1, hp, h⟩
  · cases h
  · cases h

theorem patchFrom_whitelist (E : Env) (wl : List Nat) (n i : Nat) (msgs : List WMsg) (r0 r : Res)
    (h : patchFrom { E with whitelist := none } n i msgs r0 = .ok r) :
    ∃ D D', r = Res.add r0 D ∧ Rel wl i n D D' ∧
      ∀ r0', patchFrom { E with whitelist := some wl } n i msgs r0' = .ok (Res.add r0' D') := by
  induction n generalizing i msgs r0 with
  | zero =>
    rw [patchFrom_zero] at h
    cases h
    refine ⟨{}, {}, (Res.add_empty _).symm, ?_, ?_⟩
    · refine ⟨rfl, rfl, ?_, List.Sublist.refl _, fun _ => ⟨rfl, rfl, rfl⟩⟩
      intro c hc
      cases hc
    · intro r0'
      rw [patchFrom_zero, Res.add_empty]
  | succ n ih =>
    obtain ⟨rest, r1, hp, hrest⟩ := patchFrom_succ_inv _ _ _ _ _ _ h
    obtain ⟨⟨d, ⟨⟨b, hdout⟩, hdt, hdc⟩, hr1, hall⟩, hskip⟩ :=
      processFile_spec _ i msgs rest r0 r1 (skipOf_none E i) hp
    obtain ⟨D, D', hr, ⟨hout, htouched, hcalls, hreads, hempty⟩, hall'⟩ := ih (i + 1) rest r1 hrest
    have hrange : List.range' i (n + 1) = i :: List.range' (i + 1) n := List.range'_succ ..
    by_cases hc : wl.contains i = true
    · -- file `i` is whitelisted: same computation
      refine ⟨Res.add d D, Res.add d D', by rw [hr, hr1, Res.add_assoc], ?_, ?_⟩
      · refine ⟨?_, ?_, ?_, ?_, ?_⟩
        · simp only [Res.add, hdout, List.filter_append, hout, List.filter_cons, hc, if_true, List.filter_nil]
        · simp only [Res.add, hdt, htouched, hrange, List.filter_cons, hc, if_true, List.length_cons]
          omega
        · intro c hcm
          simp only [Res.add, List.mem_append] at hcm
          rcases hcm with hcm | hcm
          · have hi : i ∈ wl := by simpa using hc
            rcases hdc c hcm with rfl | ⟨t, rfl⟩
            · exact hi
            · exact hi
          · exact hcalls c hcm
        · exact List.Sublist.append (List.Sublist.refl _) hreads
        · intro hwl
          rw [hwl] at hc
          cases hc
      · intro r0'
        have hsame : processFile { E with whitelist := some wl } i msgs r0' = .ok (rest, Res.add r0' d) := by
          have := processFile_wl E (some wl) none i msgs r0' (by rw [skipOf_some, hc]; rfl) (skipOf_none E i)
          rw [this]
          exact hall r0'
        rw [patchFrom_succ_ok _ _ _ _ _ _ _ hsame, hall', Res.add_assoc]
    · -- file `i` is skipped
      have hc' : wl.contains i = false := by
        cases hcc : wl.contains i
        · rfl
        · exact absurd hcc hc
      refine ⟨Res.add d D, D', by rw [hr, hr1, Res.add_assoc], ?_, ?_⟩
      · refine ⟨?_, ?_, hcalls, ?_, hempty⟩
        · simp only [Res.add, hdout, List.filter_append, hout, List.filter_cons, hc', List.filter_nil,
            List.nil_append, Bool.false_eq_true, if_false]
        · simp only [htouched, hrange, List.filter_cons, hc', Bool.false_eq_true, if_false]
        · exact List.Sublist.trans hreads (List.sublist_append_right _ _)
      · intro r0'
        have hsk : processFile { E with whitelist := some wl } i msgs r0' = .ok (rest, r0') :=
          hskip (some wl) r0' (by rw [skipOf_some, hc']; rfl)
        rw [patchFrom_succ_ok _ _ _ _ _ _ _ hsk, hall']

/-- Whitelisting every index that is visited is the same as no whitelist. -/
theorem patchFrom_full (E : Env) (wl : List Nat) (n i : Nat) (msgs : List WMsg) (r : Res)
    (hwl : ∀ j, i ≤ j → j < i + n → wl.contains j = true) :
    patchFrom { E with whitelist := some wl } n i msgs r = patchFrom { E with whitelist := none } n i msgs r := by
  induction n generalizing i msgs r with
  | zero => rfl
  | succ n ih =>
    rw [patchFrom, patchFrom]
    have := processFile_wl E (some wl) none i msgs r
      (by rw [skipOf_some, hwl i (Nat.le_refl _) (by omega)]; rfl) (skipOf_none E i)
    rw [this]
    split
    · exact ih _ _ _ (fun j h1 h2 => hwl j (by omega) (by omega))
    · rfl
    · rfl

end Wharf.PatchMsg
