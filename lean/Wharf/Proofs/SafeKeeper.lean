/-
  Helper lemmas for C09 (the signature-checking pool).

  * block level: a valid block means `disk` and `signed` agree *as partial functions* (`l[i]?`) on the
    block's index range — this carries both the bytes and the lengths;
  * `skRead`/`skReadAll` succeed only with the pristine bytes, and always succeed on a pristine file;
  * two congruence principles for the patcher: pools that are equal on all in-range indices give equal
    results (`patchFrom_eqOn`), and pools that agree whenever both succeed give equal results whenever
    both runs succeed (`patchFrom_compat`).
-/
import Wharf.Model.SafeKeeper
import Wharf.Proofs.PatchMsg

namespace Wharf.SafeKeeperProofs
open Wharf Wharf.Patch Wharf.SafeKeeper Wharf.PatchMsg

/-! ### arithmetic of blocks -/

theorem numBlocks_le_iff (bs n k : Nat) (hbs : 0 < bs) : Rsync.numBlocks bs n ≤ k ↔ n ≤ k * bs := by
  unfold Rsync.numBlocks
  rw [← Nat.lt_succ_iff, Nat.div_lt_iff_lt_mul hbs, Nat.succ_mul]
  omega

theorem block_lo (bs x : Nat) : x / bs * bs ≤ x := Nat.div_mul_le_self x bs

theorem block_hi (bs x : Nat) (hbs : 0 < bs) : x < (x / bs + 1) * bs := by
  have h1 := Nat.div_add_mod x bs
  have h2 := Nat.mod_lt x hbs
  rw [Nat.add_mul, Nat.one_mul, Nat.mul_comm]
  omega

/-! ### block verdicts -/

theorem blockValid_iff (bs : Nat) (hbs : 0 < bs) (signed disk : List Byte) (k : Nat) :
    blockValid bs signed disk k = true ↔
      (disk.drop (k * bs)).take bs = (signed.drop (k * bs)).take bs := by
  unfold blockValid
  dsimp only
  by_cases h : k ≥ Rsync.numBlocks bs signed.length
  · rw [if_pos h]
    have hle : signed.length ≤ k * bs := (numBlocks_le_iff bs _ k hbs).1 h
    rw [List.drop_eq_nil_of_le hle, List.take_nil, List.isEmpty_iff]
  · rw [if_neg h, beq_iff_eq]

/-- pointwise form: the two files agree, as partial functions, on the index range of the block. -/
theorem blockValid_pt (bs : Nat) (hbs : 0 < bs) (signed disk : List Byte) (k : Nat) :
    blockValid bs signed disk k = true ↔
      ∀ i, k * bs ≤ i → i < (k + 1) * bs → disk[i]? = signed[i]? := by
  rw [blockValid_iff bs hbs]
  constructor
  · intro h i h1 h2
    have h3 := congrArg (fun l => l[i - k * bs]?) h
    simp only [List.getElem?_take, List.getElem?_drop] at h3
    have h4 : i - k * bs < bs := by rw [Nat.add_mul, Nat.one_mul] at h2; omega
    have h5 : k * bs + (i - k * bs) = i := by omega
    rw [if_pos h4, if_pos h4, h5] at h3
    exact h3
  · intro h
    apply List.ext_getElem?
    intro j
    simp only [List.getElem?_take, List.getElem?_drop]
    by_cases hj : j < bs
    · rw [if_pos hj, if_pos hj]
      apply h
      · omega
      · rw [Nat.add_mul, Nat.one_mul]; omega
    · rw [if_neg hj, if_neg hj]

theorem blocksValid_pt (bs : Nat) (hbs : 0 < bs) (signed disk : List Byte) (a n : Nat) :
    blocksValid bs signed disk a n = true ↔
      ∀ i, a * bs ≤ i → i < (a + n) * bs → disk[i]? = signed[i]? := by
  induction n generalizing a with
  | zero =>
    simp only [blocksValid, Nat.add_zero, true_iff]
    intro i h1 h2
    omega
  | succ n ih =>
    rw [blocksValid, Bool.and_eq_true, blockValid_pt bs hbs, ih]
    have e1 : (a + 1 + n) * bs = (a + (n + 1)) * bs := by rw [Nat.add_assoc, Nat.add_comm 1 n]
    rw [e1]
    have e2 : (a + 1) * bs = a * bs + bs := by rw [Nat.add_mul, Nat.one_mul]
    constructor
    · rintro ⟨h1, h2⟩ i hi1 hi2
      by_cases hlt : i < (a + 1) * bs
      · exact h1 i hi1 hlt
      · exact h2 i (by omega) hi2
    · intro h
      constructor
      · intro i hi1 hi2
        apply h i hi1
        have : (a + (n + 1)) * bs = a * bs + bs + n * bs := by
          rw [Nat.add_mul, Nat.add_mul, Nat.one_mul]; omega
        omega
      · intro i hi1 hi2
        exact h i (by omega) hi2

/-- valid blocks from the one holding `lo` up to the one holding `hi`: agreement on `[lo, hi]`. -/
theorem blocksValid_cover (bs : Nat) (hbs : 0 < bs) (signed disk : List Byte) (lo hi : Nat) (hle : lo ≤ hi)
    (h : blocksValid bs signed disk (lo / bs) (hi / bs - lo / bs + 1) = true) :
    ∀ i, lo ≤ i → i ≤ hi → disk[i]? = signed[i]? := by
  intro i h1 h2
  rw [blocksValid_pt bs hbs] at h
  apply h i
  · have := block_lo bs lo; omega
  · have hd : lo / bs ≤ hi / bs := Nat.div_le_div_right hle
    have e : lo / bs + (hi / bs - lo / bs + 1) = hi / bs + 1 := by omega
    rw [e]
    have := block_hi bs hi hbs
    omega

theorem blockValid_cover (bs : Nat) (hbs : 0 < bs) (signed disk : List Byte) (p : Nat)
    (h : blockValid bs signed disk (p / bs) = true) : disk[p]? = signed[p]? := by
  rw [blockValid_pt bs hbs] at h
  exact h p (block_lo bs p) (block_hi bs p hbs)

/-- agreement from `off` on, the way `drop`/`take` sees it. -/
theorem drop_take_ext (disk signed : List Byte) (off len : Nat)
    (h : ∀ i, off ≤ i → i < off + len → disk[i]? = signed[i]?) :
    (disk.drop off).take len = (signed.drop off).take len := by
  apply List.ext_getElem?
  intro j
  simp only [List.getElem?_take, List.getElem?_drop]
  by_cases hj : j < len
  · rw [if_pos hj, if_pos hj]
    exact h _ (by omega) (by omega)
  · rw [if_neg hj, if_neg hj]

/-! ### reads through the safekeeper -/

/-- the verdict on the blocks holding the requested data -/
def touchedB (bs : Nat) (signed disk : List Byte) (off len : Nat) : Bool :=
  if min len (disk.length - off) = 0 then true
  else blocksValid bs signed disk (off / bs) ((off + min len (disk.length - off) - 1) / bs - off / bs + 1)

/-- the verdict of the end-of-file probe -/
def probeB (bs : Nat) (signed disk : List Byte) (off len : Nat) : Bool :=
  if off + len > disk.length then blockValid bs signed disk ((max off disk.length) / bs) else true

theorem skRead_eq (bs : Nat) (signed disk : List Byte) (off len : Nat) :
    skRead bs signed disk off len =
      if len = 0 then .ok [] else
      if (touchedB bs signed disk off len && probeB bs signed disk off len) = true
        then .ok ((disk.drop off).take len) else .err "safekeeper: block does not match the signature" := rfl

theorem skRead_ok (bs : Nat) (hbs : 0 < bs) (signed disk : List Byte) (off len : Nat) (b : List Byte)
    (h : skRead bs signed disk off len = .ok b) : b = (signed.drop off).take len := by
  rw [skRead_eq] at h
  by_cases hl : len = 0
  · rw [if_pos hl] at h
    cases h
    rw [hl, List.take_zero]
  · rw [if_neg hl] at h
    by_cases hc : (touchedB bs signed disk off len && probeB bs signed disk off len) = true
    · rw [if_pos hc] at h
      cases h
      rw [Bool.and_eq_true] at hc
      unfold touchedB probeB at hc
      obtain ⟨ht, hp⟩ := hc
      apply drop_take_ext
      intro i hi1 hi2
      by_cases hA : off + len > disk.length
      · -- the request reaches the end of the disk file: the probe says `signed` ends no later
        rw [if_pos hA] at hp
        have hprobe := blockValid_cover bs hbs signed disk _ hp
        have hdn : disk[max off disk.length]? = none := List.getElem?_eq_none (by omega)
        rw [hdn] at hprobe
        have hsl : signed.length ≤ max off disk.length := List.getElem?_eq_none_iff.1 hprobe.symm
        by_cases hi3 : i < disk.length
        · -- data bytes: covered by the touched blocks
          have hn : min len (disk.length - off) = disk.length - off := by omega
          rw [hn] at ht
          rw [if_neg (by omega)] at ht
          exact blocksValid_cover bs hbs signed disk off (off + (disk.length - off) - 1) (by omega) ht
            i hi1 (by omega)
        · rw [List.getElem?_eq_none (by omega), List.getElem?_eq_none (by omega)]
      · rw [if_neg hA] at hp
        have hn : min len (disk.length - off) = len := by omega
        rw [hn, if_neg hl] at ht
        exact blocksValid_cover bs hbs signed disk off (off + len - 1) (by omega) ht i hi1 (by omega)
    · rw [if_neg hc] at h
      cases h

theorem skReadAll_ok (bs : Nat) (hbs : 0 < bs) (signed disk b : List Byte)
    (h : skReadAll bs signed disk = .ok b) : b = signed := by
  unfold skReadAll at h
  split at h
  · rename_i hv
    cases h
    rw [blocksValid_pt bs hbs] at hv
    have hhi := block_hi bs disk.length hbs
    rw [Nat.zero_add] at hv
    have hend := hv disk.length (by omega) hhi
    rw [List.getElem?_eq_none (Nat.le_refl _)] at hend
    have hsl : signed.length ≤ disk.length := List.getElem?_eq_none_iff.1 hend.symm
    apply List.ext_getElem?
    intro i
    by_cases hi : i < disk.length
    · exact hv i (by omega) (by omega)
    · rw [List.getElem?_eq_none (by omega), List.getElem?_eq_none (by omega)]
  · cases h

/-! ### a pristine file passes -/

theorem blockValid_self (bs : Nat) (hbs : 0 < bs) (s : List Byte) (k : Nat) : blockValid bs s s k = true :=
  (blockValid_iff bs hbs s s k).2 rfl

theorem blocksValid_self (bs : Nat) (hbs : 0 < bs) (s : List Byte) (a n : Nat) : blocksValid bs s s a n = true := by
  induction n generalizing a with
  | zero => rfl
  | succ n ih => rw [blocksValid, blockValid_self bs hbs, ih]; rfl

theorem skRead_self (bs : Nat) (hbs : 0 < bs) (s : List Byte) (off len : Nat) :
    skRead bs s s off len = .ok ((s.drop off).take len) := by
  rw [skRead_eq]
  by_cases hl : len = 0
  · rw [if_pos hl, hl, List.take_zero]
  · rw [if_neg hl]
    unfold touchedB probeB
    simp only [blocksValid_self bs hbs, blockValid_self bs hbs, ite_self, Bool.and_self, if_true]

theorem skReadAll_self (bs : Nat) (hbs : 0 < bs) (s : List Byte) : skReadAll bs s s = .ok s := by
  unfold skReadAll
  rw [blocksValid_self bs hbs, if_pos rfl]

/-! ### replacing the pool of an environment -/

/-- the same application with another pool -/
abbrev withPool (E : Env) (Q : Pool) : Env := { E with pool := Q }

theorem bind_congr {α β} {x : Outcome α} {f g : α → Outcome β} (h : ∀ a, x = .ok a → f a = g a) :
    x.bind f = x.bind g := by
  cases x with
  | ok a => exact h a rfl
  | err e => rfl
  | panic p => rfl

theorem idx_lt (n : Nat) (i : Int) (site : String) (f : Nat) (h : idx n i site = .ok f) : f < n := by
  unfold idx at h
  split at h
  · cases h; omega
  · cases h

theorem isFullFileOp_lt (E : Env) (i : Nat) (op : SyncOp) (t : Nat) (h : isFullFileOp E i op = .ok (some t)) :
    t < E.oldSizes.size := by
  unfold isFullFileOp at h
  split at h
  · cases h
  · split at h
    · cases h
    · split at h
      · cases h
      · rename_i hr
        dsimp only at h
        split at h
        · cases h
        · split at h
          · cases h
            have : 0 ≤ op.fileIndex ∧ op.fileIndex < E.oldSizes.size := Decidable.not_not.1 hr
            omega
          · cases h

theorem isFullFileOp_withPool (E : Env) (Q : Pool) (i : Nat) (op : SyncOp) :
    isFullFileOp (withPool E Q) i op = isFullFileOp E i op := rfl

theorem skipOf_withPool (E : Env) (Q : Pool) (i : Nat) : skipOf (withPool E Q) i = skipOf E i := rfl

/-! ### pools that are equal on all in-range indices: equal results -/

/-- `P` and `Q` behave the same on every file index below `N`. -/
structure EqOn (N : Nat) (P Q : Pool) : Prop where
  nfiles : P.nfiles = Q.nfiles
  csize : ∀ f, P.csize f = Q.csize f
  read : ∀ f, f < N → ∀ off len, P.read f off len = Q.read f off len
  flen : ∀ f, f < N → P.flen f = Q.flen f
  readAll : ∀ f, f < N → P.readAll f = Q.readAll f

section eqOn
variable (E : Env) (Q : Pool) (N : Nat) (h : EqOn N E.pool Q) (hN : E.pool.nfiles ≤ N)
include h hN

theorem applyOp_eqOn (op : SyncOp) (w : List Byte) (reads : List Nat) :
    applyOp (withPool E Q) op w reads = applyOp E op w reads := by
  unfold applyOp
  by_cases ht : op.type = opBlockRange
  · rw [if_pos ht, if_pos ht, monad_bind_eq, monad_bind_eq]
    dsimp only
    rw [← h.nfiles]
    apply bind_congr
    intro f hf
    have hf' := idx_lt _ _ _ _ hf
    rw [← h.csize, ← h.read f (by omega)]
  · rw [if_neg ht, if_neg ht]

theorem rsyncLoop_eqOn (msgs : List WMsg) (w : List Byte) (reads : List Nat) :
    rsyncLoop (withPool E Q) msgs w reads = rsyncLoop E msgs w reads := by
  induction msgs generalizing w reads with
  | nil => rfl
  | cons m rest ih =>
    rw [rsyncLoop, rsyncLoop]
    simp only [applyOp_eqOn E Q N h hN, ih]

omit hN in
theorem applyControl_eqOn (t : Nat) (ht : t < N) (flen : Nat) (c : Control) (off : Int) (w : List Byte) :
    applyControl (withPool E Q) t flen c off w = applyControl E t flen c off w := by
  unfold applyControl
  dsimp only
  simp only [← h.read t ht]

omit hN in
theorem bsdiffLoop_eqOn (t : Nat) (ht : t < N) (flen : Nat) (msgs : List WMsg) (off : Int) (w : List Byte) :
    bsdiffLoop (withPool E Q) t flen msgs off w = bsdiffLoop E t flen msgs off w := by
  induction msgs generalizing off w with
  | nil => rfl
  | cons m rest ih =>
    rw [bsdiffLoop, bsdiffLoop]
    simp only [applyControl_eqOn E Q N h t ht, ih]

omit hN in
theorem procFull_eqOn (i t : Nat) (ht : t < N) (rest1 : List WMsg) (r : Res) :
    procFull (withPool E Q) i t rest1 r = procFull E i t rest1 r := by
  unfold procFull
  dsimp only
  rw [← h.readAll t ht]

theorem procRelay_eqOn (i : Nat) (op : SyncOp) (rest1 : List WMsg) (r : Res) :
    procRelay (withPool E Q) i op rest1 r = procRelay E i op rest1 r := by
  unfold procRelay
  simp only [applyOp_eqOn E Q N h hN, rsyncLoop_eqOn E Q N h hN]

theorem procRsync_eqOn (hO : E.oldSizes.size ≤ N) (i : Nat) (rest : List WMsg) (r : Res) :
    procRsync (withPool E Q) i rest r = procRsync E i rest r := by
  cases rest with
  | nil => rfl
  | cons om rest1 =>
    unfold procRsync
    dsimp only
    rw [isFullFileOp_withPool]
    apply bind_congr
    intro full hfull
    cases full with
    | some t =>
      have := isFullFileOp_lt E i _ t hfull
      exact procFull_eqOn E Q N h i t (by omega) rest1 r
    | none => exact procRelay_eqOn E Q N h hN i _ rest1 r

theorem procBsdiff_eqOn (i : Nat) (rest : List WMsg) (r : Res) :
    procBsdiff (withPool E Q) i rest r = procBsdiff E i rest r := by
  cases rest with
  | nil => rfl
  | cons bm rest1 =>
    unfold procBsdiff
    dsimp only
    rw [← h.nfiles]
    apply bind_congr
    intro t ht
    have ht' : t < N := by have := idx_lt _ _ _ _ ht; omega
    rw [← h.flen t ht']
    simp only [bsdiffLoop_eqOn E Q N h t ht']

theorem processFile_eqOn (hO : E.oldSizes.size ≤ N) (i : Nat) (msgs : List WMsg) (r : Res) :
    processFile (withPool E Q) i msgs r = processFile E i msgs r := by
  cases msgs with
  | nil => rfl
  | cons hm rest =>
    rw [processFile_cons, processFile_cons, skipOf_withPool, procRsync_eqOn E Q N h hN hO,
      procBsdiff_eqOn E Q N h hN]

theorem patchFrom_eqOn (hO : E.oldSizes.size ≤ N) (n i : Nat) (msgs : List WMsg) (r : Res) :
    patchFrom (withPool E Q) n i msgs r = patchFrom E n i msgs r := by
  induction n generalizing i msgs r with
  | zero => rfl
  | succ n ih =>
    rw [patchFrom, patchFrom, processFile_eqOn E Q N h hN hO]
    split
    · exact ih _ _ _
    · rfl
    · rfl

end eqOn

/-! ### pools that agree whenever both succeed: equal results whenever both runs succeed -/

/-- `P` and `Q` never both succeed with different answers (lengths are not compared). -/
structure Compat (P Q : Pool) : Prop where
  nfiles : P.nfiles = Q.nfiles
  csize : ∀ f, P.csize f = Q.csize f
  read : ∀ f off len a b, P.read f off len = .ok a → Q.read f off len = .ok b → a = b
  readAll : ∀ f a b, P.readAll f = .ok a → Q.readAll f = .ok b → a = b

section compat
variable (E : Env) (Q : Pool) (h : Compat E.pool Q)
include h

theorem applyOp_compat (op : SyncOp) (w : List Byte) (reads : List Nat) (x y : List Byte × List Nat)
    (h1 : applyOp E op w reads = .ok x) (h2 : applyOp (withPool E Q) op w reads = .ok y) : x = y := by
  unfold applyOp at h1 h2
  by_cases ht : op.type = opBlockRange
  · rw [if_pos ht, monad_bind_eq] at h1 h2
    obtain ⟨f1, hf1, h1⟩ := bind_eq_ok h1
    obtain ⟨f2, hf2, h2⟩ := bind_eq_ok h2
    dsimp only at hf2 h1 h2
    rw [← h.nfiles, hf1] at hf2
    cases hf2
    rw [← h.csize] at h2
    split at h1
    · cases h1
    · rename_i hoff
      rw [if_neg hoff] at h2
      split at h1
      · rename_i b1 hr1
        split at h2
        · rename_i b2 hr2
          have := h.read _ _ _ _ _ hr1 hr2
          subst this
          cases h1; cases h2; rfl
        · cases h2
        · cases h2
      · cases h1
      · cases h1
  · rw [if_neg ht] at h1 h2
    rw [h1] at h2
    cases h2; rfl

theorem rsyncLoop_compat (msgs : List WMsg) (w : List Byte) (reads : List Nat)
    (x y : List WMsg × List Byte × List Nat)
    (h1 : rsyncLoop E msgs w reads = .ok x) (h2 : rsyncLoop (withPool E Q) msgs w reads = .ok y) : x = y := by
  induction msgs generalizing w reads with
  | nil => cases h1
  | cons m rest ih =>
    rw [rsyncLoop] at h1 h2
    by_cases hty : (asSyncOp m).type = heyYouDidIt
    · rw [if_pos hty] at h1 h2
      cases h1; cases h2; rfl
    · rw [if_neg hty] at h1 h2
      split at h1
      · rename_i w1 reads1 hop1
        split at h2
        · rename_i w2 reads2 hop2
          have := applyOp_compat E Q h _ _ _ _ _ hop1 hop2
          cases this
          exact ih _ _ h1 h2
        · cases h2
        · cases h2
      · cases h1
      · cases h1

theorem applyControl_compat (t fl1 fl2 : Nat) (c : Control) (off : Int) (w : List Byte) (x y : Int × List Byte)
    (h1 : applyControl E t fl1 c off w = .ok x) (h2 : applyControl (withPool E Q) t fl2 c off w = .ok y) :
    x = y := by
  unfold applyControl at h1 h2
  split at h1
  · cases h1
  · split at h2
    · cases h2
    · dsimp only at h1 h2
      rw [monad_bind_eq] at h1 h2
      obtain ⟨a1, ha1, h1⟩ := bind_eq_ok h1
      obtain ⟨a2, ha2, h2⟩ := bind_eq_ok h2
      cases h1; cases h2
      suffices a1 = a2 by rw [this]
      by_cases hn : c.add.length > 0
      · rw [if_pos hn] at ha1 ha2
        split at ha1
        · rename_i b1 hr1
          split at ha2
          · rename_i b2 hr2
            have := h.read _ _ _ _ _ hr1 hr2
            subst this
            rw [ha1] at ha2
            cases ha2; rfl
          · cases ha2
          · cases ha2
        · cases ha1
        · cases ha1
      · rw [if_neg hn] at ha1 ha2
        cases ha1; cases ha2; rfl

theorem bsdiffLoop_compat (t fl1 fl2 : Nat) (msgs : List WMsg) (off : Int) (w : List Byte)
    (x y : List WMsg × List Byte)
    (h1 : bsdiffLoop E t fl1 msgs off w = .ok x) (h2 : bsdiffLoop (withPool E Q) t fl2 msgs off w = .ok y) :
    x = y := by
  induction msgs generalizing off w with
  | nil => cases h1
  | cons m rest ih =>
    rw [bsdiffLoop] at h1 h2
    by_cases hty : (asControl m).eof = true
    · rw [if_pos hty] at h1 h2
      cases h1; cases h2; rfl
    · rw [if_neg hty] at h1 h2
      split at h1
      · rename_i o1 w1 hc1
        split at h2
        · rename_i o2 w2 hc2
          have := applyControl_compat E Q h _ _ _ _ _ _ _ _ hc1 hc2
          cases this
          exact ih _ _ h1 h2
        · cases h2
        · cases h2
      · cases h1
      · cases h1

theorem procFull_compat (i t : Nat) (rest1 : List WMsg) (r : Res) (x y : List WMsg × Res)
    (h1 : procFull E i t rest1 r = .ok x) (h2 : procFull (withPool E Q) i t rest1 r = .ok y) : x = y := by
  unfold procFull at h1 h2
  dsimp only at h2
  split at h1
  · cases h1
  · cases h1
  · rename_i b1 hr1
    split at h2
    · cases h2
    · cases h2
    · rename_i b2 hr2
      have := h.readAll _ _ _ hr1 hr2
      subst this
      rw [h1] at h2
      cases h2; rfl

theorem procRelay_compat (i : Nat) (op : SyncOp) (rest1 : List WMsg) (r : Res) (x y : List WMsg × Res)
    (h1 : procRelay E i op rest1 r = .ok x) (h2 : procRelay (withPool E Q) i op rest1 r = .ok y) : x = y := by
  unfold procRelay at h1 h2
  dsimp only at h1 h2
  by_cases hty : op.type = heyYouDidIt
  · rw [if_pos hty] at h1; cases h1
  · rw [if_neg hty] at h1 h2
    obtain ⟨⟨w1, rd1⟩, hop1, h1⟩ := bind_eq_ok h1
    obtain ⟨⟨w2, rd2⟩, hop2, h2⟩ := bind_eq_ok h2
    have := applyOp_compat E Q h _ _ _ _ _ hop1 hop2
    cases this
    dsimp only at h1 h2
    obtain ⟨⟨ra, wa, rda⟩, hl1, h1⟩ := bind_eq_ok h1
    obtain ⟨⟨rb, wb, rdb⟩, hl2, h2⟩ := bind_eq_ok h2
    have := rsyncLoop_compat E Q h _ _ _ _ _ hl1 hl2
    cases this
    dsimp only at h1 h2
    rw [h1] at h2
    cases h2; rfl

theorem procRsync_compat (i : Nat) (rest : List WMsg) (r : Res) (x y : List WMsg × Res)
    (h1 : procRsync E i rest r = .ok x) (h2 : procRsync (withPool E Q) i rest r = .ok y) : x = y := by
  cases rest with
  | nil => cases h1
  | cons om rest1 =>
    unfold procRsync at h1 h2
    dsimp only at h1 h2
    rw [isFullFileOp_withPool] at h2
    obtain ⟨full1, hf1, h1⟩ := bind_eq_ok h1
    obtain ⟨full2, hf2, h2⟩ := bind_eq_ok h2
    rw [hf1] at hf2
    cases hf2
    cases full1 with
    | some t => exact procFull_compat E Q h i t rest1 r x y h1 h2
    | none => exact procRelay_compat E Q h i _ rest1 r x y h1 h2

theorem procBsdiff_compat (i : Nat) (rest : List WMsg) (r : Res) (x y : List WMsg × Res)
    (h1 : procBsdiff E i rest r = .ok x) (h2 : procBsdiff (withPool E Q) i rest r = .ok y) : x = y := by
  cases rest with
  | nil => cases h1
  | cons bm rest1 =>
    unfold procBsdiff at h1 h2
    dsimp only at h1 h2
    rw [← h.nfiles] at h2
    obtain ⟨t1, ht1, h1⟩ := bind_eq_ok h1
    obtain ⟨t2, ht2, h2⟩ := bind_eq_ok h2
    rw [ht1] at ht2
    cases ht2
    split at h1
    · cases h1
    · cases h1
    · rename_i fl1 hfl1
      split at h2
      · cases h2
      · cases h2
      · rename_i fl2 hfl2
        obtain ⟨⟨ra, wa⟩, hl1, h1⟩ := bind_eq_ok h1
        obtain ⟨⟨rb, wb⟩, hl2, h2⟩ := bind_eq_ok h2
        have := bsdiffLoop_compat E Q h _ _ _ _ _ _ _ _ hl1 hl2
        cases this
        dsimp only at h1 h2
        rw [h1] at h2
        cases h2; rfl

theorem processFile_compat (i : Nat) (msgs : List WMsg) (r : Res) (x y : List WMsg × Res)
    (h1 : processFile E i msgs r = .ok x) (h2 : processFile (withPool E Q) i msgs r = .ok y) : x = y := by
  cases msgs with
  | nil => cases h1
  | cons hm rest =>
    rw [processFile_cons] at h1 h2
    rw [skipOf_withPool] at h2
    by_cases c1 : (asSyncHeader hm).fileIndex ≠ i
    · rw [if_pos c1] at h1; cases h1
    · rw [if_neg c1] at h1 h2
      by_cases c2 : (asSyncHeader hm).type ≠ kindRsync ∧ (asSyncHeader hm).type ≠ kindBsdiff
      · rw [if_pos c2] at h1; cases h1
      · rw [if_neg c2] at h1 h2
        by_cases c3 : skipOf E i = true
        · rw [if_pos c3] at h1 h2
          rw [h1] at h2
          cases h2; rfl
        · rw [if_neg c3] at h1 h2
          by_cases c4 : (asSyncHeader hm).type = kindRsync
          · rw [if_pos c4] at h1 h2
            exact procRsync_compat E Q h i rest r x y h1 h2
          · rw [if_neg c4] at h1 h2
            exact procBsdiff_compat E Q h i rest r x y h1 h2

theorem patchFrom_compat (n i : Nat) (msgs : List WMsg) (r x y : Res)
    (h1 : patchFrom E n i msgs r = .ok x) (h2 : patchFrom (withPool E Q) n i msgs r = .ok y) : x = y := by
  induction n generalizing i msgs r with
  | zero =>
    rw [patchFrom_zero] at h1 h2
    cases h1; cases h2; rfl
  | succ n ih =>
    obtain ⟨rest1, r1, hp1, h1⟩ := patchFrom_succ_inv _ _ _ _ _ _ h1
    obtain ⟨rest2, r2, hp2, h2⟩ := patchFrom_succ_inv _ _ _ _ _ _ h2
    have := processFile_compat E Q h i msgs r _ _ hp1 hp2
    cases this
    exact ih _ _ _ h1 h2

end compat

/-! ### the safekeeper pool against the plain pool -/

theorem getD_map_some (signed : Array (List Byte)) (f : Nat) (hf : f < signed.size) :
    (signed.map some).getD f none = some (signed.getD f []) := by
  simp [Array.getD, hf]

/-- on a pristine old build the safekeeper pool is the plain pool, for every index the patcher may use. -/
theorem eqOn_pristine (bs : Nat) (hbs : 0 < bs) (signed : Array (List Byte)) :
    EqOn signed.size (plainPool signed) (skPool bs signed (signed.map some)) where
  nfiles := rfl
  csize := fun _ => rfl
  read := by
    intro f hf off len
    show _ = (match (signed.map some).getD f none with
      | none => Outcome.err "cannot open"
      | some d => skRead bs (signed.getD f []) d off len)
    rw [getD_map_some signed f hf]
    exact (skRead_self bs hbs _ off len).symm
  flen := by
    intro f hf
    show _ = (match (signed.map some).getD f none with
      | none => Outcome.err "cannot open"
      | some d => Outcome.ok d.length)
    rw [getD_map_some signed f hf]
    rfl
  readAll := by
    intro f hf
    show _ = (match (signed.map some).getD f none with
      | none => Outcome.err "cannot open"
      | some d => skReadAll bs (signed.getD f []) d)
    rw [getD_map_some signed f hf]
    exact (skReadAll_self bs hbs _).symm

/-- whatever is on disk, the safekeeper pool never succeeds with something else than the plain pool. -/
theorem compat_sk (bs : Nat) (hbs : 0 < bs) (signed : Array (List Byte)) (disk : Array (Option (List Byte))) :
    Compat (plainPool signed) (skPool bs signed disk) where
  nfiles := rfl
  csize := fun _ => rfl
  read := by
    intro f off len a b h1 h2
    cases h1
    change (match disk.getD f none with
      | none => Outcome.err "cannot open"
      | some d => skRead bs (signed.getD f []) d off len) = Outcome.ok b at h2
    split at h2
    · cases h2
    · exact (skRead_ok bs hbs _ _ off len b h2).symm
  readAll := by
    intro f a b h1 h2
    cases h1
    change (match disk.getD f none with
      | none => Outcome.err "cannot open"
      | some d => skReadAll bs (signed.getD f []) d) = Outcome.ok b at h2
    split at h2
    · cases h2
    · exact (skReadAll_ok bs hbs _ _ b h2).symm

end Wharf.SafeKeeperProofs
