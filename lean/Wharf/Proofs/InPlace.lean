/-
  Helpers for the end-to-end statement of C02 (Wharf/Props/C02E2E.lean): the bowl calls made by the
  message-level patcher on the patch written by the differ, and the `Work` record the overlay bowl derives
  from them.

  Part 1 (namespace `Wharf.Patch`) strengthens the C01 round trip (`patch_fresh`) with a characterisation of
  `Res.calls`: exactly one call per new file, in order; `getWriter i`, or `transpose i t` where old file `t`
  has exactly the content of new file `i`.  Nothing in Wharf/Proofs/PatchFresh.lean is changed; the lemmas here
  are new.

  Part 2 (namespace `Wharf.Commit`) folds such a list of calls with `recordWriter`/`recordTranspose` and shows
  that the result satisfies `WOK` (the mirror of `Wharf.C02.WorkOK`).
-/
import Wharf.Model.Patch
import Wharf.Model.Commit
import Wharf.Proofs.PatchFresh
import Wharf.Proofs.Commit

namespace Wharf.Patch
open Wharf Wharf.Rsync

/-! ### Part 1: the calls of the patcher on a written patch -/

/-- The bowl call the patcher may make for new file `i` with content `src`: a writer, or a whole-file copy
    of an old file whose content is exactly `src`. -/
def CallOK (olds : List (String × Content)) (i : Nat) (src : Content) : BowlCall → Prop
  | .getWriter j => j = i
  | .transpose s t => s = i ∧ ∃ o, olds[t]? = some o ∧ o.2.toList = src.toList

/-- One call per new file, in container order, starting at index `i`. -/
def CallsOK (olds : List (String × Content)) : Nat → List (String × Content) → List BowlCall → Prop
  | _, [], [] => True
  | i, (_, src) :: post, c :: cs => CallOK olds i src c ∧ CallsOK olds (i + 1) post cs
  | _, _, _ => False

theorem olds_get' {olds : List (String × Content)} {f : Nat} {old : Content}
    (h : (olds.map (·.2)).toArray[f]? = some old) : ∃ o, olds[f]? = some o ∧ o.2 = old := by
  simp only [List.getElem?_toArray, List.getElem?_map, Option.map_eq_some_iff] at h
  exact h

/-- `processFile_series` with the call recorded for the file. -/
theorem processFile_series_calls {bs : Nat} (hbs : 0 < bs) (olds news : List (String × Content)) (i : Nat)
    (src : Content) (hsz : (news.map (·.2.size)).toArray.getD i 0 = src.size)
    (ops : List Op) (hne : ops ≠ []) (hv : ∀ op ∈ ops, VOp bs (olds.map (·.2)).toArray src op)
    (hr : replay bs (olds.map (·.2)).toArray src ops = src.toList) (rest : List WMsg) (r : Res) :
    ∃ r' c, processFile (freshEnv bs olds news none) i
        (mkSyncHeader kindRsync i :: (ops.map (opMsg src) ++ mkHey :: rest)) r = .ok (rest, r') ∧
      r'.calls = r.calls ++ [c] ∧ CallOK olds i src c := by
  cases ops with
  | nil => exact absurd rfl hne
  | cons op ops' =>
    have hrep : opBytes bs (olds.map (·.2)).toArray src op ++ replay bs (olds.map (·.2)).toArray src ops' =
        src.toList := by
      rw [← hr]; simp [replay]
    rw [List.map_cons, List.cons_append, processFile]
    simp only [asSyncHeader_mk]
    simp only [freshEnv_whitelist, kindRsync, ne_eq, not_true_eq_false, if_false, false_and,
      if_true, Bool.false_eq_true]
    rcases isFullFileOp_cases bs olds news none i src op with hnone | ⟨t, sp, rfl, hs, hsp, hfull⟩
    · rw [hnone, ok_bind']
      simp only [if_neg (opMsg_type_ne_hey src op)]
      obtain ⟨r1, h1⟩ := applyOp_opMsg olds news none src op (hv op List.mem_cons_self) [] r.reads
      obtain ⟨r2, h2⟩ := rsyncLoop_ops olds news none src rest ops'
        (fun o ho => hv o (List.mem_cons_of_mem _ ho)) ([] ++ opBytes bs (olds.map (·.2)).toArray src op) r1
      rw [h1, ok_bind']
      simp only
      rw [h2, ok_bind']
      exact ⟨_, .getWriter i, rfl, rfl, rfl⟩
    · obtain ⟨old, ho, hsp0, hnb⟩ := hv _ List.mem_cons_self
      obtain ⟨hf, hl, hsz'⟩ := olds_get ho
      obtain ⟨o, hoo, ho2⟩ := olds_get' ho
      have hsize : old.size = src.size := by rw [← hsz', hs, hsz]
      have hob : opBytes bs (olds.map (·.2)).toArray src (.range t 0 sp) = old.toList := by
        rw [opBytes_range hbs src ho hsp0 hnb, full_span hbs old.size sp hsp0 (by rw [hsp, hsz, hsize]),
          Nat.mul_zero]
        rfl
      have hold : old.toList = src.toList := by
        rw [hob] at hrep
        have hlen := congrArg List.length hrep
        rw [List.length_append, toList_length, toList_length, hsize] at hlen
        have hnil : replay bs (olds.map (·.2)).toArray src ops' = [] := List.eq_nil_of_length_eq_zero (by omega)
        rw [hnil, List.append_nil] at hrep
        exact hrep
      have hread : (freshEnv bs olds news none).pool.readAll t = .ok old.toList := by
        simp only [freshEnv, plainPool, hl]
      rw [hfull, ok_bind']
      simp only [hread, skipOps_ops, ok_bind']
      exact ⟨_, .transpose i t, rfl, rfl, rfl, o, hoo, by rw [ho2]; exact hold⟩

/-- `patchFrom_fresh` with the calls. -/
theorem patchFrom_fresh_calls (P : Params) (hbs : 0 < P.bs) (hmx : 0 < P.maxDataOp)
    (olds news : List (String × Content)) :
    ∀ (post pre : List (String × Content)), news = pre ++ post → ∀ (r : Res),
    ∃ r' cs, patchFrom (freshEnv P.bs olds news none) post.length pre.length
        ((diffAll P olds pre.length post).flatMap series) r = .ok r' ∧
      r'.calls = r.calls ++ cs ∧ CallsOK olds pre.length post cs
  | [], pre, _, r => ⟨r, [], by simp [patchFrom, CallsOK]⟩
  | (path, src) :: post, pre, hn, r => by
    obtain ⟨hgood, hrep⟩ := C11.computeDiff_spec P hbs hmx (olds.map (·.2)) src (prefOf (olds.map (·.1)) path)
    have hne := computeDiff_ne_nil P hbs hmx (olds.map (·.2)) src (prefOf (olds.map (·.1)) path)
    have hsz : (news.map (·.2.size)).toArray.getD pre.length 0 = src.size := by
      rw [hn]; exact newSize_get pre post path src
    obtain ⟨r1, c, h1, hc1, hok1⟩ := processFile_series_calls hbs olds news pre.length src hsz _ hne hgood.valid
      hrep ((diffAll P olds (pre.length + 1) post).flatMap series) r
    obtain ⟨r2, cs, h2, hc2, hok2⟩ := patchFrom_fresh_calls P hbs hmx olds news post (pre ++ [(path, src)])
      (by rw [hn]; simp) r1
    rw [List.length_append, List.length_singleton] at h2 hok2
    refine ⟨r2, c :: cs, ?_, ?_, ?_⟩
    · rw [diffAll, List.flatMap_cons, List.length_cons, patchFrom]
      simp only [series, List.cons_append, List.append_assoc, List.nil_append]
      rw [h1]
      exact h2
    · rw [hc2, hc1, List.append_assoc]; rfl
    · exact ⟨hok1, hok2⟩

/-- C01's round trip, with the bowl calls: one per new file, in order, each a writer or a whole-file copy of an
    old file with exactly the new file's content. -/
theorem patch_fresh_calls (P : Params) (hbs : 0 < P.bs) (hmx : 0 < P.maxDataOp)
    (olds news : List (String × Content)) :
    ∃ r, patch (freshEnv P.bs olds news none) (writePatch P olds news) = .ok r ∧
      CallsOK olds 0 news r.calls := by
  obtain ⟨r, cs, h, hc, hok⟩ := patchFrom_fresh_calls P hbs hmx olds news news [] rfl {}
  refine ⟨r, ?_, ?_⟩
  · rw [patch, writePatch_eq, freshEnv_newSizes, List.size_toArray, List.length_map]
    exact h
  · have : r.calls = cs := by rw [hc]; rfl
    rw [this]
    exact hok

theorem ofList_toList (d : List Byte) : (Content.ofList d).toList = d := by
  apply List.ext_getElem?
  intro k
  rw [Content.toList, slice_getElem?]
  simp only [Content.ofList, Nat.zero_add]
  by_cases h : k < d.length
  · simp [h, List.getD_eq_getElem?_getD]
  · simp [h]

end Wharf.Patch

namespace Wharf.Commit
open Wharf Wharf.FS

/-! ### Part 2: the work recorded from the calls -/

/-- what the overlay bowl records for one call (`GetWriter` / `Transpose`) -/
def workStep (old new : Build) (w : Work) : Patch.BowlCall → Work
  | .getWriter i => recordWriter old new w i
  | .transpose s t => recordTranspose w s t

/-- the work recorded for a sequence of calls, starting from nothing -/
def workOfCalls (old new : Build) (calls : List Patch.BowlCall) : Work :=
  calls.foldl (workStep old new) {}

/-- the call made for new file `n`, in terms of the builds -/
def CallFor (old new : Build) (n : Nat) : Patch.BowlCall → Prop
  | .getWriter j => j = n
  | .transpose s t => s = n ∧ ∃ np op d, new.files[n]? = some (np, d) ∧ old.files[t]? = some (op, d)

/-- calls for new files `n, n+1, …, n+k-1`, one each, in order -/
def CallsFor (old new : Build) : Nat → Nat → List Patch.BowlCall → Prop
  | _, 0, [] => True
  | n, k + 1, c :: cs => CallFor old new n c ∧ CallsFor old new (n + 1) k cs
  | _, _, _ => False

/-- `WOK` restricted to the new files `< n` (the invariant of the patching phase). -/
structure POK (old new : Build) (n : Nat) (w : Work) : Prop where
  cover : ∀ i, i < n → i ∈ w.transpositions.map (·.1) ∨ i ∈ w.overlayFiles ∨ i ∈ w.moveFiles
  ltT : ∀ i, i ∈ w.transpositions.map (·.1) → i < n
  ltO : ∀ i, i ∈ w.overlayFiles → i < n
  ltM : ∀ i, i ∈ w.moveFiles → i < n
  excl₁ : ∀ i, i ∈ w.transpositions.map (·.1) → i ∉ w.overlayFiles ∧ i ∉ w.moveFiles
  excl₂ : ∀ i, i ∈ w.overlayFiles → i ∉ w.moveFiles
  nodupT : (w.transpositions.map (·.1)).Nodup
  nodupO : w.overlayFiles.Nodup
  nodupM : w.moveFiles.Nodup
  transp : ∀ st ∈ w.transpositions, ∃ np op d, new.files[st.1]? = some (np, d) ∧ old.files[st.2]? = some (op, d)
  overlay : ∀ i ∈ w.overlayFiles, ∃ p d, new.files[i]? = some (p, d) ∧ p ∈ old.files.map (·.1)
  move : ∀ i ∈ w.moveFiles, ∃ p d, new.files[i]? = some (p, d) ∧ p ∉ old.files.map (·.1)

theorem POK.empty (old new : Build) : POK old new 0 {} := by
  refine ⟨?_, ?_, ?_, ?_, ?_, ?_, ?_, ?_, ?_, ?_, ?_, ?_⟩ <;> simp

theorem any_path_iff (fs : List (Path × List Byte)) (p : Path) :
    fs.any (·.1 == p) = true ↔ p ∈ fs.map (·.1) := by
  rw [List.any_eq_true, List.mem_map]
  constructor
  · rintro ⟨x, hx, h⟩
    exact ⟨x, hx, by simpa using h⟩
  · rintro ⟨x, hx, h⟩
    exact ⟨x, hx, by simpa using h⟩

theorem nodup_snoc {l : List Nat} {n : Nat} (h : l.Nodup) (hn : n ∉ l) : (l ++ [n]).Nodup := by
  rw [List.nodup_append]
  refine ⟨h, by simp, ?_⟩
  intro a ha b hb
  rw [List.mem_singleton] at hb
  subst hb
  intro hab
  subst hab
  exact hn ha

theorem POK.step_transpose {old new : Build} {n : Nat} {w : Work} (h : POK old new n w) (t : Nat)
    (hc : ∃ np op d, new.files[n]? = some (np, d) ∧ old.files[t]? = some (op, d)) :
    POK old new (n + 1) (recordTranspose w n t) := by
  have hnT : n ∉ w.transpositions.map (·.1) := fun hm => Nat.lt_irrefl _ (h.ltT n hm)
  have hany : w.transpositions.any (·.1 == n) = false := by
    rw [List.any_eq_false]
    intro x hx hb
    apply hnT
    rw [List.mem_map]
    exact ⟨x, hx, by simpa using hb⟩
  have hrec : recordTranspose w n t = { w with transpositions := w.transpositions ++ [(n, t)] } := by
    unfold recordTranspose
    rw [hany]
    rfl
  rw [hrec]
  refine ⟨?_, ?_, ?_, ?_, ?_, ?_, ?_, h.nodupO, h.nodupM, ?_, h.overlay, h.move⟩
  · intro i hi
    simp only [List.map_append, List.map_cons, List.map_nil, List.mem_append, List.mem_singleton]
    by_cases hin : i < n
    · rcases h.cover i hin with h1 | h1 | h1
      · exact .inl (.inl h1)
      · exact .inr (.inl h1)
      · exact .inr (.inr h1)
    · exact .inl (.inr (by omega))
  · intro i hi
    simp only [List.map_append, List.map_cons, List.map_nil, List.mem_append, List.mem_singleton] at hi
    rcases hi with hi | hi
    · have := h.ltT i hi; omega
    · omega
  · intro i hi
    have := h.ltO i hi; omega
  · intro i hi
    have := h.ltM i hi; omega
  · intro i hi
    simp only [List.map_append, List.map_cons, List.map_nil, List.mem_append, List.mem_singleton] at hi
    rcases hi with hi | hi
    · exact h.excl₁ i hi
    · subst hi
      exact ⟨fun hm => Nat.lt_irrefl _ (h.ltO _ hm), fun hm => Nat.lt_irrefl _ (h.ltM _ hm)⟩
  · exact h.excl₂
  · simp only [List.map_append, List.map_cons, List.map_nil]
    exact nodup_snoc h.nodupT hnT
  · intro st hst
    simp only [List.mem_append, List.mem_singleton] at hst
    rcases hst with hst | hst
    · exact h.transp st hst
    · subst hst
      exact hc

theorem POK.step_writer {old new : Build} {n : Nat} {w : Work} (h : POK old new n w)
    (hn : n < new.files.length) : POK old new (n + 1) (recordWriter old new w n) := by
  have hnT : n ∉ w.transpositions.map (·.1) := fun hm => Nat.lt_irrefl _ (h.ltT n hm)
  have hnO : n ∉ w.overlayFiles := fun hm => Nat.lt_irrefl _ (h.ltO n hm)
  have hnM : n ∉ w.moveFiles := fun hm => Nat.lt_irrefl _ (h.ltM n hm)
  obtain ⟨⟨p, d⟩, hpd⟩ : ∃ x, new.files[n]? = some x := ⟨new.files[n], List.getElem?_eq_getElem hn⟩
  unfold recordWriter
  rw [hpd]
  simp only
  by_cases hex : old.files.any (·.1 == p) = true
  · rw [if_pos hex]
    have hrec : markOverlay w n = { w with overlayFiles := w.overlayFiles ++ [n] } := by
      unfold markOverlay
      rw [if_neg (by simpa using hnO)]
    rw [hrec]
    refine ⟨?_, ?_, ?_, ?_, ?_, ?_, h.nodupT, ?_, h.nodupM, h.transp, ?_, h.move⟩
    · intro i hi
      simp only [List.mem_append, List.mem_singleton]
      by_cases hin : i < n
      · rcases h.cover i hin with h1 | h1 | h1
        · exact .inl h1
        · exact .inr (.inl (.inl h1))
        · exact .inr (.inr h1)
      · exact .inr (.inl (.inr (by omega)))
    · intro i hi
      have := h.ltT i hi; omega
    · intro i hi
      simp only [List.mem_append, List.mem_singleton] at hi
      rcases hi with hi | hi
      · have := h.ltO i hi; omega
      · omega
    · intro i hi
      have := h.ltM i hi; omega
    · intro i hi
      simp only [List.mem_append, List.mem_singleton]
      refine ⟨?_, (h.excl₁ i hi).2⟩
      rintro (h1 | h1)
      · exact (h.excl₁ i hi).1 h1
      · subst h1; exact hnT hi
    · intro i hi
      simp only [List.mem_append, List.mem_singleton] at hi
      rcases hi with hi | hi
      · exact h.excl₂ i hi
      · subst hi; exact hnM
    · exact nodup_snoc h.nodupO hnO
    · intro i hi
      simp only [List.mem_append, List.mem_singleton] at hi
      rcases hi with hi | hi
      · exact h.overlay i hi
      · subst hi
        exact ⟨p, d, hpd, (any_path_iff _ _).1 hex⟩
  · rw [if_neg hex]
    have hrec : markMove w n = { w with moveFiles := w.moveFiles ++ [n] } := by
      unfold markMove
      rw [if_neg (by simpa using hnM)]
    rw [hrec]
    refine ⟨?_, ?_, ?_, ?_, ?_, ?_, h.nodupT, h.nodupO, ?_, h.transp, h.overlay, ?_⟩
    · intro i hi
      simp only [List.mem_append, List.mem_singleton]
      by_cases hin : i < n
      · rcases h.cover i hin with h1 | h1 | h1
        · exact .inl h1
        · exact .inr (.inl h1)
        · exact .inr (.inr (.inl h1))
      · exact .inr (.inr (.inr (by omega)))
    · intro i hi
      have := h.ltT i hi; omega
    · intro i hi
      have := h.ltO i hi; omega
    · intro i hi
      simp only [List.mem_append, List.mem_singleton] at hi
      rcases hi with hi | hi
      · have := h.ltM i hi; omega
      · omega
    · intro i hi
      simp only [List.mem_append, List.mem_singleton]
      refine ⟨(h.excl₁ i hi).1, ?_⟩
      rintro (h1 | h1)
      · exact (h.excl₁ i hi).2 h1
      · subst h1; exact hnT hi
    · intro i hi
      simp only [List.mem_append, List.mem_singleton]
      rintro (h1 | h1)
      · exact h.excl₂ i hi h1
      · subst h1; exact hnO hi
    · exact nodup_snoc h.nodupM hnM
    · intro i hi
      simp only [List.mem_append, List.mem_singleton] at hi
      rcases hi with hi | hi
      · exact h.move i hi
      · subst hi
        exact ⟨p, d, hpd, fun hm => hex ((any_path_iff _ _).2 hm)⟩

theorem POK.step {old new : Build} {n : Nat} {w : Work} (h : POK old new n w) (hn : n < new.files.length)
    {c : Patch.BowlCall} (hc : CallFor old new n c) : POK old new (n + 1) (workStep old new w c) := by
  cases c with
  | getWriter j =>
    simp only [CallFor] at hc
    subst hc
    exact h.step_writer hn
  | transpose s t =>
    simp only [CallFor] at hc
    obtain ⟨rfl, hc⟩ := hc
    exact h.step_transpose t hc

theorem POK.fold {old new : Build} : ∀ (k n : Nat) (cs : List Patch.BowlCall) (w : Work),
    POK old new n w → n + k ≤ new.files.length → CallsFor old new n k cs →
    POK old new (n + k) (cs.foldl (workStep old new) w)
  | 0, n, [], w, h, _, _ => h
  | 0, _, _ :: _, _, _, _, hc => by simp [CallsFor] at hc
  | k + 1, _, [], _, _, _, hc => by simp [CallsFor] at hc
  | k + 1, n, c :: cs, w, h, hn, hc => by
    obtain ⟨hc1, hc2⟩ := hc
    have := POK.fold k (n + 1) cs _ (h.step (by omega) hc1) (by omega) hc2
    rw [List.foldl_cons]
    have e : n + (k + 1) = n + 1 + k := by omega
    rw [e]
    exact this

theorem POK.toWOK {old new : Build} {w : Work} (h : POK old new new.files.length w) : WOK old new w :=
  ⟨h.cover, h.excl₁, h.excl₂, h.nodupT, h.nodupO, h.nodupM, h.transp, h.overlay, h.move⟩

/-- The work recorded for one call per new file satisfies `WOK`. -/
theorem workOfCalls_ok {old new : Build} {cs : List Patch.BowlCall}
    (hc : CallsFor old new 0 new.files.length cs) : WOK old new (workOfCalls old new cs) := by
  have := POK.fold new.files.length 0 cs {} (POK.empty old new) (by omega) hc
  rw [Nat.zero_add] at this
  exact this.toWOK

/-! ### from the patcher's view (string paths, `Content`) to the builds -/

/-- The container's file list as the differ/patcher see it: (path string, content).  `name` turns a path into
    the string compared by `prefOf`; nothing below depends on which function it is. -/
def filesAs (name : Path → String) (b : Build) : List (String × Content) :=
  b.files.map fun (p, d) => (name p, Content.ofList d)

theorem filesAs_length (name : Path → String) (b : Build) : (filesAs name b).length = b.files.length := by
  simp [filesAs]

theorem callsOK_to_callsFor (name : Path → String) (old new : Build) :
    ∀ (post : List (Path × List Byte)) (n : Nat) (cs : List Patch.BowlCall),
    (∀ k, k < post.length → new.files[n + k]? = post[k]?) →
    Patch.CallsOK (filesAs name old) n (post.map fun (p, d) => (name p, Content.ofList d)) cs →
    CallsFor old new n post.length cs
  | [], _, [], _, _ => trivial
  | [], _, _ :: _, _, h => by simp [Patch.CallsOK] at h
  | _ :: _, _, [], _, h => by simp [Patch.CallsOK] at h
  | (p, d) :: post, n, c :: cs, hnew, h => by
    rw [List.map_cons] at h
    obtain ⟨h1, h2⟩ := h
    refine ⟨?_, ?_⟩
    · cases c with
      | getWriter j => exact h1
      | transpose s t =>
        obtain ⟨hs, o, ho, hcont⟩ := h1
        refine ⟨hs, p, ?_⟩
        simp only [filesAs, List.getElem?_map, Option.map_eq_some_iff] at ho
        obtain ⟨⟨op, od⟩, hod, rfl⟩ := ho
        simp only [Patch.ofList_toList] at hcont
        subst hcont
        refine ⟨op, od, ?_, hod⟩
        have := hnew 0 (by simp)
        simpa using this
    · apply callsOK_to_callsFor name old new post (n + 1) cs _ h2
      intro k hk
      have := hnew (k + 1) (by simp; omega)
      rw [List.getElem?_cons_succ] at this
      rw [← this]
      congr 1
      omega

end Wharf.Commit
