/-
  Helper lemmas for the C08 property theorems (Wharf/Props/C08.lean): closed form of the weak hash and
  its rolling update, byte accounting of an op list, completeness of the block library, and the loop
  invariant of the differ on a source that equals one of the old files.
-/
import Wharf.Model.Rsync
import Wharf.Proofs.Rsync
import Wharf.Props.C11

namespace Wharf.Rsync
open Wharf

/-! ### Closed form of the weak hash -/

/-- `Σ_{i<j} v(p+i)` in `UInt32`. -/
def S1 (c : Content) : Nat → Nat → UInt32
  | _, 0 => 0
  | p, j + 1 => (c.get p).toUInt32 + S1 c (p + 1) j

/-- `Σ_{i<j} (j-i)·v(p+i)` in `UInt32`. -/
def S2 (c : Content) : Nat → Nat → UInt32
  | _, 0 => 0
  | p, j + 1 => (j + 1).toUInt32 * (c.get p).toUInt32 + S2 c (p + 1) j

theorem toUInt32_succ (j : Nat) : (j + 1).toUInt32 = j.toUInt32 + 1 := by
  show UInt32.ofNat (j + 1) = UInt32.ofNat j + 1
  rw [UInt32.ofNat_add]
  rfl

theorem betaLoop_eq (c : Content) (start len : Nat) : ∀ (j : Nat) (a b : UInt32), j ≤ len →
    betaLoop c start len j a b = (a + S1 c (start + (len - j)) j, b + S2 c (start + (len - j)) j)
  | 0, a, b, _ => by simp [betaLoop, S1, S2]
  | j + 1, a, b, h => by
    unfold betaLoop
    simp only
    rw [betaLoop_eq c start len j _ _ (by omega)]
    have e : start + (len - j) = start + (len - (j + 1)) + 1 := by omega
    rw [e, S1, S2, UInt32.add_assoc, UInt32.add_assoc]

theorem betaLoop_full (c : Content) (start len : Nat) :
    betaLoop c start len len 0 0 = (S1 c start len, S2 c start len) := by
  rw [betaLoop_eq c start len len 0 0 (Nat.le_refl _)]
  simp

theorem S1_snoc (c : Content) : ∀ (j p : Nat), S1 c p (j + 1) = S1 c p j + (c.get (p + j)).toUInt32
  | 0, p => by simp [S1]
  | j + 1, p => by
    rw [S1, S1_snoc c j (p + 1), S1.eq_2 c p j]
    have e : p + 1 + j = p + (j + 1) := by omega
    rw [e, UInt32.add_assoc]

theorem S2_snoc (c : Content) : ∀ (j p : Nat), S2 c p (j + 1) = S2 c p j + S1 c p (j + 1)
  | 0, p => by simp [S1, S2]
  | j + 1, p => by
    rw [S2, S2_snoc c j (p + 1), S2.eq_2 c p j, S1.eq_2 c p (j + 1), toUInt32_succ (j + 1)]
    generalize (c.get p).toUInt32 = v
    generalize S2 c (p + 1) j = x
    generalize S1 c (p + 1) (j + 1) = y
    generalize (j + 1).toUInt32 = w
    grind

/-- Sliding the window by one byte, first sum. -/
theorem S1_shift (c : Content) (k len : Nat) :
    S1 c (k + 1) len = S1 c k len - (c.get k).toUInt32 + (c.get (k + len)).toUInt32 := by
  have h1 := S1_snoc c len k
  rw [S1] at h1
  generalize S1 c (k + 1) len = x at h1 ⊢
  generalize S1 c k len = y at h1 ⊢
  grind

/-- Sliding the window by one byte, second sum. -/
theorem S2_shift (c : Content) (k len : Nat) :
    S2 c (k + 1) len = S2 c k len - len.toUInt32 * (c.get k).toUInt32 + S1 c (k + 1) len := by
  have h2 := S2_snoc c len k
  rw [S2, S1, toUInt32_succ] at h2
  generalize S2 c (k + 1) len = x at h2 ⊢
  generalize S2 c k len = y at h2 ⊢
  generalize S1 c (k + 1) len = z at h2 ⊢
  grind

/-! ### Reduction mod `M = 2^16` commutes with the `UInt32` ring operations -/

theorem M_toNat : M.toNat = 65536 := rfl

theorem modM_add_left (x y : UInt32) : (x % M + y) % M = (x + y) % M := by
  apply UInt32.toNat_inj.1
  simp only [UInt32.toNat_mod, UInt32.toNat_add, M_toNat]
  omega

theorem modM_add_right (x y : UInt32) : (x + y % M) % M = (x + y) % M := by
  apply UInt32.toNat_inj.1
  simp only [UInt32.toNat_mod, UInt32.toNat_add, M_toNat]
  omega

theorem modM_sub_left (x y : UInt32) : (x % M - y) % M = (x - y) % M := by
  apply UInt32.toNat_inj.1
  simp only [UInt32.toNat_mod, UInt32.toNat_sub, M_toNat]
  omega

theorem betaHash_eq (c : Content) (start len : Nat) :
    betaHash c start len =
      (S1 c start len % M + M * (S2 c start len % M), S1 c start len % M, S2 c start len % M) := by
  unfold betaHash
  rw [betaLoop_full]

/-- The rolling update equals the hash from scratch on the shifted window. -/
theorem roll_eq (c : Content) (k len : Nat) :
    rollβ1 (S1 c k len % M) (c.get k).toUInt32 (c.get (k + len)).toUInt32 = S1 c (k + 1) len % M ∧
    rollβ2 (S1 c (k + 1) len % M) (S2 c k len % M) (c.get k).toUInt32 len.toUInt32 =
      S2 c (k + 1) len % M := by
  constructor
  · unfold rollβ1
    rw [S1_shift, ← modM_add_left (S1 c k len % M - _), modM_sub_left, modM_add_left]
  · unfold rollβ2
    rw [S2_shift, modM_add_right, ← modM_add_left (S2 c k len % M - _), modM_sub_left, modM_add_left]

/-! ### Byte accounting -/

theorem opBytes_length {bs : Nat} (hbs : 0 < bs) {olds : Array Content} {src : Content} {op : Op}
    (hv : VOp bs olds src op) :
    (opBytes bs olds src op).length = freshOf op + reusedOf bs olds op := by
  cases op with
  | data st len => simp [opBytes, freshOf, reusedOf, slice_length]
  | range f i sp =>
    obtain ⟨old, ho, hsp, h⟩ := hv
    rw [opBytes_range hbs src ho hsp h, slice_length]
    simp only [freshOf, reusedOf, ho, Nat.zero_add, Nat.mul_comm]

theorem replay_length {bs : Nat} (hbs : 0 < bs) {olds : Array Content} {src : Content} :
    ∀ (l : List Op), (∀ op ∈ l, VOp bs olds src op) →
      (replay bs olds src l).length = (l.map freshOf).sum + (l.map (reusedOf bs olds)).sum
  | [], _ => by simp [replay]
  | op :: l, h => by
    have ih := replay_length hbs l (fun o ho => h o (List.mem_cons_of_mem _ ho))
    have h1 := opBytes_length hbs (h op List.mem_cons_self)
    have e : replay bs olds src (op :: l) = opBytes bs olds src op ++ replay bs olds src l := by
      simp [replay]
    rw [e, List.length_append, ih, h1]
    simp only [List.map_cons, List.sum_cons]
    omega

theorem toList_length (c : Content) : c.toList.length = c.size := by
  unfold Content.toList
  exact slice_length _ _ _

/-! ### Weak hash and strong test of equal windows -/

theorem betaLoop_congr (c d : Content) (start len : Nat)
    (h : ∀ i, i < len → c.get (start + i) = d.get (start + i)) :
    ∀ (j : Nat) (a b : UInt32), j ≤ len → betaLoop c start len j a b = betaLoop d start len j a b
  | 0, _, _, _ => rfl
  | j + 1, a, b, hj => by
    unfold betaLoop
    simp only
    rw [h (len - (j + 1)) (by omega)]
    exact betaLoop_congr c d start len h j _ _ (by omega)

theorem betaHash_congr (c d : Content) (start len : Nat)
    (h : ∀ i, i < len → c.get (start + i) = d.get (start + i)) :
    betaHash c start len = betaHash d start len := by
  unfold betaHash
  rw [betaLoop_congr c d start len h len 0 0 (Nat.le_refl _)]

theorem sameBytes_of_get (c d : Content) : ∀ (n a b : Nat),
    (∀ k, k < n → c.get (a + k) = d.get (b + k)) → c.sameBytes a d b n = true
  | 0, _, _, _ => rfl
  | n + 1, a, b, h => by
    unfold Content.sameBytes
    simp only [Bool.and_eq_true, beq_iff_eq]
    refine ⟨by simpa using h 0 (by omega), sameBytes_of_get c d n (a + 1) (b + 1) ?_⟩
    intro k hk
    have := h (k + 1) (by omega)
    have e1 : a + 1 + k = a + (k + 1) := by omega
    have e2 : b + 1 + k = b + (k + 1) := by omega
    rw [e1, e2]; exact this

/-! ### Completeness of the signature and of the block library -/

theorem mem_fileEntries_of {bs fi : Nat} {c : Content} (h0 : c.size ≠ 0) {i : Nat}
    (hi : i < numBlocks bs c.size) :
    (⟨fi, i, (betaHash c (i * bs) (blockLen bs c.size i)).1, shortOf bs (blockLen bs c.size i)⟩ : Entry)
      ∈ fileEntries bs fi c := by
  unfold fileEntries
  rw [if_neg h0]
  simp only [List.mem_map, List.mem_range]
  exact ⟨i, hi, rfl⟩

theorem mem_signatureFrom_of {bs : Nat} : ∀ (cs : List Content) (fi j : Nat) (old : Content) (e : Entry),
    cs[j]? = some old → e ∈ fileEntries bs (fi + j) old → e ∈ signatureFrom bs fi cs
  | [], _, _, _, _, h, _ => by simp at h
  | c :: cs, fi, 0, old, e, h, he => by
    simp only [List.getElem?_cons_zero, Option.some.injEq] at h
    subst h
    unfold signatureFrom
    exact List.mem_append_left _ he
  | c :: cs, fi, j + 1, old, e, h, he => by
    rw [List.getElem?_cons_succ] at h
    unfold signatureFrom
    refine List.mem_append_right _ (mem_signatureFrom_of cs (fi + 1) j old e h ?_)
    have e' : fi + 1 + j = fi + (j + 1) := by omega
    rw [e']; exact he

theorem buildBuckets_cons (n : Nat) (e0 : Entry) (sig : List Entry) :
    buildBuckets n (e0 :: sig) = (buildBuckets n sig).modify (bucketOf n e0.weak) (e0 :: ·) := by
  simp [buildBuckets]

theorem buildBuckets_size (n : Nat) : ∀ (sig : List Entry), (buildBuckets n sig).size = n
  | [] => by simp [buildBuckets]
  | e0 :: sig => by rw [buildBuckets_cons, Array.size_modify, buildBuckets_size n sig]

theorem buildBuckets_complete {n : Nat} (hn : 0 < n) : ∀ (sig : List Entry) (e : Entry),
    e ∈ sig → e ∈ (buildBuckets n sig).getD (bucketOf n e.weak) []
  | [], e, h => by simp at h
  | e0 :: sig, e, h => by
    have hk : bucketOf n e.weak < (buildBuckets n sig).size := by
      rw [buildBuckets_size]; exact Nat.mod_lt _ hn
    rw [buildBuckets_cons, Array.getD_eq_getD_getElem?, Array.getElem?_modify,
      Array.getElem?_eq_getElem hk]
    rw [List.mem_cons] at h
    by_cases hb : bucketOf n e0.weak = bucketOf n e.weak
    · rw [if_pos hb]
      simp only [Option.map_some, Option.getD_some, List.mem_cons]
      cases h with
      | inl h => exact Or.inl h
      | inr h =>
        have ih := buildBuckets_complete hn sig e h
        rw [Array.getD_eq_getD_getElem?, Array.getElem?_eq_getElem hk] at ih
        exact Or.inr (by simpa using ih)
    · rw [if_neg hb]
      cases h with
      | inl h => exact absurd (by rw [h]) hb
      | inr h =>
        have ih := buildBuckets_complete hn sig e h
        rw [Array.getD_eq_getD_getElem?, Array.getElem?_eq_getElem hk] at ih
        exact ih

theorem lookupFast_complete {n : Nat} (hn : 0 < n) (sig : List Entry) (e : Entry) (h : e ∈ sig) :
    e ∈ lookupFast (buildBuckets n sig) e.weak := by
  unfold lookupFast
  rw [buildBuckets_size]
  exact buildBuckets_complete hn sig e h

/-! ### `findUnique` succeeds when some entry passes all tests -/

theorem findUnique_isSome {bs : Nat} {olds : Array Content} {src : Content} {ws wl short : Nat}
    (pref : Option Nat) {β : UInt32} {hh : List Entry} {e : Entry} (hwl : wl ≠ 0) (he : e ∈ hh)
    (hw : e.weak = β) (hs : e.short = short) (hb : blockMatches bs olds src ws wl e = true) :
    (findUnique bs olds src ws wl short pref β hh).isSome = true := by
  unfold findUnique
  rw [if_neg hwl]
  have hok : (hh.find? fun (e : Entry) =>
      e.weak == β && e.short == short && blockMatches bs olds src ws wl e).isSome = true := by
    rw [List.find?_isSome]
    exact ⟨e, he, by simp [hw, hs, hb]⟩
  dsimp only
  split
  · split
    · rfl
    · exact hok
  · exact hok

theorem blockLen_eq_min {bs : Nat} (size m : Nat) (h : bs * m ≤ size) :
    blockLen bs size m = min bs (size - bs * m) := by
  unfold blockLen
  split
  · rename_i h2
    have hq : size / bs = m := by
      apply Nat.div_eq_of_lt_le
      · rw [Nat.mul_comm]; exact h
      · rw [Nat.mul_comm]; exact h2
    have := Nat.div_add_mod size bs
    rw [hq] at this
    rw [Nat.mul_add] at h2
    omega
  · rename_i h2
    rw [Nat.mul_add] at h2
    omega

/-- On a source equal to the old file `j`, the block-aligned window `m` is found. -/
theorem ident_found {P : Params} (hbs : 0 < P.bs) {olds : List Content} {src old : Content} {j : Nat}
    (hj : olds[j]? = some old) (hsz : old.size = src.size)
    (heq : ∀ i, i < src.size → old.get i = src.get i) (pref : Option Nat)
    (m : Nat) (hm : P.bs * m < src.size) :
    (findUnique P.bs olds.toArray src (m * P.bs) (blockLen P.bs src.size m)
      (shortOf P.bs (blockLen P.bs src.size m)) pref
      (betaHash src (m * P.bs) (blockLen P.bs src.size m)).1
      (lookupFast (buildBuckets ((signature P.bs olds).length + 1) (signature P.bs olds))
        (betaHash src (m * P.bs) (blockLen P.bs src.size m)).1)).isSome = true := by
  have hnb : m < numBlocks P.bs old.size := by rw [lt_numBlocks_iff hbs, hsz]; exact hm
  have hle := blockLen_le hbs old.size m hnb
  rw [hsz] at hle
  have hfe := mem_fileEntries_of (bs := P.bs) (fi := j) (c := old) (by omega) hnb
  have hsig := mem_signatureFrom_of (bs := P.bs) olds 0 j old _ hj (by rw [Nat.zero_add]; exact hfe)
  have hbytes : ∀ i, i < blockLen P.bs src.size m → old.get (m * P.bs + i) = src.get (m * P.bs + i) := by
    intro i hi
    apply heq
    rw [Nat.mul_comm]; omega
  have hw := betaHash_congr old src (m * P.bs) (blockLen P.bs src.size m) hbytes
  have hlk := lookupFast_complete (n := (signature P.bs olds).length + 1) (by omega)
    (signature P.bs olds) _ hsig
  rw [hsz] at hlk
  dsimp only at hlk
  rw [hw] at hlk
  refine findUnique_isSome pref ?_ hlk ?_ ?_ ?_
  · rw [blockLen_eq_min _ _ (by omega)]; omega
  · rfl
  · rfl
  · unfold blockMatches
    dsimp only
    rw [List.getElem?_toArray, hj]
    dsimp only
    rw [hsz, sameBytes_of_get old src _ _ _ hbytes]
    simp

/-! ### The loop on a source that equals an old file -/

/-- Number of fresh bytes of an op list. -/
def fresh (l : List Op) : Nat := (l.map freshOf).sum

theorem fresh_append (l l' : List Op) : fresh (l ++ l') = fresh l + fresh l' := by
  simp [fresh]

/-- Extra loop-head invariant: the window is block aligned, nothing is buffered, nothing fresh was sent. -/
structure Ident (P : Params) (s : DState) : Prop where
  dt : s.dataTail = s.dataHead
  vt : s.validTo = s.sumTail
  roll : s.rolling = false
  al : ∃ m, s.base + s.sumTail = m * P.bs
  nf : fresh (pend s) = 0

theorem refill_ident {P : Params} (hbs : 0 < P.bs) {olds : Array Content} {src : Content} {s : DState}
    (hi : Inv P olds src s) (hx : Ident P s) (rn : Nat)
    (hrn : rn = min P.bs (src.size - (s.base + s.sumTail))) :
    pend (refill P src s) = pend s ∧ (refill P src s).rolling = false ∧
    (refill P src s).dataTail = (refill P src s).dataHead ∧
    (refill P src s).base + (refill P src s).sumTail = s.base + s.sumTail ∧
    (refill P src s).validTo = (refill P src s).sumTail + rn ∧
    (rn < P.bs → (refill P src s).lastRun = true ∧ (refill P src s).shortSize = rn) ∧
    (¬ rn < P.bs → (refill P src s).lastRun = false ∧ (refill P src s).shortSize = 0) := by
  obtain ⟨hc, hl, hs⟩ := hi
  obtain ⟨dt, vt, roll, al, nf⟩ := hx
  have h3 := hc.h3
  rw [refill_eq, if_pos (by omega)]
  have hwf : wrapFlush s = s := by unfold wrapFlush; rw [if_neg (by omega)]
  by_cases hw : s.validTo + P.bs > P.bufLen
  · rw [if_pos hw]
    unfold wrap
    rw [hwf]
    unfold wrapReset readMore readN
    dsimp only
    by_cases hlt : min P.bs (src.size - (s.base + s.sumTail + (s.validTo - s.sumTail))) < P.bs
    · rw [if_pos hlt]
      refine ⟨rfl, roll, rfl, ?_, ?_, fun _ => ⟨rfl, ?_⟩, fun h => absurd ?_ h⟩
      all_goals somega
    · rw [if_neg hlt]
      refine ⟨rfl, roll, rfl, ?_, ?_, fun h => absurd h ?_, fun _ => ⟨hl, hs⟩⟩
      all_goals somega
  · rw [if_neg hw]
    unfold readMore readN
    by_cases hlt : min P.bs (src.size - (s.base + s.validTo)) < P.bs
    · rw [if_pos hlt]
      refine ⟨rfl, roll, dt, ?_, ?_, fun _ => ⟨rfl, ?_⟩, fun h => absurd ?_ h⟩
      all_goals somega
    · rw [if_neg hlt]
      refine ⟨rfl, roll, dt, ?_, ?_, fun h => absurd h ?_, fun _ => ⟨hl, hs⟩⟩
      all_goals somega

theorem hashStep_scratch (src : Content) (s : DState) (sumHead : Nat) (h : s.rolling = false) :
    hashStep src s sumHead =
      ({ s with β := (betaHash src (s.base + s.sumTail) (sumHead - s.sumTail)).1,
                β1 := (betaHash src (s.base + s.sumTail) (sumHead - s.sumTail)).2.1,
                β2 := (betaHash src (s.base + s.sumTail) (sumHead - s.sumTail)).2.2,
                rolling := true }, false) := by
  unfold hashStep
  rw [h]
  rfl

theorem emitTail_zero (P : Params) (fuel : Nat) (s : DState) (h : s.validTo - s.dataTail = 0) :
    emitTail P fuel s = enqueue s (.data (s.base + s.dataTail) 0) := by
  cases fuel with
  | zero => unfold emitTail; rw [h]
  | succ f => unfold emitTail; rw [if_neg (by omega), h]

theorem advFlush_none_of_eq (P : Params) (s : DState) (found : Option Entry)
    (h : s.dataTail = s.dataHead) : advFlush P s found = s := by
  unfold advFlush
  rw [if_neg (by omega)]

theorem advance_some_ident (P : Params) (src : Content) {s : DState} (e : Entry)
    (hd : s.dataTail = s.dataHead) (hq : QInv s) (hf : fresh (pend s) = 0) :
    fresh (pend (advance P src s (some e))) = 0 ∧ (advance P src s (some e)).rolling = false ∧
    (advance P src s (some e)).dataTail = (advance P src s (some e)).dataHead ∧
    (advance P src s (some e)).sumTail = s.sumTail + P.bs ∧
    (advance P src s (some e)).validTo = s.validTo ∧ (advance P src s (some e)).base = s.base := by
  rw [advance_some, advFlush_none_of_eq P s _ hd]
  obtain ⟨⟨f1, f2, f3, f4, f5, f6, f7⟩, _, _, hcase⟩ := enqueue_range_char hq e.file e.index 1
  unfold advSome advSomeSet
  refine ⟨?_, rfl, rfl, ?_, f5, f1⟩
  · show fresh (pend (enqueue s (.range e.file e.index 1))) = 0
    cases hcase with
    | inl hc =>
      obtain ⟨pi, ps, hprev, _, hpend⟩ := hc
      have hps : pend s = s.out.toList ++ [.range e.file pi ps] := by simp [pend, hprev]
      rw [hps, fresh_append] at hf
      rw [hpend, fresh_append]
      simp only [fresh, List.map_cons, List.map_nil, List.sum_cons, List.sum_nil, freshOf] at hf ⊢
      omega
    | inr hc =>
      rw [hc.2, fresh_append, hf]
      rfl
  · somega

theorem advance_none_last (P : Params) (src : Content) {s : DState}
    (hd : s.dataTail = s.dataHead) (hv : s.validTo = s.dataTail) (hl : s.lastRun = true) (hq : QInv s) :
    fresh (pend (advance P src s none)) = fresh (pend s) ∧
    (advance P src s none).lastRun = true := by
  rw [advance_none, advFlush_none_of_eq P s _ hd]
  unfold advNone
  rw [if_pos hl, emitTail_zero P _ s (by omega)]
  obtain ⟨hf, _, _, hpend⟩ := enqueue_data_char hq (s.base + s.dataTail) 0
  refine ⟨?_, hf.2.2.2.2.2.1.trans hl⟩
  rw [hpend]
  split
  · rfl
  · rw [fresh_append]; rfl

theorem findUnique_zero (bs : Nat) (olds : Array Content) (src : Content) (ws short : Nat)
    (pref : Option Nat) (β : UInt32) (hh : List Entry) :
    findUnique bs olds src ws 0 short pref β hh = none := by
  unfold findUnique
  rw [if_pos rfl]

/-- An iteration that hashes from scratch. -/
theorem iter_scratch (P : Params) (olds : Array Content) (lookup : UInt32 → List Entry) (src : Content)
    (pref : Option Nat) (s s1 : DState) (wl : Nat) (β : UInt32) (hs1 : s1 = refill P src s)
    (hwl : wl = min (s1.sumTail + P.bs) s1.validTo - s1.sumTail)
    (hβ : β = (betaHash src (s1.base + s1.sumTail) wl).1) (h : s1.rolling = false) :
    iter P olds lookup src pref s =
      advance P src
        { s1 with β := β, β1 := (betaHash src (s1.base + s1.sumTail) wl).2.1,
                  β2 := (betaHash src (s1.base + s1.sumTail) wl).2.2, rolling := true }
        (findUnique P.bs olds src (s1.base + s1.sumTail) wl s1.shortSize pref β (lookup β)) := by
  subst hs1 hwl hβ
  rw [iter_eq, hashStep_scratch _ _ _ h]
  rfl

theorem iter_ident {P : Params} (hbs : 0 < P.bs) {olds : List Content} {src old : Content} {j : Nat}
    (hj : olds[j]? = some old) (hsz : old.size = src.size)
    (heq : ∀ i, i < src.size → old.get i = src.get i) (pref : Option Nat) {s : DState}
    (hi : Inv P olds.toArray src s) (hx : Ident P s) :
    fresh (pend (iter P olds.toArray
      (lookupFast (buildBuckets ((signature P.bs olds).length + 1) (signature P.bs olds))) src pref s)) = 0 ∧
    ((iter P olds.toArray
      (lookupFast (buildBuckets ((signature P.bs olds).length + 1) (signature P.bs olds))) src pref s).lastRun
        = false →
      Ident P (iter P olds.toArray
        (lookupFast (buildBuckets ((signature P.bs olds).length + 1) (signature P.bs olds))) src pref s)) := by
  have hm := refill_spec hi
  obtain ⟨m, hmB⟩ := hx.al
  obtain ⟨r1, r2, r3, r4, r5, r6, r7⟩ := refill_ident hbs hi hx _ rfl
  have h2 := hm.1.h2
  have h4 := hm.1.h4
  have hq := hm.1.o.q
  rw [iter_scratch P _ _ src pref s _ _ _ rfl rfl rfl r2]
  generalize refill P src s = s1 at *
  generalize hrn : min P.bs (src.size - (s.base + s.sumTail)) = rn at *
  have hwl : min (s1.sumTail + P.bs) s1.validTo - s1.sumTail = rn := by omega
  rw [hwl]
  have hnf : fresh (pend s1) = 0 := by rw [r1]; exact hx.nf
  by_cases hrn0 : rn = 0
  · rw [hrn0, findUnique_zero]
    obtain ⟨a1, a2⟩ := advance_none_last P src
      (s := { s1 with β := (betaHash src (s1.base + s1.sumTail) 0).1,
                      β1 := (betaHash src (s1.base + s1.sumTail) 0).2.1,
                      β2 := (betaHash src (s1.base + s1.sumTail) 0).2.2, rolling := true })
      r3 (by somega) (r6 (by omega)).1 ⟨hq.sent, hq.prevRange⟩
    refine ⟨a1.trans hnf, fun h => ?_⟩
    rw [a2] at h
    cases h
  · have hlt : P.bs * m < src.size := by rw [Nat.mul_comm]; omega
    have hbl : blockLen P.bs src.size m = rn := by
      rw [blockLen_eq_min _ _ (by omega), Nat.mul_comm]; omega
    have hpos : s1.base + s1.sumTail = m * P.bs := by omega
    have hshort : s1.shortSize = shortOf P.bs rn := by
      unfold shortOf
      by_cases hc : rn < P.bs
      · rw [if_pos hc]; exact (r6 hc).2
      · rw [if_neg hc]; exact (r7 hc).2
    have hfound := ident_found hbs hj hsz heq pref m hlt
    rw [hbl, ← hpos, ← hshort] at hfound
    cases hf : findUnique P.bs olds.toArray src (s1.base + s1.sumTail) rn s1.shortSize pref
        (betaHash src (s1.base + s1.sumTail) rn).1
        (lookupFast (buildBuckets ((signature P.bs olds).length + 1) (signature P.bs olds))
          (betaHash src (s1.base + s1.sumTail) rn).1) with
    | none => rw [hf] at hfound; cases hfound
    | some e =>
      obtain ⟨a1, a2, a3, a4, a5, a6⟩ := advance_some_ident P src
        (s := { s1 with β := (betaHash src (s1.base + s1.sumTail) rn).1,
                        β1 := (betaHash src (s1.base + s1.sumTail) rn).2.1,
                        β2 := (betaHash src (s1.base + s1.sumTail) rn).2.2, rolling := true })
        e r3 ⟨hq.sent, hq.prevRange⟩ hnf
      dsimp only at a4 a5 a6
      refine ⟨a1, fun h => ⟨a3, ?_, a2, ⟨m + 1, ?_⟩, a1⟩⟩
      · rw [(advance_num P src _ (some e)).1] at h
        have hnlt : ¬ rn < P.bs := by
          intro hc
          have := (r6 hc).1
          rw [this] at h
          cases h
        somega
      · rw [Nat.add_mul]
        somega

theorem loop_ident {P : Params} (hbs : 0 < P.bs) (hmx : 0 < P.maxDataOp) {olds : List Content}
    {src old : Content} {j : Nat} (hj : olds[j]? = some old) (hsz : old.size = src.size)
    (heq : ∀ i, i < src.size → old.get i = src.get i) (pref : Option Nat) :
    ∀ (fuel : Nat) (s : DState), fresh (pend s) = 0 →
      (s.lastRun = false → Inv P olds.toArray src s ∧ Ident P s) →
      fresh (pend (loop P olds.toArray
        (lookupFast (buildBuckets ((signature P.bs olds).length + 1) (signature P.bs olds)))
        src pref fuel s)) = 0
  | 0, s, hf, _ => by
    unfold loop
    exact hf
  | fuel + 1, s, hf, h => by
    unfold loop
    by_cases hl : s.lastRun = true
    · rw [if_pos hl]; exact hf
    · rw [if_neg hl]
      have hl' : s.lastRun = false := by
        cases hs : s.lastRun with
        | true => exact absurd hs hl
        | false => rfl
      obtain ⟨hi, hx⟩ := h hl'
      obtain ⟨i1, i2⟩ := iter_ident hbs hj hsz heq pref hi hx
      have hp := iter_spec hbs hmx
        (lookup := lookupFast (buildBuckets ((signature P.bs olds).length + 1) (signature P.bs olds)))
        (fun β e h => entryOK_of_mem_signature (Wharf.C11.lookupFast_sound P.bs olds _ β e h)) pref hi
      refine loop_ident hbs hmx hj hsz heq pref fuel _ i1 (fun hlr => ?_)
      cases hp with
      | inl hp => exact ⟨hp.2, i2 hlr⟩
      | inr hp => rw [hp.1] at hlr; cases hlr

theorem Ident_init (P : Params) : Ident P {} :=
  ⟨rfl, rfl, rfl, ⟨0, by simp⟩, rfl⟩

theorem computeDiff_ident {P : Params} (hbs : 0 < P.bs) (hmx : 0 < P.maxDataOp) {olds : List Content}
    {src old : Content} {j : Nat} (hj : olds[j]? = some old) (hsz : old.size = src.size)
    (heq : ∀ i, i < src.size → old.get i = src.get i) (pref : Option Nat) :
    fresh (computeDiff P olds src pref) = 0 := by
  have hl : ∀ β e,
      e ∈ lookupFast (buildBuckets ((signature P.bs olds).length + 1) (signature P.bs olds)) β →
      EntryOK P.bs olds.toArray e :=
    fun β e h => entryOK_of_mem_signature (Wharf.C11.lookupFast_sound P.bs olds _ β e h)
  have ho := loop_spec hbs hmx hl pref (src.size + 2) {} (Or.inl ⟨rfl, Inv_init P olds.toArray src⟩)
    (loop_lastRun hbs olds.toArray _ src pref)
  have hf := loop_ident hbs hmx hj hsz heq pref (src.size + 2) {} rfl
    (fun _ => ⟨Inv_init P olds.toArray src, Ident_init P⟩)
  unfold computeDiff computeDiffWith
  dsimp only
  rw [flush_out ho.q]
  exact hf

end Wharf.Rsync
