/-
  Helper lemmas for C16 (the goroutine transition system of `Validate`):
  the inductive invariant `Inv`, enabledness lemmas, and the termination measure `mu`.
-/
import Wharf.Model.ValidateTS

namespace Wharf.ValidateTS

/-! ### the inductive invariant -/

structure Inv (s : St) : Prop where
  prePos : ∀ k, s.main = .pre k → 0 < k
  workerSlot : s.workerErr = true → s.worker = .gone
  workerGone : s.worker = .gone → s.workerErr = true ∨ s.main = .woundsClosed ∨ s.main = .returned
  joinedWorker : s.main = .woundsClosed ∨ s.main = .returned → s.worker = .gone
  consumerSlot : s.consumerErr = true → s.consumer = .draining ∨ s.consumer = .gone
  consumerSent : s.consumer = .draining ∨ s.consumer = .gone → s.consumerErr = true ∨ s.main = .returned
  joinedConsumer : s.main = .returned → s.consumer = .draining ∨ s.consumer = .gone
  woundsClosedIff : s.woundsClosed = true ↔ (s.main = .woundsClosed ∨ s.main = .returned)
  consumerGone : s.consumer = .gone → s.woundsClosed = true
  indicesClosed : s.main = .closed → s.fileIndicesClosed = true

theorem inv_init (cap pre nfiles : Nat) (woundsOf : Nat → Nat) (budget : Option Nat) :
    Inv (init cap pre nfiles woundsOf budget) := by
  by_cases hp : pre = 0
  · constructor <;> simp [init, hp]
  · constructor <;> simp [init, hp]
    omega

theorem inv_step {s s' : St} {l : Lbl} (hi : Inv s) (hs : step s l = some s') : Inv s' := by
  obtain ⟨h1, h2, h3, h4, h5, h6, h7, h8, h9, h10⟩ := hi
  rcases s with ⟨cap, nfiles, w, m, wk, c, wounds, wc, we, ce, fic, cn, ctx⟩
  dsimp only at h1 h2 h3 h4 h5 h6 h7 h8 h9 h10
  cases l <;> simp only [step] at hs <;> (repeat' split at hs) <;>
    first
    | (cases hs; done)
    | (cases hs; constructor <;> simp_all <;> done)
    | (cases hs; constructor <;> simp_all <;> omega)

theorem inv_reach {s₀ s : St} (h0 : Inv s₀) (h : Reach s₀ s) : Inv s := by
  induction h with
  | refl => exact h0
  | step _ hs ih => exact inv_step ih hs

/-! ### the termination measure -/

/-- `tailSum w i d = w i + w (i+1) + … + w (i+d-1)` -/
def tailSum (w : Nat → Nat) : Nat → Nat → Nat
  | _, 0 => 0
  | i, d + 1 => w i + tailSum w (i + 1) d

theorem tailSum_unfold (w : Nat → Nat) (n i : Nat) (h : i < n) :
    tailSum w i (n - i) = w i + tailSum w (i + 1) (n - (i + 1)) := by
  obtain ⟨d, hd⟩ : ∃ d, n - i = d + 1 := ⟨n - i - 1, by omega⟩
  have hd' : n - (i + 1) = d := by omega
  rw [hd, hd', tailSum]

def mainRank (n : Nat) : MainPC → Nat
  | .pre k => n + 4 + k
  | .loop i => 3 + (n - i)
  | .closed => 2
  | .woundsClosed => 1
  | .returned => 0

/-- wounds that main may still send itself or hand to the worker -/
def mainPending (n : Nat) (w : Nat → Nat) : MainPC → Nat
  | .pre k => k + tailSum w 0 n
  | .loop i => tailSum w i (n - i)
  | _ => 0

def workerRank : WorkerPC → Nat
  | .file _ => 3
  | .idle => 2
  | .exiting => 1
  | .gone => 0

def workerPending : WorkerPC → Nat
  | .file k => k
  | _ => 0

def consumerRank : ConsumerPC → Nat
  | .running _ => 3
  | .sending => 2
  | .draining => 1
  | .gone => 0

def mu (s : St) : Nat :=
  (if s.ctxDone then 0 else 1) + (if s.cancelled then 0 else 1)
    + 2 * mainRank s.nfiles s.main + workerRank s.worker + consumerRank s.consumer
    + 2 * (mainPending s.nfiles s.woundsOf s.main + workerPending s.worker) + s.wounds

theorem mu_step {s s' : St} {l : Lbl} (hs : step s l = some s') : mu s' < mu s := by
  rcases s with ⟨cap, nfiles, w, m, wk, c, wounds, wc, we, ce, fic, cn, ctx⟩
  cases l <;> simp only [step] at hs <;> (repeat' split at hs) <;>
    first
    | (cases hs; done)
    | (cases hs; simp_all [mu, mainRank, mainPending, workerRank, workerPending, consumerRank] <;> omega)
    | (cases hs; rename_i hh; have hu := tailSum_unfold w nfiles _ hh.1
       simp only [mu, mainRank, mainPending, workerRank, workerPending, consumerRank, hu]; omega)

/-! ### static fields -/

theorem step_cap {s s' : St} {l : Lbl} (hs : step s l = some s') : s'.cap = s.cap := by
  rcases s with ⟨cap, nfiles, w, m, wk, c, wounds, wc, we, ce, fic, cn, ctx⟩
  cases l <;> simp only [step] at hs <;> (repeat' split at hs) <;>
    first
    | (cases hs; done)
    | (cases hs; rfl)

theorem reach_cap {s₀ s : St} (h : Reach s₀ s) : s.cap = s₀.cap := by
  induction h with
  | refl => rfl
  | step _ hs ih => rw [step_cap hs, ih]

/-! ### enabledness -/

/-- a label that is neither the environment's cancellation nor the worker's spontaneous failure -/
abbrev Good (l : Lbl) : Prop := l ≠ .ctxCancel ∧ l ≠ .workerFails

/-- a label of the consumer goroutine (consumer proper, its result send, the drain loop) -/
abbrev CSide (l : Lbl) : Prop :=
  l = .consumerTake ∨ l = .consumerFail ∨ l = .consumerSeesClosed ∨ l = .consumerSend ∨ l = .drainTake ∨
    l = .drainDone

theorem CSide.good {l : Lbl} (h : CSide l) : Good l := by
  rcases h with h | h | h | h | h | h <;> subst h <;> decide

theorem enabled_of_isSome {P : Lbl → Prop} {s : St} (l : Lbl) (hl : P l) (h : (step s l).isSome = true) :
    ∃ l s', P l ∧ step s l = some s' :=
  ⟨l, (step s l).get h, hl, by simp⟩

/-- while the consumer goroutine is alive and the wound channel is non-empty or closed, the consumer side
    (consumer proper, its result send, or the drain loop) can move -/
theorem consumer_side {s : St} (hi : Inv s) (hne : s.consumer ≠ .gone)
    (hw : 0 < s.wounds ∨ s.woundsClosed = true) :
    ∃ l s', CSide l ∧ step s l = some s' := by
  obtain ⟨h1, h2, h3, h4, h5, h6, h7, h8, h9, h10⟩ := hi
  rcases s with ⟨cap, nfiles, w, m, wk, c, wounds, wc, we, ce, fic, cn, ctx⟩
  dsimp only at *
  cases c with
  | running b =>
    by_cases hpos : 0 < wounds
    · cases b with
      | none => exact enabled_of_isSome .consumerTake (by decide) (by simp [step, hpos])
      | some k =>
        cases k with
        | zero => exact enabled_of_isSome .consumerFail (by decide) (by simp [step])
        | succ k => exact enabled_of_isSome .consumerTake (by decide) (by simp [step, hpos])
    · have hz : wounds = 0 := by omega
      have hc : wc = true := hw.resolve_left hpos
      exact enabled_of_isSome .consumerSeesClosed (by decide) (by simp [step, hz, hc])
  | sending =>
    have hce : ce = false := by
      cases ce with
      | false => rfl
      | true => simp at h5
    exact enabled_of_isSome .consumerSend (by decide) (by simp [step, hce])
  | draining =>
    by_cases hpos : 0 < wounds
    · exact enabled_of_isSome .drainTake (by decide) (by simp [step, hpos])
    · have hz : wounds = 0 := by omega
      have hc : wc = true := hw.resolve_left hpos
      exact enabled_of_isSome .drainDone (by decide) (by simp [step, hz, hc])
  | gone => exact absurd rfl hne

/-- before main closes the wound channel, a live worker that is not waiting for a dispatch can move, or
    (when its wound send is blocked on the full channel) the consumer side can -/
theorem worker_side {s : St} (hi : Inv s) (hcap : 0 < s.cap) (hne : s.worker ≠ .gone)
    (hidle : s.worker = .idle → s.fileIndicesClosed = true ∨ s.cancelled = true)
    (hopen : s.woundsClosed = false) :
    ∃ l s', Good l ∧ step s l = some s' := by
  have hi' := hi
  obtain ⟨h1, h2, h3, h4, h5, h6, h7, h8, h9, h10⟩ := hi'
  rcases s with ⟨cap, nfiles, w, m, wk, c, wounds, wc, we, ce, fic, cn, ctx⟩
  dsimp only at h1 h2 h3 h4 h5 h6 h7 h8 h9 h10 hcap hne hidle hopen
  cases wk with
  | idle =>
    have hx := hidle rfl
    exact enabled_of_isSome .workerSeesClosed (by decide) (by simp [step, hx])
  | file k =>
    cases k with
    | zero => exact enabled_of_isSome .workerFinishFile (by decide) (by simp [step])
    | succ k =>
      by_cases hroom : wounds < cap
      · exact enabled_of_isSome .workerSendWound (by decide) (by simp [step, hroom])
      · refine (consumer_side hi ?_ (Or.inl ?_)).imp fun l h => h.imp fun s' h => ⟨h.1.good, h.2⟩
        · intro hg
          have := h9 hg
          simp [hopen] at this
        · show 0 < wounds
          omega
  | exiting =>
    have hwe : we = false := by
      cases we with
      | false => rfl
      | true => simp at h2
    exact enabled_of_isSome .workerExit (by decide) (by simp [step, hwe])
  | gone => exact absurd rfl hne

/-- deadlock freedom, strong form: until main has returned some goroutine can move without help from the
    environment (`ctxCancel`) and without the worker failing spontaneously (`workerFails`) -/
theorem inv_progress {s : St} (hi : Inv s) (hcap : 0 < s.cap) (hnr : s.main ≠ .returned) :
    ∃ l s', Good l ∧ step s l = some s' := by
  have hi' := hi
  obtain ⟨h1, h2, h3, h4, h5, h6, h7, h8, h9, h10⟩ := hi'
  rcases s with ⟨cap, nfiles, w, m, wk, c, wounds, wc, we, ce, fic, cn, ctx⟩
  dsimp only at h1 h2 h3 h4 h5 h6 h7 h8 h9 h10 hcap hnr
  cases m with
  | pre k =>
    cases k with
    | zero => exact absurd (h1 0 rfl) (by omega)
    | succ k => exact enabled_of_isSome .mainPreSkip (by decide) (by simp [step])
  | loop i =>
    have hopen : wc = false := by
      cases wc with
      | false => rfl
      | true => simp at h8
    by_cases hc : i ≥ nfiles ∨ cn = true
    · exact enabled_of_isSome .mainCloseIndices (by decide) (by simp [step, hc])
    · have hlt : i < nfiles := by omega
      have hcn : cn = false := by
        cases cn with
        | false => rfl
        | true => simp at hc
      by_cases hg : wk = .gone
      · have hwe : we = true := by simpa using h3 hg
        exact enabled_of_isSome .mainSeesWorkerErr (by decide) (by simp [step, hlt, hwe, hcn])
      · by_cases hid : wk = .idle
        · subst hid
          exact enabled_of_isSome .mainDispatch (by decide) (by simp [step, hlt, hcn])
        · exact worker_side hi hcap hg (fun h => absurd h hid) hopen
  | closed =>
    have hopen : wc = false := by
      cases wc with
      | false => rfl
      | true => simp at h8
    by_cases hwe : we = true
    · exact enabled_of_isSome .mainJoinWorker (by decide) (by simp [step, hwe])
    · refine worker_side hi hcap ?_ (fun _ => Or.inl (h10 rfl)) hopen
      intro hg
      have := h3 hg
      simp [hwe] at this
  | woundsClosed =>
    by_cases hce : ce = true
    · exact enabled_of_isSome .mainJoinConsumer (by decide) (by simp [step, hce])
    · refine (consumer_side hi ?_ (Or.inr (h8.mpr (Or.inl rfl)))).imp
        fun l h => h.imp fun s' h => ⟨h.1.good, h.2⟩
      intro hg
      have := h6 (Or.inr hg)
      simp [hce] at this
  | returned => exact absurd rfl hnr

/-- a full wound channel is always emptied by the consumer side as long as main has not closed it (this is
    what unblocks a wound send of main's pre-pass or of the worker) -/
theorem full_channel_unblocked {s : St} (hi : Inv s) (hopen : s.woundsClosed = false) (hw : 0 < s.wounds) :
    ∃ l s', CSide l ∧ step s l = some s' := by
  refine consumer_side hi ?_ (Or.inl hw)
  intro hg
  have := hi.consumerGone hg
  simp [hopen] at this

/-- once main has returned, a stuck state has no goroutine left -/
theorem inv_returned {s : St} (hi : Inv s) (hr : s.main = .returned)
    (hstuck : ∀ l s', l ≠ Lbl.ctxCancel → step s l ≠ some s') :
    s.worker = .gone ∧ s.consumer = .gone := by
  refine ⟨hi.joinedWorker (Or.inr hr), ?_⟩
  by_cases hg : s.consumer = .gone
  · exact hg
  · obtain ⟨l, s', hl, hs⟩ := consumer_side hi hg (Or.inr (hi.woundsClosedIff.mpr (Or.inr hr)))
    exact absurd hs (hstuck l s' hl.good.1)

/-! ### running a concrete schedule -/

/-- execute a list of labels; `none` if some label is not enabled -/
def run (s : St) : List Lbl → Option St
  | [] => some s
  | l :: ls => (step s l).bind (fun s' => run s' ls)

theorem reach_run {s₀ s s' : St} (h : Reach s₀ s) (ls : List Lbl) (hr : run s ls = some s') :
    Reach s₀ s' := by
  induction ls generalizing s with
  | nil =>
    simp only [run, Option.some.injEq] at hr
    exact hr ▸ h
  | cons l ls ih =>
    simp only [run] at hr
    cases hl : step s l with
    | none => simp [hl] at hr
    | some s1 =>
      rw [hl] at hr
      exact ih (.step h hl) hr

theorem exists_reach_of_run (s₀ : St) (ls : List Lbl) (p : St → Prop) [DecidablePred p]
    (h : (run s₀ ls).any (fun s => decide (p s)) = true) : ∃ s, Reach s₀ s ∧ p s := by
  cases hr : run s₀ ls with
  | none => simp [hr] at h
  | some s =>
    rw [hr] at h
    exact ⟨s, reach_run .refl ls hr, by simpa using h⟩

end Wharf.ValidateTS
