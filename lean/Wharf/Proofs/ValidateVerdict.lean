/-
  Helper lemmas for the verdict half of C16 (the value-carrying goroutine transition system of `Validate`,
  Wharf/Model/ValidateVerdictTS.lean): inductive invariants, enabledness lemmas, the termination measure.
-/
import Wharf.Model.ValidateVerdictTS

namespace Wharf.ValidateVerdict

/-! ### small helpers -/

/-- the slot / ghost holds a non-nil error -/
def isErr : Option (Option Err) → Bool
  | some (some _) => true
  | _ => false

@[simp] theorem isErr_none : isErr none = false := rfl
@[simp] theorem isErr_some (v : Option Err) : isErr (some v) = true ↔ v ≠ none := by cases v <;> simp [isErr]

@[simp] theorem isErr_eq_false_iff (x : Option (Option Err)) : isErr x = false ↔ x = none ∨ x = some none := by
  rcases x with _ | _ | _ <;> simp [isErr]

@[simp] theorem isErr_eq_true_iff (x : Option (Option Err)) : isErr x = true ↔ x ≠ none ∧ x ≠ some none := by
  rcases x with _ | _ | _ <;> simp [isErr]

@[simp] theorem mergeErr_eq_none {r v : Option Err} : mergeErr r v = none ↔ r = none ∧ v = none := by
  cases r <;> cases v <;> simp [mergeErr]

@[simp] theorem mergeErr_none_none : mergeErr none none = none := rfl
@[simp] theorem mergeErr_some_left (e : Err) (v : Option Err) : mergeErr (some e) v = some e := by
  cases v <;> simp [mergeErr]
@[simp] theorem mergeErr_none_left (v : Option Err) : mergeErr none v = v := by
  cases v <;> simp [mergeErr]

namespace MainPC
/-- main is at or past `close(fileIndices)` -/
def afterLoop : MainPC → Bool
  | .closed | .woundsClosed | .returned => true
  | _ => false
/-- main is at or past `close(vctx.Wounds)` -/
def afterJoin : MainPC → Bool
  | .woundsClosed | .returned => true
  | _ => false
/-- main is in the dir/symlink pass or has returned early from it -/
def early : MainPC → Bool
  | .pre _ | .failed => true
  | _ => false
/-- number of dir/symlink entries already inspected -/
def prePos (npre : Nat) : MainPC → Nat
  | .pre i => i
  | .failed => 0
  | _ => npre

@[simp] theorem afterLoop_pre (i : Nat) : afterLoop (.pre i) = false := rfl
@[simp] theorem afterLoop_loop (i : Nat) : afterLoop (.loop i) = false := rfl
@[simp] theorem afterLoop_closed : afterLoop .closed = true := rfl
@[simp] theorem afterLoop_woundsClosed : afterLoop .woundsClosed = true := rfl
@[simp] theorem afterLoop_returned : afterLoop .returned = true := rfl
@[simp] theorem afterLoop_failed : afterLoop .failed = false := rfl
@[simp] theorem afterJoin_pre (i : Nat) : afterJoin (.pre i) = false := rfl
@[simp] theorem afterJoin_loop (i : Nat) : afterJoin (.loop i) = false := rfl
@[simp] theorem afterJoin_closed : afterJoin .closed = false := rfl
@[simp] theorem afterJoin_woundsClosed : afterJoin .woundsClosed = true := rfl
@[simp] theorem afterJoin_returned : afterJoin .returned = true := rfl
@[simp] theorem afterJoin_failed : afterJoin .failed = false := rfl
@[simp] theorem early_pre (i : Nat) : early (.pre i) = true := rfl
@[simp] theorem early_loop (i : Nat) : early (.loop i) = false := rfl
@[simp] theorem early_closed : early .closed = false := rfl
@[simp] theorem early_woundsClosed : early .woundsClosed = false := rfl
@[simp] theorem early_returned : early .returned = false := rfl
@[simp] theorem early_failed : early .failed = true := rfl
@[simp] theorem prePos_pre (n i : Nat) : prePos n (.pre i) = i := rfl
@[simp] theorem prePos_loop (n i : Nat) : prePos n (.loop i) = n := rfl
@[simp] theorem prePos_closed (n : Nat) : prePos n .closed = n := rfl
@[simp] theorem prePos_woundsClosed (n : Nat) : prePos n .woundsClosed = n := rfl
@[simp] theorem prePos_returned (n : Nat) : prePos n .returned = n := rfl
@[simp] theorem prePos_failed (n : Nat) : prePos n .failed = 0 := rfl
end MainPC

/-! ### control invariant -/

structure InvC (c : Cfg) (s : St) : Prop where
  preLe : ∀ i, s.main = .pre i → i ≤ c.npre
  preUnborn : s.main.early = true → s.worker = .unborn
  unbornEarly : s.worker = .unborn → s.main.early = true
  loopLe : ∀ i, s.main = .loop i → i ≤ c.nfiles ∧ s.dispatched = i
  ficIff : s.fileIndicesClosed = s.main.afterLoop
  wcIff : s.woundsClosed = s.main.afterJoin
  dispLe : s.dispatched ≤ c.nfiles
  dispAll : s.main.afterLoop = true → s.cancelled = false → s.dispatched = c.nfiles
  earlyQuiet : s.main.early = true → s.cancelled = false ∧ s.dispatched = 0 ∧ s.filesDone = 0 ∧ s.workerErrs = none
  wFile : ∀ j k, s.worker = .file j k → s.dispatched = j + 1 ∧ s.filesDone = j ∧ k ≤ c.woundsOf j
  wIdle : s.worker = .starting ∨ s.worker = .idle → s.filesDone = s.dispatched
  wExitNil : s.worker = .exiting none → s.filesDone = s.dispatched ∧ (s.fileIndicesClosed = true ∨ s.cancelled = true)
  wSlot : s.workerErrs ≠ none → s.worker = .gone
  wNilSlot : s.workerErrs = some none →
    s.cancelled = true ∨ (s.fileIndicesClosed = true ∧ s.filesDone = s.dispatched)
  wGone : s.worker = .gone → s.main.afterJoin = true ∨ s.workerErrs ≠ none ∨ s.closeFailed = true
  joinedWorker : s.main.afterJoin = true → s.worker = .gone ∧ s.workerErrs = none
  closeFailedStuck : s.closeFailed = true → s.workerErrs = none ∧ s.main.afterJoin = false ∧ s.worker = .gone

theorem invC_init (c : Cfg) : InvC c init := by
  constructor <;> simp [init]


/-- the invariant-preservation tactic: split the step, simplify the hypotheses once, then close every field -/
macro "inv_close" : tactic =>
  `(tactic| ((try simp [*]) <;> (try omega) <;> (intros; first | grind | (simp_all <;> first | omega | grind))))

theorem invC_step {c : Cfg} {s s' : St} {l : Lbl} (hi : InvC c s) (hs : step c s l = some s') : InvC c s' := by
  obtain ⟨h1, h2, h3, h4, h5, h6, h7, h8, h9, h10, h11, h12, h13, h14, h15, h16, h17⟩ := hi
  rcases s with ⟨m, wk, cs, wounds, wc, we, ce, fic, cn, ctx, re, ret, disp, fd, dr, sr, dres, iof, cf⟩
  dsimp only at h1 h2 h3 h4 h5 h6 h7 h8 h9 h10 h11 h12 h13 h14 h15 h16 h17
  cases l <;> simp only [step] at hs <;> (repeat' split at hs) <;> (try (cases hs; done)) <;> cases hs <;>
    (try simp at h1 h2 h3 h4 h5 h6 h7 h8 h9 h10 h11 h12 h13 h14 h15 h16 h17) <;>
    constructor <;> inv_close

theorem invC_reach {c : Cfg} {s : St} (h : Reach c init s) : InvC c s := by
  induction h with
  | refl => exact invC_init c
  | step _ hs ih => exact invC_step ih hs

/-! ### value invariant -/

/-- what `Validate` has returned, given main's program counter and `retErr` -/
def retOf : MainPC → Option Err → Option (Option Err)
  | .returned, r => some r
  | .failed, _ => some (some .other)
  | _, _ => none

@[simp] theorem retOf_pre (i : Nat) (r : Option Err) : retOf (.pre i) r = none := rfl
@[simp] theorem retOf_loop (i : Nat) (r : Option Err) : retOf (.loop i) r = none := rfl
@[simp] theorem retOf_closed (r : Option Err) : retOf .closed r = none := rfl
@[simp] theorem retOf_woundsClosed (r : Option Err) : retOf .woundsClosed r = none := rfl
@[simp] theorem retOf_returned (r : Option Err) : retOf .returned r = some r := rfl
@[simp] theorem retOf_failed (r : Option Err) : retOf .failed r = some (some .other) := rfl

structure InvV (c : Cfg) (s : St) : Prop where
  cSlot : s.consumerErrs ≠ none → s.consumer = .draining ∨ s.consumer = .gone
  cSent : s.consumer = .draining ∨ s.consumer = .gone → s.consumerErrs ≠ none ∨ s.main = .returned
  joinedConsumer : s.main = .returned → (s.consumer = .draining ∨ s.consumer = .gone) ∧ s.consumerErrs = none
  cGone : s.consumer = .gone → s.woundsClosed = true ∧ s.wounds = []
  cRunning : s.consumer = .running → s.doResult = none
  cSending : ∀ r, s.consumer = .sending r → s.doResult = some r
  cDone : s.consumer = .draining ∨ s.consumer = .gone → s.doResult ≠ none
  doNil : s.doResult = some none → s.woundsClosed = true ∧ s.wounds = []
  cNilSlot : s.consumerErrs = some none → s.cancelled = true ∨ s.doResult = some none
  cancelledErr : s.cancelled = true → s.retErr ≠ none
  droppedCancelled : s.dropped = true → s.cancelled = true
  retErrWhen : s.retErr ≠ none → s.cancelled = true ∨ s.main.afterJoin = true
  allFiles : s.main.afterJoin = true → s.retErr = none → s.filesDone = c.nfiles
  retIs : s.ret = retOf s.main s.retErr
  errKept : isErr s.doResult = true → s.consumer = .draining ∨ s.consumer = .gone →
    isErr s.consumerErrs = true ∨ s.retErr ≠ none

theorem invV_init (c : Cfg) : InvV c init := by
  constructor <;> simp [init]

theorem invV_step {c : Cfg} {s s' : St} {l : Lbl} (hc : InvC c s) (hi : InvV c s) (hs : step c s l = some s') :
    InvV c s' := by
  obtain ⟨h1, h2, h3, h4, h5, h6, h7, h8, h9, h10, h11, h12, h13, h14, h15, h16, h17⟩ := hc
  obtain ⟨g1, g2, g3, g4, g5, g6, g7, g8, g9, g10, g11, g12, g13, g14, g15⟩ := hi
  rcases s with ⟨m, wk, cs, wounds, wc, we, ce, fic, cn, ctx, re, ret, disp, fd, dr, sr, dres, iof, cf⟩
  dsimp only at h1 h2 h3 h4 h5 h6 h7 h8 h9 h10 h11 h12 h13 h14 h15 h16 h17 g1 g2 g3 g4 g5 g6 g7 g8 g9 g10 g11 g12 g13 g14 g15
  cases l <;> simp only [step] at hs <;> (repeat' split at hs) <;> (try (cases hs; done)) <;> cases hs <;>
    (try simp at h1 h2 h3 h4 h5 h6 h7 h8 h9 h10 h11 h12 h13 h14 h15 h16 h17 g1 g2 g3 g4 g5 g6 g7 g8 g9 g10 g11 g12 g13 g14 g15) <;>
    constructor <;> inv_close

theorem invV_reach {c : Cfg} {s : St} (h : Reach c init s) : InvV c s := by
  induction h with
  | refl => exact invV_init c
  | step hr hs ih => exact invV_step (invC_reach hr) ih hs

/-! ### real-wound invariant -/

@[simp] theorem cleanPre_zero (c : Cfg) : cleanPre c 0 = true := rfl
@[simp] theorem cleanPre_succ (c : Cfg) (n : Nat) :
    cleanPre c (n + 1) = true ↔ cleanPre c n = true ∧ c.preBad n = false := by
  simp [cleanPre]
@[simp] theorem cleanFile_zero (c : Cfg) (i : Nat) : cleanFile c i 0 = true := rfl
@[simp] theorem cleanFile_succ (c : Cfg) (i k : Nat) :
    cleanFile c i (k + 1) = true ↔ cleanFile c i k = true ∧ c.realOf i k = false := by
  simp [cleanFile]
@[simp] theorem cleanFiles_zero (c : Cfg) : cleanFiles c 0 = true := rfl
@[simp] theorem cleanFiles_succ (c : Cfg) (n : Nat) :
    cleanFiles c (n + 1) = true ↔ cleanFiles c n = true ∧ cleanFile c n (c.woundsOf n) = true := by
  simp [cleanFiles]

structure InvR (c : Cfg) (s : St) : Prop where
  preClean : s.sentReal = false → s.dropped = false → cleanPre c (s.main.prePos c.npre) = true
  filesClean : s.sentReal = false → s.dropped = false → cleanFiles c s.filesDone = true
  fileClean : ∀ j k, s.worker = .file j k → s.sentReal = false → s.dropped = false → cleanFile c j k = true
  realSeen : s.sentReal = true → true ∈ s.wounds ∨ isErr s.doResult = true

theorem invR_init (c : Cfg) : InvR c init := by
  constructor <;> simp [init]

theorem invR_step {c : Cfg} {s s' : St} {l : Lbl} (hc : InvC c s) (hv : InvV c s) (hi : InvR c s)
    (hs : step c s l = some s') : InvR c s' := by
  obtain ⟨h1, h2, h3, h4, h5, h6, h7, h8, h9, h10, h11, h12, h13, h14, h15, h16, h17⟩ := hc
  obtain ⟨g1, g2, g3, g4, g5, g6, g7, g8, g9, g10, g11, g12, g13, g14, g15⟩ := hv
  obtain ⟨r1, r2, r3, r4⟩ := hi
  rcases s with ⟨m, wk, cs, wounds, wc, we, ce, fic, cn, ctx, re, ret, disp, fd, dr, sr, dres, iof, cf⟩
  dsimp only at h1 h2 h3 h4 h5 h6 h7 h8 h9 h10 h11 h12 h13 h14 h15 h16 h17 g1 g2 g3 g4 g5 g6 g7 g8 g9 g10 g11 g12 g13 g14 g15 r1 r2 r3 r4
  cases l <;> simp only [step] at hs <;> (repeat' split at hs) <;> (try (cases hs; done)) <;> cases hs <;>
    (try simp at h1 h2 h3 h4 h5 h6 h7 h8 h9 h10 h11 h12 h13 h14 h15 h16 h17 g1 g2 g3 g4 g5 g6 g7 g8 g9 g10 g11 g12 g13 g14 g15 r1 r2 r3 r4) <;>
    constructor <;> inv_close

theorem invR_reach {c : Cfg} {s : St} (h : Reach c init s) : InvR c s := by
  induction h with
  | refl => exact invR_init c
  | step hr hs ih => exact invR_step (invC_reach hr) (invV_reach hr) ih hs

/-! ### I/O failures are not lost -/

namespace WorkerPC
/-- the worker is about to report an error -/
def failing : WorkerPC → Bool
  | .newErr => true
  | .exiting (some _) => true
  | _ => false
@[simp] theorem failing_unborn : failing .unborn = false := rfl
@[simp] theorem failing_starting : failing .starting = false := rfl
@[simp] theorem failing_newErr : failing .newErr = true := rfl
@[simp] theorem failing_idle : failing .idle = false := rfl
@[simp] theorem failing_file (i k : Nat) : failing (.file i k) = false := rfl
@[simp] theorem failing_exiting (r : Option Err) : failing (.exiting r) = true ↔ r ≠ none := by
  cases r <;> simp [failing]
@[simp] theorem failing_exiting_false (r : Option Err) : failing (.exiting r) = false ↔ r = none := by
  cases r <;> simp [failing]
@[simp] theorem failing_gone : failing .gone = false := rfl
end WorkerPC

structure InvW (c : Cfg) (s : St) : Prop where
  ioKept : s.ioFailed = true → s.main = .failed ∨ s.worker.failing = true ∨ isErr s.workerErrs = true ∨
    s.retErr ≠ none ∨ s.closeFailed = true
  failedIo : s.main = .failed → s.ioFailed = true

theorem invW_init (c : Cfg) : InvW c init := by
  constructor <;> simp [init]

theorem invW_step {c : Cfg} {s s' : St} {l : Lbl} (hc : InvC c s) (hv : InvV c s) (hi : InvW c s)
    (hs : step c s l = some s') : InvW c s' := by
  obtain ⟨h1, h2, h3, h4, h5, h6, h7, h8, h9, h10, h11, h12, h13, h14, h15, h16, h17⟩ := hc
  obtain ⟨g1, g2, g3, g4, g5, g6, g7, g8, g9, g10, g11, g12, g13, g14, g15⟩ := hv
  obtain ⟨r1, r2⟩ := hi
  rcases s with ⟨m, wk, cs, wounds, wc, we, ce, fic, cn, ctx, re, ret, disp, fd, dr, sr, dres, iof, cf⟩
  dsimp only at h1 h2 h3 h4 h5 h6 h7 h8 h9 h10 h11 h12 h13 h14 h15 h16 h17 g1 g2 g3 g4 g5 g6 g7 g8 g9 g10 g11 g12 g13 g14 g15 r1 r2
  cases l <;> simp only [step] at hs <;> (repeat' split at hs) <;> (try (cases hs; done)) <;> cases hs <;>
    (try simp at h1 h2 h3 h4 h5 h6 h7 h8 h9 h10 h11 h12 h13 h14 h15 h16 h17 g1 g2 g3 g4 g5 g6 g7 g8 g9 g10 g11 g12 g13 g14 g15 r1 r2) <;>
    constructor <;> inv_close

theorem invW_reach {c : Cfg} {s : St} (h : Reach c init s) : InvW c s := by
  induction h with
  | refl => exact invW_init c
  | step hr hs ih => exact invW_step (invC_reach hr) (invV_reach hr) ih hs

/-! ### the Boolean scans and the quantified statements -/

theorem cleanPre_iff (c : Cfg) (n : Nat) : cleanPre c n = true ↔ ∀ i, i < n → c.preBad i = false := by
  induction n with
  | zero => simp
  | succ n ih =>
    rw [cleanPre_succ, ih]
    constructor
    · rintro ⟨h1, h2⟩ i hi
      by_cases h : i = n
      · subst h; exact h2
      · exact h1 i (by omega)
    · intro h
      exact ⟨fun i hi => h i (by omega), h n (by omega)⟩

theorem cleanFile_iff (c : Cfg) (i n : Nat) : cleanFile c i n = true ↔ ∀ k, k < n → c.realOf i k = false := by
  induction n with
  | zero => simp
  | succ n ih =>
    rw [cleanFile_succ, ih]
    constructor
    · rintro ⟨h1, h2⟩ k hk
      by_cases h : k = n
      · subst h; exact h2
      · exact h1 k (by omega)
    · intro h
      exact ⟨fun k hk => h k (by omega), h n (by omega)⟩

theorem cleanFiles_iff (c : Cfg) (n : Nat) :
    cleanFiles c n = true ↔ ∀ i k, i < n → k < c.woundsOf i → c.realOf i k = false := by
  induction n with
  | zero => simp
  | succ n ih =>
    rw [cleanFiles_succ, ih, cleanFile_iff]
    constructor
    · rintro ⟨h1, h2⟩ i k hi hk
      by_cases h : i = n
      · subst h; exact h2 k hk
      · exact h1 i k (by omega) hk
    · intro h
      exact ⟨fun i k hi hk => h i k (by omega) hk, fun k hk => h n k (by omega) hk⟩

theorem noReal_iff (c : Cfg) : NoReal c ↔ cleanPre c c.npre = true ∧ cleanFiles c c.nfiles = true := by
  rw [cleanPre_iff, cleanFiles_iff]
  rfl

theorem hasReal_not_noReal {c : Cfg} (h : HasReal c) : ¬ NoReal c := by
  rintro ⟨h1, h2⟩
  rcases h with ⟨i, hi, hb⟩ | ⟨i, k, hi, hk, hb⟩
  · rw [h1 i hi] at hb; cases hb
  · rw [h2 i k hi hk] at hb; cases hb

theorem exists_of_cleanPre_false (c : Cfg) (n : Nat) (h : cleanPre c n = false) :
    ∃ i, i < n ∧ c.preBad i = true := by
  induction n with
  | zero => simp at h
  | succ n ih =>
    by_cases hb : c.preBad n = true
    · exact ⟨n, by omega, hb⟩
    · have : cleanPre c n = false := by
        cases hc : cleanPre c n with
        | false => rfl
        | true => simp [cleanPre, hc, hb] at h
      obtain ⟨i, hi, hib⟩ := ih this
      exact ⟨i, by omega, hib⟩

theorem exists_of_cleanFile_false (c : Cfg) (i n : Nat) (h : cleanFile c i n = false) :
    ∃ k, k < n ∧ c.realOf i k = true := by
  induction n with
  | zero => simp at h
  | succ n ih =>
    by_cases hb : c.realOf i n = true
    · exact ⟨n, by omega, hb⟩
    · have : cleanFile c i n = false := by
        cases hc : cleanFile c i n with
        | false => rfl
        | true => simp [cleanFile, hc, hb] at h
      obtain ⟨k, hk, hkb⟩ := ih this
      exact ⟨k, by omega, hkb⟩

theorem exists_of_cleanFiles_false (c : Cfg) (n : Nat) (h : cleanFiles c n = false) :
    ∃ i k, i < n ∧ k < c.woundsOf i ∧ c.realOf i k = true := by
  induction n with
  | zero => simp at h
  | succ n ih =>
    cases hf : cleanFile c n (c.woundsOf n) with
    | false =>
      obtain ⟨k, hk, hkb⟩ := exists_of_cleanFile_false c n _ hf
      exact ⟨n, k, by omega, hk, hkb⟩
    | true =>
      have : cleanFiles c n = false := by
        cases hc : cleanFiles c n with
        | false => rfl
        | true => simp [cleanFiles, hc, hf] at h
      obtain ⟨i, k, hi, hk, hkb⟩ := ih this
      exact ⟨i, k, by omega, hk, hkb⟩

/-- `HasReal` is exactly the negation of `NoReal` (both are decided by the Boolean scans) -/
theorem hasReal_iff_not_noReal (c : Cfg) : HasReal c ↔ ¬ NoReal c := by
  constructor
  · exact hasReal_not_noReal
  · intro h
    rw [noReal_iff] at h
    cases hp : cleanPre c c.npre with
    | false => exact Or.inl (exists_of_cleanPre_false c _ hp)
    | true =>
      cases hf : cleanFiles c c.nfiles with
      | false => exact Or.inr (exists_of_cleanFiles_false c _ hf)
      | true => exact absurd ⟨hp, hf⟩ h

/-! ### the clean verdict -/

/-- everything that holds in a state in which `Validate` has returned nil -/
structure CleanFacts (c : Cfg) (s : St) : Prop where
  returned : s.main = .returned
  retErrNil : s.retErr = none
  notCancelled : s.cancelled = false
  nothingDropped : s.dropped = false
  allFilesDone : s.filesDone = c.nfiles
  allDispatched : s.dispatched = c.nfiles
  guardianSawClose : s.doResult = some none
  noRealSent : s.sentReal = false
  channelEmpty : s.wounds = []
  noIoFailure : s.ioFailed = false
  workerGone : s.worker = .gone
  preClean : cleanPre c c.npre = true
  filesClean : cleanFiles c c.nfiles = true

theorem clean_facts {c : Cfg} {s : St} (h : Reach c init s) (hret : s.ret = some none) : CleanFacts c s := by
  obtain ⟨h1, h2, h3, h4, h5, h6, h7, h8, h9, h10, h11, h12, h13, h14, h15, h16, h17⟩ := invC_reach h
  obtain ⟨g1, g2, g3, g4, g5, g6, g7, g8, g9, g10, g11, g12, g13, g14, g15⟩ := invV_reach h
  obtain ⟨r1, r2, r3, r4⟩ := invR_reach h
  obtain ⟨w1, w2⟩ := invW_reach h
  rcases s with ⟨m, wk, cs, wounds, wc, we, ce, fic, cn, ctx, re, ret, disp, fd, dr, sr, dres, iof, cf⟩
  dsimp only at *
  subst hret
  cases m <;> simp at g14
  subst g14
  simp at *
  obtain ⟨rfl, rfl⟩ := h16
  simp at *
  constructor <;> (try dsimp only) <;> grind

/-! ### where error values come from (for the exact verdict of an undisturbed run) -/

theorem hasReal_pre {c : Cfg} {i : Nat} (hi : i < c.npre) (hb : c.preBad i = true) : HasReal c :=
  Or.inl ⟨i, hi, hb⟩

theorem hasReal_file {c : Cfg} {i k : Nat} (hi : i < c.nfiles) (hk : k < c.woundsOf i) (hb : c.realOf i k = true) :
    HasReal c :=
  Or.inr ⟨i, k, hi, hk, hb⟩

/-- a real wound in the channel is a real wound of the tree -/
theorem queue_real_step {c : Cfg} {s s' : St} {l : Lbl} (hc : InvC c s) (hi : true ∈ s.wounds → HasReal c)
    (hs : step c s l = some s') : true ∈ s'.wounds → HasReal c := by
  obtain ⟨h1, h2, h3, h4, h5, h6, h7, h8, h9, h10, h11, h12, h13, h14, h15, h16, h17⟩ := hc
  rcases s with ⟨m, wk, cs, wounds, wc, we, ce, fic, cn, ctx, re, ret, disp, fd, dr, sr, dres, iof, cf⟩
  dsimp only at h1 h2 h3 h4 h5 h6 h7 h8 h9 h10 h11 h12 h13 h14 h15 h16 h17 hi
  cases l
  case mainPreWound =>
    simp only [step] at hs
    split at hs
    · split at hs
      · rename_i h
        cases hs
        intro _
        exact hasReal_pre h.1 h.2.1
      · cases hs
    · cases hs
  case workerSendWound =>
    simp only [step] at hs
    split at hs
    · split at hs
      · rename_i j k h
        cases hs
        intro hm
        rcases List.mem_append.mp hm with hm | hm
        · exact hi hm
        · have hd := h10 j k rfl
          exact hasReal_file (by omega) h.1 (by simpa using (List.mem_singleton.mp hm).symm)
      · cases hs
    · cases hs
  all_goals
    (simp only [step] at hs <;> (repeat' split at hs) <;> (try (cases hs; done)) <;> cases hs <;>
      dsimp only <;> (try exact hi) <;> (try (simp at hi ⊢; grind)))

theorem queue_real {c : Cfg} {s : St} (h : Reach c init s) : true ∈ s.wounds → HasReal c := by
  induction h with
  | refl => simp [init]
  | step hr hs ih => exact queue_real_step (invC_reach hr) ih hs

/-- in a run without context cancellation and without I/O failure, the only error value is `hasWound`, and it
    only exists when the tree has a real wound -/
def okQ (P : Prop) (v : Option Err) : Prop := v = none ∨ (v = some .hasWound ∧ P)

@[simp] theorem okQ_none (P : Prop) : okQ P none := Or.inl rfl
@[simp] theorem okQ_hasWound (P : Prop) : okQ P (some .hasWound) ↔ P := by simp [okQ]
@[simp] theorem okQ_cancelled (P : Prop) : ¬ okQ P (some .cancelled) := by simp [okQ]
@[simp] theorem okQ_other (P : Prop) : ¬ okQ P (some .other) := by simp [okQ]

theorem okQ_mergeErr {P : Prop} {r v : Option Err} (hr : okQ P r) (hv : okQ P v) : okQ P (mergeErr r v) := by
  cases r with
  | none => simpa using hv
  | some e => simpa using hr

structure InvQ (c : Cfg) (s : St) : Prop where
  qRetErr : s.ctxDone = false → s.ioFailed = false → okQ (HasReal c) s.retErr
  qWorkerErrs : s.ctxDone = false → s.ioFailed = false → ∀ v, s.workerErrs = some v → v = none
  qWorker : s.ctxDone = false → s.ioFailed = false → s.worker.failing = false
  qConsumerErrs : s.ctxDone = false → s.ioFailed = false → ∀ v, s.consumerErrs = some v → okQ (HasReal c) v
  qConsumer : s.ctxDone = false → s.ioFailed = false → ∀ r, s.consumer = .sending r → okQ (HasReal c) r

theorem invQ_init (c : Cfg) : InvQ c init := by
  constructor <;> simp [init]

theorem invQ_step {c : Cfg} {s s' : St} {l : Lbl} (hq : true ∈ s.wounds → HasReal c) (hi : InvQ c s)
    (hs : step c s l = some s') : InvQ c s' := by
  obtain ⟨q1, q2, q3, q4, q5⟩ := hi
  rcases s with ⟨m, wk, cs, wounds, wc, we, ce, fic, cn, ctx, re, ret, disp, fd, dr, sr, dres, iof, cf⟩
  dsimp only at q1 q2 q3 q4 q5 hq
  cases l <;> simp only [step] at hs <;> (repeat' split at hs) <;> (try (cases hs; done)) <;> cases hs <;>
    (try simp at q1 q2 q3 q4 q5 hq) <;>
    constructor <;> (try simp [*]) <;> (try (intros; first | (apply okQ_mergeErr <;> grind [okQ]) | grind [okQ] | (simp_all [okQ] <;> grind)))

theorem invQ_reach {c : Cfg} {s : St} (h : Reach c init s) : InvQ c s := by
  induction h with
  | refl => exact invQ_init c
  | step hr hs ih => exact invQ_step (queue_real hr) ih hs

/-- the value returned by an undisturbed run (no `ctxCancel`, no I/O failure) -/
theorem quiet_ret {c : Cfg} {s : St} (h : Reach c init s) (hctx : s.ctxDone = false) (hio : s.ioFailed = false)
    (r : Option Err) (hret : s.ret = some r) : okQ (HasReal c) r := by
  have hv := invV_reach h
  have hw := invW_reach h
  have hq := invQ_reach h
  have hr := hv.retIs
  rw [hret] at hr
  cases hm : s.main with
  | returned =>
    rw [hm] at hr
    simp at hr
    rw [hr]
    exact hq.qRetErr hctx hio
  | failed =>
    have := hw.failedIo hm
    rw [hio] at this
    cases this
  | pre i => rw [hm] at hr; simp at hr
  | loop i => rw [hm] at hr; simp at hr
  | closed => rw [hm] at hr; simp at hr
  | woundsClosed => rw [hm] at hr; simp at hr

/-! ### the termination measure -/

/-- `tailSum w i d = w i + w (i+1) + … + w (i+d-1)` -/
def tailSum (w : Nat → Nat) : Nat → Nat → Nat
  | _, 0 => 0
  | i, d + 1 => w i + tailSum w (i + 1) d

theorem tailSum_unfold (w : Nat → Nat) (n i : Nat) (h : i < n) :
    tailSum w i (n - i) = w i + tailSum w (i + 1) (n - (i + 1)) := by
  obtain ⟨d, hd⟩ : ∃ d, n - i = d + 1 := ⟨n - i - 1, by omega⟩
  have hd' : n - (i + 1) = d := by omega
  rw [hd, hd', tailSum]

def mainRank (c : Cfg) : MainPC → Nat
  | .pre i => c.nfiles + 5 + (c.npre - i)
  | .loop i => 3 + (c.nfiles - i)
  | .closed => 2
  | .woundsClosed => 1
  | .returned => 0
  | .failed => 0

/-- wounds that main may still send itself or hand to the worker -/
def mainPending (c : Cfg) : MainPC → Nat
  | .pre i => (c.npre - i) + tailSum c.woundsOf 0 c.nfiles
  | .loop i => tailSum c.woundsOf i (c.nfiles - i)
  | _ => 0

def workerRank : WorkerPC → Nat
  | .unborn => 4
  | .starting => 4
  | .file _ _ => 3
  | .idle => 2
  | .newErr => 1
  | .exiting _ => 1
  | .gone => 0

def workerPending (c : Cfg) : WorkerPC → Nat
  | .file i k => c.woundsOf i - k
  | _ => 0

def consumerRank : ConsumerPC → Nat
  | .running => 3
  | .sending _ => 2
  | .draining => 1
  | .gone => 0

def mu (c : Cfg) (s : St) : Nat :=
  (if s.ctxDone then 0 else 1) + (if s.cancelled then 0 else 1)
    + 2 * mainRank c s.main + workerRank s.worker + consumerRank s.consumer
    + 2 * (mainPending c s.main + workerPending c s.worker) + s.wounds.length

theorem mu_step {c : Cfg} {s s' : St} {l : Lbl} (hs : step c s l = some s') : mu c s' < mu c s := by
  rcases s with ⟨m, wk, cs, wounds, wc, we, ce, fic, cn, ctx, re, ret, disp, fd, dr, sr, dres, iof, cf⟩
  cases l <;> simp only [step] at hs <;> (repeat' split at hs) <;> (try (cases hs; done)) <;> cases hs <;>
    first
    | (simp_all [mu, mainRank, mainPending, workerRank, workerPending, consumerRank] <;> omega)
    | (rename_i hh; have hu := tailSum_unfold c.woundsOf c.nfiles _ hh.1
       simp only [mu, mainRank, mainPending, workerRank, workerPending, consumerRank, hu]; omega)

/-! ### enabledness -/

/-- a label that is neither an environment step (context cancellation, an I/O failure) nor an abandoned wound
    send (which the code only has for some of its sends) -/
abbrev Good (l : Lbl) : Prop :=
  l ≠ .ctxCancel ∧ l ≠ .mainPreFail ∧ l ≠ .workerPoolFail ∧ l ≠ .workerFails ∧ l ≠ .workerCloseFails ∧
    l ≠ .mainPreDrop ∧ l ≠ .workerDropWound

/-- a label of the consumer goroutine (the guardian, its result send, the drain loop) other than the guardian's
    `ctx.Done()` arm -/
abbrev CSide (l : Lbl) : Prop :=
  l = .guardTakeHealthy ∨ l = .guardTakeReal ∨ l = .guardSeesClosed ∨ l = .consumerSend ∨ l = .drainTake ∨
    l = .drainDone

theorem CSide.good {l : Lbl} (h : CSide l) : Good l := by
  rcases h with h | h | h | h | h | h <;> subst h <;> decide

theorem enabled_of_isSome {P : Lbl → Prop} {c : Cfg} {s : St} (l : Lbl) (hl : P l)
    (h : (step c s l).isSome = true) : ∃ l s', P l ∧ step c s l = some s' :=
  ⟨l, (step c s l).get h, hl, by simp⟩

/-- while the consumer goroutine is alive and the wound channel is non-empty or closed, the consumer side
    (guardian, its result send, or the drain loop) can move -/
theorem consumer_side {c : Cfg} {s : St} (hv : InvV c s) (hne : s.consumer ≠ .gone)
    (hw : s.wounds ≠ [] ∨ s.woundsClosed = true) :
    ∃ l s', CSide l ∧ step c s l = some s' := by
  obtain ⟨g1, g2, g3, g4, g5, g6, g7, g8, g9, g10, g11, g12, g13, g14, g15⟩ := hv
  rcases s with ⟨m, wk, cs, wounds, wc, we, ce, fic, cn, ctx, re, ret, disp, fd, dr, sr, dres, iof, cf⟩
  dsimp only at *
  cases cs with
  | running =>
    cases wounds with
    | nil =>
      have hc : wc = true := by simpa using hw
      exact enabled_of_isSome .guardSeesClosed (by decide) (by simp [step, hc])
    | cons b rest =>
      cases b with
      | false => exact enabled_of_isSome .guardTakeHealthy (by decide) (by simp [step])
      | true => exact enabled_of_isSome .guardTakeReal (by decide) (by simp [step])
  | sending r =>
    have hce : ce = none := by
      cases ce with
      | none => rfl
      | some v => simp at g1
    exact enabled_of_isSome .consumerSend (by decide) (by simp [step, hce])
  | draining =>
    cases wounds with
    | nil =>
      have hc : wc = true := by simpa using hw
      exact enabled_of_isSome .drainDone (by decide) (by simp [step, hc])
    | cons b rest => exact enabled_of_isSome .drainTake (by decide) (by simp [step])
  | gone => exact absurd rfl hne

/-- before main closes the wound channel, a live worker that is not waiting for a dispatch can move, or
    (when its wound send is blocked on the full channel) the consumer side can -/
theorem worker_side {c : Cfg} {s : St} (hc : InvC c s) (hv : InvV c s) (hcap : 0 < c.cap)
    (hne : s.worker ≠ .gone) (hnu : s.worker ≠ .unborn)
    (hidle : s.worker = .idle → s.fileIndicesClosed = true ∨ s.cancelled = true)
    (hopen : s.woundsClosed = false) :
    ∃ l s', Good l ∧ step c s l = some s' := by
  have hv' := hv
  obtain ⟨h1, h2, h3, h4, h5, h6, h7, h8, h9, h10, h11, h12, h13, h14, h15, h16, h17⟩ := hc
  obtain ⟨g1, g2, g3, g4, g5, g6, g7, g8, g9, g10, g11, g12, g13, g14, g15⟩ := hv'
  rcases s with ⟨m, wk, cs, wounds, wc, we, ce, fic, cn, ctx, re, ret, disp, fd, dr, sr, dres, iof, cf⟩
  dsimp only at h1 h2 h3 h4 h5 h6 h7 h8 h9 h10 h11 h12 h13 h14 h15 h16 h17 g1 g2 g3 g4 g5 g6 g7 g8 g9 g10 g11 g12 g13 g14 g15 hne hnu hidle hopen
  have hslot : wk ≠ .gone → we = none := by
    intro hg
    cases we with
    | none => rfl
    | some v => exact absurd (h13 (by simp)) hg
  cases wk with
  | unborn => exact absurd rfl hnu
  | starting => exact enabled_of_isSome .workerPoolOk (by decide) (by simp [step])
  | newErr =>
    have hwe := hslot (by simp)
    exact enabled_of_isSome .workerSendNewErr (by decide) (by simp [step, hwe])
  | idle =>
    rcases hidle rfl with hx | hx
    · exact enabled_of_isSome .workerSeesClosed (by decide) (by simp [step, hx])
    · exact enabled_of_isSome .workerSeesCancelled (by decide) (by simp [step, hx])
  | file j k =>
    have hk := (h10 j k rfl).2.2
    by_cases hdone : k = c.woundsOf j
    · exact enabled_of_isSome .workerFinishFile (by decide) (by simp [step, hdone])
    · have hlt : k < c.woundsOf j := by omega
      by_cases hroom : wounds.length < c.cap
      · exact enabled_of_isSome .workerSendWound (by decide) (by simp [step, hlt, hroom])
      · refine (consumer_side hv ?_ (Or.inl ?_)).imp fun l h => h.imp fun s' h => ⟨h.1.good, h.2⟩
        · intro hg
          have := (g4 hg).1
          simp [hopen] at this
        · show wounds ≠ []
          intro he
          simp [he] at hroom
          omega
  | exiting r =>
    have hwe := hslot (by simp)
    exact enabled_of_isSome .workerExit (by decide) (by simp [step, hwe])
  | gone => exact absurd rfl hne

/-- deadlock freedom, strong form: as long as `targetPool.Close()` has not failed, until main has returned some
    goroutine can move without help from the environment (`ctxCancel`, I/O failures) and without abandoning a
    wound send -/
theorem inv_progress {c : Cfg} {s : St} (hc : InvC c s) (hv : InvV c s) (hcap : 0 < c.cap)
    (hcf : s.closeFailed = false) (hnr : s.main ≠ .returned) (hnf : s.main ≠ .failed) :
    ∃ l s', Good l ∧ step c s l = some s' := by
  have hc' := hc
  have hv' := hv
  obtain ⟨h1, h2, h3, h4, h5, h6, h7, h8, h9, h10, h11, h12, h13, h14, h15, h16, h17⟩ := hc'
  obtain ⟨g1, g2, g3, g4, g5, g6, g7, g8, g9, g10, g11, g12, g13, g14, g15⟩ := hv'
  rcases s with ⟨m, wk, cs, wounds, wc, we, ce, fic, cn, ctx, re, ret, disp, fd, dr, sr, dres, iof, cf⟩
  dsimp only at h1 h2 h3 h4 h5 h6 h7 h8 h9 h10 h11 h12 h13 h14 h15 h16 h17 g1 g2 g3 g4 g5 g6 g7 g8 g9 g10 g11 g12 g13 g14 g15 hcf hnr hnf
  subst hcf
  cases m with
  | pre i =>
    have hle := h1 i rfl
    have hwk : wk = .unborn := h2 rfl
    have hopen : wc = false := by simpa using h6
    by_cases hlt : i < c.npre
    · cases hb : c.preBad i with
      | false => exact enabled_of_isSome .mainPreOk (by decide) (by simp [step, hlt, hb])
      | true =>
        by_cases hroom : wounds.length < c.cap
        · exact enabled_of_isSome .mainPreWound (by decide) (by simp [step, hlt, hb, hroom])
        · refine (consumer_side hv ?_ (Or.inl ?_)).imp fun l h => h.imp fun s' h => ⟨h.1.good, h.2⟩
          · intro hg
            have := (g4 hg).1
            simp [hopen] at this
          · show wounds ≠ []
            intro he
            simp [he] at hroom
            omega
    · subst hwk
      exact enabled_of_isSome .mainSpawn (by decide) (by simp [step, hlt])
  | loop i =>
    have hopen : wc = false := by simpa using h6
    by_cases hx : i ≥ c.nfiles ∨ cn = true
    · exact enabled_of_isSome .mainCloseIndices (by decide) (by simp [step, hx])
    · have hlt : i < c.nfiles := by omega
      have hcn : cn = false := by
        cases cn with
        | false => rfl
        | true => simp at hx
      by_cases hg : wk = .gone
      · have hwe : we ≠ none := by simpa using h15 hg
        cases we with
        | none => exact absurd rfl hwe
        | some v => exact enabled_of_isSome .mainSeesWorkerErr (by decide) (by simp [step, hlt, hcn])
      · by_cases hid : wk = .idle
        · subst hid
          exact enabled_of_isSome .mainDispatch (by decide) (by simp [step, hlt, hcn])
        · refine worker_side hc hv hcap hg ?_ (fun h => absurd h hid) hopen
          intro hu
          have := h3 hu
          simp at this
  | closed =>
    have hopen : wc = false := by simpa using h6
    have hfic : fic = true := by simpa using h5
    cases we with
    | some v => exact enabled_of_isSome .mainJoinWorker (by decide) (by simp [step])
    | none =>
      refine worker_side hc hv hcap ?_ ?_ (fun _ => Or.inl hfic) hopen
      · intro hg
        have := h15 hg
        simp at this
      · intro hu
        have := h3 hu
        simp at this
  | woundsClosed =>
    have hclosed : wc = true := by simpa using h6
    cases ce with
    | some v => exact enabled_of_isSome .mainJoinConsumer (by decide) (by simp [step])
    | none =>
      refine (consumer_side hv ?_ (Or.inr hclosed)).imp fun l h => h.imp fun s' h => ⟨h.1.good, h.2⟩
      intro hg
      have := g2 (Or.inr hg)
      simp at this
  | returned => exact absurd rfl hnr
  | failed => exact absurd rfl hnf

/-- a non-empty wound channel is always emptied by the consumer side as long as main has not closed it (this is
    what unblocks a wound send of main's pre-pass or of the worker) -/
theorem full_channel_unblocked {c : Cfg} {s : St} (hv : InvV c s) (hopen : s.woundsClosed = false)
    (hw : s.wounds ≠ []) : ∃ l s', CSide l ∧ step c s l = some s' := by
  refine consumer_side hv ?_ (Or.inl hw)
  intro hg
  have := (hv.cGone hg).1
  simp [hopen] at this

/-- once main has returned through the final `return retErr`, a stuck state has no goroutine left -/
theorem inv_returned {c : Cfg} {s : St} (hc : InvC c s) (hv : InvV c s) (hr : s.main = .returned)
    (hstuck : ∀ l s', l ≠ Lbl.ctxCancel → step c s l ≠ some s') :
    s.worker = .gone ∧ s.consumer = .gone := by
  refine ⟨(hc.joinedWorker (by simp [hr])).1, ?_⟩
  by_cases hg : s.consumer = .gone
  · exact hg
  · have hwc : s.woundsClosed = true := by rw [hc.wcIff, hr]; rfl
    obtain ⟨l, s', hl, hs⟩ := consumer_side hv hg (Or.inr hwc)
    exact absurd hs (hstuck l s' hl.good.1)

/-! ### running a concrete schedule -/

theorem reach_run {c : Cfg} {s₀ s s' : St} (h : Reach c s₀ s) (ls : List Lbl) (hr : run c s ls = some s') :
    Reach c s₀ s' := by
  induction ls generalizing s with
  | nil =>
    simp only [run, Option.some.injEq] at hr
    exact hr ▸ h
  | cons l ls ih =>
    simp only [run] at hr
    cases hl : step c s l with
    | none => simp [hl] at hr
    | some s1 =>
      rw [hl] at hr
      exact ih (.step h hl) hr

theorem exists_reach_of_run (c : Cfg) (s₀ : St) (ls : List Lbl) (p : St → Prop) [DecidablePred p]
    (h : (run c s₀ ls).any (fun s => decide (p s)) = true) : ∃ s, Reach c s₀ s ∧ p s := by
  cases hr : run c s₀ ls with
  | none => simp [hr] at h
  | some s =>
    rw [hr] at h
    exact ⟨s, reach_run .refl ls hr, by simpa using h⟩

/-! ### undisturbed runs, stuck states, the wound list -/

theorem quiet_step_flags {c : Cfg} {s s' : St} {l : Lbl} (hl : ¬ Disturbance l) (hs : step c s l = some s') :
    s'.ctxDone = s.ctxDone ∧ s'.ioFailed = s.ioFailed := by
  rcases s with ⟨m, wk, cs, wounds, wc, we, ce, fic, cn, ctx, re, ret, disp, fd, dr, sr, dres, iof, cf⟩
  cases l <;> simp only [step] at hs <;> (repeat' split at hs) <;> (try (cases hs; done)) <;> cases hs <;>
    first
    | exact ⟨rfl, rfl⟩
    | exact absurd (by simp [Disturbance]) hl

theorem reachQuiet_reach {c : Cfg} {s : St} (h : ReachQuiet c s) :
    Reach c init s ∧ s.ctxDone = false ∧ s.ioFailed = false := by
  induction h with
  | refl => exact ⟨.refl, rfl, rfl⟩
  | step _ hl hs ih =>
    obtain ⟨h1, h2⟩ := quiet_step_flags hl hs
    exact ⟨.step ih.1 hs, by rw [h1, ih.2.1], by rw [h2, ih.2.2]⟩

theorem mem_allLbls (l : Lbl) : l ∈ allLbls := by
  cases l <;> decide

theorem stuck_spec {c : Cfg} {s : St} (h : stuck c s = true) (l : Lbl) : step c s l = none := by
  have := List.all_eq_true.mp h l (mem_allLbls l)
  simpa using this

theorem stuckButCtx_spec {c : Cfg} {s : St} (h : stuckButCtx c s = true) (l : Lbl) (hl : l ≠ .ctxCancel) :
    step c s l = none := by
  have := List.all_eq_true.mp h l (mem_allLbls l)
  simpa [hl] using this

theorem hasReal_iff_woundList (c : Cfg) : HasReal c ↔ true ∈ woundList c := by
  simp only [HasReal, woundList, List.mem_append, List.mem_map, List.mem_filter, List.mem_range,
    List.mem_flatMap]
  constructor
  · rintro (⟨i, hi, hb⟩ | ⟨i, k, hi, hk, hb⟩)
    · exact Or.inl ⟨i, ⟨hi, hb⟩, trivial⟩
    · exact Or.inr ⟨i, hi, k, hk, hb⟩
  · rintro (⟨i, ⟨hi, hb⟩, _⟩ | ⟨i, hi, k, hk, hb⟩)
    · exact Or.inl ⟨i, hi, hb⟩
    · exact Or.inr ⟨i, k, hi, hk, hb⟩

end Wharf.ValidateVerdict
