/-
  Several localized edits: the potential function that turns the completeness of the scanner
  (Wharf/Proofs/RsyncComplete.lean, `computeDiff_fresh_le_potential`) into the bound
  `fresh ≤ introduced + (2k+2)·(bs-1)` for `k` edits (helper lemmas for Wharf/Props/C08Bound.lean).

  The new file is cut into pieces `X ++ S`: a stretch `X` of introduced bytes followed by a stretch `S`
  that is preserved from the old file, where it follows a stretch `Y` that was removed.
-/
import Wharf.Model.Rsync
import Wharf.Proofs.RsyncComplete

namespace Wharf.Rsync
open Wharf

/-! ### Cost of a position inside a preserved stretch -/

/-- Cost of old position `t` inside a preserved stretch that ends at old position `T`: up to the last block
    boundary `T / bs * bs` of the stretch the scanner only has to reach the next boundary, but it will
    later step through the rest of the stretch behind the last boundary. -/
def segCost (bs T t : Nat) : Nat :=
  if t ≤ T / bs * bs then gap bs t + (T - T / bs * bs) else T - t

theorem segCost_le {bs : Nat} (hbs : 0 < bs) (T t : Nat) : segCost bs T t + 2 ≤ 2 * bs := by
  unfold segCost
  have hK2 := Nat.lt_div_mul_add (a := T) hbs
  have g := gap_lt hbs t
  generalize T / bs * bs = K at *
  split <;> omega

theorem segCost_jump {bs : Nat} (T t : Nat) : segCost bs T (t + bs) ≤ segCost bs T t := by
  unfold segCost
  generalize T / bs * bs = K at *
  by_cases h1 : t ≤ K
  · rw [if_pos h1]
    by_cases h2 : t + bs ≤ K
    · rw [if_pos h2, gap_add_bs]; exact Nat.le_refl _
    · rw [if_neg h2]; omega
  · rw [if_neg h1, if_neg (by omega)]; omega

theorem segCost_step {bs : Nat} (hbs : 0 < bs) (T t : Nat) (hT : t < T)
    (hA : t % bs = 0 → t + bs ≤ T → False) : segCost bs T (t + 1) + 1 ≤ segCost bs T t := by
  unfold segCost
  have hK1 := Nat.div_mul_le_self T bs
  have hK3 := Nat.mul_mod_left (T / bs) bs
  generalize T / bs * bs = K at *
  by_cases h1 : t ≤ K
  · rw [if_pos h1]
    by_cases h5 : t % bs = 0
    · have hpK : t = K := by
        by_cases hlt : t < K
        · have := aligned_step h5 hK3 hlt
          exact (hA h5 (by omega)).elim
        · omega
      rw [gap_of_aligned h5, if_neg (by omega)]
      omega
    · have gs := gap_succ hbs h5
      have hlt : t < K := by
        by_cases he : t = K
        · rw [he] at h5; exact absurd hK3 h5
        · omega
      rw [if_pos (by omega)]
      omega
  · rw [if_neg h1, if_neg (by omega)]; omega

theorem segCost_pos {bs : Nat} (hbs : 0 < bs) (T t : Nat) (hT : t < T)
    (hA : t % bs = 0 → t + bs ≤ T → False) : 1 ≤ segCost bs T t := by
  have := segCost_step hbs T t hT hA
  omega

/-! ### Pieces and their potential -/

/-- Lengths of a piece: `n` introduced bytes, then `s` preserved bytes which in the old file come after
    `m` removed bytes. -/
structure Piece where
  n : Nat
  m : Nat
  s : Nat

/-- Upper bound of the potential on a list of pieces: the introduced bytes, two blocks (minus 2) for every
    piece but the last, one block (minus 1) for the last. -/
def maxPot (bs : Nat) : List Piece → Nat
  | [] => 0
  | [c] => c.n + (bs - 1)
  | c :: d :: rest => c.n + (2 * bs - 2) + maxPot bs (d :: rest)

/-- Potential of scan position `p` for pieces that start at source position `u` and old position `v`. -/
def pot (bs : Nat) : Nat → Nat → List Piece → Nat → Nat
  | _, _, [], _ => 0
  | u, v, [c], p =>
    if p < u + c.n then (u + c.n - p) + (bs - 1) else gap bs (v + c.m + (p - (u + c.n)))
  | u, v, c :: d :: rest, p =>
    if p < u + c.n then (u + c.n - p) + (2 * bs - 2) + maxPot bs (d :: rest)
    else if p < u + c.n + c.s then
      segCost bs (v + c.m + c.s) (v + c.m + (p - (u + c.n))) + maxPot bs (d :: rest)
    else pot bs (u + c.n + c.s) (v + c.m + c.s) (d :: rest) p

/-- Source position at which the pieces end. -/
def endPos : Nat → List Piece → Nat
  | u, [] => u
  | u, c :: rest => endPos (u + c.n + c.s) rest

theorem le_endPos : ∀ (cs : List Piece) (u : Nat), u ≤ endPos u cs
  | [], _ => Nat.le_refl _
  | c :: rest, u => by
    have := le_endPos rest (u + c.n + c.s)
    unfold endPos
    omega

theorem pot_le {bs : Nat} (hbs : 0 < bs) : ∀ (cs : List Piece) (u v p : Nat), u ≤ p →
    pot bs u v cs p ≤ maxPot bs cs
  | [], _, _, _, _ => Nat.le_refl _
  | [c], u, v, p, h => by
    unfold pot maxPot
    have g := gap_lt hbs (v + c.m + (p - (u + c.n)))
    split <;> omega
  | c :: d :: rest, u, v, p, h => by
    rw [pot, maxPot]
    have ih := pot_le hbs (d :: rest) (u + c.n + c.s) (v + c.m + c.s) p
    have g := segCost_le hbs (v + c.m + c.s) (v + c.m + (p - (u + c.n)))
    split
    · omega
    · split
      · omega
      · have := ih (by omega)
        omega

theorem pot_jump {bs : Nat} (hbs : 0 < bs) : ∀ (cs : List Piece) (u v p : Nat), u ≤ p →
    pot bs u v cs (p + bs) ≤ pot bs u v cs p
  | [], _, _, _, _ => Nat.le_refl _
  | [c], u, v, p, h => by
    unfold pot
    have g := gap_lt hbs (v + c.m + (p + bs - (u + c.n)))
    by_cases h1 : p < u + c.n
    · rw [if_pos h1]
      split <;> omega
    · rw [if_neg h1, if_neg (by omega)]
      have e : v + c.m + (p + bs - (u + c.n)) = v + c.m + (p - (u + c.n)) + bs := by omega
      rw [e, gap_add_bs]
      exact Nat.le_refl _
  | c :: d :: rest, u, v, p, h => by
    have ih := pot_jump hbs (d :: rest) (u + c.n + c.s) (v + c.m + c.s) p
    have hle := pot_le hbs (d :: rest) (u + c.n + c.s) (v + c.m + c.s) (p + bs)
    have g := segCost_le hbs (v + c.m + c.s) (v + c.m + (p + bs - (u + c.n)))
    unfold pot
    by_cases h1 : p < u + c.n
    · rw [if_pos h1]
      split
      · omega
      · split
        · omega
        · have := hle (by omega)
          omega
    · rw [if_neg h1, if_neg (by omega)]
      by_cases h2 : p < u + c.n + c.s
      · rw [if_pos h2]
        split
        · have e : v + c.m + (p + bs - (u + c.n)) = v + c.m + (p - (u + c.n)) + bs := by omega
          have := segCost_jump (bs := bs) (v + c.m + c.s) (v + c.m + (p - (u + c.n)))
          rw [e]
          omega
        · have := hle (by omega)
          omega
      · rw [if_neg h2, if_neg (by omega)]
        exact ih (by omega)

/-- The scanner finds a block at every position of a preserved stretch that is block-aligned in the old file
    and has a whole block of the stretch in front of it. -/
def HitsOK (bs : Nat) (H : Nat → Prop) : Nat → Nat → List Piece → Prop
  | _, _, [] => True
  | u, v, c :: rest =>
    (∀ p, u + c.n ≤ p → p < u + c.n + c.s → (v + c.m + (p - (u + c.n))) % bs = 0 →
      v + c.m + (p - (u + c.n)) + bs ≤ v + c.m + c.s → H p) ∧
    HitsOK bs H (u + c.n + c.s) (v + c.m + c.s) rest

theorem pot_step {bs : Nat} (hbs : 0 < bs) (H : Nat → Prop) : ∀ (cs : List Piece) (u v p : Nat),
    HitsOK bs H u v cs → u ≤ p → p + bs ≤ endPos u cs → ¬ H p →
    pot bs u v cs (p + 1) + 1 ≤ pot bs u v cs p
  | [], u, _, p, _, h, he, _ => by
    unfold endPos at he
    omega
  | [c], u, v, p, hh, h, he, hn => by
    unfold endPos endPos at he
    unfold pot
    have g := gap_lt hbs (v + c.m + (p + 1 - (u + c.n)))
    by_cases h1 : p < u + c.n
    · rw [if_pos h1]
      split <;> omega
    · rw [if_neg h1, if_neg (by omega)]
      have hne : (v + c.m + (p - (u + c.n))) % bs ≠ 0 :=
        fun h0 => hn (hh.1 p (by omega) (by omega) h0 (by omega))
      have := gap_succ hbs hne
      have e : v + c.m + (p + 1 - (u + c.n)) = v + c.m + (p - (u + c.n)) + 1 := by omega
      rw [e]
      omega
  | c :: d :: rest, u, v, p, hh, h, he, hn => by
    have ih := pot_step hbs H (d :: rest) (u + c.n + c.s) (v + c.m + c.s) p hh.2
    have hle := pot_le hbs (d :: rest) (u + c.n + c.s) (v + c.m + c.s) (p + 1)
    have g := segCost_le hbs (v + c.m + c.s) (v + c.m + (p + 1 - (u + c.n)))
    unfold endPos at he
    unfold pot
    by_cases h1 : p < u + c.n
    · rw [if_pos h1]
      split
      · omega
      · split
        · omega
        · have := hle (by omega)
          omega
    · rw [if_neg h1, if_neg (by omega)]
      by_cases h2 : p < u + c.n + c.s
      · rw [if_pos h2]
        have hA : (v + c.m + (p - (u + c.n))) % bs = 0 →
            v + c.m + (p - (u + c.n)) + bs ≤ v + c.m + c.s → False :=
          fun h0 h3 => hn (hh.1 p (by omega) h2 h0 h3)
        split
        · have e : v + c.m + (p + 1 - (u + c.n)) = v + c.m + (p - (u + c.n)) + 1 := by omega
          have := segCost_step hbs (v + c.m + c.s) (v + c.m + (p - (u + c.n))) (by omega) hA
          rw [e]
          omega
        · have := hle (by omega)
          have := segCost_pos hbs (v + c.m + c.s) (v + c.m + (p - (u + c.n))) (by omega) hA
          omega
      · rw [if_neg h2, if_neg (by omega)]
        exact ih (by omega) he hn

/-! ### Pieces of concrete contents -/

/-- Old position at which the pieces end. -/
def endOld : Nat → List Piece → Nat
  | v, [] => v
  | v, c :: rest => endOld (v + c.m + c.s) rest

theorem le_endOld : ∀ (cs : List Piece) (v : Nat), v ≤ endOld v cs
  | [], _ => Nat.le_refl _
  | c :: rest, v => by
    have := le_endOld rest (v + c.m + c.s)
    unfold endOld
    omega

/-- The preserved stretches of the source really are the corresponding stretches of the old file. -/
def PiecesAgree (src old : Content) : Nat → Nat → List Piece → Prop
  | _, _, [] => True
  | u, v, c :: rest =>
    (∀ j, j < c.s → old.get (v + c.m + j) = src.get (u + c.n + j)) ∧
    PiecesAgree src old (u + c.n + c.s) (v + c.m + c.s) rest

theorem hitsOK_of_agree {bs : Nat} {src old : Content} {olds : List Content} {f : Nat}
    (hf : olds[f]? = some old) (hnr : NoWeakRepeat bs src) :
    ∀ (cs : List Piece) (u v : Nat), PiecesAgree src old u v cs → endPos u cs ≤ src.size →
      endOld v cs ≤ old.size → HitsOK bs (Hit bs olds src) u v cs
  | [], _, _, _, _, _ => True.intro
  | c :: rest, u, v, ha, h1, h2 => by
    unfold endPos at h1
    unfold endOld at h2
    refine ⟨?_, hitsOK_of_agree hf hnr rest _ _ ha.2 h1 h2⟩
    intro p hp1 hp2 hal hfit
    have e1 := le_endPos rest (u + c.n + c.s)
    have e2 := le_endOld rest (v + c.m + c.s)
    refine ⟨skipOK_of_noWeakRepeat hnr p (by omega), ?_⟩
    have hk : (v + c.m + (p - (u + c.n))) / bs * bs = v + c.m + (p - (u + c.n)) :=
      Nat.div_mul_cancel (Nat.dvd_of_mod_eq_zero hal)
    refine ⟨f, old, (v + c.m + (p - (u + c.n))) / bs, hf, ?_, ?_⟩
    · rw [Nat.add_mul, Nat.one_mul, hk]
      omega
    · intro j hj
      rw [hk]
      have := ha.1 (p - (u + c.n) + j) (by omega)
      have e3 : v + c.m + (p - (u + c.n) + j) = v + c.m + (p - (u + c.n)) + j := by omega
      have e4 : u + c.n + (p - (u + c.n) + j) = p + j := by omega
      rw [e3, e4] at this
      exact this

/-- The bound for pieces, in terms of the potential at the start. -/
theorem computeDiff_pieces {P : Params} (hbs : 0 < P.bs) (hmx : 0 < P.maxDataOp)
    (olds : List Content) (f : Nat) (old src : Content) (pref : Option Nat) (cs : List Piece)
    (hf : olds[f]? = some old)
    (ha : PiecesAgree src old 0 0 cs) (h1 : endPos 0 cs = src.size) (h2 : endOld 0 cs ≤ old.size)
    (hnr : NoWeakRepeat P.bs src) :
    fresh (computeDiff P olds src pref) + 2 ≤ pot P.bs 0 0 cs 0 + 2 * P.bs := by
  have hh := hitsOK_of_agree hf hnr cs 0 0 ha (by omega) h2
  exact computeDiff_fresh_le_potential hbs hmx olds src pref (pot P.bs 0 0 cs)
    (fun p _ => pot_jump hbs cs 0 0 p (Nat.zero_le _))
    (fun p hp hnh => pot_step hbs _ cs 0 0 p hh (Nat.zero_le _) (by omega) hnh)

/-! ### The concrete scenario: a list of edits -/

/-- One edit and the stretch that follows it: `del` was replaced by `ins`; `keep` is the unchanged stretch
    up to the next edit (or the end of the file). -/
structure Edit where
  ins : List Byte
  del : List Byte
  keep : List Byte

def Edit.piece (e : Edit) : Piece := ⟨e.ins.length, e.del.length, e.keep.length⟩

/-- The new file after the first unchanged stretch. -/
def newTail : List Edit → List Byte
  | [] => []
  | e :: es => e.ins ++ e.keep ++ newTail es

/-- The old file after the first unchanged stretch. -/
def oldTail : List Edit → List Byte
  | [] => []
  | e :: es => e.del ++ e.keep ++ oldTail es

/-- Number of bytes the edits introduce. -/
def introduced : List Edit → Nat
  | [] => 0
  | e :: es => e.ins.length + introduced es

theorem endPos_pieces : ∀ (es : List Edit) (u : Nat),
    endPos u (es.map Edit.piece) = u + (newTail es).length
  | [], _ => rfl
  | e :: es, u => by
    show endPos (u + e.ins.length + e.keep.length) (es.map Edit.piece) = _
    rw [endPos_pieces es, newTail]
    simp only [List.length_append]
    omega

theorem endOld_pieces : ∀ (es : List Edit) (v : Nat),
    endOld v (es.map Edit.piece) = v + (oldTail es).length
  | [], _ => rfl
  | e :: es, v => by
    show endOld (v + e.del.length + e.keep.length) (es.map Edit.piece) = _
    rw [endOld_pieces es, oldTail]
    simp only [List.length_append]
    omega

theorem getD_mid (L K R : List Byte) (j : Nat) (h : j < K.length) :
    (L ++ (K ++ R)).getD (L.length + j) 0 = K.getD j 0 := by
  rw [List.getD_eq_getElem?_getD, List.getElem?_append_right (by omega), Nat.add_sub_cancel_left,
    List.getElem?_append_left h, ← List.getD_eq_getElem?_getD]

theorem pieces_agree : ∀ (es : List Edit) (pre pre' : List Byte),
    PiecesAgree (Content.ofList (pre ++ newTail es)) (Content.ofList (pre' ++ oldTail es))
      pre.length pre'.length (es.map Edit.piece)
  | [], _, _ => True.intro
  | e :: es, pre, pre' => by
    have ih := pieces_agree es (pre ++ e.ins ++ e.keep) (pre' ++ e.del ++ e.keep)
    have e1 : pre ++ newTail (e :: es) = (pre ++ e.ins) ++ (e.keep ++ newTail es) := by
      simp [newTail]
    have e2 : pre' ++ oldTail (e :: es) = (pre' ++ e.del) ++ (e.keep ++ oldTail es) := by
      simp [oldTail]
    have e3 : pre ++ e.ins ++ e.keep ++ newTail es = (pre ++ e.ins) ++ (e.keep ++ newTail es) := by
      simp
    have e4 : pre' ++ e.del ++ e.keep ++ oldTail es = (pre' ++ e.del) ++ (e.keep ++ oldTail es) := by
      simp
    have l1 : (pre ++ e.ins ++ e.keep).length = pre.length + e.ins.length + e.keep.length := by
      simp only [List.length_append]
    have l2 : (pre' ++ e.del ++ e.keep).length = pre'.length + e.del.length + e.keep.length := by
      simp only [List.length_append]
    rw [e3, e4, l1, l2] at ih
    rw [e1, e2]
    refine ⟨?_, ih⟩
    intro j hj
    have g1 := getD_mid (pre ++ e.ins) e.keep (newTail es) j hj
    have g2 := getD_mid (pre' ++ e.del) e.keep (oldTail es) j hj
    rw [List.length_append] at g1 g2
    show ((pre' ++ e.del) ++ (e.keep ++ oldTail es)).getD (pre'.length + e.del.length + j) 0 =
      ((pre ++ e.ins) ++ (e.keep ++ newTail es)).getD (pre.length + e.ins.length + j) 0
    rw [g1, g2]

theorem maxPot_sum (bs : Nat) : ∀ (es : List Edit), es ≠ [] →
    maxPot bs (es.map Edit.piece) + (bs - 1) = introduced es + es.length * (2 * (bs - 1))
  | [], h => absurd rfl h
  | [e], _ => by
    show e.ins.length + (bs - 1) + (bs - 1) = e.ins.length + 0 + (0 + 1) * (2 * (bs - 1))
    omega
  | e :: e' :: es, _ => by
    have ih := maxPot_sum bs (e' :: es) (by simp)
    show e.ins.length + (2 * bs - 2) + maxPot bs ((e' :: es).map Edit.piece) + (bs - 1) =
      e.ins.length + introduced (e' :: es) + ((e' :: es).length + 1) * (2 * (bs - 1))
    rw [Nat.add_mul, Nat.one_mul]
    omega

theorem segCost_zero {bs : Nat} (hbs : 0 < bs) (T : Nat) : segCost bs T 0 + 1 ≤ bs := by
  unfold segCost
  have hK2 := Nat.lt_div_mul_add (a := T) hbs
  have g0 : gap bs 0 = 0 := gap_of_aligned (Nat.zero_mod _)
  rw [if_pos (Nat.zero_le _), g0]
  omega

theorem pot_zero_single {bs : Nat} (c : Piece) (hn : c.n = 0) (hm : c.m = 0) :
    pot bs 0 0 [c] 0 = 0 := by
  rw [pot, if_neg (by omega)]
  have e : 0 + c.m + (0 - (0 + c.n)) = 0 := by omega
  rw [e]
  exact gap_of_aligned (Nat.zero_mod _)

theorem pot_zero_cons {bs : Nat} (hbs : 0 < bs) (c d : Piece) (rest : List Piece) (hn : c.n = 0)
    (hm : c.m = 0) : pot bs 0 0 (c :: d :: rest) 0 + 1 ≤ bs + maxPot bs (d :: rest) := by
  rw [pot, if_neg (by omega)]
  split
  · have e : 0 + c.m + (0 - (0 + c.n)) = 0 := by omega
    have := segCost_zero hbs (0 + c.m + c.s)
    rw [e]
    omega
  · have := pot_le hbs (d :: rest) (0 + c.n + c.s) (0 + c.m + c.s) 0 (by omega)
    omega

/-- `k` localized edits: the new file `S0 ++ X1 ++ S1 ++ … ++ Xk ++ Sk` against old files among which is
    `S0 ++ Y1 ++ S1 ++ … ++ Yk ++ Sk` costs at most `Σ|Xi| + (2k+2)·(bs-1)` fresh bytes. -/
theorem computeDiff_edits {P : Params} (hbs : 0 < P.bs) (hmx : 0 < P.maxDataOp)
    (olds : List Content) (f : Nat) (S0 : List Byte) (es : List Edit) (pref : Option Nat)
    (hf : olds[f]? = some (Content.ofList (S0 ++ oldTail es)))
    (hnr : NoWeakRepeat P.bs (Content.ofList (S0 ++ newTail es))) :
    fresh (computeDiff P olds (Content.ofList (S0 ++ newTail es)) pref) ≤
      introduced es + (2 * es.length + 2) * (P.bs - 1) := by
  have ha := pieces_agree (⟨[], [], S0⟩ :: es) [] []
  have e1 : [] ++ newTail (⟨[], [], S0⟩ :: es) = S0 ++ newTail es := by simp [newTail]
  have e2 : [] ++ oldTail (⟨[], [], S0⟩ :: es) = S0 ++ oldTail es := by simp [oldTail]
  rw [e1, e2] at ha
  have h1 := endPos_pieces (⟨[], [], S0⟩ :: es) 0
  have h2 := endOld_pieces (⟨[], [], S0⟩ :: es) 0
  rw [Nat.zero_add] at h1 h2
  have e1' : newTail (⟨[], [], S0⟩ :: es) = S0 ++ newTail es := by simp [newTail]
  have e2' : oldTail (⟨[], [], S0⟩ :: es) = S0 ++ oldTail es := by simp [oldTail]
  rw [e1'] at h1
  rw [e2'] at h2
  have hb := computeDiff_pieces hbs hmx olds f (Content.ofList (S0 ++ oldTail es))
    (Content.ofList (S0 ++ newTail es)) pref _ hf ha h1 (Nat.le_of_eq h2) hnr
  have hw : (2 * es.length + 2) * (P.bs - 1) = es.length * (2 * (P.bs - 1)) + 2 * (P.bs - 1) := by
    rw [Nat.add_mul, Nat.mul_comm 2 es.length, Nat.mul_assoc]
  rw [hw]
  cases es with
  | nil =>
    have hp := pot_zero_single (bs := P.bs) (Edit.piece ⟨[], [], S0⟩) rfl rfl
    simp only [List.map_cons, List.map_nil] at hb
    rw [hp] at hb
    simp only [introduced, List.length_nil, Nat.zero_mul, Nat.zero_add]
    omega
  | cons e es' =>
    have hs := maxPot_sum P.bs (e :: es') (by simp)
    have hp := pot_zero_cons hbs (Edit.piece ⟨[], [], S0⟩) (Edit.piece e) (es'.map Edit.piece) rfl rfl
    simp only [List.map_cons] at hb hs
    omega

end Wharf.Rsync
