/-
  Helper lemmas for C13 (wire framing + checkpoint protocol).  Core Lean only.
-/
import Wharf.Model.Wire

namespace Wharf.Wire
open Wharf

/-! ### uvarint -/

theorem toNat_ofNat_lt (n : Nat) (h : n < 256) : (UInt8.ofNat n).toNat = n := by
  simp only [UInt8.toNat_ofNat']
  omega

/-- Generalised round trip: decoding at byte index `i` with `10 - i` bytes of fuel. -/
theorem uvarintDec_enc (fuel : Nat) : ∀ (i acc n : Nat) (rest : List Byte),
    fuel + i = 10 → 0 < fuel → n < 2 ^ (64 - 7 * i) →
    uvarintDec fuel i acc (uvarintEnc fuel n ++ rest) = some (acc + n * 2 ^ (7 * i), rest) := by
  induction fuel with
  | zero => intro i acc n rest _ h; omega
  | succ f ih =>
    intro i acc n rest hfi _ hn
    by_cases hlt : n < 128
    · have hb : (UInt8.ofNat n).toNat = n := toNat_ofNat_lt n (by omega)
      simp only [uvarintEnc, hlt, if_true, List.cons_append, List.nil_append, uvarintDec, hb]
      have : ¬ (i = 9 ∧ n > 1) := by
        intro ⟨h9, h1⟩
        subst h9
        have : (2 : Nat) ^ (64 - 7 * 9) = 2 := by decide
        omega
      simp only [this, if_false]
    · have hb : (UInt8.ofNat (n % 128 + 128)).toNat = n % 128 + 128 :=
        toNat_ofNat_lt _ (by omega)
      have hi : i ≤ 8 := by
        apply Nat.le_of_not_lt
        intro h9
        have hi9 : i = 9 := by omega
        subst hi9
        have : (2 : Nat) ^ (64 - 7 * 9) = 2 := by decide
        omega
      have hnb : ¬ (n % 128 + 128 < 128) := by omega
      simp only [uvarintEnc, hlt, if_false, List.cons_append, uvarintDec, hb, hnb]
      have hpow : (2 : Nat) ^ (64 - 7 * i) = 128 * 2 ^ (64 - 7 * (i + 1)) := by
        have : 64 - 7 * i = (64 - 7 * (i + 1)) + 7 := by omega
        rw [this, Nat.pow_add]
        have : (2 : Nat) ^ 7 = 128 := by decide
        omega
      have hdiv : n / 128 < 2 ^ (64 - 7 * (i + 1)) := by
        apply Nat.div_lt_of_lt_mul
        rw [← hpow]; exact hn
      rw [ih (i + 1) _ (n / 128) rest (by omega) (by omega) hdiv]
      have hP : (2 : Nat) ^ (7 * (i + 1)) = 128 * 2 ^ (7 * i) := by
        have : 7 * (i + 1) = 7 * i + 7 := by omega
        rw [this, Nat.pow_add]
        have : (2 : Nat) ^ 7 = 128 := by decide
        omega
      rw [hP]
      have hsub : n % 128 + 128 - 128 = n % 128 := by omega
      rw [hsub]
      have hdm : n = 128 * (n / 128) + n % 128 := (Nat.div_add_mod n 128).symm
      generalize (2 : Nat) ^ (7 * i) = P
      generalize n / 128 = q at hdm ⊢
      generalize n % 128 = m at hdm ⊢
      have key : acc + m * P + q * (128 * P) = acc + n * P := by
        rw [hdm, Nat.add_mul, Nat.mul_assoc, Nat.mul_left_comm q 128 P]
        omega
      rw [key]

theorem readUvarint_uvarint (n : Nat) (hn : n < 2 ^ 64) (rest : List Byte) :
    readUvarint (uvarint n ++ rest) = some (n, rest) := by
  have := uvarintDec_enc 10 0 0 n rest (by omega) (by omega) (by simpa using hn)
  simpa [readUvarint, uvarint] using this

theorem uvarintEnc_ne_nil (fuel n : Nat) : uvarintEnc (fuel + 1) n ≠ [] := by
  simp only [uvarintEnc]
  split <;> simp

theorem uvarint_ne_nil (n : Nat) : uvarint n ≠ [] := uvarintEnc_ne_nil 9 n

theorem uvarint_length_pos (n : Nat) : 0 < (uvarint n).length :=
  List.length_pos_iff.mpr (uvarint_ne_nil n)

/-- Any strict prefix of an encoding consists only of continuation bytes: decoding runs out of input. -/
theorem uvarintDec_take_enc (fuel : Nat) : ∀ (n k fuel' i acc : Nat),
    k < (uvarintEnc fuel n).length →
    uvarintDec fuel' i acc ((uvarintEnc fuel n).take k) = none := by
  induction fuel with
  | zero => intro n k fuel' i acc hk; simp [uvarintEnc] at hk
  | succ f ih =>
    intro n k fuel' i acc hk
    cases k with
    | zero =>
      cases fuel' <;> simp [uvarintDec]
    | succ k' =>
      by_cases hlt : n < 128
      · simp [uvarintEnc, hlt] at hk
      · simp only [uvarintEnc, hlt, if_false, List.length_cons] at hk
        have hb : (UInt8.ofNat (n % 128 + 128)).toNat = n % 128 + 128 :=
          toNat_ofNat_lt _ (by omega)
        have hnb : ¬ (n % 128 + 128 < 128) := by omega
        simp only [uvarintEnc, hlt, if_false, List.take_succ_cons]
        cases fuel' with
        | zero => simp [uvarintDec]
        | succ f' =>
          simp only [uvarintDec, hb, hnb, if_false]
          exact ih _ _ _ _ _ (by omega)

theorem readUvarint_take_uvarint (n k : Nat) (hk : k < (uvarint n).length) :
    readUvarint ((uvarint n).take k) = none :=
  uvarintDec_take_enc 10 n k 10 0 0 hk

/-! ### frames -/

theorem frames_nil : frames [] = [] := rfl

theorem frames_cons (b : List Byte) (bs : List (List Byte)) :
    frames (b :: bs) = uvarint b.length ++ (b ++ frames bs) := by
  simp [frames, frame]

theorem frames_append (xs ys : List (List Byte)) :
    frames (xs ++ ys) = frames xs ++ frames ys := by
  simp [frames]

/-- Lift a parse result of the tail through a list of already parsed bodies. -/
def liftParse (pre : List (List Byte)) : Outcome (List (List Byte)) → Outcome (List (List Byte))
  | .ok bs => .ok (pre ++ bs)
  | .err e => .err e
  | .panic p => .panic p

/-- One complete frame in front of any stream is read back and parsing continues after it. -/
theorem parseFrames_frame_append (f : Nat) (b : List Byte) (hb : b.length < 2 ^ 64) (t : List Byte) :
    parseFrames (f + 1) (uvarint b.length ++ (b ++ t)) = liftParse [b] (parseFrames f t) := by
  have hne : uvarint b.length ++ (b ++ t) ≠ [] := by
    intro h
    exact uvarint_ne_nil _ (List.append_eq_nil_iff.mp h).1
  rw [parseFrames]
  simp only [hne, if_false, readUvarint_uvarint _ hb]
  have hnl : ¬ ((b ++ t).length < b.length) := by
    simp only [List.length_append]; omega
  simp only [hnl, if_false, List.drop_left, List.take_left]
  cases parseFrames f t <;> simp [liftParse]

/-- The complete frames in front of any stream `s` are read back, then parsing continues on `s`. -/
theorem parseFrames_frames_append (bodies : List (List Byte)) :
    (∀ b ∈ bodies, b.length < 2 ^ 64) → ∀ (f : Nat) (s : List Byte),
    parseFrames (bodies.length + f) (frames bodies ++ s) = liftParse bodies (parseFrames f s) := by
  induction bodies with
  | nil =>
    intro _ f s
    simp only [frames_nil, List.length_nil, Nat.zero_add, List.nil_append]
    cases parseFrames f s <;> simp [liftParse]
  | cons b bs ih =>
    intro hlen f s
    have hb : b.length < 2 ^ 64 := hlen b (by simp)
    have hbs : ∀ x ∈ bs, x.length < 2 ^ 64 := fun x hx => hlen x (by simp [hx])
    have hfuel : (b :: bs).length + f = (bs.length + f) + 1 := by
      simp only [List.length_cons]; omega
    rw [hfuel, frames_cons, List.append_assoc, List.append_assoc,
      parseFrames_frame_append _ b hb, ih hbs f s]
    cases parseFrames f s <;> simp [liftParse]

theorem parseFrames_nil (f : Nat) : parseFrames (f + 1) [] = .ok [] := by
  simp [parseFrames]

/-- A stream consisting of a strict, non-empty prefix of one frame is an error. -/
theorem parseFrames_take_frame (f : Nat) (body : List Byte) (hb : body.length < 2 ^ 64) (k : Nat)
    (hk0 : 0 < k) (hk : k < (frame body).length) :
    ∃ e, parseFrames (f + 1) ((frame body).take k) = .err e := by
  have hpos := uvarint_length_pos body.length
  have hne : (frame body).take k ≠ [] := by
    intro h
    have := congrArg List.length h
    simp only [List.length_take, List.length_nil] at this
    omega
  rw [parseFrames]
  simp only [hne, if_false]
  by_cases hkp : k < (uvarint body.length).length
  · have : (frame body).take k = (uvarint body.length).take k := by
      simp only [frame]
      rw [List.take_append_of_le_length (by omega)]
    rw [this, readUvarint_take_uvarint _ _ hkp]
    exact ⟨_, rfl⟩
  · have hle : (uvarint body.length).length ≤ k := by omega
    have : (frame body).take k
        = uvarint body.length ++ body.take (k - (uvarint body.length).length) := by
      simp only [frame]
      rw [List.take_append]
      rw [List.take_of_length_le hle]
    rw [this, readUvarint_uvarint _ hb]
    simp only [frame, List.length_append] at hk
    have hlt : (body.take (k - (uvarint body.length).length)).length < body.length := by
      simp only [List.length_take]; omega
    simp only [hlt, if_true]
    exact ⟨_, rfl⟩

/-! ### checkpoint protocol -/

theorem run_cons (r : Reader) (e : Ev) (es : List Ev) :
    run r (e :: es) = ((run (step r e).1 es).1, (step r e).2.toList ++ (run (step r e).1 es).2) := by
  rfl

/-- One step: a pop is paid for either by the outstanding request or by a later `asked` increment. -/
theorem step_pops (r : Reader) (e : Ev) :
    (step r e).2.toList.length + r.asked + (if (step r e).1.st = .idle then 0 else 1)
      ≤ (step r e).1.asked + (if r.st = .idle then 0 else 1) := by
  obtain ⟨off, st, asked⟩ := r
  cases e with
  | wantSave => cases st <;> simp [step]
  | read n ck => cases ck <;> cases st <;> simp [step]
  | pop => cases st <;> simp [step] <;> omega

end Wharf.Wire
