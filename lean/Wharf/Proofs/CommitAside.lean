/-
  Helper lemmas for Props/C02Kinds.lean: `moveSourcesAside` (repair of finding F8 (3)).

  A transposition source whose own path is a directory of the new build steps aside before the directories are
  made; `applyTranspositions` reads it from its aside path.  The proof does not redo the later phases: after
  `moveSourcesAside` the tree holds exactly the VIRTUAL old build `vb old aside` — the old build with the files
  that stepped aside renamed to their aside names — and the rest of `commit old new w` is, phase by phase, the
  commit of `vb old aside` to `new` with the same work record:
  * `vb old aside` is well formed (an aside name is not a path of either build: the postcondition of the skip loop
    `nextFreeAside_spec`; aside names are pairwise distinct: `asideName_inj` and the numbering is increasing);
  * no transposition source of `vb old aside` is a directory of the new build (`BKC.sources` holds for it: the
    sources that were are exactly the ones that stepped aside), so Wharf/Proofs/CommitKinds.lean applies;
  * `applyTranspositions old new w o₁ o₂ t aside` is `applyTranspositions (vb old aside) new w` on the mapped
    orders: the transpositions are the same, and the temporary names of the first pass are the same although the
    paths in use differ — a `.butler-rename-N` name is never a `.butler-aside-M` name (`asideName_ne_seedName`),
    and a path that stepped aside is still in use as a directory of the new build;
  * the aside files are consumed: each has a non-empty group without no-op and without overlay, whose last step
    is a rename (`Transposed'.consumed`), so `deleteGhosts old new` — which knows nothing of aside names — finds
    the tree `PreGhost`.
-/
import Wharf.Proofs.CommitKinds

namespace Wharf.Commit
open Wharf Wharf.FS Wharf.Archive

/-! ### aside names -/

theorem asideTempName_inj {l l' : String} {k k' : Nat}
    (h : l ++ ".butler-aside-" ++ toString k = l' ++ ".butler-aside-" ++ toString k') :
    l = l' ∧ k = k' := by
  have h' := congrArg String.toList h
  simp only [String.toList_append, Nat.toString_eq_repr, Nat.toList_repr] at h'
  have hs : (".butler-aside-" : String).toList = ".butler-aside".toList ++ ['-'] := by decide
  rw [hs] at h'
  simp only [List.append_assoc, List.singleton_append] at h'
  rw [← List.append_assoc, ← List.append_assoc l'.toList] at h'
  obtain ⟨h1, h2⟩ := sep_unique (dash_not_digit k) (dash_not_digit k') h'
  refine ⟨String.toList_injective (List.append_cancel_right h1), ?_⟩
  have := congrArg (fun d => Nat.ofDigitChars 10 d 0) h2
  simpa using this

/-- a `.butler-aside-N` name is never a `.butler-rename-M` name -/
theorem aside_ne_rename {l l' : String} {k k' : Nat} :
    l ++ ".butler-aside-" ++ toString k ≠ l' ++ ".butler-rename-" ++ toString k' := by
  intro h
  have h' := congrArg String.toList h
  simp only [String.toList_append, Nat.toString_eq_repr, Nat.toList_repr] at h'
  have hs : (".butler-aside-" : String).toList = ".butler-aside".toList ++ ['-'] := by decide
  have hs' : (".butler-rename-" : String).toList = ".butler-rename".toList ++ ['-'] := by decide
  rw [hs, hs'] at h'
  simp only [List.append_assoc, List.singleton_append] at h'
  rw [← List.append_assoc, ← List.append_assoc l'.toList] at h'
  obtain ⟨h1, _⟩ := sep_unique (dash_not_digit k) (dash_not_digit k') h'
  have h2 := congrArg List.reverse h1
  simp only [List.reverse_append] at h2
  have e1 : (".butler-aside" : String).toList.reverse = 'e' :: 'd' :: "isa-reltub.".toList := by decide
  have e2 : (".butler-rename" : String).toList.reverse = 'e' :: 'm' :: "aner-reltub.".toList := by decide
  rw [e1, e2] at h2
  simp only [List.cons_append, List.cons.injEq, true_and] at h2
  exact absurd h2.1 (by decide)

theorem asideName_of_ne {p : Path} (hp : p ≠ []) (k : Nat) :
    asideName p k = p.dropLast ++ [p.getLast hp ++ ".butler-aside-" ++ toString k] := by
  simp only [asideName, List.getLast?_eq_some_getLast hp]

theorem asideName_inj {p p' : Path} {k k' : Nat} (hp : p ≠ []) (hp' : p' ≠ [])
    (h : asideName p k = asideName p' k') : p = p' ∧ k = k' := by
  rw [asideName_of_ne hp, asideName_of_ne hp'] at h
  have h1 := List.append_inj' h (by simp)
  simp only [List.cons.injEq, and_true] at h1
  obtain ⟨hl, hk⟩ := asideTempName_inj h1.2
  refine ⟨?_, hk⟩
  rw [← List.dropLast_concat_getLast hp, ← List.dropLast_concat_getLast hp', h1.1, hl]

theorem asideName_dropLast {p : Path} (hp : p ≠ []) (k : Nat) : (asideName p k).dropLast = p.dropLast := by
  rw [asideName_of_ne hp]; simp

theorem asideName_ne_nil {p : Path} (hp : p ≠ []) (k : Nat) : asideName p k ≠ [] := by
  rw [asideName_of_ne hp]; simp

theorem asideName_length {p : Path} (hp : p ≠ []) (k : Nat) : (asideName p k).length = p.length := by
  rw [asideName_of_ne hp]
  have : 0 < p.length := List.length_pos_iff.mpr hp
  simp only [List.length_append, List.length_dropLast, List.length_cons, List.length_nil]
  omega

theorem asideName_ne_seedName {p : Path} (hp : p ≠ []) (k : Nat) (o : Path) (j : Nat) :
    asideName p k ≠ seedName o j := by
  intro h
  by_cases ho : o = []
  · subst ho
    exact asideName_ne_nil hp k (by rw [h]; rfl)
  · rw [asideName_of_ne hp, seedName_of_ne ho] at h
    have h1 := List.append_inj' h (by simp)
    simp only [List.cons.injEq, and_true] at h1
    exact aside_ne_rename h1.2

/-- the components of an aside name are clean if those of the path are -/
theorem asideName_clean {p : Path} (hp : p ≠ []) (k : Nat)
    (hc : ∀ c ∈ p, c ≠ ".." ∧ c ≠ "." ∧ c ≠ "") : ∀ c ∈ asideName p k, c ≠ ".." ∧ c ≠ "." ∧ c ≠ "" := by
  intro c hcm
  rw [asideName_of_ne hp] at hcm
  simp only [List.mem_append, List.mem_cons, List.not_mem_nil, or_false] at hcm
  rcases hcm with h | h
  · exact hc c (mem_of_mem_dropLast h)
  · have hlen : 14 ≤ c.length := by
      rw [h, String.length_append, String.length_append]
      have : (".butler-aside-" : String).length = 14 := by decide
      omega
    refine ⟨?_, ?_, ?_⟩ <;> intro h0 <;> rw [h0] at hlen <;> revert hlen <;> decide

/-! ### the skip loop (`nextFreeAside`) -/

theorem nextFreeAside_run (used : List Path) (p : Path) : ∀ (fuel seed : Nat),
    seed ≤ nextFreeAside used p fuel seed ∧
    (∀ k, seed ≤ k → k < nextFreeAside used p fuel seed → asideName p k ∈ used) ∧
    (asideName p (nextFreeAside used p fuel seed) ∉ used ∨ nextFreeAside used p fuel seed = seed + fuel) := by
  intro fuel
  induction fuel with
  | zero =>
    intro seed
    refine ⟨Nat.le_refl _, ?_, Or.inr rfl⟩
    intro k h1 h2
    simp only [nextFreeAside] at h2
    omega
  | succ fuel ih =>
    intro seed
    by_cases h : used.contains (asideName p seed) = true
    · obtain ⟨a1, a2, a3⟩ := ih (seed + 1)
      simp only [nextFreeAside, if_pos h]
      refine ⟨by omega, ?_, ?_⟩
      · intro k h1 h2
        by_cases hk : k = seed
        · subst hk; simpa using h
        · exact a2 k (by omega) h2
      · rcases a3 with a3 | a3
        · exact Or.inl a3
        · exact Or.inr (by omega)
    · simp only [nextFreeAside, if_neg h]
      refine ⟨Nat.le_refl _, ?_, Or.inl (by simpa using h)⟩
      intro k h1 h2
      omega

/-- the skip loop of `moveSourcesAside` with the fuel it is called with: the least number `≥ seed` whose aside name
    for `p` is not in use (what the unbounded Go loop computes); in particular that name is not in use -/
theorem nextFreeAside_spec (used : List Path) {p : Path} (hp : p ≠ []) (seed : Nat) :
    seed ≤ nextFreeAside used p (used.length + 1) seed ∧
    asideName p (nextFreeAside used p (used.length + 1) seed) ∉ used ∧
    ∀ k, seed ≤ k → k < nextFreeAside used p (used.length + 1) seed → asideName p k ∈ used := by
  obtain ⟨a1, a2, a3⟩ := nextFreeAside_run used p (used.length + 1) seed
  refine ⟨a1, ?_, a2⟩
  rcases a3 with a3 | a3
  · exact a3
  · exfalso
    have hnd : ((List.range' seed (used.length + 1)).map (asideName p)).Nodup := by
      rw [List.Nodup, List.pairwise_map]
      exact (List.nodup_range' (step := 1) (by omega)).imp (fun hab h => hab (asideName_inj hp hp h).2)
    have := nodup_subset_length_le _ used hnd (by
      intro a ha
      obtain ⟨k, hk, rfl⟩ := List.mem_map.mp ha
      simp only [List.mem_range'_1] at hk
      exact a2 k hk.1 (by omega))
    simp only [List.length_map, List.length_range'] at this
    omega

/-! ### the aside map and the virtual old build -/

/-- what `moveSourcesAside` guarantees about the map it returns -/
structure AsideOK (old new : Build) (w : Work) (aside : List (Path × Path)) : Prop where
  keys_nodup : (aside.map (·.1)).Nodup
  vals_nodup : (aside.map (·.2)).Nodup
  key_new : ∀ e ∈ aside, e.1 ∈ new.dirs
  /-- a key is the source of a recorded transposition -/
  key_src : ∀ e ∈ aside, ∃ st ∈ w.transpositions, ∃ d, old.files[st.2]? = some (e.1, d)
  /-- a value is an aside name of its key and is not a path of either build -/
  val : ∀ e ∈ aside, (∃ k, e.2 = asideName e.1 k) ∧ e.2 ∉ pathsOf old ++ pathsOf new

theorem AsideOK.key_old {old new : Build} {w : Work} {aside : List (Path × Path)} (h : AsideOK old new w aside)
    {e : Path × Path} (he : e ∈ aside) : e.1 ∈ old.files.map (·.1) := by
  obtain ⟨st, _, d, hf⟩ := h.key_src e he
  exact List.mem_map.mpr ⟨_, List.mem_of_getElem? hf, rfl⟩

theorem asideOf_of_mem {aside : List (Path × Path)} (hnd : (aside.map (·.1)).Nodup) {p a : Path}
    (h : (p, a) ∈ aside) : asideOf aside p = a := by
  simp only [asideOf, find?_key_of_nodup hnd h]

theorem asideOf_of_not_mem {aside : List (Path × Path)} {p : Path} (h : p ∉ aside.map (·.1)) :
    asideOf aside p = p := by
  have : aside.find? (fun e => e.1 == p) = none := by
    apply List.find?_eq_none.mpr
    intro e he hep
    exact h (List.mem_map.mpr ⟨e, he, by simpa using hep⟩)
  simp only [asideOf, this]

/-- `asideOf` of a path: itself if it is not a key, else the value of its entry -/
theorem asideOf_cases {aside : List (Path × Path)} (hnd : (aside.map (·.1)).Nodup) (p : Path) :
    (p ∉ aside.map (·.1) ∧ asideOf aside p = p) ∨ (∃ e ∈ aside, e.1 = p ∧ asideOf aside p = e.2) := by
  by_cases h : p ∈ aside.map (·.1)
  · obtain ⟨e, he, rfl⟩ := List.mem_map.mp h
    exact Or.inr ⟨e, he, rfl, asideOf_of_mem hnd (a := e.2) he⟩
  · exact Or.inl ⟨h, asideOf_of_not_mem h⟩

/-- the virtual old build: the files that stepped aside are at their aside paths -/
def vb (old : Build) (aside : List (Path × Path)) : Build :=
  { old with files := old.files.map fun e => (asideOf aside e.1, e.2) }

theorem vb_files_getElem? (old : Build) (aside : List (Path × Path)) (i : Nat) :
    (vb old aside).files[i]? = (old.files[i]?).map fun e => (asideOf aside e.1, e.2) := by
  simp only [vb, List.getElem?_map]

theorem mem_vb_files {old : Build} {aside : List (Path × Path)} {q : Path} {d : List Byte} :
    (q, d) ∈ (vb old aside).files ↔ ∃ p, (p, d) ∈ old.files ∧ asideOf aside p = q := by
  simp only [vb, List.mem_map, Prod.mk.injEq]
  constructor
  · rintro ⟨e, he, h1, h2⟩
    exact ⟨e.1, by rw [← h2]; exact he, h1⟩
  · rintro ⟨p, hp, h⟩
    exact ⟨(p, d), hp, h, rfl⟩

theorem mem_vb_filePaths {old : Build} {aside : List (Path × Path)} {q : Path} :
    q ∈ (vb old aside).files.map (·.1) ↔ ∃ p ∈ old.files.map (·.1), asideOf aside p = q := by
  simp only [vb, List.map_map, List.mem_map, Function.comp]
  constructor
  · rintro ⟨e, he, h⟩
    exact ⟨e.1, ⟨e, he, rfl⟩, h⟩
  · rintro ⟨p, ⟨e, he, rfl⟩, h⟩
    exact ⟨e, he, h⟩

section
variable {old new : Build} {w : Work} {aside : List (Path × Path)}

/-- an aside value is not a path of the old build, a key is a directory of the new one: on the file paths of the
    old build `asideOf` is injective -/
theorem AsideOK.asideOf_inj (h : AsideOK old new w aside) {p p' : Path}
    (hp : p ∈ old.files.map (·.1)) (hp' : p' ∈ old.files.map (·.1))
    (heq : asideOf aside p = asideOf aside p') : p = p' := by
  have hold : ∀ q ∈ old.files.map (·.1), q ∈ pathsOf old ++ pathsOf new := fun q hq =>
    List.mem_append.mpr (Or.inl (mem_pathsOf.mpr (Or.inr (Or.inr hq))))
  rcases asideOf_cases h.keys_nodup p with ⟨_, e1⟩ | ⟨e, he, rfl, e1⟩ <;>
    rcases asideOf_cases h.keys_nodup p' with ⟨_, e2⟩ | ⟨e', he', rfl, e2⟩
  · rw [e1, e2] at heq; exact heq
  · rw [e1, e2] at heq
    exact absurd (heq ▸ hold _ hp) (h.val e' he').2
  · rw [e1, e2] at heq
    exact absurd (heq ▸ hold _ hp') (h.val e he).2
  · rw [e1, e2] at heq
    rw [inj_of_nodup_map (·.2) h.vals_nodup he he' heq]

/-- a path of the virtual build is a path of the old build that did not step aside, or an aside value -/
theorem AsideOK.mem_pathsOf_vb (ho : BWF old) (h : AsideOK old new w aside) {q : Path} :
    q ∈ pathsOf (vb old aside) ↔
      (q ∈ pathsOf old ∧ q ∉ aside.map (·.1)) ∨ q ∈ aside.map (·.2) := by
  have hkey_file : ∀ {q}, q ∈ aside.map (·.1) → q ∈ old.files.map (·.1) := by
    intro q hk
    obtain ⟨e, he, rfl⟩ := List.mem_map.mp hk
    exact h.key_old he
  constructor
  · intro hq
    rcases mem_pathsOf.mp hq with hd | hs | hf
    · exact Or.inl ⟨mem_pathsOf.mpr (Or.inl hd), fun hk => ho.dir_not_file hd (hkey_file hk)⟩
    · exact Or.inl ⟨mem_pathsOf.mpr (Or.inr (Or.inl hs)), fun hk => ho.symlink_not_file hs (hkey_file hk)⟩
    · obtain ⟨p, hp, hpq⟩ := mem_vb_filePaths.mp hf
      rcases asideOf_cases h.keys_nodup p with ⟨h1, e1⟩ | ⟨e, he, rfl, e1⟩
      · rw [e1] at hpq; subst hpq
        exact Or.inl ⟨mem_pathsOf.mpr (Or.inr (Or.inr hp)), h1⟩
      · rw [e1] at hpq; subst hpq
        exact Or.inr (List.mem_map.mpr ⟨e, he, rfl⟩)
  · rintro (⟨hq, hk⟩ | hv)
    · rcases mem_pathsOf.mp hq with hd | hs | hf
      · exact mem_pathsOf.mpr (Or.inl hd)
      · exact mem_pathsOf.mpr (Or.inr (Or.inl hs))
      · exact mem_pathsOf.mpr (Or.inr (Or.inr (mem_vb_filePaths.mpr ⟨q, hf, asideOf_of_not_mem hk⟩)))
    · obtain ⟨e, he, rfl⟩ := List.mem_map.mp hv
      exact mem_pathsOf.mpr (Or.inr (Or.inr (mem_vb_filePaths.mpr
        ⟨e.1, h.key_old he, asideOf_of_mem h.keys_nodup (a := e.2) he⟩)))

/-- the virtual old build is well formed -/
theorem AsideOK.bwf_vb (ho : BWF old) (h : AsideOK old new w aside) : BWF (vb old aside) := by
  have hval : ∀ q ∈ aside.map (·.2), ∃ p k, p ∈ old.files.map (·.1) ∧ q = asideName p k := by
    intro q hq
    obtain ⟨e, he, rfl⟩ := List.mem_map.mp hq
    obtain ⟨⟨k, hk⟩, _⟩ := h.val e he
    exact ⟨e.1, k, h.key_old he, hk⟩
  have hfp : ∀ {p}, p ∈ old.files.map (·.1) → p ∈ pathsOf old := fun hp => mem_pathsOf.mpr (Or.inr (Or.inr hp))
  refine ⟨?_, ?_, ?_⟩
  · intro q hq
    rcases (h.mem_pathsOf_vb ho).mp hq with ⟨hq, _⟩ | hv
    · exact ho.clean q hq
    · obtain ⟨p, k, hp, rfl⟩ := hval q hv
      exact ⟨asideName_ne_nil (ho.ne (hfp hp)) k, asideName_clean (ho.ne (hfp hp)) k (ho.clean p (hfp hp)).2⟩
  · -- distinct
    have hd := ho.distinct
    simp only [pathsOf] at hd ⊢
    rw [List.nodup_append] at hd ⊢
    obtain ⟨hd1, hd2, hd3⟩ := hd
    refine ⟨hd1, ?_, ?_⟩
    · simp only [vb, List.map_map]
      rw [List.Nodup, List.pairwise_map]
      have hd2' := hd2
      rw [List.Nodup, List.pairwise_map] at hd2'
      apply hd2'.imp_of_mem
      intro a b ha hb hab heq
      exact hab (h.asideOf_inj (List.mem_map.mpr ⟨a, ha, rfl⟩) (List.mem_map.mpr ⟨b, hb, rfl⟩) heq)
    · intro a ha b hb hab
      subst hab
      obtain ⟨p, hp, hpa⟩ := mem_vb_filePaths.mp hb
      rcases asideOf_cases h.keys_nodup p with ⟨_, e1⟩ | ⟨e, he, rfl, e1⟩
      · rw [e1] at hpa; subst hpa
        exact hd3 _ ha _ hp rfl
      · rw [e1] at hpa; subst hpa
        apply (h.val e he).2
        apply List.mem_append.mpr
        left
        simp only [pathsOf, List.mem_append] at ha ⊢
        exact Or.inl ha
  · intro q hq j hj0 hj
    rcases (h.mem_pathsOf_vb ho).mp hq with ⟨hq, _⟩ | hv
    · exact ho.parents q hq j hj0 hj
    · obtain ⟨p, k, hp, rfl⟩ := hval q hv
      have hne := ho.ne (hfp hp)
      rw [asideName_length hne] at hj
      have h1 : (asideName p k).take j = p.take j := by
        have e1 : (asideName p k).take j = (asideName p k).dropLast.take j := by
          rw [List.dropLast_eq_take, List.take_take, Nat.min_eq_left (by rw [asideName_length hne]; omega)]
        have e2 : p.take j = p.dropLast.take j := by
          rw [List.dropLast_eq_take, List.take_take, Nat.min_eq_left (by omega)]
        rw [e1, e2, asideName_dropLast hne]
      show (asideName p k).take j ∈ old.dirs
      rw [h1]
      exact ho.parents p (hfp hp) j hj0 hj
end

section
variable {old new : Build} {w : Work} {aside : List (Path × Path)}

/-- the work record fits the virtual build as it fits the old one: same indices, same contents -/
theorem AsideOK.wok_vb (hn : BWF new) (h : AsideOK old new w aside) (hw : WOK old new w) :
    WOK (vb old aside) new w := by
  refine ⟨hw.cover, hw.excl₁, hw.excl₂, hw.nodupT, hw.nodupO, hw.nodupM, ?_, ?_, ?_⟩
  · intro st hst
    obtain ⟨np, op, d, f1, f2⟩ := hw.transp st hst
    exact ⟨np, asideOf aside op, d, f1, by rw [vb_files_getElem?, f2]; rfl⟩
  · intro i hi
    obtain ⟨p, d, f1, f2⟩ := hw.overlay i hi
    refine ⟨p, d, f1, mem_vb_filePaths.mpr ⟨p, f2, asideOf_of_not_mem ?_⟩⟩
    intro hk
    obtain ⟨e, he, rfl⟩ := List.mem_map.mp hk
    exact hn.dir_not_file (h.key_new e he) (List.mem_map.mpr ⟨_, List.mem_of_getElem? f1, rfl⟩)
  · intro i hi
    obtain ⟨p, d, f1, f2⟩ := hw.move i hi
    refine ⟨p, d, f1, fun hm => ?_⟩
    obtain ⟨p₀, hp₀, hpq⟩ := mem_vb_filePaths.mp hm
    rcases asideOf_cases h.keys_nodup p₀ with ⟨_, e1⟩ | ⟨e, he, rfl, e1⟩
    · rw [e1] at hpq; subst hpq; exact f2 hp₀
    · rw [e1] at hpq
      apply (h.val e he).2
      rw [hpq]
      exact List.mem_append.mpr (Or.inr (mem_pathsOf.mpr (Or.inr (Or.inr
        (List.mem_map.mpr ⟨_, List.mem_of_getElem? f1, rfl⟩)))))

/-- no transposition source of the virtual build is a directory of the new build: those of the old build that
    were have stepped aside -/
theorem AsideOK.bkc_vb (h : AsideOK old new w aside)
    (hcomp : ∀ st ∈ w.transpositions, ∀ op d, old.files[st.2]? = some (op, d) → op ∈ new.dirs →
      op ∈ aside.map (·.1))
    (hord : new.dirs.Pairwise (fun a b => isPrefix b a = true →
      b ∉ old.files.map (·.1) ∧ b ∉ old.symlinks.map (·.1))) :
    BKC (vb old aside) new w := by
  constructor
  · intro p hp hpd
    obtain ⟨tr, htr, rfl⟩ := mem_srcsOf.mp hp
    obtain ⟨st, hst, d, d', _, e2⟩ := mem_tsOf.mp htr
    rw [vb_files_getElem?] at e2
    cases hf : old.files[st.2]? with
    | none => rw [hf] at e2; cases e2
    | some e =>
      rw [hf] at e2
      simp only [Option.map_some, Option.some.injEq, Prod.mk.injEq] at e2
      rcases asideOf_cases h.keys_nodup e.1 with ⟨h1, e1⟩ | ⟨e', he', hk, e1⟩
      · rw [e1] at e2
        exact h1 (hcomp st hst e.1 e.2 hf (e2.1 ▸ hpd))
      · rw [e1] at e2
        apply (h.val e' he').2
        rw [e2.1]
        exact List.mem_append.mpr (Or.inr (mem_pathsOf.mpr (Or.inl hpd)))
  · apply hord.imp_of_mem
    intro a b _ hb hab hpre
    refine ⟨fun hm => ?_, (hab hpre).2⟩
    obtain ⟨p₀, hp₀, hpq⟩ := mem_vb_filePaths.mp hm
    rcases asideOf_cases h.keys_nodup p₀ with ⟨_, e1⟩ | ⟨e, he, rfl, e1⟩
    · rw [e1] at hpq; subst hpq; exact (hab hpre).1 hp₀
    · rw [e1] at hpq
      apply (h.val e he).2
      rw [hpq]
      exact List.mem_append.mpr (Or.inr (mem_pathsOf.mpr (Or.inl hb)))
end

/-! ### what a tree holding a build holds -/

theorem get_treeOfBuild_congr {b b' : Build} (hb : BWF b) (hb' : BWF b') (hd : b'.dirs = b.dirs)
    (hs : b'.symlinks = b.symlinks) {q : Path} (hf : ∀ d, (q, d) ∈ b.files ↔ (q, d) ∈ b'.files) :
    (treeOfBuild b).get q = (treeOfBuild b').get q := by
  by_cases h0 : q = []
  · subst h0; rw [get_nil, get_nil]
  by_cases h1 : q ∈ b.dirs
  · rw [get_dir_treeOfBuild hb h1, get_dir_treeOfBuild hb' (hd ▸ h1)]
  by_cases h2 : q ∈ b.symlinks.map (·.1)
  · obtain ⟨e, he1, rfl⟩ := List.mem_map.mp h2
    rw [get_symlink_treeOfBuild hb (p := e.1) (d := e.2) he1,
      get_symlink_treeOfBuild hb' (p := e.1) (d := e.2) (hs ▸ he1)]
  by_cases h3 : q ∈ b.files.map (·.1)
  · obtain ⟨e, he1, rfl⟩ := List.mem_map.mp h3
    rw [get_file_treeOfBuild hb (p := e.1) (d := e.2) he1,
      get_file_treeOfBuild hb' (p := e.1) (d := e.2) ((hf e.2).mp he1)]
  · have h3' : q ∉ b'.files.map (·.1) := by
      intro hm
      obtain ⟨e, he1, rfl⟩ := List.mem_map.mp hm
      exact h3 (List.mem_map.mpr ⟨_, (hf e.2).mpr he1, rfl⟩)
    rw [get_none_treeOfBuild h0, get_none_treeOfBuild h0]
    · intro hm
      rcases mem_pathsOf.mp hm with h | h | h
      · exact h1 (hd ▸ h)
      · exact h2 (hs ▸ h)
      · exact h3' h
    · intro hm
      rcases mem_pathsOf.mp hm with h | h | h
      · exact h1 h
      · exact h2 h
      · exact h3 h

/-! ### `moveSourcesAside` -/

theorem asideOf_append_ne {aside : List (Path × Path)} {op a p : Path} (h : p ≠ op) :
    asideOf (aside ++ [(op, a)]) p = asideOf aside p := by
  have h1 : ((op == p) = false) := by simpa using Ne.symm h
  have : ([(op, a)] : List (Path × Path)).find? (fun e => e.1 == p) = none := by
    simp only [List.find?_cons, h1, List.find?_nil]
  simp only [asideOf, List.find?_append, this, Option.or_none]

theorem vb_nil (old : Build) : vb old [] = old := by
  cases old with
  | mk dirs symlinks files =>
    show ({ dirs := dirs, symlinks := symlinks, files := files.map (fun e => e) } : Build) = _
    rw [List.map_id']

/-- the invariant of the loop of `moveSourcesAside`: the tree holds exactly the virtual build -/
structure AsideInv (old new : Build) (w : Work) (st : Tree × List (Path × Path) × Nat) : Prop where
  inv : TInv st.1
  ok : AsideOK old new w st.2.1
  seeds : ∀ e ∈ st.2.1, ∃ k, k ≤ st.2.2 ∧ e.2 = asideName e.1 k
  holds : ∀ q, st.1.get q = (treeOfBuild (vb old st.2.1)).get q

theorem asideStep_spec {old new : Build} {w : Work} (ho : BWF old) {st : Tree × List (Path × Path) × Nat}
    (hst : AsideInv old new w st) {x : Nat × Nat} (hx : x ∈ w.transpositions) {op : Path} {d : List Byte}
    (hf : old.files[x.2]? = some (op, d)) :
    ∃ st', asideStep old new st x = .ok st' ∧ AsideInv old new w st' ∧ (∀ e ∈ st.2.1, e ∈ st'.2.1) ∧
      (op ∈ new.dirs → op ∈ st'.2.1.map (·.1)) := by
  obtain ⟨t, aside, seed⟩ := st
  obtain ⟨hI, hA, hseeds, hg⟩ := hst
  simp only at hI hA hseeds hg
  by_cases hcond : (!new.dirs.contains op || aside.any (·.1 == op)) = true
  · refine ⟨(t, aside, seed), ?_, ⟨hI, hA, hseeds, hg⟩, fun _ h => h, ?_⟩
    · simp only [asideStep, hf, hcond, if_true]
    · intro hd
      simp only [Bool.or_eq_true, Bool.not_eq_true', List.any_eq_true, beq_iff_eq] at hcond
      rcases hcond with h | ⟨e, he, rfl⟩
      · rw [List.contains_iff_mem.mpr hd] at h; cases h
      · exact List.mem_map.mpr ⟨e, he, rfl⟩
  · have hd : op ∈ new.dirs := by
      cases hh : new.dirs.contains op with
      | true => exact List.contains_iff_mem.mp hh
      | false => rw [hh] at hcond; simp at hcond
    have hnk : op ∉ aside.map (·.1) := by
      intro hk
      obtain ⟨e, he, rfl⟩ := List.mem_map.mp hk
      apply hcond
      simp only [Bool.or_eq_true, List.any_eq_true, beq_iff_eq]
      exact Or.inr ⟨e, he, rfl⟩
    have hmem : (op, d) ∈ old.files := List.mem_of_getElem? hf
    have hopf : op ∈ old.files.map (·.1) := List.mem_map.mpr ⟨_, hmem, rfl⟩
    have hpo : op ∈ pathsOf old := mem_pathsOf.mpr (Or.inr (Or.inr hopf))
    have hne : op ≠ [] := ho.ne hpo
    obtain ⟨hk1, hk2, _⟩ := nextFreeAside_spec (pathsInUse old new) hne (seed + 1)
    generalize hkdef : nextFreeAside (pathsInUse old new) op ((pathsInUse old new).length + 1) (seed + 1) = k
      at hk1 hk2
    have hfresh : asideName op k ∉ pathsOf old ++ pathsOf new := hk2
    have hao : asideName op k ∉ pathsOf old := fun h => hfresh (List.mem_append.mpr (Or.inl h))
    -- the new map
    have hA' : AsideOK old new w (aside ++ [(op, asideName op k)]) := by
      refine ⟨?_, ?_, ?_, ?_, ?_⟩
      · rw [List.map_append, List.nodup_append]
        refine ⟨hA.keys_nodup, by simp, ?_⟩
        intro a ha b hb hab
        simp only [List.map_cons, List.map_nil, List.mem_cons, List.not_mem_nil, or_false] at hb
        exact hnk (hb ▸ hab ▸ ha)
      · rw [List.map_append, List.nodup_append]
        refine ⟨hA.vals_nodup, by simp, ?_⟩
        intro a ha b hb hab
        simp only [List.map_cons, List.map_nil, List.mem_cons, List.not_mem_nil, or_false] at hb
        obtain ⟨e, he, rfl⟩ := List.mem_map.mp ha
        obtain ⟨k', hk', hek⟩ := hseeds e he
        have hene : e.1 ≠ [] := ho.ne (mem_pathsOf.mpr (Or.inr (Or.inr (hA.key_old he))))
        rw [hb, hek] at hab
        have := (asideName_inj hene hne hab).2
        omega
      · intro e he
        rcases List.mem_append.mp he with he | he
        · exact hA.key_new e he
        · simp only [List.mem_cons, List.not_mem_nil, or_false] at he
          subst he; exact hd
      · intro e he
        rcases List.mem_append.mp he with he | he
        · exact hA.key_src e he
        · simp only [List.mem_cons, List.not_mem_nil, or_false] at he
          subst he; exact ⟨x, hx, d, hf⟩
      · intro e he
        rcases List.mem_append.mp he with he | he
        · exact hA.val e he
        · simp only [List.mem_cons, List.not_mem_nil, or_false] at he
          subst he; exact ⟨⟨k, rfl⟩, hfresh⟩
    have hvb := hA.bwf_vb ho
    have hvb' := hA'.bwf_vb ho
    -- the rename
    have hgop : t.get op = some (.file d) := by
      rw [hg]
      exact get_file_treeOfBuild hvb (mem_vb_files.mpr ⟨op, hmem, asideOf_of_not_mem hnk⟩)
    have hpar : IsDir t op.dropLast := by
      rcases ho.parent_mem hpo with h0 | h0
      · rw [h0]; exact isDir_nil _
      · show t.get op.dropLast = some .dir
        rw [hg]
        exact get_dir_treeOfBuild hvb (show op.dropLast ∈ (vb old aside).dirs from h0)
    have hdd : ".." ∉ op.dropLast := fun h => ho.nodd hpo (mem_of_mem_dropLast h)
    have hplo : Plain t op := ⟨hne, hpar, hdd⟩
    have hpla : Plain t (asideName op k) :=
      ⟨asideName_ne_nil hne k, by rw [asideName_dropLast hne]; exact hpar, by rw [asideName_dropLast hne]; exact hdd⟩
    have hneq : op ≠ asideName op k := fun h => hao (h ▸ hpo)
    have hnb : isPrefix (asideName op k) op = false := by
      cases hh : isPrefix (asideName op k) op with
      | false => rfl
      | true =>
        have := (isPrefix_iff.mp hh).1
        rw [asideName_length hne] at this
        omega
    obtain ⟨t', hm1, hm2, hm3⟩ := moveFile_specD hI hplo hgop hpla hneq hnb
    refine ⟨(t', aside ++ [(op, asideName op k)], k), ?_, ⟨hm2, hA', ?_, ?_⟩, ?_, ?_⟩
    · simp only [asideStep, hf, hcond, hkdef, hm1]
      rfl
    · intro e he
      rcases List.mem_append.mp he with he | he
      · obtain ⟨k', hk', hek⟩ := hseeds e he
        exact ⟨k', by simp only; omega, hek⟩
      · simp only [List.mem_cons, List.not_mem_nil, or_false] at he
        subst he; exact ⟨k, Nat.le_refl _, rfl⟩
    · intro q
      show t'.get q = (treeOfBuild (vb old (aside ++ [(op, asideName op k)]))).get q
      rw [hm3 q]
      have hin : (op, asideName op k) ∈ aside ++ [(op, asideName op k)] := by simp
      by_cases hq1 : q = asideName op k
      · rw [if_pos hq1, hq1]
        exact (get_file_treeOfBuild hvb' (mem_vb_files.mpr ⟨op, hmem, asideOf_of_mem hA'.keys_nodup hin⟩)).symm
      rw [if_neg hq1]
      by_cases hq2 : q = op
      · rw [if_pos hq2, hq2]
        symm
        apply get_none_treeOfBuild hne
        intro hm
        rcases (hA'.mem_pathsOf_vb ho).mp hm with ⟨_, h2⟩ | h2
        · exact h2 (List.mem_map.mpr ⟨_, hin, rfl⟩)
        · obtain ⟨e, he, hev⟩ := List.mem_map.mp h2
          apply (hA'.val e he).2
          rw [hev]
          exact List.mem_append.mpr (Or.inl hpo)
      rw [if_neg hq2]
      by_cases hq3 : isPrefix (asideName op k) q = true
      · rw [if_pos hq3]
        symm
        apply get_none_treeOfBuild
        · intro h0; rw [h0, isPrefix_false_nil] at hq3; cases hq3
        · intro hm
          have := hvb'.prefix_mem_dirs hm (asideName_ne_nil hne k) hq3
          exact hao (mem_pathsOf.mpr (Or.inl this))
      rw [if_neg hq3, hg q]
      apply get_treeOfBuild_congr hvb hvb' rfl rfl
      intro d'
      rw [mem_vb_files, mem_vb_files]
      constructor
      · rintro ⟨p, hp, hpq⟩
        have hpo' : p ≠ op := by
          intro h; subst h
          rw [asideOf_of_not_mem hnk] at hpq
          exact hq2 hpq.symm
        exact ⟨p, hp, by rw [asideOf_append_ne hpo']; exact hpq⟩
      · rintro ⟨p, hp, hpq⟩
        have hpo' : p ≠ op := by
          intro h; subst h
          rw [asideOf_of_mem hA'.keys_nodup hin] at hpq
          exact hq1 hpq.symm
        exact ⟨p, hp, by rw [asideOf_append_ne hpo'] at hpq; exact hpq⟩
    · intro e he
      exact List.mem_append.mpr (Or.inl he)
    · intro _
      exact List.mem_map.mpr ⟨(op, asideName op k), List.mem_append.mpr (Or.inr (by simp)), rfl⟩

theorem asideFold_spec {old new : Build} {w : Work} (ho : BWF old) (hw : WOK old new w) :
    ∀ (L : List (Nat × Nat)) (st : Tree × List (Path × Path) × Nat), (∀ x ∈ L, x ∈ w.transpositions) →
    AsideInv old new w st →
    ∃ st', L.foldlM (asideStep old new) st = .ok st' ∧ AsideInv old new w st' ∧
      (∀ e ∈ st.2.1, e ∈ st'.2.1) ∧
      (∀ x ∈ L, ∀ op d, old.files[x.2]? = some (op, d) → op ∈ new.dirs → op ∈ st'.2.1.map (·.1)) := by
  intro L
  induction L with
  | nil =>
    intro st _ hst
    exact ⟨st, rfl, hst, fun _ h => h, by simp⟩
  | cons x L ih =>
    intro st hL hst
    have hx := hL x (by simp)
    obtain ⟨np, op, d, _, hf⟩ := hw.transp x hx
    obtain ⟨st1, h1, hst1, hmono1, hc1⟩ := asideStep_spec ho hst hx hf
    obtain ⟨st', h2, hst', hmono2, hc2⟩ := ih st1 (fun y hy => hL y (by simp [hy])) hst1
    refine ⟨st', by simp only [List.foldlM_cons, bind, Except.bind, h1, h2], hst', fun e he => hmono2 e (hmono1 e he), ?_⟩
    intro y hy op' d' hf' hd'
    simp only [List.mem_cons] at hy
    rcases hy with rfl | hy
    · rw [hf] at hf'
      cases hf'
      obtain ⟨e, he, hee⟩ := List.mem_map.mp (hc1 hd')
      exact List.mem_map.mpr ⟨e, hmono2 e he, hee⟩
    · exact hc2 y hy op' d' hf' hd'

/-- `moveSourcesAside` on the tree holding the old build: it succeeds; the resulting tree holds exactly the virtual
    build; the keys of the map are exactly the transposition sources that are directories of the new build -/
theorem moveSourcesAside_spec {old new : Build} {w : Work} (ho : BWF old) (hw : WOK old new w) :
    ∃ t₀ aside, moveSourcesAside old new w (treeOfBuild old) = .ok (t₀, aside) ∧ TInv t₀ ∧
      AsideOK old new w aside ∧
      (∀ st ∈ w.transpositions, ∀ op d, old.files[st.2]? = some (op, d) → op ∈ new.dirs →
        op ∈ aside.map (·.1)) ∧
      ∀ q, t₀.get q = (treeOfBuild (vb old aside)).get q := by
  have h0 : AsideInv old new w (treeOfBuild old, [], 0) := by
    refine ⟨tinv_treeOfBuild ho, ⟨by simp, by simp, by simp, by simp, by simp⟩, by simp, ?_⟩
    intro q
    show (treeOfBuild old).get q = (treeOfBuild (vb old [])).get q
    rw [vb_nil]
  obtain ⟨st', h1, hst', _, hc⟩ := asideFold_spec ho hw w.transpositions _ (fun _ h => h) h0
  refine ⟨st'.1, st'.2.1, ?_, hst'.inv, hst'.ok, hc, hst'.holds⟩
  rw [moveSourcesAside_eq, h1]
  rfl

/-! ### the transposition phase reads the virtual build -/

theorem nextFree_congr {used used' : List Path} (p : Path)
    (h : ∀ k, used.contains (seedName p k) = used'.contains (seedName p k)) :
    ∀ fuel seed, nextFree used p fuel seed = nextFree used' p fuel seed := by
  intro fuel
  induction fuel with
  | zero => intro seed; rfl
  | succ fuel ih => intro seed; simp only [nextFree, h seed, ih]

theorem rwTr_congr {sources used used' : List Path} (hn : ∀ o seed, nxt used o seed = nxt used' o seed)
    (seed : Nat) (tr : Transpo) : rwTr sources used seed tr = rwTr sources used' seed tr := by
  simp only [rwTr, hn]

theorem rwGroup_congr {sources used used' : List Path} (hn : ∀ o seed, nxt used o seed = nxt used' o seed) :
    ∀ (g : List Transpo) (seed : Nat), rwGroup sources used seed g = rwGroup sources used' seed g := by
  intro g
  induction g with
  | nil => intro seed; rfl
  | cons tr g ih => intro seed; simp only [rwGroup, rwTr_congr hn, ih]

theorem rwGroups_congr {sources used used' : List Path} (hn : ∀ o seed, nxt used o seed = nxt used' o seed) :
    ∀ (gs : List (Path × List Transpo)) (seed : Nat),
      rwGroups sources used seed gs = rwGroups sources used' seed gs := by
  intro gs
  induction gs with
  | nil => intro seed; rfl
  | cons x gs ih =>
    intro seed
    obtain ⟨gp, g⟩ := x
    simp only [rwGroups, rwGroup_congr hn, ih]

/-- the first pass only asks of the paths in use whether a temporary name is among them -/
theorem safePass_congr {used used' : List Path} (hlen : used.length = used'.length)
    (h : ∀ p k, seedName p k ∈ used ↔ seedName p k ∈ used')
    (groups : List (Path × List Transpo)) (sources od : List Path) :
    safePass groups sources used od = safePass groups sources used' od := by
  rw [safePass_spec, safePass_spec]
  apply rwGroups_congr
  intro o seed
  show nextFree used o (used.length + 1) (seed + 1) = nextFree used' o (used'.length + 1) (seed + 1)
  rw [hlen]
  apply nextFree_congr
  intro k
  rw [Bool.eq_iff_iff, List.contains_iff_mem, List.contains_iff_mem]
  exact h o k

theorem tsOfA_eq_vb (aside : List (Path × Path)) (old new : Build) (w : Work) :
    tsOfA aside old new w = tsOf (vb old aside) new w := by
  unfold tsOfA tsOf
  apply filterMap_congr'
  intro st _
  obtain ⟨s, tg⟩ := st
  simp only
  rw [vb_files_getElem?]
  cases new.files[s]? <;> cases old.files[tg]? <;> rfl

theorem applyTranspositions_vb {old new : Build} {w : Work} {aside : List (Path × Path)} (ho : BWF old)
    (hA : AsideOK old new w aside) (o₁ o₂ : List Path) (t : Tree) :
    applyTranspositions old new w o₁ o₂ t aside =
      applyTranspositions (vb old aside) new w (o₁.map (asideOf aside)) (o₂.map (asideOf aside)) t := by
  rw [applyTranspositions_eqA, applyTranspositions_eq]
  have e1 := tsOfA_eq_vb aside old new w
  have e2 : srcsOfA aside old new w = srcsOf (vb old aside) new w := by simp only [srcsOfA, srcsOf, e1]
  have e3 : ∀ G S, safePass G S (pathsOf old ++ pathsOf new) old.dirs =
      safePass G S (pathsOf (vb old aside) ++ pathsOf new) (vb old aside).dirs := by
    intro G S
    apply safePass_congr
    · simp only [pathsOf, vb, List.length_append, List.length_map]
    · intro p k
      simp only [List.mem_append]
      rw [hA.mem_pathsOf_vb ho]
      constructor
      · rintro (h | h)
        · by_cases hk : seedName p k ∈ aside.map (·.1)
          · obtain ⟨e, he, hee⟩ := List.mem_map.mp hk
            exact Or.inr (mem_pathsOf.mpr (Or.inl (hee ▸ hA.key_new e he)))
          · exact Or.inl (Or.inl ⟨h, hk⟩)
        · exact Or.inr h
      · rintro ((⟨h, _⟩ | h) | h)
        · exact Or.inl h
        · exfalso
          obtain ⟨e, he, hee⟩ := List.mem_map.mp h
          obtain ⟨⟨k', hk'⟩, _⟩ := hA.val e he
          have hene : e.1 ≠ [] := ho.ne (mem_pathsOf.mpr (Or.inr (Or.inr (hA.key_old he))))
          exact asideName_ne_seedName hene k' p k (by rw [← hk', hee])
        · exact Or.inr h
  rw [e1, e2, e3]

/-! ### the commit -/

/-- C02 with kind changes, the sources that become directories stepping aside first: the commit over the tree
    holding the old build yields a tree holding the new build, provided a new directory that replaces a file or a
    symlink is listed before the new directories below it. -/
theorem commit_specA {old new : Build} {w : Work} (ho : BWF old) (hn : BWF new)
    (hord : new.dirs.Pairwise (fun a b => isPrefix b a = true →
      b ∉ old.files.map (·.1) ∧ b ∉ old.symlinks.map (·.1)))
    (hw : WOK old new w) {o₁ o₂ : List Path}
    (h₁ : o₁.Perm (srcsOf old new w)) (h₂ : o₂.Perm (srcsOf old new w)) :
    ∃ t', commit old new w o₁ o₂ (treeOfBuild old) = .ok t' ∧ TInv t' ∧
      ∀ p, t'.get p = (treeOfBuild new).get p := by
  obtain ⟨t₀, aside, e0, hI0, hA, hcomp, hg0⟩ := moveSourcesAside_spec ho hw
  have hvb := hA.bwf_vb ho
  have hwv := hA.wok_vb hn hw
  have hbv := hA.bkc_vb hcomp hord
  obtain ⟨t₁, e1, he⟩ := ensureDirsPhase_specT hvb hn hbv.dirOrder hI0 hg0
  -- the visiting orders, mapped, are visiting orders of the virtual build
  have hperm : ∀ o : List Path, o.Perm (srcsOf old new w) →
      (o.map (asideOf aside)).Perm (srcsOf (vb old aside) new w) := by
    intro o hp
    have hnd : o.Nodup := hp.nodup_iff.mpr (srcsOf_nodup old new w)
    apply (List.perm_ext_iff_of_nodup ?_ (srcsOf_nodup _ _ _)).mpr
    · intro x
      constructor
      · intro hx
        obtain ⟨p, hpo, rfl⟩ := List.mem_map.mp hx
        obtain ⟨tr, htr, rfl⟩ := mem_srcsOf.mp (hp.mem_iff.mp hpo)
        obtain ⟨st, hst, d, d', f1, f2⟩ := mem_tsOf.mp htr
        exact mem_srcsOf.mpr ⟨⟨asideOf aside tr.targetPath, tr.outputPath⟩,
          mem_tsOf.mpr ⟨st, hst, d, d', f1, by rw [vb_files_getElem?, f2]; rfl⟩, rfl⟩
      · intro hx
        obtain ⟨tr, htr, rfl⟩ := mem_srcsOf.mp hx
        obtain ⟨st, hst, d, d', f1, f2⟩ := mem_tsOf.mp htr
        rw [vb_files_getElem?] at f2
        cases hf : old.files[st.2]? with
        | none => rw [hf] at f2; cases f2
        | some e =>
          rw [hf] at f2
          simp only [Option.map_some, Option.some.injEq, Prod.mk.injEq] at f2
          have : e.1 ∈ srcsOf old new w :=
            mem_srcsOf.mpr ⟨⟨e.1, tr.outputPath⟩, mem_tsOf.mpr ⟨st, hst, d, e.2, f1, hf⟩, rfl⟩
          exact List.mem_map.mpr ⟨e.1, hp.mem_iff.mpr this, f2.1⟩
    · rw [List.Nodup, List.pairwise_map]
      have hnd' := hnd
      rw [List.Nodup] at hnd'
      apply hnd'.imp_of_mem
      intro a b ha hb hab heq
      exact hab (hA.asideOf_inj (srcsOf_old (hp.mem_iff.mp ha)) (srcsOf_old (hp.mem_iff.mp hb)) heq)
  obtain ⟨t₂, e2, ht⟩ := transpositions_spec' hvb hn hbv hwv (hperm _ h₁) (hperm _ h₂) he
  rw [← applyTranspositions_vb ho hA] at e2
  obtain ⟨t₃, t₄, t₅, e3, e4, e5, hpre, hnone⟩ := finish_pre' hvb hn hwv he ht
  -- nothing is left of the aside files
  have hgone : ∀ e ∈ aside, t₅.get e.2 = none := by
    intro e he'
    obtain ⟨st, hst, d, hf⟩ := hA.key_src e he'
    obtain ⟨np, op, d2, f1, f2⟩ := hw.transp st hst
    rw [hf] at f2
    cases f2
    have hav : asideOf aside e.1 = e.2 := asideOf_of_mem hA.keys_nodup (a := e.2) he'
    have hsrc : e.2 ∈ srcsOf (vb old aside) new w :=
      mem_srcsOf.mpr ⟨⟨e.2, np⟩, mem_tsOf.mpr ⟨st, hst, d, d, f1, by
        rw [vb_files_getElem?, hf]; simp only [Option.map_some, hav]⟩, rfl⟩
    obtain ⟨⟨k, hk⟩, hfr⟩ := hA.val e he'
    have hene : e.1 ≠ [] := ho.ne (mem_pathsOf.mpr (Or.inr (Or.inr (hA.key_old he'))))
    have hvn : e.2 ∉ pathsOf new := fun h => hfr (List.mem_append.mpr (Or.inr h))
    apply hnone e.2 hvn
    apply ht.consumed e.2 hsrc hvn
    · intro tr _ j h
      exact asideName_ne_seedName hene k tr.outputPath j (by rw [← hk]; exact h.symm)
    · intro f hf'
      cases hh : isPrefix f e.2 with
      | false => rfl
      | true =>
        exfalso
        have hsp : isPrefix f e.1 = true := by
          rw [hk] at hh
          rcases isPrefix_cases hh with h | h
          · rw [h, asideName_dropLast hene]; exact isPrefix_dropLast_self hene
          · rw [asideName_dropLast hene] at h; exact isPrefix_of_dropLast h
        have := hn.not_below_file (mem_pathsOf.mpr (Or.inl (hA.key_new e he'))) hf'
        rw [hsp] at this
        cases this
  -- so the tree is what ghost deletion expects of the OLD build
  have hkey_new : ∀ q, q ∈ aside.map (·.1) → q ∈ pathsOf new := by
    intro q hk
    obtain ⟨e, he', rfl⟩ := List.mem_map.mp hk
    exact mem_pathsOf.mpr (Or.inl (hA.key_new e he'))
  have hpre' : PreGhost old new t₅ := by
    refine ⟨hpre.inv, hpre.newOK, ?_, ?_, ?_⟩
    · intro q hq0 hqn hqo
      by_cases hv : q ∈ aside.map (·.2)
      · obtain ⟨e, he', rfl⟩ := List.mem_map.mp hv
        exact hgone e he'
      · apply hpre.stray q hq0 hqn
        intro hm
        rcases (hA.mem_pathsOf_vb ho).mp hm with ⟨h, _⟩ | h
        · exact hqo h
        · exact hv h
    · intro q hqo hqn hsk
      exact hpre.ghosts q ((hA.mem_pathsOf_vb ho).mpr (Or.inl ⟨hqo, fun hk => hqn (hkey_new q hk)⟩)) hqn hsk
    · intro q hqo hqn hqd
      exact hpre.nonDirs q ((hA.mem_pathsOf_vb ho).mpr (Or.inl ⟨hqo, fun hk => hqn (hkey_new q hk)⟩)) hqn hqd
  obtain ⟨t₆, e6, hI6, hg6⟩ := deleteGhosts_spec ho hn hpre'
  refine ⟨t₆, ?_, hI6, hg6⟩
  simp only [commit, bind, Except.bind, e0, e1, e2, e3, e4, e5, e6]

end Wharf.Commit
