/-
  Helper lemmas for C18 (drip writer / validating pool) and C05 (wound aggregation, per-file pass).
  Core Lean only.
-/
import Wharf.Model.Validate

namespace Wharf.Validate
open Wharf

variable {wound : Bool} {bs : Nat} {S : List Byte} {fi : Nat}

/-! ### `WKind` equality -/

theorem WKind.beq_iff (a b : WKind) : (a == b) = true ↔ a = b := by
  cases a <;> cases b <;> decide

theorem WKind.beq_false_iff (a b : WKind) : (a == b) = false ↔ a ≠ b := by
  cases a <;> cases b <;> decide

instance : LawfulBEq WKind where
  eq_of_beq := fun {a b} h => (WKind.beq_iff a b).mp h
  rfl := fun {a} => by cases a <;> decide

/-! ### arithmetic of blocks -/

theorem lt_numHashes (hbs : 0 < bs) {j : Nat} (h : j * bs < S.length) : j < numHashes bs S := by
  unfold numHashes Rsync.numBlocks
  have hne : S.length ≠ 0 := by omega
  rw [if_neg hne]
  apply Nat.lt_of_succ_le
  rw [Nat.le_div_iff_mul_le hbs, Nat.succ_mul]
  omega

/-! ### writes -/

theorem dripWrite_nil (d : Drip) : dripWrite wound bs S fi d [] = d := rfl

theorem dripWrite_cons (d : Drip) (b : Byte) (c : List Byte) :
    dripWrite wound bs S fi d (b :: c) = dripWrite wound bs S fi (dripPush wound bs S fi d b) c := rfl

theorem dripWrite_append (d : Drip) (a b : List Byte) :
    dripWrite wound bs S fi (dripWrite wound bs S fi d a) b = dripWrite wound bs S fi d (a ++ b) := by
  simp [dripWrite, List.foldl_append]

theorem foldl_dripWrite (d : Drip) (slices : List (List Byte)) :
    slices.foldl (dripWrite wound bs S fi) d = dripWrite wound bs S fi d slices.flatten := by
  induction slices generalizing d with
  | nil => rfl
  | cons a t ih => simp [List.foldl_cons, ih, dripWrite_append]

/-- Once failed, a writer ignores everything. -/
theorem dripWrite_err (d : Drip) (h : d.err = true) (c : List Byte) :
    dripWrite wound bs S fi d c = d := by
  induction c with
  | nil => rfl
  | cons b c ih =>
    rw [dripWrite_cons]
    have : dripPush wound bs S fi d b = d := by simp [dripPush, h]
    rw [this, ih]

/-- Fewer bytes than needed to fill the buffer: just buffered. -/
theorem dripWrite_partial (c : List Byte) : ∀ (r : List Byte) (k : Nat) (I : List Byte) (W : List Wound),
    r.length + c.length < bs →
    dripWrite wound bs S fi ⟨r, r.length, k, I, W, false⟩ c
      = ⟨c.reverse ++ r, r.length + c.length, k, I, W, false⟩ := by
  induction c with
  | nil => intros; simp [dripWrite]
  | cons b c ih =>
    intro r k I W h
    have h' : r.length + (c.length + 1) < bs := by simpa using h
    have hne : r.length + 1 ≠ bs := by omega
    have hp : dripPush wound bs S fi ⟨r, r.length, k, I, W, false⟩ b
        = ⟨b :: r, (b :: r).length, k, I, W, false⟩ := by
      simp [dripPush, hne]
    rw [dripWrite_cons, hp, ih]
    · simp; omega
    · simp; omega

/-- Exactly the bytes that fill the buffer: one flush of the whole buffer. -/
theorem dripWrite_full (c : List Byte) : ∀ (r : List Byte) (k : Nat) (I : List Byte) (W : List Wound),
    c ≠ [] → r.length + c.length = bs →
    dripWrite wound bs S fi ⟨r, r.length, k, I, W, false⟩ c
      = dripFlush wound bs S fi ⟨c.reverse ++ r, bs, k, I, W, false⟩ := by
  induction c with
  | nil => intro r k I W h; exact absurd rfl h
  | cons b c ih =>
    intro r k I W _ h
    have h' : r.length + (c.length + 1) = bs := by simpa using h
    by_cases hc : c = []
    · subst hc
      have h'' : r.length + 1 = bs := by simpa using h'
      simp [dripWrite, dripPush, h'']
    · have hpos : 0 < c.length := List.length_pos_iff.mpr hc
      have hne : r.length + 1 ≠ bs := by omega
      have hp : dripPush wound bs S fi ⟨r, r.length, k, I, W, false⟩ b
          = ⟨b :: r, (b :: r).length, k, I, W, false⟩ := by
        simp [dripPush, hne]
      rw [dripWrite_cons, hp, ih _ _ _ _ hc]
      · simp
      · simp; omega

theorem dripFlush_wound (r : List Byte) (n k : Nat) (I : List Byte) (W : List Wound) :
    dripFlush true bs S fi ⟨r, n, k, I, W, false⟩
      = ⟨[], 0, k + 1, I ++ r.reverse, W ++ [marker bs S fi k (blockOk bs S k r.reverse)], false⟩ := by
  simp [dripFlush]

theorem dripFlush_ok (r : List Byte) (n k : Nat) (I : List Byte) (W : List Wound)
    (h : blockOk bs S k r.reverse = true) :
    dripFlush false bs S fi ⟨r, n, k, I, W, false⟩ = ⟨[], 0, k + 1, I ++ r.reverse, W, false⟩ := by
  simp [dripFlush, h]

theorem dripFlush_bad (r : List Byte) (n k : Nat) (I : List Byte) (W : List Wound)
    (h : blockOk bs S k r.reverse = false) :
    dripFlush false bs S fi ⟨r, n, k, I, W, false⟩ = ⟨r, n, k + 1, I, W, true⟩ := by
  simp [dripFlush, h]

/-! ### chunks -/

theorem chunks_nil (fuel : Nat) : chunks bs fuel [] = [] := by
  cases fuel <;> simp [chunks]

theorem chunks_succ {D : List Byte} (h : D ≠ []) (fuel : Nat) :
    chunks bs (fuel + 1) D = D.take bs :: chunks bs fuel (D.drop bs) := by
  simp [chunks, h]

theorem goodPrefix_cons (k : Nat) (c : List Byte) (cs : List (List Byte)) :
    goodPrefix bs S k (c :: cs) =
      if blockOk bs S k c then (c ++ (goodPrefix bs S (k + 1) cs).1, (goodPrefix bs S (k + 1) cs).2)
      else ([], false) := by
  simp [goodPrefix]

/-! ### a whole write from an empty buffer -/

/-- Splitting a write of at least `bs` bytes (empty buffer) into the first block and the rest. -/
theorem dripWrite_block (hbs : 0 < bs) (D : List Byte) (h : bs ≤ D.length) (k : Nat) (I : List Byte)
    (W : List Wound) :
    dripWrite wound bs S fi ⟨[], 0, k, I, W, false⟩ D
      = dripWrite wound bs S fi
          (dripFlush wound bs S fi ⟨(D.take bs).reverse, bs, k, I, W, false⟩) (D.drop bs) := by
  have hne : D.take bs ≠ [] := by
    intro h0
    have h1 : (D.take bs).length = 0 := by rw [h0]; rfl
    rw [List.length_take] at h1; omega
  have hl : ([] : List Byte).length + (D.take bs).length = bs := by simp; omega
  have := dripWrite_full (wound := wound) (S := S) (fi := fi) (D.take bs) [] k I W hne hl
  simp only [List.length_nil, List.append_nil] at this
  rw [← this, dripWrite_append, List.take_append_drop]

theorem dripWrite_short (D : List Byte) (h : D.length < bs) (k : Nat) (I : List Byte) (W : List Wound) :
    dripWrite wound bs S fi ⟨[], 0, k, I, W, false⟩ D = ⟨D.reverse, D.length, k, I, W, false⟩ := by
  have := dripWrite_partial (wound := wound) (bs := bs) (S := S) (fi := fi) D [] k I W (by simpa using h)
  simpa using this

/-- Wound mode, generalised over the starting block index. -/
theorem wound_session (hbs : 0 < bs) (fuel : Nat) : ∀ (D : List Byte) (k : Nat) (I : List Byte) (W : List Wound),
    D.length ≤ fuel →
    dripClose true bs S fi (dripWrite true bs S fi ⟨[], 0, k, I, W, false⟩ D)
      = ⟨[], 0, k + (chunks bs fuel D).length, I ++ D, W ++ markers bs S fi k (chunks bs fuel D), false⟩ := by
  induction fuel with
  | zero =>
    intro D k I W h
    have : D = [] := List.eq_nil_of_length_eq_zero (by omega)
    subst this
    simp [dripWrite, dripClose, chunks, markers]
  | succ fuel ih =>
    intro D k I W h
    by_cases hD : D = []
    · subst hD
      simp [dripWrite, dripClose, chunks, markers]
    · rw [chunks_succ hD]
      by_cases hlt : D.length < bs
      · have hpos : 0 < D.length := List.length_pos_iff.mpr hD
        rw [dripWrite_short D hlt, List.take_of_length_le (Nat.le_of_lt hlt),
          List.drop_of_length_le (Nat.le_of_lt hlt), chunks_nil]
        simp [dripClose, hpos, dripFlush_wound, markers]
      · have hge : bs ≤ D.length := Nat.le_of_not_lt hlt
        rw [dripWrite_block hbs D hge, dripFlush_wound, ih _ _ _ _ (by simp; omega)]
        simp [markers, List.reverse_reverse]
        omega

/-- Error mode, generalised over the starting block index. -/
theorem error_session (hbs : 0 < bs) (fuel : Nat) : ∀ (D : List Byte) (k : Nat) (I : List Byte) (W : List Wound),
    D.length ≤ fuel →
    (dripClose false bs S fi (dripWrite false bs S fi ⟨[], 0, k, I, W, false⟩ D)).inner
        = I ++ (goodPrefix bs S k (chunks bs fuel D)).1 ∧
    (dripClose false bs S fi (dripWrite false bs S fi ⟨[], 0, k, I, W, false⟩ D)).err
        = !(goodPrefix bs S k (chunks bs fuel D)).2 := by
  induction fuel with
  | zero =>
    intro D k I W h
    have : D = [] := List.eq_nil_of_length_eq_zero (by omega)
    subst this
    simp [dripWrite, dripClose, chunks, goodPrefix]
  | succ fuel ih =>
    intro D k I W h
    by_cases hD : D = []
    · subst hD
      simp [dripWrite, dripClose, chunks, goodPrefix]
    · rw [chunks_succ hD, goodPrefix_cons]
      by_cases hlt : D.length < bs
      · have hpos : 0 < D.length := List.length_pos_iff.mpr hD
        rw [dripWrite_short D hlt, List.take_of_length_le (Nat.le_of_lt hlt),
          List.drop_of_length_le (Nat.le_of_lt hlt), chunks_nil]
        by_cases hok : blockOk bs S k D = true
        · have hok' : blockOk bs S k D.reverse.reverse = true := by simpa using hok
          simp [dripClose, hpos, dripFlush_ok _ _ _ _ _ hok', hok, goodPrefix]
        · have hok0 : blockOk bs S k D = false := by simpa using hok
          have hok' : blockOk bs S k D.reverse.reverse = false := by simpa using hok0
          simp [dripClose, hpos, dripFlush_bad _ _ _ _ _ hok', hok0]
      · have hge : bs ≤ D.length := Nat.le_of_not_lt hlt
        rw [dripWrite_block hbs D hge]
        by_cases hok : blockOk bs S k (D.take bs) = true
        · have hok' : blockOk bs S k (D.take bs).reverse.reverse = true := by simpa using hok
          rw [dripFlush_ok _ _ _ _ _ hok']
          have := ih (D.drop bs) (k + 1) (I ++ (D.take bs).reverse.reverse) W (by simp; omega)
          rw [this.1, this.2]
          simp [hok]
        · have hok0 : blockOk bs S k (D.take bs) = false := by simpa using hok
          have hok' : blockOk bs S k (D.take bs).reverse.reverse = false := by simpa using hok0
          rw [dripFlush_bad _ _ _ _ _ hok', dripWrite_err _ rfl]
          simp [dripClose, hok0]

/-- Error mode before `Close`: failed iff some complete block is bad (generalised over the index). -/
theorem error_write (hbs : 0 < bs) (fuel : Nat) : ∀ (p : List Byte) (k0 : Nat) (I : List Byte) (W : List Wound),
    p.length ≤ fuel →
    ((dripWrite false bs S fi ⟨[], 0, k0, I, W, false⟩ p).err = true ↔
      ∃ k, (k + 1) * bs ≤ p.length ∧ blockOk bs S (k0 + k) ((p.drop (k * bs)).take bs) = false) := by
  induction fuel with
  | zero =>
    intro p k0 I W h
    have : p = [] := List.eq_nil_of_length_eq_zero (by omega)
    subst this
    simp only [dripWrite_nil, List.length_nil]
    constructor
    · intro h; cases h
    · rintro ⟨k, hk, _⟩
      rw [Nat.succ_mul] at hk; omega
  | succ fuel ih =>
    intro p k0 I W h
    by_cases hlt : p.length < bs
    · rw [dripWrite_short p hlt]
      constructor
      · intro h; cases h
      · rintro ⟨k, hk, _⟩
        rw [Nat.succ_mul] at hk; omega
    · have hge : bs ≤ p.length := Nat.le_of_not_lt hlt
      rw [dripWrite_block hbs p hge]
      by_cases hok : blockOk bs S k0 (p.take bs) = true
      · have hok' : blockOk bs S k0 (p.take bs).reverse.reverse = true := by simpa using hok
        rw [dripFlush_ok _ _ _ _ _ hok', ih (p.drop bs) (k0 + 1) _ W (by simp; omega)]
        constructor
        · rintro ⟨k, hk, hb⟩
          refine ⟨k + 1, ?_, ?_⟩
          · rw [Nat.succ_mul]; simp at hk; omega
          · rw [List.drop_drop] at hb
            rw [Nat.succ_mul, show k0 + (k + 1) = k0 + 1 + k by omega, Nat.add_comm (k * bs) bs]
            exact hb
        · rintro ⟨k, hk, hb⟩
          cases k with
          | zero => simp [hok] at hb
          | succ k =>
            refine ⟨k, ?_, ?_⟩
            · rw [Nat.succ_mul] at hk; simp; omega
            · rw [List.drop_drop]
              rw [Nat.succ_mul, show k0 + (k + 1) = k0 + 1 + k by omega, Nat.add_comm (k * bs) bs] at hb
              exact hb
      · have hok0 : blockOk bs S k0 (p.take bs) = false := by simpa using hok
        have hok' : blockOk bs S k0 (p.take bs).reverse.reverse = false := by simpa using hok0
        rw [dripFlush_bad _ _ _ _ _ hok', dripWrite_err _ rfl]
        simp only [true_iff]
        exact ⟨0, by simpa using hge, by simpa using hok0⟩

/-! ### the signed content validates -/

theorem blockOk_signed (hbs : 0 < bs) {j : Nat} (h : j * bs < S.length) :
    blockOk bs S j (signedBlock bs S j) = true := by
  simp [blockOk, lt_numHashes hbs h]

/-- Chunks of a block-aligned window `[j*bs, (j+m)*bs)` of the signed content all validate. -/
theorem goodPrefix_signed (hbs : 0 < bs) (fuel : Nat) : ∀ (j m : Nat),
    ((S.drop (j * bs)).take (m * bs)).length ≤ fuel →
    goodPrefix bs S j (chunks bs fuel ((S.drop (j * bs)).take (m * bs)))
      = ((S.drop (j * bs)).take (m * bs), true) := by
  induction fuel with
  | zero =>
    intro j m h
    have : (S.drop (j * bs)).take (m * bs) = [] := List.eq_nil_of_length_eq_zero (by omega)
    simp [this, chunks, goodPrefix]
  | succ fuel ih =>
    intro j m h
    by_cases hT : (S.drop (j * bs)).take (m * bs) = []
    · simp [hT, chunks, goodPrefix]
    · have hlen : 0 < ((S.drop (j * bs)).take (m * bs)).length := List.length_pos_iff.mpr hT
      rw [List.length_take, List.length_drop] at hlen h
      have hm : 0 < m := by
        cases m with
        | zero => simp at hlen
        | succ m => omega
      have hj : j * bs < S.length := by omega
      obtain ⟨m', rfl⟩ : ∃ m', m = m' + 1 := ⟨m - 1, by omega⟩
      have htake : ((S.drop (j * bs)).take ((m' + 1) * bs)).take bs = signedBlock bs S j := by
        rw [List.take_take, Nat.succ_mul]
        unfold signedBlock
        congr 1
        omega
      have hdrop : ((S.drop (j * bs)).take ((m' + 1) * bs)).drop bs
          = (S.drop ((j + 1) * bs)).take (m' * bs) := by
        rw [List.drop_take, List.drop_drop, Nat.succ_mul, Nat.succ_mul]
        congr 1
        omega
      rw [chunks_succ hT, goodPrefix_cons, htake, hdrop, blockOk_signed hbs hj,
        ih (j + 1) m' (by
          rw [List.length_take, List.length_drop, Nat.succ_mul]
          rw [Nat.succ_mul] at h
          omega)]
      simp only [if_true]
      rw [← htake, ← hdrop, List.take_append_drop]

theorem goodPrefix_take (hbs : 0 < bs) (k : Nat) :
    goodPrefix bs S 0 (chunks bs (S.take (k * bs)).length (S.take (k * bs))) = (S.take (k * bs), true) := by
  have := goodPrefix_signed (S := S) hbs (S.take (k * bs)).length 0 k (by simp)
  simpa using this

theorem goodPrefix_self (hbs : 0 < bs) :
    goodPrefix bs S 0 (chunks bs S.length S) = (S, true) := by
  have h := goodPrefix_take (S := S) hbs S.length
  have hle : S.length ≤ S.length * bs := Nat.le_mul_of_pos_right _ hbs
  rw [List.take_of_length_le hle] at h
  exact h

/-! ### markers -/

theorem markers_getElem? (cs : List (List Byte)) : ∀ (k j : Nat), j < cs.length →
    (markers bs S fi k cs)[j]? = some (marker bs S fi (k + j) (blockOk bs S (k + j) (cs.getD j []))) := by
  induction cs with
  | nil => intro k j h; simp at h
  | cons c cs ih =>
    intro k j h
    cases j with
    | zero => simp [markers]
    | succ j =>
      have := ih (k + 1) j (by simpa using h)
      simp only [markers, List.getElem?_cons_succ, this, List.getD_cons_succ]
      rw [show k + 1 + j = k + (j + 1) by omega]

theorem marker_wf (k : Nat) (ok : Bool) :
    (marker bs S fi k ok).start ≤ (marker bs S fi k ok).stop ∧ (marker bs S fi k ok).index = fi := by
  simp [marker]

theorem markers_wf (cs : List (List Byte)) : ∀ (k : Nat), ∀ w ∈ markers bs S fi k cs,
    w.start ≤ w.stop ∧ w.index = fi := by
  induction cs with
  | nil => intro k w h; simp [markers] at h
  | cons c cs ih =>
    intro k w h
    simp only [markers, List.mem_cons] at h
    rcases h with rfl | h
    · exact marker_wf _ _
    · exact ih _ _ h

/-- All blocks good: all markers healthy. -/
theorem markers_all_ok (cs : List (List Byte)) : ∀ (k : Nat), (goodPrefix bs S k cs).2 = true →
    ∀ w ∈ markers bs S fi k cs, w.kind = .closedFile := by
  induction cs with
  | nil => intro k _ w h; simp [markers] at h
  | cons c cs ih =>
    intro k hg w h
    rw [goodPrefix_cons] at hg
    by_cases hok : blockOk bs S k c = true
    · simp only [hok, if_true] at hg
      simp only [markers, List.mem_cons] at h
      rcases h with rfl | h
      · simp [marker, hok]
      · exact ih _ hg _ h
    · simp [hok] at hg

/-- End of block `j`'s marker is beyond every signed offset of block `j`. -/
theorem marker_stop_gt {j i : Nat} (hi : i < bs) (h : j * bs + i < S.length) (ok : Bool) :
    j * bs + i < (marker bs S fi j ok).stop := by
  simp only [marker, Rsync.blockLen]
  split
  · rename_i hgt
    have hq : S.length / bs = j := by
      apply Nat.div_eq_of_lt_le
      · omega
      · rw [Nat.mul_comm] at hgt; exact hgt
    have := Nat.div_add_mod S.length bs
    rw [hq, Nat.mul_comm] at this
    omega
  · omega

/-- A differing byte at offset `j*bs + i` of the stream is inside a `.file` marker. -/
theorem markers_cover (hbs : 0 < bs) (fuel : Nat) : ∀ (T : List Byte) (j i : Nat),
    T.length ≤ fuel → i < T.length → j * bs + i < S.length → T[i]? ≠ S[j * bs + i]? →
    ∃ w ∈ markers bs S fi j (chunks bs fuel T),
      w.kind = .file ∧ w.start ≤ j * bs + i ∧ j * bs + i < w.stop := by
  induction fuel with
  | zero => intro T j i h hi; omega
  | succ fuel ih =>
    intro T j i h hi hS hne
    have hT : T ≠ [] := by intro h0; subst h0; simp at hi
    rw [chunks_succ hT]
    by_cases hlt : i < bs
    · refine ⟨marker bs S fi j (blockOk bs S j (T.take bs)), by simp [markers], ?_, ?_, ?_⟩
      · have hbad : blockOk bs S j (T.take bs) = false := by
          have : T.take bs ≠ signedBlock bs S j := by
            intro heq
            apply hne
            have := congrArg (fun l => l[i]?) heq
            simp only [signedBlock, List.getElem?_take, hlt, if_true, List.getElem?_drop] at this
            exact this
          simp [blockOk, this]
        simp [marker, hbad]
      · simp [marker]
      · exact marker_stop_gt hlt hS _
    · have hge : bs ≤ i := Nat.le_of_not_lt hlt
      have := ih (T.drop bs) (j + 1) (i - bs) (by simp; omega) (by simp; omega)
        (by rw [Nat.succ_mul]; omega)
        (by
          rw [List.getElem?_drop, Nat.succ_mul]
          rw [show bs + (i - bs) = i by omega, show j * bs + bs + (i - bs) = j * bs + i by omega]
          exact hne)
      obtain ⟨w, hw, hk, h1, h2⟩ := this
      refine ⟨w, by simp [markers, hw], hk, ?_, ?_⟩
      · rw [Nat.succ_mul] at h1; omega
      · rw [Nat.succ_mul] at h2; omega

/-! ### aggregation -/

/-- Everything the aggregator has emitted or still holds. -/
def Agg.all (a : Agg) : List Wound := a.out ++ a.last.toList

theorem aggregate_eq (maxSize : Nat) (ws : List Wound) :
    aggregate maxSize ws = (ws.foldl (aggStep maxSize) {}).all := by
  unfold aggregate Agg.all
  generalize ws.foldl (aggStep maxSize) {} = a
  obtain ⟨last, out⟩ := a
  cases last <;> simp

/-- A predicate on wounds that survives merging (`l` extended to the end of `w`). -/
def MergeStable (P : Wound → Prop) : Prop :=
  ∀ l w : Wound, P l → P w → l.stop ≤ w.start → l.start ≤ w.start → P { l with stop := w.stop }

/-- One step preserves any merge-stable predicate on everything held. -/
theorem aggStep_all (maxSize : Nat) (P : Wound → Prop) (hP : MergeStable P) (a : Agg) (w : Wound)
    (ha : ∀ x ∈ a.all, P x) (hw : P w) : ∀ x ∈ (aggStep maxSize a w).all, P x := by
  obtain ⟨last, out⟩ := a
  simp only [Agg.all] at ha
  unfold aggStep
  cases last with
  | none =>
    intro x hx
    by_cases hk : (w.kind == WKind.file) = true
    · simp [hk, Agg.all] at hx
      rcases hx with hx | rfl
      · exact ha x (by simp [hx])
      · exact hw
    · simp [hk, Agg.all] at hx
      rcases hx with hx | rfl
      · exact ha x (by simp [hx])
      · exact hw
  | some l =>
    have hl : P l := ha l (by simp)
    have hout : ∀ x ∈ out, P x := fun x hx => ha x (by simp [hx])
    intro x hx
    by_cases hk : (w.kind == WKind.file) = true
    · simp only [hk, if_true] at hx
      by_cases hm : l.stop ≤ w.start ∧ w.start ≥ l.start
      · have hl' : P { l with stop := w.stop } := hP l w hl hw hm.1 hm.2
        simp only [hm, and_self, if_true] at hx
        by_cases hsz : w.stop - l.start ≥ maxSize
        · simp [hsz, Agg.all] at hx
          rcases hx with hx | rfl
          · exact hout x hx
          · exact hl'
        · simp [hsz, Agg.all] at hx
          rcases hx with hx | rfl
          · exact hout x hx
          · exact hl'
      · simp only [hm, if_false] at hx
        simp [Agg.all] at hx
        rcases hx with hx | rfl | rfl
        · exact hout x hx
        · exact hl
        · exact hw
    · simp [hk, Agg.all] at hx
      rcases hx with hx | rfl | rfl
      · exact hout x hx
      · exact hl
      · exact hw

theorem foldl_aggStep_all (maxSize : Nat) (P : Wound → Prop) (hP : MergeStable P) (ws : List Wound) :
    ∀ (a : Agg), (∀ x ∈ a.all, P x) → (∀ w ∈ ws, P w) →
      ∀ x ∈ (ws.foldl (aggStep maxSize) a).all, P x := by
  induction ws with
  | nil => intro a ha _; exact ha
  | cons w ws ih =>
    intro a ha hws
    rw [List.foldl_cons]
    exact ih _ (aggStep_all maxSize P hP a w ha (hws w (by simp))) (fun x hx => hws x (by simp [hx]))

theorem aggregate_all (maxSize : Nat) (P : Wound → Prop) (hP : MergeStable P) (ws : List Wound)
    (h : ∀ w ∈ ws, P w) : ∀ x ∈ aggregate maxSize ws, P x := by
  rw [aggregate_eq]
  exact foldl_aggStep_all maxSize P hP ws {} (by simp [Agg.all]) h

theorem mergeStable_wf (fi : Nat) : MergeStable (fun w => w.start ≤ w.stop ∧ w.index = fi) := by
  intro l w hl hw h1 h2
  exact ⟨Nat.le_trans h2 hw.1, hl.2⟩

/-- The two shapes of an aggregator step: append `w`, or extend the held wound to the end of `w`. -/
theorem aggStep_cases (maxSize : Nat) (a : Agg) (w : Wound) :
    ((aggStep maxSize a w).all = a.all ++ [w] ∧
      (((aggStep maxSize a w).last = none ∧ w.kind ≠ .file) ∨
       ((aggStep maxSize a w).last = some w ∧ w.kind = .file))) ∨
    (∃ l, a.last = some l ∧ w.kind = .file ∧ l.stop ≤ w.start ∧ l.start ≤ w.start ∧
      (aggStep maxSize a w).all = a.out ++ [{ l with stop := w.stop }] ∧
      ((aggStep maxSize a w).last = none ∨ (aggStep maxSize a w).last = some { l with stop := w.stop })) := by
  obtain ⟨last, out⟩ := a
  unfold aggStep
  by_cases hk : w.kind = .file
  · have hk' : (w.kind == WKind.file) = true := (WKind.beq_iff _ _).mpr hk
    cases last with
    | none => left; simp [hk, Agg.all]
    | some l =>
      by_cases hm : l.stop ≤ w.start ∧ w.start ≥ l.start
      · right
        refine ⟨l, rfl, hk, hm.1, hm.2, ?_⟩
        by_cases hsz : w.stop - l.start ≥ maxSize
        · simp [hk', hm, hsz, Agg.all]
        · simp [hk', hm, hsz, Agg.all]
      · left; simp [hk, hm, Agg.all]
  · have hk' : (w.kind == WKind.file) = false := (WKind.beq_false_iff _ _).mpr hk
    cases last with
    | none => left; simp [hk', hk, Agg.all]
    | some l => left; simp [hk', hk, Agg.all]

/-- The held wound is always a well-formed file wound. -/
def Agg.LastOk (a : Agg) : Prop := ∀ l, a.last = some l → l.kind = .file ∧ l.start ≤ l.stop

/-- Offset `i` is inside a `.file` wound of `L`. -/
def Cov (L : List Wound) (i : Nat) : Prop := ∃ w ∈ L, w.kind = .file ∧ w.start ≤ i ∧ i < w.stop

theorem aggStep_lastOk (maxSize : Nat) (a : Agg) (w : Wound) (ha : a.LastOk) (hw : w.start ≤ w.stop) :
    (aggStep maxSize a w).LastOk := by
  intro l' hl'
  rcases aggStep_cases maxSize a w with ⟨_, h | h⟩ | ⟨l, hl, hk, h1, h2, _, h | h⟩
  · rw [h.1] at hl'; cases hl'
  · rw [h.1] at hl'; cases hl'; exact ⟨h.2, hw⟩
  · rw [h] at hl'; cases hl'
  · rw [h] at hl'; cases hl'
    exact ⟨(ha l hl).1, Nat.le_trans h2 hw⟩

theorem aggStep_cov (maxSize : Nat) (a : Agg) (w : Wound) (ha : a.LastOk) (hw : w.start ≤ w.stop) (i : Nat)
    (h : Cov a.all i ∨ (w.kind = .file ∧ w.start ≤ i ∧ i < w.stop)) :
    Cov (aggStep maxSize a w).all i := by
  rcases aggStep_cases maxSize a w with ⟨hall, _⟩ | ⟨l, hl, hk, h1, h2, hall, _⟩
  · rw [hall]
    rcases h with ⟨x, hx, hc⟩ | hc
    · exact ⟨x, by simp [hx], hc⟩
    · exact ⟨w, by simp, hc⟩
  · rw [hall]
    have hlok := ha l hl
    rcases h with ⟨x, hx, hc⟩ | hc
    · simp only [Agg.all, hl, Option.toList_some, List.mem_append, List.mem_singleton] at hx
      rcases hx with hx | rfl
      · exact ⟨x, by simp [hx], hc⟩
      · exact ⟨{ x with stop := w.stop }, by simp, hc.1, hc.2.1, by simp only; omega⟩
    · exact ⟨{ l with stop := w.stop }, by simp, hlok.1, by simp only; omega, hc.2.2⟩

theorem foldl_aggStep_cov (maxSize : Nat) (i : Nat) (ws : List Wound) : ∀ (a : Agg), a.LastOk →
    (∀ w ∈ ws, w.start ≤ w.stop) →
    (Cov a.all i ∨ ∃ w ∈ ws, w.kind = .file ∧ w.start ≤ i ∧ i < w.stop) →
    Cov (ws.foldl (aggStep maxSize) a).all i := by
  induction ws with
  | nil =>
    intro a _ _ h
    rcases h with h | ⟨w, hw, _⟩
    · exact h
    · simp at hw
  | cons w ws ih =>
    intro a ha hwf h
    rw [List.foldl_cons]
    have hw := hwf w (by simp)
    apply ih _ (aggStep_lastOk maxSize a w ha hw) (fun x hx => hwf x (by simp [hx]))
    rcases h with h | ⟨x, hx, hc⟩
    · exact Or.inl (aggStep_cov maxSize a w ha hw i (Or.inl h))
    · simp only [List.mem_cons] at hx
      rcases hx with rfl | hx
      · exact Or.inl (aggStep_cov maxSize a x ha hw i (Or.inr hc))
      · exact Or.inr ⟨x, hx, hc⟩

theorem lastOk_empty : ({} : Agg).LastOk := by intro l h; cases h

theorem aggregate_cov (maxSize : Nat) (ws : List Wound) (hwf : ∀ w ∈ ws, w.start ≤ w.stop) (i : Nat)
    (h : Cov ws i) : Cov (aggregate maxSize ws) i := by
  rw [aggregate_eq]
  exact foldl_aggStep_cov maxSize i ws {} lastOk_empty hwf (Or.inr h)

/-! `.file` wounds out iff `.file` wounds in (no well-formedness needed). -/

def Agg.LastFile (a : Agg) : Prop := ∀ l, a.last = some l → l.kind = .file

def HasFile (L : List Wound) : Prop := ∃ w ∈ L, w.kind = .file

theorem hasFile_append (L M : List Wound) : HasFile (L ++ M) ↔ HasFile L ∨ HasFile M := by
  unfold HasFile
  constructor
  · rintro ⟨w, hw, hk⟩
    rcases List.mem_append.mp hw with h | h
    · exact Or.inl ⟨w, h, hk⟩
    · exact Or.inr ⟨w, h, hk⟩
  · rintro (⟨w, hw, hk⟩ | ⟨w, hw, hk⟩)
    · exact ⟨w, List.mem_append.mpr (Or.inl hw), hk⟩
    · exact ⟨w, List.mem_append.mpr (Or.inr hw), hk⟩

theorem hasFile_singleton (w : Wound) : HasFile [w] ↔ w.kind = .file := by
  simp [HasFile]

theorem aggStep_lastFile (maxSize : Nat) (a : Agg) (w : Wound) (ha : a.LastFile) :
    (aggStep maxSize a w).LastFile := by
  intro l' hl'
  rcases aggStep_cases maxSize a w with ⟨_, h | h⟩ | ⟨l, hl, hk, h1, h2, _, h | h⟩
  · rw [h.1] at hl'; cases hl'
  · rw [h.1] at hl'; cases hl'; exact h.2
  · rw [h] at hl'; cases hl'
  · rw [h] at hl'; cases hl'
    exact ha l hl

theorem aggStep_hasFile (maxSize : Nat) (a : Agg) (w : Wound) (ha : a.LastFile) :
    HasFile (aggStep maxSize a w).all ↔ HasFile a.all ∨ w.kind = .file := by
  rcases aggStep_cases maxSize a w with ⟨hall, _⟩ | ⟨l, hl, hk, h1, h2, hall, _⟩
  · rw [hall, hasFile_append, hasFile_singleton]
  · rw [hall, hasFile_append, hasFile_singleton]
    have := ha l hl
    simp only [Agg.all, hl, Option.toList_some, hasFile_append, hasFile_singleton]
    simp [this, hk]

theorem foldl_aggStep_hasFile (maxSize : Nat) (ws : List Wound) : ∀ (a : Agg), a.LastFile →
    (HasFile (ws.foldl (aggStep maxSize) a).all ↔ HasFile a.all ∨ HasFile ws) := by
  induction ws with
  | nil => intro a _; simp [HasFile]
  | cons w ws ih =>
    intro a ha
    rw [List.foldl_cons, ih _ (aggStep_lastFile maxSize a w ha), aggStep_hasFile maxSize a w ha,
      show w :: ws = [w] ++ ws from rfl, hasFile_append, hasFile_singleton, or_assoc]

theorem aggregate_hasFile (maxSize : Nat) (ws : List Wound) :
    HasFile (aggregate maxSize ws) ↔ HasFile ws := by
  rw [aggregate_eq, foldl_aggStep_hasFile maxSize ws {} (by intro l h; cases h)]
  simp [HasFile, Agg.all]

/-- Non-file wounds pass straight through. -/
theorem foldl_aggStep_nonfile (maxSize : Nat) (ws : List Wound) : ∀ (out : List Wound),
    (∀ w ∈ ws, w.kind ≠ .file) →
    ws.foldl (aggStep maxSize) ⟨none, out⟩ = ⟨none, out ++ ws⟩ := by
  induction ws with
  | nil => intro out _; simp
  | cons w ws ih =>
    intro out h
    have hk : (w.kind == WKind.file) = false := (WKind.beq_false_iff _ _).mpr (h w (by simp))
    have : aggStep maxSize ⟨none, out⟩ w = ⟨none, out ++ [w]⟩ := by simp [aggStep, hk]
    rw [List.foldl_cons, this, ih _ (fun x hx => h x (by simp [hx]))]
    simp

theorem aggregate_nonfile (maxSize : Nat) (ws : List Wound) (h : ∀ w ∈ ws, w.kind ≠ .file) :
    aggregate maxSize ws = ws := by
  unfold aggregate
  have : ws.foldl (aggStep maxSize) {} = ⟨none, [] ++ ws⟩ := foldl_aggStep_nonfile maxSize ws [] h
  simp [this]

/-! ### sessions and the per-file pass -/

theorem dripSession_single (D : List Byte) :
    dripSession wound bs S fi [D]
      = dripClose wound bs S fi (dripWrite wound bs S fi ⟨[], 0, 0, [], [], false⟩ D) := rfl

theorem wound_session_single (hbs : 0 < bs) (D : List Byte) :
    dripSession true bs S fi [D]
      = ⟨[], 0, (chunks bs D.length D).length, D, markers bs S fi 0 (chunks bs D.length D), false⟩ := by
  rw [dripSession_single, wound_session hbs D.length D 0 [] [] (Nat.le_refl _)]
  simp

theorem fileWounds_file (hbs : 0 < bs) (maxSize : Nat) (D : List Byte) :
    fileWounds bs maxSize S fi (.file D)
      = aggregate maxSize (markers bs S fi 0 (chunks bs D.length D)) ++
          (if D.length ≠ S.length then [⟨.file, fi, min D.length S.length, max D.length S.length⟩] else []) := by
  simp only [fileWounds, wound_session_single hbs]
  split <;> simp

/-- Below the signed block count, markers are `bs` long. -/
theorem marker_stop_inner (hbs : 0 < bs) {j : Nat} (h : j + 1 < Rsync.numBlocks bs S.length) (ok : Bool) :
    (marker bs S fi j ok).stop = (j + 1) * bs := by
  unfold Rsync.numBlocks at h
  have h2 : j + 2 ≤ (S.length + bs - 1) / bs := h
  rw [Nat.le_div_iff_mul_le hbs, Nat.add_mul] at h2
  have hnot : ¬ bs * (j + 1) > S.length := by
    rw [Nat.mul_comm, Nat.succ_mul]; omega
  simp only [marker, Rsync.blockLen, if_neg hnot, Nat.succ_mul]

/-- The last signed block's marker ends at the signed length. -/
theorem marker_stop_last (hbs : 0 < bs) {j : Nat} (h : j + 1 = Rsync.numBlocks bs S.length) (ok : Bool) :
    (marker bs S fi j ok).stop = S.length := by
  unfold Rsync.numBlocks at h
  have h1 : j + 1 ≤ (S.length + bs - 1) / bs := Nat.le_of_eq h
  have h2 : (S.length + bs - 1) / bs < j + 2 := by omega
  rw [Nat.le_div_iff_mul_le hbs, Nat.succ_mul] at h1
  rw [Nat.div_lt_iff_lt_mul hbs, Nat.add_mul] at h2
  simp only [marker, Rsync.blockLen]
  split
  · rename_i hgt
    have hq : S.length / bs = j := by
      apply Nat.div_eq_of_lt_le
      · omega
      · rw [Nat.mul_comm] at hgt; exact hgt
    have := Nat.div_add_mod S.length bs
    rw [hq, Nat.mul_comm] at this
    omega
  · rename_i hgt
    rw [Nat.mul_comm, Nat.succ_mul] at hgt
    omega

/-- Every signed offset at which the disk file deviates is inside a `.file` wound of that file. -/
theorem fileWounds_cover (hbs : 0 < bs) (maxSize : Nat) (D : List Byte) (i : Nat)
    (hi : i < S.length) (hd : D[i]? ≠ S[i]?) :
    ∃ w ∈ fileWounds bs maxSize S fi (.file D), w.kind = .file ∧ w.index = fi ∧ w.start ≤ i ∧ i < w.stop := by
  rw [fileWounds_file hbs]
  by_cases hlt : i < D.length
  · have hc : Cov (markers bs S fi 0 (chunks bs D.length D)) i := by
      have := markers_cover (S := S) (fi := fi) hbs D.length D 0 i (Nat.le_refl _) hlt
        (by simpa using hi) (by simpa using hd)
      simpa [Cov] using this
    have hwf := markers_wf (bs := bs) (S := S) (fi := fi) (chunks bs D.length D) 0
    obtain ⟨w, hw, hk, h1, h2⟩ := aggregate_cov maxSize _ (fun w hw => (hwf w hw).1) i hc
    have hidx := aggregate_all maxSize _ (mergeStable_wf fi) _ hwf w hw
    exact ⟨w, List.mem_append.mpr (Or.inl hw), hk, hidx.2, h1, h2⟩
  · have hne : D.length ≠ S.length := by omega
    refine ⟨⟨.file, fi, min D.length S.length, max D.length S.length⟩, ?_, rfl, rfl, ?_, ?_⟩
    · simp [hne]
    · simp only; omega
    · simp only; omega

theorem fileWounds_length (hbs : 0 < bs) (maxSize : Nat) (D : List Byte) (h : D.length ≠ S.length) :
    ∃ w ∈ fileWounds bs maxSize S fi (.file D), w.kind = .file := by
  rw [fileWounds_file hbs]
  exact ⟨⟨.file, fi, min D.length S.length, max D.length S.length⟩, by simp [h], rfl⟩

/-- Two lists of equal length that are not equal differ at some index. -/
theorem exists_getElem?_ne {D S : List Byte} (hlen : D.length = S.length) (hne : D ≠ S) :
    ∃ i, i < S.length ∧ D[i]? ≠ S[i]? := by
  apply Classical.byContradiction
  intro hno
  apply hne
  apply List.ext_getElem?
  intro i
  by_cases hi : i < S.length
  · apply Classical.byContradiction
    intro hd
    exact hno ⟨i, hi, hd⟩
  · rw [List.getElem?_eq_none (by omega), List.getElem?_eq_none (by omega)]

theorem fileWounds_detects (hbs : 0 < bs) (maxSize : Nat) (D : List Byte) (hne : D ≠ S) :
    ∃ w ∈ fileWounds bs maxSize S fi (.file D), w.kind = .file := by
  by_cases hlen : D.length = S.length
  · obtain ⟨i, hi, hd⟩ := exists_getElem?_ne hlen hne
    obtain ⟨w, hw, hk, _⟩ := fileWounds_cover (fi := fi) hbs maxSize D i hi hd
    exact ⟨w, hw, hk⟩
  · exact fileWounds_length hbs maxSize D hlen

end Wharf.Validate
