/-
  Helper lemmas for Props/C02Kinds.lean: the in-place commit when paths CHANGE KIND between the builds.

  Wharf/Proofs/Commit.lean proves the commit correct under `NKC` (no path changes kind).  Here the same
  conclusion is proved under the weaker `BKC` ("benign kind changes"), which allows
    symlink -> file, dir -> file               (the file being staged or the output of a transposition; whatever
                                                lies below the old directory — repair of F8 (1)/(2)),
    file -> dir                                (the old file not being a transposition source: `BKC.sources`;
                                                Wharf/Proofs/CommitAside.lean removes that restriction — such a
                                                source steps aside first, `moveSourcesAside` — by applying the
                                                lemmas of this file to a virtual old build),
    symlink -> dir,
    file -> symlink, dir -> symlink            (whatever becomes of the old file or of what is below the directory),
  provided a directory that replaces a file or a symlink is listed before the directories below it.

  What changes with respect to Commit.lean:
  * `ensureDir` now really removes what is in the way (`ensureDir_spec'`); the state after `ensureDirs` is
    described by the same `Ensured` as under `NKC` (the new directories are in place, everything else is as in
    the old tree), only it comes about differently (`ensureDirsPhase_spec'`);
  * the transposition phase is reused as it is (`transp_core` only needs: the outputs that do not go through a
    temporary name are `XSlot`s, temporary names are free, sources are still there), with the new file paths that
    are not old directories as soft paths (`Soft`): such an output may land on an old symlink, which `copy` and
    `move` remove first (`Ensured.xslot_of_newfile`); an output that is a directory of the old build gets a
    temporary name, and the cleanup rename removes the directory with all that is left in it (`cleanup_specD`);
  * staged moves may land on a symlink or on a directory, which goes with all that is left in it
    (`stageFold_specD`), so the tree after the moves is described by frames rather than by `SameNF`;
  * `ensureSymlink` now really removes what is in the way too (`ensureSymlink_spec'`: a directory goes with its
    whole subtree).  Since the repair of finding F27 the symlink pass runs AFTER the transpositions, the staged
    moves and the overlays, on a tree in which all new directories and files are in place; it leaves them alone
    because no path of the new build is the path of a new symlink or lies below one (`BWF.not_below_symlink`);
    afterwards there is NOTHING below the new symlinks (`ensureSymlinks_spec'`, `finish_spec'`);
  * ghost deletion meets ghosts whose parent chain is no longer made of directories: they sit below a new
    symlink, and are skipped (`ghostFold_spec`; before the repair of finding F25 they were looked up THROUGH the
    symlink, and the predicate had to make sure that led nowhere).
-/
import Wharf.Proofs.Commit

namespace Wharf.Commit
open Wharf Wharf.FS Wharf.Archive

/-! ### erasing a subtree -/

/-- a present path is plain (its parent chain is made of directories) provided it has no `..` -/
theorem plain_of_get {t : Tree} (hI : TInv t) {p : Path} {n : Node} (hp : p ≠ []) (hdd : ".." ∉ p)
    (hg : t.get p = some n) : Plain t p :=
  ⟨hp, hI.parent _ (get_mem hp hg), fun h => hdd (mem_of_mem_dropLast h)⟩

/-! ### `ensureDirs`, `ensureSymlinks` when something is in the way -/

/-- `ensureDir` on a path whose strict prefixes are directories or missing: whatever the path holds (nothing, a
    directory, a regular file, a symlink), afterwards it and its prefixes are directories and nothing else has
    changed. -/
theorem ensureDir_spec' {t : Tree} (hI : TInv t) {p : Path} (hne : p ≠ []) (hdd : ".." ∉ p)
    (hdn : ∀ j, j < p.length → DirOrNone t (p.take j)) :
    ∃ t', ensureDir t p = .ok t' ∧ TInv t' ∧ (∀ j, IsDir t' (p.take j)) ∧
      (∀ q, (∀ j, q ≠ p.take j) → t'.get q = t.get q) := by
  have hdd' : ".." ∉ p.dropLast := fun h => hdd (mem_of_mem_dropLast h)
  have hlen : p.length ≠ 0 := fun h0 => hne (List.eq_nil_of_length_eq_zero h0)
  -- the case where `p` holds a regular file or a symlink
  have replace : ∀ n, t.get p = some n → n ≠ .dir → lstat t p = .ok n →
      ∃ t', (do let t ← removeAll t p; mkdirs t p) = .ok t' ∧ TInv t' ∧ (∀ j, IsDir t' (p.take j)) ∧
        (∀ q, (∀ j, q ≠ p.take j) → t'.get q = t.get q) := by
    intro n hg hnd _
    have hpl : Plain t p := plain_of_get hI hne hdd hg
    have hndir : t.get p ≠ some .dir := by rw [hg]; simpa using hnd
    have hnu := no_under_of_not_dir hI hndir
    have hI0 : TInv (t.erase p) := hI.erase hne (dropLast_ne_of_no_under hI hnu)
    have hdn0 : ∀ j, DirOrNone (t.erase p) (p.take j) := by
      intro j
      simp only [DirOrNone]
      rw [get_erase hne]
      by_cases hj : j < p.length
      · have : p.take j ≠ p := by
          intro h
          have := congrArg List.length h
          simp only [List.length_take] at this
          omega
        rw [if_neg this]
        left
        have := isDir_take hI hpl.parent j
        rwa [List.dropLast_eq_take, List.take_take, Nat.min_eq_left (by omega)] at this
      · rw [List.take_of_length_le (by omega), if_pos rfl]
        exact Or.inr rfl
    obtain ⟨t', h1, h2, h3, h4⟩ := mkdirs_spec hI0 hdd hdn0
    refine ⟨t', ?_, h2, h3, ?_⟩
    · simp only [removeAll_plain hI hpl, eraseTree_eq_erase hnu, bind, Except.bind, h1]
    · intro q hq
      rw [h4 q hq, get_erase hne, if_neg]
      have := hq p.length
      rwa [List.take_length] at this
  cases h : lstat t p with
  | ok n =>
    have hg := lstat_dirOrNone hdn hdd' h
    cases n with
    | dir =>
      refine ⟨t, by simp only [ensureDir, h], hI, fun j => isDir_take hI hg j, fun _ _ => rfl⟩
    | file d =>
      obtain ⟨t', h1, h2⟩ := replace _ hg (by simp) h
      exact ⟨t', by simp only [ensureDir, h]; exact h1, h2⟩
    | symlink d =>
      obtain ⟨t', h1, h2⟩ := replace _ hg (by simp) h
      exact ⟨t', by simp only [ensureDir, h]; exact h1, h2⟩
  | error e =>
    have hgn : t.get p = none := by
      cases hg : t.get p with
      | none => rfl
      | some n =>
        have := lstat_some hI (plain_of_get hI hne hdd hg) hg
        rw [h] at this
        cases this
    have hdn' : ∀ j, DirOrNone t (p.take j) := by
      intro j
      by_cases hj : j < p.length
      · exact hdn j hj
      · rw [List.take_of_length_le (by omega)]
        exact Or.inr hgn
    obtain ⟨t', h1, h2, h3, h4⟩ := mkdirs_spec hI hdd hdn'
    exact ⟨t', by simp only [ensureDir, h, h1], h2, h3, h4⟩

/-- `D` is a prefix-closed set of clean paths; the directories of `L` are visited in order; a strict prefix of a
    member of `L` that comes later in `L` is a directory or missing (so that only the *topmost* replaced path
    of a chain may hold a file or a symlink when it is reached). -/
theorem ensureDirs_spec' (D : Path → Prop) (hD : ∀ p, D p → ∀ j, 0 < j → D (p.take j))
    (hDne : ∀ p, D p → p ≠ []) (hDdd : ∀ p, D p → ".." ∉ p) :
    ∀ (L : List Path) (t : Tree), TInv t → (∀ p ∈ L, D p) → (∀ q, D q → DirOrNone t q ∨ q ∈ L) →
    L.Pairwise (fun a b => isPrefix b a = true → DirOrNone t b) →
    ∃ t', L.foldlM ensureDir t = .ok t' ∧ TInv t' ∧ (∀ p ∈ L, IsDir t' p) ∧
      (∀ q, ¬ D q → t'.get q = t.get q) ∧ (∀ q, IsDir t q → IsDir t' q) := by
  intro L
  induction L with
  | nil =>
    intro t hI _ _ _
    exact ⟨t, rfl, hI, by simp, fun _ _ => rfl, fun _ h => h⟩
  | cons p L ih =>
    intro t hI hL hdn hpw
    simp only [List.pairwise_cons] at hpw
    have hDp := hL p (by simp)
    have hdnp : ∀ j, j < p.length → DirOrNone t (p.take j) := by
      intro j hj
      by_cases hj0 : j = 0
      · subst hj0; left; simp [get_nil]
      · rcases hdn _ (hD p hDp j (by omega)) with h | h
        · exact h
        · simp only [List.mem_cons] at h
          rcases h with h | h
          · have := congrArg List.length h
            simp only [List.length_take] at this
            omega
          · exact hpw.1 _ h (isPrefix_take hj)
    obtain ⟨t1, h1, hI1, hd1, hf1⟩ := ensureDir_spec' hI (hDne p hDp) (hDdd p hDp) hdnp
    have hmono : ∀ q, DirOrNone t q → DirOrNone t1 q := by
      intro q hq
      by_cases hex : ∃ j, q = p.take j
      · obtain ⟨j, rfl⟩ := hex
        exact Or.inl (hd1 j)
      · have := hf1 q (fun j hj => hex ⟨j, hj⟩)
        simp only [DirOrNone, this]
        exact hq
    have hmonoD : ∀ q, IsDir t q → IsDir t1 q := by
      intro q hq
      by_cases hex : ∃ j, q = p.take j
      · obtain ⟨j, rfl⟩ := hex
        exact hd1 j
      · have := hf1 q (fun j hj => hex ⟨j, hj⟩)
        simp only [IsDir, this]
        exact hq
    have hout : ∀ q, ¬ D q → t1.get q = t.get q := by
      intro q hq
      by_cases hex : ∃ j, q = p.take j
      · obtain ⟨j, rfl⟩ := hex
        by_cases hj : j = 0
        · subst hj; simp [get_nil]
        · exact absurd (hD p hDp j (by omega)) hq
      · exact hf1 q (fun j hj => hex ⟨j, hj⟩)
    obtain ⟨t', h2, hI2, hd2, hf2, hm2⟩ := ih t1 hI1 (fun q hq => hL q (by simp [hq]))
      (by
        intro q hq
        rcases hdn q hq with h | h
        · exact Or.inl (hmono q h)
        · simp only [List.mem_cons] at h
          rcases h with h | h
          · left; left
            have := hd1 p.length
            rwa [List.take_length, ← h] at this
          · exact Or.inr h)
      (hpw.2.imp (fun h hab => hmono _ (h hab)))
    refine ⟨t', by simp only [List.foldlM_cons, bind, Except.bind, h1, h2], hI2, ?_, ?_, ?_⟩
    · intro q hq
      simp only [List.mem_cons] at hq
      rcases hq with rfl | hq
      · apply hm2
        have := hd1 q.length
        rwa [List.take_length] at this
      · exact hd2 q hq
    · intro q hq
      rw [hf2 q hq, hout q hq]
    · intro q hq
      exact hm2 q (hmonoD q hq)

/-- `ensureSymlink` on a plain path, whatever it holds: afterwards the symlink is there, nothing is below it,
    and nothing else has changed.  (A directory in the way goes with its whole subtree.) -/
theorem ensureSymlink_spec' {t : Tree} (hI : TInv t) {p : Path} (hp : Plain t p) (dest : String) :
    ∃ t', ensureSymlink t p dest = .ok t' ∧ TInv t' ∧
      ∀ q, t'.get q = if q = p then some (.symlink dest) else if isPrefix p q = true then none else t.get q := by
  -- the case where `p` holds a regular file or a directory
  have replace : ∀ n, t.get p = some n → (∀ d, n ≠ .symlink d) →
      ∃ t', ensureSymlink t p dest = .ok t' ∧ TInv t' ∧
        ∀ q, t'.get q = if q = p then some (.symlink dest) else if isPrefix p q = true then none else t.get q := by
    intro n hg hns
    have hl := lstat_some hI hp hg
    have hI0 : TInv (t.eraseTree p) := tinv_eraseTree hI hp.ne
    have hg0 : (t.eraseTree p).get p = none := by rw [get_eraseTree hp.ne, if_pos (Or.inl rfl)]
    have hp0 : Plain (t.eraseTree p) p := by
      refine ⟨hp.ne, ?_, hp.nodd⟩
      simp only [IsDir]
      rw [get_eraseTree hp.ne, if_neg]
      · exact hp.parent
      · rintro (h | h)
        · exact hp.dropLast_ne h
        · have h1 := isPrefix_dropLast_self hp.ne
          have h2 := isPrefix_trans h h1
          rw [isPrefix_iff] at h2
          omega
    have hl0 := lstat_none hI0 hp0 hg0
    have hr : readlink (t.eraseTree p) p = .error .enoent := by simp only [readlink, hl0, bind, Except.bind]
    refine ⟨(t.eraseTree p).set p (.symlink dest), ?_, hI0.set hp.ne hp0.parent (Or.inl (by rw [hg0]; simp)), ?_⟩
    · cases n with
      | symlink d => exact absurd rfl (hns d)
      | file d =>
        simp only [ensureSymlink, hl, removeAll_plain hI hp, bind, Except.bind, hr, symlink_plain hI0 hp0 hg0]
        rfl
      | dir =>
        simp only [ensureSymlink, hl, removeAll_plain hI hp, bind, Except.bind, hr, symlink_plain hI0 hp0 hg0]
        rfl
    · intro q
      rw [get_set _ hp.ne, get_eraseTree hp.ne]
      by_cases hq : q = p
      · simp [hq]
      · by_cases hq2 : isPrefix p q = true
        · simp [hq, hq2]
        · simp [hq, hq2]
  cases hg : t.get p with
  | none =>
    obtain ⟨t', h1, h2, h3⟩ := ensureSymlink_spec hI hp dest (Or.inl hg)
    refine ⟨t', h1, h2, ?_⟩
    intro q
    rw [h3]
    by_cases hq : q = p
    · simp [hq]
    · simp only [if_neg hq]
      by_cases hq2 : isPrefix p q = true
      · rw [if_pos hq2]
        exact get_none_under_nondir hI (by rw [hg]; simp) hq2
      · rw [if_neg hq2]
  | some n =>
    cases n with
    | symlink d' =>
      obtain ⟨t', h1, h2, h3⟩ := ensureSymlink_spec hI hp dest (Or.inr ⟨d', hg⟩)
      refine ⟨t', h1, h2, ?_⟩
      intro q
      rw [h3]
      by_cases hq : q = p
      · simp [hq]
      · simp only [if_neg hq]
        by_cases hq2 : isPrefix p q = true
        · rw [if_pos hq2]
          exact get_none_under_nondir hI (by rw [hg]; simp) hq2
        · rw [if_neg hq2]
    | file d => exact replace _ hg (by simp)
    | dir => exact replace _ hg (by simp)

theorem ensureSymlinks_spec' : ∀ (L : List (Path × String)) (t : Tree), TInv t →
    (L.map (·.1)).Nodup → (∀ e ∈ L, ∀ e' ∈ L, isPrefix e.1 e'.1 = false) → (∀ e ∈ L, Plain t e.1) →
    ∃ t', L.foldlM (fun t (p, d) => ensureSymlink t p d) t = .ok t' ∧ TInv t' ∧
      (∀ e ∈ L, t'.get e.1 = some (.symlink e.2)) ∧
      (∀ q, q ∉ L.map (·.1) → t'.get q = if ∃ e ∈ L, isPrefix e.1 q = true then none else t.get q) := by
  intro L
  induction L with
  | nil =>
    intro t hI _ _ _
    exact ⟨t, rfl, hI, by simp, by simp⟩
  | cons e L ih =>
    intro t hI hnd hnp hL
    obtain ⟨p, d⟩ := e
    simp only [List.map_cons, List.nodup_cons] at hnd
    have hp := hL (p, d) (by simp)
    obtain ⟨t1, h1, hI1, hf1⟩ := ensureSymlink_spec' hI hp d
    have hne_of : ∀ e ∈ L, e.1 ≠ p := by
      intro e he h
      apply hnd.1
      rw [← h]
      exact List.mem_map.mpr ⟨e, he, rfl⟩
    have hL1 : ∀ e ∈ L, Plain t1 e.1 := by
      intro e he
      have hpe := hL e (by simp [he])
      have hnp1 : isPrefix p e.1 = false := hnp (p, d) (by simp) e (by simp [he])
      refine ⟨hpe.ne, ?_, hpe.nodd⟩
      simp only [IsDir]
      rw [hf1, if_neg, if_neg]
      · exact hpe.parent
      · intro h
        rw [isPrefix_of_dropLast h] at hnp1
        cases hnp1
      · intro h
        have := isPrefix_dropLast_self hpe.ne
        rw [h, hnp1] at this
        cases this
    obtain ⟨t', h2, hI2, ha2, hf2⟩ := ih t1 hI1 hnd.2
      (fun a ha b hb => hnp a (by simp [ha]) b (by simp [hb])) hL1
    refine ⟨t', by simp only [List.foldlM_cons, bind, Except.bind, h1, h2], hI2, ?_, ?_⟩
    · intro e he
      simp only [List.mem_cons] at he
      rcases he with rfl | he
      · rw [hf2 _ hnd.1, if_neg, hf1]
        · simp
        · rintro ⟨e', he', hpre⟩
          have := hnp e' (by simp [he']) (p, d) (by simp)
          rw [hpre] at this
          cases this
      · exact ha2 e he
    · intro q hq
      simp only [List.map_cons, List.mem_cons, not_or] at hq
      rw [hf2 q hq.2, hf1, if_neg hq.1]
      by_cases hq1 : ∃ e ∈ L, isPrefix e.1 q = true
      · obtain ⟨e, he, hpre⟩ := hq1
        rw [if_pos ⟨e, he, hpre⟩, if_pos ⟨e, by simp [he], hpre⟩]
      · rw [if_neg hq1]
        by_cases hq2 : isPrefix p q = true
        · rw [if_pos hq2, if_pos ⟨(p, d), by simp, hq2⟩]
        · rw [if_neg hq2, if_neg]
          rintro ⟨e, he, hpre⟩
          simp only [List.mem_cons] at he
          rcases he with rfl | he
          · exact hq2 hpre
          · exact hq1 ⟨e, he, hpre⟩

/-! ### benign kind changes -/

/-- Benign kind changes (mirror of `C02.BenignKindChanges`).  Since the repair of finding F27 (the new symlinks
    are put in place after the transpositions, the staged moves and the overlays) nothing is asked of a path that
    becomes a symlink: what stood there, and below it, is still in place while the files are renamed and copied,
    and goes away afterwards. -/
structure BKC (old new : Build) (w : Work) : Prop where
  /-- file → dir: the old file is not a transposition source (it is cleared by `ensureDirs`, which runs first) -/
  sources : ∀ p ∈ srcsOf old new w, p ∉ new.dirs
  /-- file → dir, symlink → dir: the replaced path is listed before the new directories below it -/
  dirOrder : new.dirs.Pairwise (fun a b => isPrefix b a = true →
    b ∉ old.files.map (·.1) ∧ b ∉ old.symlinks.map (·.1))

/-- no path of a build lies below one of its symlinks -/
theorem BWF.not_below_symlink {b : Build} (h : BWF b) {p : Path} (hp : p ∈ pathsOf b) {e : Path × String}
    (he : e ∈ b.symlinks) : isPrefix e.1 p = false := by
  cases hh : isPrefix e.1 p with
  | false => rfl
  | true =>
    have hes : e.1 ∈ b.symlinks.map (·.1) := List.mem_map.mpr ⟨e, he, rfl⟩
    have := h.prefix_mem_dirs hp (h.ne (mem_pathsOf.mpr (Or.inr (Or.inl hes)))) hh
    exact absurd hes (h.dir_not_symlink this)

theorem srcsOf_old {old new : Build} {w : Work} {p : Path} (h : p ∈ srcsOf old new w) :
    p ∈ old.files.map (·.1) := by
  obtain ⟨tr, htr, rfl⟩ := mem_srcsOf.mp h
  obtain ⟨st, _, d, d', _, e2⟩ := mem_tsOf.mp htr
  exact List.mem_map.mpr ⟨_, List.mem_of_getElem? e2, rfl⟩

theorem tsOf_new {old new : Build} {w : Work} {tr : Transpo} (h : tr ∈ tsOf old new w) :
    tr.outputPath ∈ new.files.map (·.1) := by
  obtain ⟨st, _, d, d', e1, _⟩ := mem_tsOf.mp h
  exact List.mem_map.mpr ⟨_, List.mem_of_getElem? e1, rfl⟩

/-! ### the state after `ensureDirs`, with kind changes

  The state is described by `Ensured` (Wharf/Proofs/Commit.lean) as under `NKC`: the new directories are in
  place, everything else is as in the old tree.  What differs is how it comes about — an old file or symlink
  standing where a new directory goes is removed (`ensureDirs_spec'`, which needs `dirOrder`). -/

/-- on any tree that holds exactly the old build (`t₀.get = (treeOfBuild old).get`) -/
theorem ensureDirsPhase_specT {old new : Build} (ho : BWF old) (hn : BWF new)
    (hord : new.dirs.Pairwise (fun a b => isPrefix b a = true →
      b ∉ old.files.map (·.1) ∧ b ∉ old.symlinks.map (·.1)))
    {t₀ : Tree} (hI0 : TInv t₀) (hg0 : ∀ q, t₀.get q = (treeOfBuild old).get q) :
    ∃ t₁, new.dirs.foldlM ensureDir t₀ = .ok t₁ ∧ Ensured new (treeOfBuild old) t₁ := by
  obtain ⟨td, h1, hId, hdd, hfd, _⟩ := ensureDirs_spec' (· ∈ new.dirs)
    (fun p hp j hj => take_mem_dirs hn hp hj)
    (fun p hp => hn.ne (mem_pathsOf.mpr (Or.inl hp)))
    (fun p hp => hn.nodd (mem_pathsOf.mpr (Or.inl hp))) new.dirs t₀ hI0
    (fun _ h => h) (fun q hq => Or.inr hq)
    (hord.imp_of_mem (by
      intro a b _ hb h hpre
      obtain ⟨h1, h2⟩ := h hpre
      simp only [DirOrNone, hg0]
      by_cases hbo : b ∈ pathsOf old
      · rcases mem_pathsOf.mp hbo with h | h | h
        · exact Or.inl (get_dir_treeOfBuild ho h)
        · exact absurd h h2
        · exact absurd h h1
      · exact Or.inr (get_none_treeOfBuild (hn.ne (mem_pathsOf.mpr (Or.inl hb))) hbo)))
  exact ⟨td, h1, hId, hdd, fun q hq => (hfd q hq).trans (hg0 q)⟩

theorem ensureDirsPhase_spec' {old new : Build} (ho : BWF old) (hn : BWF new)
    (hord : new.dirs.Pairwise (fun a b => isPrefix b a = true →
      b ∉ old.files.map (·.1) ∧ b ∉ old.symlinks.map (·.1))) :
    ∃ t₁, new.dirs.foldlM ensureDir (treeOfBuild old) = .ok t₁ ∧ Ensured new (treeOfBuild old) t₁ :=
  ensureDirsPhase_specT ho hn hord (tinv_treeOfBuild ho) (fun _ => rfl)

/-- a transposition source is still there, with its old content, after `ensureDirs`: it has not become a
    directory (`sources`), and the directories above it are still directories -/
theorem Ensured.oldFile' {old new : Build} {w : Work} (ho : BWF old) (hb : BKC old new w)
    {t₁ : Tree} (he : Ensured new (treeOfBuild old) t₁) {p : Path} {d : List Byte}
    (hs : p ∈ srcsOf old new w) (hp : (p, d) ∈ old.files) :
    Plain t₁ p ∧ t₁.get p = some (.file d) := by
  have hpf : p ∈ old.files.map (·.1) := List.mem_map.mpr ⟨_, hp, rfl⟩
  have hpo : p ∈ pathsOf old := mem_pathsOf.mpr (Or.inr (Or.inr hpf))
  refine ⟨⟨ho.ne hpo, ?_, fun h => ho.nodd hpo (mem_of_mem_dropLast h)⟩, ?_⟩
  · rcases ho.parent_mem hpo with h0 | h0
    · rw [h0]; exact isDir_nil _
    · exact he.oldDir ho h0
  · rw [he.other p (hb.sources p hs)]
    exact get_file_treeOfBuild ho hp

/-! ### the destinations of the transposition phase

  The second pass only writes to temporary names and to outputs that are NOT directories of the old build (an
  output that is one goes through a temporary name since the repair of F8 (1)/(2)): `XSlot`s, the soft paths
  being the new file paths that are not old directories (`Soft`).  The old directories — with the transposition
  sources below them — stay as they are until the cleanup renames, which `transp_core` handles with
  `cleanup_specD`. -/

/-- the soft paths of the second pass: new file paths that are not directories of the old build -/
def Soft (old new : Build) (q : Path) : Prop := q ∈ new.files.map (·.1) ∧ q ∉ old.dirs

/-- a new file path that is not an old directory is a place where `copy` and `move` can put the file, whatever the
    old build had there: nothing, a regular file, a symlink -/
theorem Ensured.xslot_of_newfile {old new : Build} (ho : BWF old) (hn : BWF new)
    {t₁ : Tree} (he : Ensured new (treeOfBuild old) t₁) {p : Path} (hp : p ∈ new.files.map (·.1))
    (hnd : p ∉ old.dirs) : XSlot (Soft old new) t₁ p := by
  have hpn : p ∈ pathsOf new := mem_pathsOf.mpr (Or.inr (Or.inr hp))
  refine ⟨⟨he.plain_of_new hn hpn, fun s hs => hn.not_below_file hpn hs.1⟩, Or.inr ⟨hp, hnd⟩, ?_⟩
  intro q hq
  have hq0 : q ≠ [] := by
    intro h0; subst h0; simp [isPrefix] at hq
  have hqn : q ∉ pathsOf new := by
    intro hqn
    have := hn.not_below_file hqn hp
    rw [hq] at this
    cases this
  have hqo : q ∉ pathsOf old := fun hqo => hnd (ho.prefix_mem_dirs hqo (hn.ne hpn) hq)
  rw [he.other q (fun h => hqn (mem_pathsOf.mpr (Or.inl h)))]
  exact get_none_treeOfBuild hq0 hqo

theorem Ensured.xslot_of_temp {old new : Build} (hn : BWF new) {t₁ : Tree}
    (he : Ensured new (treeOfBuild old) t₁) {p : Path} (hp : p ∈ new.files.map (·.1)) {k : Nat}
    (hnot : seedName p k ∉ pathsOf old ++ pathsOf new) :
    XSlot (Soft old new) t₁ (seedName p k) ∧ t₁.get (seedName p k) = none := by
  have hpn : p ∈ pathsOf new := mem_pathsOf.mpr (Or.inr (Or.inr hp))
  have hne := hn.ne hpn
  obtain ⟨hsl, hg⟩ := he.slot_of_temp hn hp hnot
  refine ⟨⟨⟨hsl.toPlain, ?_⟩, Or.inl hsl.nofile, ?_⟩, hg⟩
  · -- a temporary name sits next to a new file, hence not below another one
    intro s hs
    cases hh : isPrefix s (seedName p k) with
    | false => rfl
    | true =>
      exfalso
      have hsp : isPrefix s p = true := by
        rcases isPrefix_cases hh with h | h
        · rw [h, seedName_dropLast hne]
          exact isPrefix_dropLast_self hne
        · rw [seedName_dropLast hne] at h
          exact isPrefix_of_dropLast h
      have := hn.not_below_file hpn hs.1
      rw [hsp] at this
      cases this
  · intro q hq
    exact get_none_under_nondir he.inv (by rw [hg]; simp) hq

/-- a transposition source is not below a soft path: what is above it is a directory of the old build -/
theorem Ensured.xplain_of_src {old new : Build} {w : Work} (ho : BWF old) (hn : BWF new) (hb : BKC old new w)
    {t₁ : Tree} (he : Ensured new (treeOfBuild old) t₁) {p : Path} {d : List Byte}
    (hs : p ∈ srcsOf old new w) (hp : (p, d) ∈ old.files) :
    XPlain (Soft old new) t₁ p ∧ t₁.get p = some (.file d) := by
  obtain ⟨hpl, hg⟩ := he.oldFile' ho hb hs hp
  have hpo : p ∈ pathsOf old := mem_pathsOf.mpr (Or.inr (Or.inr (List.mem_map.mpr ⟨_, hp, rfl⟩)))
  refine ⟨⟨hpl, ?_⟩, hg⟩
  intro s hsf
  cases hh : isPrefix s p with
  | false => rfl
  | true =>
    exact absurd (ho.prefix_mem_dirs hpo (hn.ne (mem_pathsOf.mpr (Or.inr (Or.inr hsf.1)))) hh) hsf.2

/-! ### transpositions -/

/-- the tree after the transposition phase, relative to the tree `t₁` after `ensureDirs` -/
structure Transposed' (old new : Build) (w : Work) (t₁ t₂ : Tree) : Prop where
  inv : TInv t₂
  /-- outside the new file paths and what is below them only regular files have changed -/
  same : ∀ q, q ∉ new.files.map (·.1) → (∀ f ∈ new.files.map (·.1), isPrefix f q = false) →
    nf (t₂.get q) = nf (t₁.get q)
  outputs : ∀ st ∈ w.transpositions, ∀ p d, new.files[st.1]? = some (p, d) → t₂.get p = some (.file d)
  overlays : ∀ i ∈ w.overlayFiles, ∀ p d, new.files[i]? = some (p, d) → ∃ d', t₂.get p = some (.file d')
  frame : ∀ q, q ∉ srcsOf old new w → (∀ tr ∈ tsOf old new w, tr.outputPath ≠ q) →
    (∀ f ∈ new.files.map (·.1), isPrefix f q = false) → t₂.get q = t₁.get q
  /-- a source that is not a path of the new build and does not look like a temporary name is gone -/
  consumed : ∀ p ∈ srcsOf old new w, p ∉ pathsOf new →
    (∀ tr ∈ tsOf old new w, ∀ k, seedName tr.outputPath k ≠ p) →
    (∀ f ∈ new.files.map (·.1), isPrefix f p = false) → t₂.get p = none

theorem transpositions_spec' {old new : Build} {w : Work} (ho : BWF old) (hn : BWF new) (hb : BKC old new w)
    (hw : WOK old new w) {o₁ o₂ : List Path}
    (h₁ : o₁.Perm (srcsOf old new w)) (h₂ : o₂.Perm (srcsOf old new w)) {t₁ : Tree}
    (he : Ensured new (treeOfBuild old) t₁) :
    ∃ t₂, applyTranspositions old new w o₁ o₂ t₁ = .ok t₂ ∧ Transposed' old new w t₁ t₂ := by
  have hT2 : ∀ tr ∈ tsOf old new w, ∃ d, (tr.targetPath, d) ∈ old.files ∧ (tr.outputPath, d) ∈ new.files := by
    intro tr htr
    obtain ⟨st, hst, d, d', e1, e2⟩ := mem_tsOf.mp htr
    obtain ⟨np, op, d2, f1, f2⟩ := hw.transp st hst
    rw [e1] at f1
    rw [e2] at f2
    cases f1
    cases f2
    exact ⟨d, List.mem_of_getElem? e2, List.mem_of_getElem? e1⟩
  have hov : ∀ p ∈ ovPaths new w, ∀ tr ∈ tsOf old new w,
      tr.outputPath ≠ p ∧ isPrefix tr.outputPath p = false := by
    intro p hp tr htr
    simp only [ovPaths, List.mem_filterMap, Option.map_eq_some_iff] at hp
    obtain ⟨i, hi, e, hie, rfl⟩ := hp
    constructor
    · intro hpp
      obtain ⟨st, hst, d, d', e1, _⟩ := mem_tsOf.mp htr
      have : st.1 = i := hn.filesInj _ _ _ _ _ _ e1 (by rw [hie]) hpp
      exact (hw.excl₁ i (this ▸ List.mem_map.mpr ⟨st, hst, rfl⟩)).1 hi
    · exact hn.not_below_file
        (mem_pathsOf.mpr (Or.inr (Or.inr (List.mem_map.mpr ⟨e, List.mem_of_getElem? hie, rfl⟩))))
        (tsOf_new htr)
  -- an output that does not go through a temporary name is not a directory of the old build
  have hnd : ∀ tr ∈ tsOf old new w, ¬ Clash (srcsOf old new w ++ old.dirs) tr → tr.outputPath ∉ old.dirs := by
    intro tr htr hc hd
    by_cases hno : tr.targetPath = tr.outputPath
    · obtain ⟨d, h, _⟩ := hT2 tr htr
      exact ho.dir_not_file hd (hno ▸ List.mem_map.mpr ⟨_, h, rfl⟩)
    · exact hc ⟨hno, List.mem_append.mpr (Or.inr hd)⟩
  obtain ⟨t₂, a1, a2, a3, a4, a5, a6, a7⟩ := transp_core ho hn (Soft old new) (tsOf old new w)
    (srcsOf old new w) old.dirs o₁ o₂
    (ovPaths new w) (tsOf_outputs_nodup hn hw) hT2 (fun _ => mem_srcsOf)
    (h₁.nodup_iff.mpr (srcsOf_nodup old new w)) (fun _ => h₁.mem_iff)
    (h₂.nodup_iff.mpr (srcsOf_nodup old new w)) (fun _ => h₂.mem_iff) hov he.inv
    (fun _ h => h.1) he.dirs
    (fun tr htr hc => he.xslot_of_newfile ho hn (tsOf_new htr) (hnd tr htr hc))
    (fun tr htr k hfr => he.xslot_of_temp hn (tsOf_new htr) hfr)
    (fun p hp d hmem => he.xplain_of_src ho hn hb hp hmem)
  refine ⟨t₂, by rw [applyTranspositions_eq]; exact a1, a2, ?_, ?_, ?_, ?_, ?_⟩
  · intro q hqf hqb
    exact a3 q (fun h => hqf h.1) (fun tr htr _ => ⟨fun h => hqf (h ▸ tsOf_new htr), hqb _ (tsOf_new htr)⟩)
  · intro st hst p d hf
    obtain ⟨np, op, d2, f1, f2⟩ := hw.transp st hst
    rw [hf] at f1
    cases f1
    have htr : ({ targetPath := op, outputPath := p } : Transpo) ∈ tsOf old new w :=
      mem_tsOf.mpr ⟨st, hst, d, d, hf, f2⟩
    exact a4 _ htr d (List.mem_of_getElem? hf)
  · intro i hi p d hf
    obtain ⟨p', d', f1, f2⟩ := hw.overlay i hi
    rw [hf] at f1
    cases f1
    have hp : p ∈ ovPaths new w := by
      simp only [ovPaths, List.mem_filterMap, Option.map_eq_some_iff]
      exact ⟨i, hi, (p, d), hf, rfl⟩
    have hpf : p ∈ new.files.map (·.1) := List.mem_map.mpr ⟨_, mem_files_of_getElem? hf, rfl⟩
    obtain ⟨e, he1, he2⟩ := List.mem_map.mp f2
    refine ⟨e.2, ?_⟩
    rw [a5 p hp f2, he.other p (fun h => hn.dir_not_file h hpf), ← he2]
    exact get_file_treeOfBuild ho (p := e.1) (d := e.2) he1
  · intro q hqs hqo hqb
    exact a6 q hqs hqo (fun tr htr _ => hqb _ (tsOf_new htr))
  · intro p hp hpn hsd hpb
    apply a7 p hp _ hpn hsd (fun tr htr => hpb _ (tsOf_new htr))
    cases hh : (ovPaths new w).contains p with
    | false => rfl
    | true =>
      exfalso
      have hp' := List.contains_iff_mem.mp hh
      simp only [ovPaths, List.mem_filterMap, Option.map_eq_some_iff] at hp'
      obtain ⟨i, _, e, hie, rfl⟩ := hp'
      exact hpn (mem_pathsOf.mpr (Or.inr (Or.inr (List.mem_map.mpr ⟨e, List.mem_of_getElem? hie, rfl⟩))))

/-! ### staged moves onto whatever stands there -/

/-- the staged moves: each file goes where it belongs, whatever stands there (a directory goes with all that is
    below it); nothing else changes -/
theorem stageFold_specD {new : Build} (hinj : FilesInj new) : ∀ (L : List Nat) (t : Tree), TInv t →
    L.Nodup →
    (∀ i ∈ L, ∃ p d, new.files[i]? = some (p, d) ∧ Plain t p) →
    (∀ i ∈ L, ∀ j ∈ L, ∀ p d p' d', new.files[i]? = some (p, d) → new.files[j]? = some (p', d') →
      isPrefix p p' = false) →
    ∃ t', L.foldlM (stageStep new) t = .ok t' ∧ TInv t' ∧
      (∀ i ∈ L, ∀ p d, new.files[i]? = some (p, d) → t'.get p = some (.file d)) ∧
      (∀ q, (∀ i ∈ L, ∀ p d, new.files[i]? = some (p, d) → q ≠ p ∧ isPrefix p q = false) →
        t'.get q = t.get q) := by
  intro L
  induction L with
  | nil =>
    intro t hI _ _ _
    exact ⟨t, rfl, hI, by simp, fun _ _ => rfl⟩
  | cons i L ih =>
    intro t hI hnd hL hnp
    simp only [List.nodup_cons] at hnd
    obtain ⟨p, d, hf, hp⟩ := hL i (by simp)
    obtain ⟨t1, h1, hI1, hg1⟩ := stageStep_specD hI hf hp
    have hkeep : ∀ q, q ≠ p → isPrefix p q = false → t1.get q = t.get q := by
      intro q h1 h2
      rw [hg1, if_neg h1, if_neg (by rw [h2]; simp)]
    obtain ⟨t', h2, hI2, ha2, hf2⟩ := ih t1 hI1 hnd.2 (by
      intro j hj
      obtain ⟨p', d', hf', hp'⟩ := hL j (by simp [hj])
      have hpp' : isPrefix p p' = false := hnp i (by simp) j (by simp [hj]) _ _ _ _ hf hf'
      refine ⟨p', d', hf', ⟨hp'.ne, ?_, hp'.nodd⟩⟩
      simp only [IsDir]
      rw [hkeep]
      · exact hp'.parent
      · intro h
        have := isPrefix_dropLast_self hp'.ne
        rw [h, hpp'] at this
        cases this
      · cases hh : isPrefix p p'.dropLast with
        | false => rfl
        | true => rw [isPrefix_of_dropLast hh] at hpp'; cases hpp')
      (fun a ha b hb => hnp a (by simp [ha]) b (by simp [hb]))
    refine ⟨t', by simp only [List.foldlM_cons, bind, Except.bind, h1, h2], hI2, ?_, ?_⟩
    · intro j hj p' d' hf'
      simp only [List.mem_cons] at hj
      rcases hj with rfl | hj
      · rw [hf] at hf'
        cases hf'
        rw [hf2, hg1, if_pos rfl]
        intro k hk p2 d2 hf2'
        refine ⟨?_, hnp k (by simp [hk]) j (by simp) _ _ _ _ hf2' hf⟩
        intro hpp
        have := hinj _ _ _ _ _ _ hf hf2' hpp
        subst this
        exact hnd.1 hk
      · exact ha2 j hj p' d' hf'
    · intro q hq
      obtain ⟨q1, q2⟩ := hq i (by simp) p d hf
      rw [hf2 q (fun j hj => hq j (by simp [hj])), hkeep q q1 q2]

/-! ### putting the phases after the transpositions together -/

/-- the phases between the transpositions and ghost deletion: the new build is in place, the ghosts are as
    `deleteGhosts` needs them (`PreGhost`); a path outside the new build that held nothing after the
    transpositions still holds nothing -/
theorem finish_pre' {old new : Build} {w : Work} (ho : BWF old) (hn : BWF new)
    (hw : WOK old new w) {t₁ t₂ : Tree} (he : Ensured new (treeOfBuild old) t₁)
    (ht : Transposed' old new w t₁ t₂) :
    ∃ t₃ t₄ t₅, applyMoves new w t₂ = .ok t₃ ∧ applyOverlays new w t₃ = .ok t₄ ∧
      new.symlinks.foldlM (fun t (p, d) => ensureSymlink t p d) t₄ = .ok t₅ ∧
      PreGhost old new t₅ ∧ (∀ q, q ∉ pathsOf new → t₂.get q = none → t₅.get q = none) := by
  have hinj := hn.filesInj
  have hfile_mem : ∀ {i : Nat} {p : Path} {d : List Byte}, new.files[i]? = some (p, d) →
      p ∈ new.files.map (·.1) := fun hf => List.mem_map.mpr ⟨_, mem_files_of_getElem? hf, rfl⟩
  -- "not below a new file": true of every path of the new build
  have hnbf : ∀ p ∈ pathsOf new, ∀ f ∈ new.files.map (·.1), isPrefix f p = false :=
    fun p hp f hf => hn.not_below_file hp hf
  -- an output of a transposition is a new file path, a source is an old one
  have hout_ne : ∀ q, q ∉ new.files.map (·.1) → ∀ tr ∈ tsOf old new w, tr.outputPath ≠ q :=
    fun q hq tr htr h => hq (h ▸ tsOf_new htr)
  -- what `t₁` holds outside the new build
  have h1_other : ∀ q, q ∉ pathsOf new → t₁.get q = (treeOfBuild old).get q :=
    fun q hq => he.other q (fun h => hq (mem_pathsOf.mpr (Or.inl h)))
  -- a new directory is still a directory after the transpositions
  have hdir2 : ∀ q ∈ new.dirs, t₂.get q = some .dir := by
    intro q hq
    have := ht.same q (hn.dir_not_file hq) (hnbf q (mem_pathsOf.mpr (Or.inl hq)))
    rw [he.dirs q hq] at this
    exact nf_eq_dir.mp this
  -- a new path is still plain after the transpositions: its parent is a new directory
  have hplain2 : ∀ p ∈ pathsOf new, Plain t₂ p := by
    intro p hpn
    have h1 := he.plain_of_new hn hpn
    refine ⟨h1.ne, ?_, h1.nodd⟩
    rcases hn.parent_mem hpn with h0 | h0
    · rw [h0]; exact isDir_nil _
    · exact hdir2 _ h0
  -- staged moves: whatever stands where a staged file goes gives way — a directory of the old build with all
  -- that is left below it (`os.RemoveAll`): nothing of the new build is below a new file path
  obtain ⟨t₃, h3, hI3, ha3, hf3⟩ := stageFold_specD hinj w.moveFiles t₂ ht.inv hw.nodupM (by
    intro i hi
    obtain ⟨p, d, hf, _⟩ := hw.move i hi
    exact ⟨p, d, hf, hplain2 p (mem_pathsOf.mpr (Or.inr (Or.inr (hfile_mem hf))))⟩) (by
    intro i _ j _ p d p' d' hf hf'
    exact hn.not_below_file (mem_pathsOf.mpr (Or.inr (Or.inr (hfile_mem hf')))) (hfile_mem hf))
  have h23 : ∀ q, q ∉ new.files.map (·.1) → (∀ f ∈ new.files.map (·.1), isPrefix f q = false) →
      t₃.get q = t₂.get q := by
    intro q hq hqb
    apply hf3
    intro i _ p d hf
    exact ⟨fun hqp => hq (hqp ▸ hfile_mem hf), hqb p (hfile_mem hf)⟩
  have hdir3 : ∀ q ∈ new.dirs, t₃.get q = some .dir := by
    intro q hq
    rw [h23 q (hn.dir_not_file hq) (hnbf q (mem_pathsOf.mpr (Or.inl hq)))]
    exact hdir2 q hq
  -- a new file that is not staged is left alone by the staged moves
  have h23f : ∀ i p d, new.files[i]? = some (p, d) → i ∉ w.moveFiles → t₃.get p = t₂.get p := by
    intro i p d hf hi
    apply hf3
    intro j hj p' d' hf'
    refine ⟨?_, hn.not_below_file (mem_pathsOf.mpr (Or.inr (Or.inr (hfile_mem hf)))) (hfile_mem hf')⟩
    intro hpp
    have := hinj _ _ _ _ _ _ hf hf' hpp
    subst this
    exact hi hj
  -- overlays
  obtain ⟨t₄, h4, hI4, hnf4, ha4, hf4⟩ := overlayFold_spec hinj w.overlayFiles t₃ hI3 hw.nodupO (by
    intro i hi
    obtain ⟨p, d, hf, _⟩ := hw.overlay i hi
    have hp : p ∈ new.files.map (·.1) := hfile_mem hf
    have hpn : p ∈ pathsOf new := mem_pathsOf.mpr (Or.inr (Or.inr hp))
    obtain ⟨d', hd'⟩ := ht.overlays i hi p d hf
    refine ⟨p, d, d', hf, ⟨hn.ne hpn, ?_, fun h => hn.nodd hpn (mem_of_mem_dropLast h)⟩, ?_⟩
    · rcases hn.parent_mem hpn with h0 | h0
      · rw [h0]; exact isDir_nil _
      · exact hdir3 _ h0
    · rw [h23f i p d hf (hw.excl₂ i hi), hd'])
  have h34 : ∀ q, q ∉ new.files.map (·.1) → t₄.get q = t₃.get q := by
    intro q hq
    apply hf4
    intro i _ p d hf hqp
    exact hq (hqp ▸ hfile_mem hf)
  have h24 : ∀ q, q ∉ new.files.map (·.1) → (∀ f ∈ new.files.map (·.1), isPrefix f q = false) →
      t₄.get q = t₂.get q := fun q hq hqb => (h34 q hq).trans (h23 q hq hqb)
  -- outside the new build, the sources and what is below a new file, `t₄` is `t₁`
  have h14 : ∀ q, q ∉ pathsOf new → q ∉ srcsOf old new w → (∀ f ∈ new.files.map (·.1), isPrefix f q = false) →
      t₄.get q = t₁.get q := by
    intro q hqn hqs hqb
    have hqf : q ∉ new.files.map (·.1) := fun h => hqn (mem_pathsOf.mpr (Or.inr (Or.inr h)))
    rw [h24 q hqf hqb, ht.frame q hqs (hout_ne q hqf) hqb]
  -- the new directories and the new files are in place
  have hdir4 : ∀ q ∈ new.dirs, t₄.get q = some .dir := by
    intro q hq
    rw [h34 q (hn.dir_not_file hq)]
    exact hdir3 q hq
  have hfiles4 : ∀ e ∈ new.files, t₄.get e.1 = some (.file e.2) := by
    intro e he1
    obtain ⟨i, hi, hie⟩ := List.mem_iff_getElem.mp he1
    have hfi : new.files[i]? = some (e.1, e.2) := by
      rw [List.getElem?_eq_getElem hi, hie]
    rcases hw.cover i hi with hc | hc | hc
    · -- output of a transposition
      obtain ⟨st, hst, hsti⟩ := List.mem_map.mp hc
      have h2 := ht.outputs st hst e.1 e.2 (by rw [hsti]; exact hfi)
      have hx := hw.excl₁ i hc
      rw [hf4, h23f i e.1 e.2 hfi hx.2, h2]
      intro j hj p' d' hf' hpp
      have := hinj _ _ _ _ _ _ hfi hf' hpp
      subst this
      exact hx.1 hj
    · exact ha4 i hc e.1 e.2 hfi
    · rw [hf4, ha3 i hc e.1 e.2 hfi]
      intro j hj p' d' hf' hpp
      have := hinj _ _ _ _ _ _ hfi hf' hpp
      subst this
      exact hw.excl₂ i hj hc
  -- the new symlinks: whatever stands at the path of one of them — nothing, an old symlink, an old file (perhaps
  -- renamed elsewhere by now), an old directory with all that is left below it — gives way; no path of the new
  -- build is such a path or lies below one, so the new directories and files stay as they are
  obtain ⟨t₅, h5, hI5, hs5, hf5⟩ := ensureSymlinks_spec' new.symlinks t₄ hI4 hn.symlinks_nodup
    (fun e he' e' he'' => hn.not_below_symlink
      (mem_pathsOf.mpr (Or.inr (Or.inl (List.mem_map.mpr ⟨e', he'', rfl⟩)))) he')
    (by
      intro e he'
      have hep : e.1 ∈ pathsOf new := mem_pathsOf.mpr (Or.inr (Or.inl (List.mem_map.mpr ⟨e, he', rfl⟩)))
      refine ⟨hn.ne hep, ?_, fun h => hn.nodd hep (mem_of_mem_dropLast h)⟩
      rcases hn.parent_mem hep with h0 | h0
      · rw [h0]; exact isDir_nil _
      · exact hdir4 _ h0)
  have hnb : ∀ p ∈ pathsOf new, ¬ ∃ e ∈ new.symlinks, isPrefix e.1 p = true := by
    rintro p hp ⟨e, he', hpre⟩
    have := hn.not_below_symlink hp he'
    rw [hpre] at this
    cases this
  have h45 : ∀ q, q ∉ pathsOf new →
      t₅.get q = if ∃ e ∈ new.symlinks, isPrefix e.1 q = true then none else t₄.get q :=
    fun q hq => hf5 q (fun h => hq (mem_pathsOf.mpr (Or.inr (Or.inl h))))
  -- the new build is in place
  have hnewOK : ∀ p ∈ pathsOf new, t₅.get p = (treeOfBuild new).get p := by
    intro p hp
    rcases mem_pathsOf.mp hp with hd | hs | hf
    · rw [get_dir_treeOfBuild hn hd, hf5 p (hn.dir_not_symlink hd), if_neg (hnb p hp)]
      exact hdir4 p hd
    · obtain ⟨e, he1, he2⟩ := List.mem_map.mp hs
      rw [← he2, get_symlink_treeOfBuild hn (p := e.1) (d := e.2) he1]
      exact hs5 e he1
    · obtain ⟨e, he1, he2⟩ := List.mem_map.mp hf
      rw [hf5 p (fun h => hn.symlink_not_file h hf), if_neg (hnb p hp), ← he2,
        get_file_treeOfBuild hn (p := e.1) (d := e.2) he1]
      exact hfiles4 e he1
  -- nothing is left below a new file: the file is in place
  have hbelow5 : ∀ q, ∀ f ∈ new.files.map (·.1), isPrefix f q = true → t₅.get q = none := by
    intro q f hf hpre
    apply get_none_under_nondir hI5 _ hpre
    obtain ⟨e, he1, he2⟩ := List.mem_map.mp hf
    rw [hnewOK f (mem_pathsOf.mpr (Or.inr (Or.inr hf))), ← he2,
      get_file_treeOfBuild hn (p := e.1) (d := e.2) he1]
    simp
  have hcases : ∀ q, (∃ f ∈ new.files.map (·.1), isPrefix f q = true) ∨
      (∀ f ∈ new.files.map (·.1), isPrefix f q = false) := by
    intro q
    by_cases h : ∃ f ∈ new.files.map (·.1), isPrefix f q = true
    · exact Or.inl h
    · right
      intro f hf
      cases hh : isPrefix f q with
      | false => rfl
      | true => exact absurd ⟨f, hf, hh⟩ h
  have hstray : ∀ q, q ≠ [] → q ∉ pathsOf new → q ∉ pathsOf old → t₅.get q = none := by
    intro q hq0 hqn hqo
    rcases hcases q with ⟨f, hf, hpre⟩ | hqb
    · exact hbelow5 q f hf hpre
    · rw [h45 q hqn]
      split
      · rfl
      · rw [h14 q hqn (fun h => hqo (mem_pathsOf.mpr (Or.inr (Or.inr (srcsOf_old h))))) hqb, h1_other q hqn]
        exact get_none_treeOfBuild hq0 hqo
  have hpre : PreGhost old new t₅ := by
    refine ⟨hI5, hnewOK, hstray, ?_, ?_⟩
    · -- ghosts: one below a path that has become a file or a symlink is skipped; the parent chain of every other
      -- one is made of directories
      intro q hqo hqn hsk
      have hleaf : ∀ l ∈ leavesOf new, isPrefix l q = false := by
        intro l hl
        cases hh : isPrefix l q with
        | false => rfl
        | true =>
          have : (leavesOf new).any (fun l => isPrefix l q) = true := List.any_eq_true.mpr ⟨l, hl, hh⟩
          rw [hsk] at this
          cases this
      have hsym : ¬ ∃ e ∈ new.symlinks, isPrefix e.1 q = true := by
        rintro ⟨e, he1, hpre⟩
        have := hleaf e.1 (by
          simp only [leavesOf, List.mem_append]; exact Or.inr (List.mem_map.mpr ⟨e, he1, rfl⟩))
        rw [hpre] at this
        cases this
      have hfil : ∀ f ∈ new.files.map (·.1), isPrefix f q = false := fun f hf =>
        hleaf f (by simp only [leavesOf, List.mem_append]; exact Or.inl hf)
      intro j hj
      by_cases hj0 : j = 0
      · subst hj0; simpa using isDir_nil t₅
      have hq'd : q.take j ∈ old.dirs := ho.parents _ hqo j (by omega) hj
      have hq'pre : isPrefix (q.take j) q = true := isPrefix_take hj
      generalize q.take j = q' at hq'd hq'pre
      simp only [IsDir]
      by_cases h1 : q' ∈ new.dirs
      · rw [hnewOK q' (mem_pathsOf.mpr (Or.inl h1))]
        exact get_dir_treeOfBuild hn h1
      · by_cases h2 : q' ∈ new.symlinks.map (·.1)
        · exfalso
          obtain ⟨e, he1, he2⟩ := List.mem_map.mp h2
          exact hsym ⟨e, he1, by rw [he2]; exact hq'pre⟩
        · by_cases h3 : q' ∈ new.files.map (·.1)
          · exfalso
            have := hfil q' h3
            rw [hq'pre] at this
            cases this
          · have hq'n : q' ∉ pathsOf new := by
              intro h
              rcases mem_pathsOf.mp h with h | h | h
              · exact h1 h
              · exact h2 h
              · exact h3 h
            have hq'b : ∀ f ∈ new.files.map (·.1), isPrefix f q' = false := by
              intro f hf
              cases hh : isPrefix f q' with
              | false => rfl
              | true =>
                have := hfil f hf
                rw [isPrefix_trans hh hq'pre] at this
                cases this
            rw [h45 q' hq'n, if_neg, h14 q' hq'n (fun h => ho.dir_not_file hq'd (srcsOf_old h)) hq'b,
              h1_other q' hq'n]
            · exact get_dir_treeOfBuild ho hq'd
            · rintro ⟨e, he1, hpre⟩
              exact hsym ⟨e, he1, isPrefix_trans hpre hq'pre⟩
    · -- an old file or symlink that is not a new path has not become a directory
      intro q hqo hqn hqd hd5
      have hqf : q ∉ new.files.map (·.1) := fun h => hqn (mem_pathsOf.mpr (Or.inr (Or.inr h)))
      rcases hcases q with ⟨f, hf, hpre⟩ | hqb
      · rw [hbelow5 q f hf hpre] at hd5
        cases hd5
      rw [h45 q hqn] at hd5
      split at hd5
      · cases hd5
      · rw [h24 q hqf hqb] at hd5
        have h1 : t₁.get q = some .dir := by
          have := ht.same q hqf hqb
          rw [hd5] at this
          exact nf_eq_dir.mp this.symm
        rw [h1_other q hqn] at h1
        rcases mem_pathsOf.mp hqo with h | h | h
        · exact hqd h
        · obtain ⟨e, he1, he2⟩ := List.mem_map.mp h
          rw [← he2, get_symlink_treeOfBuild ho (p := e.1) (d := e.2) he1] at h1
          cases h1
        · obtain ⟨e, he1, he2⟩ := List.mem_map.mp h
          rw [← he2, get_file_treeOfBuild ho (p := e.1) (d := e.2) he1] at h1
          cases h1
  refine ⟨t₃, t₄, t₅, by rw [applyMoves_eq]; exact h3, by rw [applyOverlays_eq]; exact h4, h5, hpre, ?_⟩
  intro q hqn hq2
  rcases hcases q with ⟨f, hf, hpre'⟩ | hqb
  · exact hbelow5 q f hf hpre'
  · rw [h45 q hqn]
    split
    · rfl
    · rw [h24 q (fun h => hqn (mem_pathsOf.mpr (Or.inr (Or.inr h)))) hqb, hq2]

theorem finish_spec' {old new : Build} {w : Work} (ho : BWF old) (hn : BWF new)
    (hw : WOK old new w) {t₁ t₂ : Tree} (he : Ensured new (treeOfBuild old) t₁)
    (ht : Transposed' old new w t₁ t₂) :
    ∃ t₃ t₄ t₅ t₆, applyMoves new w t₂ = .ok t₃ ∧ applyOverlays new w t₃ = .ok t₄ ∧
      new.symlinks.foldlM (fun t (p, d) => ensureSymlink t p d) t₄ = .ok t₅ ∧
      deleteGhosts old new t₅ = .ok t₆ ∧ TInv t₆ ∧ ∀ p, t₆.get p = (treeOfBuild new).get p := by
  obtain ⟨t₃, t₄, t₅, h3, h4, h5, hpre, _⟩ := finish_pre' ho hn hw he ht
  obtain ⟨t₆, h6, hI6, hg6⟩ := deleteGhosts_spec ho hn hpre
  exact ⟨t₃, t₄, t₅, t₆, h3, h4, h5, h6, hI6, hg6⟩

/-- C02 with benign kind changes: the commit over the tree holding the old build yields a tree holding the
    new build. -/
theorem commit_spec' {old new : Build} {w : Work} (ho : BWF old) (hn : BWF new) (hb : BKC old new w)
    (hw : WOK old new w) {o₁ o₂ : List Path}
    (h₁ : o₁.Perm (srcsOf old new w)) (h₂ : o₂.Perm (srcsOf old new w)) :
    ∃ t', commit old new w o₁ o₂ (treeOfBuild old) = .ok t' ∧ TInv t' ∧
      ∀ p, t'.get p = (treeOfBuild new).get p := by
  obtain ⟨t₁, e1, he⟩ := ensureDirsPhase_spec' ho hn hb.dirOrder
  obtain ⟨t₂, e2, ht⟩ := transpositions_spec' ho hn hb hw h₁ h₂ he
  obtain ⟨t₃, t₄, t₅, t₆, e3, e4, e5, e6, hI6, hg6⟩ := finish_spec' ho hn hw he ht
  refine ⟨t₆, ?_, hI6, hg6⟩
  have e0 : moveSourcesAside old new w (treeOfBuild old) = .ok (treeOfBuild old, []) :=
    moveSourcesAside_nil_of_sources (by
      intro st hst
      obtain ⟨np, op, d, f1, f2⟩ := hw.transp st hst
      refine ⟨op, d, f2, hb.sources op (mem_srcsOf.mpr ⟨⟨op, np⟩, mem_tsOf.mpr ⟨st, hst, d, d, f1, f2⟩, rfl⟩)⟩) _
  simp only [commit, bind, Except.bind, e0, e1, e2, e3, e4, e5, e6]

/-- no kind change at all is a benign kind change -/
theorem NKC.toBKC {old new : Build} (w : Work) (ho : BWF old) (hn : BWF new) (hk : NKC old new) :
    BKC old new w := by
  constructor
  · intro p hp
    exact (hk.old_file ho hn (srcsOf_old hp)).1
  · have : ∀ a ∈ new.dirs, ∀ b ∈ new.dirs, isPrefix b a = true →
        b ∉ old.files.map (·.1) ∧ b ∉ old.symlinks.map (·.1) := by
      intro a _ b hb _
      constructor
      · intro h
        cases hk _ _ _ (kindOf_file ho h) (kindOf_dir hb)
      · intro h
        cases hk _ _ _ (kindOf_symlink ho h) (kindOf_dir hb)
    exact List.pairwise_of_forall_mem_list this

/-! ### the two string computations `decide` cannot do

  `String.splitOn` is defined by well-founded recursion and does not reduce; the instances in
  Props/C02Kinds.lean whose commit resolves a path THROUGH a symlink all use the destination `"b"`, and that
  one resolution is done by hand.  (Same device as in Wharf/Proofs/HealRestore.lean.) -/

theorem splitOn_b : "b".splitOn "/" = ["b"] := by
  unfold String.splitOn
  rw [if_neg (by decide +kernel)]
  rw [String.splitOnAux]
  rw [if_neg (by decide +kernel)]
  rw [if_neg (by decide +kernel)]
  rw [String.splitOnAux]
  rw [if_pos (by decide +kernel)]
  decide +kernel

theorem splitDest_b : splitDest "b" = ["b"] := by
  unfold splitDest
  rw [splitOn_b]
  decide

theorem startsWith_b : ("b".startsWith "/") = false := by decide +kernel

theorem resolve_symlink_step (t : Tree) (fuel : Nat) (done : Path) (c c2 : String) (rest : Path) (dest : String)
    (hc : c ≠ "..") (hg : t.get (done ++ [c]) = some (.symlink dest)) (hs : dest.startsWith "/" = false) :
    resolve t (fuel + 1) done (c :: c2 :: rest) = resolve t fuel done (splitDest dest ++ c2 :: rest) := by
  simp [resolve, hc, hg, hs]

end Wharf.Commit
