/-
  Helper lemmas for C05 (tree level): the directory pass, the symlink pass and the per-file pass of
  `Wharf.TreeValidate.validate`.
-/
import Wharf.Model.TreeValidate
import Wharf.Props.C05
import Wharf.Proofs.Validate

namespace Wharf.TreeValidate
open Wharf Wharf.FS Wharf.Validate

/-! ### the directory pass -/

/-- What a directory-pass wound looks like. -/
def DirWound (i n : Nat) (w : Wound) : Prop :=
  w.kind = .dir ∧ w.start = 0 ∧ w.stop = 0 ∧ i ≤ w.index ∧ w.index < i + n

/-- Specification of the directory pass started at index `i`. -/
def DirSpec (t : Tree) (i : Nat) (ps : List Path) (r : Outcome (List Wound)) : Prop :=
  (∃ e, r = .err e) ∨
  (∃ ws, r = .ok ws ∧ (∀ w ∈ ws, DirWound i ps.length w) ∧
    (ws = [] ↔ ∀ p ∈ ps, lstat t p = .ok .dir))

theorem dirSpec_wound (t : Tree) (i : Nat) (p : Path) (rest : List Path) (r : Outcome (List Wound))
    (hne : lstat t p ≠ .ok .dir) (ih : DirSpec t (i + 1) rest r) :
    DirSpec t i (p :: rest) (r.bind fun ws => .ok (⟨.dir, i, 0, 0⟩ :: ws)) := by
  rcases ih with ⟨e, rfl⟩ | ⟨ws, rfl, hall, _⟩
  · exact .inl ⟨e, rfl⟩
  · refine .inr ⟨⟨.dir, i, 0, 0⟩ :: ws, rfl, ?_, ?_⟩
    · intro w hw
      rcases List.mem_cons.mp hw with rfl | hw
      · exact ⟨rfl, rfl, rfl, Nat.le_refl _, by simp⟩
      · obtain ⟨h1, h2, h3, h4, h5⟩ := hall w hw
        exact ⟨h1, h2, h3, by omega, by simp only [List.length_cons]; omega⟩
    · constructor
      · intro h; cases h
      · intro h; exact absurd (h p (by simp)) hne

theorem dirSpec_skip (t : Tree) (i : Nat) (p : Path) (rest : List Path) (r : Outcome (List Wound))
    (hp : lstat t p = .ok .dir) (ih : DirSpec t (i + 1) rest r) :
    DirSpec t i (p :: rest) r := by
  rcases ih with ⟨e, rfl⟩ | ⟨ws, rfl, hall, hiff⟩
  · exact .inl ⟨e, rfl⟩
  · refine .inr ⟨ws, rfl, ?_, ?_⟩
    · intro w hw
      obtain ⟨h1, h2, h3, h4, h5⟩ := hall w hw
      exact ⟨h1, h2, h3, by omega, by simp only [List.length_cons]; omega⟩
    · rw [hiff]
      simp [hp]

/-- The directory pass never panics; on success its wounds are directory wounds with indices in range and
    there is none iff every signed directory is a directory. -/
theorem dirWounds_spec (t : Tree) (ps : List Path) : ∀ (i : Nat), DirSpec t i ps (dirWounds t i ps) := by
  induction ps with
  | nil => intro i; exact .inr ⟨[], rfl, by simp, by simp⟩
  | cons p rest ih =>
    intro i
    unfold dirWounds
    cases h : lstat t p with
    | error e =>
      simp only
      by_cases hn : notExist e = true
      · simp only [hn, if_true]
        exact dirSpec_wound t i p rest _ (by rw [h]; intro h'; cases h') (ih _)
      · simp only [hn]
        exact .inl ⟨_, rfl⟩
    | ok n =>
      cases n with
      | dir => exact dirSpec_skip t i p rest _ h (ih _)
      | file d => exact dirSpec_wound t i p rest _ (by rw [h]; intro h'; cases h') (ih _)
      | symlink d => exact dirSpec_wound t i p rest _ (by rw [h]; intro h'; cases h') (ih _)


theorem dirWounds_match (t : Tree) (ps : List Path) (h : ∀ p ∈ ps, lstat t p = .ok .dir) :
    ∀ (i : Nat), dirWounds t i ps = .ok [] := by
  induction ps with
  | nil => intro i; rfl
  | cons p rest ih =>
    intro i
    unfold dirWounds
    rw [h p (by simp)]
    exact ih (fun q hq => h q (by simp [hq])) _

/-! ### the symlink pass -/

def SymWound (i n : Nat) (w : Wound) : Prop :=
  w.kind = .symlink ∧ w.start = 0 ∧ w.stop = 0 ∧ i ≤ w.index ∧ w.index < i + n

def SymSpec (t : Tree) (i : Nat) (sl : List (Path × String)) (r : Outcome (List Wound)) : Prop :=
  (∃ e, r = .err e) ∨
  (∃ ws, r = .ok ws ∧ (∀ w ∈ ws, SymWound i sl.length w) ∧
    (ws = [] ↔ ∀ e ∈ sl, lstat t e.1 = .ok (.symlink e.2)))

theorem symSpec_wound (t : Tree) (i : Nat) (p : Path) (d : String) (rest : List (Path × String))
    (r : Outcome (List Wound)) (hne : lstat t p ≠ .ok (.symlink d)) (ih : SymSpec t (i + 1) rest r) :
    SymSpec t i ((p, d) :: rest) (r.bind fun ws => .ok (⟨.symlink, i, 0, 0⟩ :: ws)) := by
  rcases ih with ⟨e, rfl⟩ | ⟨ws, rfl, hall, _⟩
  · exact .inl ⟨e, rfl⟩
  · refine .inr ⟨⟨.symlink, i, 0, 0⟩ :: ws, rfl, ?_, ?_⟩
    · intro w hw
      rcases List.mem_cons.mp hw with rfl | hw
      · exact ⟨rfl, rfl, rfl, Nat.le_refl _, by simp⟩
      · obtain ⟨h1, h2, h3, h4, h5⟩ := hall w hw
        exact ⟨h1, h2, h3, by omega, by simp only [List.length_cons]; omega⟩
    · constructor
      · intro h; cases h
      · intro h; exact absurd (h (p, d) (by simp)) hne

theorem symSpec_skip (t : Tree) (i : Nat) (p : Path) (d : String) (rest : List (Path × String))
    (r : Outcome (List Wound)) (hp : lstat t p = .ok (.symlink d)) (ih : SymSpec t (i + 1) rest r) :
    SymSpec t i ((p, d) :: rest) r := by
  rcases ih with ⟨e, rfl⟩ | ⟨ws, rfl, hall, hiff⟩
  · exact .inl ⟨e, rfl⟩
  · refine .inr ⟨ws, rfl, ?_, ?_⟩
    · intro w hw
      obtain ⟨h1, h2, h3, h4, h5⟩ := hall w hw
      exact ⟨h1, h2, h3, by omega, by simp only [List.length_cons]; omega⟩
    · rw [hiff]
      simp [hp]

/-- The symlink pass never panics; on success its wounds are symlink wounds with indices in range and
    there is none iff every signed symlink is a symlink with the signed destination. -/
theorem symlinkWounds_spec (t : Tree) (sl : List (Path × String)) :
    ∀ (i : Nat), SymSpec t i sl (symlinkWounds t i sl) := by
  induction sl with
  | nil => intro i; exact .inr ⟨[], rfl, by simp, by simp⟩
  | cons e rest ih =>
    intro i
    obtain ⟨p, dest⟩ := e
    unfold symlinkWounds
    cases h : lstat t p with
    | error e =>
      simp only
      by_cases hn : notExist e = true
      · simp only [hn, if_true]
        exact symSpec_wound t i p dest rest _ (by rw [h]; intro h'; cases h') (ih _)
      · simp only [hn]
        exact .inl ⟨_, rfl⟩
    | ok n =>
      cases n with
      | dir => exact symSpec_wound t i p dest rest _ (by rw [h]; intro h'; cases h') (ih _)
      | file d => exact symSpec_wound t i p dest rest _ (by rw [h]; intro h'; cases h') (ih _)
      | symlink d =>
        simp only
        by_cases hd : d = dest
        · simp only [hd, if_true]
          exact symSpec_skip t i p dest rest _ (by rw [h, hd]) (ih _)
        · simp only [hd, if_false]
          exact symSpec_wound t i p dest rest _
            (by rw [h]; intro h'; injection h' with h'; injection h' with h'; exact hd h') (ih _)

theorem symlinkWounds_match (t : Tree) (sl : List (Path × String))
    (h : ∀ e ∈ sl, lstat t e.1 = .ok (.symlink e.2)) :
    ∀ (i : Nat), symlinkWounds t i sl = .ok [] := by
  induction sl with
  | nil => intro i; rfl
  | cons e rest ih =>
    intro i
    obtain ⟨p, dest⟩ := e
    unfold symlinkWounds
    have hp : lstat t p = .ok (.symlink dest) := h (p, dest) (by simp)
    rw [hp]
    simp only [if_true]
    exact ih (fun q hq => h q (by simp [hq])) _

/-! ### the per-file pass -/

theorem mem_filePassWounds (bs maxSize : Nat) (t : Tree) (w : Wound) (fs : List (Path × List Byte)) :
    ∀ (i : Nat), w ∈ filePassWounds bs maxSize t i fs ↔
      ∃ j p S, fs[j]? = some (p, S) ∧ w ∈ fileWounds bs maxSize S (i + j) (onDisk t p) := by
  induction fs with
  | nil => intro i; simp [filePassWounds]
  | cons e rest ih =>
    intro i
    obtain ⟨p, S⟩ := e
    simp only [filePassWounds, List.mem_append, ih]
    constructor
    · rintro (h | ⟨j, q, T, hj, hw⟩)
      · exact ⟨0, p, S, rfl, h⟩
      · exact ⟨j + 1, q, T, by simpa using hj, by rw [show i + (j + 1) = i + 1 + j by omega]; exact hw⟩
    · rintro ⟨j, q, T, hj, hw⟩
      cases j with
      | zero =>
        simp only [List.getElem?_cons_zero, Option.some.injEq, Prod.mk.injEq] at hj
        obtain ⟨rfl, rfl⟩ := hj
        exact .inl hw
      | succ j =>
        refine .inr ⟨j, q, T, by simpa using hj, ?_⟩
        rw [show i + 1 + j = i + (j + 1) by omega]; exact hw

theorem mergeStable_kind : MergeStable (fun w => w.kind = .file ∨ w.kind = .closedFile) := by
  intro l w hl _ _ _
  exact hl

theorem markers_kind (bs : Nat) (S : List Byte) (fi : Nat) (cs : List (List Byte)) :
    ∀ (k : Nat), ∀ w ∈ markers bs S fi k cs, w.kind = .file ∨ w.kind = .closedFile := by
  induction cs with
  | nil => intro k w h; simp [markers] at h
  | cons c cs ih =>
    intro k w h
    simp only [markers, List.mem_cons] at h
    rcases h with rfl | h
    · simp only [marker]
      cases blockOk bs S k c <;> simp
    · exact ih _ _ h

/-- The per-file pass only sends file wounds and healthy markers. -/
theorem fileWounds_kind (bs : Nat) (hbs : 0 < bs) (maxSize : Nat) (S : List Byte) (fi : Nat) (disk : OnDisk) :
    ∀ w ∈ fileWounds bs maxSize S fi disk, w.kind = .file ∨ w.kind = .closedFile := by
  cases disk with
  | missing => intro w hw; simp [fileWounds] at hw; subst hw; simp
  | dir => intro w hw; simp [fileWounds] at hw; subst hw; simp
  | symlink => intro w hw; simp [fileWounds] at hw; subst hw; simp
  | file D =>
    intro w hw
    rw [fileWounds_file hbs] at hw
    rcases List.mem_append.mp hw with hw | hw
    · exact aggregate_all maxSize _ mergeStable_kind _ (markers_kind bs S fi _ 0) w hw
    · by_cases hne : D.length ≠ S.length
      · simp [hne] at hw
        subst hw
        simp
      · simp [hne] at hw

theorem onDisk_file_iff (t : Tree) (p : Path) (D : List Byte) :
    onDisk t p = .file D ↔ lstat t p = .ok (.file D) := by
  unfold onDisk
  cases h : lstat t p with
  | error e => simp
  | ok n => cases n <;> simp

theorem onDisk_of_lstat (t : Tree) (p : Path) (D : List Byte) (h : lstat t p = .ok (.file D)) :
    onDisk t p = .file D := (onDisk_file_iff t p D).mpr h

/-! ### real wounds -/

theorem realWounds_append (a b : List Wound) : realWounds (a ++ b) = realWounds a ++ realWounds b := by
  simp [realWounds]

theorem mem_realWounds (w : Wound) (ws : List Wound) :
    w ∈ realWounds ws ↔ w ∈ ws ∧ w.kind ≠ .closedFile := by
  simp only [realWounds, List.mem_filter, Wound.healthy]
  cases h : w.kind <;> simp <;> decide

theorem realWounds_eq_nil (ws : List Wound) :
    realWounds ws = [] ↔ ∀ w ∈ ws, w.kind = .closedFile := by
  rw [List.eq_nil_iff_forall_not_mem]
  simp only [mem_realWounds]
  constructor
  · intro h w hw
    cases hk : w.kind <;> first | rfl | exact absurd ⟨hw, by rw [hk]; intro h'; cases h'⟩ (h w)
  · intro h w ⟨hw, hk⟩; exact hk (h w hw)

/-- A file entry whose path does not hold exactly the signed content gets a file wound with its index. -/
theorem filePass_detects (bs : Nat) (hbs : 0 < bs) (maxSize : Nat) (t : Tree) (i : Nat)
    (fs : List (Path × List Byte)) (j : Nat) (p : Path) (S : List Byte)
    (hj : fs[j]? = some (p, S)) (hd : lstat t p ≠ .ok (.file S)) :
    ∃ w ∈ filePassWounds bs maxSize t i fs, w.kind = .file ∧ w.index = i + j := by
  have hdisk : ∀ D, onDisk t p = .file D → D ≠ S := by
    intro D hD hDS
    subst hDS
    exact hd ((onDisk_file_iff t p D).mp hD)
  obtain ⟨w, hw, hk⟩ := C05.file_detects bs hbs maxSize S (i + j) (onDisk t p) hdisk
  exact ⟨w, (mem_filePassWounds bs maxSize t w fs i).mpr ⟨j, p, S, hj, hw⟩, hk,
    (C05.file_wellformed bs hbs maxSize S (i + j) (onDisk t p) w hw).2⟩

/-- The per-file pass reports no real wound iff every signed file is on disk with the signed content. -/
theorem filePass_clean_iff (bs : Nat) (hbs : 0 < bs) (maxSize : Nat) (t : Tree) (i : Nat)
    (fs : List (Path × List Byte)) :
    realWounds (filePassWounds bs maxSize t i fs) = [] ↔ ∀ e ∈ fs, lstat t e.1 = .ok (.file e.2) := by
  rw [realWounds_eq_nil]
  constructor
  · intro h e he
    obtain ⟨p, S⟩ := e
    obtain ⟨j, hj⟩ := List.getElem?_of_mem he
    by_cases hd : lstat t p = .ok (.file S)
    · exact hd
    · obtain ⟨w, hw, hk, _⟩ := filePass_detects bs hbs maxSize t i fs j p S hj hd
      have := h w hw
      rw [hk] at this
      cases this
  · intro h w hw
    obtain ⟨j, p, S, hj, hw⟩ := (mem_filePassWounds bs maxSize t w fs i).mp hw
    have hp : lstat t p = .ok (.file S) := h (p, S) (List.mem_of_getElem? hj)
    rw [onDisk_of_lstat t p S hp] at hw
    exact (realWounds_eq_nil _).mp (C05.valid_no_wound bs hbs maxSize S (i + j)) w hw

/-! ### the whole validation -/

/-- `validate` never panics, and a successful run is the concatenation of the three passes. -/
theorem validate_cases (bs maxSize : Nat) (s : Signed) (t : Tree) :
    (∃ e, validate bs maxSize s t = .err e) ∨
    (∃ dw sw, validate bs maxSize s t = .ok (dw ++ sw ++ filePassWounds bs maxSize t 0 s.files) ∧
      (∀ w ∈ dw, DirWound 0 s.dirs.length w) ∧ (dw = [] ↔ ∀ p ∈ s.dirs, lstat t p = .ok .dir) ∧
      (∀ w ∈ sw, SymWound 0 s.symlinks.length w) ∧
      (sw = [] ↔ ∀ e ∈ s.symlinks, lstat t e.1 = .ok (.symlink e.2))) := by
  unfold validate
  rcases dirWounds_spec t s.dirs 0 with ⟨e, he⟩ | ⟨dw, hdw, hdall, hdiff⟩
  · exact .inl ⟨e, by rw [he]; rfl⟩
  · rcases symlinkWounds_spec t s.symlinks 0 with ⟨e, he⟩ | ⟨sw, hsw, hsall, hsiff⟩
    · exact .inl ⟨e, by rw [hdw, he]; rfl⟩
    · exact .inr ⟨dw, sw, by rw [hdw, hsw]; rfl, hdall, hdiff, hsall, hsiff⟩

theorem dirWound_real {i n : Nat} {w : Wound} (h : DirWound i n w) : w.kind ≠ .closedFile := by
  rw [h.1]; intro h'; cases h'

theorem symWound_real {i n : Nat} {w : Wound} (h : SymWound i n w) : w.kind ≠ .closedFile := by
  rw [h.1]; intro h'; cases h'

/-- A list of wounds none of which is healthy has no real wound only if it is empty. -/
theorem eq_nil_of_realWounds_nil (ws : List Wound) (hall : ∀ w ∈ ws, w.kind ≠ .closedFile)
    (h : realWounds ws = []) : ws = [] := by
  cases ws with
  | nil => rfl
  | cons w rest =>
    exact absurd ((realWounds_eq_nil _).mp h w (by simp)) (hall w (by simp))

end Wharf.TreeValidate
