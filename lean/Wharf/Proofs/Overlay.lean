/-
  Helper lemmas for C14 (overlay writer / applier).  Core Lean only.
-/
import Wharf.Model.Overlay

namespace Wharf.Overlay
open Wharf

/-! ### `applyOps` basics -/

/-- Everything after the end marker is ignored. -/
theorem applyOps_append_done (ops junk : List OOp) (file : List Byte) (pos : Nat)
    (h : OOp.done ∉ ops) :
    applyOps (ops ++ .done :: junk) file pos = applyOps ops file pos := by
  induction ops generalizing file pos with
  | nil => simp [applyOps]
  | cons op ops ih =>
    have h' : OOp.done ∉ ops := fun hm => h (List.mem_cons_of_mem _ hm)
    cases op with
    | skip n => simp only [List.cons_append, applyOps]; exact ih _ _ h'
    | fresh d => simp only [List.cons_append, applyOps]; exact ih _ _ h'
    | done => exact absurd List.mem_cons_self h

/-- A write of `d` at the end of the prefix `X` replaces the next `d.length` bytes (or extends). -/
theorem applyOps_fresh_at (d : List Byte) (ops : List OOp) (X Z : List Byte) (pos : Nat)
    (hp : pos = X.length) :
    applyOps (.fresh d :: ops) (X ++ Z) pos
      = applyOps ops (X ++ (d ++ Z.drop d.length)) (pos + d.length) := by
  subst hp
  have h1 : ¬ (X ++ Z).length < X.length := by
    simp only [List.length_append]; omega
  have h2 : List.drop (X.length + d.length) (X ++ Z) = Z.drop d.length := by
    rw [List.drop_append, List.drop_eq_nil_of_le (by omega)]
    simp only [List.nil_append]
    congr 1; omega
  simp only [applyOps, h1, if_false, List.take_left' rfl, h2, List.append_assoc]

/-! ### The file during a window: `A ++ buf[0,k) ++ rbuf[k,…) ++ C` -/

/-- The file while a window is being applied: before the window `A`, the first `k` bytes already
    replaced by the new content `buf`, the rest of the old content `rbuf` of the window, then `C`. -/
def splice (A buf rbuf C : List Byte) (k : Nat) : List Byte :=
  A ++ (buf.take k ++ (rbuf.drop k ++ C))

theorem splice_zero (A buf rbuf C : List Byte) : splice A buf rbuf C 0 = A ++ (rbuf ++ C) := by
  simp [splice]

theorem take_drop_eq_of_agree (rbuf buf : List Byte) (k n : Nat)
    (h : ∀ j, k ≤ j → j < k + n → rbuf[j]? = buf[j]?) :
    (rbuf.drop k).take n = (buf.drop k).take n := by
  apply List.ext_getElem?
  intro j
  simp only [List.getElem?_take, List.getElem?_drop]
  split
  · exact h _ (by omega) (by omega)
  · rfl

/-- Skipping over a run where old and new agree does not change the file. -/
theorem splice_skip (A buf rbuf C : List Byte) (k n : Nat)
    (h : ∀ j, k ≤ j → j < k + n → rbuf[j]? = buf[j]?) :
    splice A buf rbuf C (k + n) = splice A buf rbuf C k := by
  unfold splice
  have h1 : rbuf.drop k = (buf.drop k).take n ++ rbuf.drop (k + n) := by
    rw [← take_drop_eq_of_agree rbuf buf k n h, ← List.drop_drop, List.take_append_drop]
  rw [List.take_add, h1]
  simp only [List.append_assoc]

/-- Writing `buf[k, k+n)` at the current position advances the splice point. -/
theorem splice_fresh (A buf rbuf C : List Byte) (ops : List OOp) (k n pos : Nat)
    (hk : k + n ≤ rbuf.length) (hle : rbuf.length ≤ buf.length) (hp : pos = A.length + k) :
    applyOps (.fresh ((buf.drop k).take n) :: ops) (splice A buf rbuf C k) pos
      = applyOps ops (splice A buf rbuf C (k + n)) (pos + n) := by
  have hd : ((buf.drop k).take n).length = n := by
    simp only [List.length_take, List.length_drop]; omega
  have hX : pos = (A ++ buf.take k).length := by
    simp only [List.length_append, List.length_take]; omega
  have hshape : splice A buf rbuf C k = (A ++ buf.take k) ++ (rbuf.drop k ++ C) := by
    simp only [splice, List.append_assoc]
  rw [hshape, applyOps_fresh_at _ _ _ _ _ hX, hd]
  have hZ : (rbuf.drop k ++ C).drop n = rbuf.drop (k + n) ++ C := by
    rw [List.drop_append_of_le_length (by simp only [List.length_drop]; omega), List.drop_drop]
  rw [hZ]
  unfold splice
  rw [List.take_add]
  simp only [List.append_assoc]

/-! ### The scan loop invariant -/

/-- Invariant of the scan loop after `i` bytes of the window (`rbuf` old, `buf` new). -/
structure Inv (rbuf buf : List Byte) (i : Nat) (s : WState) : Prop where
  le : s.lastOp + s.same ≤ i
  agree : ∀ j, i - s.same ≤ j → j < i → rbuf[j]? = buf[j]?
  nodone : OOp.done ∉ s.ops
  sem : ∀ (A C : List Byte) (rest : List OOp),
    applyOps (s.ops ++ rest) (splice A buf rbuf C 0) A.length
      = applyOps rest (splice A buf rbuf C s.lastOp) (A.length + s.lastOp)

theorem inv_init (rbuf buf : List Byte) : Inv rbuf buf 0 {} where
  le := Nat.le_refl _
  agree := fun j _ h => absurd h (Nat.not_lt_zero _)
  nodone := List.not_mem_nil
  sem := fun A C rest => by simp

/-- `commit` (followed by resetting `same`, or by ignoring it) keeps the invariant. -/
theorem inv_commit (rbuf buf : List Byte) (i : Nat) (s : WState)
    (hi : i ≤ rbuf.length) (hle : rbuf.length ≤ buf.length) (h : Inv rbuf buf i s) :
    Inv rbuf buf i { commit buf i s with same := 0 } := by
  have hl := h.le
  have hskip : ∀ A C, splice A buf rbuf C i = splice A buf rbuf C (i - s.same) := by
    intro A C
    have := splice_skip A buf rbuf C (i - s.same) s.same
      (fun j h1 h2 => h.agree j h1 (by omega))
    rwa [show i - s.same + s.same = i by omega] at this
  refine ⟨?_, ?_, ?_, ?_⟩
  · show i + 0 ≤ i
    omega
  · intro j h1 h2
    exfalso
    have : i - 0 ≤ j := h1
    omega
  · show OOp.done ∉ (commit buf i s).ops
    simp only [commit]
    split
    · simp only [List.mem_append, List.mem_singleton, not_or]
      exact ⟨⟨h.nodone, by intro hc; cases hc⟩, by intro hc; cases hc⟩
    · simp only [List.mem_append, List.mem_singleton, not_or]
      exact ⟨h.nodone, by intro hc; cases hc⟩
  · intro A C rest
    show applyOps ((commit buf i s).ops ++ rest) (splice A buf rbuf C 0) A.length
      = applyOps rest (splice A buf rbuf C i) (A.length + i)
    simp only [commit]
    split
    · rename_i hpos
      simp only [List.append_assoc, List.singleton_append]
      rw [h.sem A C]
      simp only [List.cons_append, List.nil_append]
      rw [splice_fresh A buf rbuf C _ s.lastOp (i - s.same - s.lastOp) _
        (by omega) hle rfl]
      simp only [applyOps]
      rw [show s.lastOp + (i - s.same - s.lastOp) = i - s.same by omega, hskip A C]
      congr 1
      omega
    · rename_i hpos
      simp only [List.append_assoc, List.singleton_append]
      rw [h.sem A C]
      simp only [applyOps]
      rw [hskip A C, show i - s.same = s.lastOp by omega]
      congr 1
      omega

/-- One iteration of the loop body. -/
theorem inv_scanStep (P : Params) (rbuf buf : List Byte) (eq : Bool) (i : Nat) (s : WState)
    (hi : i < rbuf.length) (hle : rbuf.length ≤ buf.length)
    (heq : eq = true → rbuf[i]? = buf[i]?) (h : Inv rbuf buf i s) :
    Inv rbuf buf (i + 1) (scanStep P buf eq i s) := by
  have hl := h.le
  unfold scanStep
  split
  · rename_i he
    refine ⟨?_, ?_, h.nodone, h.sem⟩
    · show s.lastOp + (s.same + 1) ≤ i + 1
      omega
    · intro j h1 h2
      have h1' : i + 1 - (s.same + 1) ≤ j := h1
      by_cases hj : j = i
      · subst hj; exact heq he
      · exact h.agree j (by omega) (by omega)
  · -- weaken an invariant with `same = 0` from `i` to `i + 1`
    have weaken : ∀ t : WState, Inv rbuf buf i { t with same := 0 } →
        Inv rbuf buf (i + 1) { t with same := 0 } := by
      intro t ht
      refine ⟨?_, ?_, ht.nodone, ht.sem⟩
      · have := ht.le
        show t.lastOp + 0 ≤ i + 1
        have : t.lastOp + 0 ≤ i := this
        omega
      · intro j h1 h2
        exfalso
        have : i + 1 - 0 ≤ j := h1
        omega
    show Inv rbuf buf (i + 1)
      { (if s.same > P.threshold then commit buf i s else s) with same := 0 }
    apply weaken
    split
    · exact inv_commit rbuf buf i s (by omega) hle h
    · refine ⟨?_, ?_, h.nodone, h.sem⟩
      · show s.lastOp + 0 ≤ i
        omega
      · intro j h1 h2
        exfalso
        have : i - 0 ≤ j := h1
        omega

/-- The whole loop: starting from the invariant at `i`, we end with the invariant at `rbuf.length`. -/
theorem inv_scan (P : Params) (rbuf buf : List Byte) (hle : rbuf.length ≤ buf.length) :
    ∀ (rs bs : List Byte) (i : Nat) (s : WState), rs = rbuf.drop i → bs = buf.drop i →
      i ≤ rbuf.length → Inv rbuf buf i s → Inv rbuf buf rbuf.length (scan P buf rs bs i s) := by
  intro rs
  induction rs with
  | nil =>
    intro bs i s hrs _ hi h
    have hlen : rbuf.length ≤ i := by
      have := congrArg List.length hrs
      simp only [List.length_nil, List.length_drop] at this
      omega
    have : i = rbuf.length := by omega
    subst this
    simpa [scan] using h
  | cons r rs ih =>
    intro bs i s hrs hbs hi h
    have hilt : i < rbuf.length := by
      have := congrArg List.length hrs
      simp only [List.length_cons, List.length_drop] at this
      omega
    cases bs with
    | nil =>
      exfalso
      have := congrArg List.length hbs
      simp only [List.length_nil, List.length_drop] at this
      omega
    | cons b bs =>
      have hib : i < buf.length := by omega
      rw [List.drop_eq_getElem_cons hilt] at hrs
      rw [List.drop_eq_getElem_cons hib] at hbs
      injection hrs with hr hrs'
      injection hbs with hb hbs'
      simp only [scan]
      apply ih bs (i + 1) _ hrs' hbs' (by omega)
      apply inv_scanStep P rbuf buf _ i s hilt hle _ h
      intro he
      have : r = b := by simpa using he
      rw [List.getElem?_eq_getElem hilt, List.getElem?_eq_getElem hib, ← hr, ← hb, this]

/-! ### One window -/

/-- State after the loop and the optional final `commit` (only `lastOp` and `ops` are used later). -/
def afterLoop (P : Params) (rbuf buf : List Byte) : WState :=
  let s := scan P buf rbuf buf 0 {}
  if s.same > P.threshold then commit buf rbuf.length s else s

theorem inv_afterLoop (P : Params) (rbuf buf : List Byte) (hle : rbuf.length ≤ buf.length) :
    Inv rbuf buf rbuf.length { afterLoop P rbuf buf with same := 0 } := by
  have h0 : Inv rbuf buf rbuf.length (scan P buf rbuf buf 0 {}) :=
    inv_scan P rbuf buf hle rbuf buf 0 {} rfl rfl (Nat.zero_le _) (inv_init rbuf buf)
  unfold afterLoop
  dsimp only
  split
  · exact inv_commit rbuf buf rbuf.length _ (Nat.le_refl _) hle h0
  · have hl := h0.le
    refine ⟨?_, ?_, h0.nodone, h0.sem⟩
    · show (scan P buf rbuf buf 0 {}).lastOp + 0 ≤ rbuf.length
      omega
    · intro j h1 h2
      exfalso
      have : rbuf.length - 0 ≤ j := h1
      omega

theorem window_eq (P : Params) (rbuf buf : List Byte) :
    window P rbuf buf =
      ((if (afterLoop P rbuf buf).lastOp < rbuf.length then
          (afterLoop P rbuf buf).ops ++
            [.fresh ((buf.drop (afterLoop P rbuf buf).lastOp).take
              (rbuf.length - (afterLoop P rbuf buf).lastOp))]
        else (afterLoop P rbuf buf).ops) ++
       (if rbuf.length < buf.length then [.fresh (buf.drop rbuf.length)] else [])) := by
  unfold window afterLoop
  dsimp only
  split <;> simp

/-- The writer never emits the end marker in a window. -/
theorem window_no_done (P : Params) (rbuf buf : List Byte) (hle : rbuf.length ≤ buf.length) :
    OOp.done ∉ window P rbuf buf := by
  have hI := inv_afterLoop P rbuf buf hle
  have hnd : OOp.done ∉ (afterLoop P rbuf buf).ops := hI.nodone
  rw [window_eq]
  simp only [List.mem_append, not_or]
  constructor
  · split
    · simp only [List.mem_append, List.mem_singleton, not_or]
      exact ⟨hnd, by intro hc; cases hc⟩
    · exact hnd
  · split
    · simp only [List.mem_singleton]
      intro hc; cases hc
    · exact List.not_mem_nil

/-- Effect of one window on a file that holds `rbuf` at the current position `A.length`. -/
theorem applyOps_window (P : Params) (rbuf buf A C : List Byte) (rest : List OOp)
    (hle : rbuf.length ≤ buf.length) :
    applyOps (window P rbuf buf ++ rest) (A ++ (rbuf ++ C)) A.length
      = applyOps rest (A ++ (buf ++ C.drop (buf.length - rbuf.length))) (A.length + buf.length) := by
  have hI := inv_afterLoop P rbuf buf hle
  have hl : (afterLoop P rbuf buf).lastOp + 0 ≤ rbuf.length := hI.le
  have hsem : ∀ rest, applyOps ((afterLoop P rbuf buf).ops ++ rest) (splice A buf rbuf C 0) A.length
      = applyOps rest (splice A buf rbuf C (afterLoop P rbuf buf).lastOp)
          (A.length + (afterLoop P rbuf buf).lastOp) := fun rest => hI.sem A C rest
  -- after the loop, the optional commit and the trailing fresh within the old file
  have h1 : ∀ rest,
      applyOps ((if (afterLoop P rbuf buf).lastOp < rbuf.length then
          (afterLoop P rbuf buf).ops ++
            [.fresh ((buf.drop (afterLoop P rbuf buf).lastOp).take
              (rbuf.length - (afterLoop P rbuf buf).lastOp))]
        else (afterLoop P rbuf buf).ops) ++ rest) (splice A buf rbuf C 0) A.length
      = applyOps rest (splice A buf rbuf C rbuf.length) (A.length + rbuf.length) := by
    intro rest
    split
    · simp only [List.append_assoc, List.cons_append, List.nil_append]
      rw [hsem, splice_fresh A buf rbuf C _ _ (rbuf.length - (afterLoop P rbuf buf).lastOp) _
        (by omega) hle rfl]
      rw [show (afterLoop P rbuf buf).lastOp + (rbuf.length - (afterLoop P rbuf buf).lastOp)
        = rbuf.length by omega]
      congr 1
      omega
    · rw [hsem, show (afterLoop P rbuf buf).lastOp = rbuf.length by omega]
  have hsp : splice A buf rbuf C rbuf.length = (A ++ buf.take rbuf.length) ++ C := by
    simp [splice]
  rw [window_eq, List.append_assoc, ← splice_zero A buf, h1, hsp]
  split
  · rename_i hlt
    simp only [List.cons_append, List.nil_append]
    rw [applyOps_fresh_at _ _ _ _ _ (by simp only [List.length_append, List.length_take]; omega)]
    simp only [List.length_drop, List.append_assoc]
    rw [← List.append_assoc (List.take rbuf.length buf), List.take_append_drop]
    congr 1
    omega
  · have : rbuf.length = buf.length := by omega
    simp [this]

/-! ### All windows -/

theorem readOld_length_le (old : List Byte) (ro n : Nat) : (readOld old ro n).length ≤ n := by
  simp only [readOld, List.length_take]; omega

theorem writeWindows_no_done' (P : Params) (old : List Byte) :
    ∀ (ws : List Nat) (new : List Byte) (ro : Nat), OOp.done ∉ writeWindows P old new ro ws := by
  intro ws
  induction ws with
  | nil => intro new ro; simp [writeWindows]
  | cons w ws ih =>
    intro new ro
    simp only [writeWindows, List.mem_append, not_or]
    exact ⟨window_no_done P _ _ (readOld_length_le _ _ _), ih _ _⟩

/-- The old file from `ro` on is what the read returns, followed by the rest. -/
theorem old_drop_split (old : List Byte) (ro w : Nat) :
    old.drop ro = readOld old ro w ++ old.drop (ro + w) := by
  rw [readOld, ← List.drop_drop, List.take_append_drop]

/-- Past old EOF the rest is empty, otherwise the read is full: nothing further is dropped. -/
theorem old_rest_drop (old : List Byte) (ro w : Nat) :
    (old.drop (ro + w)).drop (w - (readOld old ro w).length) = old.drop (ro + w) := by
  simp only [readOld, List.length_take, List.length_drop]
  by_cases h : w ≤ old.length - ro
  · rw [show w - min w (old.length - ro) = 0 by omega, List.drop_zero]
  · rw [List.drop_drop, List.drop_eq_nil_of_le (by omega), List.drop_eq_nil_of_le (by omega)]

/-- Effect of the whole overlay on a file `N ++ old[ro, …)` positioned at `ro = N.length`. -/
theorem applyOps_writeWindows (P : Params) (old : List Byte) :
    ∀ (ws : List Nat) (new N : List Byte) (ro : Nat) (rest : List OOp),
      N.length = ro → ws.sum ≤ new.length →
      applyOps (writeWindows P old new ro ws ++ rest) (N ++ old.drop ro) ro
        = applyOps rest (N ++ (new.take ws.sum ++ old.drop (ro + ws.sum))) (ro + ws.sum) := by
  intro ws
  induction ws with
  | nil =>
    intro new N ro rest hN _
    simp [writeWindows]
  | cons w ws ih =>
    intro new N ro rest hN hsum
    simp only [List.sum_cons] at hsum ⊢
    have hw : (new.take w).length = w := by simp only [List.length_take]; omega
    simp only [writeWindows, hw, List.append_assoc]
    subst hN
    rw [old_drop_split old N.length w,
      applyOps_window P _ _ N _ _ (by rw [hw]; exact readOld_length_le _ _ _),
      hw, old_rest_drop, ← List.append_assoc N]
    rw [ih (new.drop w) (N ++ new.take w) (N.length + w) rest
      (by simp only [List.length_append, hw]) (by simp only [List.length_drop]; omega)]
    rw [List.take_add, Nat.add_assoc]
    simp only [List.append_assoc]

/-- Splitting the window list splits the overlay (general read offset). -/
theorem writeWindows_append (P : Params) (old : List Byte) :
    ∀ (ws₁ ws₂ : List Nat) (new : List Byte) (ro : Nat), ws₁.sum ≤ new.length →
      writeWindows P old new ro (ws₁ ++ ws₂) =
        writeWindows P old new ro ws₁ ++
          writeWindows P old (new.drop ws₁.sum) (ro + ws₁.sum) ws₂ := by
  intro ws₁
  induction ws₁ with
  | nil => intro ws₂ new ro _; simp [writeWindows]
  | cons w ws ih =>
    intro ws₂ new ro hsum
    simp only [List.sum_cons] at hsum ⊢
    have hw : (new.take w).length = w := by simp only [List.length_take]; omega
    simp only [List.cons_append, writeWindows, hw, List.append_assoc]
    rw [ih ws₂ (new.drop w) (ro + w) (by simp only [List.length_drop]; omega),
      List.drop_drop, Nat.add_assoc]

/-! ### bufio -/

theorem procWrite_spec (W : Nat) :
    ∀ (fuel wr rem : Nat),
      (procWrite W fuel wr rem).1.sum + wr = (procWrite W fuel wr rem).2 ∧
      (procWrite W fuel wr rem).2 ≤ wr + rem := by
  intro fuel
  induction fuel with
  | zero => intro wr rem; simp [procWrite]
  | succ fuel ih =>
    intro wr rem
    simp only [procWrite]
    split
    · have := ih (wr + min W rem) (rem - min W rem)
      rcases hp : procWrite W fuel (wr + min W rem) (rem - min W rem) with ⟨ws, t⟩
      simp only [hp] at this
      simp only [List.sum_cons]
      omega
    · simp

/-- The processor makes progress on a non-empty write. -/
theorem procWrite_pos (W : Nat) (hW : 0 < W) (fuel wr rem : Nat) (h : wr < rem) :
    wr < (procWrite W (fuel + 1) wr rem).2 := by
  simp only [procWrite, if_pos h]
  have := procWrite_spec W fuel (wr + min W rem) (rem - min W rem)
  rcases hp : procWrite W fuel (wr + min W rem) (rem - min W rem) with ⟨ws, t⟩
  simp only [hp] at this
  show wr < t
  omega

/-- `bufio.Writer.Write` on an empty buffer. -/
theorem bufioWrite_zero (W : Nat) (hW : 0 < W) :
    ∀ (fuel n : Nat), n < fuel →
      (bufioWrite W fuel 0 n).1.sum + (bufioWrite W fuel 0 n).2 = n ∧
      (bufioWrite W fuel 0 n).2 ≤ W := by
  intro fuel
  induction fuel with
  | zero => intro n h; omega
  | succ fuel ih =>
    intro n hn
    simp only [bufioWrite]
    split
    · rename_i hgt
      simp only [if_true]
      have hs := procWrite_spec W (n + 1) 0 n
      have hp := procWrite_pos W hW n 0 n (by omega)
      rcases hpw : procWrite W (n + 1) 0 n with ⟨ws, t⟩
      simp only [hpw] at hs hp
      have := ih (n - t) (by omega)
      rcases hbw : bufioWrite W fuel 0 (n - t) with ⟨ws', b⟩
      simp only [hbw] at this
      simp only [List.sum_append]
      omega
    · simp only [List.sum_nil]
      omega

/-- `bufio.Writer.Write` in general: nothing is lost and the buffer never overflows. -/
theorem bufioWrite_spec (W : Nat) (hW : 0 < W) (fuel buffered n : Nat) (hf : n + 1 < fuel)
    (hb : buffered ≤ W) :
    (bufioWrite W fuel buffered n).1.sum + (bufioWrite W fuel buffered n).2 = buffered + n ∧
    (bufioWrite W fuel buffered n).2 ≤ W := by
  by_cases hz : buffered = 0
  · subst hz
    have := bufioWrite_zero W hW fuel n (by omega)
    omega
  · cases fuel with
    | zero => omega
    | succ fuel =>
      simp only [bufioWrite]
      split
      · have := bufioWrite_zero W hW fuel (n - (W - buffered)) (by omega)
        rcases hbw : bufioWrite W fuel 0 (n - (W - buffered)) with ⟨ws, b⟩
        simp only [hbw] at this
        simp only [List.sum_cons]
        omega
      · simp only [List.sum_nil]
        omega

end Wharf.Overlay
