/-
  Helper lemmas for the end-to-end C03 theorems (Wharf/Props/C03E2E.lean): the instrumented run computes what
  `Patch.patch` computes, every checkpoint is a loop state from which the loop can be restarted, and the
  resumed run over a crash state simulates the uninterrupted one.
-/
import Wharf.Model.PatchResume
import Wharf.Proofs.PatchMsg
import Wharf.Proofs.Resume

namespace Wharf.PatchResume
open Wharf Wharf.Patch Wharf.PatchMsg

/-! ### the instrumented run computes the same result as the original -/

theorem dropCks_ok_iff {α} {x : Outcome (α × List Ckpt)} {a : α} :
    dropCks x = .ok a ↔ ∃ cks, x = .ok (a, cks) := by
  cases x with
  | ok v =>
    cases v with
    | mk a' cks =>
      constructor
      · intro h; cases h; exact ⟨cks, rfl⟩
      · intro ⟨_, h⟩; cases h; rfl
  | err e =>
    constructor
    · intro h; cases h
    · intro ⟨_, h⟩; cases h
  | panic p =>
    constructor
    · intro h; cases h
    · intro ⟨_, h⟩; cases h

theorem rsyncLoopCk_fst (E : Env) (T i : Nat) (msgs : List WMsg) (w : List Byte) (reads : List Nat) :
    dropCks (rsyncLoopCk E T i msgs w reads) = rsyncLoop E msgs w reads := by
  induction msgs generalizing w reads with
  | nil => rfl
  | cons m rest ih =>
    rw [rsyncLoopCk, rsyncLoop]
    by_cases hty : (asSyncOp m).type = heyYouDidIt
    · rw [if_pos hty, if_pos hty]; rfl
    · rw [if_neg hty, if_neg hty]
      cases hop : applyOp E (asSyncOp m) w reads with
      | ok v =>
        cases v with
        | mk w' reads' =>
          dsimp only
          rw [← ih]
          cases rsyncLoopCk E T i rest w' reads' with
          | ok v => cases v; rfl
          | err e => rfl
          | panic p => rfl
      | err e => rfl
      | panic p => rfl

theorem bsdiffLoopCk_fst (E : Env) (T i t flen : Nat) (msgs : List WMsg) (off : Int) (w : List Byte) :
    dropCks (bsdiffLoopCk E T i t flen msgs off w) = bsdiffLoop E t flen msgs off w := by
  induction msgs generalizing off w with
  | nil => rfl
  | cons m rest ih =>
    rw [bsdiffLoopCk, bsdiffLoop]
    by_cases hty : (asControl m).eof = true
    · rw [if_pos hty, if_pos hty]; rfl
    · rw [if_neg hty, if_neg hty]
      cases hop : applyControl E t flen (asControl m) off w with
      | ok v =>
        cases v with
        | mk off' w' =>
          dsimp only
          rw [← ih]
          cases bsdiffLoopCk E T i t flen rest off' w' with
          | ok v => cases v; rfl
          | err e => rfl
          | panic p => rfl
      | err e => rfl
      | panic p => rfl

theorem procRelayCk_fst (E : Env) (T i : Nat) (op : SyncOp) (rest1 : List WMsg) (r : Res) :
    dropCks (procRelayCk E T i op rest1 r) = procRelay E i op rest1 r := by
  unfold procRelayCk procRelay
  dsimp only
  by_cases hty : op.type = heyYouDidIt
  · rw [if_pos hty, if_pos hty]; rfl
  · rw [if_neg hty, if_neg hty]
    cases applyOp E op [] r.reads with
    | ok v =>
      cases v with
      | mk w reads =>
        dsimp only [bind_ok]
        rw [← rsyncLoopCk_fst E T i]
        cases rsyncLoopCk E T i rest1 w reads with
        | ok v => obtain ⟨⟨a, b, c⟩, d⟩ := v; rfl
        | err e => rfl
        | panic p => rfl
    | err e => rfl
    | panic p => rfl

theorem procRsyncCk_fst (E : Env) (T i : Nat) (rest : List WMsg) (r : Res) :
    dropCks (procRsyncCk E T i rest r) = procRsync E i rest r := by
  cases rest with
  | nil => rfl
  | cons om rest1 =>
    unfold procRsyncCk procRsync
    dsimp only
    cases isFullFileOp E i (asSyncOp om) with
    | ok full =>
      dsimp only [bind_ok]
      cases full with
      | some t =>
        dsimp only
        unfold procFull
        cases E.pool.readAll t with
        | ok bytes =>
          dsimp only
          cases skipOps rest1 with
          | ok v => rfl
          | err e => rfl
          | panic p => rfl
        | err e => rfl
        | panic p => rfl
      | none => exact procRelayCk_fst E T i _ rest1 r
    | err e => rfl
    | panic p => rfl

theorem procBsdiffCk_fst (E : Env) (T i : Nat) (rest : List WMsg) (r : Res) :
    dropCks (procBsdiffCk E T i rest r) = procBsdiff E i rest r := by
  cases rest with
  | nil => rfl
  | cons bm rest1 =>
    unfold procBsdiffCk procBsdiff
    dsimp only
    cases idx E.pool.nfiles (asBsdiffHeader bm) "processBsdiff targetPool.GetReadSeeker(targetIndex)" with
    | ok t =>
      dsimp only [bind_ok]
      cases E.pool.flen t with
      | ok flen =>
        dsimp only
        rw [← bsdiffLoopCk_fst E T i]
        cases bsdiffLoopCk E T i t flen rest1 0 [] with
        | ok v =>
          obtain ⟨⟨rest2, w⟩, cks⟩ := v
          dsimp only [bind_ok, dropCks]
          cases rest2 with
          | nil => rfl
          | cons sm rest' =>
            dsimp only
            by_cases hs : (asSyncOp sm).type ≠ heyYouDidIt
            · rw [if_pos hs, if_pos hs]
            · rw [if_neg hs, if_neg hs]
              by_cases hl : w.length ≠ E.newSizes.getD i 0
              · rw [if_pos hl, if_pos hl]
              · rw [if_neg hl, if_neg hl]
        | err e => rfl
        | panic p => rfl
      | err e => rfl
      | panic p => rfl
    | err e => rfl
    | panic p => rfl

theorem processFileCk_fst (E : Env) (T i : Nat) (msgs : List WMsg) (r : Res) :
    dropCks (processFileCk E T i msgs r) = processFile E i msgs r := by
  cases msgs with
  | nil => rfl
  | cons hm rest =>
    rw [processFile_cons]
    unfold processFileCk
    dsimp only
    by_cases h1 : (asSyncHeader hm).fileIndex ≠ i
    · rw [if_pos h1, if_pos h1]; rfl
    · rw [if_neg h1, if_neg h1]
      by_cases h2 : (asSyncHeader hm).type ≠ kindRsync ∧ (asSyncHeader hm).type ≠ kindBsdiff
      · rw [if_pos h2, if_pos h2]; rfl
      · rw [if_neg h2, if_neg h2]
        show dropCks (if skipOf E i = true then _ else _) = _
        by_cases h3 : skipOf E i = true
        · rw [if_pos h3, if_pos h3]
          cases skipFile (asSyncHeader hm).type rest with
          | ok v => rfl
          | err e => rfl
          | panic p => rfl
        · rw [if_neg h3, if_neg h3]
          by_cases h4 : (asSyncHeader hm).type = kindRsync
          · rw [if_pos h4, if_pos h4]; exact procRsyncCk_fst E T i rest r
          · rw [if_neg h4, if_neg h4]; exact procBsdiffCk_fst E T i rest r

theorem patchFromCk_fst (E : Env) (T n i : Nat) (msgs : List WMsg) (r : Res) :
    dropCks (patchFromCk E T n i msgs r) = patchFrom E n i msgs r := by
  induction n generalizing i msgs r with
  | zero => rfl
  | succ n ih =>
    rw [patchFromCk, patchFrom, ← processFileCk_fst E T]
    cases processFileCk E T i msgs r with
    | ok v =>
      obtain ⟨⟨rest, r'⟩, cks⟩ := v
      dsimp only [dropCks]
      rw [← ih]
      cases patchFromCk E T n (i + 1) rest r' with
      | ok v => cases v; rfl
      | err e => rfl
      | panic p => rfl
    | err e => rfl
    | panic p => rfl

theorem patchCk_fst (E : Env) (msgs : List WMsg) : dropCks (patchCk E msgs) = patch E msgs :=
  patchFromCk_fst E msgs.length _ 0 msgs {}

/-! ### entry writers over an existing file -/

/-- the writer state `s` stands for the accumulated content `w`: the offset is its length and the file starts
    with it -/
def Agree (s : W) (w : List Byte) : Prop := s.off = w.length ∧ s.file.take s.off = w

theorem Agree.le {s : W} {w : List Byte} (h : Agree s w) : s.off ≤ s.file.length :=
  Resume.take_eq_length_le _ _ _ h.2 h.1.symm

theorem writeAt_of_le (disk : List Byte) (off : Nat) (c : List Byte) (h : off ≤ disk.length) :
    Resume.writeAt disk off c = disk.take off ++ c ++ disk.drop (off + c.length) := by
  unfold Resume.writeAt
  have : ¬ disk.length < off := by omega
  simp only [this, if_false]

theorem write_agree (s : W) (w b : List Byte) (h : Agree s w) :
    Agree (s.write b) (w ++ b) ∧ (s.write b).file.length = max s.file.length (w.length + b.length) := by
  have hle := h.le
  obtain ⟨hoff, htk⟩ := h
  unfold W.write
  rw [writeAt_of_le _ _ _ hle]
  have hl : (s.file.take s.off ++ b).length = s.off + b.length := by
    simp only [List.length_append, List.length_take]; omega
  refine ⟨⟨?_, ?_⟩, ?_⟩
  · simp only [List.length_append]; omega
  · show (s.file.take s.off ++ b ++ s.file.drop (s.off + b.length)).take (s.off + b.length) = w ++ b
    rw [List.take_append_of_le_length (by omega), ← hl, List.take_length, htk]
  · show (s.file.take s.off ++ b ++ s.file.drop (s.off + b.length)).length = _
    simp only [List.length_append, List.length_take, List.length_drop]
    omega

/-- a file of the final size whose writer stands for a content of that size IS that content -/
theorem Agree.file_eq {s : W} {w : List Byte} (h : Agree s w) (hl : s.file.length = w.length) : s.file = w := by
  obtain ⟨hoff, htk⟩ := h
  rw [← htk, hoff, ← hl, List.take_length]

/-- consecutive `Write` calls compose: writing `a` then `b` is writing `a ++ b` (the model writes the bytes of one
    message with a single `writeAt`, the Go code with several `Write` calls) -/
theorem W.write_write (s : W) (a b : List Byte) (h : s.off ≤ s.file.length) :
    (s.write a).write b = s.write (a ++ b) := by
  unfold W.write
  dsimp only
  have hl : (s.file.take s.off ++ a).length = s.off + a.length := by
    simp only [List.length_append, List.length_take]; omega
  have h1 : s.off + a.length ≤ (Resume.writeAt s.file s.off a).length := by
    rw [writeAt_of_le _ _ _ h]
    simp only [List.length_append, List.length_take, List.length_drop]; omega
  rw [writeAt_of_le _ _ _ h1, writeAt_of_le _ _ _ h, writeAt_of_le _ _ _ h]
  congr 1
  · have e1 : (s.file.take s.off ++ a ++ s.file.drop (s.off + a.length)).take (s.off + a.length)
        = s.file.take s.off ++ a := List.take_left' hl
    have e2 : (s.file.take s.off ++ a ++ s.file.drop (s.off + a.length)).drop (s.off + a.length + b.length)
        = s.file.drop (s.off + (a ++ b).length) := by
      rw [List.drop_append, List.drop_of_length_le (by omega), List.nil_append, hl, List.drop_drop,
        List.length_append]
      congr 1; omega
    rw [e1, e2]
    simp only [List.append_assoc]
  · rw [List.length_append]; omega

/-! ### what a message writes does not depend on what was written before -/

theorem applyOp_split (E : Env) (op : SyncOp) (w : List Byte) (reads : List Nat) :
    applyOp E op w reads =
      (match applyOp E op [] [] with
       | .ok (b, d) => .ok (w ++ b, reads ++ d)
       | .err e => .err e
       | .panic p => .panic p) := by
  unfold applyOp
  by_cases h1 : op.type = opBlockRange
  · simp only [if_pos h1, monad_bind_eq]
    cases idx E.pool.nfiles op.fileIndex "ApplySingleFull pool.GetSize(op.FileIndex)" with
    | ok f =>
      dsimp only [bind_ok]
      split
      · rfl
      · split <;> simp_all
    | err e => rfl
    | panic p => rfl
  · simp only [if_neg h1]
    by_cases h2 : op.type = opData
    · simp only [if_pos h2, List.nil_append, List.append_nil]
    · simp only [if_neg h2]

theorem applyControl_split (E : Env) (t flen : Nat) (c : Control) (off : Int) (w : List Byte) :
    applyControl E t flen c off w =
      (match applyControl E t flen c off [] with
       | .ok (off', b) => .ok (off', w ++ b)
       | .err e => .err e
       | .panic p => .panic p) := by
  unfold applyControl
  by_cases h1 : off < 0 ∨ off > flen
  · simp only [if_pos h1]
  · simp only [if_neg h1, monad_bind_eq]
    split
    · split
      · split
        · rfl
        · simp only [bind_ok, List.nil_append, List.append_assoc]
      · rfl
      · rfl
    · simp only [bind_ok, List.nil_append, List.append_assoc]

/-! ### the loops over an entry writer simulate the instrumented loops (same remaining messages, same
  checkpoints, writer standing for the accumulated content) -/

theorem rsyncLoopR_sim (E : Env) (T i : Nat) (msgs : List WMsg) :
    ∀ (s : W) (w : List Byte) (reads : List Nat) (rest : List WMsg) (w' : List Byte) (reads' : List Nat)
      (cks : List Ckpt), Agree s w →
      rsyncLoopCk E T i msgs w reads = .ok ((rest, w', reads'), cks) →
      ∃ s', rsyncLoopR E T i msgs s = .ok ((rest, s'), cks) ∧ Agree s' w' ∧ (∃ b, w' = w ++ b) ∧
        s'.file.length = max s.file.length w'.length := by
  induction msgs with
  | nil => intro s w reads rest w' reads' cks _ h; cases h
  | cons m rest0 ih =>
    intro s w reads rest w' reads' cks hag h
    rw [rsyncLoopCk] at h
    rw [rsyncLoopR]
    by_cases hty : (asSyncOp m).type = heyYouDidIt
    · rw [if_pos hty] at h
      rw [if_pos hty]
      cases h
      refine ⟨s, by rw [hag.1], hag, ⟨[], (List.append_nil _).symm⟩, ?_⟩
      have := hag.le
      rw [← hag.1]; omega
    · rw [if_neg hty] at h
      rw [if_neg hty]
      rw [applyOp_split] at h
      unfold applyOpW
      cases hb : applyOp E (asSyncOp m) [] [] with
      | ok v =>
        obtain ⟨b, d⟩ := v
        rw [hb] at h
        dsimp only at h ⊢
        cases hin : rsyncLoopCk E T i rest0 (w ++ b) (reads ++ d) with
        | ok v1 =>
          obtain ⟨⟨rest1, w1, reads1⟩, cks1⟩ := v1
          rw [hin] at h
          cases h
          obtain ⟨hag1, hlen1⟩ := write_agree s w b hag
          obtain ⟨s', hR, hag', ⟨b', hb'⟩, hlen'⟩ := ih (s.write b) (w ++ b) (reads ++ d) _ _ _ _ hag1 hin
          refine ⟨s', ?_, hag', ⟨b ++ b', by rw [hb', List.append_assoc]⟩, ?_⟩
          · rw [hR, hag.1]
          · rw [hlen', hlen1, hb']
            simp only [List.length_append]
            omega
        | err e => rw [hin] at h; cases h
        | panic p => rw [hin] at h; cases h
      | err e => rw [hb] at h; cases h
      | panic p => rw [hb] at h; cases h

theorem bsdiffLoopR_sim (E : Env) (T i t flen : Nat) (msgs : List WMsg) :
    ∀ (s : W) (off : Int) (w : List Byte) (rest : List WMsg) (w' : List Byte)
      (cks : List Ckpt), Agree s w →
      bsdiffLoopCk E T i t flen msgs off w = .ok ((rest, w'), cks) →
      ∃ s', bsdiffLoopR E T i t flen msgs off s = .ok ((rest, s'), cks) ∧ Agree s' w' ∧ (∃ b, w' = w ++ b) ∧
        s'.file.length = max s.file.length w'.length := by
  induction msgs with
  | nil => intro s off w rest w' cks _ h; cases h
  | cons m rest0 ih =>
    intro s off w rest w' cks hag h
    rw [bsdiffLoopCk] at h
    rw [bsdiffLoopR]
    by_cases hty : (asControl m).eof = true
    · rw [if_pos hty] at h
      rw [if_pos hty]
      cases h
      refine ⟨s, by rw [hag.1], hag, ⟨[], (List.append_nil _).symm⟩, ?_⟩
      have := hag.le
      rw [← hag.1]; omega
    · rw [if_neg hty] at h
      rw [if_neg hty]
      rw [applyControl_split] at h
      unfold applyControlW
      cases hb : applyControl E t flen (asControl m) off [] with
      | ok v =>
        obtain ⟨off1, b⟩ := v
        rw [hb] at h
        dsimp only at h ⊢
        cases hin : bsdiffLoopCk E T i t flen rest0 off1 (w ++ b) with
        | ok v1 =>
          obtain ⟨⟨rest1, w1⟩, cks1⟩ := v1
          rw [hin] at h
          cases h
          obtain ⟨hag1, hlen1⟩ := write_agree s w b hag
          obtain ⟨s', hR, hag', ⟨b', hb'⟩, hlen'⟩ := ih (s.write b) off1 (w ++ b) _ _ _ hag1 hin
          refine ⟨s', ?_, hag', ⟨b ++ b', by rw [hb', List.append_assoc]⟩, ?_⟩
          · rw [hR, hag.1]
          · rw [hlen', hlen1, hb']
            simp only [List.length_append]
            omega
        | err e => rw [hin] at h; cases h
        | panic p => rw [hin] at h; cases h
      | err e => rw [hb] at h; cases h
      | panic p => rw [hb] at h; cases h

theorem applyControl_off (E : Env) (t flen : Nat) (c : Control) (off : Int) (w : List Byte) (off1 : Int)
    (w1 : List Byte) (h : applyControl E t flen c off w = .ok (off1, w1)) :
    off1 = off + c.add.length + c.seek := by
  unfold applyControl at h
  by_cases h1 : off < 0 ∨ off > flen
  · rw [if_pos h1] at h; cases h
  · rw [if_neg h1, monad_bind_eq] at h
    obtain ⟨added, _, h⟩ := bind_eq_ok h
    cases h
    rfl

/-! ### every checkpoint is a loop state: the loop restarted there gives the same result and the later checkpoints -/

theorem hey_type : (asSyncOp mkHey).type = heyYouDidIt := by decide
theorem eof_eof : (asControl mkControlEof).eof = true := by decide

theorem singleton_eq_append_cons {α} {a b : α} {pre tail : List α} (h : [a] = pre ++ b :: tail) :
    pre = [] ∧ a = b ∧ tail = [] := by
  cases pre with
  | nil => simp only [List.nil_append, List.cons.injEq] at h; exact ⟨rfl, h.1, h.2.symm⟩
  | cons c pre' =>
    simp only [List.cons_append, List.cons.injEq] at h
    have := congrArg List.length h.2
    simp at this

/-- `msgs = p ++ ms`: `p` are the messages of the loop consumed before the checkpoint, `ms` the ones still to be
    read.  Terminating the consumed part with an end marker makes the original loop produce exactly the
    accumulator `wc` whose length the checkpoint records. -/
theorem rsyncLoopCk_snap (E : Env) (T i : Nat) (msgs : List WMsg) :
    ∀ (w : List Byte) (reads : List Nat) (x : List WMsg × List Byte × List Nat) (cks pre : List Ckpt) (ck : Ckpt)
      (tail : List Ckpt),
      rsyncLoopCk E T i msgs w reads = .ok (x, cks) → cks = pre ++ ck :: tail →
      ∃ p ms wc rc, msgs = p ++ ms ∧ ms ≠ [] ∧ ck = ⟨i, T - ms.length, .rsync wc.length⟩ ∧
        rsyncLoopCk E T i ms wc rc = .ok (x, ck :: tail) ∧
        rsyncLoop E (p ++ [mkHey]) w reads = .ok ([], wc, rc) := by
  induction msgs with
  | nil => intro w reads x cks pre ck tail h; cases h
  | cons m rest0 ih =>
    intro w reads x cks pre ck tail h0 hsplit
    have h := h0
    rw [rsyncLoopCk] at h
    have hwhole : ∀ tl, cks = ck :: tl → tl = tail → ck = ⟨i, T - (rest0.length + 1), .rsync w.length⟩ →
        ∃ p ms wc rc, m :: rest0 = p ++ ms ∧ ms ≠ [] ∧ ck = ⟨i, T - ms.length, .rsync wc.length⟩ ∧
          rsyncLoopCk E T i ms wc rc = .ok (x, ck :: tail) ∧
          rsyncLoop E (p ++ [mkHey]) w reads = .ok ([], wc, rc) := by
      intro tl hc ht hck
      refine ⟨[], m :: rest0, w, reads, rfl, by simp, hck, ?_, ?_⟩
      · rw [h0, hc, ht]
      · rw [List.nil_append, rsyncLoop, if_pos hey_type]
    by_cases hty : (asSyncOp m).type = heyYouDidIt
    · rw [if_pos hty] at h
      cases h
      obtain ⟨rfl, rfl, rfl⟩ := singleton_eq_append_cons hsplit
      exact hwhole [] rfl rfl rfl
    · rw [if_neg hty] at h
      cases hop : applyOp E (asSyncOp m) w reads with
      | ok v =>
        obtain ⟨w1, reads1⟩ := v
        rw [hop] at h
        dsimp only at h
        cases hin : rsyncLoopCk E T i rest0 w1 reads1 with
        | ok v1 =>
          obtain ⟨x1, cks1⟩ := v1
          rw [hin] at h
          cases h
          cases pre with
          | nil =>
            simp only [List.nil_append, List.cons.injEq] at hsplit
            exact hwhole cks1 (by rw [hsplit.1]) hsplit.2 hsplit.1.symm
          | cons a pre' =>
            simp only [List.cons_append, List.cons.injEq] at hsplit
            obtain ⟨p', ms, wc, rc, hms, hne, hck, hrun, hpre⟩ := ih w1 reads1 _ cks1 pre' ck tail hin hsplit.2
            refine ⟨m :: p', ms, wc, rc, by rw [hms]; rfl, hne, hck, hrun, ?_⟩
            rw [List.cons_append, rsyncLoop, if_neg hty, hop]
            exact hpre
        | err e => rw [hin] at h; cases h
        | panic p => rw [hin] at h; cases h
      | err e => rw [hop] at h; cases h
      | panic p => rw [hop] at h; cases h

theorem bsdiffLoopCk_snap (E : Env) (T i t flen : Nat) (msgs : List WMsg) :
    ∀ (off : Int) (w : List Byte) (x : List WMsg × List Byte) (cks pre : List Ckpt) (ck : Ckpt)
      (tail : List Ckpt),
      bsdiffLoopCk E T i t flen msgs off w = .ok (x, cks) → cks = pre ++ ck :: tail →
      ∃ p ms offc wc, msgs = p ++ ms ∧ ms ≠ [] ∧ ck = ⟨i, T - ms.length, .bsdiff t offc wc.length⟩ ∧
        bsdiffLoopCk E T i t flen ms offc wc = .ok (x, ck :: tail) ∧
        bsdiffLoop E t flen (p ++ [mkControlEof]) off w = .ok ([], wc) ∧ offc = ctrlOffset p off := by
  induction msgs with
  | nil => intro off w x cks pre ck tail h; cases h
  | cons m rest0 ih =>
    intro off w x cks pre ck tail h0 hsplit
    have h := h0
    rw [bsdiffLoopCk] at h
    have hwhole : ∀ tl, cks = ck :: tl → tl = tail → ck = ⟨i, T - (rest0.length + 1), .bsdiff t off w.length⟩ →
        ∃ p ms offc wc, m :: rest0 = p ++ ms ∧ ms ≠ [] ∧ ck = ⟨i, T - ms.length, .bsdiff t offc wc.length⟩ ∧
          bsdiffLoopCk E T i t flen ms offc wc = .ok (x, ck :: tail) ∧
          bsdiffLoop E t flen (p ++ [mkControlEof]) off w = .ok ([], wc) ∧ offc = ctrlOffset p off := by
      intro tl hc ht hck
      refine ⟨[], m :: rest0, off, w, rfl, by simp, hck, ?_, ?_, rfl⟩
      · rw [h0, hc, ht]
      · rw [List.nil_append, bsdiffLoop, if_pos eof_eof]
    by_cases hty : (asControl m).eof = true
    · rw [if_pos hty] at h
      cases h
      obtain ⟨rfl, rfl, rfl⟩ := singleton_eq_append_cons hsplit
      exact hwhole [] rfl rfl rfl
    · rw [if_neg hty] at h
      cases hop : applyControl E t flen (asControl m) off w with
      | ok v =>
        obtain ⟨off1, w1⟩ := v
        rw [hop] at h
        dsimp only at h
        cases hin : bsdiffLoopCk E T i t flen rest0 off1 w1 with
        | ok v1 =>
          obtain ⟨x1, cks1⟩ := v1
          rw [hin] at h
          cases h
          cases pre with
          | nil =>
            simp only [List.nil_append, List.cons.injEq] at hsplit
            exact hwhole cks1 (by rw [hsplit.1]) hsplit.2 hsplit.1.symm
          | cons a pre' =>
            simp only [List.cons_append, List.cons.injEq] at hsplit
            obtain ⟨p', ms, offc, wc, hms, hne, hck, hrun, hpre, hoff⟩ :=
              ih off1 w1 _ cks1 pre' ck tail hin hsplit.2
            refine ⟨m :: p', ms, offc, wc, by rw [hms]; rfl, hne, hck, hrun, ?_, ?_⟩
            · rw [List.cons_append, bsdiffLoop, if_neg hty, hop]
              exact hpre
            · rw [hoff, ctrlOffset, applyControl_off E t flen _ off w off1 w1 hop]
        | err e => rw [hin] at h; cases h
        | panic p => rw [hin] at h; cases h
      | err e => rw [hop] at h; cases h
      | panic p => rw [hop] at h; cases h

/-! ### the remaining messages are a proper suffix; checkpoints are ordered -/

theorem suffix_cons_of {α} {rest rest0 : List α} (m : α) (h : rest <:+ rest0 ∧ rest.length < rest0.length) :
    rest <:+ m :: rest0 ∧ rest.length < (m :: rest0).length :=
  ⟨List.IsSuffix.trans h.1 (List.suffix_cons m rest0), by simp only [List.length_cons]; omega⟩

theorem skipOps_suffix (msgs rest : List WMsg) (h : skipOps msgs = .ok rest) :
    rest <:+ msgs ∧ rest.length < msgs.length := by
  induction msgs with
  | nil => cases h
  | cons m rest0 ih =>
    rw [skipOps] at h
    split at h
    · cases h; exact ⟨List.suffix_cons m rest, by simp⟩
    · exact suffix_cons_of m (ih h)

theorem rsyncLoop_suffix (E : Env) (msgs : List WMsg) (w : List Byte) (reads : List Nat) (rest : List WMsg)
    (w' : List Byte) (reads' : List Nat) (h : rsyncLoop E msgs w reads = .ok (rest, w', reads')) :
    rest <:+ msgs ∧ rest.length < msgs.length :=
  skipOps_suffix _ _ (rsyncLoop_skipOps E _ _ _ _ _ _ h)

theorem skipCtrls_suffix (msgs rest : List WMsg) (h : skipCtrls msgs = .ok rest) :
    rest <:+ msgs ∧ rest.length < msgs.length := by
  induction msgs with
  | nil => cases h
  | cons m rest0 ih =>
    rw [skipCtrls] at h
    split at h
    · cases h; exact ⟨List.suffix_cons m rest, by simp⟩
    · exact suffix_cons_of m (ih h)

theorem bsdiffLoop_suffix (E : Env) (t flen : Nat) (msgs : List WMsg) (off : Int) (w : List Byte) (rest : List WMsg)
    (w' : List Byte) (h : bsdiffLoop E t flen msgs off w = .ok (rest, w')) :
    rest <:+ msgs ∧ rest.length < msgs.length :=
  skipCtrls_suffix _ _ (bsdiffLoop_skipCtrls E _ _ _ _ _ _ _ h)

theorem rsyncLoopCk_ok (E : Env) (T i : Nat) {msgs : List WMsg} {w : List Byte} {reads : List Nat}
    {x : List WMsg × List Byte × List Nat} {cks : List Ckpt}
    (h : rsyncLoopCk E T i msgs w reads = .ok (x, cks)) : rsyncLoop E msgs w reads = .ok x := by
  rw [← rsyncLoopCk_fst E T i, h]; rfl

theorem bsdiffLoopCk_ok (E : Env) (T i t flen : Nat) {msgs : List WMsg} {off : Int} {w : List Byte}
    {x : List WMsg × List Byte} {cks : List Ckpt}
    (h : bsdiffLoopCk E T i t flen msgs off w = .ok (x, cks)) : bsdiffLoop E t flen msgs off w = .ok x := by
  rw [← bsdiffLoopCk_fst E T i, h]; rfl

/-- checkpoints `cks` belong to file `i`, are strictly ordered by message index and lie in `[lo, hi)` -/
def CksIn (i : Nat) (cks : List Ckpt) (lo hi : Nat) : Prop :=
  cks.Pairwise (fun a b => a.msgIndex < b.msgIndex) ∧
  ∀ ck ∈ cks, ck.fileIndex = i ∧ lo ≤ ck.msgIndex ∧ ck.msgIndex < hi

theorem rsyncLoopCk_bounds (E : Env) (T i : Nat) (msgs : List WMsg) :
    ∀ (w : List Byte) (reads : List Nat) (rest : List WMsg) (w' : List Byte) (reads' : List Nat) (cks : List Ckpt),
      rsyncLoopCk E T i msgs w reads = .ok ((rest, w', reads'), cks) → msgs.length ≤ T →
      CksIn i cks (T - msgs.length) (T - rest.length) := by
  induction msgs with
  | nil => intro w reads rest w' reads' cks h; cases h
  | cons m rest0 ih =>
    intro w reads rest w' reads' cks h0 hT
    have hsuf := (rsyncLoop_suffix E _ _ _ _ _ _ (rsyncLoopCk_ok E T i h0)).2
    have h := h0
    rw [rsyncLoopCk] at h
    simp only [List.length_cons] at hT hsuf ⊢
    by_cases hty : (asSyncOp m).type = heyYouDidIt
    · rw [if_pos hty] at h
      cases h
      refine ⟨List.pairwise_singleton _ _, ?_⟩
      intro ck hck
      simp only [List.mem_singleton] at hck
      subst hck
      exact ⟨rfl, Nat.le_refl _, by show T - (rest0.length + 1) < T - rest0.length; omega⟩
    · rw [if_neg hty] at h
      cases hop : applyOp E (asSyncOp m) w reads with
      | ok v =>
        obtain ⟨w1, reads1⟩ := v
        rw [hop] at h
        dsimp only at h
        cases hin : rsyncLoopCk E T i rest0 w1 reads1 with
        | ok v1 =>
          obtain ⟨⟨rest1, w2, reads2⟩, cks1⟩ := v1
          rw [hin] at h
          cases h
          obtain ⟨hpw, hall⟩ := ih _ _ _ _ _ _ hin (by omega)
          refine ⟨List.pairwise_cons.mpr ⟨?_, hpw⟩, ?_⟩
          · intro b hb
            have := (hall b hb).2.1
            show T - (rest0.length + 1) < b.msgIndex
            omega
          · intro ck hck
            rcases List.mem_cons.mp hck with rfl | hck
            · exact ⟨rfl, Nat.le_refl _, by show T - (rest0.length + 1) < T - rest.length; omega⟩
            · obtain ⟨h1, h2, h3⟩ := hall ck hck
              exact ⟨h1, by omega, h3⟩
        | err e => rw [hin] at h; cases h
        | panic p => rw [hin] at h; cases h
      | err e => rw [hop] at h; cases h
      | panic p => rw [hop] at h; cases h

theorem bsdiffLoopCk_bounds (E : Env) (T i t flen : Nat) (msgs : List WMsg) :
    ∀ (off : Int) (w : List Byte) (rest : List WMsg) (w' : List Byte) (cks : List Ckpt),
      bsdiffLoopCk E T i t flen msgs off w = .ok ((rest, w'), cks) → msgs.length ≤ T →
      CksIn i cks (T - msgs.length) (T - rest.length) := by
  induction msgs with
  | nil => intro off w rest w' cks h; cases h
  | cons m rest0 ih =>
    intro off w rest w' cks h0 hT
    have hsuf := (bsdiffLoop_suffix E _ _ _ _ _ _ _ (bsdiffLoopCk_ok E T i t flen h0)).2
    have h := h0
    rw [bsdiffLoopCk] at h
    simp only [List.length_cons] at hT hsuf ⊢
    by_cases hty : (asControl m).eof = true
    · rw [if_pos hty] at h
      cases h
      refine ⟨List.pairwise_singleton _ _, ?_⟩
      intro ck hck
      simp only [List.mem_singleton] at hck
      subst hck
      exact ⟨rfl, Nat.le_refl _, by show T - (rest0.length + 1) < T - rest0.length; omega⟩
    · rw [if_neg hty] at h
      cases hop : applyControl E t flen (asControl m) off w with
      | ok v =>
        obtain ⟨off1, w1⟩ := v
        rw [hop] at h
        dsimp only at h
        cases hin : bsdiffLoopCk E T i t flen rest0 off1 w1 with
        | ok v1 =>
          obtain ⟨⟨rest1, w2⟩, cks1⟩ := v1
          rw [hin] at h
          cases h
          obtain ⟨hpw, hall⟩ := ih _ _ _ _ _ hin (by omega)
          refine ⟨List.pairwise_cons.mpr ⟨?_, hpw⟩, ?_⟩
          · intro b hb
            have := (hall b hb).2.1
            show T - (rest0.length + 1) < b.msgIndex
            omega
          · intro ck hck
            rcases List.mem_cons.mp hck with rfl | hck
            · exact ⟨rfl, Nat.le_refl _, by show T - (rest0.length + 1) < T - rest.length; omega⟩
            · obtain ⟨h1, h2, h3⟩ := hall ck hck
              exact ⟨h1, by omega, h3⟩
        | err e => rw [hin] at h; cases h
        | panic p => rw [hin] at h; cases h
      | err e => rw [hop] at h; cases h
      | panic p => rw [hop] at h; cases h

/-! ### one file: processing it from scratch over a disk file, and resuming it from any of its checkpoints -/

theorem agree_nil (f : List Byte) : Agree ⟨f, 0⟩ [] := ⟨rfl, List.take_zero⟩
theorem agree_self (wc : List Byte) : Agree ⟨wc, wc.length⟩ wc := ⟨rfl, List.take_length⟩

theorem take_of_prefix {w' wc b : List Byte} (h : w' = wc ++ b) : w'.take wc.length = wc := by
  rw [h, List.take_left]

/-- the file under a writer that stands for a content of the file's (prepared) size is that content -/
theorem final_file {s' : W} {w' : List Byte} {a n : Nat} (hag : Agree s' w') (hlen : s'.file.length = max a w'.length)
    (ha : a = n) (hw : w'.length = n) : s'.file = w' :=
  hag.file_eq (by rw [hlen, ha, hw, Nat.max_self])

theorem CksIn.mono {i : Nat} {cks : List Ckpt} {lo lo' hi : Nat} (h : CksIn i cks lo hi) (hlo : lo' ≤ lo) :
    CksIn i cks lo' hi :=
  ⟨h.1, fun ck hck => ⟨(h.2 ck hck).1, by have := (h.2 ck hck).2.1; omega, (h.2 ck hck).2.2⟩⟩

theorem CksIn.nil (i lo hi : Nat) : CksIn i [] lo hi := ⟨List.Pairwise.nil, fun _ h => by cases h⟩

/-- what the end-to-end proofs need to know about the body (the messages after the SyncHeader) of one processed
    file: `rest` are the messages left, `cks` the checkpoints offered, `w` the content produced, `procR` the
    resumed run's from-scratch processing of the same body over a disk. -/
structure BodyFacts (E : Env) (T i : Nat) (body rest : List WMsg) (cks : List Ckpt) (w : List Byte)
    (procR : (Nat → List Byte) → Outcome ((List WMsg × List Byte) × List Ckpt)) : Prop where
  suffix : rest <:+ body ∧ rest.length < body.length
  bounds : body.length ≤ T → CksIn i cks (T - body.length) (T - rest.length)
  scratch : ∀ pdisk : Nat → List Byte, (pdisk i).length = E.newSizes.getD i 0 → w.length = E.newSizes.getD i 0 →
    procR pdisk = .ok ((rest, w), cks)
  resume : ∀ pre ck tail, cks = pre ++ ck :: tail →
    ∃ consumed ms, body = consumed ++ ms ∧ ms ≠ [] ∧ ck.fileIndex = i ∧ ck.msgIndex = T - ms.length ∧
      StateExact E ck consumed ms w ∧
      ∀ file : List Byte, file.length = E.newSizes.getD i 0 → w.length = E.newSizes.getD i 0 →
        file.take ck.written = w.take ck.written → resumeFile E T i ck.mid ms file = .ok ((rest, w), ck :: tail)

theorem procRelayCk_facts (E : Env) (T i : Nat) (om : WMsg) (rest1 : List WMsg) (r : Res) (rest : List WMsg)
    (r' : Res) (cks : List Ckpt) (hfull : isFullFileOp E i (asSyncOp om) = .ok none)
    (h : procRelayCk E T i (asSyncOp om) rest1 r = .ok ((rest, r'), cks)) :
    ∃ w, r'.out = r.out ++ [(i, w)] ∧
      BodyFacts E T i (om :: rest1) rest cks w (fun pdisk => procRsyncR E T pdisk i (om :: rest1)) := by
  unfold procRelayCk at h
  dsimp only at h
  by_cases hty : (asSyncOp om).type = heyYouDidIt
  · rw [if_pos hty] at h; cases h
  · rw [if_neg hty] at h
    obtain ⟨⟨w1, reads1⟩, hop, h⟩ := bind_eq_ok h
    dsimp only at h
    obtain ⟨⟨⟨rest', w', reads'⟩, cks'⟩, hloop, h⟩ := bind_eq_ok h
    dsimp only at h
    cases h
    -- the bytes of the first op
    have hop' := hop
    rw [applyOp_split] at hop'
    cases hb : applyOp E (asSyncOp om) [] [] with
    | err e => rw [hb] at hop'; cases hop'
    | panic p => rw [hb] at hop'; cases hop'
    | ok v =>
      obtain ⟨b, d⟩ := v
      rw [hb] at hop'
      dsimp only at hop'
      cases hop'
      have hsufl := rsyncLoop_suffix E _ _ _ _ _ _ (rsyncLoopCk_ok E T i hloop)
      refine ⟨w', rfl, ⟨suffix_cons_of om hsufl, ?_, ?_, ?_⟩⟩
      · -- bounds
        intro hT
        simp only [List.length_cons] at hT ⊢
        exact (rsyncLoopCk_bounds E T i rest1 _ _ _ _ _ _ hloop (by omega)).mono (by omega)
      · -- from scratch over the disk file
        intro pdisk hpl hwl
        obtain ⟨hag1, hlen1⟩ := write_agree ⟨pdisk i, 0⟩ [] b (agree_nil _)
        obtain ⟨s', hR, hag', ⟨b', hb'⟩, hlen'⟩ :=
          rsyncLoopR_sim E T i rest1 _ _ _ _ _ _ _ hag1 hloop
        have hfile : s'.file = w' := by
          apply hag'.file_eq
          rw [hlen', hlen1, hb']
          simp only [List.length_append, List.length_nil] at hwl ⊢
          have : (pdisk i).length = w'.length := by rw [hpl, hwl]
          rw [hb'] at this
          simp only [List.length_append, List.length_nil] at this
          omega
        show procRsyncR E T pdisk i (om :: rest1) = _
        unfold procRsyncR
        dsimp only
        rw [hfull]
        dsimp only [bind_ok]
        rw [if_neg hty]
        unfold applyOpW
        rw [hb]
        dsimp only [bind_ok]
        rw [hR]
        dsimp only [bind_ok]
        rw [hfile]
      · -- resumption from a checkpoint of this series
        intro pre ck tail hsplit
        obtain ⟨p, ms, wc, rc, hms, hne, hck, hrun, hpre⟩ :=
          rsyncLoopCk_snap E T i rest1 _ _ _ _ pre ck tail hloop hsplit
        obtain ⟨_, _, _, ⟨b', hb'⟩, _⟩ := rsyncLoopR_sim E T i ms _ _ _ _ _ _ _ (agree_self wc) hrun
        have htake : w'.take wc.length = wc := take_of_prefix hb'
        have hwr : ck.written = wc.length := by rw [hck]; rfl
        refine ⟨om :: p, ms, by rw [hms]; rfl, hne, by rw [hck], by rw [hck], ?_, ?_⟩
        · -- the recorded state
          unfold StateExact
          rw [hck]
          dsimp only
          refine ⟨by rw [hb']; simp only [List.length_append]; omega, ⟨r.reads, rc, ?_⟩, ⟨rc, rest, reads', ?_⟩⟩
          · rw [List.cons_append, rsyncLoop, if_neg hty, hop, htake]
            exact hpre
          · rw [htake]; exact rsyncLoopCk_ok E T i hrun
        · intro file hfl hwl hdur
          rw [hwr, htake] at hdur
          have hag : Agree ⟨file, wc.length⟩ wc := ⟨rfl, hdur⟩
          obtain ⟨s', hR, hag', _, hlen'⟩ := rsyncLoopR_sim E T i ms _ _ _ _ _ _ _ hag hrun
          have hfile : s'.file = w' := final_file hag' hlen' hfl hwl
          rw [hck]
          unfold resumeFile
          dsimp only
          rw [hR]
          dsimp only [bind_ok]
          rw [hfile, ← hck]

theorem procRsyncCk_facts (E : Env) (T i : Nat) (body : List WMsg) (r : Res) (rest : List WMsg)
    (r' : Res) (cks : List Ckpt) (h : procRsyncCk E T i body r = .ok ((rest, r'), cks)) :
    ∃ w, r'.out = r.out ++ [(i, w)] ∧
      BodyFacts E T i body rest cks w (fun pdisk => procRsyncR E T pdisk i body) := by
  cases body with
  | nil => cases h
  | cons om rest1 =>
    unfold procRsyncCk at h
    dsimp only at h
    obtain ⟨full, hfull, h⟩ := bind_eq_ok h
    cases full with
    | none => exact procRelayCk_facts E T i om rest1 r rest r' cks hfull h
    | some t =>
      dsimp only at h
      cases hrd : E.pool.readAll t with
      | err e => rw [hrd] at h; cases h
      | panic p => rw [hrd] at h; cases h
      | ok bytes =>
        rw [hrd] at h
        dsimp only at h
        obtain ⟨rest', hsk, h⟩ := bind_eq_ok h
        cases h
        refine ⟨bytes, rfl, ⟨suffix_cons_of om (skipOps_suffix _ _ hsk), fun _ => CksIn.nil _ _ _, ?_, ?_⟩⟩
        · intro pdisk _ _
          show procRsyncR E T pdisk i (om :: rest1) = _
          unfold procRsyncR
          dsimp only
          rw [hfull]
          dsimp only [bind_ok]
          rw [hrd]
          dsimp only
          rw [hsk]
          rfl
        · intro pre ck tail hsplit
          have := congrArg List.length hsplit
          simp at this

theorem idx_ok {n : Nat} {i : Int} {site : String} {t : Nat} (h : idx n i site = .ok t) : i = (t : Int) := by
  unfold idx at h
  split at h
  · rename_i hc
    cases h
    exact (Int.toNat_of_nonneg hc.1).symm
  · cases h

theorem procBsdiffCk_facts (E : Env) (T i : Nat) (body : List WMsg) (r : Res) (rest : List WMsg)
    (r' : Res) (cks : List Ckpt) (h : procBsdiffCk E T i body r = .ok ((rest, r'), cks)) :
    ∃ w, r'.out = r.out ++ [(i, w)] ∧
      BodyFacts E T i body rest cks w (fun pdisk => procBsdiffR E T pdisk i body) := by
  cases body with
  | nil => cases h
  | cons bm rest1 =>
    unfold procBsdiffCk at h
    dsimp only at h
    obtain ⟨t, hidx, h⟩ := bind_eq_ok h
    cases hfl : E.pool.flen t with
    | err e => rw [hfl] at h; cases h
    | panic p => rw [hfl] at h; cases h
    | ok flen =>
      rw [hfl] at h
      dsimp only at h
      obtain ⟨⟨⟨rest2, w⟩, cks'⟩, hloop, h⟩ := bind_eq_ok h
      dsimp only at h
      cases rest2 with
      | nil => cases h
      | cons sm rest' =>
        dsimp only at h
        by_cases hs : (asSyncOp sm).type ≠ heyYouDidIt
        · rw [if_pos hs] at h; cases h
        · rw [if_neg hs] at h
          by_cases hlen : w.length ≠ E.newSizes.getD i 0
          · rw [if_pos hlen] at h; cases h
          · rw [if_neg hlen] at h
            cases h
            have hlen' : w.length = E.newSizes.getD i 0 := Classical.not_not.mp hlen
            have hsufl := bsdiffLoop_suffix E _ _ _ _ _ _ _ (bsdiffLoopCk_ok E T i t flen hloop)
            have hsuf2 : rest <:+ rest1 ∧ rest.length < rest1.length :=
              ⟨List.IsSuffix.trans (List.suffix_cons sm rest) hsufl.1, by
                have := hsufl.2; simp only [List.length_cons] at this; omega⟩
            -- the end of the series over a writer that stands for `w`
            have hfinish : ∀ (s' : W) (cs : List Ckpt), Agree s' w → s'.file = w →
                bsdiffFinish E i (sm :: rest) s' cs = .ok ((rest, w), cs) := by
              intro s' cs hag hfile
              unfold bsdiffFinish
              dsimp only
              rw [if_neg hs, if_neg (by rw [hag.1]; exact hlen), hfile]
            refine ⟨w, rfl, ⟨suffix_cons_of bm hsuf2, ?_, ?_, ?_⟩⟩
            · intro hT
              simp only [List.length_cons] at hT ⊢
              have hb := (bsdiffLoopCk_bounds E T i t flen rest1 _ _ _ _ _ hloop (by omega)).mono
                (show T - (rest1.length + 1) ≤ T - rest1.length by omega)
              refine ⟨hb.1, fun ck hck => ?_⟩
              obtain ⟨h1, h2, h3⟩ := hb.2 ck hck
              simp only [List.length_cons] at h3
              exact ⟨h1, h2, by omega⟩
            · intro pdisk hpl hwl
              obtain ⟨s', hR, hag', _, hl'⟩ :=
                bsdiffLoopR_sim E T i t flen rest1 _ _ _ _ _ _ (agree_nil (pdisk i)) hloop
              have hfile : s'.file = w := final_file hag' hl' hpl hwl
              show procBsdiffR E T pdisk i (bm :: rest1) = _
              unfold procBsdiffR
              dsimp only
              rw [hidx]
              dsimp only [bind_ok]
              rw [hfl]
              dsimp only
              rw [hR]
              dsimp only [bind_ok]
              exact hfinish s' _ hag' hfile
            · intro pre ck tail hsplit
              obtain ⟨p, ms, offc, wc, hms, hne, hck, hrun, hpre, hoff⟩ :=
                bsdiffLoopCk_snap E T i t flen rest1 _ _ _ _ pre ck tail hloop hsplit
              obtain ⟨_, _, _, ⟨b', hb'⟩, _⟩ := bsdiffLoopR_sim E T i t flen ms _ _ _ _ _ _ (agree_self wc) hrun
              have htake : w.take wc.length = wc := take_of_prefix hb'
              have hwr : ck.written = wc.length := by rw [hck]; rfl
              refine ⟨bm :: p, ms, by rw [hms]; rfl, hne, by rw [hck], by rw [hck], ?_, ?_⟩
              · unfold StateExact
                rw [hck]
                dsimp only
                refine ⟨by rw [hb']; simp only [List.length_append]; omega, bm, p, flen, rfl, idx_ok hidx, hfl, ?_,
                  hoff, ⟨sm :: rest, ?_⟩⟩
                · rw [htake]; exact hpre
                · rw [htake]; exact bsdiffLoopCk_ok E T i t flen hrun
              · intro file hfl' hwl hdur
                rw [hwr, htake] at hdur
                have hag : Agree ⟨file, wc.length⟩ wc := ⟨rfl, hdur⟩
                obtain ⟨s', hR, hag', _, hl'⟩ := bsdiffLoopR_sim E T i t flen ms _ _ _ _ _ _ hag hrun
                have hfile : s'.file = w := final_file hag' hl' hfl' hwl
                rw [hck]
                unfold resumeFile
                dsimp only
                rw [hfl]
                dsimp only
                rw [hR]
                dsimp only [bind_ok]
                rw [← hck]
                exact hfinish s' _ hag' hfile

/-- the same facts for a whole file (SyncHeader included) -/
structure FileFacts (E : Env) (T i : Nat) (msgs rest : List WMsg) (cks : List Ckpt) (w : List Byte) : Prop where
  suffix : rest <:+ msgs ∧ rest.length < msgs.length
  bounds : msgs.length ≤ T → CksIn i cks (T - msgs.length) (T - rest.length)
  scratch : ∀ pdisk : Nat → List Byte, (pdisk i).length = E.newSizes.getD i 0 → w.length = E.newSizes.getD i 0 →
    processFileR E T pdisk i msgs = .ok ((rest, w), cks)
  resume : ∀ pre ck tail, cks = pre ++ ck :: tail →
    ∃ hm consumed ms, msgs = hm :: (consumed ++ ms) ∧ ms ≠ [] ∧ (asSyncHeader hm).fileIndex = i ∧
      ck.fileIndex = i ∧ ck.msgIndex = T - ms.length ∧ StateExact E ck consumed ms w ∧
      ∀ file : List Byte, file.length = E.newSizes.getD i 0 → w.length = E.newSizes.getD i 0 →
        file.take ck.written = w.take ck.written → resumeFile E T i ck.mid ms file = .ok ((rest, w), ck :: tail)

theorem FileFacts.of_body {E : Env} {T i : Nat} {hm : WMsg} {body rest : List WMsg} {cks : List Ckpt} {w : List Byte}
    {procR : (Nat → List Byte) → Outcome ((List WMsg × List Byte) × List Ckpt)}
    (hb : BodyFacts E T i body rest cks w procR) (hidx : (asSyncHeader hm).fileIndex = i)
    (hproc : ∀ pdisk, processFileR E T pdisk i (hm :: body) = procR pdisk) :
    FileFacts E T i (hm :: body) rest cks w := by
  refine ⟨suffix_cons_of hm hb.suffix, ?_, ?_, ?_⟩
  · intro hT
    simp only [List.length_cons] at hT ⊢
    exact (hb.bounds (by omega)).mono (by omega)
  · intro pdisk h1 h2
    rw [hproc]
    exact hb.scratch pdisk h1 h2
  · intro pre ck tail hsplit
    obtain ⟨consumed, ms, hbody, hne, h1, h2, h3, h4⟩ := hb.resume pre ck tail hsplit
    exact ⟨hm, consumed, ms, by rw [hbody], hne, hidx, h1, h2, h3, h4⟩

theorem processFileCk_facts (E : Env) (T i : Nat) (msgs : List WMsg) (r : Res) (rest : List WMsg) (r' : Res)
    (cks : List Ckpt) (hwl : E.whitelist = none) (h : processFileCk E T i msgs r = .ok ((rest, r'), cks)) :
    ∃ w, r'.out = r.out ++ [(i, w)] ∧ FileFacts E T i msgs rest cks w := by
  cases msgs with
  | nil => cases h
  | cons hm body =>
    unfold processFileCk at h
    dsimp only at h
    by_cases h1 : (asSyncHeader hm).fileIndex ≠ i
    · rw [if_pos h1] at h; cases h
    · rw [if_neg h1] at h
      by_cases h2 : (asSyncHeader hm).type ≠ kindRsync ∧ (asSyncHeader hm).type ≠ kindBsdiff
      · rw [if_pos h2] at h; cases h
      · rw [if_neg h2] at h
        simp only [hwl, Bool.false_eq_true, if_false] at h
        have hidx : (asSyncHeader hm).fileIndex = i := Classical.not_not.mp h1
        by_cases hk : (asSyncHeader hm).type = kindRsync
        · rw [if_pos hk] at h
          obtain ⟨w, hout, hb⟩ := procRsyncCk_facts E T i body r rest r' cks h
          refine ⟨w, hout, FileFacts.of_body hb hidx ?_⟩
          intro pdisk
          unfold processFileR
          dsimp only
          rw [if_neg h1, if_neg h2, if_pos hk]
        · rw [if_neg hk] at h
          obtain ⟨w, hout, hb⟩ := procBsdiffCk_facts E T i body r rest r' cks h
          refine ⟨w, hout, FileFacts.of_body hb hidx ?_⟩
          intro pdisk
          unfold processFileR
          dsimp only
          rw [if_neg h1, if_neg h2, if_neg hk]

/-! ### all files -/

theorem patchFromCk_succ_inv (E : Env) (T n i : Nat) (msgs : List WMsg) (r R : Res) (cks : List Ckpt)
    (h : patchFromCk E T (n + 1) i msgs r = .ok (R, cks)) :
    ∃ rest r1 cks1 cks2, processFileCk E T i msgs r = .ok ((rest, r1), cks1) ∧
      patchFromCk E T n (i + 1) rest r1 = .ok (R, cks2) ∧ cks = cks1 ++ cks2 := by
  rw [patchFromCk] at h
  cases hp : processFileCk E T i msgs r with
  | err e => rw [hp] at h; cases h
  | panic p => rw [hp] at h; cases h
  | ok v =>
    obtain ⟨⟨rest, r1⟩, cks1⟩ := v
    rw [hp] at h
    dsimp only at h
    cases hq : patchFromCk E T n (i + 1) rest r1 with
    | err e => rw [hq] at h; cases h
    | panic p => rw [hq] at h; cases h
    | ok v2 =>
      obtain ⟨R', cks2⟩ := v2
      rw [hq] at h
      cases h
      exact ⟨rest, r1, cks1, cks2, rfl, hq, rfl⟩

/-- the files processed from their SyncHeader by the resumed run, over ANY disk, come out as in the
    uninterrupted run (given the sizes) -/
theorem patchFromCk_scratch (E : Env) (T : Nat) (hwl : E.whitelist = none) (n : Nat) :
    ∀ (i : Nat) (msgs : List WMsg) (r R : Res) (cks : List Ckpt),
      patchFromCk E T n i msgs r = .ok (R, cks) →
      ∃ outs, R.out = r.out ++ outs ∧ outs.map (·.1) = List.range' i n ∧
        ∀ pdisk : Nat → List Byte, (∀ k, (pdisk k).length = E.newSizes.getD k 0) → SizesOK E outs →
          patchFromR E T pdisk n i msgs = .ok (outs, cks) := by
  induction n with
  | zero =>
    intro i msgs r R cks h
    cases h
    exact ⟨[], (List.append_nil _).symm, rfl, fun _ _ _ => rfl⟩
  | succ n ih =>
    intro i msgs r R cks h
    obtain ⟨rest, r1, cks1, cks2, hp, hq, hcks⟩ := patchFromCk_succ_inv E T n i msgs r R cks h
    obtain ⟨w, hout1, hf⟩ := processFileCk_facts E T i msgs r rest r1 cks1 hwl hp
    obtain ⟨outs, hout, hmap, hR⟩ := ih (i + 1) rest r1 R cks2 hq
    refine ⟨(i, w) :: outs, by rw [hout, hout1, List.append_assoc]; rfl, ?_, ?_⟩
    · rw [List.map_cons, hmap, List.range'_succ]
    · intro pdisk hpl hsz
      have hw : w.length = E.newSizes.getD i 0 := hsz (i, w) (List.mem_cons_self ..)
      have hsz' : SizesOK E outs := fun p hp => hsz p (List.mem_cons_of_mem _ hp)
      rw [patchFromR, hf.scratch pdisk (hpl i) hw]
      dsimp only
      rw [hR pdisk hpl hsz', hcks]

theorem StateExact.written_le {E : Env} {ck : Ckpt} {consumed ms : List WMsg} {w : List Byte}
    (h : StateExact E ck consumed ms w) : ck.written ≤ w.length := by
  unfold StateExact at h
  unfold Ckpt.written Mid.written
  split at h
  · exact h.1
  · exact h.1

/-- conclusion of the main lemma -/
def ResumeGoal (E : Env) (msgs : List WMsg) (i n : Nat) (r R : Res) (ck : Ckpt) (tail : List Ckpt) : Prop :=
  ∃ before w after, R.out = r.out ++ before ++ (ck.fileIndex, w) :: after ∧
    before.map (·.1) = List.range' i (ck.fileIndex - i) ∧ i ≤ ck.fileIndex ∧ ck.fileIndex < i + n ∧
    Located E msgs ck w ∧
    ∀ pdisk : Nat → List Byte, (∀ k, (pdisk k).length = E.newSizes.getD k 0) →
      SizesOK E ((ck.fileIndex, w) :: after) →
      (pdisk ck.fileIndex).take ck.written = w.take ck.written →
      ∃ rest cksj cksa,
        resumeFile E msgs.length ck.fileIndex ck.mid (msgs.drop ck.msgIndex) (pdisk ck.fileIndex)
          = .ok ((rest, w), cksj) ∧
        patchFromR E msgs.length pdisk (i + n - (ck.fileIndex + 1)) (ck.fileIndex + 1) rest
          = .ok (after, cksa) ∧
        cksj ++ cksa = ck :: tail

/-- Main lemma: a checkpoint of the instrumented run belongs to some file `j`; the files before `j` are
    complete, and resuming file `j` from the checkpoint over any disk that holds the durable bytes, then
    processing the later files over any disk, gives the uninterrupted contents and the later checkpoints. -/
theorem patchFromCk_resume (E : Env) (msgs : List WMsg) (hwl : E.whitelist = none) (n : Nat) :
    ∀ (i : Nat) (msgs_i : List WMsg) (r R : Res) (cks : List Ckpt), msgs_i <:+ msgs →
      patchFromCk E msgs.length n i msgs_i r = .ok (R, cks) →
      ∀ pre ck tail, cks = pre ++ ck :: tail → ResumeGoal E msgs i n r R ck tail := by
  induction n with
  | zero =>
    intro i msgs_i r R cks _ h pre ck tail hsplit
    cases h
    have := congrArg List.length hsplit
    simp at this
  | succ n ih =>
    intro i msgs_i r R cks hsuf h pre ck tail hsplit
    obtain ⟨rest, r1, cks1, cks2, hp, hq, hcks⟩ := patchFromCk_succ_inv E _ n i msgs_i r R cks h
    obtain ⟨wi, hout1, hf⟩ := processFileCk_facts E _ i msgs_i r rest r1 cks1 hwl hp
    have hsuf' : rest <:+ msgs := List.IsSuffix.trans hf.suffix.1 hsuf
    -- the checkpoint belongs to a later file
    have caseA : ∀ a', cks2 = a' ++ ck :: tail → ResumeGoal E msgs i (n + 1) r R ck tail := by
      intro a' h2
      obtain ⟨before, w, after, hout, hmap, hle, hlt, hloc, hres⟩ := ih (i + 1) rest r1 R cks2 hsuf' hq a' ck tail h2
      refine ⟨(i, wi) :: before, w, after, ?_, ?_, by omega, by omega, hloc, ?_⟩
      · rw [hout, hout1]; simp only [List.append_assoc, List.cons_append, List.nil_append]
      · rw [List.map_cons, hmap]
        have : ck.fileIndex - i = (ck.fileIndex - (i + 1)) + 1 := by omega
        rw [this, List.range'_succ]
      · intro pdisk hpl hsz hdur
        have : i + (n + 1) - (ck.fileIndex + 1) = i + 1 + n - (ck.fileIndex + 1) := by omega
        rw [this]
        exact hres pdisk hpl hsz hdur
    -- the checkpoint belongs to this file
    have caseB : ∀ c'', cks1 = pre ++ ck :: c'' → tail = c'' ++ cks2 → ResumeGoal E msgs i (n + 1) r R ck tail := by
      intro c'' h1 h2
      obtain ⟨hm, consumed, ms, hmsgs, hne, hidx, hfi, hmi, hst, hres⟩ := hf.resume pre ck c'' h1
      obtain ⟨after, hout, _, hR⟩ := patchFromCk_scratch E _ hwl n (i + 1) rest r1 R cks2 hq
      obtain ⟨before0, hb0⟩ := hsuf
      have hlen : msgs.length = before0.length + 1 + consumed.length + ms.length := by
        rw [← hb0, hmsgs]; simp only [List.length_append, List.length_cons]; omega
      have hms_suf : ms <:+ msgs := ⟨before0 ++ hm :: consumed, by rw [← hb0, hmsgs]; simp⟩
      have hdrop : msgs.drop ck.msgIndex = ms := by
        rw [hmi]; exact (List.suffix_iff_eq_drop.mp hms_suf).symm
      refine ⟨[], wi, after, ?_, ?_, by omega, by omega, ?_, ?_⟩
      · rw [hout, hout1, hfi]; simp only [List.append_assoc, List.cons_append, List.nil_append, List.append_nil]
      · rw [hfi, Nat.sub_self]; rfl
      · exact ⟨before0, hm, consumed, ms, by rw [← hb0, hmsgs], hne, by rw [hfi]; exact hidx,
          by rw [hmi, hlen]; omega, hst⟩
      · intro pdisk hpl hsz hdur
        have hw : wi.length = E.newSizes.getD i 0 := by
          have := hsz (ck.fileIndex, wi) (List.mem_cons_self ..)
          rw [hfi] at this; exact this
        have hsz' : SizesOK E after := fun p hp => hsz p (List.mem_cons_of_mem _ hp)
        rw [hfi] at hdur ⊢
        refine ⟨rest, ck :: c'', cks2, ?_, ?_, by rw [h2]; rfl⟩
        · rw [hdrop]; exact hres (pdisk i) (hpl i) hw hdur
        · have : i + (n + 1) - (i + 1) = n := by omega
          rw [this]; exact hR pdisk hpl hsz'
    rw [hcks] at hsplit
    rcases List.append_eq_append_iff.mp hsplit with ⟨a', _, h2⟩ | ⟨c', h1, h2⟩
    · exact caseA a' h2
    · cases c' with
      | nil =>
        simp only [List.nil_append] at h2
        exact caseA [] (by rw [← h2]; rfl)
      | cons c c'' =>
        simp only [List.cons_append, List.cons.injEq] at h2
        obtain ⟨rfl, h2⟩ := h2
        exact caseB c'' h1 h2

/-! ### the whole resumed run -/

theorem patchCk_of_patch (E : Env) (msgs : List WMsg) (R : Res) (hp : patch E msgs = .ok R) :
    patchCk E msgs = .ok (R, checkpoints E msgs) := by
  rw [← patchCk_fst] at hp
  obtain ⟨cks, h⟩ := dropCks_ok_iff.mp hp
  unfold checkpoints
  rw [h]

theorem prepare_self (d : List Byte) : Resume.prepare d d.length = d := by
  unfold Resume.prepare
  rw [if_pos (Nat.le_refl _), List.take_length]

theorem map_range_eq (before : List (Nat × List Byte)) (f : Nat → List Byte) (j : Nat)
    (hmap : before.map (·.1) = List.range j) (hf : ∀ p ∈ before, f p.1 = p.2) :
    (List.range j).map (fun k => (k, f k)) = before := by
  rw [← hmap, List.map_map]
  conv => rhs; rw [← List.map_id before]
  apply List.map_congr_left
  intro p hp
  simp only [Function.comp, id]
  rw [hf p hp]

/-- The resumed run, from any checkpoint of the uninterrupted run and any crash state, produces the
    uninterrupted output and offers exactly the checkpoints from `ck` on. -/
theorem resumeRun_eq (E : Env) (msgs : List WMsg) (R : Res) (hp : patch E msgs = .ok R)
    (hwl : E.whitelist = none) (hsz : SizesOK E R.out) (pre : List Ckpt) (ck : Ckpt) (tail : List Ckpt)
    (hcks : checkpoints E msgs = pre ++ ck :: tail) (disk : Nat → List Byte) (hcrash : CrashOKFor R.out ck disk) :
    resumeRun E msgs ck disk = .ok (R.out, ck :: tail) ∧ (∃ w, Located E msgs ck w ∧ (ck.fileIndex, w) ∈ R.out) := by
  have hck := patchCk_of_patch E msgs R hp
  unfold patchCk at hck
  obtain ⟨before, w, after, hout, hmap, _, hlt, hloc, hres⟩ :=
    patchFromCk_resume E msgs hwl E.newSizes.size 0 msgs {} R _ (List.suffix_refl _) hck pre ck tail hcks
  have hout' : R.out = before ++ (ck.fileIndex, w) :: after := by
    rw [hout]; show [] ++ before ++ _ = _; rw [List.nil_append]
  have hmem : (ck.fileIndex, w) ∈ R.out := by rw [hout']; simp
  refine ⟨?_, w, hloc, hmem⟩
  -- the prepared disk
  have hpl : ∀ k, (Resume.prepare (disk k) (E.newSizes.getD k 0)).length = E.newSizes.getD k 0 :=
    fun k => Resume.prepare_length _ _
  have hszj : SizesOK E ((ck.fileIndex, w) :: after) := by
    intro p hp'
    apply hsz
    rw [hout']
    exact List.mem_append_right _ hp'
  have hwlen : w.length = E.newSizes.getD ck.fileIndex 0 := hsz _ hmem
  have hwr : ck.written ≤ w.length := by
    obtain ⟨_, _, _, _, _, _, _, _, hst⟩ := hloc
    exact hst.written_le
  have hdur : (disk ck.fileIndex).take ck.written = w.take ck.written := (hcrash _ hmem).2 rfl
  have hdl : ck.written ≤ (disk ck.fileIndex).length :=
    Resume.take_eq_length_le _ _ _ hdur (by rw [List.length_take]; omega)
  have hdur' : (Resume.prepare (disk ck.fileIndex) (E.newSizes.getD ck.fileIndex 0)).take ck.written
      = w.take ck.written := by
    rw [Resume.prepare_take _ _ _ (by omega) hdl, hdur]
  obtain ⟨rest, cksj, cksa, hfile, hlater, hcat⟩ :=
    hres (fun k => Resume.prepare (disk k) (E.newSizes.getD k 0)) hpl hszj hdur'
  -- the completed files
  have hdone : (List.range ck.fileIndex).map
      (fun k => (k, Resume.prepare (disk k) (E.newSizes.getD k 0))) = before := by
    apply map_range_eq
    · rw [hmap, Nat.sub_zero, List.range_eq_range']
    · intro p hpb
      have hpR : p ∈ R.out := by rw [hout']; exact List.mem_append_left _ hpb
      have hlt' : p.1 < ck.fileIndex := by
        have : p.1 ∈ before.map (·.1) := List.mem_map_of_mem hpb
        rw [hmap, Nat.sub_zero] at this
        have := List.mem_range'_1.mp this
        omega
      rw [(hcrash p hpR).1 hlt', ← hsz p hpR, prepare_self]
  unfold resumeRun
  rw [hwl]
  dsimp only
  rw [if_pos (by omega), hfile]
  dsimp only
  rw [Nat.zero_add] at hlater
  rw [hlater]
  dsimp only
  rw [hdone, hcat, hout']

/-! ### the checkpoint list is ordered -/

theorem patchFromCk_sorted (E : Env) (T : Nat) (hwl : E.whitelist = none) (n : Nat) :
    ∀ (i : Nat) (msgs_i : List WMsg) (r R : Res) (cks : List Ckpt),
      patchFromCk E T n i msgs_i r = .ok (R, cks) → msgs_i.length ≤ T →
      cks.Pairwise Before ∧
      ∀ ck ∈ cks, T - msgs_i.length ≤ ck.msgIndex ∧ ck.msgIndex < T ∧ i ≤ ck.fileIndex := by
  induction n with
  | zero =>
    intro i msgs_i r R cks h _
    cases h
    exact ⟨List.Pairwise.nil, fun _ h => by cases h⟩
  | succ n ih =>
    intro i msgs_i r R cks h hT
    obtain ⟨rest, r1, cks1, cks2, hp, hq, hcks⟩ := patchFromCk_succ_inv E T n i msgs_i r R cks h
    obtain ⟨wi, _, hf⟩ := processFileCk_facts E T i msgs_i r rest r1 cks1 hwl hp
    obtain ⟨hpw1, hall1⟩ := hf.bounds hT
    have hlt := hf.suffix.2
    obtain ⟨hpw2, hall2⟩ := ih (i + 1) rest r1 R cks2 hq (by omega)
    rw [hcks]
    refine ⟨List.pairwise_append.mpr ⟨?_, hpw2, ?_⟩, ?_⟩
    · apply List.Pairwise.imp_of_mem _ hpw1
      intro a b ha hb hab
      exact ⟨hab, by rw [(hall1 a ha).1, (hall1 b hb).1]; exact Nat.le_refl _⟩
    · intro a ha b hb
      obtain ⟨h1, _, h3⟩ := hall1 a ha
      obtain ⟨h4, _, h6⟩ := hall2 b hb
      exact ⟨by omega, by omega⟩
    · intro ck hck
      rcases List.mem_append.mp hck with hck | hck
      · obtain ⟨h1, h2, h3⟩ := hall1 ck hck
        exact ⟨h2, by omega, by omega⟩
      · obtain ⟨h4, h5, h6⟩ := hall2 ck hck
        exact ⟨by omega, h5, by omega⟩

/-- every checkpoint of the uninterrupted run belongs to a file of the new build, was taken before the last
    message, and records the state of the run at that point (no assumption on sizes, no disk involved) -/
theorem checkpoint_facts (E : Env) (msgs : List WMsg) (R : Res) (hp : patch E msgs = .ok R)
    (hwl : E.whitelist = none) (ck : Ckpt) (hck : ck ∈ checkpoints E msgs) :
    ck.fileIndex < E.newSizes.size ∧ ck.msgIndex < msgs.length ∧
      ∃ w, (ck.fileIndex, w) ∈ R.out ∧ Located E msgs ck w := by
  have hpc := patchCk_of_patch E msgs R hp
  unfold patchCk at hpc
  obtain ⟨pre, tail, hsplit⟩ := List.append_of_mem hck
  obtain ⟨before, w, after, hout, _, _, hlt, hloc, _⟩ :=
    patchFromCk_resume E msgs hwl E.newSizes.size 0 msgs {} R _ (List.suffix_refl _) hpc pre ck tail hsplit
  obtain ⟨_, hall⟩ := patchFromCk_sorted E msgs.length hwl E.newSizes.size 0 msgs {} R _ hpc (Nat.le_refl _)
  refine ⟨by omega, (hall ck hck).2.1, w, ?_, hloc⟩
  rw [hout]; simp

theorem checkpoints_sorted (E : Env) (msgs : List WMsg) (R : Res) (hp : patch E msgs = .ok R)
    (hwl : E.whitelist = none) : (checkpoints E msgs).Pairwise Before := by
  have hpc := patchCk_of_patch E msgs R hp
  unfold patchCk at hpc
  exact (patchFromCk_sorted E msgs.length hwl E.newSizes.size 0 msgs {} R _ hpc (Nat.le_refl _)).1

end Wharf.PatchResume
